//! C05 — clocks: drive real clocks through a real AudioManager (custom backend owning the
//! Renderer), with arbitrary callback sizes and internal buffer sizes; observe ClockHandle::time()
//! / ticking(), the device buffer (when do clock-scheduled sounds / tweens / resumes begin) and
//! sound states; evaluate the property monitors; emit the same histories for the model.
use crate::backend::*;
use crate::util::*;
use kira::clock::{ClockHandle, ClockSpeed, ClockTime};
use kira::sound::static_sound::{StaticSoundData, StaticSoundHandle, StaticSoundSettings};
use kira::sound::PlaybackState;
use kira::{Decibels, Easing, Frame, StartTime, Tween};
use std::sync::{mpsc, Arc, Mutex};
use std::time::Duration;

#[derive(Clone, Copy, Debug, PartialEq)]
struct Spd {
	kind: u8, // 0 SecondsPerTick, 1 TicksPerSecond, 2 TicksPerMinute
	x: f64,
}
impl Spd {
	fn real(self) -> ClockSpeed {
		match self.kind {
			0 => ClockSpeed::SecondsPerTick(self.x),
			1 => ClockSpeed::TicksPerSecond(self.x),
			_ => ClockSpeed::TicksPerMinute(self.x),
		}
	}
	fn tps(self) -> f64 {
		self.real().as_ticks_per_second()
	}
}
#[derive(Clone, Copy, Debug, PartialEq)]
enum St {
	Imm,
	Del(u64),
	Clk { clock: usize, ticks: u64, fr: f64 },
}
#[derive(Clone, Copy, Debug, PartialEq)]
enum Op {
	AddClock(Spd),
	Start(usize),
	Pause(usize),
	Stop(usize),
	SetSpeed { c: usize, v: Spd, start: St, dur_ns: u64, easing: Easing },
	Drop(usize),
	/// kind 0: play a sound with this start time; 1: tween (volume to silence, zero duration) with
	/// this start time on a sound that is already playing; 2: pause + resume_at(start time)
	Wait(u8, St),
	StartProc,
	Process(usize),
	Obs(usize),
	/// pause (zero-length fade) the `i`-th thing that waits (a kind-0 sound); never given to the model
	SndPause(usize),
	/// resume (zero-length fade) the `i`-th thing that waits; never given to the model
	SndResume(usize),
	/// record the playback state and position of the `i`-th thing that waits; never given to the model
	SndObs(usize),
	/// the next `n` (user-side) ops are not executed now but by the user's thread WHILE the audio thread is inside
	/// the next `StartProc` (= `Renderer::on_start_processing`), at this point of it: 0 = the `on_start_processing`
	/// of an effect on a live sub-track, 1 = of an effect on a live send track, 2 = of a sound on a live sub-track
	/// (all three: before the main track picks up its new sounds and before the clocks are picked up), 3 = of an
	/// effect on the main track (after the main track picked up its sounds, before the clocks are picked up)
	Mid { point: u8, n: usize },
}
#[derive(Clone, Debug)]
struct Scenario {
	sr: u32,
	buf: usize,
	ops: Vec<Op>,
	dyadic: bool,
}

fn easing_code(e: Easing) -> (i128, i128) {
	match e {
		Easing::Linear => (0, 0),
		Easing::InPowi(p) => (1, p as i128),
		Easing::OutPowi(p) => (2, p as i128),
		Easing::InOutPowi(p) => (3, p as i128),
		_ => (0, 0),
	}
}
/// exact value of a (dyadic) f64 as a reduced fraction
fn exact(x: f64) -> Option<(i128, i128)> {
	if !x.is_finite() {
		return None;
	}
	if x == 0.0 {
		return Some((0, 1));
	}
	let b = x.to_bits();
	let neg = (b >> 63) != 0;
	let e = ((b >> 52) & 0x7FF) as i32;
	let mut m = (b & ((1u64 << 52) - 1)) as i128;
	let mut ex = if e == 0 { -1074 } else { m |= 1i128 << 52; e - 1075 };
	while m % 2 == 0 && ex < 0 {
		m /= 2;
		ex += 1;
	}
	if ex >= 0 {
		if ex > 60 {
			return None;
		}
		Some((if neg { -(m << ex) } else { m << ex }, 1))
	} else {
		if ex < -100 {
			return None;
		}
		Some((if neg { -m } else { m }, 1i128 << (-ex)))
	}
}
fn rn(x: f64, dyadic: bool) -> String {
	let (n, d) = if dyadic { exact(x).unwrap_or((0, 1)) } else { (0, 1) };
	format!("(RN {} {} {})", f64_bits_z(x), z(n), d)
}
fn st_term(s: &St, dy: bool) -> String {
	match s {
		St::Imm => "SImm".into(),
		St::Del(ns) => format!("(SDel {})", ns),
		St::Clk { clock, ticks, fr } => format!("(SClk {} {} {})", clock, ticks, rn(*fr, dy)),
	}
}
fn op_term(o: &Op, dy: bool) -> String {
	match o {
		Op::AddClock(s) => format!("RAddClock {} {}", s.kind, rn(s.x, dy)),
		Op::Start(c) => format!("RStart {}", c),
		Op::Pause(c) => format!("RPause {}", c),
		Op::Stop(c) => format!("RStop {}", c),
		Op::SetSpeed { c, v, start, dur_ns, easing } => {
			let (ek, ep) = easing_code(*easing);
			format!("RSetSpeed {} {} {} {} {} {} {}", c, v.kind, rn(v.x, dy), st_term(start, dy), dur_ns, ek, z(ep))
		}
		Op::Drop(c) => format!("RDrop {}", c),
		Op::Wait(k, s) => format!("RWait {} {}", k, st_term(s, dy)),
		Op::StartProc => "RStartProc".into(),
		Op::Process(n) => format!("RProcess {}", n),
		Op::Obs(c) => format!("RObs {}", c),
		Op::SndPause(i) => format!("<waiter {}: handle.pause(zero-length fade)>", i),
		Op::SndResume(i) => format!("<waiter {}: handle.resume(zero-length fade)>", i),
		Op::SndObs(i) => format!("<waiter {}: read state() and position()>", i),
		Op::Mid { .. } => unreachable!("linearise removes Mid"),
	}
}
/// The sequential history that a history with mid-callback blocks must be indistinguishable from (this is what the
/// model is given; Pickup.v, theorem `pickup_clock_before_waiter`): a block that ran inside an `on_start_processing` before the
/// clocks were picked up acts as if it had run just before that `on_start_processing` — except that what it gave
/// to a track that had already picked up its new sounds in this callback (point 3: the main track) is picked up by
/// the next callback, i.e. acts as if played right after this callback's frames.
fn linearise(ops: &[Op]) -> Vec<Op> {
	let mut out = vec![];
	let mut deferred: Vec<Op> = vec![];
	let mut state = 0; // 1: deferred waits, their on_start_processing not yet seen; 2: seen, its Process not yet
	let mut i = 0;
	while i < ops.len() {
		match ops[i] {
			Op::Mid { point, n } => {
				for j in i + 1..=i + n {
					if point == 3 && matches!(ops[j], Op::Wait(..)) {
						deferred.push(ops[j]);
					} else {
						out.push(ops[j]);
					}
				}
				i += n;
				if !deferred.is_empty() {
					state = 1;
				}
			}
			Op::StartProc => {
				if state == 2 {
					out.append(&mut deferred);
					state = 0;
				}
				out.push(Op::StartProc);
				if state == 1 {
					state = 2;
				}
			}
			Op::Process(n) => {
				out.push(Op::Process(n));
				if state == 2 {
					out.append(&mut deferred);
					state = 0;
				}
			}
			o => out.push(o),
		}
		i += 1;
	}
	out.append(&mut deferred);
	out
}
/// the history as it was run, mid-callback blocks included (for failure reports)
fn scenario_text(sc: &Scenario) -> String {
	if !sc.ops.iter().any(|o| matches!(o, Op::Mid { .. })) {
		return scenario_term(sc, false);
	}
	let mut parts = vec![];
	for o in &sc.ops {
		match o {
			Op::Mid { point, n } => parts.push(format!(
				"<the next {} ops run on the user's thread INSIDE the following RStartProc, from the on_start_processing of {}>",
				n,
				["an effect on a live sub-track", "an effect on a live send track", "a sound on a live sub-track", "an effect on the main track"][*point as usize]
			)),
			o => parts.push(op_term(o, sc.dyadic)),
		}
	}
	format!("CSys64 {} {} [{}]  (sequential equivalent given to the model: {})", sc.sr, sc.buf, parts.join("; "), scenario_term(sc, false))
}
fn scenario_term(sc: &Scenario, q: bool) -> String {
	format!(
		"{} {} {} [{}]",
		if q { "CSysQ" } else { "CSys64" },
		sc.sr,
		sc.buf,
		linearise(&sc.ops).iter().map(|o| op_term(o, sc.dyadic)).collect::<Vec<_>>().join("; ")
	)
}

fn real_start(s: &St, clocks: &[Option<ClockHandle>], ids: &[kira::clock::ClockId]) -> StartTime {
	let _ = clocks;
	match s {
		St::Imm => StartTime::Immediate,
		St::Del(ns) => StartTime::Delayed(Duration::from_nanos(*ns)),
		St::Clk { clock, ticks, fr } => StartTime::ClockTime(ClockTime { clock: ids[*clock], ticks: *ticks, fraction: *fr }),
	}
}

/// one observation of a clock handle
#[derive(Clone, Copy, Debug, PartialEq)]
struct View {
	ticking: bool,
	ticks: u64,
	fr: f64,
}
#[derive(Clone, Debug)]
struct WaitObs {
	kind: u8,
	start: St,
	/// device frame at which the wait was issued
	issued_at: usize,
	/// 0 waiting, 1 begun (at the chunk starting at `frame`), 2 stopped
	state: u8,
	frame: i64,
	final_state: PlaybackState,
}
#[derive(Clone, Debug, Default)]
struct Trace {
	/// (op index, clock, view)
	views: Vec<(usize, usize, View)>,
	waits: Vec<WaitObs>,
	/// start frame of every processed chunk
	chunk_starts: Vec<usize>,
	/// (op index, waiter, state, position)
	snd_views: Vec<(usize, usize, PlaybackState, f64)>,
	obs64: Vec<i128>,
	obsq: Vec<i128>,
	complete: bool,
	panic: Option<i128>,
}

const ZERO_TWEEN: Tween = Tween { start_time: StartTime::Immediate, duration: Duration::ZERO, easing: Easing::Linear };

struct SoundW {
	kind: u8,
	start: St,
	issued_at: usize,
	handle: StaticSoundHandle,
	bit: u32, // for kind 0: left channel carries 2^-(3+bit)
}

/// the user's side of a history: the manager and every handle it got
struct Game {
	mgr: crate::inject::SMgr,
	sr: u32,
	total_frames: usize,
	clocks: Vec<Option<ClockHandle>>,
	ids: Vec<kira::clock::ClockId>,
	sounds: Vec<SoundW>,
	nbits: u32,
	/// sounds given to the main track after it had picked up its new sounds in this callback: they exist for the
	/// audio thread from the next callback on
	picked_up_next_callback: Vec<usize>,
}
impl Game {
	/// one user-side op; `now` = device frames produced so far
	fn apply(&mut self, oi: usize, o: &Op, now: usize, shared: &Arc<Mutex<Trace>>) {
		match o {
			Op::AddClock(s) => {
				let h = self.mgr.lock().unwrap().add_clock(s.real()).unwrap();
				self.ids.push(h.id());
				self.clocks.push(Some(h));
			}
			Op::Start(c) => {
				if let Some(h) = self.clocks[*c].as_mut() {
					h.start()
				}
			}
			Op::Pause(c) => {
				if let Some(h) = self.clocks[*c].as_mut() {
					h.pause()
				}
			}
			Op::Stop(c) => {
				if let Some(h) = self.clocks[*c].as_mut() {
					h.stop()
				}
			}
			Op::SetSpeed { c, v, start, dur_ns, easing } => {
				let st = real_start(start, &self.clocks, &self.ids);
				if let Some(h) = self.clocks[*c].as_mut() {
					h.set_speed(v.real(), Tween { start_time: st, duration: Duration::from_nanos(*dur_ns), easing: *easing });
				}
			}
			Op::Drop(c) => {
				self.clocks[*c] = None;
			}
			Op::Wait(kind, start) => {
				let st = real_start(start, &self.clocks, &self.ids);
				let (frame, bit) = if *kind == 0 {
					let b = self.nbits;
					self.nbits += 1;
					(Frame::new(1.0 / (8u32 << b) as f32, 0.0), b)
				} else {
					(Frame::new(0.0, 0.5), 0)
				};
				let mut data = StaticSoundData {
					sample_rate: self.sr,
					frames: Arc::from(vec![frame; self.total_frames]),
					settings: StaticSoundSettings::default(),
					slice: None,
				};
				if *kind == 0 {
					data = data.start_time(st);
				}
				let mut handle = self.mgr.lock().unwrap().play(data).unwrap();
				if *kind == 1 {
					handle.set_volume(Decibels::SILENCE, Tween { start_time: st, duration: Duration::ZERO, easing: Easing::Linear });
				} else if *kind == 2 {
					handle.pause(ZERO_TWEEN);
					handle.resume_at(st, ZERO_TWEEN);
				}
				self.sounds.push(SoundW { kind: *kind, start: *start, issued_at: now, handle, bit });
			}
			Op::Obs(c) => {
				let mut t = shared.lock().unwrap();
				match self.clocks[*c].as_ref() {
					Some(h) => {
						let tm = h.time();
						let v = View { ticking: h.ticking(), ticks: tm.ticks, fr: tm.fraction };
						t.views.push((oi, *c, v));
						t.obs64.extend([v.ticking as i128, v.ticks as i128, obs64(v.fr)]);
						let (n, d) = exact(v.fr).unwrap_or((-1, 1));
						t.obsq.extend([v.ticking as i128, v.ticks as i128, n, d]);
					}
					None => {
						t.obs64.push(-8);
						t.obsq.push(-8);
					}
				}
			}
			Op::SndPause(i) => self.sounds[*i].handle.pause(ZERO_TWEEN),
			Op::SndResume(i) => self.sounds[*i].handle.resume(ZERO_TWEEN),
			Op::SndObs(i) => {
				let h = &self.sounds[*i].handle;
				let v = (oi, *i, h.state(), h.position());
				shared.lock().unwrap().snd_views.push(v);
			}
			Op::StartProc | Op::Process(_) | Op::Mid { .. } => unreachable!("audio-side op given to the user's side"),
		}
	}
}

/// Runs a scenario on the real code.  Appends to `shared` as it goes so that a watchdog can
/// salvage what was observed before an audio callback that never returns.
fn execute(sc: &Scenario, shared: &Arc<Mutex<Trace>>) {
	use crate::inject::{shared_manager, Hook, HookFxBuilder, HookSound};
	use kira::track::{MainTrackBuilder, SendTrackBuilder, TrackBuilder};
	let has_mid = sc.ops.iter().any(|o| matches!(o, Op::Mid { .. }));
	let hooks: [Hook; 4] = Default::default();
	let main = if has_mid { MainTrackBuilder::new().with_effect(HookFxBuilder(hooks[3].clone())) } else { MainTrackBuilder::new() };
	let (mgr, renderer) = shared_manager(sc.sr, sc.buf, main);
	// the hook points: live (silent) tracks whose effect / sound gets its `on_start_processing` called in the middle of the renderer's
	let _hook_tracks = if has_mid {
		let mut m = mgr.lock().unwrap();
		let t0 = m.add_sub_track(TrackBuilder::new().with_effect(HookFxBuilder(hooks[0].clone()))).unwrap();
		let t1 = m.add_send_track(SendTrackBuilder::new().with_effect(HookFxBuilder(hooks[1].clone()))).unwrap();
		let mut t2 = m.add_sub_track(TrackBuilder::new()).unwrap();
		t2.play(HookSound(hooks[2].clone())).unwrap();
		drop(m);
		// they are picked up before the history begins (nothing else exists yet)
		renderer.lock().unwrap().as_mut().unwrap().on_start_processing();
		Some((t0, t1, t2))
	} else {
		None
	};
	let total_frames: usize = sc.ops.iter().map(|o| if let Op::Process(n) = o { *n } else { 0 }).sum::<usize>() + 64;
	let game = Arc::new(Mutex::new(Game { mgr, sr: sc.sr, total_frames, clocks: vec![], ids: vec![], sounds: vec![], nbits: 0, picked_up_next_callback: vec![] }));
	let mut out: Vec<(f32, f32)> = vec![];
	let mut armed: Option<usize> = None;
	let mut oi = 0;
	while oi < sc.ops.len() {
		match &sc.ops[oi] {
			Op::Mid { point, n } => {
				let block: Vec<(usize, Op)> = (oi + 1..=oi + n).map(|j| (j, sc.ops[j])).collect();
				let (g2, sh2, now, late) = (game.clone(), shared.clone(), out.len(), *point == 3);
				*hooks[*point as usize].lock().unwrap() = Some(Box::new(move || {
					let mut g = g2.lock().unwrap();
					let n0 = g.sounds.len();
					for (j, o) in &block {
						g.apply(*j, o, now, &sh2);
					}
					if late {
						let n1 = g.sounds.len();
						g.picked_up_next_callback.extend(n0..n1);
					}
				}));
				armed = Some(*point as usize);
				oi += n;
			}
			Op::StartProc => {
				renderer.lock().unwrap().as_mut().unwrap().on_start_processing();
				if let Some(p) = armed.take() {
					assert!(hooks[p].lock().unwrap().is_none(), "harness: the mid-callback block did not run");
				}
			}
			Op::Process(n) => {
				let mut b = vec![f32::from_bits(0x7FC0_1234); n * 2];
				{
					let mut t = shared.lock().unwrap();
					let mut k = 0;
					while k < *n {
						t.chunk_starts.push(out.len() + k);
						k += sc.buf;
					}
				}
				renderer.lock().unwrap().as_mut().unwrap().process(&mut b, 2);
				out.extend(b.chunks(2).map(|c| (c[0], c[1])));
				if armed.is_none() {
					let mut g = game.lock().unwrap();
					for i in std::mem::take(&mut g.picked_up_next_callback) {
						g.sounds[i].issued_at = out.len();
					}
				}
			}
			o => game.lock().unwrap().apply(oi, o, out.len(), shared),
		}
		oi += 1;
	}
	let game = game.lock().unwrap();
	let sounds = &game.sounds;
	// what happened to everything that waited
	let mut t = shared.lock().unwrap();
	let starts = t.chunk_starts.clone();
	let mut analog_seen = false;
	for w in sounds.iter() {
		let fs = w.handle.state();
		let (state, frame): (u8, i64) = match w.kind {
			0 => {
				let v = 1.0 / (8u32 << w.bit) as f32;
				let g = (w.issued_at..out.len()).find(|&g| {
					let units = (out[g].0 / (1.0 / 1024.0)).round() as u32; // lefts are multiples of 2^-10
					(units & ((v * 1024.0) as u32)) != 0
				});
				match g {
					Some(g) => (1, g as i64),
					None => {
						if fs == PlaybackState::Stopped {
							(2, -1)
						} else {
							(0, -1)
						}
					}
				}
			}
			1 => {
				assert!(!analog_seen, "one analog waiter per scenario");
				analog_seen = true;
				match (w.issued_at..out.len()).find(|&g| out[g].1 != 0.5) {
					Some(g) => (1, g as i64),
					None => (0, -1),
				}
			}
			_ => {
				assert!(!analog_seen, "one analog waiter per scenario");
				analog_seen = true;
				// audible one chunk after the chunk in which the resume began (see the report): map back
				match (w.issued_at..out.len()).find(|&g| out[g].1 != 0.0) {
					// pause and resume_at were issued together: if the resume is due in the very first chunk the
					// pause's fade-out is still audible in that chunk
					Some(g) if g == w.issued_at => (1, g as i64),
					Some(g) => {
						let k = starts.iter().position(|&s| s == g);
						match k {
							Some(k) if k > 0 => (1, starts[k - 1] as i64),
							_ => (1, -(g as i64) - 1000), // audible in the middle of a chunk: reported as is (will not match)
						}
					}
					None => match fs {
						PlaybackState::Stopped => (2, -1),
						PlaybackState::WaitingToResume => (0, -1),
						_ => (1, *starts.last().unwrap_or(&0) as i64),
					},
				}
			}
		};
		t.waits.push(WaitObs { kind: w.kind, start: w.start, issued_at: w.issued_at, state, frame, final_state: fs });
		t.obs64.extend([state as i128, frame as i128]);
		t.obsq.extend([state as i128, frame as i128]);
	}
	t.complete = true;
}

/// Runs a scenario with a watchdog: `None` in `.complete` = the audio thread never returned.
fn run_scenario(sc: &Scenario, timeout_ms: u64) -> Trace {
	let shared = Arc::new(Mutex::new(Trace::default()));
	let (tx, rx) = mpsc::channel();
	let sc2 = sc.clone();
	let sh2 = shared.clone();
	std::thread::spawn(move || {
		let r = catch(|| execute(&sc2, &sh2));
		let _ = tx.send(r);
	});
	match rx.recv_timeout(Duration::from_millis(timeout_ms)) {
		Ok(Outcome::Ok(())) => {}
		Ok(Outcome::Panic(c)) => {
			let mut t = shared.lock().unwrap_or_else(|e| e.into_inner());
			t.panic = Some(c);
			t.obs64.push(1000 + c);
			t.obsq.push(1000 + c);
		}
		Ok(Outcome::Hang) | Err(_) => {
			let mut t = shared.lock().unwrap_or_else(|e| e.into_inner());
			t.obs64.push(2000);
			t.obsq.push(2000);
		}
	}
	let t = shared.lock().unwrap_or_else(|e| e.into_inner()).clone();
	t
}

// ------------------------------------------------------------------------------------------
// generators
// ------------------------------------------------------------------------------------------
fn gen_speed(r: &mut Rng, dyadic: bool) -> Spd {
	if dyadic {
		// TicksPerSecond(k/8), sometimes SecondsPerTick(2^-j) / TicksPerMinute(60 * k/8): all conversions exact
		// (large exact speeds are driven by monitor_partition: a speed tween from one would exceed the mantissa budget)
		match r.below(6) {
			0 => Spd { kind: 0, x: 1.0 / (1u64 << r.below(5)) as f64 },
			1 => Spd { kind: 2, x: 60.0 * r.below(64) as f64 / 8.0 },
			_ => {
				let m = if r.chance(1, 5) { 400 } else { 64 };
				Spd { kind: 1, x: r.below(m) as f64 / 8.0 }
			}
		}
	} else {
		match r.below(7) {
			0 => Spd { kind: 0, x: 0.01 + r.unit_f64() * 2.0 },
			1 => Spd { kind: 2, x: r.unit_f64() * 400.0 },
			2 => Spd { kind: 2, x: *r.pick(&[120.0, 90.0, 133.3, 60.0]) },
			3 => Spd { kind: 1, x: (2 * r.below(50) + 1) as f64 },
			// extreme speeds (the F7 region and its border): zero / tiny seconds per tick, increments at and
			// beyond 2^53 and 2^64 ticks per buffer, the largest finite speeds, infinite speeds
			4 => match r.below(3) {
				0 => Spd { kind: 0, x: *r.pick(&[0.0, 5e-324, 1e-300, 1e-12, 1e-9, 2.5e-7]) },
				1 => Spd { kind: r.below(2) as u8 + 1, x: *r.pick(&[1e9, 1e15, 9007199254740992.0, 3.0e16, 1.8446744073709552e19, 6.0e20, 1e25, 1e300, f64::MAX, f64::INFINITY]) },
				_ => Spd { kind: 1, x: (r.unit_f64() * 70.0).exp2() },
			},
			_ => Spd { kind: 1, x: r.unit_f64() * 20.0 },
		}
	}
}
fn gen_clock_time(r: &mut Rng, nclocks: usize, dyadic: bool) -> St {
	let clock = r.below(nclocks as u64) as usize;
	let ticks = r.below(6);
	let fr = match r.below(4) {
		0 | 1 => 0.0,
		2 => r.dyadic_unit(3),
		_ => {
			if dyadic {
				r.dyadic_unit(6)
			} else {
				r.unit_f64()
			}
		}
	};
	St::Clk { clock, ticks, fr }
}
fn gen_easing(r: &mut Rng) -> Easing {
	match r.below(6) {
		0 => Easing::InPowi(r.range(1, 4) as i32),
		1 => Easing::OutPowi(r.range(1, 4) as i32),
		2 => Easing::InOutPowi(r.range(1, 4) as i32),
		_ => Easing::Linear,
	}
}
fn gen_frames(r: &mut Rng, buf: usize) -> usize {
	match r.below(6) {
		0 => r.below(buf as u64 + 1) as usize,
		1 => buf * (r.below(4) + 1) as usize,
		2 => 1 + r.below(7) as usize,
		_ => 1 + r.below(4 * buf as u64 + 40) as usize,
	}
}

/// a whole history: clocks added at any time, started / paused / stopped / retimed / dropped,
/// things waiting for clock times, callbacks of arbitrary sizes
fn gen_scenario(r: &mut Rng, dyadic: bool, events: bool, mid: bool) -> Scenario {
	let sr = if dyadic { *r.pick(&[512u32, 1024, 256, 2048]) } else { *r.pick(&[44100u32, 48000, 22050, 1000, 96000]) };
	let buf = *r.pick(&[1usize, 2, 3, 7, 16, 64, 100, 128, 200]);
	let mut ops = vec![];
	let mut alive: Vec<bool> = vec![];
	let mut analog_used = false;
	let mut sound_waits = 0;
	let ncallbacks = r.range(3, 10);
	for cb in 0..ncallbacks {
		// user-side calls before this callback
		let ncalls = if cb == 0 { r.range(1, 3) } else { r.range(0, 3) };
		let block_start = ops.len();
		for _ in 0..ncalls {
			let live: Vec<usize> = (0..alive.len()).filter(|k| alive[*k]).collect();
			let choice = if live.is_empty() { 0 } else { r.below(16) };
			match choice {
				0 => {
					if alive.len() < 3 {
						ops.push(Op::AddClock(gen_speed(r, dyadic)));
						alive.push(true);
						ops.push(Op::Start(alive.len() - 1));
					}
				}
				1..=3 => ops.push(Op::Start(*r.pick(&live))),
				4 | 5 => ops.push(Op::Pause(*r.pick(&live))),
				6 => {
					let c = *r.pick(&live);
					ops.push(Op::Stop(c));
					if r.chance(1, 2) {
						ops.push(Op::Obs(c));
					}
					if r.chance(1, 2) {
						ops.push(Op::Start(c));
					}
				}
				7..=9 => {
					let c = *r.pick(&live);
					let start = match r.below(6) {
						0 => St::Del(if dyadic { r.below(60) * 1_953_125 } else { r.below(200_000_000) }),
						1 | 2 => gen_clock_time(r, alive.len(), dyadic),
						_ => St::Imm,
					};
					let dur_ns = match r.below(4) {
						0 => 0,
						_ => {
							if dyadic {
								1_000_000_000u64 >> r.below(7) // 2^-j s: elapsed / duration is exact
							} else {
								r.below(500_000_000) + 1
							}
						}
					};
					let mut v = gen_speed(r, dyadic);
					let mut easing = gen_easing(r);
					if dyadic && dur_ns > 0 {
						// exactness of the dyadic regime: interpolate in ticks per second (the other units divide),
						// powers up to 2 (mantissa budget)
						v = Spd { kind: 1, x: r.below(64) as f64 / 8.0 };
						easing = match easing {
							Easing::InPowi(_) => Easing::InPowi(2),
							Easing::OutPowi(_) => Easing::OutPowi(2),
							Easing::InOutPowi(_) => Easing::InOutPowi(2),
							e => e,
						};
					}
					ops.push(Op::SetSpeed { c, v, start, dur_ns, easing });
				}
				10 => {
					if r.chance(1, 3) {
						let c = *r.pick(&live);
						ops.push(Op::Drop(c));
						alive[c] = false;
					}
				}
				_ => {
					if events {
						let st = if r.chance(1, 8) { St::Del(r.below(40) * 1_953_125) } else { gen_clock_time(r, alive.len(), dyadic) };
						let kind = match r.below(4) {
							0 if !analog_used => {
								analog_used = true;
								1
							}
							1 if !analog_used => {
								analog_used = true;
								2
							}
							_ => 0,
						};
						if kind != 0 || sound_waits < 4 {
							if kind == 0 {
								sound_waits += 1;
							}
							// a tween waiter has no Delayed form in the model's sense (it would start one update late): clock times only
							let st = if kind == 1 { if let St::Del(_) = st { gen_clock_time(r, alive.len(), dyadic) } else { st } } else { st };
							ops.push(Op::Wait(kind, st));
						}
					}
				}
			}
		}
		if mid && ops.len() > block_start && r.chance(2, 3) {
			// the user's thread makes these calls while the audio thread is in the middle of on_start_processing
			let n = ops.len() - block_start;
			ops.insert(block_start, Op::Mid { point: r.below(4) as u8, n });
		}
		ops.push(Op::StartProc);
		for k in 0..alive.len() {
			if alive[k] && r.chance(1, 2) {
				ops.push(Op::Obs(k));
			}
		}
		ops.push(Op::Process(gen_frames(r, buf)));
	}
	ops.push(Op::StartProc);
	for k in 0..alive.len() {
		if alive[k] {
			ops.push(Op::Obs(k));
		}
	}
	Scenario { sr, buf, ops, dyadic }
}

fn key_of(s: &str) -> String {
	let mut h = 1469598103934665603u64;
	for b in s.bytes() {
		h = (h ^ b as u64).wrapping_mul(1099511628211);
	}
	format!("{:x}", h)
}

// ------------------------------------------------------------------------------------------
// monitors on the implementation
// ------------------------------------------------------------------------------------------

/// one clock, constant dyadic speed, the same audio time under two partitions into callbacks and
/// internal buffers: time() must agree bit for bit and equal speed * t exactly
fn monitor_partition(s: &mut Session, r: &mut Rng) {
	let sr = *r.pick(&[512u32, 1024, 256]);
	let sp = if r.chance(1, 8) {
		// millions of ticks per buffer: one `floor` now, formerly one loop iteration per tick
		Spd { kind: 1, x: ((r.below(200) + 1) << r.range(10, 28)) as f64 / 8.0 }
	} else {
		Spd { kind: 1, x: (r.below(200) + 1) as f64 / 8.0 }
	};
	let total = r.below(3000) as usize + 1;
	let run = |r: &mut Rng| -> (Scenario, Trace) {
		let buf = *r.pick(&[1usize, 3, 16, 64, 100, 128, 500]);
		let mut ops = vec![Op::AddClock(sp), Op::Start(0)];
		let mut left = total;
		while left > 0 {
			let n = (r.below(left as u64) as usize + 1).min(left);
			ops.push(Op::StartProc);
			ops.push(Op::Process(n));
			left -= n;
		}
		ops.push(Op::StartProc);
		ops.push(Op::Obs(0));
		let sc = Scenario { sr, buf, ops, dyadic: true };
		let t = run_scenario(&sc, 20000);
		(sc, t)
	};
	let (sc1, t1) = run(r);
	let (sc2, t2) = run(r);
	s.eval_only("monitor_partition");
	let desc = format!("clock {:?} at {} Hz, {} frames: partition A {} vs partition B {}", sp, sr, total, scenario_term(&sc1, false), scenario_term(&sc2, false));
	let (v1, v2) = (t1.views.last().map(|x| x.2), t2.views.last().map(|x| x.2));
	if v1 != v2 || v1.is_none() {
		s.fail(desc.clone(), format!("clock time depends on how audio time is split: {:?} vs {:?}", v1, v2), None);
	}
	if let Some(v) = v1 {
		// exact: speed * t = (x * total) / sr ticks, all dyadic
		let exact_ticks = sp.x * total as f64 / sr as f64;
		if !(v.ticks as f64 == exact_ticks.floor() && v.fr == exact_ticks - exact_ticks.floor() && v.fr >= 0.0 && v.fr < 1.0) {
			s.fail(desc, format!("time() = ({}, {:?}) but speed x elapsed audio time = {:?}", v.ticks, v.fr, exact_ticks), None);
		}
	}
}

/// pause freezes, stop resets, and the events of a single-chunk-per-callback history begin in the
/// right chunk.  Every callback is one internal buffer, and an extra on_start_processing after it
/// (no commands pending) publishes the clock's time after that chunk, so T_k and ticking_k are
/// observed for every chunk k from the handle alone.
fn monitor_history(s: &mut Session, r: &mut Rng) {
	let sr = *r.pick(&[512u32, 1024]);
	let buf = *r.pick(&[16usize, 64, 128]);
	let sp = Spd { kind: 1, x: (r.below(63) + 1) as f64 / 8.0 * (sr as f64 / buf as f64 / 8.0).max(1.0).min(8.0) };
	let mut ops = vec![Op::AddClock(sp)];
	if r.chance(4, 5) {
		ops.push(Op::Start(0));
	}
	// up to three sounds, one analog waiter, waiting for times on clock 0
	let nw = r.range(1, 3);
	let mut analog = false;
	for _ in 0..nw {
		let st = gen_clock_time(r, 1, true);
		let kind = match r.below(4) {
			0 if !analog => {
				analog = true;
				1
			}
			1 if !analog => {
				analog = true;
				2
			}
			_ => 0,
		};
		ops.push(Op::Wait(kind, st));
	}
	let nchunks = r.range(6, 40) as usize;
	// per chunk: what the user did before it
	let mut marks: Vec<(usize, &'static str)> = vec![];
	let mut chunk_frames: Vec<usize> = vec![];
	let mut dropped = false;
	for k in 0..nchunks {
		if !dropped {
			match r.below(14) {
				0 => {
					ops.push(Op::Pause(0));
					marks.push((k, "pause"));
				}
				1 | 2 => {
					ops.push(Op::Start(0));
					marks.push((k, "start"));
				}
				3 | 5 => {
					ops.push(Op::Stop(0));
					marks.push((k, "stop"));
					// stop() immediately followed by start() / pause(): both land between the same two callbacks
					match r.below(4) {
						0 | 1 => {
							ops.push(Op::Start(0));
							marks.push((k, "start"));
						}
						2 => {
							ops.push(Op::Pause(0));
							marks.push((k, "pause"));
						}
						_ => {}
					}
				}
				4 if k > 2 && r.chance(1, 3) => {
					ops.push(Op::Drop(0));
					dropped = true;
					marks.push((k, "drop"));
				}
				_ => {}
			}
		}
		ops.push(Op::StartProc);
		let nf = if r.chance(1, 6) { 1 + r.below(buf as u64) as usize } else { buf };
		chunk_frames.push(nf);
		ops.push(Op::Process(nf));
		ops.push(Op::StartProc);
		if !dropped {
			ops.push(Op::Obs(0));
		}
	}
	let sc = Scenario { sr, buf, ops, dyadic: true };
	let t = run_scenario(&sc, 20000);
	s.eval_only("monitor_history");
	let desc = scenario_term(&sc, false);
	if !t.complete {
		s.fail(desc, "history did not complete".into(), None);
		return;
	}
	// per-chunk views (chunk k -> view after it), while the handle lives
	let views: Vec<View> = t.views.iter().map(|x| x.2).collect();
	let drop_chunk = marks.iter().find(|m| m.1 == "drop").map(|m| m.0);
	let did = |k: usize, what: &str| marks.iter().any(|m| m.0 == k && m.1 == what);
	for k in 0..views.len() {
		let v = views[k];
		let prev = if k > 0 { Some(views[k - 1]) } else { None };
		let stopped = did(k, "stop");
		let started_after_stop = stopped && marks.iter().rposition(|m| m.0 == k && m.1 == "start") > marks.iter().rposition(|m| m.0 == k && m.1 == "stop");
		if !(v.fr >= 0.0 && v.fr < 1.0) {
			s.fail(desc.clone(), format!("chunk {k}: fraction {:?} outside [0,1)", v.fr), None);
		}
		if let Some(p) = prev {
			let tv = v.ticks as f64 + v.fr;
			let tp = p.ticks as f64 + p.fr;
			if !v.ticking && !stopped && (v.ticks, v.fr.to_bits()) != (p.ticks, p.fr.to_bits()) {
				s.fail(desc.clone(), format!("chunk {k}: clock is paused but its time moved from {:?} to {:?}", p, v), None);
			}
			if v.ticking && !stopped && tv < tp {
				s.fail(desc.clone(), format!("chunk {k}: time of a running clock went backwards: {:?} -> {:?}", p, v), None);
			}
		}
		if stopped && !started_after_stop && (v.ticking || v.ticks != 0 || v.fr != 0.0) {
			s.fail(desc.clone(), format!("chunk {k}: after stop() the clock shows {:?}, not (0, 0.0) / not ticking", v), None);
		}
		if stopped && started_after_stop {
			// stopping resets the clock to zero: restarted in the same gap between two callbacks, it has run for
			// exactly this one buffer (constant dyadic speed: exact)
			s.count("restart_between_two_callbacks");
			let want = sp.x * chunk_frames[k] as f64 / sr as f64;
			if !(v.ticking && v.ticks as f64 == want.floor() && v.fr == want - want.floor()) {
				s.fail(
					desc.clone(),
					format!(
						"chunk {k}: stop() immediately followed by start() before this buffer ({} frames): stopping resets the clock to zero, so after the buffer it must be ticking at speed x {} frames = {:?} ticks, but it shows {:?} (before the stop it showed {:?})",
						chunk_frames[k], chunk_frames[k], want, v, prev
					),
					None,
				);
			}
		}
	}
	check_events(s, &desc, &t, &views, 0, 0, drop_chunk, nchunks);
}

/// The event clause evaluated on what the implementation did.  `views[i]` = what the clock's handle showed after
/// chunk `first + i` (every callback of these histories is one internal buffer followed by an extra
/// `on_start_processing` that publishes the clock's time); every wait of the trace is on that clock and can have
/// been picked up by the audio thread from chunk `first + pick` on.  "Reached" is decided here on the two words the
/// clock published, ticks first, then fraction — not with the library's own ordering of `ClockTime`s.
fn check_events(s: &mut Session, desc: &str, t: &Trace, views: &[View], first: usize, pick: usize, drop_chunk: Option<usize>, nchunks: usize) {
	let desc = desc.to_string();
	let starts = &t.chunk_starts[first.min(t.chunk_starts.len())..];
	for w in &t.waits {
		let (tau_t, tau_f) = match w.start {
			St::Clk { ticks, fr, .. } => (ticks, fr),
			_ => continue,
		};
		let reached = |v: &View| v.ticking && (v.ticks > tau_t || (v.ticks == tau_t && v.fr >= tau_f));
		// first chunk (within the handle's life) at which the clock is ticking and has reached tau
		let horizon = drop_chunk.unwrap_or(views.len()).min(views.len());
		let kstar = (pick.min(horizon)..horizon).find(|&k| reached(&views[k]));
		let what = match w.kind {
			0 => "sound start",
			1 => "tween start",
			_ => "resume",
		};
		s.count(match (kstar.is_some(), w.state) {
			(true, 1) => "event_begun_when_due",
			(false, 2) => "event_cancelled",
			(false, 0) => "event_still_waiting",
			_ => "event_other",
		});
		match (kstar, w.state) {
			(Some(k), 1) => {
				let want = starts[k] as i64;
				if w.frame != want {
					let got_chunk = starts.iter().position(|&s| s as i64 == w.frame);
					let verdict = match got_chunk {
						Some(g) if g > k => "late".to_string(),
						Some(g) if !views.get(g).map(|v| v.ticking).unwrap_or(false) => "began while the clock was paused".to_string(),
						Some(g) => format!("began while the clock was still short of that time at the buffer's end: the clock then showed ({}, {:?})", views[g].ticks, views[g].fr),
						None => "did not begin at a buffer boundary".to_string(),
					};
					s.fail(desc.clone(), format!("{what} scheduled for ({tau_t}, {tau_f:?}): began at device frame {} but the clock reaches that time during the buffer starting at frame {want} ({verdict})", w.frame), None);
				}
			}
			(Some(k), st) => {
				s.fail(
					desc.clone(),
					format!(
						"{what} scheduled for ({tau_t}, {tau_f:?}) never began ({}) although the clock, which exists and is ticking, reached that time in chunk {}: it showed ({}, {:?})",
						if st == 2 { "the sound was cancelled: Stopped".to_string() } else { format!("state {:?}", w.final_state) },
						first + k,
						views[k].ticks,
						views[k].fr
					),
					None,
				);
			}
			(None, 1) => {
				s.fail(desc.clone(), format!("{what} scheduled for ({tau_t}, {tau_f:?}) began at frame {} although the running clock never reached that time", w.frame), None);
			}
			(None, st) => {
				// cancelled when the clock is gone (sounds / resumes; a tween just never starts)
				if drop_chunk.is_some() && w.kind != 1 && st != 2 && views.len() < nchunks {
					s.fail(desc.clone(), format!("{what} waits for a clock that no longer exists but the sound is {:?}, not Stopped", w.final_state), None);
				}
				if drop_chunk.is_none() && st == 2 {
					s.fail(desc.clone(), format!("{what} was cancelled (the sound is Stopped) although its clock exists"), None);
				}
			}
		}
	}
}

/// Fixed corpus for the whole-tick edge: speeds / buffers / device rates where a tick is a whole number of buffers
/// in exact arithmetic but the accumulated binary64 fraction arrives a rounding error short of 1.0 (or not: either
/// way the rule is the one of `check_events`, on the clock's own two words).  Sounds wait for ticks 1..5, a resume
/// for tick 3; one internal buffer per callback, no pauses.
fn boundary_corpus(s: &mut Session) {
	let configs: [(u32, usize, Spd); 8] = [
		(48000, 480, Spd { kind: 1, x: 10.0 }),
		(1000, 100, Spd { kind: 1, x: 1.0 }),
		(100, 10, Spd { kind: 1, x: 1.0 }),
		(44100, 441, Spd { kind: 1, x: 20.0 }),
		(48000, 480, Spd { kind: 1, x: 30.0 }),
		(1000, 100, Spd { kind: 2, x: 120.0 }),
		(48000, 160, Spd { kind: 0, x: 0.02 }),
		(22050, 441, Spd { kind: 1, x: 10.0 }),
	];
	for (sr, buf, sp) in configs {
		let per_buffer = sp.tps() * buf as f64 / sr as f64;
		let nchunks = ((5.3 / per_buffer).ceil() as usize).min(60);
		let mut ops = vec![Op::AddClock(sp), Op::Start(0)];
		for tick in 1..=5u64 {
			ops.push(Op::Wait(0, St::Clk { clock: 0, ticks: tick, fr: 0.0 }));
		}
		ops.push(Op::Wait(2, St::Clk { clock: 0, ticks: 3, fr: 0.0 }));
		for _ in 0..nchunks {
			ops.extend([Op::StartProc, Op::Process(buf), Op::StartProc, Op::Obs(0)]);
		}
		let sc = Scenario { sr, buf, ops, dyadic: false };
		let t = run_scenario(&sc, 20000);
		let desc = scenario_term(&sc, false);
		s.case("history_boundary_target_f64", desc.clone(), &t.obs64, Some(key_of(&desc)));
		if !t.complete {
			s.fail(desc, "history did not complete".into(), None);
			continue;
		}
		let views: Vec<View> = t.views.iter().map(|x| x.2).collect();
		if views.iter().any(|v| v.fr > 1.0 - 1e-9) {
			s.count("corpus_clock_a_hair_short_of_a_tick");
		}
		check_events(s, &desc, &t, &views, 0, 0, None, nchunks);
	}
}

/// Targets on the edge.  A clock with a speed / buffer size / device rate for which nothing is exact (0.1 tick per
/// buffer and the like: the fraction then sits a rounding error below 1.0 where the exact value is a whole tick) is
/// run twice through the same history: first alone, to learn the times T_k it shows after each buffer; then with
/// sounds, a tween and a resume waiting for times chosen ON those values: exactly T_k, one ulp of the fraction
/// above and below T_k, and the whole tick that T_k is a hair short of.  The event clause is then evaluated on the
/// two published words (`check_events`): at T_k exactly or just below, the event begins in buffer k (never late);
/// one ulp above, or at the tick the clock is a hair short of, it must NOT begin in buffer k (never while the clock
/// is still short of that time at the buffer's end).
fn monitor_boundary_targets(s: &mut Session, r: &mut Rng, to_model: bool) {
	// (device rate, internal buffer, speed): ticks per buffer = 1/m for an m that is not a power of two, or arbitrary
	let (sr, buf, sp) = match r.below(5) {
		0 => *r.pick(&[
			(48000u32, 480usize, Spd { kind: 1, x: 10.0 }),
			(1000, 100, Spd { kind: 1, x: 1.0 }),
			(100, 10, Spd { kind: 1, x: 1.0 }),
			(44100, 441, Spd { kind: 1, x: 20.0 }),
			(48000, 480, Spd { kind: 1, x: 30.0 }),
			(1000, 100, Spd { kind: 2, x: 120.0 }),
			(48000, 160, Spd { kind: 0, x: 0.02 }),
			(22050, 441, Spd { kind: 1, x: 10.0 }),
		]),
		1 => {
			let sr = *r.pick(&[44100u32, 48000, 22050, 1000, 96000]);
			let buf = *r.pick(&[10usize, 64, 100, 128, 200, 441, 480]);
			let m = *r.pick(&[3u32, 5, 6, 7, 9, 10, 12, 15, 20]);
			(sr, buf, Spd { kind: 1, x: sr as f64 / (buf as f64 * m as f64) })
		}
		_ => {
			let sr = *r.pick(&[44100u32, 48000, 22050, 1000, 96000]);
			let buf = *r.pick(&[10usize, 64, 100, 128, 200, 441, 480]);
			let per_buffer = 0.04 + r.unit_f64() * 0.6;
			let tps = per_buffer * sr as f64 / buf as f64;
			match r.below(3) {
				0 => (sr, buf, Spd { kind: 0, x: 1.0 / tps }),
				1 => (sr, buf, Spd { kind: 2, x: tps * 60.0 }),
				_ => (sr, buf, Spd { kind: 1, x: tps }),
			}
		}
	};
	let nchunks = r.range(24, 44) as usize;
	// the history without anything waiting
	let mut tail = vec![];
	for _ in 0..nchunks {
		match r.below(16) {
			0 => tail.push(Op::Pause(0)),
			1 | 2 => tail.push(Op::Start(0)),
			_ => {}
		}
		tail.push(Op::StartProc);
		tail.push(Op::Process(if r.chance(1, 8) { 1 + r.below(buf as u64) as usize } else { buf }));
		tail.push(Op::StartProc);
		tail.push(Op::Obs(0));
	}
	let head = vec![Op::AddClock(sp), Op::Start(0)];
	let sc1 = Scenario { sr, buf, ops: head.iter().chain(tail.iter()).copied().collect(), dyadic: false };
	let t1 = run_scenario(&sc1, 20000);
	s.eval_only("monitor_boundary_targets");
	if !t1.complete || t1.views.len() != nchunks {
		s.fail(scenario_term(&sc1, false), "history did not complete".into(), None);
		return;
	}
	let v1: Vec<View> = t1.views.iter().map(|x| x.2).collect();
	// candidate targets, the ones on a whole-tick edge first
	let mut edge: Vec<(u64, f64)> = vec![];
	let mut near: Vec<(u64, f64)> = vec![];
	for k in 1..v1.len() {
		let (v, p) = (v1[k], v1[k - 1]);
		if !v.ticking || (v.ticks, v.fr.to_bits()) == (p.ticks, p.fr.to_bits()) {
			continue;
		}
		if v.fr > 1.0 - 1e-9 {
			edge.push((v.ticks + 1, 0.0)); // the clock is a hair short of this tick after buffer k
		}
		if v.fr < 1e-9 {
			edge.push((v.ticks, 0.0)); // ... or has just passed it
		}
		near.push((v.ticks, v.fr));
		if v.fr.next_up() < 1.0 {
			near.push((v.ticks, v.fr.next_up()));
		}
		if v.fr > 0.0 {
			near.push((v.ticks, v.fr.next_down()));
		}
		if r.chance(1, 6) {
			near.push((v.ticks + 1, 0.0));
		}
	}
	let mut targets: Vec<(u64, f64)> = vec![];
	while targets.len() < 6 && !(edge.is_empty() && near.is_empty()) {
		let from_edge = !edge.is_empty() && (near.is_empty() || r.chance(2, 3));
		let l = if from_edge { &mut edge } else { &mut near };
		let x = l.swap_remove(r.below(l.len() as u64) as usize);
		if !targets.contains(&x) {
			targets.push(x);
		}
	}
	if targets.is_empty() {
		return;
	}
	let mut waits = vec![];
	let analog = r.below(3); // 0: none, 1: a tween, 2: a resume
	for (j, (ticks, fr)) in targets.iter().enumerate() {
		let kind = if j == 0 && analog > 0 { analog as u8 } else { 0 };
		waits.push(Op::Wait(kind, St::Clk { clock: 0, ticks: *ticks, fr: *fr }));
	}
	let sc = Scenario { sr, buf, ops: head.iter().chain(waits.iter()).chain(tail.iter()).copied().collect(), dyadic: false };
	let t = run_scenario(&sc, 20000);
	let desc = scenario_term(&sc, false);
	if to_model {
		s.case("history_boundary_target_f64", desc.clone(), &t.obs64, Some(key_of(&desc)));
	}
	if !t.complete {
		s.fail(desc, "history did not complete".into(), None);
		return;
	}
	let views: Vec<View> = t.views.iter().map(|x| x.2).collect();
	if views != v1 {
		s.fail(desc.clone(), "the times a clock shows depend on what is waiting for it".into(), None);
	}
	for (ticks, fr) in &targets {
		if views.iter().any(|v| v.ticks + 1 == *ticks && v.fr > 1.0 - 1e-9 && *fr == 0.0) {
			s.count("target_is_the_tick_the_clock_is_a_hair_short_of");
		}
		if views.iter().any(|v| v.ticks == *ticks && v.fr < *fr && v.fr.next_up() == *fr) {
			s.count("target_one_ulp_above_a_time_the_clock_shows");
		}
	}
	check_events(s, &desc, &t, &views, 0, 0, None, nchunks);
}

/// The user's thread creates a clock and schedules things on it WHILE the audio thread is in the middle of
/// `Renderer::on_start_processing` (at each of the four reachable points, see `Op::Mid`).  The clock was created
/// before anything that refers to it, so whatever the point: nothing that waits for it may be cancelled while it
/// exists, and everything begins in the buffer during which the clock reaches the time (`check_events`).
fn monitor_mid_callback(s: &mut Session, r: &mut Rng, to_model: bool) {
	let dyadic = r.chance(1, 2);
	let (sr, buf) = if dyadic { (*r.pick(&[512u32, 1024]), *r.pick(&[16usize, 64])) } else { *r.pick(&[(48000u32, 480usize), (1000, 100), (44100, 441), (22050, 100)]) };
	let per_buffer = if dyadic { (r.below(8) + 1) as f64 / 16.0 } else { *r.pick(&[0.1, 0.2, 0.25, 0.3, 0.5]) };
	let sp = Spd { kind: 1, x: per_buffer * sr as f64 / buf as f64 };
	let point = r.below(4) as u8;
	let idle = r.below(3) as usize;
	let mut ops = vec![];
	for _ in 0..idle {
		ops.push(Op::StartProc);
		ops.push(Op::Process(buf));
	}
	let mut block = vec![Op::AddClock(sp)];
	let started = r.chance(5, 6);
	if started {
		block.push(Op::Start(0));
	}
	let nw = r.range(1, 3);
	let mut analog = false;
	for _ in 0..nw {
		let st = if r.chance(1, 4) { St::Clk { clock: 0, ticks: 0, fr: 0.0 } } else { gen_clock_time(r, 1, dyadic) };
		let kind = match r.below(4) {
			0 if !analog => {
				analog = true;
				1
			}
			1 if !analog => {
				analog = true;
				2
			}
			_ => 0,
		};
		block.push(Op::Wait(kind, st));
	}
	if !started && r.chance(1, 2) {
		block.push(Op::Start(0)); // started after the things that wait for it were scheduled
	}
	ops.push(Op::Mid { point, n: block.len() });
	ops.extend(block);
	let nchunks = r.range(8, 40) as usize;
	let drop_at = if r.chance(1, 4) { Some(r.range(3, nchunks as i64 - 1) as usize) } else { None };
	for k in 0..nchunks {
		if drop_at == Some(k) {
			ops.push(Op::Drop(0));
		}
		ops.push(Op::StartProc);
		ops.push(Op::Process(buf));
		ops.push(Op::StartProc);
		if drop_at.map_or(true, |d| k < d) {
			ops.push(Op::Obs(0));
		}
	}
	let sc = Scenario { sr, buf, ops, dyadic };
	let t = run_scenario(&sc, 20000);
	s.eval_only("monitor_mid_callback");
	let desc = scenario_text(&sc);
	if to_model {
		let term = scenario_term(&sc, false);
		s.case("history_mid_callback_f64", term.clone(), &t.obs64, Some(key_of(&term)));
	}
	if !t.complete {
		s.fail(desc, "history did not complete (panic or hang in a callback, or the mid-callback block did not run)".into(), None);
		return;
	}
	let views: Vec<View> = t.views.iter().map(|x| x.2).collect();
	// what was given to the main track after it had picked up its new sounds is picked up by the next callback
	let pick = if point == 3 { 1 } else { 0 };
	check_events(s, &desc, &t, &views, idle, pick, drop_at, nchunks);
}


/// Directed, independent of the seed, run first: the "restart the metronome" idiom.  A clock that has run for a
/// while gets stop() immediately followed by start() (or pause()) with no callback in between; a sound is then
/// scheduled on the restarted clock.  Stopping resets the clock to zero: after the next buffer it shows exactly one
/// buffer's worth of time (stop; start) or (0, 0.0) and not ticking (stop; pause), and the sound begins in the buffer
/// during which the RESTARTED clock reaches its time.  Every quantity is a power of two; the histories also go to
/// the model.
fn directed_restart(s: &mut Session) {
	for (sr, buf, tps, ran, then_start) in [(1024u32, 128usize, 8.0f64, 6usize, true), (1024, 128, 8.0, 6, false), (512, 64, 20.0, 9, true), (512, 16, 3.0, 23, false), (1024, 128, 8.0, 1, true)] {
		let sp = Spd { kind: 1, x: tps };
		let per_buffer = tps * buf as f64 / sr as f64;
		let mut ops = vec![Op::AddClock(sp), Op::Start(0)];
		for _ in 0..ran {
			ops.extend([Op::StartProc, Op::Process(buf), Op::StartProc, Op::Obs(0)]);
		}
		ops.push(Op::Stop(0));
		ops.push(if then_start { Op::Start(0) } else { Op::Pause(0) });
		ops.push(Op::Wait(0, St::Clk { clock: 0, ticks: 3, fr: 0.0 }));
		let after = (3.0 / per_buffer).ceil() as usize + 3;
		for _ in 0..after {
			ops.extend([Op::StartProc, Op::Process(buf), Op::StartProc, Op::Obs(0)]);
		}
		let sc = Scenario { sr, buf, ops, dyadic: true };
		let t = run_scenario(&sc, 20000);
		let desc = scenario_term(&sc, false);
		s.case("history_directed_restart_f64", desc.clone(), &t.obs64, Some(key_of(&desc)));
		s.case("history_directed_restart_Q", scenario_term(&sc, true), &t.obsq, None);
		if !t.complete || t.views.len() != ran + after {
			s.fail(desc, "history did not complete".into(), None);
			continue;
		}
		let views: Vec<View> = t.views.iter().map(|x| x.2).collect();
		let before = views[ran - 1];
		for j in 0..after {
			let v = views[ran + j];
			let want = if then_start { per_buffer * (j + 1) as f64 } else { 0.0 };
			if !(v.ticking == then_start && v.ticks as f64 == want.floor() && v.fr == want - want.floor()) {
				s.fail(
					desc.clone(),
					format!(
						"the clock had run for {ran} buffers and showed {:?}; then stop() immediately followed by {} between two callbacks: stopping resets the clock to zero, so {} buffer(s) later it must show {:?} ticks and ticking = {}, but it shows {:?}",
						before,
						if then_start { "start()" } else { "pause()" },
						j + 1,
						want,
						then_start,
						v
					),
					None,
				);
				break;
			}
		}
		// the sound scheduled for tick 3 of the restarted clock: the event clause on the clock's published words
		check_events(s, &desc, &t, &views[ran..], ran, 0, None, ran + after);
	}
}

/// a speed tween measured in audio time is due in audio time: given to a clock that is paused (or not yet
/// started) it has run its course by the time the clock is started again later than the tween's duration, so
/// from the first buffer after the start the clock advances at exactly the new speed (dyadic values: exact)
fn directed_paused_speed_tween(s: &mut Session) {
	for (sr, buf, tps0, tps1, ran, dur_bufs, paused_bufs) in [
		(1024u32, 128usize, 8.0f64, 2.0f64, 5usize, 3u64, 6usize),
		(1024, 128, 2.0, 16.0, 0, 2, 4),
		(512, 64, 4.0, 1.0, 7, 1, 3),
		(1024, 128, 8.0, 2.0, 3, 0, 2),
	] {
		let per0 = tps0 * buf as f64 / sr as f64;
		let per1 = tps1 * buf as f64 / sr as f64;
		let mut ops = vec![Op::AddClock(Spd { kind: 1, x: tps0 })];
		if ran > 0 {
			ops.push(Op::Start(0));
		}
		for _ in 0..ran {
			ops.extend([Op::StartProc, Op::Process(buf), Op::StartProc, Op::Obs(0)]);
		}
		if ran > 0 {
			ops.push(Op::Pause(0));
		}
		let dur_ns = dur_bufs * buf as u64 * 1_000_000_000 / sr as u64;
		ops.push(Op::SetSpeed { c: 0, v: Spd { kind: 1, x: tps1 }, start: St::Imm, dur_ns, easing: Easing::Linear });
		for _ in 0..paused_bufs {
			ops.extend([Op::StartProc, Op::Process(buf), Op::StartProc, Op::Obs(0)]);
		}
		ops.push(Op::Start(0));
		let after = 5usize;
		for _ in 0..after {
			ops.extend([Op::StartProc, Op::Process(buf), Op::StartProc, Op::Obs(0)]);
		}
		let sc = Scenario { sr, buf, ops, dyadic: true };
		let t = run_scenario(&sc, 20000);
		let desc = scenario_term(&sc, false);
		s.case("history_directed_paused_speed_tween_f64", desc.clone(), &t.obs64, Some(key_of(&desc)));
		s.case("history_directed_paused_speed_tween_Q", scenario_term(&sc, true), &t.obsq, None);
		if !t.complete || t.views.len() != ran + paused_bufs + after {
			s.fail(desc, "history did not complete".into(), None);
			continue;
		}
		let views: Vec<View> = t.views.iter().map(|x| x.2).collect();
		let frozen = per0 * ran as f64;
		for j in 0..paused_bufs {
			let v = views[ran + j];
			if v.ticking || v.ticks as f64 + v.fr != frozen {
				s.fail(desc.clone(), format!("a clock that is not ticking was given a speed tween; {} buffer(s) later it shows {:?} instead of the frozen time {:?}", j + 1, v, frozen), None);
				break;
			}
		}
		for j in 0..after {
			let v = views[ran + paused_bufs + j];
			let want = frozen + per1 * (j + 1) as f64;
			if !(v.ticking && v.ticks as f64 == want.floor() && v.fr == want - want.floor()) {
				s.fail(
					desc.clone(),
					format!(
						"a clock that was not ticking (time {frozen:?}) was told to change its speed from {tps0} to {tps1} ticks per second over {dur_bufs} buffer(s) of audio time; {paused_bufs} buffers later it was started: the tween was due long before, so {} buffer(s) after the start it must show {:?} ticks, but it shows {:?} (the speed change did not take effect when it was due)",
						j + 1,
						want,
						v
					),
					None,
				);
				break;
			}
		}
	}
}

/// what happens around a sound that waits for a clock time and is paused while it waits
#[derive(Clone, Copy, Debug)]
struct PausedWaiter {
	sr: u32,
	buf: usize,
	/// ticks per buffer (a small dyadic number)
	per_buffer: f64,
	tau: (u64, f64),
	/// buffers before sound.pause()
	n0: usize,
	/// buffers between sound.pause() and the clock event
	n1: usize,
	/// the clock event: 0 nothing, 1 clock.pause(), 2 clock.stop(), 3 the clock's handle is dropped
	ev: u8,
	/// buffers between the clock event and sound.resume()
	n2: usize,
	resume: bool,
	/// buffers after that
	n3: usize,
}

/// The event clause for a waiter whose own playback is paused while it waits (`StartTime::update` is where a
/// missing clock is noticed and where a reached time is latched; both must go on while the sound is paused):
/// * the clock disappears while the sound is paused and the time was never reached -> the sound becomes Stopped;
/// * the running clock reaches the time while the sound is paused -> the event is due from then on: whatever happens
///   to the clock afterwards (paused, stopped, removed), the sound plays as soon as it is resumed - never late, not
///   cancelled;
/// * reached before the pause / after the resume: the ordinary rule (begins in the buffer in which the clock
///   reaches the time).
/// One internal buffer per callback; an extra on_start_processing publishes the clock's time after each buffer.
fn paused_waiter_case(s: &mut Session, c: &PausedWaiter) {
	let sp = Spd { kind: 1, x: c.per_buffer * c.sr as f64 / c.buf as f64 };
	let mut ops = vec![Op::AddClock(sp), Op::Start(0), Op::Wait(0, St::Clk { clock: 0, ticks: c.tau.0, fr: c.tau.1 })];
	let mut alive = true;
	let chunks = |ops: &mut Vec<Op>, n: usize, alive: bool| {
		for _ in 0..n {
			ops.extend([Op::StartProc, Op::Process(c.buf), Op::StartProc]);
			if alive {
				ops.push(Op::Obs(0));
			}
			ops.push(Op::SndObs(0));
		}
	};
	chunks(&mut ops, c.n0, alive);
	ops.push(Op::SndPause(0));
	chunks(&mut ops, c.n1, alive);
	match c.ev {
		1 => ops.push(Op::Pause(0)),
		2 => ops.push(Op::Stop(0)),
		3 => {
			ops.push(Op::Drop(0));
			alive = false;
		}
		_ => {}
	}
	chunks(&mut ops, c.n2, alive);
	if c.resume {
		ops.push(Op::SndResume(0));
	}
	chunks(&mut ops, c.n3, alive);
	let (p, e, q) = (c.n0, c.n0 + c.n1, c.n0 + c.n1 + c.n2);
	let total = q + c.n3;
	let sc = Scenario { sr: c.sr, buf: c.buf, ops, dyadic: true };
	let t = run_scenario(&sc, 20000);
	s.eval_only("monitor_paused_waiter");
	let desc = scenario_text(&sc);
	if !t.complete || t.waits.len() != 1 || t.chunk_starts.len() != total {
		s.fail(desc, "history did not complete".into(), None);
		return;
	}
	let views: Vec<View> = t.views.iter().map(|x| x.2).collect();
	let horizon = if c.ev == 3 { e } else { total }.min(views.len());
	let (tau_t, tau_f) = c.tau;
	let reached = |v: &View| v.ticking && (v.ticks > tau_t || (v.ticks == tau_t && v.fr >= tau_f));
	let kstar = (0..horizon).find(|&k| reached(&views[k]));
	let w = &t.waits[0];
	let starts = &t.chunk_starts;
	let story = format!(
		"sound scheduled for ({tau_t}, {tau_f:?}); sound.pause() before buffer {p}; {} before buffer {e}; {}",
		["no clock event", "clock.pause()", "clock.stop()", "clock handle dropped"][c.ev as usize],
		if c.resume { format!("sound.resume() before buffer {q}") } else { "never resumed".to_string() }
	);
	let states: Vec<String> = t.snd_views.iter().map(|x| format!("{:?}@{:?}", x.2, x.3)).collect();
	let seen = format!("state()@position() after each buffer: [{}]", states.join(", "));
	match kstar {
		None => {
			s.count("paused_waiter_never_due");
			if w.state == 1 {
				s.fail(desc.clone(), format!("{story}: the sound began at frame {} although the running clock never reached that time; {seen}", w.frame), None);
			}
			if c.ev == 3 && total - e >= 2 && w.final_state != PlaybackState::Stopped {
				s.fail(
					desc.clone(),
					format!("{story}: the sound waits for a clock that no longer exists (removed {} buffers ago, never having reached that time) but the sound is {:?}, not Stopped; {seen}", total - e, w.final_state),
					None,
				);
			}
			if c.ev != 3 && w.final_state == PlaybackState::Stopped {
				s.fail(desc.clone(), format!("{story}: the sound was cancelled (Stopped) although its clock exists; {seen}"), None);
			}
		}
		Some(k) => {
			let shown = format!("the ticking clock showed ({}, {:?}) after buffer {k}", views[k].ticks, views[k].fr);
			// the device frames at which the sound may first be heard: [lo, hi)
			let at = |k: usize| (starts[k], starts[k] + 1);
			let allowed: Vec<(usize, usize)> = if k < p {
				vec![at(k)]
			} else if !c.resume {
				// due while paused and never resumed: silent is right (heard in the buffer of the pause itself if due there)
				if k == p { vec![(starts[p], starts[p] + c.buf)] } else { vec![] }
			} else if k > q {
				vec![at(k)]
			} else {
				// due while the sound was paused (or in the buffer of the resume): it plays as soon as it is resumed, i.e.
				// it is heard within the buffer of the resume or at the start of the next (the zero-length fade-in ramps
				// over the buffer in which the resume is picked up: see the notes)
				let mut a = vec![(starts[q], starts[q] + c.buf + 1)];
				if k == p {
					a.push((starts[p], starts[p] + c.buf));
				}
				a
			};
			s.count(if k >= p && c.resume && k < q { "paused_waiter_due_while_paused_then_resumed" } else { "paused_waiter_due_other" });
			if w.final_state == PlaybackState::Stopped || w.state == 2 {
				s.fail(desc.clone(), format!("{story}: {shown}, so the start is due; yet the sound was cancelled (Stopped); {seen}"), None);
			} else if w.state == 1 {
				if !allowed.iter().any(|(lo, hi)| (*lo as i64) <= w.frame && w.frame < *hi as i64) {
					s.fail(
						desc.clone(),
						format!("{story}: {shown}; the sound is first heard at device frame {} (buffer {}) but must first be heard at a frame in {:?} (buffers are {} frames); {seen}", w.frame, w.frame / c.buf as i64, allowed, c.buf),
						None,
					);
				}
			} else if c.resume && k <= q && total >= q + 3 {
				s.fail(
					desc.clone(),
					format!("{story}: {shown}, so the start has been due since then; {} buffers after the resume the sound is still silent (state {:?}): late; {seen}", total - q, w.final_state),
					None,
				);
			} else if c.resume && k > q && total >= k + 2 {
				s.fail(desc.clone(), format!("{story}: {shown}; the sound never began (state {:?}): late; {seen}", w.final_state), None);
			}
		}
	}
}

/// Directed, independent of the seed, run first: the two situations of `paused_waiter_case` on power-of-two numbers
/// (1024 Hz, 128-frame buffers, 8 ticks per second: one buffer = one tick).
fn directed_paused_waiter(s: &mut Session) {
	let base = PausedWaiter { sr: 1024, buf: 128, per_buffer: 1.0, tau: (100, 0.0), n0: 2, n1: 2, ev: 3, n2: 4, resume: false, n3: 0 };
	// paused while waiting for tick 100; the clock is removed -> Stopped (with and without a later resume)
	paused_waiter_case(s, &base);
	paused_waiter_case(s, &PausedWaiter { n2: 3, resume: true, n3: 3, ..base });
	paused_waiter_case(s, &PausedWaiter { n0: 0, n1: 1, ..base });
	// paused while waiting for tick 4; the clock passes tick 4, is then stopped / paused / removed; the sound is resumed -> plays
	for ev in [2u8, 1, 3, 0] {
		paused_waiter_case(s, &PausedWaiter { tau: (4, 0.0), n0: 1, n1: 8, ev, n2: 1, resume: true, n3: 4, ..base });
		paused_waiter_case(s, &PausedWaiter { tau: (2, 0.5), n0: 1, n1: 3, ev, n2: 0, resume: true, n3: 3, per_buffer: 0.5, sr: 512, buf: 16 });
	}
	// controls: never paused long enough to matter
	paused_waiter_case(s, &PausedWaiter { tau: (1, 0.0), n0: 3, n1: 2, ev: 1, n2: 1, resume: true, n3: 3, ..base });
	paused_waiter_case(s, &PausedWaiter { tau: (9, 0.0), n0: 1, n1: 2, ev: 0, n2: 1, resume: true, n3: 8, ..base });
}

/// seeded: the region around `directed_paused_waiter`
fn monitor_paused_waiter(s: &mut Session, r: &mut Rng) {
	let sr = *r.pick(&[512u32, 1024]);
	let buf = *r.pick(&[16usize, 64, 128]);
	let per_buffer = *r.pick(&[0.25, 0.5, 1.0, 2.0, 0.375, 1.25]);
	let n0 = r.below(4) as usize;
	let mut n1 = r.below(9) as usize;
	let ev = r.below(4) as u8;
	if ev == 3 && n0 + n1 == 0 {
		// a clock whose handle is dropped before the audio thread has picked the clock up lives (unobserved) through
		// the first buffer: keep the removal observable
		n1 = 1;
	}
	let n2 = r.below(4) as usize;
	let resume = r.chance(3, 4);
	let n3 = r.range(2, 6) as usize;
	let tau = match r.below(5) {
		// reached by the clock while the sound is paused, exactly at the end of a buffer
		0 | 1 if n1 >= 2 => {
			let k = n0 + 1 + r.below(n1 as u64 - 1) as usize;
			let x = per_buffer * (k + 1) as f64;
			(x.floor() as u64, x - x.floor())
		}
		// never reached
		2 => (100 + r.below(3), 0.0),
		_ => (r.below(10), *r.pick(&[0.0, 0.0, 0.5, 0.25, 0.875])),
	};
	paused_waiter_case(s, &PausedWaiter { sr, buf, per_buffer, tau, n0, n1, ev, n2, resume, n3 });
}

/// F17: a speed tween scheduled on the clock's own time never starts; the same tween scheduled on
/// another clock that keeps the same time does.
fn monitor_self_reference(s: &mut Session, r: &mut Rng) {
	let sr = 512u32;
	let buf = *r.pick(&[16usize, 64]);
	let v0 = Spd { kind: 1, x: (r.below(16) + 8) as f64 / 8.0 };
	let v1 = Spd { kind: 1, x: v0.x * 4.0 };
	let tau = r.below(3) + 1;
	let frames = ((tau as f64 / v0.x) * sr as f64) as usize + 6 * sr as usize;
	for own in [true, false] {
		let ops = vec![
			Op::AddClock(v0),
			Op::AddClock(v0),
			Op::Start(0),
			Op::Start(1),
			Op::SetSpeed { c: 0, v: v1, start: St::Clk { clock: if own { 0 } else { 1 }, ticks: tau, fr: 0.0 }, dur_ns: 0, easing: Easing::Linear },
			Op::StartProc,
			Op::Process(frames),
			Op::StartProc,
			Op::Obs(0),
			Op::Obs(1),
		];
		let sc = Scenario { sr, buf, ops, dyadic: true };
		let t = run_scenario(&sc, 20000);
		s.eval_only("monitor_self_reference");
		if t.views.len() != 2 {
			s.fail(scenario_term(&sc, false), "history did not complete".into(), None);
			continue;
		}
		let (a, b) = (t.views[0].2, t.views[1].2);
		let ta = a.ticks as f64 + a.fr;
		let tb = b.ticks as f64 + b.fr;
		// clock 1 ran at v0 throughout; clock 0 must have run at v1 for (about) the time after tau
		let changed = ta > tb + 1.0;
		if !changed {
			s.fail(
				scenario_term(&sc, false),
				format!(
					"set_speed({:?} -> {:?}) with a tween starting at tick {tau} of {}: after {} s the clock shows {:?} ticks, exactly what the old speed gives ({:?}): the change never took effect",
					v0.x,
					v1.x,
					if own { "the clock's own time" } else { "another clock" },
					frames as f64 / sr as f64,
					ta,
					tb
				),
				if own { Some("speed_tween_on_own_clock") } else { None },
			);
		}
	}
}

/// F7 (repaired): the speeds on which `Clock::update` used to count ticks forever (SecondsPerTick(0.0):
/// increment +inf; TicksPerSecond(1e300): x - 1.0 == x) or for minutes (TicksPerSecond(1e9) at a 1 Hz
/// device: 1.6e10 iterations per 16-frame buffer) are regression cases: every callback must return
/// promptly, with exactly the tick count and fraction the model predicts (Props.v tick_loop_diverges_refuted).
fn f7_regression_cases(s: &mut Session) {
	let cases: [(Spd, u32, &str); 6] = [
		(Spd { kind: 0, x: 0.0 }, 512, "SecondsPerTick(0.0)"),
		(Spd { kind: 1, x: 1e300 }, 512, "TicksPerSecond(1e300)"),
		(Spd { kind: 1, x: f64::INFINITY }, 512, "TicksPerSecond(inf)"),
		(Spd { kind: 1, x: 1e9 }, 1, "TicksPerSecond(1e9) at a 1 Hz device rate"),
		(Spd { kind: 2, x: f64::MAX }, 1, "TicksPerMinute(f64::MAX) at a 1 Hz device rate"),
		(Spd { kind: 1, x: 5.0e17 }, 1, "TicksPerSecond(5e17) at a 1 Hz device rate (u64 saturates in the third buffer)"),
	];
	for (sp, sr, what) in cases {
		let ops = vec![
			Op::AddClock(sp),
			Op::Start(0),
			Op::StartProc,
			Op::Obs(0),
			Op::Process(16),
			Op::StartProc,
			Op::Obs(0),
			Op::Process(40),
			Op::StartProc,
			Op::Obs(0),
		];
		let sc = Scenario { sr, buf: 16, ops, dyadic: false };
		let t0 = std::time::Instant::now();
		let t = run_scenario(&sc, 3000);
		let took = t0.elapsed();
		s.case("f7_regression", scenario_term(&sc, false), &t.obs64, Some(format!("f7:{}:{}", sp.kind, sp.x.to_bits())));
		if !t.complete && t.panic.is_none() {
			s.fail(
				scenario_term(&sc, false),
				format!("clock speed {what}: the audio callback did not return within 3 s (Clock::update counts the ticks of its timer one by one: `while tick_timer >= 1.0 {{ tick_timer -= 1.0; ticks += 1 }}`)"),
				None,
			);
			continue;
		}
		if let Some(c) = t.panic {
			s.fail(scenario_term(&sc, false), format!("clock speed {what}: panic (code {c}) in a callback"), None);
			continue;
		}
		if took > Duration::from_millis(1500) {
			s.fail(scenario_term(&sc, false), format!("clock speed {what}: three buffers took {:?}: the cost of Clock::update grows with the clock speed", took), None);
		}
		// the property on the implementation: after a buffer the clock shows a fraction in [0,1) and a tick count that did not go back
		let views: Vec<View> = t.views.iter().map(|x| x.2).collect();
		for w in views.windows(2) {
			if w[1].ticks < w[0].ticks {
				s.fail(scenario_term(&sc, false), format!("clock speed {what}: tick count went back from {} to {}", w[0].ticks, w[1].ticks), None);
			}
		}
		for v in &views {
			if !(v.fr >= 0.0 && v.fr < 1.0) {
				s.fail(scenario_term(&sc, false), format!("clock speed {what}: time() shows the fraction {:?}, outside [0,1)", v.fr), None);
			}
		}
		if views.len() == 3 && views[2].ticks == 0 {
			s.fail(scenario_term(&sc, false), format!("clock speed {what}: the clock did not advance"), None);
		}
	}
}

// ------------------------------------------------------------------------------------------
// the two-word protocol under a schedule: real threads, real code, a baton at the yield points
// (hooks, cfg(kira_verif): ClockShared::fractional_position [= between the two loads of
// ClockHandle::time], Clock::update_shared between its two stores, ClockHandle::stop between its two)
// ------------------------------------------------------------------------------------------
struct Baton {
	st: Mutex<(Vec<u8>, usize, bool)>, // schedule, position, timed out
	cv: std::sync::Condvar,
}
impl Baton {
	fn wait_turn(&self, me: u8) {
		let mut g = self.st.lock().unwrap();
		loop {
			if g.1 >= g.0.len() || g.0[g.1] == me || g.2 {
				return;
			}
			let (g2, to) = self.cv.wait_timeout(g, Duration::from_secs(5)).unwrap();
			g = g2;
			if to.timed_out() {
				g.2 = true;
				self.cv.notify_all();
				return;
			}
		}
	}
	fn done_step(&self) {
		let mut g = self.st.lock().unwrap();
		g.1 += 1;
		self.cv.notify_all();
	}
}
static BATON: Mutex<Option<Arc<Baton>>> = Mutex::new(None);
fn install_hook() {
	kira::verif::set_yield_hook(Some(Arc::new(|name: &'static str| {
		let b = BATON.lock().unwrap().clone();
		if let Some(b) = b {
			if name.starts_with("ClockHandle::time") || name.starts_with("ClockHandle::stop") {
				b.done_step();
				b.wait_turn(1);
			} else if name.starts_with("Clock::update_shared") {
				b.done_step();
				b.wait_turn(0);
			}
		}
	})));
}
/// mirror of C05/Shared.v `step` on positions only: which reads overlapped no publication
fn clean_flags(npubs: usize, prog: &[u8], sched: &[u8]) -> Vec<i128> {
	let (mut a_left, mut a_pc, mut a_done) = (npubs, false, 0usize);
	let (mut hi, mut h_pc, mut h_at) = (0usize, false, (0usize, false));
	let mut flags = vec![];
	for t in sched {
		if *t == 0 {
			if a_left == 0 {
				continue;
			}
			if a_pc {
				a_pc = false;
				a_left -= 1;
				a_done += 1;
			} else {
				a_pc = true;
			}
		} else {
			if hi >= prog.len() {
				continue;
			}
			if h_pc {
				if prog[hi] == 0 {
					flags.push(if !a_pc && !h_at.1 && h_at.0 == a_done { a_done as i128 } else { -1 });
				}
				h_pc = false;
				hi += 1;
			} else {
				h_at = (a_done, a_pc);
				h_pc = true;
			}
		}
	}
	flags
}
/// Replays a complete schedule (2 steps per publication, 2 per handle operation) on the real code.
/// `frames[0]` is processed before the schedule starts; publication j shows the time after
/// frames[0..=j].  Returns (final words, reads) or None on a baton timeout.
fn replay_schedule(frames: &[usize], prog: &[u8], sched: &[u8]) -> Option<((u64, u64), Vec<(u64, u64)>)> {
	let mut mgr = simple_manager(512, 16);
	let mut handle = mgr.add_clock(ClockSpeed::TicksPerSecond(8.0)).unwrap();
	handle.start();
	let mut buf = vec![0.0f32; 2 * frames[0]];
	mgr.backend_mut().r().on_start_processing();
	mgr.backend_mut().r().process(&mut buf, 2);
	let baton = Arc::new(Baton { st: Mutex::new((sched.to_vec(), 0, false)), cv: std::sync::Condvar::new() });
	*BATON.lock().unwrap() = Some(baton.clone());
	let npubs = frames.len();
	let mut reads = vec![];
	std::thread::scope(|sc| {
		let b0 = baton.clone();
		let mgr_ref = &mut mgr;
		sc.spawn(move || {
			for j in 0..npubs {
				b0.wait_turn(0);
				mgr_ref.backend_mut().r().on_start_processing(); // the yield point inside hands the baton over between the stores
				if j + 1 < npubs {
					let mut buf = vec![0.0f32; 2 * frames[j + 1]];
					mgr_ref.backend_mut().r().process(&mut buf, 2);
				}
				b0.done_step();
			}
		});
		let b1 = baton.clone();
		let h = &mut handle;
		let reads_ref = &mut reads;
		sc.spawn(move || {
			for o in prog {
				b1.wait_turn(1);
				if *o == 0 {
					let t = h.time();
					reads_ref.push((t.ticks, t.fraction.to_bits()));
				} else {
					h.stop();
				}
				b1.done_step();
			}
		});
	});
	*BATON.lock().unwrap() = None;
	let timed_out = baton.st.lock().unwrap().2;
	if timed_out {
		return None;
	}
	let t = handle.time();
	Some(((t.ticks, t.fraction.to_bits()), reads))
}
fn time_after(frames: &[usize], j: usize) -> (u64, u64) {
	let total: usize = frames[..=j].iter().sum();
	let t = 8.0 * total as f64 / 512.0;
	(t.floor() as u64, (t - t.floor()).to_bits())
}
fn interleavings(na: usize, nh: usize, cur: &mut Vec<u8>, out: &mut Vec<Vec<u8>>) {
	if na == 0 && nh == 0 {
		out.push(cur.clone());
		return;
	}
	if na > 0 {
		cur.push(0);
		interleavings(na - 1, nh, cur, out);
		cur.pop();
	}
	if nh > 0 {
		cur.push(1);
		interleavings(na, nh - 1, cur, out);
		cur.pop();
	}
}
fn schedule_case(s: &mut Session, frames: &[usize], prog: &[u8], sched: &[u8], kind: &str) {
	let pubs: Vec<(u64, u64)> = (0..frames.len()).map(|j| time_after(frames, j)).collect();
	let term = format!(
		"CSched [{}] [{}] [{}]",
		pubs.iter().map(|(a, b)| format!("({}, {})", a, b)).collect::<Vec<_>>().join("; "),
		prog.iter().map(|x| x.to_string()).collect::<Vec<_>>().join("; "),
		sched.iter().map(|x| x.to_string()).collect::<Vec<_>>().join("; ")
	);
	let Some((words, reads)) = replay_schedule(frames, prog, sched) else {
		s.fail(term, "schedule replay timed out: the real code did not pass the yield points the model's steps assume".into(), None);
		return;
	};
	let flags = clean_flags(frames.len(), prog, sched);
	let mut obs = vec![words.0 as i128, words.1 as i128];
	for (k, r) in reads.iter().enumerate() {
		obs.extend([r.0 as i128, r.1 as i128, *flags.get(k).unwrap_or(&-2)]);
	}
	s.case(kind, term.clone(), &obs, Some(key_of(&term)));
	// the property on the implementation: every read is a time the clock had; successive reads of the running clock never go backwards
	let had = |r: &(u64, u64)| *r == (0, 0) || pubs.contains(r);
	let has_stop = prog.contains(&1);
	let mut prev: Option<(u64, u64)> = None;
	for (k, r) in reads.iter().enumerate() {
		let as_time = |x: &(u64, u64)| x.0 as f64 + f64::from_bits(x.1);
		if !had(r) {
			s.fail(
				term.clone(),
				format!(
					"time() call {k} returned ({}, {:?}), a time the clock never had (published: (0, 0.0), {})",
					r.0,
					f64::from_bits(r.1),
					pubs.iter().map(|p| format!("({}, {:?})", p.0, f64::from_bits(p.1))).collect::<Vec<_>>().join(", ")
				),
				Some("clock_time_torn_read"),
			);
		} else if flags.get(k).copied().unwrap_or(-1) >= 0 {
			// a read that overlapped no publication must be the latest published time
			let n = flags[k] as usize;
			let want = if n == 0 { (0, 0) } else { pubs[n - 1] };
			if *r != want && !has_stop {
				s.fail(term.clone(), format!("time() call {k} overlapped no publication but returned {:?} instead of the latest published time {:?}", r, want), None);
			}
		}
		if let Some(p) = prev {
			if !has_stop && as_time(r) < as_time(&p) {
				s.fail(
					term.clone(),
					format!("successive time() calls went backwards while the clock runs: {:?} then {:?}", as_time(&p), as_time(r)),
					if flags.get(k).copied().unwrap_or(-1) >= 0 && flags.get(k - 1).copied().unwrap_or(-1) >= 0 { None } else { Some("clock_time_torn_read") },
				);
			}
		}
		prev = Some(*r);
	}
}
fn schedule_cases(s: &mut Session, r: &mut Rng, thorough: bool) {
	install_hook();
	// the model's witnesses (Props.v torn_read_refuted, torn_read_ahead_refuted, stop_store_race_refuted)
	schedule_case(s, &[48, 32], &[0, 0], &[0, 0, 1, 1, 1, 0, 0, 1], "schedule_witness");
	schedule_case(s, &[48, 32], &[0, 0], &[0, 0, 0, 1, 1, 0, 1, 1], "schedule_witness");
	schedule_case(s, &[368], &[1, 0], &[0, 1, 1, 0, 1, 1], "schedule_witness");
	// exhaustive: every interleaving of 2 publications with 2 reads, 2 with 3, 3 with 2
	for (np, nr) in [(2usize, 2usize), (2, 3), (3, 2)] {
		let mut all = vec![];
		interleavings(2 * np, 2 * nr, &mut vec![], &mut all);
		let frames: Vec<usize> = [48usize, 32, 40][..np].to_vec();
		for sched in &all {
			schedule_case(s, &frames, &vec![0; nr], sched, "schedule_exhaustive");
		}
	}
	// sampled: larger programs
	for _ in 0..(if thorough { 3000 } else { 300 }) {
		let np = r.range(2, 5) as usize;
		let nr = r.range(2, 5) as usize;
		let frames: Vec<usize> = (0..np).map(|_| 8 * (r.below(12) + 1) as usize).collect();
		let mut sched = vec![];
		let (mut a, mut h) = (2 * np, 2 * nr);
		while a + h > 0 {
			if h == 0 || (a > 0 && r.chance(1, 2)) {
				sched.push(0);
				a -= 1;
			} else {
				sched.push(1);
				h -= 1;
			}
		}
		schedule_case(s, &frames, &vec![0; nr], &sched, "schedule_sampled");
	}
	kira::verif::set_yield_hook(None);
}

pub fn run(args: &Args) {
	let mut rng = Rng::new(args.seed ^ 0xC05);
	let n: u64 = (if args.thorough { 4000 } else { 500 }) * args.budget_mul;
	let mut s = Session::new(
		"C05",
		&args.out,
		"From Coq Require Import ZArith List. Import ListNotations. Open Scope Z_scope.\nFrom KV Require Import Base.Corr C05.Run.",
		"run",
		40,
		"one case = one history on a real AudioManager: clocks added / started / paused / stopped / retimed (speed tweens with immediate, delayed and clock start times) / dropped, sounds, volume tweens and resumes waiting for clock times, callbacks of arbitrary frame counts over arbitrary internal buffer sizes, user-side calls made between callbacks or (history_mid_callback) in the middle of on_start_processing at each reachable point, targets on / one ulp around the times the clock shows and on ticks the clock is a rounding error short of (history_boundary_target); observables = ClockHandle::time()/ticking() at every observation point, begin frame / cancellation of every waiter; distinct = distinct history text; non-trivial = at least one clock ticks through a callback",
	);
	if std::env::var("C05_EXPERIMENT").is_ok() {
		experiment();
		return;
	}

	// ---- directed scenarios, the same on every run (independent of the seed), first
	directed_restart(&mut s);
	directed_paused_speed_tween(&mut s);
	directed_paused_waiter(&mut s);

	// ---- model correspondence: dyadic regime (binary64 and exact rationals), arbitrary regime (binary64)
	for i in 0..n {
		let dyadic = i % 2 == 0;
		let events = i % 3 != 2;
		let sc = gen_scenario(&mut rng, dyadic, events, false);
		let t = run_scenario(&sc, 20000);
		let term = scenario_term(&sc, false);
		s.case(if dyadic { "history_dyadic_f64" } else { "history_arbitrary_f64" }, term.clone(), &t.obs64, Some(key_of(&term)));
		// The exact-rational twin asserts that binary64 made NO rounding on this history.  The dyadic generator's
		// mantissa budget covers up to two tweened speed changes per history (a third one retargets from a mid-tween
		// value whose mantissa has already grown: found with VERIF_SEED=2 after the seed hash, 59 bits needed);
		// longer histories are compared with the binary64 model only.
		let tweened = sc.ops.iter().filter(|o| matches!(o, Op::SetSpeed { dur_ns, .. } if *dur_ns > 0)).count();
		if dyadic && tweened <= 2 {
			let termq = scenario_term(&sc, true);
			s.case("history_dyadic_Q", termq, &t.obsq, None);
		}
		if !t.complete {
			s.fail(term, "history did not complete (panic or hang in a callback)".into(), None);
		}
	}

	// ---- the same histories with the user's calls made while the audio thread is in the middle of
	// on_start_processing: indistinguishable from the sequential history `linearise` gives to the model
	for i in 0..(n / 8).max(20) {
		let dyadic = i % 2 == 0;
		let sc = gen_scenario(&mut rng, dyadic, true, true);
		let t = run_scenario(&sc, 20000);
		let term = scenario_term(&sc, false);
		s.case("history_mid_callback_f64", term.clone(), &t.obs64, Some(key_of(&term)));
		if !t.complete {
			s.fail(scenario_text(&sc), "history did not complete (panic or hang in a callback, or the mid-callback block did not run)".into(), None);
		}
	}

	// ---- boundary stream: zero / negative / NaN / huge / infinite speeds (2^53, 2^54, 2^63, 2^64 ticks per 16-frame
	// buffer at 512 Hz; the F7 region), zero-frame callbacks, callbacks smaller than the buffer
	for (k, x) in [0.0, -0.0, -1.0, -8.5, f64::NAN, 2000.0, 1e-300, 5e-324, f64::MIN_POSITIVE, 1e9, 2.8823037615171174e17, 5.764607523034235e17, 2.9514790517935283e20, 5.902958103587057e20, 1e300, f64::MAX, f64::INFINITY, f64::NEG_INFINITY, -1e300]
		.iter()
		.enumerate()
	{
		for kind in 0..3u8 {
			let sp = Spd { kind, x: *x };
			let ops = vec![
				Op::AddClock(sp),
				Op::Start(0),
				Op::StartProc,
				Op::Process(16),
				Op::StartProc,
				Op::Obs(0),
				Op::Process(0),
				Op::StartProc,
				Op::Process(5 + k),
				Op::StartProc,
				Op::Obs(0),
			];
			let sc = Scenario { sr: 512, buf: 16, ops, dyadic: false };
			let t = run_scenario(&sc, 20000);
			let term = scenario_term(&sc, false);
			s.case("history_boundary_speed", term.clone(), &t.obs64, Some(key_of(&term)));
		}
	}
	s.notes.push("resume_at(ClockTime): the playback state becomes Resuming (and the position advances) in the buffer k* predicted by the model, but the fade-in parameter is set after its own update in that buffer, so the first audible frame is the first frame of buffer k*+1; the harness maps the audible onset back by one buffer".into());
	s.notes.push("monitor-only (no model twin): a sound waiting for a clock time whose own playback is paused while it waits (monitor_paused_waiter / directed_paused_waiter): cancelled when the clock disappears, due from the buffer in which the running clock reaches the time whatever happens to the clock afterwards, heard within one buffer of the resume; the C05 model's waiters have no pause of their own. stop() immediately followed by start()/pause() between two callbacks (directed_restart, monitor_history) is both monitored and sent to the model".into());
	s.notes.push("hooks used (cfg(kira_verif), add-only): yield points in ClockShared::fractional_position (= between the two loads of ClockHandle::time), Clock::update_shared (between its two stores), ClockHandle::stop (between its two stores)".into());
	s.notes.push("not driven: clock speeds linked to modulators (Value::FromModulator), streaming sounds as waiters (the tick count saturates at u64::MAX in every build profile since the F7 repair: boundary stream and f7_regression cases)".into());

	// ---- monitors
	for _ in 0..n {
		monitor_partition(&mut s, &mut rng);
	}
	for _ in 0..n {
		monitor_history(&mut s, &mut rng);
	}
	for _ in 0..(n / 50).max(3) {
		monitor_self_reference(&mut s, &mut rng);
	}
	boundary_corpus(&mut s);
	for i in 0..(n / 3).max(60) {
		monitor_boundary_targets(&mut s, &mut rng, i % 4 == 0);
	}
	for i in 0..(n / 3).max(60) {
		monitor_mid_callback(&mut s, &mut rng, i % 4 == 0);
	}
	for _ in 0..(n / 2).max(100) {
		monitor_paused_waiter(&mut s, &mut rng);
	}
	schedule_cases(&mut s, &mut rng, args.thorough);
	// last: if F7 is back each of these leaves a spinning thread behind
	f7_regression_cases(&mut s);
	s.finish();
}

fn experiment() {
	let ops = vec![
		Op::AddClock(Spd { kind: 1, x: 8.0 }),
		Op::Start(0),
		Op::Wait(0, St::Clk { clock: 0, ticks: 1, fr: 0.0 }),
		Op::Wait(1, St::Clk { clock: 0, ticks: 2, fr: 0.0 }),
		Op::StartProc,
		Op::Process(200),
		Op::StartProc,
		Op::Obs(0),
	];
	let sc = Scenario { sr: 512, buf: 16, ops, dyadic: true };
	let t = run_scenario(&sc, 5000);
	println!("{:?}", t);
	let ops = vec![
		Op::AddClock(Spd { kind: 1, x: 8.0 }),
		Op::Start(0),
		Op::Wait(2, St::Clk { clock: 0, ticks: 1, fr: 0.0 }),
		Op::StartProc,
		Op::Process(200),
		Op::StartProc,
		Op::Obs(0),
	];
	let sc = Scenario { sr: 512, buf: 16, ops, dyadic: true };
	let t = run_scenario(&sc, 5000);
	println!("{:?}", t);
}
