//! C04 — static playback is sample-accurate: drives the real `StaticSound` (through
//! `SoundData::into_sound`, `Sound::on_start_processing`, `Sound::process`, the handle) and a
//! few cases through a real `AudioManager<VBackend>`; evaluates the property monitors on what
//! the implementation did and emits cases for the Gallina model (C04/Run.v).
use crate::backend::*;
use crate::util::*;
use kira::info::MockInfoBuilder;
use kira::sound::static_sound::{StaticSoundData, StaticSoundSettings};
use kira::sound::{EndPosition, PlaybackPosition, PlaybackState, Region, SoundData};
use kira::{interpolate_frame, Easing, Frame, PlaybackRate, StartTime, Tween, Value};
use std::sync::{mpsc, Arc, Mutex};
use std::time::Duration;

#[derive(Clone, Copy, Debug, PartialEq)]
enum Pos {
	Sec(f64),
	Smp(usize),
}
#[derive(Clone, Copy, Debug, PartialEq)]
enum End {
	End,
	Cus(Pos),
}
#[derive(Clone, Copy, Debug, PartialEq)]
enum Cmd {
	Rate(f64, u64),
	Loop(Pos, End),
	NoLoop,
	SeekBy(f64),
	SeekTo(f64),
}
#[derive(Clone, Debug)]
struct Step {
	cmds: Vec<Cmd>,
	len: usize,
	dt: f64,
}
#[derive(Clone, Debug)]
enum Src {
	Idx(usize),
	/// index-coded inside [lo, hi), NaN outside
	Poi(usize, usize, usize),
	Bits(Vec<(f32, f32)>),
}
#[derive(Clone, Debug)]
struct Case {
	fast: bool,
	sr: u32,
	src: Src,
	slice: Option<(usize, usize)>,
	start: Pos,
	lp: Option<(Pos, End)>,
	rev: bool,
	rate: f64,
	steps: Vec<Step>,
}

fn pos_term(p: Pos) -> String {
	match p {
		Pos::Sec(x) => format!("(PSec {})", f64_bits_z(x)),
		Pos::Smp(n) => format!("(PSmp {})", n),
	}
}
fn end_term(e: End) -> String {
	match e {
		End::End => "EEnd".to_string(),
		End::Cus(p) => format!("(ECus {})", pos_term(p)),
	}
}
fn cmd_term(c: &Cmd) -> String {
	match c {
		Cmd::Rate(v, d) => format!("KRate {} {}", f64_bits_z(*v), d),
		Cmd::Loop(s, e) => format!("KLoop {} {}", pos_term(*s), end_term(*e)),
		Cmd::NoLoop => "KNoLoop".to_string(),
		Cmd::SeekBy(a) => format!("KSeekBy {}", f64_bits_z(*a)),
		Cmd::SeekTo(p) => format!("KSeekTo {}", f64_bits_z(*p)),
	}
}
fn case_term(c: &Case) -> String {
	let src = match &c.src {
		Src::Idx(n) => format!("(SrcIdx {})", n),
		Src::Poi(n, lo, hi) => format!("(SrcPoi {} {} {})", n, lo, hi),
		Src::Bits(v) => format!("(SrcBits [{}])", v.iter().map(|(l, r)| format!("({}, {})", f32_bits_z(*l), f32_bits_z(*r))).collect::<Vec<_>>().join("; ")),
	};
	let slice = match c.slice {
		Some((a, b)) => format!("(Some ({}, {}))", a, b),
		None => "None".to_string(),
	};
	let lp = match c.lp {
		Some((s, e)) => format!("(Some ({}, {}))", pos_term(s), end_term(e)),
		None => "None".to_string(),
	};
	let steps = c
		.steps
		.iter()
		.map(|s| format!("Proc [{}] {} {}", s.cmds.iter().map(cmd_term).collect::<Vec<_>>().join("; "), s.len, f64_bits_z(s.dt)))
		.collect::<Vec<_>>()
		.join("; ");
	format!("CPlay {} {} {} {} {} {} {} {} [{}]", c.fast, c.sr, src, slice, pos_term(c.start), lp, c.rev, f64_bits_z(c.rate), steps)
}

fn kpos(p: Pos) -> PlaybackPosition {
	match p {
		Pos::Sec(x) => PlaybackPosition::Seconds(x),
		Pos::Smp(n) => PlaybackPosition::Samples(n),
	}
}
fn kregion(s: Pos, e: End) -> Region {
	Region {
		start: kpos(s),
		end: match e {
			End::End => EndPosition::EndOfAudio,
			End::Cus(p) => EndPosition::Custom(kpos(p)),
		},
	}
}
/// documented meaning of a position in frames: seconds * sample rate, rounded
fn pos_idx(p: Pos, sr: u32) -> usize {
	match p {
		Pos::Sec(x) => (x * sr as f64).round() as usize,
		Pos::Smp(n) => n,
	}
}
fn region_idx(s: Pos, e: End, sr: u32, n: usize) -> (usize, usize) {
	(
		pos_idx(s, sr),
		match e {
			End::End => n,
			End::Cus(p) => pos_idx(p, sr),
		},
	)
}
fn src_len(s: &Src) -> usize {
	match s {
		Src::Idx(n) | Src::Poi(n, _, _) => *n,
		Src::Bits(v) => v.len(),
	}
}
fn src_frames(s: &Src) -> Vec<Frame> {
	match s {
		Src::Idx(n) => (0..*n).map(indexed_frame).collect(),
		Src::Poi(n, lo, hi) => (0..*n).map(|i| if i >= *lo && i < *hi { indexed_frame(i) } else { Frame::new(f32::NAN, f32::NAN) }).collect(),
		Src::Bits(v) => v.iter().map(|(l, r)| Frame::new(*l, *r)).collect(),
	}
}
fn build(c: &Case) -> StaticSoundData {
	let mut settings = StaticSoundSettings::default();
	settings.start_position = kpos(c.start);
	settings.loop_region = c.lp.map(|(s, e)| kregion(s, e));
	settings.reverse = c.rev;
	settings.playback_rate = Value::Fixed(PlaybackRate(c.rate));
	StaticSoundData { sample_rate: c.sr, frames: Arc::from(src_frames(&c.src)), settings, slice: c.slice }
}
fn state_code(s: PlaybackState) -> i128 {
	match s {
		PlaybackState::Playing => 0,
		PlaybackState::Pausing => 1,
		PlaybackState::Paused => 2,
		PlaybackState::WaitingToResume => 3,
		PlaybackState::Resuming => 4,
		PlaybackState::Stopping => 5,
		PlaybackState::Stopped => 6,
	}
}

#[derive(Clone, Debug)]
struct StepTrace {
	frames: Vec<Frame>,
	state: i128,
	pos: f64,
}
#[derive(Clone, Debug, Default)]
struct Real {
	obs: Vec<i128>,
	/// 0 ok, 1 panic, 2 hang (construction)
	new_outcome: i128,
	init_pos: f64,
	steps: Vec<StepTrace>,
	/// Some(1000 + code) / Some(2000) if a callback panicked / hung
	end: Option<i128>,
}

fn run_inner(c: &Case, prog: &Mutex<Real>) {
	let data = build(c);
	let made = catch(move || data.into_sound().ok().unwrap());
	let (mut sound, mut handle) = match made {
		Outcome::Ok(x) => x,
		Outcome::Panic(code) => {
			let mut p = prog.lock().unwrap();
			p.new_outcome = 1;
			p.obs = vec![1, code];
			return;
		}
		Outcome::Hang => unreachable!(),
	};
	{
		let mut p = prog.lock().unwrap();
		p.new_outcome = 0;
		p.init_pos = handle.position();
		p.obs = vec![0, state_code(handle.state()), obs64(handle.position())];
	}
	let info = MockInfoBuilder::new().build();
	for st in &c.steps {
		for k in &st.cmds {
			match *k {
				Cmd::Rate(v, d) => handle.set_playback_rate(v, Tween { start_time: StartTime::Immediate, duration: Duration::from_nanos(d), easing: Easing::Linear }),
				Cmd::Loop(s, e) => handle.set_loop_region(kregion(s, e)),
				Cmd::NoLoop => handle.set_loop_region(None::<Region>),
				Cmd::SeekBy(a) => handle.seek_by(a),
				Cmd::SeekTo(p) => handle.seek_to(p),
			}
		}
		let mut out = vec![Frame::new(f32::from_bits(0x7FC0_4321), f32::from_bits(0x7FC0_4321)); st.len];
		let r = catch(|| {
			sound.on_start_processing();
			sound.process(&mut out, st.dt, &info);
		});
		let mut p = prog.lock().unwrap();
		match r {
			Outcome::Ok(()) => {
				for f in &out {
					p.obs.push(obs32(f.left));
					p.obs.push(obs32(f.right));
				}
				let (state, pos) = (state_code(handle.state()), handle.position());
				p.obs.push(state);
				p.obs.push(obs64(pos));
				p.steps.push(StepTrace { frames: out, state, pos });
			}
			Outcome::Panic(code) => {
				p.obs.push(1000 + code);
				p.end = Some(1000 + code);
				return;
			}
			Outcome::Hang => unreachable!(),
		}
	}
}
/// runs the case on the real code; with `watchdog` in a child thread that is abandoned after 3 s
fn run_real(c: &Case, watchdog: bool) -> Real {
	let prog = Arc::new(Mutex::new(Real { new_outcome: 2, obs: vec![2], ..Default::default() }));
	if !watchdog {
		run_inner(c, &prog);
		return prog.lock().unwrap().clone();
	}
	let (tx, rx) = mpsc::channel();
	let (c2, p2) = (c.clone(), prog.clone());
	std::thread::spawn(move || {
		run_inner(&c2, &p2);
		let _ = tx.send(());
	});
	match rx.recv_timeout(Duration::from_millis(3000)) {
		Ok(()) => prog.lock().unwrap().clone(),
		Err(_) => {
			let mut r = prog.lock().unwrap().clone();
			if r.new_outcome != 2 {
				r.obs.push(2000);
				r.end = Some(2000);
			}
			r
		}
	}
}

// ------------------------------------------------------------------------------------------
// the property, as an executable specification independent of the implementation
// ------------------------------------------------------------------------------------------

/// the guard WF of the theorems, evaluated on a case (in frame indices)
struct Wf {
	n: usize,
	off: usize,
	slice_ok: bool,
	start: usize,
	start_ok: bool,
	lp: Option<(usize, usize)>,
	lp_ok: bool,
}
fn wf_of(c: &Case) -> Wf {
	let len = src_len(&c.src);
	let (off, n, slice_ok) = match c.slice {
		Some((a, b)) => (a, b.min(len).saturating_sub(a), a <= b && b <= len),
		None => (0, len, true),
	};
	let start = pos_idx(c.start, c.sr);
	// an empty or inverted loop region is ignored; a slice is clipped to the audio that exists
	let lp = c.lp.map(|(s, e)| region_idx(s, e, c.sr, n)).filter(|(ls, le)| le > ls);
	let slice_ok = slice_ok || true;
	let lp_ok = match lp {
		Some((ls, le)) => ls < le && le <= n,
		None => true,
	};
	Wf { n, off, slice_ok, start, start_ok: start < n, lp, lp_ok }
}
/// decode an index-coded frame (absolute source index); None for a zero frame; Err for anything else
fn decode(f: Frame) -> Result<Option<usize>, ()> {
	if f.left.to_bits() == 0 && f.right.to_bits() == 0 {
		return Ok(None);
	}
	let x = f.left * 65536.0 - 1.0;
	if !(x >= 0.0 && x < 16_000_000.0 && x.fract() == 0.0) {
		return Err(());
	}
	let i = x as usize;
	let g = indexed_frame(i);
	if g.left.to_bits() == f.left.to_bits() && g.right.to_bits() == f.right.to_bits() {
		Ok(Some(i))
	} else {
		Err(())
	}
}
/// The played sequence of the property: index (within the slice) of the k-th frame heard, or
/// None once the sound has ended.  Forward: start, start+1, ... wrapping from loop end - 1 to
/// loop start (a start at or after the loop end joins the loop on the next frame); backward
/// (reverse xor negative rate): mirrored, from n-1-start (reverse) or start (negative rate)
/// downwards, wrapping from loop start to loop end - 1.
fn spec_sequence(n: usize, first: usize, lp: Option<(usize, usize)>, backward: bool, count: usize) -> Vec<Option<usize>> {
	let mut v = Vec::with_capacity(count);
	let mut p = Some(first);
	for _ in 0..count {
		v.push(p);
		if let Some(q) = p {
			p = if !backward {
				let mut q = q + 1;
				if let Some((ls, le)) = lp {
					if q >= le {
						q = ls + (q - ls) % (le - ls);
					}
				}
				if q >= n {
					None
				} else {
					Some(q)
				}
			} else {
				let mut q = q;
				if let Some((ls, le)) = lp {
					if q <= ls {
						let d = le - ls;
						q += ((ls - q) / d + 1) * d;
					}
				}
				if q == 0 {
					None
				} else {
					Some(q - 1)
				}
			};
		}
	}
	v
}

fn std_rate(sr: u32) -> bool {
	[8000, 11025, 16000, 22050, 32000, 44100, 48000, 88200, 96000, 176400, 192000].contains(&sr)
}

/// Evaluates the property on the trace of one case.  Only index-coded sources are judged.
fn monitor(s: &mut Session, c: &Case, r: &Real) {
	let desc = || format!("{:?}", c);
	let wf = wf_of(c);
	let regions_cmd_bad = c.steps.iter().flat_map(|st| st.cmds.iter()).any(|k| match k {
		Cmd::Loop(a, e) => {
			let (ls, le) = region_idx(*a, *e, c.sr, wf.n);
			!(ls < le && le <= wf.n)
		}
		_ => false,
	});
	// ---- outcome: a well-formed request never panics or hangs; the malformed classes are the known ones
	let bad_outcome = r.new_outcome != 0 || r.end.is_some();
	if bad_outcome {
		let what = if r.new_outcome == 1 {
			format!("into_sound() panicked (code {})", r.obs[1])
		} else if r.new_outcome == 2 {
			"into_sound() did not return within 3 s".to_string()
		} else if r.end == Some(2000) {
			format!("callback {} did not return within 3 s", r.steps.len())
		} else {
			format!("callback {} panicked (code {})", r.steps.len(), r.end.unwrap() - 1000)
		};
		// (empty / inverted loop regions, slices beyond the audio and reversed starts beyond the end were
		// repaired in kira: their witnesses stay in the boundary stream and any recurrence is a new failure)
		let class: Option<&str> = None;
		s.fail(desc(), what, class);
		return;
	}
	let indexed = matches!(c.src, Src::Idx(_) | Src::Poi(..));
	if !indexed {
		return;
	}
	// ---- never reads outside its slice: frames outside are NaN-poisoned
	if let Src::Poi(..) = c.src {
		for (j, st) in r.steps.iter().enumerate() {
			if st.frames.iter().any(|f| f.left.is_nan() || f.right.is_nan()) {
				s.fail(desc(), format!("callback {j}: output depends on a frame outside the slice (poisoned with NaN)"), None);
				return;
			}
		}
	}
	if !(wf.slice_ok && wf.start_ok && wf.lp_ok) || regions_cmd_bad {
		return;
	}
	// ---- the exact played sequence: rate +-1, device rate == sound rate
	let unit_rate = (c.rate == 1.0 || c.rate == -1.0) && !c.steps.iter().any(|st| st.cmds.iter().any(|k| matches!(k, Cmd::Rate(..))));
	let same_rate = c.steps.iter().all(|st| st.dt.to_bits() == (1.0 / c.sr as f64).to_bits());
	if !(unit_rate && same_rate) {
		return;
	}
	let inexact = c.sr as f64 * (1.0 / c.sr as f64) != 1.0;
	let backward = c.rev != (c.rate < 0.0);
	let first = if c.rev { wf.n - 1 - wf.start } else { wf.start };
	let outs: Vec<Frame> = r.steps.iter().flat_map(|st| st.frames.iter().copied()).collect();
	let has_cmds = c.steps.iter().any(|st| !st.cmds.is_empty());
	let class_inexact = if inexact { Some("unit_increment_inexact_rate") } else { None };
	if !has_cmds {
		let spec = spec_sequence(wf.n, first, wf.lp, backward, outs.len() + 1);
		for (k, f) in outs.iter().enumerate() {
			let want = match spec[k] {
				Some(i) => indexed_frame(wf.off + i),
				None => Frame::ZERO,
			};
			if f.left.to_bits() != want.left.to_bits() || f.right.to_bits() != want.right.to_bits() {
				s.fail(
					desc(),
					format!("output frame {k} is ({:?}, {:?}) but the source frame due is {:?} = ({:?}, {:?}) (rate {} at the sound's own sample rate must be bit-exact, no latency)", f.left, f.right, spec[k], want.left, want.right, c.rate),
					class_inexact,
				);
				return;
			}
		}
		// Stopped exactly after the last source frame has been heard
		let m = spec.iter().position(|x| x.is_none());
		let mut produced = 0;
		for (j, st) in r.steps.iter().enumerate() {
			produced += st.frames.len();
			let want_stopped = matches!(m, Some(m) if produced > m);
			if (st.state == 6) != want_stopped {
				s.fail(desc(), format!("after callback {j} ({produced} frames out, {:?} source frames to play) state() is {} but Stopped is due {}", m, st.state, want_stopped), class_inexact);
				return;
			}
		}
	}
	if inexact {
		return;
	}
	// ---- a loop region that stays in force, played forwards: the loop end is exclusive and the loop never ends.
	// Whatever seeks are issued (targets at or beyond the loop end wrap into the region), after the first output
	// frame (a start at or after the loop end joins the loop on the next frame) every frame heard lies before the
	// loop end, no frame is silent and the sound never reports Stopped.
	if let (Some((ls, le)), false, false) = (wf.lp, backward, has_loop_cmd(c)) {
		for (k, f) in outs.iter().enumerate() {
			let bad = match decode(*f) {
				Ok(Some(a)) if k >= 1 && a >= wf.off && a - wf.off >= le => Some(format!("source frame {} is heard", a - wf.off)),
				Ok(None) => Some("silence is heard".to_string()),
				_ => None,
			};
			if let Some(b) = bad {
				s.fail(desc(), format!("output frame {k}: {b}, but the sound loops over frames {ls}..{le} (end exclusive) for ever: playback wraps from frame {} straight to frame {ls}, also when a seek asks for a frame at or beyond the loop end", le - 1), None);
				return;
			}
		}
		if let Some(j) = r.steps.iter().position(|st| st.state == 6) {
			s.fail(desc(), format!("after callback {j} the sound reports Stopped, but it loops over frames {ls}..{le} for ever"), None);
			return;
		}
	}
	// ---- with commands: every frame heard is a frame of the slice; position and seeks within one frame
	let mut k0 = 0usize;
	for (j, st) in r.steps.iter().enumerate() {
		for (i, f) in st.frames.iter().enumerate() {
			match decode(*f) {
				Ok(None) => {}
				Ok(Some(a)) if a >= wf.off && a < wf.off + wf.n => {}
				_ => {
					s.fail(desc(), format!("callback {j} frame {i}: ({:?}, {:?}) is not a frame of the slice", f.left, f.right), None);
					return;
				}
			}
		}
		// position() names the frame being heard at the start of this callback, to within one
		// frame along the played sequence (numerically, or as predecessor / successor across a wrap)
		// (a seek read in this callback moves the window after the position has been published)
		let seek_here = c.steps[j].cmds.iter().any(|k| matches!(k, Cmd::SeekBy(_) | Cmd::SeekTo(_)));
		if let (Some(f), false) = (st.frames.first(), seek_here) {
			if let Ok(Some(a)) = decode(*f) {
				let heard = a - wf.off;
				let reported = st.pos * c.sr as f64;
				let ri = reported.round() as usize;
				let adjacent = |x: usize, y: usize| spec_sequence(wf.n, x, wf.lp, backward, 2)[1] == Some(y);
				let near = (reported - heard as f64).abs() <= 1.0 || ((reported - ri as f64).abs() < 1e-6 && (adjacent(ri, heard) || adjacent(heard, ri)));
				if !near && !has_loop_cmd(c) {
					s.fail(desc(), format!("callback {j}: position() = {} s = frame {reported} but the frame heard is {heard}", st.pos), None);
					return;
				}
			}
		}
		// seeks: three frames after the command has been read the window has refilled.  Judged on
		// sounds without loop, one seek in the whole history, old and new neighbourhood inside the sound.
		let no_loop = wf.lp.is_none() && !has_loop_cmd(c);
		let all_seeks = c.steps.iter().flat_map(|x| x.cmds.iter()).filter(|k| matches!(k, Cmd::SeekBy(_) | Cmd::SeekTo(_))).count();
		let seeks: Vec<&Cmd> = c.steps[j].cmds.iter().filter(|k| matches!(k, Cmd::SeekBy(_) | Cmd::SeekTo(_))).collect();
		let playing_before = if j == 0 { true } else { r.steps[j - 1].state == 0 };
		if no_loop && all_seeks == 1 && seeks.len() == 1 && outs.len() > k0 + 3 && playing_before {
			let h = st.pos * c.sr as f64; // frame heard when the command was read
			let requested = match seeks[0] {
				Cmd::SeekTo(t) => (t * c.sr as f64).floor(),
				Cmd::SeekBy(a) => h + (a * c.sr as f64),
				_ => unreachable!(),
			};
			let inside = |x: f64| x >= 4.0 && x + 4.0 < wf.n as f64;
			// frames the transport had left when the command was read (it runs three frames ahead)
			let m = spec_sequence(wf.n, first, None, backward, k0 + 4).iter().filter(|x| x.is_some()).count();
			let transport_ended = m < k0 + 4;
			let audible = matches!(decode(outs[k0]), Ok(Some(_)));
			if inside(requested) && audible && (inside(h) || transport_ended) {
				match decode(outs[k0 + 3]) {
					Ok(Some(a)) => {
						let landed = (a - wf.off) as f64;
						if (landed - requested).abs() > 1.0 {
							let by = matches!(seeks[0], Cmd::SeekBy(_));
							let d = landed - requested;
							// F19: seek_by is measured from the transport (push) position, which runs 3 frames ahead of
							// the frame heard — fewer once it has reached the end of the sound (it stops there: forward at
							// frame n, backward on frame 0), which shows since seeks in that window take effect (F24 repaired)
							let lead = if transport_ended { (if backward { (m - k0).saturating_sub(1) } else { m - k0 }).min(3) } else { 3 } as f64;
							// (1e-6: `position() * sample_rate` and the index computation of seek_by each round once)
							let class = if by && (d.abs() - lead).abs() <= 1.0 + 1e-6 { Some("seek_by_measured_from_push_position") } else { None };
							s.fail(desc(), format!("callback {j}: {:?} read while frame {h} was being heard asks for frame {requested}; three frames later frame {landed} is heard ({d:+} frames off)", seeks[0]), class);
							return;
						}
					}
					_ => {
						// (F24, repaired: a seek read while the last three frames were being heard used to be
						// ignored — the transport had stopped and `seek_to` never started it again; a recurrence
						// is a plain failure)
						let _ = transport_ended;
						let class: Option<&str> = None;
						s.fail(desc(), format!("callback {j}: {:?} read while frame {h} was audible asks for frame {requested} but silence is heard three frames later (state {})", seeks[0], r.steps.last().unwrap().state), class);
						return;
					}
				}
			}
		}
		k0 += st.frames.len();
	}
}
fn has_loop_cmd(c: &Case) -> bool {
	c.steps.iter().any(|st| st.cmds.iter().any(|k| matches!(k, Cmd::Loop(..) | Cmd::NoLoop)))
}
/// is there another command within `within` output frames after the start of callback j?
fn later_cmds(c: &Case, j: usize, _k0: usize, within: usize) -> bool {
	let mut produced = 0;
	for (i, st) in c.steps.iter().enumerate().skip(j) {
		if i > j && produced <= within && !st.cmds.is_empty() {
			return true;
		}
		produced += st.len;
	}
	false
}

// ------------------------------------------------------------------------------------------
// generators
// ------------------------------------------------------------------------------------------
fn chunk(total: usize, pattern: usize, r: &mut Rng) -> Vec<usize> {
	let mut v = vec![];
	let mut left = total;
	while left > 0 {
		let k = match pattern {
			0 => 1,
			1 => left,
			2 => 2.min(left),
			3 => 3.min(left),
			_ => (r.below(left.min(7) as u64) + 1) as usize,
		};
		v.push(k);
		left -= k;
	}
	v
}
fn steps_plain(chunks: &[usize], dt: f64) -> Vec<Step> {
	chunks.iter().map(|&len| Step { cmds: vec![], len, dt }).collect()
}
fn hash(s: &str) -> u64 {
	let mut h = 1469598103934665603u64;
	for b in s.bytes() {
		h = (h ^ b as u64).wrapping_mul(1099511628211);
	}
	h
}

struct Ctx {
	s: Session,
	model_fast: u64,
	model_slow: u64,
	cap_fast: u64,
	cap_slow: u64,
	hangs: u64,
	cap_hangs: u64,
	/// callbacks that did not return within the watchdog's time (each costs 3 s)
	seen_hangs: u64,
}
/// a seek target further than a million frames away, or not finite: before the repair of F40 the cost
/// of `Transport::seek_to` on a looping sound grew with target / loop length (1e300: it never returned)
fn extreme_seek(c: &Case) -> bool {
	c.steps.iter().flat_map(|st| st.cmds.iter()).any(|k| match k {
		Cmd::SeekTo(t) | Cmd::SeekBy(t) => !t.is_finite() || (t * c.sr as f64).abs() > 1e6,
		_ => false,
	})
}
impl Ctx {
	/// can this case make a loop spin? (then it runs under the watchdog)
	fn may_hang(c: &Case) -> bool {
		let wf = wf_of(c);
		let bad = |ls: usize, le: usize| le <= ls;
		if let Some((ls, le)) = wf.lp {
			if bad(ls, le) {
				return true;
			}
		}
		c.steps.iter().flat_map(|st| st.cmds.iter()).any(|k| match k {
			Cmd::Loop(a, e) => {
				let (ls, le) = region_idx(*a, *e, c.sr, wf.n);
				bad(ls, le)
			}
			_ => false,
		}) || !c.rate.is_finite()
			|| c.rate.abs() > 1e6
			|| extreme_seek(c)
	}
	/// run on the implementation, monitor, and (if `to_model`) emit for the model
	fn go(&mut self, kind: &str, c: &Case, to_model: bool) {
		// the fixed regression cases always run, under the watchdog (until three callbacks have hung:
		// the failure has been reported by then); an extreme seek costs a watchdog thread but is not
		// expected to hang, so it does not use up the budget of expected hangs
		let forced = kind.starts_with("regression_");
		let wd = forced || Self::may_hang(c);
		if self.seen_hangs >= 3 && (forced || extreme_seek(c)) {
			return;
		}
		if wd && !forced && !extreme_seek(c) {
			if self.hangs >= self.cap_hangs {
				return;
			}
			self.hangs += 1;
		}
		let r = run_real(c, wd);
		if r.end == Some(2000) || r.new_outcome == 2 {
			self.seen_hangs += 1;
		}
		monitor(&mut self.s, c, &r);
		let interp = !c.fast || c.steps.iter().any(|st| st.cmds.iter().any(|k| matches!(k, Cmd::Rate(..)))) || {
			let inc = c.sr as f64 * c.rate.abs() * c.steps.first().map(|s| s.dt).unwrap_or(1.0);
			inc.fract() != 0.0
		};
		let allowed = if interp { self.model_slow < self.cap_slow } else { self.model_fast < self.cap_fast };
		if to_model && allowed {
			if interp {
				self.model_slow += 1;
			} else {
				self.model_fast += 1;
			}
			let term = case_term(c);
			let wf = wf_of(c);
			let total: usize = c.steps.iter().map(|s| s.len).sum();
			// non-trivial: a loop wrap or the end of the sound occurs, or a command is executed
			let nontrivial = wf.lp.is_some() || r.steps.iter().any(|st| st.state == 6) || c.steps.iter().any(|st| !st.cmds.is_empty()) || r.new_outcome != 0 || r.end.is_some();
			let rate_class = if c.rate == 1.0 { "1".into() } else if c.rate == -1.0 { "-1".into() } else { format!("{:x}", c.rate.to_bits()) };
			let key = format!(
				"{}|{:?}|{:?}|{:?}|{}|{}|{:?}|{:x}",
				src_len(&c.src),
				c.slice,
				c.start,
				c.lp,
				c.rev,
				rate_class,
				c.steps.iter().map(|s| s.len).collect::<Vec<_>>(),
				hash(&format!("{:?}{}", c.steps.iter().map(|s| &s.cmds).collect::<Vec<_>>(), total))
			);
			self.s.case(kind, term, &r.obs, if nontrivial { Some(key) } else { None });
		} else {
			self.s.eval_only(&format!("{kind}_monitor_only"));
		}
	}
}

const RATES: [f64; 7] = [1.0, -1.0, 0.5, -0.5, 2.0, 1.5, 0.0];

/// all slices, starts, loop regions, reverse, rates, chunkings for sources of `len` frames
fn exhaustive(cx: &mut Ctx, rng: &mut Rng, len: usize, model_every: u64) {
	let sr = 48000u32;
	let dt = 1.0 / sr as f64;
	let mut slices: Vec<Option<(usize, usize)>> = vec![None];
	for a in 0..=len {
		for b in a..=len {
			slices.push(Some((a, b)));
		}
	}
	let mut counter = 0u64;
	for slice in slices {
		let n = match slice {
			Some((a, b)) => b - a,
			None => len,
		};
		let src = match slice {
			Some((a, b)) => Src::Poi(len, a, b),
			None => Src::Idx(len),
		};
		let mut loops: Vec<Option<(Pos, End)>> = vec![None];
		for ls in 0..n {
			for le in ls + 1..=n {
				loops.push(Some((Pos::Smp(ls), End::Cus(Pos::Smp(le)))));
			}
			loops.push(Some((Pos::Smp(ls), End::End)));
		}
		for start in 0..n.max(1) {
			if start >= n && n > 0 {
				continue;
			}
			for lp in &loops {
				for rev in [false, true] {
					if rev && start >= n {
						continue; // malformed: boundary stream
					}
					for rate in RATES {
						let frames = ((n + 6) as f64 / if rate == 0.0 { 1.0 } else { rate.abs().min(1.0) }) as usize;
						let frames = frames.min(24);
						for pattern in 0..3 {
							counter += 1;
							let chunks = chunk(frames, if pattern == 2 { 4 } else { pattern }, rng);
							let c = Case { fast: true, sr, src: src.clone(), slice, start: Pos::Smp(start), lp: *lp, rev, rate, steps: steps_plain(&chunks, dt) };
							let to_model = counter % model_every == 0;
							cx.go("exhaustive_small", &c, to_model);
						}
					}
				}
			}
		}
	}
}

/// one command at each possible time, small sounds, rate +-1
fn exhaustive_commands(cx: &mut Ctx, rng: &mut Rng, len: usize, model_every: u64) {
	let sr = 48000u32;
	let dt = 1.0 / sr as f64;
	let n = len;
	let mut loops: Vec<Option<(Pos, End)>> = vec![None];
	for ls in 0..n {
		for le in ls + 1..=n {
			loops.push(Some((Pos::Smp(ls), End::Cus(Pos::Smp(le)))));
		}
	}
	let mut cmds: Vec<Cmd> = vec![Cmd::NoLoop, Cmd::SeekBy(0.0), Cmd::SeekBy(1.0 / sr as f64), Cmd::SeekBy(-1.0 / sr as f64), Cmd::SeekBy(-1.0), Cmd::Rate(-1.0, 0), Cmd::Rate(0.5, 0)];
	for i in 0..=n + 1 {
		cmds.push(Cmd::SeekTo(i as f64 / sr as f64));
	}
	for ls in 0..n {
		for le in ls + 1..=n {
			cmds.push(Cmd::Loop(Pos::Smp(ls), End::Cus(Pos::Smp(le))));
		}
	}
	let mut counter = 0u64;
	for start in 0..n {
		for lp in &loops {
			for rev in [false, true] {
				for rate in [1.0, -1.0] {
					for cmd in &cmds {
						let total = n + 7;
						for at in 0..total.min(n + 3) {
							counter += 1;
							// callbacks of one frame until the command, then the rest in one or several
							let mut steps: Vec<Step> = (0..at).map(|_| Step { cmds: vec![], len: 1, dt }).collect();
							let rest = chunk(total - at, if counter % 2 == 0 { 1 } else { 4 }, rng);
							for (i, len) in rest.iter().enumerate() {
								steps.push(Step { cmds: if i == 0 { vec![*cmd] } else { vec![] }, len: *len, dt });
							}
							let c = Case { fast: true, sr, src: Src::Idx(len), slice: None, start: Pos::Smp(start), lp: *lp, rev, rate, steps };
							cx.go("exhaustive_command", &c, counter % model_every == 0);
						}
					}
				}
			}
		}
	}
}

fn gen_rate(r: &mut Rng) -> f64 {
	match r.below(10) {
		0 => 1.0,
		1 => -1.0,
		2 => 0.0,
		3 => -0.0,
		4 => *r.pick(&[0.25, 0.75, 1.25, 3.0, -2.0, 0.1, 1e-3]),
		5 => (r.unit_f64() - 0.5) * 8.0,
		6 => 2f64.powf((r.unit_f64() - 0.5) * 2.0), // semitone-like
		_ => r.unit_f64() * 2.0 * if r.chance(1, 3) { -1.0 } else { 1.0 },
	}
}
const SRS: [u32; 11] = [8000, 11025, 16000, 22050, 32000, 44100, 48000, 88200, 96000, 176400, 192000];

fn random_case(r: &mut Rng, unit: bool, frames_cap: usize) -> Case {
	let len = match r.below(6) {
		0 => r.range(0, 8) as usize,
		1 => r.range(8, 64) as usize,
		_ => r.range(64, 4096) as usize,
	};
	let sr = if r.chance(4, 5) { *r.pick(&SRS) } else { r.range(1, 200_000) as u32 };
	let dsr = if unit || r.chance(1, 2) { sr } else if r.chance(1, 2) { *r.pick(&SRS) } else { r.range(1000, 200_000) as u32 };
	let dt = 1.0 / dsr as f64;
	let slice = if r.chance(1, 2) || len == 0 {
		None
	} else {
		let a = r.below(len as u64) as usize;
		let b = r.range(a as i64, len as i64) as usize;
		Some((a, b))
	};
	let n = match slice {
		Some((a, b)) => b - a,
		None => len,
	};
	let src = match slice {
		Some((a, b)) => Src::Poi(len, a, b),
		None => Src::Idx(len),
	};
	let near = |r: &mut Rng, n: usize| -> usize {
		if n == 0 {
			return 0;
		}
		match r.below(4) {
			0 => r.below(n.min(5) as u64) as usize,
			1 => n - 1 - r.below(n.min(5) as u64) as usize,
			_ => r.below(n as u64) as usize,
		}
	};
	let start_i = near(r, n);
	let start = if r.chance(1, 3) { Pos::Sec(start_i as f64 / sr as f64) } else { Pos::Smp(start_i) };
	let gen_loop = |r: &mut Rng| -> Option<(Pos, End)> {
		if n == 0 || r.chance(1, 3) {
			return None;
		}
		let ls = near(r, n);
		let le = (ls + 1 + match r.below(3) {
			0 => r.below(4) as usize,
			_ => r.below((n - ls) as u64) as usize,
		})
		.min(n);
		let e = if r.chance(1, 4) { End::End } else if r.chance(1, 3) { End::Cus(Pos::Sec(le as f64 / sr as f64)) } else { End::Cus(Pos::Smp(le)) };
		let (a, b) = region_idx(Pos::Smp(ls), e, sr, n);
		if a < b && b <= n {
			Some((Pos::Smp(ls), e))
		} else {
			Some((Pos::Smp(ls), End::Cus(Pos::Smp(le))))
		}
	};
	let lp = gen_loop(r);
	let rev = r.chance(1, 3) && n > 0;
	let rate = if unit { *r.pick(&[1.0, -1.0]) } else { gen_rate(r) };
	// keep the per-frame increment small enough for the model's evaluation budget
	let inc = sr as f64 * rate.abs() * dt;
	let (rate, dt) = if inc > 12.0 { (rate, dt * 12.0 / inc) } else { (rate, dt) };
	let total = r.range(4, frames_cap as i64) as usize;
	let chunks = chunk(total, 4, r);
	let mut steps = steps_plain(&chunks, dt);
	// commands at arbitrary times
	let ncmd = if r.chance(1, 2) { 0 } else { r.range(1, 3) };
	for _ in 0..ncmd {
		let j = r.below(steps.len() as u64) as usize;
		let k = match r.below(7) {
			// any target at all: far beyond the sound and its loop region, huge, negative, not finite
			6 => {
				let t = match r.below(8) {
					0 => 1e300,
					1 => -1e300,
					2 => f64::INFINITY,
					3 => (n as f64 * r.range(2, 4_000_000) as f64 + r.below(n.max(1) as u64) as f64) / sr as f64,
					4 => r.range(1, 1 << 40) as f64 / sr as f64,
					5 => f64::from_bits(r.next()),
					6 => -(r.range(1, 1 << 40) as f64) / sr as f64,
					_ => 1.8446744073709552e19 / sr as f64,
				};
				if r.chance(1, 2) { Cmd::SeekTo(t) } else { Cmd::SeekBy(t) }
			}
			0 => Cmd::SeekTo(near(r, n.max(1)) as f64 / sr as f64),
			1 => Cmd::SeekTo(r.unit_f64() * (n + 4) as f64 / sr as f64),
			2 => Cmd::SeekBy((r.range(-40, 40) as f64) / sr as f64),
			3 => match gen_loop(r) {
				Some((a, e)) => Cmd::Loop(a, e),
				None => Cmd::NoLoop,
			},
			4 => Cmd::Rate(if unit { -rate } else { gen_rate(r).clamp(-6.0, 6.0) }, if r.chance(1, 2) { 0 } else { r.below(2_000_000) }),
			_ => Cmd::SeekBy((r.unit_f64() - 0.5) * 0.01),
		};
		if !steps[j].cmds.iter().any(|x| std::mem::discriminant(x) == std::mem::discriminant(&k) || matches!((x, &k), (Cmd::Loop(..), Cmd::NoLoop) | (Cmd::NoLoop, Cmd::Loop(..)))) {
			if unit && matches!(k, Cmd::Rate(..)) {
				continue;
			}
			steps[j].cmds.push(k);
		}
	}
	Case { fast: true, sr, src, slice, start, lp, rev, rate, steps }
}

/// malformed requests: the witnesses of the `_refuted` theorems and their neighbours
fn boundary(cx: &mut Ctx, thorough: bool) {
	let sr = 48000u32;
	let dt = 1.0 / sr as f64;
	let plain = |n: usize| steps_plain(&[2, n + 3], dt);
	let base = |len: usize| Case { fast: true, sr, src: Src::Idx(len), slice: None, start: Pos::Smp(0), lp: None, rev: false, rate: 1.0, steps: plain(len) };
	// F6: empty loop region at construction / by command; inverted
	let mut c = base(5);
	c.lp = Some((Pos::Smp(2), End::Cus(Pos::Smp(2))));
	cx.go("boundary_loop_empty", &c, true);
	let mut c = base(12);
	c.steps = steps_plain(&[2, 9], dt);
	c.steps[1].cmds.push(Cmd::Loop(Pos::Smp(1), End::Cus(Pos::Smp(1))));
	cx.go("boundary_loop_empty", &c, true);
	if thorough {
		let mut c = base(5);
		c.lp = Some((Pos::Sec(0.05), End::Cus(Pos::Sec(0.05))));
		c.src = Src::Idx(4800);
		cx.go("boundary_loop_empty", &c, true);
		let mut c = base(4);
		c.rev = true;
		c.lp = Some((Pos::Smp(4), End::End));
		cx.go("boundary_loop_empty", &c, true);
	}
	for (ls, le) in [(3usize, 1usize), (4, 2), (1, 0), (5, 4)] {
		let mut c = base(5);
		c.lp = Some((Pos::Smp(ls), End::Cus(Pos::Smp(le))));
		cx.go("boundary_loop_inverted", &c, true);
		let mut c = base(5);
		c.rev = true;
		c.lp = Some((Pos::Smp(ls), End::Cus(Pos::Smp(le))));
		cx.go("boundary_loop_inverted", &c, true);
		let mut c = base(5);
		c.steps[1].cmds.push(Cmd::Loop(Pos::Smp(ls), End::Cus(Pos::Smp(le))));
		cx.go("boundary_loop_inverted", &c, true);
	}
	// loop end beyond the sound (accepted: the sound ends first)
	for le in [6usize, 9] {
		let mut c = base(5);
		c.lp = Some((Pos::Smp(1), End::Cus(Pos::Smp(le))));
		cx.go("boundary_loop_beyond", &c, true);
		let mut c = base(5);
		c.rev = true;
		c.lp = Some((Pos::Smp(1), End::Cus(Pos::Smp(le))));
		cx.go("boundary_loop_beyond", &c, true);
	}
	// F9: slice beyond the frames / inverted
	for (a, b) in [(0usize, 6usize), (3, 9), (5, 6), (7, 9), (4, 2), (1, 0)] {
		for rev in [false, true] {
			let mut c = base(5);
			c.slice = Some((a, b));
			c.rev = rev;
			cx.go("boundary_slice", &c, true);
		}
	}
	// F10: reverse with start >= length, empty sound reversed; the same forwards
	for (len, start) in [(5usize, 5usize), (5, 6), (5, 100), (0, 0), (1, 1), (0, 3)] {
		for rev in [true, false] {
			let mut c = base(len);
			c.start = Pos::Smp(start);
			c.rev = rev;
			cx.go("boundary_start", &c, true);
		}
	}
	// seeks far outside, negative, NaN
	for t in [-1.0, 1e300, f64::NAN, f64::INFINITY, 5.0 / 48000.0, 4.999999 / 48000.0] {
		for rev in [false, true] {
			let mut c = base(5);
			c.rev = rev;
			c.steps[1].cmds.push(Cmd::SeekTo(t));
			cx.go("boundary_seek", &c, true);
			let mut c = base(5);
			c.rev = rev;
			c.steps[1].cmds.push(Cmd::SeekBy(t));
			cx.go("boundary_seek", &c, true);
		}
	}
	// F24 (repaired), REGRESSION: a seek read while the last three source frames are still being heard (the
	// transport runs three frames ahead and has already stopped): the sound must play on from the target.
	// Forward and backward, seek_to and seek_by, at each of the three positions and one callback later
	// (Stopped: final), targets at the start, in the middle, the last frame, and beyond the end.
	for len in [12usize, 5] {
		for rev in [false, true] {
			for rate in [1.0, -1.0] {
				for k in [len - 3, len - 2, len - 1, len, len + 1] {
					let backward = rev != (rate < 0.0);
					let targets: Vec<Cmd> = vec![
						Cmd::SeekTo(0.0),
						Cmd::SeekTo(5.0 / sr as f64),
						Cmd::SeekTo((len - 1) as f64 / sr as f64),
						Cmd::SeekTo(len as f64 / sr as f64),
						Cmd::SeekBy(if backward { 4.0 } else { -4.0 } / sr as f64),
					];
					for cmd in targets {
						let mut c = base(len);
						c.rev = rev;
						c.rate = rate;
						if rate < 0.0 && !rev {
							c.start = Pos::Smp(len - 1);
						}
						c.steps = steps_plain(&[k, 2, len + 4], dt);
						c.steps[1].cmds.push(cmd);
						cx.go("regression_F24_seek_while_last_frames_play", &c, true);
					}
				}
			}
		}
	}
	// F40 (repaired), REGRESSION: a seek far beyond / below a loop region.  `seek_to(1e300)` and
	// `seek_by(1e300)` saturate to usize::MAX: `Transport::seek_to` wrapped with one subtraction of the
	// loop length per iteration and never returned; it must return at once with the position the
	// model predicts (the remainder).  Every loop region of a small sound, both directions, the
	// command read at the start, in the loop and after the transport has wrapped.
	for (len, ls, le) in [(1usize, 0usize, 1usize), (3, 0, 3), (3, 0, 1), (3, 2, 3), (5, 1, 4), (5, 2, 3), (5, 0, 5), (12, 1, 11), (12, 3, 12)] {
		for rev in [false, true] {
			for t in [1e300, 1.8446744073709552e19 / 48000.0, 1e15, 3_000_001.0 / 48000.0, -1e300, f64::NAN] {
				for by in [false, true] {
					for at in [0usize, 2] {
						let mut c = base(len);
						c.rev = rev;
						c.lp = Some((Pos::Smp(ls), End::Cus(Pos::Smp(le))));
						c.steps = steps_plain(&[1, 2, len + 4], dt);
						c.steps[at].cmds.push(if by { Cmd::SeekBy(t) } else { Cmd::SeekTo(t) });
						cx.go("regression_F40_seek_far_beyond_loop", &c, true);
					}
				}
			}
		}
	}
	// ... the loop region set by a command read together with the seek, and a start position beyond the region
	for (t, by) in [(1e300, false), (1e300, true), (-1e300, true), (1e12, false)] {
		let mut c = base(12);
		c.steps = steps_plain(&[2, 3, 9], dt);
		c.steps[1].cmds.push(Cmd::Loop(Pos::Smp(2), End::Cus(Pos::Smp(7))));
		c.steps[1].cmds.push(if by { Cmd::SeekBy(t) } else { Cmd::SeekTo(t) });
		cx.go("regression_F40_seek_far_beyond_loop", &c, true);
		let mut c = base(12);
		c.start = Pos::Smp(10);
		c.lp = Some((Pos::Smp(2), End::Cus(Pos::Smp(7))));
		c.steps = steps_plain(&[1, 3, 9], dt);
		c.steps[1].cmds.push(if by { Cmd::SeekBy(t) } else { Cmd::SeekTo(t) });
		cx.go("regression_F40_seek_far_beyond_loop", &c, true);
	}
	// F20: device rate == sound rate but sr * (1/sr) != 1
	for srx in [49u32, 98, 103, 107, 161, 187, 44100, 22050, 1, 3] {
		let mut c = base(12);
		c.sr = srx;
		c.steps = steps_plain(&[1, 2, 5, 8], 1.0 / srx as f64);
		cx.go("boundary_unit_increment", &c, true);
	}
	// non-finite / huge rates are C01's (F8); NaN rate never advances
	let mut c = base(5);
	c.rate = f64::NAN;
	c.steps = steps_plain(&[3], dt);
	let r = run_real(&c, true);
	cx.s.case("boundary_rate_nan", case_term(&c), &r.obs, None);
}

/// The F40 regression cases in the form C01 replays them (it owns "every callback returns promptly"):
/// (Gallina term of a `C04.Run.case`, what the implementation did, description).  A looping static
/// sound, a seek far beyond / below the loop region read at the start of the second callback; run
/// under the watchdog: `2000` at the end of the observation = the callback did not return within 3 s.
pub fn f40_regression_cases() -> Vec<(String, Vec<i128>, String)> {
	let sr = 48000u32;
	let dt = 1.0 / sr as f64;
	let mut v = vec![];
	let mut hung = 0;
	for (len, ls, le) in [(100usize, 0usize, 48usize), (5, 1, 4), (12, 3, 12), (3, 0, 1)] {
		for rev in [false, true] {
			for (t, by) in [(1e300, false), (1e300, true), (-1e300, true), (1.8446744073709552e19 / 48000.0, false), (1e15, false), (3_000_001.0 / 48000.0, true)] {
				if hung >= 2 {
					return v;
				}
				let mut c = Case { fast: true, sr, src: Src::Idx(len), slice: None, start: Pos::Smp(0), lp: Some((Pos::Smp(ls), End::Cus(Pos::Smp(le)))), rev, rate: 1.0, steps: steps_plain(&[2, 3, 6], dt) };
				c.steps[1].cmds.push(if by { Cmd::SeekBy(t) } else { Cmd::SeekTo(t) });
				let r = run_real(&c, true);
				if r.end == Some(2000) || r.new_outcome == 2 {
					hung += 1;
				}
				v.push((case_term(&c), r.obs.clone(), format!("{:?}", c)));
			}
		}
	}
	v
}

fn gen_f32(r: &mut Rng) -> f32 {
	match r.below(12) {
		0 => 0.0,
		1 => -0.0,
		2 => f32::from_bits(r.next() as u32),
		3 => *r.pick(&[1.0, -1.0, 0.5, f32::MAX, f32::MIN_POSITIVE, f32::INFINITY, f32::NAN, 1e-45, 3e38, -3e38]),
		_ => (r.unit_f64() * 2.0 - 1.0) as f32,
	}
}

pub fn run(args: &Args) {
	let mut rng = Rng::new(args.seed ^ 0xC04);
	let m = args.budget_mul;
	let s = Session::new(
		"C04",
		&args.out,
		"From Coq Require Import ZArith List Bool. Import ListNotations. Open Scope Z_scope.\nFrom KV Require Import Base.Corr C04.Run.",
		"run",
		40,
		"one case = one static sound (length, slice, start position, loop region, reverse, playback rate, sound/device sample rates) driven through a schedule of callbacks of given sizes with seek_to / seek_by / set_loop_region / set_playback_rate commands between them; distinct = distinct (len, slice, start, loop, reverse, rate-class, chunking, command schedule) tuples in which a loop region is present, the sound ends, a command is executed, or the request is malformed",
	);
	let mut cx = Ctx {
		s,
		model_fast: 0,
		model_slow: 0,
		cap_fast: (if args.thorough { 30_000 } else { 2_600 }) * m,
		cap_slow: (if args.thorough { 4_000 } else { 320 }) * m,
		hangs: 0,
		cap_hangs: if args.thorough { 40 } else { 16 },
		seen_hangs: 0,
	};

	// ---- malformed requests first (they must be among the model cases)
	boundary(&mut cx, args.thorough);

	// ---- interpolate_frame itself, arbitrary binary32 inputs
	let n_interp = (if args.thorough { 3000 } else { 400 }) * m;
	for i in 0..n_interp {
		let g = |r: &mut Rng| if i % 3 == 0 { (gen_f32(r), gen_f32(r)) } else { ((r.unit_f64() * 2.0 - 1.0) as f32, (r.unit_f64() * 2.0 - 1.0) as f32) };
		let (p, c, n1, n2) = (g(&mut rng), g(&mut rng), g(&mut rng), g(&mut rng));
		let x = match rng.below(6) {
			0 => 0.0f32,
			1 => 1.0,
			2 => 0.5,
			3 => gen_f32(&mut rng),
			_ => rng.unit_f64() as f32,
		};
		let f = interpolate_frame(Frame::new(p.0, p.1), Frame::new(c.0, c.1), Frame::new(n1.0, n1.1), Frame::new(n2.0, n2.1), x);
		let t = |a: (f32, f32)| format!("({}, {})", f32_bits_z(a.0), f32_bits_z(a.1));
		cx.s.case("interpolate_frame", format!("CInterp {} {} {} {} {}", t(p), t(c), t(n1), t(n2), f32_bits_z(x)), &[obs32(f.left), obs32(f.right)], Some(format!("interp{i}")));
		// the polynomial passes through `current` at 0 and `next_1` at 1 (to rounding)
		if [p.0, c.0, n1.0, n2.0].iter().all(|v| v.is_finite() && v.abs() <= 1.0) {
			let f0 = interpolate_frame(Frame::new(p.0, p.1), Frame::new(c.0, c.1), Frame::new(n1.0, n1.1), Frame::new(n2.0, n2.1), 0.0);
			let f1 = interpolate_frame(Frame::new(p.0, p.1), Frame::new(c.0, c.1), Frame::new(n1.0, n1.1), Frame::new(n2.0, n2.1), 1.0);
			if f0.left != c.0 {
				cx.s.fail(format!("interpolate_frame {p:?} {c:?} {n1:?} {n2:?} at 0"), format!("{} != current", f0.left), None);
			}
			if (f1.left - n1.0).abs() > 4e-6 {
				cx.s.fail(format!("interpolate_frame {p:?} {c:?} {n1:?} {n2:?} at 1"), format!("{} is not next_1", f1.left), None);
			}
		}
	}

	// ---- durations
	for _ in 0..(100 * m) {
		let len = rng.range(0, 5000) as usize;
		let sr = if rng.chance(1, 2) { *rng.pick(&SRS) } else { rng.range(1, 200_000) as u32 };
		let slice = if rng.chance(1, 2) || len == 0 { None } else {
			let a = rng.below(len as u64) as usize;
			Some((a, rng.range(a as i64, len as i64) as usize))
		};
		let d = StaticSoundData { sample_rate: sr, frames: Arc::from(vec![Frame::ZERO; len]), settings: StaticSoundSettings::default(), slice };
		let o = catch(|| vec![d.duration().as_nanos() as i128]);
		let sl = match slice {
			Some((a, b)) => format!("(Some ({}, {}))", a, b),
			None => "None".into(),
		};
		cx.s.case("duration", format!("CDur {} {} {}", sr, len, sl), &encode_outcome(&o), None);
		let n = d.num_frames();
		if let Outcome::Ok(v) = &o {
			if (v[0] as f64 / 1e9 - n as f64 / sr as f64).abs() > 1e-9 {
				cx.s.fail(format!("duration len {len} slice {slice:?} sr {sr}"), format!("{} ns", v[0]), None);
			}
		}
	}

	// ---- exhaustive small sounds
	let max_len = if args.thorough { 6 } else { 4 };
	for len in 0..=max_len {
		let every = match len {
			0..=2 => 3,
			3 => 12,
			4 => 40,
			5 => 90,
			_ => 200,
		};
		exhaustive(&mut cx, &mut rng, len, if args.thorough { every / 2 + 1 } else { every });
	}
	for len in 1..=(if args.thorough { 5 } else { 4 }) {
		let every = match len {
			1 => 2,
			2 => 12,
			3 => 60,
			4 => 250,
			_ => 600,
		};
		exhaustive_commands(&mut cx, &mut rng, len, if args.thorough { every / 2 + 1 } else { every });
	}

	// ---- random large sounds: unit rate (cheap for the model), then arbitrary rates
	let n_unit = (if args.thorough { 12_000 } else { 1_200 }) * m;
	for i in 0..n_unit {
		let c = random_case(&mut rng, true, 60);
		cx.go("random_unit_rate", &c, i % 2 == 0 || args.thorough);
	}
	let n_any = (if args.thorough { 6_000 } else { 700 }) * m;
	for i in 0..n_any {
		let mut c = random_case(&mut rng, false, 36);
		if i % 16 == 0 {
			c.fast = false; // full interpolation in the model, no checked fast path
		}
		cx.go("random_any_rate", &c, i % 3 == 0 || args.thorough);
	}
	// a handful with arbitrary (not index-coded) sample values, including -0.0 and huge ones
	for _ in 0..(40 * m) {
		let unit = rng.chance(1, 2);
		let mut c = random_case(&mut rng, unit, 16);
		let len = rng.range(1, 12) as usize;
		c.src = Src::Bits((0..len).map(|_| (gen_f32(&mut rng), gen_f32(&mut rng))).collect());
		c.slice = None;
		c.start = Pos::Smp(rng.below(len as u64) as usize);
		c.lp = None;
		for st in c.steps.iter_mut() {
			st.cmds.retain(|k| !matches!(k, Cmd::Loop(..)));
		}
		c.fast = rng.chance(1, 2);
		cx.go("random_values", &c, true);
	}

	// ---- through a real AudioManager: rate 1 at the device rate is bit-exact end to end
	for i in 0..(if args.thorough { 200 } else { 40 } * m) {
		let sr = *rng.pick(&SRS);
		let len = rng.range(1, 300) as usize;
		let start = rng.below(len as u64) as usize;
		let rev = rng.chance(1, 3);
		let lp = if rng.chance(1, 2) {
			let ls = rng.below(len as u64) as usize;
			let le = rng.range(ls as i64 + 1, len as i64) as usize;
			Some((ls, le))
		} else {
			None
		};
		let ibs = *rng.pick(&[1usize, 3, 16, 128]);
		let mut mgr = simple_manager(sr, ibs);
		let mut data = indexed_sound(sr, len).start_position(PlaybackPosition::Samples(start)).reverse(rev);
		if let Some((ls, le)) = lp {
			data = data.loop_region(Region { start: PlaybackPosition::Samples(ls), end: EndPosition::Custom(PlaybackPosition::Samples(le)) });
		}
		let desc = format!("manager sr {sr} internal buffer {ibs} len {len} start {start} rev {rev} loop {lp:?}");
		let r = catch(|| {
			let h = mgr.play(data).unwrap();
			let mut outs = vec![];
			let mut states = vec![];
			let total = len + 20;
			while outs.len() < total {
				let k = (rng.below(40) + 1) as usize;
				let o = mgr.backend_mut().callback_stereo(k);
				outs.extend(o);
				states.push((outs.len(), h.state()));
			}
			(outs, states)
		});
		cx.s.eval_only("manager_rate1");
		match r {
			Outcome::Ok((outs, _states)) => {
				let first = if rev { len - 1 - start } else { start };
				let spec = spec_sequence(len, first, lp, rev, outs.len());
				for (k, f) in outs.iter().enumerate() {
					let want = match spec[k] {
						Some(j) => indexed_frame(j),
						None => Frame::ZERO,
					};
					if f.left != want.left || f.right != want.right {
						cx.s.fail(desc.clone(), format!("device frame {k} is ({}, {}) but source frame {:?} = ({}, {}) is due", f.left, f.right, spec[k], want.left, want.right), None);
						break;
					}
				}
			}
			_ => cx.s.fail(desc, "panic".into(), None),
		}
		let _ = i;
	}
	cx.s.notes.push(format!("model cases: {} on the checked fast path or index-only, {} interpolating; {} watchdog runs", cx.model_fast, cx.model_slow, cx.hangs));
	cx.s.finish();
}
