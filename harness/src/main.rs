mod util;
mod backend;
mod c19;
mod c13;
mod c06;

fn main() {
	let args = util::parse_args();
	util::install_panic_hook();
	match args.prop.as_str() {
		"C19" => c19::run(&args),
		"C13" => c13::run(&args),
		"C06" => c06::run(&args),
		p => {
			eprintln!("unknown property {p}");
			std::process::exit(2);
		}
	}
}
