mod util;
mod backend;
mod c19;

fn main() {
	let args = util::parse_args();
	util::install_panic_hook();
	match args.prop.as_str() {
		"C19" => c19::run(&args),
		p => {
			eprintln!("unknown property {p}");
			std::process::exit(2);
		}
	}
}
