mod util;
mod alloc;
#[global_allocator]
static GLOBAL: alloc::CountingAlloc = alloc::CountingAlloc;
mod backend;
mod inject;
mod c19;
mod c02;
mod c11;
mod c04;
mod c18;
mod c17;
mod c13;
mod c14;
mod c06;
mod c03;
mod c01;
mod c05;
mod c15;
mod c08;
mod c07;
mod c10;
mod c16;
mod c12;
mod c09;

fn main() {
	let args = util::parse_args();
	util::install_panic_hook();
	match args.prop.as_str() {
		"C19" => c19::run(&args),
		"C02" => c02::run(&args),
		"C11" => c11::run(&args),
		"C04" => c04::run(&args),
		"C18" => c18::run(&args),
		"C17" => c17::run(&args),
		"C13" => c13::run(&args),
		"C14" => c14::run(&args),
		"C06" => c06::run(&args),
		"C03" => c03::run(&args),
		"C01" => c01::run(&args),
		"C05" => c05::run(&args),
		"C15" => c15::run(&args),
		"C08" => c08::run(&args),
		"C07" => c07::run(&args),
		"C10" => c10::run(&args),
		"C16" => c16::run(&args),
		"C12" => c12::run(&args),
		"C09" => c09::run(&args),
		p => {
			eprintln!("unknown property {p}");
			std::process::exit(2);
		}
	}
}
