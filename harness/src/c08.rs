//! C08 — hand-off of resources between the gameplay thread and the audio thread: replay API-level
//! histories (create / mark for removal / device callback) on ONE storage of a fresh manager through the
//! public API, observe what the model of `coq/theories/C08/Run.v` predicts (keys, counts, payload
//! drops with the dropping thread, arena order, key order, resolution of every id ever returned) and
//! evaluate the property itself (capacity honoured, prompt removal, no stale ids, payloads destroyed
//! on the caller's thread only) with a small reference bookkeeping that is independent of the model.
//! Creations that FAIL are part of the histories (`OCreateFailing`): a `SoundData` whose `into_sound`
//! returns `Err` or unwinds, a streaming sound whose decoder cannot seek, a sub-track with an effect whose
//! `init` unwinds (all before the reservation: nothing may be consumed), and — user code that unwinds
//! with the key already reserved — a panicking `ModulatorBuilder` / send-track effect `init` (the model's
//! `X_fail_late`: the slot leaks, on the unchanged tree too; compared with the model, see the notes).
//! In addition (bottom of the file): a deterministic replay of the schedule of finding F27 (a whole
//! create between the audio thread's arena removal and its push into the unused ring; repaired in
//! /repo 38abf69) through the cfg(kira_verif) yield point in kira's resources.rs, compared with the
//! model's `CSched` entry point (regression), and a free-running two-thread stress (real concurrency
//! between creates and callbacks through a backend that parks the `Renderer` in a shared slot;
//! monitors only).
use crate::backend::*;
use crate::util::*;
use kira::clock::{ClockHandle, ClockId, ClockSpeed, ClockTime};
use kira::effect::{Effect, EffectBuilder};
use kira::info::{Info, WhenToStart};
use kira::listener::ListenerHandle;
use kira::modulator::lfo::{LfoBuilder, LfoHandle};
use kira::modulator::tweener::{TweenerBuilder, TweenerHandle};
use kira::modulator::{Modulator, ModulatorBuilder, ModulatorId};
use kira::sound::streaming::{Decoder, StreamingSoundData};
use kira::sound::{PlaybackState, Sound, SoundData};
use kira::track::{MainTrackBuilder, SendTrackBuilder, SendTrackHandle, SpatialTrackBuilder, SpatialTrackHandle, TrackBuilder, TrackHandle};
use kira::{Capacities, Decibels, Easing, Frame, Mapping, Parameter, PlaySoundError, Tween, Value};
use std::collections::{BTreeSet, HashSet};
use std::sync::atomic::{AtomicBool, AtomicUsize, Ordering};
use std::sync::{Arc, Mutex, MutexGuard};
use std::thread::ThreadId;

const M_KEY: i128 = 1;
const M_LEN: i128 = 2;
const M_DROPS: i128 = 4;
const M_ORDER: i128 = 8;
const M_KEYS: i128 = 16;
const M_IDENT: i128 = 32;
const M_RESOLVE: i128 = 64;
const M_CAP: i128 = 128;

#[derive(Clone, Copy, PartialEq, Eq, Debug)]
enum Kind {
	Modulator,
	/// kira's own modulators (tweeners and LFOs alternately); removal = the handle is dropped
	ModBuiltin,
	Clock,
	Listener,
	SoundMain,
	SoundSub,
	/// sounds of a spatial sub-track (`SpatialTrackHandle::play`)
	SoundSpatial,
	SubTrack,
	SubTrackNested,
	/// the mixer's sub-track storage, filled alternately by `add_sub_track` and `add_spatial_sub_track`
	SubTrackSpatial,
	/// the sub-track storage of a spatial track (`SpatialTrackHandle::{add_sub_track, add_spatial_sub_track}`)
	SubTrackOfSpatial,
	/// sounds of a sub-track built with `persist_until_sounds_finish(true)`: the TrackHandle (owner of the
	/// gameplay side of the sound storage) can be dropped while the storage lives on (`OAbandon`)
	SoundPersist,
	/// sub-tracks of a parent track whose TrackHandle can be dropped while children keep the parent alive
	SubTrackOrphan,
	SendTrack,
}
const KINDS: [Kind; 14] = [
	Kind::Modulator,
	Kind::ModBuiltin,
	Kind::Clock,
	Kind::Listener,
	Kind::SoundMain,
	Kind::SoundSub,
	Kind::SoundSpatial,
	Kind::SubTrack,
	Kind::SubTrackNested,
	Kind::SubTrackSpatial,
	Kind::SubTrackOfSpatial,
	Kind::SoundPersist,
	Kind::SubTrackOrphan,
	Kind::SendTrack,
];
impl Kind {
	fn name(self) -> &'static str {
		match self {
			Kind::Modulator => "modulator",
			Kind::ModBuiltin => "modulator_builtin",
			Kind::Clock => "clock",
			Kind::Listener => "listener",
			Kind::SoundMain => "sound_main",
			Kind::SoundSub => "sound_sub",
			Kind::SoundSpatial => "sound_spatial",
			Kind::SubTrack => "sub_track",
			Kind::SubTrackNested => "sub_track_nested",
			Kind::SubTrackSpatial => "sub_track_spatial",
			Kind::SubTrackOfSpatial => "sub_track_of_spatial",
			Kind::SoundPersist => "sound_persist",
			Kind::SubTrackOrphan => "sub_track_orphan",
			Kind::SendTrack => "send_track",
		}
	}
	fn from_name(s: &str) -> Option<Kind> {
		KINDS.iter().copied().find(|k| k.name() == s)
	}
	/// SelfReferentialResourceStorage (clocks, modulators, listeners) or ResourceStorage
	fn selfref(self) -> bool {
		matches!(self, Kind::Modulator | Kind::ModBuiltin | Kind::Clock | Kind::Listener)
	}
	/// the payload exists before the key is reserved (and is dropped by the caller on rejection)
	fn prebuild(self) -> bool {
		!self.selfref()
	}
	fn mask(self) -> i128 {
		match self {
			Kind::Modulator => M_KEY | M_LEN | M_DROPS | M_ORDER | M_KEYS | M_IDENT | M_RESOLVE | M_CAP,
			Kind::ModBuiltin => M_KEY | M_LEN | M_IDENT | M_RESOLVE | M_CAP,
			Kind::Clock => M_KEY | M_LEN | M_RESOLVE | M_CAP,
			Kind::Listener => M_KEY | M_RESOLVE,
			Kind::SoundMain
			| Kind::SoundSub
			| Kind::SoundSpatial
			| Kind::SubTrack
			| Kind::SubTrackNested
			| Kind::SubTrackSpatial
			| Kind::SubTrackOfSpatial
			| Kind::SoundPersist
			| Kind::SubTrackOrphan => M_LEN | M_DROPS | M_ORDER | M_CAP,
			Kind::SendTrack => M_KEY | M_LEN | M_DROPS | M_ORDER | M_IDENT | M_RESOLVE | M_CAP,
		}
	}
	fn default_cap(self) -> usize {
		match self {
			Kind::Modulator | Kind::ModBuiltin => 16,
			Kind::Clock => 8,
			Kind::Listener => 8,
			Kind::SendTrack => 16,
			_ => 128,
		}
	}
	fn is_sound(self) -> bool {
		matches!(self, Kind::SoundMain | Kind::SoundSub | Kind::SoundSpatial | Kind::SoundPersist)
	}
	/// the storage belongs to a track that can be paused / resumed (the bookkeeping must not care)
	fn has_parent(self) -> bool {
		matches!(
			self,
			Kind::SoundSub | Kind::SoundSpatial | Kind::SubTrackNested | Kind::SubTrackOfSpatial | Kind::SoundPersist | Kind::SubTrackOrphan
		)
	}
	/// the handle that owns the gameplay side of the storage can be dropped while the storage lives on
	fn can_abandon(self) -> bool {
		matches!(self, Kind::SoundPersist | Kind::SubTrackOrphan)
	}
	fn is_sub_track(self) -> bool {
		matches!(self, Kind::SubTrack | Kind::SubTrackNested | Kind::SubTrackSpatial | Kind::SubTrackOfSpatial | Kind::SubTrackOrphan)
	}
	/// the resources of this kind are kira's own and have a handle through which they can be given something
	/// to do (`Op::Busy`); the probe kinds (user modulators, probe sounds) have no such handle
	fn has_activity(self) -> bool {
		matches!(self, Kind::ModBuiltin | Kind::Clock | Kind::Listener | Kind::SendTrack) || self.is_sub_track()
	}
	/// how a creation of this kind can fail, as the code orders things (table in C08/Model.v):
	/// (late, built) = (the user code that fails runs AFTER try_reserve, a payload had been built)
	fn fail_shape(self) -> Option<(bool, bool)> {
		match self {
			// SoundData::into_sound fails: before the reservation, no payload
			k if k.is_sound() => Some((false, false)),
			// an effect's init unwinds out of add_sub_track: before the reservation, the track is dropped
			k if k.is_sub_track() => Some((false, true)),
			// an effect's init unwinds out of add_send_track: the key is reserved
			Kind::SendTrack => Some((true, true)),
			// the user's ModulatorBuilder unwinds: the key is reserved, nothing was built
			Kind::Modulator => Some((true, false)),
			// add_clock / add_listener run no user code
			_ => None,
		}
	}
	/// bound on successful creations per history (send tracks: one binary digit of an f32 per id)
	fn max_success(self) -> usize {
		match self {
			Kind::SendTrack => 20,
			_ => usize::MAX,
		}
	}
	/// length of the exhaustively enumerated histories (quick tier)
	fn exhaustive_len(self) -> usize {
		match self {
			Kind::Modulator | Kind::SoundMain | Kind::SubTrack | Kind::SendTrack => 6,
			_ => 5,
		}
	}
	/// length of the exhaustively enumerated histories that contain failing creations (quick tier)
	fn exhaustive_fail_len(self) -> usize {
		match self {
			Kind::SoundMain | Kind::SoundSub | Kind::SoundSpatial => 5,
			_ => 4,
		}
	}
}

#[derive(Clone, Copy, PartialEq, Eq, Debug)]
enum Op {
	Create,
	Mark(usize),
	Callback,
	/// a creation attempt that fails the way `Kind::fail_shape` says
	CreateFailing,
	/// the track that owns the storage: 0 pause, 1 resume (both with a zero-length tween), 2 resume at a
	/// time of a clock that never ticks (waiting to resume)
	Parent(u8),
	/// drop the handle of the track that owns the storage (the storage lives on)
	Abandon,
	/// give resource `p` (through its handle, which still exists) something to do that outlasts the history
	/// or waits for ever: `what % 4` = 0 a 60 s tween, 1 a tween that starts in 60 s, 2 a tween that starts at a
	/// clock time that never comes, 3 a tween that is over within one callback (`Kind::has_activity`; what is
	/// tweened depends on the kind, see `World::busy`).  Nothing to do with the storage: the resource is
	/// removed at the callback after its handle is dropped WHATEVER it is doing at that moment
	Busy(usize, u8),
}
fn ops_term_of(kind: Kind, ops: &[Op]) -> String {
	let (late, built) = kind.fail_shape().unwrap_or((false, false));
	ops.iter()
		.map(|o| match o {
			Op::Create => "OCreate".to_string(),
			Op::Mark(p) => format!("OMark {p}"),
			Op::Callback => "OCallback".to_string(),
			Op::CreateFailing => format!("OCreateFailing {late} {built}"),
			Op::Parent(w) => format!("OParent {w}"),
			Op::Abandon => "OAbandon".to_string(),
			Op::Busy(p, w) => format!("OBusy {p} {w}"),
		})
		.collect::<Vec<_>>()
		.join("; ")
}
fn case_term(kind: Kind, cap: usize, ops: &[Op]) -> String {
	format!("CHist {} {} {} {} [{}]", kind.selfref(), kind.prebuild(), cap, kind.mask(), ops_term_of(kind, ops))
}

fn lk<T>(m: &Mutex<T>) -> MutexGuard<'_, T> {
	m.lock().unwrap_or_else(|e| e.into_inner())
}

// ------------------------------------------------------------------------------------------------
// probes
// ------------------------------------------------------------------------------------------------

/// everything the probes report, shared between the two threads of one history
struct Shared {
	main: ThreadId,
	next_pid: AtomicUsize,
	/// (payload id, dropped on a thread other than the caller's)
	drops: Mutex<Vec<(usize, bool)>>,
	/// payload ids in the order of `on_start_processing` calls of the current callback
	order: Mutex<Vec<usize>>,
	/// payload ids in the order of `Modulator::update` calls of the current callback
	keys: Mutex<Vec<usize>>,
	/// send-track probe effects: (payload id, left value of the first input frame) of the current callback
	recv: Mutex<Vec<(usize, f32)>>,
	mod_ids: Mutex<Vec<ModulatorId>>,
	clock_ids: Mutex<Vec<ClockId>>,
	/// per modulator id: (Info::modulator_value, value of a Parameter linked to the id with Value::FromModulator)
	q_mod: Mutex<Option<Vec<(Option<f64>, f64)>>>,
	/// per clock id: (Info::clock_info is Some, Info::when_to_start(ClockTime of that clock) is not Never)
	q_clock: Mutex<Option<Vec<(bool, bool)>>>,
	/// by creation index: what the query sound on the listener's spatial track saw in the current callback
	q_listener: Mutex<Vec<Option<bool>>>,
	/// sounds playing ON a sub-track payload: (payload id of the track, dropped on a thread other than the caller's)
	inner_drops: Mutex<Vec<(usize, bool)>>,
	/// sounds that were meant to be finished the moment `into_sound` returned and were not (premise of the
	/// born-finished histories; payload ids)
	born_not_finished: Mutex<Vec<usize>>,
}
impl Shared {
	fn log_drop(&self, pid: usize) {
		let other = std::thread::current().id() != self.main;
		lk(&self.drops).push((pid, other));
	}
}

struct ProbeSound {
	pid: usize,
	sh: Arc<Shared>,
	fin: Arc<AtomicBool>,
}
impl Sound for ProbeSound {
	fn on_start_processing(&mut self) {
		lk(&self.sh.order).push(self.pid);
	}
	fn process(&mut self, _out: &mut [Frame], _dt: f64, _info: &Info) {}
	fn finished(&self) -> bool {
		self.fin.load(Ordering::SeqCst)
	}
}
impl Drop for ProbeSound {
	fn drop(&mut self) {
		self.sh.log_drop(self.pid);
	}
}

/// a sound playing on a sub-track under test: part of that track's payload, it has to be destroyed with it,
/// on the caller's thread, and not before the track has been removed
struct InnerSound {
	owner: usize,
	sh: Arc<Shared>,
}
impl Sound for InnerSound {
	fn process(&mut self, _out: &mut [Frame], _dt: f64, _info: &Info) {}
	fn finished(&self) -> bool {
		false
	}
}
impl Drop for InnerSound {
	fn drop(&mut self) {
		let other = std::thread::current().id() != self.sh.main;
		lk(&self.sh.inner_drops).push((self.owner, other));
	}
}

/// one of kira's OWN static sounds behind a probe: everything (`finished()` above all) is answered by the real
/// `StaticSound`; the probe only reports the callbacks that reached it and the thread that destroyed it
struct WrappedSound {
	pid: usize,
	sh: Arc<Shared>,
	inner: Box<dyn Sound>,
}
impl Sound for WrappedSound {
	fn on_start_processing(&mut self) {
		lk(&self.sh.order).push(self.pid);
		self.inner.on_start_processing();
	}
	fn process(&mut self, out: &mut [Frame], dt: f64, info: &Info) {
		self.inner.process(out, dt, info);
	}
	fn finished(&self) -> bool {
		self.inner.finished()
	}
}
impl Drop for WrappedSound {
	fn drop(&mut self) {
		self.sh.log_drop(self.pid);
	}
}
/// sound data whose sound is finished the moment `into_sound` returns (`Op::Create` directly followed by
/// `Op::Mark` of itself in a born-finished history, see `BORN_LEGEND`)
struct BornFinished {
	pid: usize,
	sh: Arc<Shared>,
	how: u8,
}
const BORN_HOW: usize = 4;
const BORN_LEGEND: [&str; BORN_HOW] = [
	"a user-defined Sound whose finished() is true from the start",
	"kira's StaticSoundData of 4 frames at 1000 Hz with reverse(true) and start_position Samples(10) (nothing to play)",
	"kira's StaticSoundData of 0 frames with reverse(true)",
	"kira's StaticSoundData of 6 frames at 1000 Hz with reverse(true) and start_position Seconds(0.006) (first position before the first frame)",
];
impl SoundData for BornFinished {
	type Error = ();
	type Handle = ();
	fn into_sound(self) -> Result<(Box<dyn Sound>, ()), ()> {
		use kira::sound::static_sound::StaticSoundSettings;
		use kira::sound::PlaybackPosition;
		let BornFinished { pid, sh, how } = self;
		let sound: Box<dyn Sound> = if how as usize % BORN_HOW == 0 {
			Box::new(ProbeSound { pid, sh: sh.clone(), fin: Arc::new(AtomicBool::new(true)) })
		} else {
			let (n, start) = match how as usize % BORN_HOW {
				1 => (4usize, PlaybackPosition::Samples(10)),
				2 => (0, PlaybackPosition::Samples(0)),
				_ => (6, PlaybackPosition::Seconds(0.006)),
			};
			let mut data = sound_from_frames(1000, vec![Frame::new(0.25, 0.25); n]);
			data.settings = StaticSoundSettings::new().reverse(true).start_position(start);
			let (inner, _handle) = data.into_sound().map_err(|_| ())?;
			Box::new(WrappedSound { pid, sh: sh.clone(), inner })
		};
		if !sound.finished() {
			lk(&sh.born_not_finished).push(pid);
		}
		Ok((sound, ()))
	}
}

/// a sound that outputs one constant value for ever
struct ConstSound(f32);
impl Sound for ConstSound {
	fn process(&mut self, out: &mut [Frame], _dt: f64, _info: &Info) {
		for f in out.iter_mut() {
			*f = Frame::new(self.0, self.0);
		}
	}
	fn finished(&self) -> bool {
		false
	}
}

enum Query {
	Mod,
	Clock,
	Listener(usize),
}
/// asks the audio thread's `Info` what the ids handed out so far resolve to
struct QuerySound {
	sh: Arc<Shared>,
	what: Query,
	/// one parameter per modulator id handed out so far, linked with `Value::FromModulator`
	params: Vec<Parameter<f64>>,
}
impl QuerySound {
	fn new(sh: Arc<Shared>, what: Query) -> Self {
		QuerySound { sh, what, params: Vec::with_capacity(4096) }
	}
}
/// value a linked parameter has before its modulator has ever resolved
const PARAM_DEFAULT: f64 = -1.0;
impl Sound for QuerySound {
	fn process(&mut self, _out: &mut [Frame], dt: f64, info: &Info) {
		match self.what {
			Query::Mod => {
				let ids = lk(&self.sh.mod_ids).clone();
				while self.params.len() < ids.len() && self.params.len() < self.params.capacity() {
					let id = ids[self.params.len()];
					// the identity on [0, 2^20] (exact in f64)
					let mapping = Mapping { input_range: (0.0, 1048576.0), output_range: (0.0, 1048576.0), easing: Easing::Linear };
					self.params.push(Parameter::new(Value::FromModulator { id, mapping }, PARAM_DEFAULT));
				}
				let mut r: Vec<(Option<f64>, f64)> = Vec::with_capacity(ids.len());
				for (j, id) in ids.iter().enumerate() {
					let direct = info.modulator_value(*id);
					let linked = match self.params.get_mut(j) {
						Some(p) => {
							p.update(dt, info);
							p.value()
						}
						None => direct.unwrap_or(PARAM_DEFAULT),
					};
					r.push((direct, linked));
				}
				*lk(&self.sh.q_mod) = Some(r);
			}
			Query::Clock => {
				let ids = lk(&self.sh.clock_ids).clone();
				let r: Vec<(bool, bool)> = ids
					.iter()
					.map(|id| {
						let t = ClockTime { clock: *id, ticks: 0, fraction: 0.0 };
						(info.clock_info(*id).is_some(), info.when_to_start(t) != WhenToStart::Never)
					})
					.collect();
				*lk(&self.sh.q_clock) = Some(r);
			}
			Query::Listener(j) => {
				let r = info.listener_info().is_some();
				let mut q = lk(&self.sh.q_listener);
				if j < q.len() {
					q[j] = Some(r);
				}
			}
		}
	}
	fn finished(&self) -> bool {
		false
	}
}

struct Boxed(Box<dyn Sound>);
impl SoundData for Boxed {
	type Error = ();
	type Handle = ();
	fn into_sound(self) -> Result<(Box<dyn Sound>, ()), ()> {
		Ok((self.0, ()))
	}
}

/// sound data that cannot be turned into a sound
#[derive(Clone, Copy, PartialEq, Eq, Debug)]
enum FailHow {
	Err,
	Panic,
}
struct FailingData(FailHow);
impl SoundData for FailingData {
	type Error = &'static str;
	type Handle = ();
	fn into_sound(self) -> Result<(Box<dyn Sound>, ()), &'static str> {
		match self.0 {
			FailHow::Err => Err("probe: into_sound fails"),
			FailHow::Panic => panic!("probe: into_sound panics"),
		}
	}
}
/// a decoder that cannot seek: `StreamingSoundData::into_sound` fails while setting the decoder up
struct BadDecoder;
impl Decoder for BadDecoder {
	type Error = &'static str;
	fn sample_rate(&self) -> u32 {
		1000
	}
	fn num_frames(&self) -> usize {
		64
	}
	fn decode(&mut self) -> Result<Vec<Frame>, &'static str> {
		Ok(vec![Frame::ZERO; 4])
	}
	fn seek(&mut self, _index: usize) -> Result<usize, &'static str> {
		Err("probe: the decoder cannot seek")
	}
}
const PROBE_PANIC: &str = "probe:";

struct ProbeMod {
	pid: usize,
	sh: Arc<Shared>,
	fin: Arc<AtomicBool>,
}
impl Modulator for ProbeMod {
	fn on_start_processing(&mut self) {
		lk(&self.sh.order).push(self.pid);
	}
	fn update(&mut self, _dt: f64, _info: &Info) {
		let mut k = lk(&self.sh.keys);
		if !k.contains(&self.pid) {
			k.push(self.pid);
		}
	}
	fn value(&self) -> f64 {
		1000.0 + self.pid as f64
	}
	fn finished(&self) -> bool {
		self.fin.load(Ordering::SeqCst)
	}
}
impl Drop for ProbeMod {
	fn drop(&mut self) {
		self.sh.log_drop(self.pid);
	}
}
struct ProbeModBuilder {
	sh: Arc<Shared>,
	/// unwind instead of building (user code running between try_reserve and insert_with_key)
	fail: bool,
}
impl ModulatorBuilder for ProbeModBuilder {
	type Handle = (ModulatorId, usize, Arc<AtomicBool>);
	fn build(self, id: ModulatorId) -> (Box<dyn Modulator>, Self::Handle) {
		if self.fail {
			panic!("probe: the modulator builder panics");
		}
		// only reached after a successful reservation: the payload id is consumed here
		let pid = self.sh.next_pid.fetch_add(1, Ordering::SeqCst);
		let fin = Arc::new(AtomicBool::new(false));
		(Box::new(ProbeMod { pid, sh: self.sh.clone(), fin: fin.clone() }), (id, pid, fin))
	}
}

struct ProbeEffect {
	pid: usize,
	sh: Arc<Shared>,
	record_input: bool,
	fail_init: bool,
}
impl Effect for ProbeEffect {
	fn init(&mut self, _sample_rate: u32, _internal_buffer_size: usize) {
		if self.fail_init {
			panic!("probe: the effect's init panics");
		}
	}
	fn on_start_processing(&mut self) {
		lk(&self.sh.order).push(self.pid);
	}
	fn process(&mut self, input: &mut [Frame], _dt: f64, _info: &Info) {
		if self.record_input {
			let mut r = lk(&self.sh.recv);
			if !r.iter().any(|(p, _)| *p == self.pid) {
				r.push((self.pid, input.first().map(|f| f.left).unwrap_or(0.0)));
			}
		}
	}
}
impl Drop for ProbeEffect {
	fn drop(&mut self) {
		self.sh.log_drop(self.pid);
	}
}
struct ProbeEffectBuilder {
	pid: usize,
	sh: Arc<Shared>,
	record_input: bool,
	fail_init: bool,
}
impl EffectBuilder for ProbeEffectBuilder {
	type Handle = ();
	fn build(self) -> (Box<dyn Effect>, ()) {
		(Box::new(ProbeEffect { pid: self.pid, sh: self.sh, record_input: self.record_input, fail_init: self.fail_init }), ())
	}
}

/// `XxxId(Key { index: 3, generation: 1 })` -> (3, 1)
fn parse_key(s: &str) -> (i128, i128) {
	let num_after = |tag: &str| -> i128 {
		match s.find(tag) {
			Some(i) => s[i + tag.len()..].chars().take_while(|c| c.is_ascii_digit()).collect::<String>().parse().unwrap_or(-1),
			None => -1,
		}
	};
	(num_after("index: "), num_after("generation: "))
}

// ------------------------------------------------------------------------------------------------
// the implementation under test: one manager, one storage
// ------------------------------------------------------------------------------------------------

enum CreateRes {
	Created(Option<(i128, i128)>),
	Limit,
}
/// outcome of a creation attempt that is meant to fail
enum FailRes {
	/// failed the intended way (the intended `Err`, or the probe's own panic)
	Failed,
	/// the limit error came first
	Limit,
	/// anything else (a resource was created, a foreign panic, …)
	Unexpected(String),
}

enum AnyTrack {
	Plain(TrackHandle),
	Spatial(SpatialTrackHandle),
}
#[allow(dead_code)]
enum BuiltinMod {
	Tweener(TweenerHandle),
	Lfo(LfoHandle),
}

struct World {
	kind: Kind,
	sh: Arc<Shared>,
	parent: Option<TrackHandle>,
	parent_sp: Option<SpatialTrackHandle>,
	listener: Option<ListenerHandle>,
	flags: Vec<(usize, Arc<AtomicBool>)>,
	clocks: Vec<(usize, Option<ClockHandle>)>,
	listeners: Vec<(usize, Option<ListenerHandle>)>,
	tracks: Vec<(usize, Option<AnyTrack>)>,
	sends: Vec<(usize, Option<SendTrackHandle>)>,
	builtin: Vec<(usize, Option<BuiltinMod>)>,
	/// handles of the tracks nested INSIDE a created sub-track (dropped together with it)
	inner_tracks: Vec<(usize, Vec<TrackHandle>)>,
	/// a clock that never ticks (for `resume_at`)
	idle_clock: Option<ClockHandle>,
	keep_tracks: Vec<TrackHandle>,
	keep_spatial: Vec<SpatialTrackHandle>,
	/// payload ids of the successful creations, in creation order
	created: Vec<usize>,
	/// the next sound to be created is finished at creation (`BornFinished::how`)
	born_next: Option<u8>,
	mgr: Mgr,
}

fn zero3() -> mint::Vector3<f32> {
	mint::Vector3 { x: 0.0, y: 0.0, z: 0.0 }
}
fn quat_id() -> mint::Quaternion<f32> {
	mint::Quaternion { v: zero3(), s: 1.0 }
}
fn new_shared() -> Arc<Shared> {
	Arc::new(Shared {
		main: std::thread::current().id(),
		next_pid: AtomicUsize::new(0),
		drops: Mutex::new(vec![]),
		order: Mutex::new(vec![]),
		keys: Mutex::new(vec![]),
		recv: Mutex::new(vec![]),
		mod_ids: Mutex::new(vec![]),
		clock_ids: Mutex::new(vec![]),
		q_mod: Mutex::new(None),
		q_clock: Mutex::new(None),
		q_listener: Mutex::new(vec![]),
		inner_drops: Mutex::new(vec![]),
		born_not_finished: Mutex::new(vec![]),
	})
}

impl World {
	fn new(kind: Kind, cap: usize) -> World {
		let mut caps = Capacities::default();
		let mut main = MainTrackBuilder::new();
		match kind {
			Kind::Modulator | Kind::ModBuiltin => caps.modulator_capacity = cap,
			Kind::Clock => caps.clock_capacity = cap,
			Kind::Listener => caps.listener_capacity = cap,
			Kind::SoundMain => main = main.sound_capacity(cap),
			Kind::SubTrack | Kind::SubTrackSpatial => caps.sub_track_capacity = cap,
			Kind::SendTrack => caps.send_track_capacity = cap,
			Kind::SoundSub | Kind::SoundSpatial | Kind::SubTrackNested | Kind::SubTrackOfSpatial | Kind::SoundPersist | Kind::SubTrackOrphan => {}
		}
		let mut mgr = manager(1000, 16, caps, main);
		let sh = new_shared();
		let mut parent = None;
		let mut parent_sp = None;
		let mut listener = None;
		// (the clock storage under test holds nothing but the clocks of the history: Kind::Clock has no aux clock)
		let idle_clock = if kind.has_parent() || (kind.has_activity() && kind != Kind::Clock) { Some(mgr.add_clock(ClockSpeed::TicksPerSecond(1.0)).expect("aux clock")) } else { None };
		if matches!(kind, Kind::SoundSpatial | Kind::SubTrackNested | Kind::SubTrackSpatial | Kind::SubTrackOfSpatial | Kind::SubTrackOrphan) {
			listener = Some(mgr.add_listener(zero3(), quat_id()).expect("aux listener"));
		}
		match kind {
			Kind::SoundSub => parent = Some(mgr.add_sub_track(TrackBuilder::new().sound_capacity(cap)).expect("parent track")),
			Kind::SubTrackNested | Kind::SubTrackOrphan => parent = Some(mgr.add_sub_track(TrackBuilder::new().sub_track_capacity(cap)).expect("parent track")),
			Kind::SoundPersist => {
				parent = Some(mgr.add_sub_track(TrackBuilder::new().sound_capacity(cap).persist_until_sounds_finish(true)).expect("parent track"))
			}
			Kind::SoundSpatial => {
				let id = listener.as_ref().unwrap().id();
				parent_sp = Some(mgr.add_spatial_sub_track(id, zero3(), SpatialTrackBuilder::new().sound_capacity(cap)).expect("parent spatial track"))
			}
			Kind::SubTrackOfSpatial => {
				let id = listener.as_ref().unwrap().id();
				parent_sp = Some(mgr.add_spatial_sub_track(id, zero3(), SpatialTrackBuilder::new().sub_track_capacity(cap)).expect("parent spatial track"))
			}
			// the query sound lives in the main track's sound storage, not in the storage under test
			Kind::Modulator | Kind::ModBuiltin => mgr.play(Boxed(Box::new(QuerySound::new(sh.clone(), Query::Mod)))).expect("query sound"),
			Kind::Clock => mgr.play(Boxed(Box::new(QuerySound::new(sh.clone(), Query::Clock)))).expect("query sound"),
			_ => {}
		}
		World {
			kind,
			sh,
			parent,
			parent_sp,
			listener,
			flags: vec![],
			clocks: vec![],
			listeners: vec![],
			tracks: vec![],
			sends: vec![],
			builtin: vec![],
			inner_tracks: vec![],
			idle_clock,
			keep_tracks: vec![],
			keep_spatial: vec![],
			created: vec![],
			born_next: None,
			mgr,
		}
	}

	fn capacity(&mut self) -> usize {
		match self.kind {
			Kind::Modulator | Kind::ModBuiltin => self.mgr.modulator_capacity(),
			Kind::Clock => self.mgr.clock_capacity(),
			Kind::Listener => 0,
			Kind::SoundMain => self.mgr.main_track().sound_capacity(),
			Kind::SoundSub | Kind::SoundPersist => self.parent.as_ref().unwrap().sound_capacity(),
			Kind::SoundSpatial => self.parent_sp.as_ref().unwrap().sound_capacity(),
			Kind::SubTrack | Kind::SubTrackSpatial => self.mgr.sub_track_capacity(),
			Kind::SubTrackNested | Kind::SubTrackOrphan => self.parent.as_ref().unwrap().sub_track_capacity(),
			Kind::SubTrackOfSpatial => self.parent_sp.as_ref().unwrap().sub_track_capacity(),
			Kind::SendTrack => self.mgr.send_track_capacity(),
		}
	}
	fn len(&mut self) -> usize {
		match self.kind {
			Kind::Modulator | Kind::ModBuiltin => self.mgr.num_modulators(),
			Kind::Clock => self.mgr.num_clocks(),
			Kind::Listener => 0,
			Kind::SoundMain => self.mgr.main_track().num_sounds(),
			Kind::SoundSub | Kind::SoundPersist => self.parent.as_ref().unwrap().num_sounds(),
			Kind::SoundSpatial => self.parent_sp.as_ref().unwrap().num_sounds(),
			Kind::SubTrack | Kind::SubTrackSpatial => self.mgr.num_sub_tracks(),
			Kind::SubTrackNested | Kind::SubTrackOrphan => self.parent.as_ref().unwrap().num_sub_tracks(),
			Kind::SubTrackOfSpatial => self.parent_sp.as_ref().unwrap().num_sub_tracks(),
			Kind::SendTrack => self.mgr.num_send_tracks(),
		}
	}

	/// `play` on the track whose sound storage is under test
	fn play_any<D: SoundData>(&mut self, data: D) -> Result<D::Handle, PlaySoundError<D::Error>> {
		match self.kind {
			Kind::SoundSub | Kind::SoundPersist => self.parent.as_mut().unwrap().play(data),
			Kind::SoundSpatial => self.parent_sp.as_mut().unwrap().play(data),
			_ => self.mgr.play(data),
		}
	}

	/// `add_sub_track` / `add_spatial_sub_track` on the owner of the sub-track storage under test; the
	/// spatial flavour for every other payload of the kinds that mix the two
	fn add_track_any(&mut self, pid: usize, fail_init: bool) -> Result<AnyTrack, ()> {
		let sh = self.sh.clone();
		let eff = ProbeEffectBuilder { pid, sh, record_input: false, fail_init };
		let spatial = matches!(self.kind, Kind::SubTrackNested | Kind::SubTrackSpatial | Kind::SubTrackOfSpatial | Kind::SubTrackOrphan) && pid % 2 == 1;
		if spatial {
			let id = self.listener.as_ref().unwrap().id();
			let b = SpatialTrackBuilder::new().with_effect(eff);
			match self.kind {
				Kind::SubTrackSpatial => self.mgr.add_spatial_sub_track(id, zero3(), b),
				Kind::SubTrackNested | Kind::SubTrackOrphan => self.parent.as_mut().unwrap().add_spatial_sub_track(id, zero3(), b),
				_ => self.parent_sp.as_mut().unwrap().add_spatial_sub_track(id, zero3(), b),
			}
			.map(AnyTrack::Spatial)
			.map_err(|_| ())
		} else {
			let b = TrackBuilder::new().with_effect(eff);
			match self.kind {
				Kind::SubTrack | Kind::SubTrackSpatial => self.mgr.add_sub_track(b),
				Kind::SubTrackNested | Kind::SubTrackOrphan => self.parent.as_mut().unwrap().add_sub_track(b),
				_ => self.parent_sp.as_mut().unwrap().add_sub_track(b),
			}
			.map(AnyTrack::Plain)
			.map_err(|_| ())
		}
	}

	/// one creation attempt through the public API (may panic: run it inside `catch`)
	fn create(&mut self) -> CreateRes {
		let sh = self.sh.clone();
		match self.kind {
			Kind::Modulator => match self.mgr.add_modulator(ProbeModBuilder { sh: sh.clone(), fail: false }) {
				Ok((id, pid, fin)) => {
					self.flags.push((pid, fin));
					lk(&sh.mod_ids).push(id);
					self.created.push(pid);
					CreateRes::Created(Some(parse_key(&format!("{:?}", id))))
				}
				Err(_) => CreateRes::Limit,
			},
			Kind::ModBuiltin => {
				// the payload id is only consumed by a successful creation (peek, then commit)
				let pid = sh.next_pid.load(Ordering::SeqCst);
				let own = 1000.0 + pid as f64;
				let r = if pid % 2 == 0 {
					self.mgr.add_modulator(TweenerBuilder { initial_value: own }).map(|h| (h.id(), BuiltinMod::Tweener(h)))
				} else {
					self.mgr.add_modulator(LfoBuilder::new().amplitude(0.0).offset(own)).map(|h| (h.id(), BuiltinMod::Lfo(h)))
				};
				match r {
					Ok((id, h)) => {
						sh.next_pid.fetch_add(1, Ordering::SeqCst);
						self.builtin.push((pid, Some(h)));
						lk(&sh.mod_ids).push(id);
						self.created.push(pid);
						CreateRes::Created(Some(parse_key(&format!("{:?}", id))))
					}
					Err(_) => CreateRes::Limit,
				}
			}
			Kind::Clock => match self.mgr.add_clock(ClockSpeed::TicksPerSecond(1.0)) {
				Ok(h) => {
					let pid = sh.next_pid.fetch_add(1, Ordering::SeqCst);
					let id = h.id();
					self.clocks.push((pid, Some(h)));
					lk(&sh.clock_ids).push(id);
					self.created.push(pid);
					CreateRes::Created(Some(parse_key(&format!("{:?}", id))))
				}
				Err(_) => CreateRes::Limit,
			},
			Kind::Listener => match self.mgr.add_listener(zero3(), quat_id()) {
				Ok(h) => {
					let pid = sh.next_pid.fetch_add(1, Ordering::SeqCst);
					let id = h.id();
					let j = self.created.len();
					self.listeners.push((pid, Some(h)));
					self.created.push(pid);
					lk(&sh.q_listener).push(None);
					// a spatial track bound to this listener with a query sound on it (other storages)
					let mut t = self.mgr.add_spatial_sub_track(id, zero3(), SpatialTrackBuilder::new()).expect("aux spatial track");
					t.play(Boxed(Box::new(QuerySound::new(sh.clone(), Query::Listener(j))))).expect("aux query sound");
					self.keep_spatial.push(t);
					CreateRes::Created(Some(parse_key(&format!("{:?}", id))))
				}
				Err(_) => CreateRes::Limit,
			},
			Kind::SoundMain | Kind::SoundSub | Kind::SoundSpatial | Kind::SoundPersist => {
				// the payload is built before the reservation: the id is consumed by every attempt
				let pid = sh.next_pid.fetch_add(1, Ordering::SeqCst);
				if let Some(how) = self.born_next.take() {
					// finished before `play` has even seen it: created all the same (or refused, on a full track)
					return match self.play_any(BornFinished { pid, sh: sh.clone(), how }) {
						Ok(()) => {
							self.created.push(pid);
							CreateRes::Created(None)
						}
						Err(PlaySoundError::SoundLimitReached) => CreateRes::Limit,
						Err(_) => panic!("unexpected play error"),
					};
				}
				let fin = Arc::new(AtomicBool::new(false));
				let data = Boxed(Box::new(ProbeSound { pid, sh: sh.clone(), fin: fin.clone() }));
				match self.play_any(data) {
					Ok(()) => {
						self.flags.push((pid, fin));
						self.created.push(pid);
						CreateRes::Created(None)
					}
					Err(PlaySoundError::SoundLimitReached) => CreateRes::Limit,
					Err(_) => panic!("unexpected play error"),
				}
			}
			Kind::SubTrack | Kind::SubTrackNested | Kind::SubTrackSpatial | Kind::SubTrackOfSpatial | Kind::SubTrackOrphan => {
				let pid = sh.next_pid.fetch_add(1, Ordering::SeqCst);
				match self.add_track_any(pid, false) {
					Ok(mut h) => {
						// something playing on the new track (its own sound storage, not the one under test)
						let inner = Boxed(Box::new(InnerSound { owner: pid, sh: sh.clone() }));
						match &mut h {
							AnyTrack::Plain(t) => t.play(inner).expect("inner sound"),
							AnyTrack::Spatial(t) => t.play(inner).expect("inner sound"),
						}
						// two of three tracks get a track nested inside them, one of three a chain of two: all
						// these handles are dropped in the same interval as the track's own (`mark`), and the
						// track has to be gone at the next callback all the same
						if pid % 3 != 0 {
							let mut chain = vec![];
							let mut c = match &mut h {
								AnyTrack::Plain(t) => t.add_sub_track(TrackBuilder::new()).expect("inner track"),
								AnyTrack::Spatial(t) => t.add_sub_track(TrackBuilder::new()).expect("inner track"),
							};
							if pid % 3 == 2 {
								let g = c.add_sub_track(TrackBuilder::new()).expect("inner inner track");
								chain.push(g);
							}
							chain.push(c);
							self.inner_tracks.push((pid, chain));
						}
						self.tracks.push((pid, Some(h)));
						self.created.push(pid);
						CreateRes::Created(None)
					}
					Err(_) => CreateRes::Limit,
				}
			}
			Kind::SendTrack => {
				let pid = sh.next_pid.fetch_add(1, Ordering::SeqCst);
				let b = SendTrackBuilder::new().with_effect(ProbeEffectBuilder { pid, sh: sh.clone(), record_input: true, fail_init: false });
				match self.mgr.add_send_track(b) {
					Ok(h) => {
						let id = h.id();
						let j = self.created.len();
						self.sends.push((pid, Some(h)));
						self.created.push(pid);
						// router j: a sub-track routed to this id carrying the constant 2^-(j+1)
						let mut t = self.mgr.add_sub_track(TrackBuilder::new().with_send(id, Decibels::IDENTITY)).expect("aux router track");
						t.play(Boxed(Box::new(ConstSound((0.5f32).powi(j as i32 + 1))))).expect("aux router sound");
						self.keep_tracks.push(t);
						CreateRes::Created(Some(parse_key(&format!("{:?}", id))))
					}
					Err(_) => CreateRes::Limit,
				}
			}
		}
	}

	/// one creation attempt that is meant to fail (`Kind::fail_shape`); `i` (the position of the operation
	/// in the history) selects among the ways a sound can fail.  Panics are caught here.
	#[allow(unreachable_patterns)]
	fn create_failing(&mut self, i: usize) -> FailRes {
		let sh = self.sh.clone();
		let own_panic = |o: &Outcome<FailRes>| matches!(o, Outcome::Panic(_)) && last_panic().starts_with(PROBE_PANIC);
		let r: Outcome<FailRes> = match self.kind {
			k if k.is_sound() => match i % 3 {
				1 => catch(|| match self.play_any(FailingData(FailHow::Err)) {
					Err(PlaySoundError::IntoSoundError(_)) => FailRes::Failed,
					Err(PlaySoundError::SoundLimitReached) => FailRes::Limit,
					Err(_) => FailRes::Unexpected("unknown play error".into()),
					Ok(()) => FailRes::Unexpected("play succeeded although into_sound failed".into()),
				}),
				0 => catch(|| match self.play_any(StreamingSoundData::from_decoder(BadDecoder)) {
					Err(PlaySoundError::IntoSoundError(_)) => FailRes::Failed,
					Err(PlaySoundError::SoundLimitReached) => FailRes::Limit,
					Err(_) => FailRes::Unexpected("unknown play error".into()),
					Ok(_) => FailRes::Unexpected("play succeeded although the decoder cannot be set up".into()),
				}),
				_ => catch(|| match self.play_any(FailingData(FailHow::Panic)) {
					Err(PlaySoundError::SoundLimitReached) => FailRes::Limit,
					_ => FailRes::Unexpected("play returned although into_sound panicked".into()),
				}),
			},
			k if k.is_sub_track() => {
				// the effect (the probe payload) exists before add_sub_track is called
				let pid = sh.next_pid.fetch_add(1, Ordering::SeqCst);
				catch(|| match self.add_track_any(pid, true) {
					Err(()) => FailRes::Limit,
					Ok(_) => FailRes::Unexpected("the track was created although an effect's init panicked".into()),
				})
			}
			Kind::SendTrack => {
				let pid = sh.next_pid.fetch_add(1, Ordering::SeqCst);
				let b = SendTrackBuilder::new().with_effect(ProbeEffectBuilder { pid, sh: sh.clone(), record_input: true, fail_init: true });
				catch(|| match self.mgr.add_send_track(b) {
					Err(_) => FailRes::Limit,
					Ok(_) => FailRes::Unexpected("the send track was created although an effect's init panicked".into()),
				})
			}
			Kind::Modulator => catch(|| match self.mgr.add_modulator(ProbeModBuilder { sh: sh.clone(), fail: true }) {
				Err(_) => FailRes::Limit,
				Ok(_) => FailRes::Unexpected("the modulator was created although its builder panicked".into()),
			}),
			_ => Outcome::Ok(FailRes::Unexpected("this kind has no failing creation".into())),
		};
		if own_panic(&r) {
			return FailRes::Failed;
		}
		match r {
			Outcome::Ok(x) => x,
			Outcome::Panic(_) => FailRes::Unexpected(format!("foreign panic: {}", last_panic())),
			Outcome::Hang => FailRes::Unexpected("hang".into()),
		}
	}

	/// the environment marks payload `p` for removal (handle dropped / `finished()` becomes true)
	fn mark(&mut self, p: usize) {
		for (pid, f) in &self.flags {
			if *pid == p {
				f.store(true, Ordering::SeqCst);
			}
		}
		for (pid, h) in self.clocks.iter_mut() {
			if *pid == p {
				drop(h.take());
			}
		}
		for (pid, h) in self.listeners.iter_mut() {
			if *pid == p {
				drop(h.take());
			}
		}
		for (pid, h) in self.tracks.iter_mut() {
			if *pid == p {
				drop(h.take());
			}
		}
		for (pid, h) in self.sends.iter_mut() {
			if *pid == p {
				drop(h.take());
			}
		}
		for (pid, h) in self.builtin.iter_mut() {
			if *pid == p {
				drop(h.take());
			}
		}
		for (pid, hs) in self.inner_tracks.iter_mut() {
			if *pid == p {
				hs.clear();
			}
		}
	}

	/// pause / resume / resume-at-never the track that owns the storage
	fn parent_op(&mut self, what: u8) {
		let instant = Tween { duration: std::time::Duration::ZERO, ..Default::default() };
		let never = kira::StartTime::ClockTime(ClockTime { clock: self.idle_clock.as_ref().map(|c| c.id()).expect("idle clock"), ticks: 1, fraction: 0.0 });
		if let Some(t) = self.parent.as_mut() {
			match what {
				0 => t.pause(instant),
				1 => t.resume(instant),
				_ => t.resume_at(never, instant),
			}
		}
		if let Some(t) = self.parent_sp.as_mut() {
			match what {
				0 => t.pause(instant),
				1 => t.resume(instant),
				_ => t.resume_at(never, instant),
			}
		}
	}

	/// give resource `p` something to do through its handle (`Op::Busy`); every choice leaves the other
	/// observables alone (a tweener moves from its own value to its own value, an LFO of amplitude 0 changes its
	/// frequency, …).  Returns false if the handle is gone (invalid history)
	fn busy(&mut self, p: usize, what: u8) -> bool {
		use std::time::Duration;
		let long = Duration::from_secs(60);
		let short = Duration::from_millis(10);
		let own = 1000.0 + p as f64;
		let never = match (self.kind, self.idle_clock.as_ref()) {
			(_, Some(c)) => ClockTime { clock: c.id(), ticks: 1, fraction: 0.0 },
			// clocks: a time of the clock itself that is ages away (and never comes while it is stopped)
			_ => match self.clocks.iter().find(|(pid, h)| *pid == p && h.is_some()) {
				Some((_, Some(h))) => ClockTime { clock: h.id(), ticks: 1 << 40, fraction: 0.0 },
				_ => return false,
			},
		};
		let tween = match what % 4 {
			0 => Tween { duration: long, ..Default::default() },
			1 => Tween { start_time: kira::StartTime::Delayed(long), duration: short, ..Default::default() },
			2 => Tween { start_time: kira::StartTime::ClockTime(never), duration: short, ..Default::default() },
			// 2 ms: over within the next callback (4 frames at 1 kHz)
			_ => Tween { duration: Duration::from_millis(2), ..Default::default() },
		};
		let alt = what >= 4;
		for (pid, h) in self.builtin.iter_mut() {
			if *pid == p {
				match h {
					Some(BuiltinMod::Tweener(t)) => t.set(own, tween),
					Some(BuiltinMod::Lfo(l)) => {
						if alt {
							l.set_amplitude(0.0, tween)
						} else {
							l.set_frequency(3.0, tween)
						}
					}
					None => return false,
				}
				return true;
			}
		}
		for (pid, h) in self.clocks.iter_mut() {
			if *pid == p {
				match h {
					Some(c) => {
						if alt {
							c.start();
						}
						c.set_speed(ClockSpeed::TicksPerSecond(2.0), tween);
					}
					None => return false,
				}
				return true;
			}
		}
		for (pid, h) in self.listeners.iter_mut() {
			if *pid == p {
				match h {
					Some(l) => {
						if alt {
							l.set_orientation(mint::Quaternion { v: mint::Vector3 { x: 0.0, y: 1.0, z: 0.0 }, s: 0.0 }, tween)
						} else {
							l.set_position(mint::Vector3 { x: 1.0, y: 2.0, z: 3.0 }, tween)
						}
					}
					None => return false,
				}
				return true;
			}
		}
		for (pid, h) in self.tracks.iter_mut() {
			if *pid == p {
				// a fade-out that takes a minute / a volume change / paused and waiting for a time that never comes
				match h {
					Some(AnyTrack::Plain(t)) => match (alt, what % 4) {
						(false, _) => t.pause(tween),
						(true, 2) => {
							t.pause(Tween { duration: Duration::ZERO, ..Default::default() });
							t.resume_at(kira::StartTime::ClockTime(never), Tween { duration: short, ..Default::default() });
						}
						(true, _) => t.set_volume(Decibels(-6.0), tween),
					},
					Some(AnyTrack::Spatial(t)) => match (alt, what % 4) {
						(false, _) => t.pause(tween),
						(true, 2) => {
							t.pause(Tween { duration: Duration::ZERO, ..Default::default() });
							t.resume_at(kira::StartTime::ClockTime(never), Tween { duration: short, ..Default::default() });
						}
						(true, _) => t.set_position(mint::Vector3 { x: 1.0, y: 2.0, z: 3.0 }, tween),
					},
					None => return false,
				}
				return true;
			}
		}
		for (pid, h) in self.sends.iter_mut() {
			if *pid == p {
				match h {
					Some(t) => t.set_volume(Decibels(-6.0), tween),
					None => return false,
				}
				return true;
			}
		}
		false
	}

	/// drop the handle of the track that owns the storage
	fn abandon(&mut self) {
		drop(self.parent.take());
	}

	/// one device callback on another OS thread
	fn callback(&mut self) -> Outcome<()> {
		lk(&self.sh.order).clear();
		lk(&self.sh.keys).clear();
		lk(&self.sh.recv).clear();
		*lk(&self.sh.q_mod) = None;
		*lk(&self.sh.q_clock) = None;
		for q in lk(&self.sh.q_listener).iter_mut() {
			*q = None;
		}
		let b = self.mgr.backend_mut();
		std::thread::scope(|sc| {
			sc.spawn(move || {
				catch(|| {
					b.callback(4, 2);
				})
			})
			.join()
		})
		.unwrap_or(Outcome::Panic(7))
	}

	fn order(&self) -> Vec<usize> {
		lk(&self.sh.order).clone()
	}
	fn keys(&self) -> Vec<usize> {
		lk(&self.sh.keys).clone()
	}
	/// for every id ever returned, in creation order: 0 does not resolve, 1 resolves (to its own
	/// payload where that can be told), 2 resolves to another payload — or the two APIs that take the id
	/// disagree (modulators: `Info::modulator_value` and a `Parameter` linked with `Value::FromModulator`;
	/// clocks: `Info::clock_info` and `Info::when_to_start` of a `ClockTime` of that clock)
	fn resolve(&self) -> Vec<i128> {
		let n = self.created.len();
		match self.kind {
			Kind::Modulator | Kind::ModBuiltin => {
				let q = lk(&self.sh.q_mod).clone().unwrap_or_default();
				(0..n)
					.map(|j| {
						let own = 1000.0 + self.created[j] as f64;
						match q.get(j).copied() {
							None => 0,
							// the linked parameter keeps its last value (its own modulator's, or the default)
							Some((None, linked)) => {
								if linked == own || linked == PARAM_DEFAULT {
									0
								} else {
									2
								}
							}
							Some((Some(v), linked)) => {
								if v == own && linked == own {
									1
								} else {
									2
								}
							}
						}
					})
					.collect()
			}
			Kind::Clock => {
				let q = lk(&self.sh.q_clock).clone().unwrap_or_default();
				(0..n)
					.map(|j| match q.get(j).copied().unwrap_or((false, false)) {
						(true, true) => 1,
						(false, false) => 0,
						_ => 2,
					})
					.collect()
			}
			Kind::Listener => {
				let q = lk(&self.sh.q_listener).clone();
				(0..n).map(|j| if q.get(j).copied().flatten().unwrap_or(false) { 1 } else { 0 }).collect()
			}
			Kind::SendTrack => {
				let recv = lk(&self.sh.recv).clone();
				(0..n)
					.map(|j| {
						let mut reached: Vec<usize> = vec![];
						let mut garbled = false;
						for (pid, v) in &recv {
							let scaled = *v as f64 * 16777216.0;
							if !(scaled >= 0.0 && scaled < 16777216.0 && scaled.fract() == 0.0) {
								garbled = true;
								continue;
							}
							let bits = scaled as u64;
							if j < 24 && (bits >> (23 - j)) & 1 == 1 {
								reached.push(*pid);
							}
						}
						if garbled {
							2
						} else if reached.is_empty() {
							0
						} else if reached.len() == 1 && reached[0] == self.created[j] {
							1
						} else {
							2
						}
					})
					.collect()
			}
			_ => vec![],
		}
	}
}

// ------------------------------------------------------------------------------------------------
// reference bookkeeping (the property's own notion of "alive"), used by generators and monitors
// ------------------------------------------------------------------------------------------------

#[derive(Clone, Copy, PartialEq, Eq)]
enum RState {
	/// created, not yet seen by a callback (in the hand-over queue)
	Queued,
	Present,
	Removed,
}
#[derive(Clone)]
struct RRes {
	pid: usize,
	marked: bool,
	st: RState,
}
#[derive(Clone)]
struct RefSim {
	cap: usize,
	prebuild: bool,
	next: usize,
	res: Vec<RRes>,
	rejected: Vec<usize>,
	removed_n: usize,
	rejected_n: usize,
	reuse: bool,
	/// (late, built) of the kind's failing creation
	fail_shape: Option<(bool, bool)>,
	/// failed creation attempts
	failed_n: usize,
	/// successful creations after a failed attempt
	created_after_failure: usize,
	/// slots lost to user code that unwound with the key reserved (`late` failures only; what the code does
	/// on the unchanged tree, see the notes of the run)
	leaked: usize,
}
impl RefSim {
	fn new(kind: Kind, cap: usize) -> Self {
		RefSim {
			cap,
			prebuild: kind.prebuild(),
			next: 0,
			res: vec![],
			rejected: vec![],
			removed_n: 0,
			rejected_n: 0,
			reuse: false,
			fail_shape: kind.fail_shape(),
			failed_n: 0,
			created_after_failure: 0,
			leaked: 0,
		}
	}
	/// alive or awaiting removal
	fn live(&self) -> usize {
		self.res.iter().filter(|r| r.st != RState::Removed).count()
	}
	/// what the count has to be: created - removed (+ the slots of the `late` failures)
	fn count(&self) -> usize {
		self.live() + self.leaked
	}
	fn would_succeed(&self) -> bool {
		self.count() < self.cap
	}
	/// a creation attempt that fails; returns false if the limit error has to come first (key reserved
	/// first and no slot available: the failing user code never runs)
	fn fail(&mut self) -> bool {
		let (late, built) = self.fail_shape.unwrap_or((false, false));
		if late && !self.would_succeed() {
			self.record_create(false);
			return false;
		}
		self.failed_n += 1;
		if late {
			self.leaked += 1;
		}
		if built {
			self.rejected.push(self.next);
			self.next += 1;
		}
		true
	}
	fn record_create(&mut self, success: bool) {
		if success {
			if self.removed_n > 0 {
				self.reuse = true;
			}
			if self.failed_n > 0 {
				self.created_after_failure += 1;
			}
			self.res.push(RRes { pid: self.next, marked: false, st: RState::Queued });
			self.next += 1;
		} else {
			self.rejected_n += 1;
			if self.prebuild {
				self.rejected.push(self.next);
				self.next += 1;
			}
		}
	}
	fn create(&mut self) -> bool {
		let ok = self.would_succeed();
		self.record_create(ok);
		ok
	}
	fn markable(&self) -> Vec<usize> {
		self.res.iter().filter(|r| !r.marked).map(|r| r.pid).collect()
	}
	fn mark(&mut self, p: usize) {
		for r in self.res.iter_mut() {
			if r.pid == p {
				r.marked = true;
			}
		}
	}
	fn callback(&mut self) {
		for r in self.res.iter_mut() {
			match r.st {
				RState::Present if r.marked => {
					r.st = RState::Removed;
					self.removed_n += 1;
				}
				RState::Queued => r.st = RState::Present,
				_ => {}
			}
		}
	}
	fn present(&self) -> Vec<usize> {
		self.res.iter().filter(|r| r.st == RState::Present).map(|r| r.pid).collect()
	}
	fn may_be_dropped(&self, p: usize) -> bool {
		self.rejected.contains(&p) || self.res.iter().any(|r| r.pid == p && r.st == RState::Removed)
	}
	fn nontrivial(&self) -> bool {
		(self.removed_n > 0 && (self.rejected_n > 0 || self.reuse)) || self.created_after_failure > 0
	}
}

// ------------------------------------------------------------------------------------------------
// one history on the implementation
// ------------------------------------------------------------------------------------------------

struct HistOut {
	obs: Vec<i128>,
	fail: Option<String>,
	nontrivial: bool,
}
/// failing creation attempts / of these: user code that unwound with the key reserved and lost the slot
static FAILED_CREATIONS: AtomicUsize = AtomicUsize::new(0);
static LATE_LEAKS: AtomicUsize = AtomicUsize::new(0);
/// resources whose handle was dropped after they had been given something to do (`Op::Busy`)
static BUSY_DROPS: AtomicUsize = AtomicUsize::new(0);
const BUSY_LEGEND: &str = "OBusy p w = through the handle of p, w % 4 = 0: a 60 s tween, 1: a tween starting in 60 s, 2: a tween starting at a clock time that never comes, 3: a 2 ms tween; tweeners: set(own value), LFOs: frequency / amplitude, clocks: speed (w >= 4: started first), listeners: position / orientation, tracks: pause with that fade (w >= 4: volume / position, 6: paused and resume_at never), send tracks: volume";

fn run_history(kind: Kind, cap: usize, ops: &[Op]) -> HistOut {
	run_history_f(kind, cap, ops, None)
}
/// `flavour`: the way every failing `play` of the history fails (0 a streaming sound whose decoder cannot
/// seek, 1 `into_sound` returns `Err`, 2 `into_sound` panics) instead of the choice by position
fn run_history_f(kind: Kind, cap: usize, ops: &[Op], flavour: Option<usize>) -> HistOut {
	run_history_b(kind, cap, ops, flavour, None)
}
/// `born` (sound kinds): every `OCreate` that is directly followed by `OMark` of the payload it creates is a
/// sound that is ALREADY finished when `into_sound` returns (`BORN_LEGEND[born]`), instead of a probe sound
/// whose flag is set right after `play` — for the property (and the model) the same thing: created, counted,
/// refused on a full track, picked up by the next callback, removed by the one after
fn run_history_b(kind: Kind, cap: usize, ops: &[Op], flavour: Option<usize>, born: Option<u8>) -> HistOut {
	let mask = kind.mask();
	let has = |b: i128| mask & b != 0;
	let mut w = World::new(kind, cap);
	let mut rf = RefSim::new(kind, cap);
	let mut obs: Vec<i128> = vec![];
	let mut fail: Option<String> = None;
	let mut flag = |i: usize, what: String| {
		if fail.is_none() {
			let at = if i == usize::MAX { "start".to_string() } else { format!("op #{i} ({})", ops_term_of(kind, &ops[i..i + 1])) };
			fail = Some(format!("{} capacity {} ops [{}] at {}: {}", kind.name(), cap, ops_term_of(kind, ops), at, what));
		}
	};
	if has(M_CAP) {
		let c = w.capacity();
		obs.push(c as i128);
		if c != cap {
			flag(usize::MAX, format!("reported capacity {c} differs from the configured capacity"));
		}
	}
	let mut dropped: HashSet<usize> = HashSet::new();
	let mut inner_seen = 0usize;
	// the count can be asked for as long as the handle that owns the storage exists
	let mut len_ok = has(M_LEN);
	let mut abandoned = false;
	let mut keys_seen: HashSet<(i128, i128)> = HashSet::new();
	// what each resource was last given to do through its handle (`Op::Busy`), for the messages
	let mut busy: std::collections::BTreeMap<usize, u8> = Default::default();
	// per id (creation order): has resolved once / has stopped resolving after that
	let mut resolved_once: Vec<bool> = vec![];
	let mut stopped: Vec<bool> = vec![];
	for (i, op) in ops.iter().enumerate() {
		let d0 = lk(&w.sh.drops).len();
		match *op {
			Op::Create => {
				if abandoned {
					flag(i, "invalid history: a creation after the owner's handle was dropped".to_string());
					break;
				}
				let expect_ok = rf.would_succeed();
				let alive = rf.count();
				if let Some(how) = born {
					if kind.is_sound() && ops.get(i + 1) == Some(&Op::Mark(rf.next)) {
						w.born_next = Some(how);
					}
				}
				let r = catch(|| w.create());
				let success = match r {
					Outcome::Ok(CreateRes::Created(k)) => {
						obs.push(0);
						if let Some((a, b)) = k {
							if has(M_KEY) {
								obs.push(a);
								obs.push(b);
							}
							if !keys_seen.insert((a, b)) {
								flag(i, format!("id (index {a}, generation {b}) was handed out before"));
							}
							if a < 0 || a >= cap as i128 {
								flag(i, format!("id index {a} outside the capacity"));
							}
						}
						if !expect_ok {
							flag(i, format!("create succeeded although {alive} resources are alive or awaiting removal"));
						}
						true
					}
					Outcome::Ok(CreateRes::Limit) => {
						obs.push(1);
						if expect_ok {
							if rf.failed_n > 0 && rf.leaked == 0 {
								flag(
									i,
									format!(
										"limit error although only {alive} of {cap} resources are alive or awaiting removal ({} earlier creation attempts failed; a failed creation must not use up a slot)",
										rf.failed_n
									),
								);
							} else {
								flag(i, format!("limit error although only {alive} resources are alive or awaiting removal"));
							}
						}
						false
					}
					Outcome::Panic(c) => {
						obs.push(2);
						obs.push(c);
						flag(i, format!("create panicked ({}) instead of returning {}", last_panic(), if expect_ok { "Ok" } else { "the limit error" }));
						false
					}
					Outcome::Hang => {
						obs.push(3);
						false
					}
				};
				rf.record_create(success);
				if success {
					resolved_once.push(false);
					stopped.push(false);
				}
			}
			Op::CreateFailing => {
				let (late, _built) = kind.fail_shape().unwrap_or((false, false));
				if abandoned {
					flag(i, "invalid history: a creation after the owner's handle was dropped".to_string());
					break;
				}
				let before = if len_ok { Some(w.len()) } else { None };
				let occupied = rf.count();
				let full = !rf.would_succeed();
				let r = w.create_failing(flavour.unwrap_or(i));
				match &r {
					FailRes::Failed => {
						obs.push(4);
						if late && full {
							flag(i, format!("the user code ran although all {cap} slots are taken ({occupied} alive, awaiting removal or lost)"));
						}
					}
					FailRes::Limit => {
						obs.push(1);
						// before the reservation nothing is asked of the storage: a limit error can only be
						// excused (not demanded) when the storage is in fact full
						if !full {
							flag(i, format!("limit error from a failing creation although only {occupied} of {cap} slots are taken"));
						}
					}
					FailRes::Unexpected(m) => {
						obs.push(5);
						flag(i, format!("failing creation: {m}"));
					}
				}
				if late && matches!(r, FailRes::Limit) {
					rf.record_create(false);
				} else {
					rf.fail();
				}
				if !late {
					// the property: a creation that did not succeed leaves the count exactly as it was
					if let Some(b) = before {
						let a = w.len();
						if a != b {
							flag(i, format!("the count went from {b} to {a} over a creation that FAILED (nothing was created, nothing removed)"));
						}
					}
				}
			}
			Op::Parent(what) => {
				// nothing to do with the storage: no observable, nothing may change
				if !abandoned {
					w.parent_op(what);
				}
				continue;
			}
			Op::Abandon => {
				w.abandon();
				abandoned = true;
				len_ok = false;
				continue;
			}
			Op::Busy(p, what) => {
				// nothing to do with the storage: no observable, nothing may change (in particular not WHEN
				// the resource goes once its handle is dropped)
				if !kind.has_activity() || !w.busy(p, what) {
					flag(i, "invalid history: OBusy on a resource that has no handle (any more)".to_string());
					break;
				}
				busy.insert(p, what);
				continue;
			}
			Op::Mark(p) => {
				w.mark(p);
				rf.mark(p);
			}
			Op::Callback => {
				match w.callback() {
					Outcome::Ok(()) => {}
					Outcome::Panic(c) => {
						obs.push(2);
						obs.push(c);
						flag(i, format!("the callback panicked: {}", last_panic()));
						break;
					}
					Outcome::Hang => {
						obs.push(3);
						break;
					}
				}
				obs.push(0);
				rf.callback();
				let present: BTreeSet<usize> = rf.present().into_iter().collect();
				if has(M_ORDER) {
					let o = w.order();
					obs.push(o.len() as i128);
					obs.extend(o.iter().map(|p| *p as i128));
					let set: BTreeSet<usize> = o.iter().copied().collect();
					if set.len() != o.len() || set != present {
						flag(i, format!("the callback processed payloads {o:?}, expected exactly the set {present:?}"));
					}
				}
				if has(M_KEYS) {
					let k = w.keys();
					obs.push(k.len() as i128);
					obs.extend(k.iter().map(|p| *p as i128));
					let set: BTreeSet<usize> = k.iter().copied().collect();
					if set.len() != k.len() || set != present {
						flag(i, format!("the callback updated payloads {k:?}, expected exactly the set {present:?}"));
					}
				}
				if has(M_RESOLVE) {
					let rs = w.resolve();
					obs.extend(rs.iter().copied());
					for (j, r) in rs.iter().enumerate() {
						let pid = rf.res[j].pid;
						let want = rf.res[j].st == RState::Present;
						if *r == 2 {
							flag(i, format!("the id of payload {pid} resolves to a foreign payload"));
						}
						if *r != 0 && stopped[j] {
							flag(i, format!("stale id: the id of payload {pid} resolves again after it had stopped resolving"));
						}
						if (*r != 0) != want {
							flag(
								i,
								if want {
									format!("the id of payload {pid} does not resolve although the resource was handed over and not removed")
								} else if rf.res[j].st == RState::Removed {
									format!("the id of payload {pid} still resolves after the callback that had to remove it")
								} else {
									format!("the id of payload {pid} resolves before the resource was handed over")
								},
							);
						}
						if *r != 0 {
							resolved_once[j] = true;
						} else if resolved_once[j] {
							stopped[j] = true;
						}
					}
				}
			}
		}
		// suffix
		if len_ok {
			let n = w.len();
			obs.push(n as i128);
			if n != rf.count() {
				if rf.leaked > 0 {
					flag(i, format!("reported count {n}, but created - removed = {} (+ {} slots lost to user code that unwound with the key reserved)", rf.live(), rf.leaked));
				} else if rf.failed_n > 0 {
					flag(
						i,
						format!("reported count {n}, but created - removed = {} ({} creation attempts failed before anything was created: they must not be counted)", rf.live(), rf.failed_n),
					);
				} else {
					flag(i, format!("reported count {n}, but created - removed = {}", rf.live()));
				}
			}
			if n > cap {
				flag(i, format!("reported count {n} exceeds the capacity"));
			}
		}
		let new_drops: Vec<(usize, bool)> = lk(&w.sh.drops)[d0..].to_vec();
		if has(M_DROPS) {
			obs.push(new_drops.len() as i128);
			for (p, other) in &new_drops {
				obs.push(*p as i128);
				obs.push(if *other { 1 } else { 0 });
			}
		}
		for (p, other) in &new_drops {
			if *other {
				flag(i, format!("payload {p} was destroyed on the callback thread"));
			}
			if !dropped.insert(*p) {
				flag(i, format!("payload {p} was destroyed twice"));
			}
			if !rf.may_be_dropped(*p) {
				flag(i, format!("payload {p} was destroyed although it was neither removed nor rejected"));
			}
		}
		if kind.is_sub_track() {
			let inner: Vec<(usize, bool)> = lk(&w.sh.inner_drops)[inner_seen..].to_vec();
			inner_seen += inner.len();
			for (owner, other) in &inner {
				if *other {
					flag(i, format!("the sound playing on track payload {owner} was destroyed on the callback thread"));
				}
				if !new_drops.iter().any(|(p, _)| p == owner) {
					flag(i, format!("the sound playing on track payload {owner} was destroyed, but not together with its track"));
				}
			}
			for (p, _) in &new_drops {
				if rf.res.iter().any(|r| r.pid == *p) && !inner.iter().any(|(o, _)| o == p) {
					flag(i, format!("track payload {p} was destroyed without the sound that was playing on it"));
				}
			}
		}
	}
	// the owner's handle is gone: whatever the storage removed since then is parked in its unused-ring
	// (theorem abandoned_owner_parks_payloads) and has to be destroyed WITH the owner, on a caller's thread:
	// let everything finish, let the mixer remove the owner, and drain the mixer's unused-ring from here
	if abandoned && fail.is_none() {
		let pids: Vec<usize> = w.created.clone();
		for p in &pids {
			w.mark(*p);
		}
		let mut ok = true;
		for _ in 0..4 {
			if !matches!(w.callback(), Outcome::Ok(())) {
				ok = false;
			}
		}
		let d0 = lk(&w.sh.drops).len();
		let i0 = lk(&w.sh.inner_drops).len();
		let at_end = |what: String| format!("{} capacity {} ops [{}] after the history (everything marked, 4 callbacks, then a top-level add_sub_track on the caller's thread): {}", kind.name(), cap, ops_term_of(kind, ops), what);
		if !ok {
			fail = Some(at_end(format!("a callback panicked: {}", last_panic())));
		} else if lk(&w.sh.drops)[..d0].iter().chain(lk(&w.sh.inner_drops)[..i0].iter()).any(|(_, other)| *other) {
			fail = Some(at_end("a payload was destroyed on the callback thread".to_string()));
		} else {
			let _t = catch(|| w.mgr.add_sub_track(TrackBuilder::new()).ok());
			let all: Vec<(usize, bool)> = lk(&w.sh.drops).clone();
			let inner: Vec<(usize, bool)> = lk(&w.sh.inner_drops).clone();
			if all.iter().chain(inner.iter()).any(|(_, other)| *other) {
				fail = Some(at_end("a payload was destroyed on another thread than the caller's".to_string()));
			} else {
				let gone: HashSet<usize> = all.iter().map(|(p, _)| *p).collect();
				if gone.len() != all.len() {
					fail = Some(at_end("a payload was destroyed twice".to_string()));
				}
				let missing: Vec<usize> = pids.iter().copied().filter(|p| !gone.contains(p)).collect();
				if !missing.is_empty() && fail.is_none() {
					fail = Some(at_end(format!("payloads {missing:?} are still not destroyed although their owner was removed and handed back")));
				}
			}
		}
	}
	if let Some(how) = born {
		let bad = lk(&w.sh.born_not_finished).clone();
		if !bad.is_empty() && fail.is_none() {
			fail = Some(format!(
				"{} capacity {} ops [{}]: invalid history: payloads {bad:?} ({}) were NOT finished when into_sound returned",
				kind.name(),
				cap,
				ops_term_of(kind, ops),
				BORN_LEGEND[how as usize % BORN_HOW]
			));
		}
		if let Some(f) = fail.as_mut() {
			f.push_str(&format!(
				" [every OCreate directly followed by OMark of the payload it creates is a sound that is finished at creation: {}; such a sound is created like any other: it takes a slot and is counted until the second callback after its creation, and a full track refuses it]",
				BORN_LEGEND[how as usize % BORN_HOW]
			));
		}
	}
	if let Some(f) = fail.as_mut() {
		let b: Vec<String> = rf.res.iter().filter(|r| r.marked).filter_map(|r| busy.get(&r.pid).map(|w| format!("payload {}: {}", r.pid, busy_desc(kind, r.pid, *w)))).collect();
		if !b.is_empty() {
			f.push_str(&format!(
				" [given something to do through its handle before the handle was dropped — {} — a dropped resource is removed at the next callback whatever it is doing at that moment]",
				b.join("; ")
			));
		}
	}
	let nontrivial = rf.nontrivial() || abandoned || busy.keys().any(|p| rf.res.iter().any(|r| r.pid == *p && r.st == RState::Removed));
	BUSY_DROPS.fetch_add(rf.res.iter().filter(|r| r.marked && busy.contains_key(&r.pid)).count(), Ordering::SeqCst);
	FAILED_CREATIONS.fetch_add(rf.failed_n, Ordering::SeqCst);
	LATE_LEAKS.fetch_add(rf.leaked, Ordering::SeqCst);
	drop(w);
	HistOut { obs, fail, nontrivial }
}

// ------------------------------------------------------------------------------------------------
// generators
// ------------------------------------------------------------------------------------------------

/// what `World::busy(p, w)` does to payload `p` of `kind`, in words
fn busy_desc(kind: Kind, p: usize, w: u8) -> String {
	let tween = ["a tween of 60 s", "a 10 ms tween that starts in 60 s", "a 10 ms tween that starts at a clock time that never comes", "a tween of 2 ms"][(w % 4) as usize];
	let alt = w >= 4;
	match kind {
		Kind::ModBuiltin if p % 2 == 0 => format!("TweenerHandle::set(its own value, {tween})"),
		Kind::ModBuiltin => format!("LfoHandle::set_{}(.., {tween})", if alt { "amplitude" } else { "frequency" }),
		Kind::Clock => format!("ClockHandle::{}set_speed(2 ticks/s, {tween})", if alt { "start(); " } else { "" }),
		Kind::Listener => format!("ListenerHandle::set_{}(.., {tween})", if alt { "orientation" } else { "position" }),
		Kind::SendTrack => format!("SendTrackHandle::set_volume(-6 dB, {tween})"),
		_ => match (alt, w % 4) {
			(false, _) => format!("track handle pause({tween})"),
			(true, 2) => "track handle pause(instantly); resume_at(a clock time that never comes)".to_string(),
			(true, _) => format!("track handle set_volume / set_position(.., {tween})"),
		},
	}
}

/// builds a history whose `Mark` operations are valid w.r.t. the reference bookkeeping
struct Gen {
	rf: RefSim,
	ops: Vec<Op>,
	max_success: usize,
	kind: Kind,
	abandoned: bool,
}
impl Gen {
	fn new(kind: Kind, cap: usize) -> Self {
		Gen { rf: RefSim::new(kind, cap), ops: vec![], max_success: kind.max_success(), kind, abandoned: false }
	}
	fn create(&mut self) {
		if self.abandoned {
			self.callback();
			return;
		}
		if self.rf.res.len() >= self.max_success && self.rf.would_succeed() {
			self.callback();
			return;
		}
		self.rf.create();
		self.ops.push(Op::Create);
	}
	fn callback(&mut self) {
		self.rf.callback();
		self.ops.push(Op::Callback);
	}
	/// a creation directly followed by the mark of the payload it creates (a sound finished at creation in
	/// the born-finished histories); on a full storage the creation is refused and the mark names nothing
	fn born(&mut self) {
		if self.abandoned {
			return;
		}
		let p = self.rf.next;
		self.rf.create();
		self.ops.push(Op::Create);
		self.rf.mark(p);
		self.ops.push(Op::Mark(p));
	}
	/// pause (0) / resume (1) / resume-at-never (2) the track that owns the storage (kinds that have one)
	fn parent(&mut self, what: u8) {
		if self.kind.has_parent() && !self.abandoned {
			self.ops.push(Op::Parent(what));
		}
	}
	/// drop the owner's handle (kinds where the storage can outlive it); no creation afterwards
	fn abandon(&mut self) {
		if self.kind.can_abandon() && !self.abandoned {
			self.abandoned = true;
			self.ops.push(Op::Abandon);
		}
	}
	/// a failing creation (nothing for the kinds that have none)
	fn fail(&mut self) {
		if self.abandoned {
			return;
		}
		if self.rf.fail_shape.is_some() {
			self.rf.fail();
			self.ops.push(Op::CreateFailing);
		}
	}
	fn mark(&mut self, p: usize) {
		self.rf.mark(p);
		self.ops.push(Op::Mark(p));
	}
	fn mark_oldest(&mut self) {
		if let Some(p) = self.rf.markable().first().copied() {
			self.mark(p);
		}
	}
	/// give `p` something to do through its handle (kinds that have one; the handle must still exist)
	fn busy(&mut self, p: usize, what: u8) {
		if self.kind.has_activity() && self.rf.markable().contains(&p) {
			self.ops.push(Op::Busy(p, what));
		}
	}
	fn busy_newest(&mut self, what: u8) {
		if let Some(p) = self.rf.markable().last().copied() {
			self.busy(p, what);
		}
	}
	fn busy_all(&mut self, what: u8) {
		for p in self.rf.markable() {
			self.busy(p, what);
		}
	}
	fn busy_random(&mut self, r: &mut Rng) {
		let m = self.rf.markable();
		if !m.is_empty() {
			let p = *r.pick(&m);
			let w = r.below(8) as u8;
			self.busy(p, w);
		}
	}
	fn mark_newest(&mut self) {
		if let Some(p) = self.rf.markable().last().copied() {
			self.mark(p);
		}
	}
	fn mark_random(&mut self, r: &mut Rng) {
		let m = self.rf.markable();
		if !m.is_empty() {
			let p = *r.pick(&m);
			self.mark(p);
		}
	}
	fn mark_all(&mut self) {
		for p in self.rf.markable() {
			self.mark(p);
		}
	}
	fn fill(&mut self) {
		if self.abandoned {
			return;
		}
		let mut guard = 0;
		while self.rf.would_succeed() && self.rf.res.len() < self.max_success && guard < 300 {
			self.create();
			guard += 1;
		}
	}
}

/// all histories of exactly `len` operations over {Create, Callback, Mark oldest, Mark newest}, or — with
/// failures — over these and CreateFailing, restricted to the histories with at least one failing creation
fn enumerate(kind: Kind, cap: usize, len: usize, with_failures: bool) -> Vec<Vec<Op>> {
	fn go(rf: &RefSim, ops: &mut Vec<Op>, len: usize, fails: bool, out: &mut Vec<Vec<Op>>) {
		if ops.len() == len {
			out.push(ops.clone());
			return;
		}
		{
			let mut r2 = rf.clone();
			r2.create();
			ops.push(Op::Create);
			go(&r2, ops, len, fails, out);
			ops.pop();
		}
		{
			let mut r2 = rf.clone();
			r2.callback();
			ops.push(Op::Callback);
			go(&r2, ops, len, fails, out);
			ops.pop();
		}
		if fails {
			let mut r2 = rf.clone();
			r2.fail();
			ops.push(Op::CreateFailing);
			go(&r2, ops, len, fails, out);
			ops.pop();
		}
		let m = rf.markable();
		let mut targets: Vec<usize> = vec![];
		if let Some(p) = m.first() {
			targets.push(*p);
		}
		if let Some(p) = m.last() {
			if !targets.contains(p) {
				targets.push(*p);
			}
		}
		for p in targets {
			let mut r2 = rf.clone();
			r2.mark(p);
			ops.push(Op::Mark(p));
			go(&r2, ops, len, fails, out);
			ops.pop();
		}
	}
	let mut out = vec![];
	go(&RefSim::new(kind, cap), &mut vec![], len, with_failures && kind.fail_shape().is_some(), &mut out);
	if with_failures {
		out.retain(|ops| ops.contains(&Op::CreateFailing));
	}
	out
}

/// all histories of exactly `len` operations over {Create, Callback, Mark oldest, Mark newest, Busy newest,
/// Busy oldest} (activity `what`) in which some resource is made busy, then sees a callback, then loses its
/// handle, then sees another callback — the histories in which "whatever it is doing" has a meaning
fn enumerate_busy(kind: Kind, cap: usize, len: usize, what: u8) -> Vec<Vec<Op>> {
	fn relevant(ops: &[Op]) -> bool {
		for (i, o) in ops.iter().enumerate() {
			if let Op::Busy(p, _) = o {
				let cb = ops[i..].iter().position(|x| *x == Op::Callback).map(|k| i + k);
				if let Some(c) = cb {
					if let Some(m) = ops[c..].iter().position(|x| *x == Op::Mark(*p)).map(|k| c + k) {
						if ops[m..].contains(&Op::Callback) {
							return true;
						}
					}
				}
			}
		}
		false
	}
	fn go(rf: &RefSim, ops: &mut Vec<Op>, len: usize, what: u8, out: &mut Vec<Vec<Op>>) {
		if ops.len() == len {
			if relevant(ops) {
				out.push(ops.clone());
			}
			return;
		}
		// at least Busy, Callback, Mark, Callback have to fit in
		{
			let mut r2 = rf.clone();
			r2.create();
			ops.push(Op::Create);
			go(&r2, ops, len, what, out);
			ops.pop();
		}
		{
			let mut r2 = rf.clone();
			r2.callback();
			ops.push(Op::Callback);
			go(&r2, ops, len, what, out);
			ops.pop();
		}
		let m = rf.markable();
		let mut targets: Vec<usize> = vec![];
		if let Some(p) = m.first() {
			targets.push(*p);
		}
		if let Some(p) = m.last() {
			if !targets.contains(p) {
				targets.push(*p);
			}
		}
		for p in targets {
			let mut r2 = rf.clone();
			r2.mark(p);
			ops.push(Op::Mark(p));
			go(&r2, ops, len, what, out);
			ops.pop();
			// one activity per resource is enough
			if !ops.iter().any(|o| matches!(o, Op::Busy(q, _) if *q == p)) {
				ops.push(Op::Busy(p, what));
				go(rf, ops, len, what, out);
				ops.pop();
			}
		}
	}
	let mut out = vec![];
	if kind.has_activity() {
		go(&RefSim::new(kind, cap), &mut vec![], len, what, &mut out);
	}
	out
}

/// every history "prefix; OAbandon; tail": prefix = an enumerated history of at most `l1` operations, tail =
/// every sequence of exactly `l2` operations over {Callback, Mark oldest, Mark newest} (no creation is
/// possible once the owner's handle is gone)
fn enumerate_abandon(kind: Kind, cap: usize, l1: usize, l2: usize) -> Vec<Vec<Op>> {
	fn tail(rf: &RefSim, ops: &mut Vec<Op>, left: usize, out: &mut Vec<Vec<Op>>) {
		if left == 0 {
			out.push(ops.clone());
			return;
		}
		{
			let mut r2 = rf.clone();
			r2.callback();
			ops.push(Op::Callback);
			tail(&r2, ops, left - 1, out);
			ops.pop();
		}
		let m = rf.markable();
		let mut targets: Vec<usize> = vec![];
		if let Some(p) = m.first() {
			targets.push(*p);
		}
		if let Some(p) = m.last() {
			if !targets.contains(p) {
				targets.push(*p);
			}
		}
		for p in targets {
			let mut r2 = rf.clone();
			r2.mark(p);
			ops.push(Op::Mark(p));
			tail(&r2, ops, left - 1, out);
			ops.pop();
		}
	}
	let mut out = vec![];
	for len in 1..=l1 {
		for prefix in enumerate(kind, cap, len, false) {
			let mut rf = RefSim::new(kind, cap);
			for op in &prefix {
				match op {
					Op::Create => {
						rf.create();
					}
					Op::Mark(p) => rf.mark(*p),
					Op::Callback => rf.callback(),
					_ => {}
				}
			}
			// something has to be alive for the storage to outlive the handle in an interesting way
			if rf.live() == 0 {
				continue;
			}
			let mut ops = prefix.clone();
			ops.push(Op::Abandon);
			tail(&rf, &mut ops, l2, &mut out);
		}
	}
	out
}

fn gen_random(r: &mut Rng, kind: Kind, cap: usize) -> Vec<Op> {
	let len = r.range(5, 40) as usize;
	let mut g = Gen::new(kind, cap);
	let choices = if kind.fail_shape().is_some() { 18 } else { 13 };
	// the owner's handle goes away somewhere in the history (half of the histories of the kinds that can)
	let abandon_at = if kind.can_abandon() && r.chance(1, 2) { r.range(2, len as i64) as usize } else { usize::MAX };
	while g.ops.len() < len {
		if g.ops.len() >= abandon_at {
			g.abandon();
		}
		if kind.has_parent() && r.chance(1, 5) {
			// the owner is paused / resumed / left waiting: the bookkeeping must not care
			match r.below(6) {
				0 | 1 | 2 => g.parent(0),
				3 | 4 => g.parent(1),
				_ => g.parent(2),
			}
			if r.chance(2, 3) {
				g.callback();
			}
		}
		if kind.has_activity() && r.chance(1, 4) {
			// a resource is given something to do that outlasts the history (or a callback): when it goes
			// once its handle is dropped must not depend on it
			if r.chance(1, 4) {
				let w = r.below(8) as u8;
				g.busy_all(w);
			} else {
				g.busy_random(r);
			}
			if r.chance(2, 3) {
				g.callback();
			}
		}
		match r.below(choices) {
			13 | 14 => g.fail(),
			15 => {
				// as many failures as there are slots (or a few), then a creation
				let k = if cap <= 16 { cap.max(1) as u64 } else { 1 + r.below(5) };
				for _ in 0..k {
					g.fail();
					if r.chance(1, 3) {
						g.callback();
					}
				}
				g.create();
			}
			16 => {
				// a failure while a removal is pending / right after a slot was freed
				g.mark_random(r);
				g.fail();
				g.callback();
				g.fail();
				g.create();
			}
			17 => {
				// a failure on a full storage, then free one slot and re-create
				if cap <= 16 {
					g.fill();
				}
				g.fail();
				g.create();
				g.mark_random(r);
				g.callback();
				g.callback();
				g.fail();
				g.create();
				g.create();
			}
			0 | 1 => g.create(),
			2 => {
				// create burst around the limit
				let k = 1 + r.below(cap.min(5) as u64 + 1);
				for _ in 0..k {
					g.create();
				}
			}
			3 => {
				// fill to the limit and one more
				if cap <= 16 {
					g.fill();
				}
				g.create();
			}
			4 => g.mark_random(r),
			5 => {
				let k = 1 + r.below(3);
				for _ in 0..k {
					g.mark_random(r);
				}
			}
			6 => g.callback(),
			7 => {
				g.callback();
				g.callback();
			}
			8 => {
				// create immediately after mark, no callback in between
				g.mark_random(r);
				g.create();
			}
			9 => {
				g.create();
				g.callback();
				g.mark_newest();
				g.create();
			}
			10 => {
				g.mark_random(r);
				g.callback();
				g.create();
			}
			11 => {
				if r.chance(1, 2) {
					g.mark_oldest();
				} else {
					g.mark_all();
				}
			}
			_ => {
				g.create();
				g.mark_newest();
				g.callback();
			}
		}
	}
	g.ops
}

fn gen_boundary(kind: Kind, cap: usize) -> Vec<Vec<Op>> {
	let mut out: Vec<Vec<Op>> = vec![];
	if cap == 0 {
		out.push(vec![Op::Create]);
		out.push(vec![Op::Create, Op::Create]);
		out.push(vec![Op::Callback, Op::Create]);
		out.push(vec![Op::Create, Op::Callback, Op::Create, Op::Callback]);
		out.push(vec![Op::Callback, Op::Callback, Op::Create, Op::Create, Op::Callback, Op::Create]);
		if kind.fail_shape().is_some() {
			out.push(vec![Op::CreateFailing]);
			out.push(vec![Op::CreateFailing, Op::Create, Op::Callback, Op::CreateFailing, Op::Create]);
		}
		return out;
	}
	let big = cap > 16;
	if kind.has_parent() {
		// seeded/C08-paused-track-skips-bookkeeping/demo.rs: a child dropped while its parent is paused is gone
		// at the next callback and its slot can be used again; the same while waiting to resume
		for how in [0u8, 2] {
			let mut g = Gen::new(kind, cap);
			if !big {
				g.fill();
			} else {
				g.create();
				g.create();
			}
			g.callback();
			g.parent(0);
			g.callback();
			g.callback();
			if how == 2 {
				g.parent(2);
				g.callback();
			}
			g.mark_oldest();
			g.callback();
			g.create();
			g.create();
			g.callback();
			g.mark_all();
			g.callback();
			g.callback();
			g.create();
			g.callback();
			g.parent(1);
			g.callback();
			g.mark_all();
			g.callback();
			out.push(g.ops);
		}
		// created, picked up and finished entirely under a paused owner
		{
			let mut g = Gen::new(kind, cap);
			g.parent(0);
			g.callback();
			g.create();
			g.callback();
			g.mark_newest();
			g.callback();
			g.create();
			g.mark_newest();
			g.callback();
			g.callback();
			g.create();
			g.callback();
			out.push(g.ops);
		}
	}
	if kind.has_activity() {
		// seeded/C08-dropped-tweener-waits-for-its-tween/demo.rs: the handle is dropped while the resource is in
		// the middle of something (every activity of World::busy); it is gone at the next callback and the
		// slot can be used again
		for w in 0u8..8 {
			let mut g = Gen::new(kind, cap);
			if !big {
				g.fill();
			} else {
				g.create();
				g.create();
			}
			g.callback();
			g.busy_all(w);
			g.callback();
			g.mark_all();
			g.callback();
			if !big {
				g.fill();
			}
			g.create();
			g.callback();
			out.push(g.ops);
		}
		// … round after round (waiting for a time that never comes, every such resource would hold its slot for
		// ever: demo.rs, third test), with further callbacks in between
		for w in [2u8, 0, 6, 1] {
			let mut g = Gen::new(kind, cap);
			for _ in 0..3 {
				if !big {
					g.fill();
				} else {
					g.create();
					g.create();
				}
				g.create();
				g.callback();
				g.busy_all(w);
				g.callback();
				g.callback();
				g.mark_all();
				g.callback();
				g.callback();
			}
			g.create();
			g.callback();
			out.push(g.ops);
		}
		// the command is written and the handle dropped before any callback reads it (demo.rs, first test); the
		// command reaches a resource that is still queued; the activity starts on one resource while another
		// one goes
		for w in [0u8, 2, 5, 3] {
			let mut g = Gen::new(kind, cap);
			g.create();
			g.callback();
			g.busy_newest(w);
			g.mark_newest();
			g.callback();
			g.create();
			g.busy_newest(w);
			g.callback();
			g.callback();
			g.mark_newest();
			g.callback();
			g.create();
			g.create();
			g.callback();
			g.busy_newest(w);
			g.mark_oldest();
			g.callback();
			g.mark_all();
			g.callback();
			g.create();
			g.callback();
			out.push(g.ops);
		}
	}
	if kind.can_abandon() {
		// seeded/C08-abandoned-unused-queue-drops-on-audio-thread/demo.rs: the owner's handle is dropped while
		// its resources are alive; they finish later
		{
			let mut g = Gen::new(kind, cap);
			g.create();
			g.create();
			g.callback();
			g.abandon();
			g.callback();
			g.mark_newest();
			g.callback();
			g.callback();
			g.mark_all();
			g.callback();
			g.callback();
			out.push(g.ops);
		}
		// … with removals before the handle goes (the ring already holds payloads), a resource that is still
		// queued when it goes, and a paused owner
		{
			let mut g = Gen::new(kind, cap);
			if !big {
				g.fill();
			} else {
				g.create();
				g.create();
			}
			g.callback();
			g.mark_oldest();
			g.callback();
			g.create();
			g.parent(0);
			g.abandon();
			g.callback();
			g.mark_oldest();
			g.callback();
			g.mark_all();
			g.callback();
			g.callback();
			out.push(g.ops);
		}
	}
	if kind.fail_shape().is_some() {
		// a failed creation on an empty storage, callbacks, then the whole capacity is still there
		// (seeded/C08-reserve-leak-on-failed-sound/demo.rs, first test, with capacity 2)
		{
			let mut g = Gen::new(kind, cap);
			g.callback();
			g.fail();
			g.callback();
			g.callback();
			if !big {
				g.fill();
				g.create();
				g.callback();
				g.mark_all();
				g.callback();
			} else {
				g.create();
				g.callback();
			}
			out.push(g.ops);
		}
		// more failures than slots, spread over callbacks, then a creation (demo.rs, second test, capacity 3)
		{
			let mut g = Gen::new(kind, cap);
			g.callback();
			for _ in 0..(cap.min(16) + 1) {
				g.fail();
				g.callback();
			}
			g.create();
			if !big {
				g.fill();
				g.create();
			}
			g.callback();
			out.push(g.ops);
		}
		// as many failures as slots back to back, no callback at all
		{
			let mut g = Gen::new(kind, cap);
			for _ in 0..cap.min(16) {
				g.fail();
			}
			g.create();
			g.callback();
			g.fail();
			g.create();
			out.push(g.ops);
		}
		if !big {
			// failures on a full storage; then every slot is freed and refilled
			let mut g = Gen::new(kind, cap);
			g.fill();
			g.fail();
			g.callback();
			g.fail();
			g.create();
			g.mark_all();
			g.fail();
			g.callback();
			g.fail();
			g.fill();
			g.create();
			g.callback();
			out.push(g.ops);
			// failures interleaved with the reuse of one slot
			let mut g = Gen::new(kind, cap);
			for _ in 0..3 {
				g.create();
				g.fail();
				g.callback();
				g.mark_newest();
				g.fail();
				g.callback();
			}
			g.fill();
			g.create();
			out.push(g.ops);
		}
	}
	// fill exactly to capacity, then one more
	{
		let mut g = Gen::new(kind, cap);
		g.fill();
		g.create();
		g.callback();
		g.create();
		g.callback();
		out.push(g.ops);
	}
	// mark all, one callback, refill
	{
		let mut g = Gen::new(kind, cap);
		g.fill();
		g.callback();
		g.mark_all();
		g.callback();
		g.fill();
		g.create();
		g.callback();
		out.push(g.ops);
	}
	if big {
		return out;
	}
	// a marked resource still occupies its slot until the next callback
	{
		let mut g = Gen::new(kind, cap);
		g.fill();
		g.callback();
		g.mark_all();
		g.create();
		g.callback();
		g.fill();
		g.create();
		g.callback();
		out.push(g.ops);
	}
	// marked before the first callback: inserted by that callback, removed by the next
	{
		let mut g = Gen::new(kind, cap);
		g.fill();
		g.mark_all();
		g.create();
		g.callback();
		g.create();
		g.callback();
		g.create();
		g.callback();
		g.callback();
		out.push(g.ops);
	}
	{
		let mut g = Gen::new(kind, cap);
		g.create();
		g.mark_newest();
		g.callback();
		g.callback();
		g.create();
		g.callback();
		out.push(g.ops);
	}
	// free-list order: remove several, re-create several
	{
		let mut g = Gen::new(kind, cap);
		g.fill();
		g.callback();
		g.mark_oldest();
		g.callback();
		g.create();
		g.callback();
		g.mark_newest();
		g.mark_oldest();
		g.callback();
		g.create();
		g.create();
		g.create();
		g.callback();
		out.push(g.ops);
	}
	// one slot through many generations
	{
		let mut g = Gen::new(kind, cap);
		for _ in 0..(cap.min(4) + 2) {
			g.create();
			g.callback();
			g.mark_newest();
			g.callback();
		}
		g.create();
		g.callback();
		out.push(g.ops);
	}
	// drops are deferred to the next create of the same storage
	{
		let mut g = Gen::new(kind, cap);
		g.fill();
		g.callback();
		g.mark_all();
		g.callback();
		g.callback();
		g.create();
		g.create();
		g.callback();
		out.push(g.ops);
	}
	out
}

// ------------------------------------------------------------------------------------------------

fn emit(s: &mut Session, seen: &mut HashSet<String>, kind: Kind, cap: usize, ops: &[Op]) {
	let term = case_term(kind, cap, ops);
	if !seen.insert(format!("{}|{}", kind.name(), term)) {
		return;
	}
	let h = run_history(kind, cap, ops);
	let key = if h.nontrivial { Some(format!("{}/{}/{}", kind.name(), cap, ops_term_of(kind, ops))) } else { None };
	s.case(kind.name(), term.clone(), &h.obs, key);
	if let Some(what) = h.fail {
		// capacity 0 (F2, repaired in /repo 1316c08) is a regression case like any other
		s.fail(term, what, None);
	}
}

// ------------------------------------------------------------------------------------------------
// free-running two-thread stress: REAL concurrency between the gameplay thread's create path and the
// audio thread's remove_and_add (monitors only; the schedule is whatever the OS does, so there is no
// model comparison — the all-interleavings claim is the Coq theorem, this looks for its refutation)
// ------------------------------------------------------------------------------------------------

type RSlot = Arc<Mutex<Option<kira::backend::Renderer>>>;
/// a backend that parks the `Renderer` where another thread can drive it while the manager is used
struct SBackend(RSlot);
struct SSettings(RSlot);
impl kira::backend::Backend for SBackend {
	type Settings = SSettings;
	type Error = ();
	fn setup(s: SSettings, _internal_buffer_size: usize) -> Result<(Self, u32), ()> {
		Ok((SBackend(s.0), 1000))
	}
	fn start(&mut self, renderer: kira::backend::Renderer) -> Result<(), ()> {
		*lk(&self.0) = Some(renderer);
		Ok(())
	}
}

struct StressOut {
	fail: Option<String>,
	ok: u64,
	limit: u64,
	/// limit error although `num_*` read immediately before was below the capacity: the window inside
	/// `Controller::free` between the flag store and the free-list push (counted, not a failure)
	limit_len_below: u64,
	callbacks: u64,
	removed_reused: u64,
	failed_plays: u64,
}

fn stress(kind: Kind, cap: usize, iters: usize, rng: &mut Rng) -> StressOut {
	let slot: RSlot = Arc::new(Mutex::new(None));
	let mut caps = Capacities::default();
	let mut main = MainTrackBuilder::new();
	match kind {
		Kind::Modulator => caps.modulator_capacity = cap,
		Kind::SoundMain => main = main.sound_capacity(cap),
		_ => unreachable!(),
	}
	let mut mgr = kira::AudioManager::<SBackend>::new(kira::AudioManagerSettings {
		capacities: caps,
		main_track_builder: main,
		internal_buffer_size: 16,
		backend_settings: SSettings(slot.clone()),
	})
	.unwrap();
	let sh = new_shared();
	let stop = Arc::new(AtomicBool::new(false));
	let audio_panic: Arc<Mutex<Option<String>>> = Arc::new(Mutex::new(None));
	let ncb = Arc::new(AtomicUsize::new(0));
	let audio = {
		let (slot, sh, stop, audio_panic, ncb) = (slot.clone(), sh.clone(), stop.clone(), audio_panic.clone(), ncb.clone());
		let pace = rng.below(4);
		std::thread::spawn(move || {
			let mut out = vec![0.0f32; 8];
			let mut n = 0u64;
			while !stop.load(Ordering::SeqCst) {
				let r = catch(|| {
					let mut g = lk(&slot);
					let r = g.as_mut().unwrap();
					r.on_start_processing();
					r.process(&mut out, 2);
				});
				if let Outcome::Panic(_) = r {
					*lk(&audio_panic) = Some(last_panic());
					break;
				}
				ncb.fetch_add(1, Ordering::SeqCst);
				lk(&sh.order).clear();
				lk(&sh.keys).clear();
				n += 1;
				if pace > 0 && n % pace == 0 {
					std::thread::yield_now();
				}
			}
		})
	};
	let mut out = StressOut { fail: None, ok: 0, limit: 0, limit_len_below: 0, callbacks: 0, removed_reused: 0, failed_plays: 0 };
	let name = format!("stress {} capacity {}", kind.name(), cap);
	let mut alive: Vec<Arc<AtomicBool>> = vec![];
	let mut all_flags: Vec<Arc<AtomicBool>> = vec![];
	let mut keys_seen: HashSet<(i128, i128)> = HashSet::new();
	let mut rejected = 0usize;
	let mut built_ok = 0usize;
	let len_of = |mgr: &mut kira::AudioManager<SBackend>| match kind {
		Kind::Modulator => mgr.num_modulators(),
		_ => mgr.main_track().num_sounds(),
	};
	let create = |mgr: &mut kira::AudioManager<SBackend>| -> Outcome<Option<(Option<(i128, i128)>, Arc<AtomicBool>)>> {
		let sh = sh.clone();
		catch(move || match kind {
			Kind::Modulator => match mgr.add_modulator(ProbeModBuilder { sh: sh.clone(), fail: false }) {
				Ok((id, _pid, fin)) => Some((Some(parse_key(&format!("{:?}", id))), fin)),
				Err(_) => None,
			},
			_ => {
				let pid = sh.next_pid.fetch_add(1, Ordering::SeqCst);
				let fin = Arc::new(AtomicBool::new(false));
				match mgr.play(Boxed(Box::new(ProbeSound { pid, sh: sh.clone(), fin: fin.clone() }))) {
					Ok(()) => Some((None, fin)),
					Err(_) => None,
				}
			}
		})
	};
	// the audio thread is up and running before the gameplay side starts
	{
		let t0 = std::time::Instant::now();
		while ncb.load(Ordering::SeqCst) == 0 && t0.elapsed().as_secs() < 5 {
			std::thread::yield_now();
		}
	}
	for it in 0..iters {
		if out.fail.is_some() {
			break;
		}
		if kind == Kind::SoundMain && rng.below(8) == 0 {
			// a play that fails before anything is reserved, concurrently with the callbacks: no slot may be
			// used up (seen by the occupancy bounds below and by the count at quiescence)
			let how = it % 3;
			let r = catch(|| match how {
				0 => matches!(mgr.play(StreamingSoundData::from_decoder(BadDecoder)), Err(PlaySoundError::IntoSoundError(_))),
				1 => matches!(mgr.play(FailingData(FailHow::Err)), Err(PlaySoundError::IntoSoundError(_))),
				_ => {
					let _ = mgr.play(FailingData(FailHow::Panic));
					false
				}
			});
			out.failed_plays += 1;
			let ok = match r {
				Outcome::Ok(b) => b,
				Outcome::Panic(_) => how == 2 && last_panic().starts_with(PROBE_PANIC),
				Outcome::Hang => false,
			};
			if !ok && alive.len() < cap {
				out.fail = Some(format!("{name} step {it}: a play whose into_sound fails did not report that failure although only {} handles are alive", alive.len()));
			}
		} else if rng.below(5) < 3 {
			let len_before = len_of(&mut mgr);
			let unmarked = alive.len();
			match create(&mut mgr) {
				Outcome::Ok(Some((key, fin))) => {
					out.ok += 1;
					built_ok += 1;
					if unmarked >= cap {
						out.fail = Some(format!("{name} step {it}: create succeeded although {unmarked} resources whose handles are alive exist"));
					}
					if let Some((a, b)) = key {
						if !keys_seen.insert((a, b)) {
							out.fail = Some(format!("{name} step {it}: id (index {a}, generation {b}) handed out twice"));
						}
						if a < 0 || a >= cap as i128 {
							out.fail = Some(format!("{name} step {it}: id index {a} outside the capacity"));
						}
						if b > 0 {
							out.removed_reused += 1;
						}
					}
					alive.push(fin.clone());
					all_flags.push(fin);
				}
				Outcome::Ok(None) => {
					out.limit += 1;
					if kind.prebuild() {
						rejected += 1;
					}
					if len_before < cap {
						out.limit_len_below += 1;
					}
					// let the audio thread complete a callback when the storage is full (loaded machines)
					let c0 = ncb.load(Ordering::SeqCst);
					let mut spins = 0;
					while ncb.load(Ordering::SeqCst) == c0 && spins < 200 && lk(&audio_panic).is_none() {
						std::thread::yield_now();
						spins += 1;
					}
					// removal precedes destruction, so at most built_ok - destroyed slots can be occupied
					let destroyed = lk(&sh.drops).len() - rejected;
					if built_ok - destroyed.min(built_ok) < cap {
						out.fail = Some(format!(
							"{name} step {it}: limit error although at most {} of {cap} slots can be occupied ({built_ok} created, {destroyed} already destroyed)",
							built_ok - destroyed.min(built_ok)
						));
					}
				}
				Outcome::Panic(_) => {
					out.fail = Some(format!("{name} step {it}: create panicked: {}", last_panic()));
				}
				Outcome::Hang => {}
			}
		} else if !alive.is_empty() {
			let j = rng.below(alive.len() as u64) as usize;
			alive.swap_remove(j).store(true, Ordering::SeqCst);
		}
		let n = len_of(&mut mgr);
		if n > cap {
			out.fail = Some(format!("{name} step {it}: reported count {n} exceeds the capacity"));
		}
		if n < alive.len() {
			out.fail = Some(format!("{name} step {it}: reported count {n} is below the {} resources whose handles are alive", alive.len()));
		}
		if let Some((p, _)) = lk(&sh.drops).iter().find(|(_, other)| *other) {
			out.fail = Some(format!("{name} step {it}: payload {p} was destroyed on the audio thread"));
		}
		if let Some(m) = lk(&audio_panic).clone() {
			out.fail = Some(format!("{name} step {it}: the audio thread panicked: {m}"));
		}
	}
	stop.store(true, Ordering::SeqCst);
	let _ = audio.join();
	out.callbacks = ncb.load(Ordering::SeqCst) as u64;
	if let Some(m) = lk(&audio_panic).clone() {
		// a payload dropped by the unwinding audio thread is reported together with the panic
		out.fail = Some(match out.fail.take() {
			Some(f) if f.contains("the audio thread panicked") => f,
			Some(f) => format!("{f}; the audio thread panicked: {m}"),
			None => format!("{name}: the audio thread panicked: {m}"),
		});
	}
	// quiescence: everything marked, two callbacks, one more create drains the unused queue
	if out.fail.is_none() {
		for f in &all_flags {
			f.store(true, Ordering::SeqCst);
		}
		let slot2 = slot.clone();
		let r = std::thread::spawn(move || {
			catch(|| {
				let mut g = lk(&slot2);
				let r = g.as_mut().unwrap();
				let mut o = vec![0.0f32; 8];
				for _ in 0..2 {
					r.on_start_processing();
					r.process(&mut o, 2);
				}
			})
		})
		.join();
		if !matches!(r, Ok(Outcome::Ok(()))) {
			out.fail = Some(format!("{name}: final callbacks panicked: {}", last_panic()));
		}
		let n = len_of(&mut mgr);
		if n != 0 && out.fail.is_none() {
			// payloads removed from the arena and not yet destroyed sit in the unused-ring
			let destroyed = lk(&sh.drops).len() - rejected;
			let in_unused = built_ok as i64 - n as i64 - destroyed as i64;
			out.fail = Some(format!(
				"{name}: every resource marked and two callbacks run, but the reported count is {n} ({in_unused} removed payloads await destruction in the unused ring)"
			));
		}
		if out.fail.is_none() {
			match create(&mut mgr) {
				Outcome::Ok(Some(_)) => {
					built_ok += 1;
					let drops = lk(&sh.drops).clone();
					let set: HashSet<usize> = drops.iter().map(|(p, _)| *p).collect();
					if set.len() != drops.len() {
						out.fail = Some(format!("{name}: a payload was destroyed twice"));
					} else if drops.len() - rejected != built_ok - 1 {
						out.fail = Some(format!(
							"{name}: after the final create {} of the {} removed payloads have been destroyed",
							drops.len() - rejected,
							built_ok - 1
						));
					} else if drops.iter().any(|(_, other)| *other) {
						out.fail = Some(format!("{name}: a payload was destroyed on another thread than the caller's"));
					}
				}
				_ => out.fail = Some(format!("{name}: create fails on an empty storage after quiescence")),
			}
		}
	}
	drop(mgr);
	out
}

// ------------------------------------------------------------------------------------------------
// F27, deterministic (regression): the schedule in which a whole create runs between the audio
// thread's removal of a resource from the arena and its push into the unused-ring, replayed on the
// implementation with the cfg(kira_verif) yield point (kira::verif::yield_point in resources.rs)
// ------------------------------------------------------------------------------------------------

struct F27Out {
	/// did the audio thread stop at the yield point
	window_reached: bool,
	/// successful creates
	created: usize,
	/// completed callbacks
	callbacks: usize,
	/// reported count after the callback that has to remove resource 1
	count_after_removal: usize,
	/// reported count at the end (after one more create)
	count_end: usize,
	/// (payload, dropped on another thread than the caller's), in order
	drops: Vec<(usize, bool)>,
	/// drops before the final create
	drops_before_final_create: usize,
	audio_panic: Option<String>,
}

fn f27_replay(kind: Kind) -> F27Out {
	let slot: RSlot = Arc::new(Mutex::new(None));
	let mut caps = Capacities::default();
	let mut main = MainTrackBuilder::new();
	match kind {
		Kind::Modulator => caps.modulator_capacity = 1,
		Kind::SoundMain => main = main.sound_capacity(1),
		_ => unreachable!(),
	}
	let mut mgr = kira::AudioManager::<SBackend>::new(kira::AudioManagerSettings {
		capacities: caps,
		main_track_builder: main,
		internal_buffer_size: 16,
		backend_settings: SSettings(slot.clone()),
	})
	.unwrap();
	let sh = new_shared();
	let create = |mgr: &mut kira::AudioManager<SBackend>| -> Outcome<Option<Arc<AtomicBool>>> {
		let sh = sh.clone();
		catch(move || match kind {
			Kind::Modulator => mgr.add_modulator(ProbeModBuilder { sh: sh.clone(), fail: false }).ok().map(|(_, _, fin)| fin),
			_ => {
				let pid = sh.next_pid.fetch_add(1, Ordering::SeqCst);
				let fin = Arc::new(AtomicBool::new(false));
				mgr.play(Boxed(Box::new(ProbeSound { pid, sh: sh.clone(), fin: fin.clone() }))).ok().map(|_| fin)
			}
		})
	};
	let len_of = |mgr: &mut kira::AudioManager<SBackend>| match kind {
		Kind::Modulator => mgr.num_modulators(),
		_ => mgr.main_track().num_sounds(),
	};
	// one callback on a fresh "audio" thread
	let spawn_cb = |slot: RSlot| {
		std::thread::spawn(move || {
			catch(|| {
				let mut g = lk(&slot);
				let r = g.as_mut().unwrap();
				let mut o = vec![0.0f32; 8];
				r.on_start_processing();
				r.process(&mut o, 2);
			})
		})
	};
	let mut out = F27Out {
		window_reached: false,
		created: 0,
		callbacks: 0,
		count_after_removal: 0,
		count_end: 0,
		drops: vec![],
		drops_before_final_create: 0,
		audio_panic: None,
	};
	// create 0; callback; drop 0
	let f0 = match create(&mut mgr) {
		Outcome::Ok(Some(f)) => f,
		_ => return out,
	};
	out.created += 1;
	if let Ok(Outcome::Ok(())) = spawn_cb(slot.clone()).join() {
		out.callbacks += 1;
	}
	f0.store(true, Ordering::SeqCst);
	// the callback that removes 0 is held between the removal and the push
	let gate = Arc::new((Mutex::new((false, false)), std::sync::Condvar::new())); // (reached, go)
	{
		let gate = gate.clone();
		let main_id = std::thread::current().id();
		kira::verif::set_yield_hook(Some(Arc::new(move |name: &'static str| {
			if name != "resource_removed_before_unused_push" || std::thread::current().id() == main_id {
				return;
			}
			let (m, cv) = &*gate;
			let mut g = lk(m);
			g.0 = true;
			cv.notify_all();
			let t0 = std::time::Instant::now();
			while !g.1 && t0.elapsed().as_secs() < 5 {
				g = cv.wait_timeout(g, std::time::Duration::from_millis(50)).map(|r| r.0).unwrap_or_else(|e| e.into_inner().0);
			}
		})));
	}
	let t = spawn_cb(slot.clone());
	let reached = {
		let (m, cv) = &*gate;
		let mut g = lk(m);
		let t0 = std::time::Instant::now();
		while !g.0 && t0.elapsed().as_secs() < 5 {
			g = cv.wait_timeout(g, std::time::Duration::from_millis(50)).map(|r| r.0).unwrap_or_else(|e| e.into_inner().0);
		}
		g.0
	};
	// … the gameplay thread runs a whole create in that window
	out.window_reached = reached;
	let mut f1 = None;
	if reached {
		if let Outcome::Ok(Some(f)) = create(&mut mgr) {
			out.created += 1;
			f1 = Some(f);
		}
	}
	{
		let (m, cv) = &*gate;
		lk(m).1 = true;
		cv.notify_all();
	}
	match t.join() {
		Ok(Outcome::Ok(())) => out.callbacks += 1,
		Ok(Outcome::Panic(_)) => out.audio_panic = Some(last_panic()),
		_ => {}
	}
	kira::verif::set_yield_hook(None);
	// drop 1; the next callback has to remove it
	if let Some(f1) = f1 {
		f1.store(true, Ordering::SeqCst);
		match spawn_cb(slot.clone()).join() {
			Ok(Outcome::Ok(())) => out.callbacks += 1,
			Ok(Outcome::Panic(_)) => out.audio_panic = Some(last_panic()),
			_ => {}
		}
	}
	out.count_after_removal = len_of(&mut mgr);
	out.drops_before_final_create = lk(&sh.drops).len();
	// one more create: the caller drains the unused-ring (payloads 0 and 1)
	if out.audio_panic.is_none() {
		if let Outcome::Ok(Some(_)) = create(&mut mgr) {
			out.created += 1;
		}
	}
	out.count_end = len_of(&mut mgr);
	out.drops = lk(&sh.drops).clone();
	drop(mgr);
	out
}

// ------------------------------------------------------------------------------------------------
// kira's own sounds: a static sound that plays to its end, one that is stopped through its handle, one
// whose handle is simply dropped (which must NOT remove it) — on the main track, a sub-track and a spatial
// sub-track of sound capacity 2 (monitors only: when `finished()` turns true is C03/C04's business; here:
// once the handle says Stopped, the NEXT callback removes the sound and frees the slot)
// ------------------------------------------------------------------------------------------------

fn real_sounds(which: usize) -> Result<String, String> {
	const CAP: usize = 2;
	let name = ["main track", "sub-track", "spatial sub-track"][which];
	let mut main = MainTrackBuilder::new();
	if which == 0 {
		main = main.sound_capacity(CAP);
	}
	let mut mgr = manager(1000, 16, Capacities::default(), main);
	let listener = mgr.add_listener(zero3(), quat_id()).map_err(|_| "aux listener".to_string())?;
	let mut plain = None;
	let mut spatial = None;
	match which {
		1 => plain = Some(mgr.add_sub_track(TrackBuilder::new().sound_capacity(CAP)).map_err(|_| "aux track".to_string())?),
		2 => spatial = Some(mgr.add_spatial_sub_track(listener.id(), zero3(), SpatialTrackBuilder::new().sound_capacity(CAP)).map_err(|_| "aux track".to_string())?),
		_ => {}
	}
	macro_rules! play {
		($d:expr) => {
			match which {
				1 => plain.as_mut().unwrap().play($d),
				2 => spatial.as_mut().unwrap().play($d),
				_ => mgr.play($d),
			}
		};
	}
	macro_rules! count {
		() => {
			match which {
				1 => plain.as_ref().unwrap().num_sounds(),
				2 => spatial.as_ref().unwrap().num_sounds(),
				_ => mgr.main_track().num_sounds(),
			}
		};
	}
	let data = |frames: usize| sound_from_frames(1000, vec![Frame::new(0.25, 0.25); frames]);
	let cb = |mgr: &mut Mgr| -> Result<(), String> {
		let b = mgr.backend_mut();
		match std::thread::scope(|sc| sc.spawn(move || catch(|| {
			b.callback(4, 2);
		})).join()) {
			Ok(Outcome::Ok(())) => Ok(()),
			_ => Err(format!("{name}: a callback panicked: {}", last_panic())),
		}
	};
	let mut log = String::new();
	// A plays 6 frames to its end; B is long
	let a = play!(data(6)).map_err(|_| format!("{name}: play A refused"))?;
	let mut b = play!(data(100000)).map_err(|_| format!("{name}: play B refused"))?;
	if !matches!(play!(data(8)), Err(PlaySoundError::SoundLimitReached)) {
		return Err(format!("{name}: a third sound was not refused with SoundLimitReached on a track of capacity {CAP}"));
	}
	if count!() != 2 {
		return Err(format!("{name}: count {} after two plays", count!()));
	}
	// until the handle says Stopped
	let mut n = 0;
	while a.state() != PlaybackState::Stopped {
		cb(&mut mgr)?;
		n += 1;
		if count!() != 2 {
			return Err(format!("{name}: sound A (6 frames) was removed (count {}) before its handle said Stopped, after {n} callbacks of 4 frames", count!()));
		}
		if n > 50 {
			return Err(format!("{name}: sound A (6 frames) never reached Stopped"));
		}
	}
	log.push_str(&format!("A Stopped after {n} callbacks; "));
	// the property: finished -> removed and the slot free at the next callback
	cb(&mut mgr)?;
	if count!() != 1 {
		return Err(format!("{name}: sound A finished (handle: Stopped), one more callback ran, and the count is still {}", count!()));
	}
	let c = play!(data(100000)).map_err(|_| format!("{name}: the slot of the finished sound A was not free for reuse after the next callback"))?;
	if count!() != 2 {
		return Err(format!("{name}: count {} after re-using the slot", count!()));
	}
	cb(&mut mgr)?;
	// stop() through the handle, no fade
	b.stop(Tween { duration: std::time::Duration::ZERO, ..Default::default() });
	let mut n = 0;
	while b.state() != PlaybackState::Stopped {
		cb(&mut mgr)?;
		n += 1;
		if n > 50 {
			return Err(format!("{name}: sound B never reached Stopped after stop()"));
		}
	}
	log.push_str(&format!("B Stopped {n} callbacks after stop(); "));
	cb(&mut mgr)?;
	if count!() != 1 {
		return Err(format!("{name}: sound B was stopped (handle: Stopped), one more callback ran, and the count is still {}", count!()));
	}
	// dropping the handle of a playing static sound does not remove it
	drop(c);
	cb(&mut mgr)?;
	cb(&mut mgr)?;
	if count!() != 1 {
		return Err(format!("{name}: count {} two callbacks after the handle of the playing sound C was dropped (a static sound outlives its handle)", count!()));
	}
	let _d = play!(data(100000)).map_err(|_| format!("{name}: play D refused with one sound alive"))?;
	if !matches!(play!(data(8)), Err(PlaySoundError::SoundLimitReached)) {
		return Err(format!("{name}: a sound was not refused on a full track at the end"));
	}
	drop(a);
	Ok(log)
}

// ------------------------------------------------------------------------------------------------
// sounds that are finished at creation (seeded/C08-finished-at-creation-skips-renderer): a sound whose
// `finished()` is true the moment `into_sound` returns has been CREATED all the same: `play` refuses it
// with SoundLimitReached on a full track, and otherwise it takes a slot and is counted until the second
// callback after its creation (finished before the audio thread had picked it up: "the one after")
// ------------------------------------------------------------------------------------------------

fn emit_born(s: &mut Session, kind: Kind, cap: usize, ops: &[Op], how: u8, tag: &str) {
	let h = run_history_b(kind, cap, ops, None, Some(how));
	let term = case_term(kind, cap, ops);
	s.case(&format!("born_finished_{tag}"), term.clone(), &h.obs, Some(format!("born/{}/{}/{}/{}", kind.name(), cap, how, ops_term_of(kind, ops))));
	if let Some(what) = h.fail {
		s.fail(term, what, None);
	}
}

/// the fixed histories (the same on every run): on a full track / on an empty track / between other sounds
fn born_directed(cap: usize) -> Vec<Vec<Op>> {
	use Op::*;
	let mut out: Vec<Vec<Op>> = vec![];
	// full track (picked up or still queued), then one that is finished at creation: refused, count unchanged
	for settle in [true, false] {
		let mut h: Vec<Op> = vec![Create; cap];
		if settle {
			h.push(Callback);
		}
		h.extend([Create, Mark(cap), Callback, Create, Mark(cap + 1), Callback]);
		out.push(h);
	}
	if cap >= 1 {
		// alone on the track: counted at once, still counted after the first callback, gone after the second,
		// and the slot can be used again
		let mut h = vec![Create, Mark(0), Callback, Callback];
		h.extend(vec![Create; cap + 1]);
		h.push(Callback);
		out.push(h);
		// it takes the last slot: the track is full until the second callback
		let mut h: Vec<Op> = vec![Create; cap - 1];
		h.extend([Create, Mark(cap - 1), Create, Callback, Create, Callback, Create, Create, Callback]);
		out.push(h);
		// only sounds that are finished at creation: the capacity counts them too
		let mut h: Vec<Op> = vec![];
		for p in 0..=cap {
			h.extend([Create, Mark(p)]);
		}
		h.extend([Callback, Create, Mark(cap + 1), Callback, Create, Mark(cap + 2), Create, Callback]);
		out.push(h);
	}
	out
}

/// seeded: histories around the limit in which a random share of the creations is finished at creation
fn gen_born(r: &mut Rng, kind: Kind, cap: usize) -> Vec<Op> {
	let len = r.range(6, 30) as usize;
	let mut g = Gen::new(kind, cap);
	while g.ops.len() < len {
		match r.below(12) {
			0 | 1 | 2 => g.born(),
			3 => {
				// on a track that is exactly full
				if cap <= 16 {
					g.fill();
				}
				if r.chance(1, 2) {
					g.callback();
				}
				g.born();
			}
			4 => {
				// on a track with exactly one slot left, then one more
				if cap <= 16 {
					g.fill();
					g.mark_random(r);
					g.callback();
					g.callback();
				}
				g.born();
				g.create();
			}
			5 => {
				let k = 1 + r.below(cap.min(4) as u64 + 1);
				for _ in 0..k {
					g.born();
				}
			}
			6 | 7 => g.create(),
			8 => g.mark_random(r),
			9 => {
				g.callback();
				g.callback();
			}
			_ => g.callback(),
		}
	}
	g.ops
}

/// no probes at all: kira's own `StaticSoundData` through `play`, the handle kept (monitors only)
fn real_born(which: usize, cap: usize, fill: usize) -> Result<(), String> {
	use kira::sound::static_sound::StaticSoundSettings;
	use kira::sound::PlaybackPosition;
	let name = ["main track", "sub-track", "spatial sub-track"][which];
	let mut main = MainTrackBuilder::new();
	if which == 0 {
		main = main.sound_capacity(cap);
	}
	let mut mgr = manager(1000, 16, Capacities::default(), main);
	let listener = mgr.add_listener(zero3(), quat_id()).map_err(|_| "aux listener".to_string())?;
	let mut plain = None;
	let mut spatial = None;
	match which {
		1 => plain = Some(mgr.add_sub_track(TrackBuilder::new().sound_capacity(cap)).map_err(|_| "aux track".to_string())?),
		2 => spatial = Some(mgr.add_spatial_sub_track(listener.id(), zero3(), SpatialTrackBuilder::new().sound_capacity(cap)).map_err(|_| "aux track".to_string())?),
		_ => {}
	}
	macro_rules! play {
		($d:expr) => {
			match which {
				1 => plain.as_mut().unwrap().play($d),
				2 => spatial.as_mut().unwrap().play($d),
				_ => mgr.play($d),
			}
		};
	}
	macro_rules! count {
		() => {
			match which {
				1 => plain.as_ref().unwrap().num_sounds(),
				2 => spatial.as_ref().unwrap().num_sounds(),
				_ => mgr.main_track().num_sounds(),
			}
		};
	}
	let long = || sound_from_frames(1000, vec![Frame::new(0.25, 0.25); 100000]);
	let nothing = || {
		let mut d = sound_from_frames(1000, vec![Frame::new(0.25, 0.25); 4]);
		d.settings = StaticSoundSettings::new().reverse(true).start_position(PlaybackPosition::Samples(10));
		d
	};
	let what = format!("{name} of sound capacity {cap}, {fill} long static sounds (100000 frames at 1000 Hz) playing, then play(StaticSoundData of 4 frames, reverse(true), start_position Samples(10): nothing to play, finished at creation)");
	let cb = |mgr: &mut Mgr| -> Result<(), String> {
		let b = mgr.backend_mut();
		match std::thread::scope(|sc| sc.spawn(move || catch(|| {
			b.callback(4, 2);
		})).join()) {
			Ok(Outcome::Ok(())) => Ok(()),
			_ => Err(format!("{name}: a callback panicked: {}", last_panic())),
		}
	};
	let mut keep = vec![];
	for j in 0..fill {
		keep.push(play!(long()).map_err(|_| format!("{what}: long sound {j} refused"))?);
	}
	cb(&mut mgr)?;
	if count!() != fill {
		return Err(format!("{what}: count {} with {fill} sounds playing", count!()));
	}
	let r = play!(nothing());
	if fill >= cap {
		return match r {
			Err(PlaySoundError::SoundLimitReached) if count!() == fill => Ok(()),
			Err(PlaySoundError::SoundLimitReached) => Err(format!("{what}: refused, but the count went to {}", count!())),
			Err(_) => Err(format!("{what}: an error other than SoundLimitReached")),
			Ok(h) => Err(format!(
				"{what}: play returned Ok (handle state {:?}, count {}) although {fill} sounds are alive on a track of capacity {cap}; creation on a full track has to return SoundLimitReached",
				h.state(),
				count!()
			)),
		};
	}
	let h = r.map_err(|_| format!("{what}: refused although only {fill} of {cap} slots are taken"))?;
	if count!() != fill + 1 {
		return Err(format!("{what}: play returned Ok (handle state {:?}), nothing was removed, and the count is {} instead of {} (created - removed)", h.state(), count!(), fill + 1));
	}
	// the remaining slots, and one more
	for j in fill + 1..cap {
		keep.push(play!(long()).map_err(|_| format!("{what}: then long sound {j} refused although only {j} of {cap} slots are taken"))?);
	}
	if !matches!(play!(long()), Err(PlaySoundError::SoundLimitReached)) {
		return Err(format!("{what}; then the track was filled up: one more sound was not refused (the sound that was finished at creation holds a slot until the second callback after its creation)"));
	}
	cb(&mut mgr)?;
	if count!() != cap {
		return Err(format!("{what}; track filled up; first callback after (the sounds are picked up): count {} instead of {cap}", count!()));
	}
	cb(&mut mgr)?;
	if count!() != cap - 1 {
		return Err(format!("{what}; track filled up; second callback after (the finished sound is removed): count {} instead of {}", count!(), cap - 1));
	}
	keep.push(play!(long()).map_err(|_| format!("{what}: its slot was not free for reuse after the second callback"))?);
	if count!() != cap {
		return Err(format!("{what}: count {} after re-using the slot", count!()));
	}
	drop(h);
	Ok(())
}

fn parse_ops(s: &str) -> Vec<Op> {
	s.split(';')
		.filter_map(|t| {
			let t = t.trim();
			if t == "OCreate" {
				Some(Op::Create)
			} else if t == "OCallback" {
				Some(Op::Callback)
			} else if t.starts_with("OCreateFailing") {
				Some(Op::CreateFailing)
			} else if t == "OAbandon" {
				Some(Op::Abandon)
			} else if let Some(w) = t.strip_prefix("OParent") {
				w.trim().parse().ok().map(Op::Parent)
			} else if let Some(a) = t.strip_prefix("OBusy") {
				let mut it = a.split_whitespace();
				match (it.next().and_then(|x| x.parse().ok()), it.next().and_then(|x| x.parse().ok())) {
					(Some(p), Some(w)) => Some(Op::Busy(p, w)),
					_ => None,
				}
			} else if let Some(p) = t.strip_prefix("OMark") {
				p.trim().parse().ok().map(Op::Mark)
			} else {
				None
			}
		})
		.collect()
}

/// `--replay "<kind> <cap> [OCreate; OMark 0; OCallback]"`: run one history, print what was observed
fn replay(text: &str) {
	let mut it = text.splitn(3, ' ');
	let kind = it.next().and_then(Kind::from_name);
	let cap = it.next().and_then(|c| c.parse::<usize>().ok());
	let ops = it.next().map(|o| parse_ops(o.trim().trim_start_matches('[').trim_end_matches(']')));
	match (kind, cap, ops) {
		(Some(kind), Some(cap), Some(ops)) => {
			let h = run_history(kind, cap, &ops);
			println!("case     {}", case_term(kind, cap, &ops));
			println!("observed {}", zs(&h.obs));
			println!("monitor  {}", h.fail.unwrap_or_else(|| "ok".to_string()));
		}
		_ => eprintln!("C08 replay: expected \"<kind> <cap> [ops]\""),
	}
}

pub fn run(args: &Args) {
	if let Some(r) = &args.replay {
		replay(r);
		return;
	}
	let t0 = std::time::Instant::now();
	let mut rng = Rng::new(args.seed ^ 0xC08);
	let mut s = Session::new(
		"C08",
		&args.out,
		"From Coq Require Import ZArith List Bool.\nFrom KV Require Import Base.Outcome Base.Corr C08.Model C08.Run.\nImport ListNotations.\nLocal Open Scope Z_scope.",
		"run",
		400,
		"one case = one history of create / failing-create / mark-for-removal / device-callback operations on one resource storage (modulators, clocks, listeners, sounds of the main track, of a sub-track and of a spatial sub-track, sub-tracks of the mixer (plain, and plain + spatial mixed), of a track and of a spatial track, send tracks) of a fresh manager, callbacks on a second OS thread; distinct = distinct (kind, capacity, operation list); non-trivial = (at least one resource was removed AND (a creation was rejected OR a freed slot was reused)) OR a creation succeeded after a failed attempt",
	);
	s.keep_case_text = true;
	let mut seen: HashSet<String> = HashSet::new();
	// (h) sounds that are finished at creation — FIRST, and the fixed part the same on every run: kira's own
	// static sound through `play` on the three kinds of track (no probes), then the fixed histories with
	// every way of being finished at creation, then seeded histories around the limit
	{
		for which in 0..3 {
			for (cap, fill) in [(2usize, 2usize), (1, 1), (2, 0), (2, 1), (1, 0), (3, 1)] {
				s.eval_only("real_born_finished");
				if let Err(what) = real_born(which, cap, fill) {
					s.fail(format!("real_born {which} {cap} {fill}"), what, None);
				}
			}
		}
		let sound_kinds = [Kind::SoundMain, Kind::SoundSub, Kind::SoundSpatial, Kind::SoundPersist];
		for kind in sound_kinds {
			for cap in [2usize, 1, 3, 0] {
				for (j, ops) in born_directed(cap).iter().enumerate() {
					for how in 0..BORN_HOW as u8 {
						// every way on the main track and for the first history; one way (rotating) otherwise
						if kind == Kind::SoundMain || j == 0 || how as usize == (j + cap) % BORN_HOW {
							emit_born(&mut s, kind, cap, ops, how, "directed");
						}
					}
				}
			}
		}
		let mut brng = Rng::new(args.seed ^ 0xC08_B0);
		let n_born = (if args.thorough { 400 } else { 40 }) * args.budget_mul as usize;
		for kind in sound_kinds {
			for _ in 0..n_born {
				let cap = match brng.below(10) {
					0 => 0,
					1..=3 => 1,
					4..=6 => 2,
					7 | 8 => 3,
					_ => 5,
				};
				let ops = gen_born(&mut brng, kind, cap);
				let how = brng.below(BORN_HOW as u64) as u8;
				emit_born(&mut s, kind, cap, &ops, how, "random");
			}
		}
		s.notes.push(format!(
			"sounds finished at creation (in the born_finished_* cases every OCreate directly followed by OMark of its own payload; how = {:?}): created like any other sound (refused on a full track, counted until the second callback after creation)",
			BORN_LEGEND
		));
	}
	let n_random = (if args.thorough { 1500 } else { 150 }) * args.budget_mul as usize;
	for kind in KINDS {
		let t_kind = std::time::Instant::now();
		let before = s.model_cases;
		// (a) exhaustive
		let l = kind.exhaustive_len() + if args.thorough { 2 } else { 0 };
		for cap in [1usize, 2] {
			for ops in enumerate(kind, cap, l, false) {
				emit(&mut s, &mut seen, kind, cap, &ops);
			}
		}
		for len in 1..=(if args.thorough { 5 } else { 3 }) {
			for ops in enumerate(kind, 0, len, false) {
				emit(&mut s, &mut seen, kind, 0, &ops);
			}
		}
		// (a') exhaustive, with failing creations
		if kind.fail_shape().is_some() {
			let lf = kind.exhaustive_fail_len() + if args.thorough { 1 } else { 0 };
			for cap in [1usize, 2] {
				for len in 1..=lf {
					for ops in enumerate(kind, cap, len, true) {
						emit(&mut s, &mut seen, kind, cap, &ops);
					}
				}
			}
			for ops in enumerate(kind, 0, 3, true) {
				emit(&mut s, &mut seen, kind, 0, &ops);
			}
		}
		// (a2) exhaustive, under an owner that is paused / waiting to resume from the start
		if kind.has_parent() {
			let lp = 4 + if args.thorough { 2 } else { 0 };
			for prefix in [vec![Op::Parent(0), Op::Callback], vec![Op::Parent(0), Op::Callback, Op::Parent(2), Op::Callback]] {
				for cap in [1usize, 2] {
					for ops in enumerate(kind, cap, lp, false) {
						let mut h = prefix.clone();
						h.extend(ops);
						emit(&mut s, &mut seen, kind, cap, &h);
					}
				}
			}
		}
		// (a3) exhaustive, the owner's handle dropped in the middle
		if kind.can_abandon() {
			let (l1, l2) = if args.thorough { (4, 4) } else { (3, 3) };
			for cap in [1usize, 2] {
				for ops in enumerate_abandon(kind, cap, l1, l2) {
					emit(&mut s, &mut seen, kind, cap, &ops);
				}
			}
		}
		// (a4) exhaustive, with a resource that is busy when its handle is dropped
		if kind.has_activity() {
			let lb = 6 + if args.thorough { 1 } else { 0 };
			for (cap, what) in [(1usize, 0u8), (1, 2), (2, 6)] {
				for ops in enumerate_busy(kind, cap, lb, what) {
					emit(&mut s, &mut seen, kind, cap, &ops);
				}
			}
		}
		// (c) boundary
		for cap in [0usize, 1, 2, 3, kind.default_cap()] {
			for ops in gen_boundary(kind, cap) {
				emit(&mut s, &mut seen, kind, cap, &ops);
			}
		}
		// (b) random
		for _ in 0..n_random {
			let cap = match rng.below(20) {
				0 => 0,
				1..=4 => 1,
				5..=9 => 2,
				10..=14 => 3,
				_ => kind.default_cap(),
			};
			let ops = gen_random(&mut rng, kind, cap);
			emit(&mut s, &mut seen, kind, cap, &ops);
		}
		eprintln!("C08 {}: {} cases in {:.1}s", kind.name(), s.model_cases - before, t_kind.elapsed().as_secs_f64());
	}
	// (f) corpus: the histories of seeded/C08-reserve-leak-on-failed-sound/demo.rs (a failed play on an empty
	// main track of capacity 2, callbacks, the whole capacity is still there, count = created - removed;
	// capacity + 1 failed plays on a sub-track of capacity 3 spread over callbacks, then a play), on all
	// three tracks and with each way a play can fail; and the witnesses of `reserve_then_fail_refuted`
	// (user code unwinding with the key reserved) on the two storages where the unchanged code runs user
	// code at that point
	{
		use Op::*;
		let demo1 = vec![Callback, CreateFailing, Callback, Callback, Create, Create, Create, Callback, Mark(0), Mark(1), Callback];
		let demo2 = vec![Callback, CreateFailing, Callback, CreateFailing, Callback, CreateFailing, Callback, CreateFailing, Callback, Create];
		for kind in [Kind::SoundMain, Kind::SoundSub, Kind::SoundSpatial] {
			for (cap, ops) in [(2usize, &demo1), (3usize, &demo2)] {
				for flavour in [1usize, 0, 2] {
					let h = run_history_f(kind, cap, ops, Some(flavour));
					let term = case_term(kind, cap, ops);
					s.case("corpus_failed_play", term.clone(), &h.obs, Some(format!("corpus/{}/{}/{}", kind.name(), cap, flavour)));
					if let Some(what) = h.fail {
						let how = ["a streaming sound whose decoder cannot seek", "into_sound returns Err", "into_sound panics"][flavour];
						s.fail(term, format!("{what} [every failing play: {how}]"), None);
					}
				}
			}
		}
		let one = vec![CreateFailing, Callback, Create, Callback, Create];
		let two = vec![CreateFailing, CreateFailing, Callback, Create, Callback, Callback, Create];
		for kind in [Kind::Modulator, Kind::SendTrack] {
			for ops in [&one, &two] {
				emit(&mut s, &mut seen, kind, 2, ops);
			}
		}
	}
	// (g) kira's own sounds finishing / being stopped / losing their handle
	for which in 0..3 {
		s.eval_only("real_sounds");
		match real_sounds(which) {
			Ok(log) => s.notes.push(format!("static sounds on the {}: {}", ["main track", "sub-track", "spatial sub-track"][which], log)),
			Err(what) => s.fail(format!("real_sounds {which}"), what, None),
		}
	}
	// (e) F27 regression: the racy schedule replayed deterministically, compared with the model
	for kind in [Kind::SoundMain, Kind::Modulator] {
		let o = f27_replay(kind);
		// f27_prefix ++ f27_callback ++ one more create (G_reserve; G_drain_one x2; G_drain_done; G_push)
		let term = format!(
			"CSched {} {} 1 [0; 2; 3; 4; 5; 7; 6; 6; 100; 4; 5; 0; 2; 3; 7; 5; 7; 6; 6; 101; 4; 5; 7; 5; 6; 6; 0; 1; 1; 2; 3]",
			kind.selfref(),
			kind.prebuild()
		);
		let all_caller = o.drops.iter().all(|(_, other)| !*other);
		let observed: Vec<i128> = if o.audio_panic.is_some() {
			vec![1, panic_code(o.audio_panic.as_deref().unwrap_or(""))]
		} else {
			vec![0, o.count_end as i128, o.created as i128, o.callbacks as i128, o.drops.len() as i128, if all_caller { 1 } else { 0 }]
		};
		s.case(&format!("f27_{}", kind.name()), term.clone(), &observed, Some(format!("f27/{}", kind.name())));
		let hist = format!(
			"{} capacity 1: create 0; callback; finish 0; [callback removes 0 | create 1 | callback pushes 0 to the unused ring, inserts 1]; finish 1; callback; create 2",
			kind.name()
		);
		if !o.window_reached {
			s.fail(term.clone(), format!("{hist}: the audio thread did not reach the yield point between arena removal and unused-ring push (hook missing?)"), None);
		} else if let Some(m) = &o.audio_panic {
			s.fail(term.clone(), format!("{hist}: the audio thread panicked: {m}"), None);
		} else if o.count_after_removal != 0 {
			s.fail(
				term.clone(),
				format!("{hist}: resource 1 was present and finished at the start of the last callback and is still counted after it (count {})", o.count_after_removal),
				None,
			);
		} else if !all_caller {
			s.fail(term.clone(), format!("{hist}: payloads dropped on another thread than the caller's: {:?}", o.drops), None);
		} else if o.drops_before_final_create != 0 || o.drops.iter().map(|(p, _)| *p).collect::<Vec<_>>() != vec![0, 1] {
			s.fail(
				term.clone(),
				format!("{hist}: expected payloads 0 and 1 to be destroyed by the final create and nothing before it; drops {:?} ({} before it)", o.drops, o.drops_before_final_create),
				None,
			);
		} else if o.count_end != 1 || o.created != 3 {
			s.fail(term.clone(), format!("{hist}: {} creates succeeded, final count {}", o.created, o.count_end), None);
		}
	}
	// (d) free-running two-thread stress
	let iters = (if args.thorough { 40000 } else { 4000 }) * args.budget_mul as usize;
	let (mut cb, mut ok, mut lim, mut race, mut reuse, mut failed_plays) = (0u64, 0u64, 0u64, 0u64, 0u64, 0u64);
	for kind in [Kind::Modulator, Kind::SoundMain] {
		for cap in [1usize, 2, 3, 8] {
			for _rep in 0..2 {
				let o = stress(kind, cap, iters, &mut rng);
				s.eval_only(&format!("stress_{}", kind.name()));
				cb += o.callbacks;
				ok += o.ok;
				lim += o.limit;
				race += o.limit_len_below;
				reuse += o.removed_reused;
				failed_plays += o.failed_plays;
				if let Some(what) = o.fail.clone() {
					s.fail(format!("stress {} {} seed {}", kind.name(), cap, args.seed), what, None);
				}
			}
		}
	}
	s.notes.push(format!(
		"two-thread stress (real concurrency, monitors only): {ok} successful creates ({reuse} on a reused slot), {failed_plays} plays whose into_sound failed, {lim} limit errors ({race} of them although num_* read just before was below the capacity: window inside Controller::free), {cb} concurrent callbacks"
	));
	s.notes.push(format!(
		"failing creations in the histories: {}; of these {} were user code unwinding with the key already reserved (a panicking ModulatorBuilder::build, a send-track effect whose init panics): the unchanged code loses the slot for good (num_* counts it, capacity shrinks), exactly as the model's X_fail_late predicts (theorem reserve_then_fail_refuted); compared with the model, not raised as a violation",
		FAILED_CREATIONS.load(Ordering::SeqCst),
		LATE_LEAKS.load(Ordering::SeqCst)
	));
	s.notes.push(format!(
		"resources whose handle was dropped after they had been given something to do through it ({BUSY_LEGEND}): {}; all of them had to be gone at the callback after the drop like any other (model: OBusy is no step)",
		BUSY_DROPS.load(Ordering::SeqCst)
	));
	s.notes.push(format!("harness time {:.1}s", t0.elapsed().as_secs_f64()));
	s.finish();
}
