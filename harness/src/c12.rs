//! C12 probe skeleton (replaced below)
use crate::backend::*;
use crate::util::*;
use kira::track::TrackBuilder;
use kira::Frame;

const SR: u32 = 1024;

pub fn run(_args: &Args) {
	// probe 1: persisting track, already picked up; play a sound and drop the handle before the next callback
	{
		let mut m = simple_manager(SR, 8);
		let mut t = m.add_sub_track(TrackBuilder::new().persist_until_sounds_finish(true)).unwrap();
		let o = m.backend_mut().callback(4, 2);
		eprintln!("cb0 {:?} n={}", &o[..2], m.num_sub_tracks());
		let h = t.play(sound_from_frames(SR, vec![Frame::new(0.5, 0.5); 20])).unwrap();
		drop(t);
		for k in 0..4 {
			let o = m.backend_mut().callback(4, 2);
			eprintln!("probe1 cb{} out={:?} tracks={} sound={:?}", k + 1, &o[..2], m.num_sub_tracks(), h.state());
		}
	}
	// probe 2: parent picked up; add a child, drop the parent's handle before the next callback; child handle alive
	{
		let mut m = simple_manager(SR, 8);
		let mut t = m.add_sub_track(TrackBuilder::new()).unwrap();
		m.backend_mut().callback(4, 2);
		let mut c = t.add_sub_track(TrackBuilder::new()).unwrap();
		let h = c.play(sound_from_frames(SR, vec![Frame::new(0.5, 0.5); 20])).unwrap();
		drop(t);
		for k in 0..4 {
			let o = m.backend_mut().callback(4, 2);
			eprintln!("probe2 cb{} out={:?} tracks={} child_state={:?} sound={:?}", k + 1, &o[..2], m.num_sub_tracks(), catch(|| c.state()), h.state());
		}
	}
}
