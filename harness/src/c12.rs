//! C12 — pausing a track freezes its subtree; removal follows handle / persistence rules.
//! A real `AudioManager<VBackend>` with a tree of sub-tracks (plain and spatial handles), index-coded
//! static sounds, a counting probe effect, real manager clocks, and histories of pause / resume /
//! resume_at / set_volume / handle drops; every callback is cut into internal chunks by the renderer.
use crate::backend::*;
use crate::util::*;
use kira::clock::{ClockHandle, ClockSpeed, ClockTime};
use kira::effect::Effect;
use kira::info::Info;
use kira::listener::ListenerHandle;
use kira::sound::static_sound::{StaticSoundData, StaticSoundHandle, StaticSoundSettings};
use kira::sound::PlaybackState;
use kira::track::{SpatialTrackBuilder, SpatialTrackHandle, TrackBuilder, TrackHandle, TrackPlaybackState};
use kira::{Decibels, Easing, Frame, StartTime, Tween};
use std::collections::BTreeMap;
use std::time::Duration;

const SR: u32 = 1024; // dt = 2^-10 s exactly
const U20: f32 = 1.0 / 1048576.0;
const FRAME_NS_X2: u64 = 1_953_125; // two frames = 1953125 ns exactly

#[derive(Clone, Debug, PartialEq)]
enum Start {
	Imm,
	Del(u64),
	Clk { clock: usize, ticks: u64, fr: f64 },
}
#[derive(Clone, Debug)]
struct Tw {
	start: Start,
	dur_ns: u64,
	easing: Easing,
}
#[derive(Clone, Debug)]
enum Op {
	AddTop { id: usize, persist: bool, fx: bool, spatial: bool },
	AddSub { parent: usize, id: usize, persist: bool, fx: bool, spatial: bool },
	Play { tr: usize, sid: usize, n: usize, start: usize, st: Start },
	Pause { tr: usize, tw: Tw },
	Resume { tr: usize, st: Start, tw: Tw },
	Volume { tr: usize, db: f32, tw: Tw },
	Drop { tr: usize },
	DropSound { sid: usize },
	ClockStart(usize),
	ClockPause(usize),
	ClockDrop(usize),
}
#[derive(Clone, Debug)]
struct Cb {
	ops: Vec<Op>,
	frames: usize,
}
#[derive(Clone, Debug)]
struct Scenario {
	ibs: usize,
	cbs: Vec<Cb>,
}

/// the probe effect: adds (frames processed so far) * 2^-20 to both channels of every frame
struct Probe {
	count: u32,
}
impl Effect for Probe {
	fn process(&mut self, input: &mut [Frame], _dt: f64, _info: &Info) {
		for f in input.iter_mut() {
			self.count += 1;
			let x = self.count as f32 * U20;
			f.left += x;
			f.right += x;
		}
	}
}

enum H {
	Plain(TrackHandle),
	Spatial(SpatialTrackHandle),
}
impl H {
	fn state(&self) -> TrackPlaybackState {
		match self {
			H::Plain(h) => h.state(),
			H::Spatial(h) => h.state(),
		}
	}
	fn num_sounds(&self) -> usize {
		match self {
			H::Plain(h) => h.num_sounds(),
			H::Spatial(h) => h.num_sounds(),
		}
	}
	fn num_sub_tracks(&self) -> usize {
		match self {
			H::Plain(h) => h.num_sub_tracks(),
			H::Spatial(h) => h.num_sub_tracks(),
		}
	}
	fn pause(&mut self, t: Tween) {
		match self {
			H::Plain(h) => h.pause(t),
			H::Spatial(h) => h.pause(t),
		}
	}
	fn resume_at(&mut self, st: StartTime, t: Tween) {
		// `resume` is `resume_at(Immediate)`; call it through its own entry point when it applies
		match (self, st) {
			(H::Plain(h), StartTime::Immediate) => h.resume(t),
			(H::Spatial(h), StartTime::Immediate) => h.resume(t),
			(H::Plain(h), st) => h.resume_at(st, t),
			(H::Spatial(h), st) => h.resume_at(st, t),
		}
	}
	fn set_volume(&mut self, db: f32, t: Tween) {
		match self {
			H::Plain(h) => h.set_volume(Decibels(db), t),
			H::Spatial(h) => h.set_volume(Decibels(db), t),
		}
	}
	fn play(&mut self, d: StaticSoundData) -> StaticSoundHandle {
		match self {
			H::Plain(h) => h.play(d).unwrap(),
			H::Spatial(h) => h.play(d).unwrap(),
		}
	}
	fn add_sub(&mut self, b: TrackBuilder) -> H {
		match self {
			H::Plain(h) => H::Plain(h.add_sub_track(b).unwrap()),
			H::Spatial(h) => H::Plain(h.add_sub_track(b).unwrap()),
		}
	}
	fn add_spatial_sub(&mut self, l: &ListenerHandle, b: SpatialTrackBuilder) -> H {
		match self {
			H::Plain(h) => H::Spatial(h.add_spatial_sub_track(l, glam::Vec3::new(0.0, 0.0, 1.0), b).unwrap()),
			H::Spatial(h) => H::Spatial(h.add_spatial_sub_track(l, glam::Vec3::new(0.0, 0.0, 1.0), b).unwrap()),
		}
	}
}

fn tstate_code(s: TrackPlaybackState) -> i128 {
	match s {
		TrackPlaybackState::Playing => 0,
		TrackPlaybackState::Pausing => 1,
		TrackPlaybackState::Paused => 2,
		TrackPlaybackState::WaitingToResume => 3,
		TrackPlaybackState::Resuming => 4,
	}
}
fn sstate_code(s: PlaybackState) -> i128 {
	match s {
		PlaybackState::Playing => 0,
		PlaybackState::Pausing => 1,
		PlaybackState::Paused => 2,
		PlaybackState::WaitingToResume => 3,
		PlaybackState::Resuming => 4,
		PlaybackState::Stopping => 5,
		PlaybackState::Stopped => 6,
	}
}
fn easing_code(e: Easing) -> (i128, i128) {
	match e {
		Easing::Linear => (0, 0),
		Easing::InPowi(p) => (1, p as i128),
		Easing::OutPowi(p) => (2, p as i128),
		Easing::InOutPowi(p) => (3, p as i128),
		_ => unreachable!(),
	}
}
fn start_term(s: &Start) -> String {
	match s {
		Start::Imm => "SImm".into(),
		Start::Del(ns) => format!("(SDel {})", ns),
		Start::Clk { clock, ticks, fr } => format!("(SClk {} {} {})", clock, ticks, f64_bits_z(*fr)),
	}
}
fn tw_term(t: &Tw) -> String {
	let (ek, ep) = easing_code(t.easing);
	format!("({}, {}, {}, {})", start_term(&t.start), t.dur_ns, ek, z(ep))
}
fn frame_code(sid: usize, idx: usize) -> f32 {
	(((sid + 1) * 256 + idx + 1) as f32) * U20
}
fn coded_sound(sid: usize, n: usize, start: usize, st: StartTime) -> StaticSoundData {
	let frames: Vec<Frame> = (0..n).map(|i| Frame::new(frame_code(sid, i), frame_code(sid, i))).collect();
	StaticSoundData {
		sample_rate: SR,
		frames: std::sync::Arc::from(frames),
		settings: StaticSoundSettings::new().start_position(kira::sound::PlaybackPosition::Samples(start)).start_time(st),
		slice: None,
	}
}

/// what the harness knows about one clock without asking it: 64 ticks per second at 1024 Hz = one tick per 16 frames
#[derive(Clone, Copy, Debug)]
struct ClockMirror {
	dropped: bool,
	/// the audio thread has picked the clock up from the new-resource queue (a clock dropped before that is
	/// still inserted by the next callback, and removed by the one after: C08's "the one after" clause)
	in_arena: bool,
	present: bool,
	want_ticking: bool,
	ticking: bool,
	started: bool,
	sixteenths: u64,
}
impl ClockMirror {
	fn info(&self) -> (bool, bool, u64, f64) {
		(self.present, self.ticking, self.sixteenths / 16, (self.sixteenths % 16) as f64 / 16.0)
	}
}

#[derive(Clone, Debug, Default)]
struct CbObs {
	mgr_tracks: usize,
	/// live track handles: id -> (state or panic code, num_sounds, num_sub_tracks)
	tracks: BTreeMap<usize, (Result<TrackPlaybackState, i128>, usize, usize)>,
	/// live sound handles: sid -> (state, position in frames)
	sounds: BTreeMap<usize, (PlaybackState, i128)>,
	out: Vec<f32>,
	chunk_clocks: Vec<(usize, Vec<(bool, bool, u64, f64)>)>,
}
struct Trace {
	obs: Vec<i128>,
	tab: Vec<(u32, u32, u32)>,
	per_cb: Vec<CbObs>,
	panicked: Option<i128>,
	clock_mirror_ok: bool,
}

fn mk_start(clocks: &[Option<ClockHandle>], ids: &[kira::clock::ClockId], s: &Start) -> StartTime {
	let _ = clocks;
	match s {
		Start::Imm => StartTime::Immediate,
		Start::Del(ns) => StartTime::Delayed(Duration::from_nanos(*ns)),
		Start::Clk { clock, ticks, fr } => StartTime::ClockTime(ClockTime { clock: ids[*clock], ticks: *ticks, fraction: *fr }),
	}
}

fn run_scenario(sc: &Scenario) -> Trace {
	let _ = kira::verif::take_powf32_log();
	let mut per_cb: Vec<CbObs> = vec![];
	let mut obs: Vec<i128> = vec![];
	let mut clock_mirror_ok = true;
	let r = catch(|| {
		let mut m = simple_manager(SR, sc.ibs);
		let listener = m.add_listener(glam::Vec3::ZERO, glam::Quat::IDENTITY).unwrap();
		let mut clocks: Vec<Option<ClockHandle>> = (0..2).map(|_| Some(m.add_clock(ClockSpeed::TicksPerSecond(64.0)).unwrap())).collect();
		let ids: Vec<_> = clocks.iter().map(|c| c.as_ref().unwrap().id()).collect();
		let mut cm = [ClockMirror { dropped: false, in_arena: false, present: false, want_ticking: false, ticking: false, started: false, sixteenths: 0 }; 2];
		let mut tracks: BTreeMap<usize, H> = BTreeMap::new();
		let mut sounds: BTreeMap<usize, StaticSoundHandle> = BTreeMap::new();
		let mk_tw = |ids: &[kira::clock::ClockId], t: &Tw| Tween { start_time: mk_start(&[], ids, &t.start), duration: Duration::from_nanos(t.dur_ns), easing: t.easing };
		for cb in &sc.cbs {
			for op in &cb.ops {
				match op {
					Op::AddTop { id, persist, fx, spatial } => {
						let h = if *spatial {
							let mut b = SpatialTrackBuilder::new().attenuation_function(None).spatialization_strength(0.0).persist_until_sounds_finish(*persist);
							if *fx {
								b.add_built_effect(Box::new(Probe { count: 0 }));
							}
							H::Spatial(m.add_spatial_sub_track(&listener, glam::Vec3::new(0.0, 0.0, 1.0), b).unwrap())
						} else {
							let mut b = TrackBuilder::new().persist_until_sounds_finish(*persist);
							if *fx {
								b.add_built_effect(Box::new(Probe { count: 0 }));
							}
							H::Plain(m.add_sub_track(b).unwrap())
						};
						tracks.insert(*id, h);
					}
					Op::AddSub { parent, id, persist, fx, spatial } => {
						let p = tracks.get_mut(parent).unwrap();
						let h = if *spatial {
							let mut b = SpatialTrackBuilder::new().attenuation_function(None).spatialization_strength(0.0).persist_until_sounds_finish(*persist);
							if *fx {
								b.add_built_effect(Box::new(Probe { count: 0 }));
							}
							p.add_spatial_sub(&listener, b)
						} else {
							let mut b = TrackBuilder::new().persist_until_sounds_finish(*persist);
							if *fx {
								b.add_built_effect(Box::new(Probe { count: 0 }));
							}
							p.add_sub(b)
						};
						tracks.insert(*id, h);
					}
					Op::Play { tr, sid, n, start, st } => {
						let d = coded_sound(*sid, *n, *start, mk_start(&[], &ids, st));
						let h = tracks.get_mut(tr).unwrap().play(d);
						sounds.insert(*sid, h);
					}
					Op::Pause { tr, tw } => tracks.get_mut(tr).unwrap().pause(mk_tw(&ids, tw)),
					Op::Resume { tr, st, tw } => tracks.get_mut(tr).unwrap().resume_at(mk_start(&[], &ids, st), mk_tw(&ids, tw)),
					Op::Volume { tr, db, tw } => tracks.get_mut(tr).unwrap().set_volume(*db, mk_tw(&ids, tw)),
					Op::Drop { tr } => {
						tracks.remove(tr);
					}
					Op::DropSound { sid } => {
						sounds.remove(sid);
					}
					Op::ClockStart(c) => {
						if let Some(h) = clocks[*c].as_mut() {
							h.start();
							cm[*c].want_ticking = true;
						}
					}
					Op::ClockPause(c) => {
						if let Some(h) = clocks[*c].as_mut() {
							h.pause();
							cm[*c].want_ticking = false;
						}
					}
					Op::ClockDrop(c) => {
						clocks[*c] = None;
						cm[*c].dropped = true;
					}
				}
			}
			// Renderer::on_start_processing: clocks marked for removal go, new ones arrive, set_ticking is read
			m.backend_mut().r().on_start_processing();
			for c in 0..2 {
				// remove_unused scans the arena first, then the queued clocks are inserted
				cm[c].present = if cm[c].in_arena { cm[c].present && !cm[c].dropped } else { true };
				cm[c].in_arena = true;
				cm[c].ticking = cm[c].want_ticking;
				// the shared time was just refreshed from the clock's state: compare with the mirror
				if let Some(h) = &clocks[c] {
					let t = h.time();
					let (_, _, tk, fr) = cm[c].info();
					let (etk, efr) = if cm[c].started { (tk, fr) } else { (0, 0.0) };
					if t.ticks != etk || t.fraction.to_bits() != efr.to_bits() || h.ticking() != cm[c].ticking {
						clock_mirror_ok = false;
					}
				}
			}
			let mut o = CbObs::default();
			// Renderer::process, chunk by chunk exactly as it cuts the buffer
			let mut left = cb.frames;
			let mut buf = vec![f32::from_bits(0x7FC0_1234); cb.frames * 2];
			m.backend_mut().r().process(&mut buf, 2);
			while left > 0 {
				let n = left.min(sc.ibs);
				for c in 0..2 {
					if cm[c].present && cm[c].ticking {
						cm[c].started = true;
						cm[c].sixteenths += n as u64;
					}
				}
				o.chunk_clocks.push((n, cm.iter().map(|c| if c.started { c.info() } else { (c.present, c.ticking, 0, 0.0) }).collect()));
				left -= n;
			}
			for f in buf.chunks(2) {
				o.out.push(if f[0].to_bits() == f[1].to_bits() { f[0] } else { f32::NAN });
			}
			o.mgr_tracks = m.num_sub_tracks();
			for (id, h) in &tracks {
				let st = match catch(|| h.state()) {
					Outcome::Ok(s) => Ok(s),
					Outcome::Panic(c) => Err(1000 + c),
					Outcome::Hang => Err(2000),
				};
				o.tracks.insert(*id, (st, h.num_sounds(), h.num_sub_tracks()));
			}
			for (sid, h) in &sounds {
				o.sounds.insert(*sid, (h.state(), (h.position() * SR as f64) as i128));
			}
			// flatten in the model's order
			obs.push(o.mgr_tracks as i128);
			for (_, (st, ns, nt)) in &o.tracks {
				obs.push(match st {
					Ok(s) => tstate_code(*s),
					Err(c) => *c,
				});
				obs.push(*ns as i128);
				obs.push(*nt as i128);
			}
			for (_, (st, pos)) in &o.sounds {
				obs.push(sstate_code(*st));
				obs.push(*pos);
			}
			obs.extend(o.out.iter().map(|x| obs32(*x)));
			per_cb.push(o);
		}
	});
	let tab = kira::verif::take_powf32_log();
	let panicked = match r {
		Outcome::Ok(()) => None,
		Outcome::Panic(c) => Some(1000 + c),
		Outcome::Hang => Some(2000),
	};
	if let Some(c) = panicked {
		obs = vec![c];
	}
	Trace { obs, tab, per_cb, panicked, clock_mirror_ok }
}

fn term(sc: &Scenario, tr: &Trace) -> String {
	let mut t: Vec<(u32, u32, u32)> = tr.tab.clone();
	t.sort();
	t.dedup();
	let mut cbs = vec![];
	for (k, cb) in sc.cbs.iter().enumerate() {
		let mut ops = vec![];
		for op in &cb.ops {
			match op {
				Op::AddTop { id, persist, fx, .. } => ops.push(format!("RAddTop {} {} {}", id, *persist as u8, *fx as u8)),
				Op::AddSub { parent, id, persist, fx, .. } => ops.push(format!("RAddSub {} {} {} {}", parent, id, *persist as u8, *fx as u8)),
				Op::Play { tr, sid, n, start, st } => ops.push(format!("RPlay {} {} {} {} {}", tr, sid, n, start, start_term(st))),
				Op::Pause { tr, tw } => ops.push(format!("RPause {} {}", tr, tw_term(tw))),
				Op::Resume { tr, st, tw } => ops.push(format!("RResume {} {} {}", tr, start_term(st), tw_term(tw))),
				Op::Volume { tr, db, tw } => ops.push(format!("RVolume {} {} {}", tr, f32_bits_z(*db), tw_term(tw))),
				Op::Drop { tr } => ops.push(format!("RDrop {}", tr)),
				Op::DropSound { sid } => ops.push(format!("RDropSound {}", sid)),
				Op::ClockStart(_) | Op::ClockPause(_) | Op::ClockDrop(_) => {}
			}
		}
		let chunks = match tr.per_cb.get(k) {
			Some(o) => o
				.chunk_clocks
				.iter()
				.map(|(n, cl)| format!("({}, [{}])", n, cl.iter().map(|(p, t, k, f)| format!("({}, {}, {}, {})", *p as u8, *t as u8, k, f64_bits_z(*f))).collect::<Vec<_>>().join("; ")))
				.collect::<Vec<_>>()
				.join("; "),
			None => String::new(),
		};
		cbs.push(format!("RCb [{}] [{}]", ops.join("; "), chunks));
	}
	format!("CTree {} [{}] [{}]", f64_bits_z(1.0 / SR as f64), cbs.join("; "), t.iter().map(|(a, b, c)| format!("({}, {}, {})", a, b, c)).collect::<Vec<_>>().join("; "))
}

// ---------------------------------------------------------------------------------------------
// the harness's own view of the tree (a Rust mirror of the removal rule and of "frozen")
#[derive(Clone, Debug)]
struct TNode {
	parent: Option<usize>,
	persist: bool,
	handle: bool,
	picked: bool,
	alive: bool,
	/// sounds in the arena / still queued
	arena: Vec<usize>,
	queued: Vec<usize>,
	cmd_this_cb: bool,
}
struct Mirror {
	nodes: BTreeMap<usize, TNode>,
	sound_track: BTreeMap<usize, usize>,
	sound_finished: BTreeMap<usize, bool>,
}
impl Mirror {
	fn children(&self, p: Option<usize>) -> Vec<usize> {
		self.nodes.iter().filter(|(_, n)| n.alive && n.parent == p).map(|(i, _)| *i).collect()
	}
	/// Track::should_be_removed as the property states it
	fn removable(&self, id: usize) -> bool {
		let n = &self.nodes[&id];
		for c in self.children(Some(id)) {
			if !self.nodes[&c].picked || !self.removable(c) {
				return false;
			}
		}
		if n.persist {
			!n.handle && n.arena.is_empty() && n.queued.is_empty()
		} else {
			!n.handle
		}
	}
	fn kill(&mut self, id: usize) {
		for c in self.children(Some(id)) {
			self.kill(c);
		}
		self.nodes.get_mut(&id).unwrap().alive = false;
	}
	/// on_start_processing of parent `p`'s arena (None = mixer)
	fn on_start(&mut self, p: Option<usize>) {
		for c in self.children(p) {
			if self.nodes[&c].picked && self.removable(c) {
				self.kill(c);
			}
		}
		for c in self.children(p) {
			// the track's own on_start_processing: finished sounds leave, queued ones arrive
			let fin = self.sound_finished.clone();
			let n = self.nodes.get_mut(&c).unwrap();
			n.picked = true;
			n.arena.retain(|s| !fin.get(s).copied().unwrap_or(false));
			let q = std::mem::take(&mut n.queued);
			n.arena.extend(q);
			self.on_start(Some(c));
		}
	}
	fn ancestors_and_self(&self, id: usize) -> Vec<usize> {
		let mut v = vec![id];
		let mut cur = id;
		while let Some(p) = self.nodes[&cur].parent {
			v.push(p);
			cur = p;
		}
		v
	}
}

fn non_advancing(s: &Result<TrackPlaybackState, i128>) -> bool {
	matches!(s, Ok(TrackPlaybackState::Paused) | Ok(TrackPlaybackState::WaitingToResume))
}

/// a fade-in started by `resume(tween)`: the tween's own delay and duration, the number of frames after which it
/// has to be over, the number of frames that have to be silent first, the frames rendered since
struct FadeIn {
	d_ns: u64,
	dur_ns: u64,
	need: usize,
	silent: usize,
	elapsed: usize,
}

/// property monitors on the implementation's trace
fn monitors(s: &mut Session, desc: &str, sc: &Scenario, tr: &Trace, pure: bool, line: bool) {
	if let Some(c) = tr.panicked {
		s.fail(desc.to_string(), format!("panic (code {c}) while driving the manager"), None);
		return;
	}
	if !tr.clock_mirror_ok {
		s.fail(desc.to_string(), "harness clock mirror disagrees with ClockHandle::time()/ticking()".into(), None);
	}
	let mut mi = Mirror { nodes: BTreeMap::new(), sound_track: BTreeMap::new(), sound_finished: BTreeMap::new() };
	let mut sound_dropped: BTreeMap<usize, bool> = BTreeMap::new();
	let mut prev: Option<&CbObs> = None;
	// frozen-through-callback flags of the previous callback, to compare positions one callback later
	let mut frozen_prev: BTreeMap<usize, bool> = BTreeMap::new();
	let mut removed_prev: BTreeMap<usize, bool> = BTreeMap::new();
	// `resume(tween)` book-keeping: tracks that ever received a pause or a resume_at with a start time (= may not be advancing); per track the fade-in that has to be over
	// after `need` frames (frames rendered since the resume was picked up)
	let mut ever_paused: BTreeMap<usize, bool> = BTreeMap::new();
	let mut fade_in: BTreeMap<usize, FadeIn> = BTreeMap::new();
	for (k, cb) in sc.cbs.iter().enumerate() {
		let o = &tr.per_cb[k];
		let mut last_resume: BTreeMap<usize, (Start, Tw)> = BTreeMap::new();
		let mut paused_now: BTreeMap<usize, bool> = BTreeMap::new();
		for op in &cb.ops {
			match op {
				Op::Pause { tr, .. } => {
					ever_paused.insert(*tr, true);
					paused_now.insert(*tr, true);
					fade_in.remove(tr);
				}
				Op::Resume { tr, st, tw } => {
					// resume_at with a start time parks the track in WaitingToResume, which does not advance either
					if *st != Start::Imm {
						ever_paused.insert(*tr, true);
					}
					last_resume.insert(*tr, (st.clone(), tw.clone()));
					fade_in.remove(tr);
				}
				_ => {}
			}
		}
		for n in mi.nodes.values_mut() {
			n.cmd_this_cb = false;
		}
		for op in &cb.ops {
			match op {
				Op::AddTop { id, persist, .. } => {
					mi.nodes.insert(*id, TNode { parent: None, persist: *persist, handle: true, picked: false, alive: true, arena: vec![], queued: vec![], cmd_this_cb: false });
				}
				Op::AddSub { parent, id, persist, .. } => {
					mi.nodes.insert(*id, TNode { parent: Some(*parent), persist: *persist, handle: true, picked: false, alive: true, arena: vec![], queued: vec![], cmd_this_cb: false });
				}
				Op::Play { tr, sid, .. } => {
					mi.nodes.get_mut(tr).unwrap().queued.push(*sid);
					mi.sound_track.insert(*sid, *tr);
					mi.sound_finished.insert(*sid, false);
					sound_dropped.insert(*sid, false);
				}
				Op::Pause { tr, .. } | Op::Resume { tr, .. } => mi.nodes.get_mut(tr).unwrap().cmd_this_cb = true,
				Op::Drop { tr } => mi.nodes.get_mut(tr).unwrap().handle = false,
				Op::DropSound { sid } => {
					sound_dropped.insert(*sid, true);
				}
				_ => {}
			}
		}
		// a dropped sound handle can no longer tell whether the sound finished: the removal mirror is then blind
		let blind = mi.nodes.values().any(|n| n.alive && n.persist && n.arena.iter().chain(n.queued.iter()).any(|s| sound_dropped[s]));
		let alive_before: Vec<usize> = mi.nodes.iter().filter(|(_, n)| n.alive).map(|(i, _)| *i).collect();
		mi.on_start(None);
		// --- state() total: never panics, one of five
		for (id, (st, _, _)) in &o.tracks {
			if let Err(c) = st {
				s.fail(desc.to_string(), format!("callback {k}: TrackHandle::state() of track {id} panicked (code {c})"), None);
			}
		}
		// --- resume(tween) resumes IMMEDIATELY, whatever start time the fade-in tween carries: the commands are read at
		//     this callback's start (pause first, then resume), so after this callback the handle reports Resuming, or
		//     Playing once the fade-in is over -- never Paused / WaitingToResume (that is `resume_at` with a start time)
		for (id, (st, tw)) in &last_resume {
			if *st != Start::Imm {
				continue;
			}
			if let Some((Ok(got), _, _)) = o.tracks.get(id) {
				if !matches!(got, TrackPlaybackState::Resuming | TrackPlaybackState::Playing) {
					s.fail(
						desc.to_string(),
						format!("callback {k}: track {id} was resumed with resume(tween) (= immediately; tween start {:?}, duration {} ns) before this callback, yet its handle reports {got:?} after it: the resume did not happen at once", tw.start, tw.dur_ns),
						None,
					);
				}
				let d_ns = match tw.start {
					Start::Imm => Some(0),
					Start::Del(ns) => Some(ns),
					Start::Clk { .. } => None,
				};
				if let Some(d_ns) = d_ns {
					// the tween's own delay is counted once: d + D, plus the update that notices the end of the delay, the
					// overshoot of the last update and the nanosecond truncation of the count-down (one update each)
					let need = ((d_ns + tw.dur_ns + 976_561) / 976_562) as usize + 3 * sc.ibs + 2;
					let silent = if paused_now.get(id).is_none() && prev.map(|p| matches!(p.tracks.get(id), Some((Ok(TrackPlaybackState::Paused), _, _)))).unwrap_or(false) { (d_ns / 976_563) as usize } else { 0 };
					fade_in.insert(*id, FadeIn { d_ns, dur_ns: tw.dur_ns, need, silent, elapsed: 0 });
				}
			}
		}
		for (id, fi) in fade_in.iter_mut() {
			let before = fi.elapsed;
			fi.elapsed += cb.frames;
			let anc_paused = mi.ancestors_and_self(*id).iter().skip(1).any(|a| ever_paused.get(a).copied().unwrap_or(false));
			if anc_paused {
				continue;
			}
			// the fade keeps its old value (silence: the track was Paused) until the tween's start time
			if line && before < fi.silent {
				let upto = (fi.silent - before).min(o.out.len());
				if o.out[..upto].iter().any(|x| x.to_bits() != 0) {
					s.fail(desc.to_string(), format!("callback {k}: track {id} was Paused and resumed with a fade-in tween delayed by {} ns, yet the output is not silent during the first {} frames after the resume: {:?}", fi.d_ns, fi.silent, o.out), None);
				}
			}
			if fi.elapsed >= fi.need {
				if let Some((Ok(got), _, _)) = o.tracks.get(id) {
					if *got != TrackPlaybackState::Playing {
						s.fail(
							desc.to_string(),
							format!("callback {k}: track {id} was resumed with resume(Tween {{ start_time: Delayed({} ns), duration: {} ns }}) {} frames ago (delay + duration + 3 updates = {} frames), yet it is still {got:?}: the fade-in did not start when its own delay was over", fi.d_ns, fi.dur_ns, fi.elapsed, fi.need),
							None,
						);
					}
				}
			}
		}
		// --- one sound, no effects, unit volumes (the line family): while every track is Playing and nothing was asked,
		//     every output frame is a source frame, bit for bit, and consecutive frames are consecutive source frames
		if line && cb.ops.is_empty() && !o.tracks.is_empty() {
			let all_playing = |x: &CbObs| x.tracks.values().all(|t| matches!(t.0, Ok(TrackPlaybackState::Playing)));
			if prev.map(|p| all_playing(p) && p.tracks.len() == o.tracks.len()).unwrap_or(false) && all_playing(o) {
				let mut last: Option<i64> = None;
				for x in &o.out {
					if x.to_bits() == 0 {
						last = None;
						continue;
					}
					let m = (*x as f64) * 1048576.0;
					let idx = m as i64 - 256 - 1;
					let exact = m.fract() == 0.0 && idx >= 0 && idx < 255 && frame_code(0, idx as usize).to_bits() == x.to_bits();
					if !exact || last.map(|l| idx != l + 1).unwrap_or(false) {
						s.fail(desc.to_string(), format!("callback {k}: every track is Playing (fades over), yet the output {:?} is not the run of source frames of the sound", o.out), None);
						break;
					}
					last = Some(idx);
				}
			}
		}
		if !blind {
			// --- never removed while its own or a descendant's handle is alive
			for (id, n) in &mi.nodes {
				if n.handle && !n.alive {
					s.fail(desc.to_string(), format!("callback {k}: harness mirror removed track {id} whose handle is alive (mirror bug)"), None);
				}
			}
			// --- removal timing and the persistence rule, wherever a count is observable
			let want_top = mi.children(None).len();
			if o.mgr_tracks != want_top {
				s.fail(desc.to_string(), format!("callback {k}: manager.num_sub_tracks() = {} but the removal rule leaves {want_top} top-level tracks", o.mgr_tracks), None);
			}
			for (id, (_, ns, nt)) in &o.tracks {
				let want = mi.children(Some(*id)).len();
				if *nt != want {
					s.fail(desc.to_string(), format!("callback {k}: track {id}.num_sub_tracks() = {nt} but the removal rule leaves {want}"), None);
				}
				let n = &mi.nodes[id];
				let want_s = n.arena.len() + n.queued.len();
				let tainted = n.arena.iter().chain(n.queued.iter()).any(|x| sound_dropped[x]);
				if !tainted && *ns != want_s {
					s.fail(desc.to_string(), format!("callback {k}: track {id}.num_sounds() = {ns}, expected {want_s} (finished sounds leave at the next callback)"), None);
				}
			}
		}
		// --- frozen subtree: a track that was not advancing before this callback, is not advancing after it and got no
		//     pause/resume command in between was frozen through the whole callback
		let mut frozen: BTreeMap<usize, bool> = BTreeMap::new();
		for (id, n) in &mi.nodes {
			let f = n.alive
				&& !n.cmd_this_cb
				&& prev.map(|p| p.tracks.get(id).map(|x| non_advancing(&x.0)).unwrap_or(false)).unwrap_or(false)
				&& o.tracks.get(id).map(|x| non_advancing(&x.0)).unwrap_or(false);
			frozen.insert(*id, f);
		}
		let under_frozen = |fr: &BTreeMap<usize, bool>, t: usize| mi.ancestors_and_self(t).iter().any(|a| fr.get(a).copied().unwrap_or(false));
		// output: exact zeros when every top-level track is frozen (or there is none)
		let tops = mi.children(None);
		if tops.iter().all(|t| frozen[t]) && o.out.iter().any(|x| x.to_bits() != 0) {
			s.fail(desc.to_string(), format!("callback {k}: every top-level track is paused / waiting, yet the output is not exact zeros: {:?}", o.out), None);
		}
		if o.out.iter().any(|x| x.is_nan()) {
			s.fail(desc.to_string(), format!("callback {k}: NaN or differing channels in the output"), None);
		}
		// positions: the position reported in callback k is the frame heard after callback k-1; so a sound frozen (or
		// removed) through callback k-1 reports the same position in callbacks k-1 and k
		if let Some(p) = prev {
			for (sid, (_, pos)) in &o.sounds {
				if let Some((_, ppos)) = p.sounds.get(sid) {
					let t = mi.sound_track[sid];
					if frozen_prev.get(&t).is_some() && under_frozen(&frozen_prev, t) && pos != ppos {
						s.fail(desc.to_string(), format!("callback {k}: sound {sid} moved from frame {ppos} to {pos} although track {t} or an ancestor was paused through callback {}", k - 1), None);
					}
					if removed_prev.get(&t).copied().unwrap_or(false) && pos != ppos {
						s.fail(desc.to_string(), format!("callback {k}: sound {sid} moved from frame {ppos} to {pos} after its track {t} was removed"), None);
					}
					if pos < ppos || (*pos - *ppos) as usize > sc.cbs[k - 1].frames {
						s.fail(desc.to_string(), format!("callback {k}: sound {sid} position went from {ppos} to {pos} in a callback of {} frames", sc.cbs[k - 1].frames), None);
					}
				}
			}
		}
		// removed tracks are silent: if nothing is left, the output is exact zeros
		if !blind && tops.is_empty() && o.out.iter().any(|x| x.to_bits() != 0) {
			s.fail(desc.to_string(), format!("callback {k}: no track is left, yet the output is not exact zeros"), None);
		}
		for (sid, (st, _)) in &o.sounds {
			if *st == PlaybackState::Stopped {
				mi.sound_finished.insert(*sid, true);
			}
		}
		frozen_prev = frozen;
		removed_prev = alive_before.iter().map(|i| (*i, !mi.nodes[i].alive)).collect();
		for (i, n) in &mi.nodes {
			if !n.alive {
				removed_prev.insert(*i, true);
			}
		}
		prev = Some(o);
	}
	// --- resuming continues from exactly the frame where the sound froze (one sound, unit gains, 1-frame chunks):
	//     the non-zero output frames are source frames in increasing order without repetition; a gap of one frame is
	//     allowed once per resume_at with a delayed / clock start time (the chunk in which the start time arrives is
	//     rendered at the fade-in's starting gain, silence, because the fade tween only starts with the next update)
	if pure {
		let mut next = 0usize;
		let mut sid0 = None;
		let mut n0 = 0;
		let mut skips = 0usize;
		for cb in &sc.cbs {
			for op in &cb.ops {
				if let Op::Play { sid, n, .. } = op {
					sid0 = Some(*sid);
					n0 = *n;
				}
				if let Op::Resume { st, .. } = op {
					if *st != Start::Imm {
						skips += 1;
					}
				}
			}
		}
		if let Some(sid) = sid0 {
			for (k, o) in tr.per_cb.iter().enumerate() {
				for x in &o.out {
					if x.to_bits() == 0 {
						continue;
					}
					while skips > 0 && next + 1 < n0 && x.to_bits() != frame_code(sid, next).to_bits() && x.to_bits() == frame_code(sid, next + 1).to_bits() {
						skips -= 1;
						next += 1;
					}
					if next >= n0 || x.to_bits() != frame_code(sid, next).to_bits() {
						s.fail(desc.to_string(), format!("callback {k}: heard {x:?} where source frame {next} = {:?} (or silence) was due: playback did not continue from the frame where it froze", frame_code(sid, next.min(254))), None);
						return;
					}
					next += 1;
				}
			}
		}
	}
}

// ---------------------------------------------------------------------------------------------
// generators
fn gen_easing(r: &mut Rng) -> Easing {
	match r.below(6) {
		0 => Easing::InPowi(r.range(1, 3) as i32),
		1 => Easing::OutPowi(r.range(1, 3) as i32),
		2 => Easing::InOutPowi(r.range(1, 2) as i32),
		_ => Easing::Linear,
	}
}
fn gen_start(r: &mut Rng) -> Start {
	match r.below(8) {
		0 => Start::Del(r.below(12) * 976_562 + r.below(2) * 500),
		1 => Start::Del((r.below(6) + 1) * FRAME_NS_X2),
		2 | 3 | 4 => Start::Clk { clock: r.below(2) as usize, ticks: r.below(3), fr: *r.pick(&[0.0, 0.25, 0.5]) },
		_ => Start::Imm,
	}
}
fn gen_tw(r: &mut Rng, allow_start: bool) -> Tw {
	let dur_ns = match r.below(6) {
		0 | 1 => 0,
		2 => r.below(900_000),
		3 => (r.below(6) + 1) * FRAME_NS_X2,
		4 => (r.below(10) + 1) * 976_562 + 500,
		_ => r.below(12_000_000) + 1,
	};
	Tw { start: if allow_start && r.chance(1, 5) { gen_start(r) } else { Start::Imm }, dur_ns, easing: gen_easing(r) }
}
fn zero_tw() -> Tw {
	Tw { start: Start::Imm, dur_ns: 0, easing: Easing::Linear }
}

struct GenState {
	next_id: usize,
	next_sid: usize,
	/// id -> (depth, handle alive)
	tracks: BTreeMap<usize, (usize, bool)>,
	sounds: Vec<(usize, bool)>,
	clock_alive: [bool; 2],
}
fn gen_scenario(r: &mut Rng, pure: bool) -> Scenario {
	let ibs = if pure { 1 } else { *r.pick(&[1usize, 2, 3, 4, 8]) };
	let ncb = r.range(5, 10) as usize;
	let mut g = GenState { next_id: 0, next_sid: 0, tracks: BTreeMap::new(), sounds: vec![], clock_alive: [true, true] };
	let mut cbs = vec![];
	let max_tracks = if pure { 3 } else { 4 };
	let max_sounds = if pure { 1 } else { 4 };
	for k in 0..ncb {
		let mut ops = vec![];
		let nops = if k == 0 { r.range(2, 4) } else { r.range(0, 2) };
		for _ in 0..nops {
			let live: Vec<usize> = g.tracks.iter().filter(|(_, v)| v.1).map(|(i, _)| *i).collect();
			let choice = r.below(20);
			if (g.tracks.is_empty() || (choice == 0 && !pure)) && g.next_id < max_tracks {
				let id = g.next_id;
				g.next_id += 1;
				g.tracks.insert(id, (1, true));
				ops.push(Op::AddTop { id, persist: r.chance(1, 3), fx: !pure && r.chance(1, 4), spatial: r.chance(1, 5) });
				continue;
			}
			if live.is_empty() {
				continue;
			}
			let tr = *r.pick(&live);
			match choice {
				1 | 2 | 3 if g.next_id < max_tracks && g.tracks[&tr].0 < 3 => {
					let id = g.next_id;
					g.next_id += 1;
					g.tracks.insert(id, (g.tracks[&tr].0 + 1, true));
					ops.push(Op::AddSub { parent: tr, id, persist: r.chance(1, 3), fx: !pure && r.chance(1, 4), spatial: r.chance(1, 5) });
				}
				4 | 5 | 6 | 7 if g.next_sid < max_sounds => {
					let sid = g.next_sid;
					g.next_sid += 1;
					let n = if pure { r.range(20, 60) as usize } else { r.range(3, 40) as usize };
					let start = if !pure && r.chance(1, 5) { r.below(n as u64) as usize } else { 0 };
					let st = if !pure && r.chance(1, 4) { gen_start(r) } else { Start::Imm };
					g.sounds.push((sid, true));
					// in the pure family the sound goes to the deepest live track
					let tr = if pure { *live.iter().max_by_key(|t| g.tracks[t].0).unwrap() } else { tr };
					ops.push(Op::Play { tr, sid, n, start, st });
				}
				8 | 9 | 10 => ops.push(Op::Pause { tr, tw: if pure { zero_tw() } else { gen_tw(r, true) } }),
				11 | 12 => ops.push(Op::Resume { tr, st: Start::Imm, tw: if pure { zero_tw() } else { gen_tw(r, false) } }),
				13 | 14 => ops.push(Op::Resume { tr, st: if pure { r.pick(&[Start::Del(FRAME_NS_X2), Start::Del(3 * FRAME_NS_X2), Start::Clk { clock: 0, ticks: 0, fr: 0.0 }]).clone() } else { gen_start(r) }, tw: if pure { zero_tw() } else { gen_tw(r, true) } }),
				15 if !pure => ops.push(Op::Volume { tr, db: *r.pick(&[0.0f32, -6.0, -12.0, -60.0, 3.0]), tw: gen_tw(r, true) }),
				16 | 17 if !pure || r.chance(1, 3) => {
					g.tracks.get_mut(&tr).unwrap().1 = false;
					ops.push(Op::Drop { tr });
				}
				18 if !pure => {
					if let Some(x) = g.sounds.iter_mut().find(|x| x.1) {
						x.1 = false;
						ops.push(Op::DropSound { sid: x.0 });
					}
				}
				_ => {
					let c = r.below(2) as usize;
					if g.clock_alive[c] {
						match r.below(4) {
							0 | 1 => ops.push(Op::ClockStart(c)),
							2 => ops.push(Op::ClockPause(c)),
							_ => {
								g.clock_alive[c] = false;
								ops.push(Op::ClockDrop(c));
							}
						}
					}
				}
			}
		}
		let frames = *r.pick(&[1usize, 2, 3, 4, 5, 8]);
		cbs.push(Cb { ops, frames });
	}
	Scenario { ibs, cbs }
}

fn frames_ns(f: u64) -> u64 {
	// f frames of 1/1024 s in ns, rounded down (odd counts are not whole nanoseconds)
	f * FRAME_NS_X2 / 2
}
/// the line family: a chain of 1-3 tracks (plain / spatial), ONE sound on the deepest, no effects, no volume changes;
/// one node is paused (fade-out tween with an immediate / delayed / clock start), and some callbacks later resumed with
/// `resume(tween)` whose fade-in tween carries its own start time (delayed by more than the monitor's slack, short
/// delays, clock times, immediate), or now and then with `resume_at`; then enough callbacks for the fade-in to end
fn gen_line(r: &mut Rng) -> Scenario {
	let ibs = *r.pick(&[1usize, 2, 4]);
	let depth = r.range(1, 3) as usize;
	let target = r.below(depth as u64) as usize;
	let mut cbs = vec![];
	let mut ops = vec![Op::AddTop { id: 0, persist: false, fx: false, spatial: r.chance(1, 3) }];
	for id in 1..depth {
		ops.push(Op::AddSub { parent: id - 1, id, persist: false, fx: false, spatial: r.chance(1, 3) });
	}
	ops.push(Op::Play { tr: depth - 1, sid: 0, n: 250, start: 0, st: Start::Imm });
	if r.chance(3, 4) {
		ops.push(Op::ClockStart(0));
	}
	if r.chance(1, 4) {
		ops.push(Op::ClockStart(1));
	}
	cbs.push(Cb { ops, frames: *r.pick(&[2usize, 3, 4]) });
	if r.chance(1, 2) {
		cbs.push(Cb { ops: vec![], frames: *r.pick(&[1usize, 2, 3, 4]) });
	}
	let clk = |r: &mut Rng| Start::Clk { clock: r.below(2) as usize, ticks: r.below(3), fr: *r.pick(&[0.0, 0.25, 0.5]) };
	let ptw = Tw {
		start: match r.below(6) {
			0 => Start::Del(frames_ns(r.below(4) + 1) + r.below(2) * 500),
			1 => clk(r),
			_ => Start::Imm,
		},
		dur_ns: match r.below(4) {
			0 | 1 => 0,
			2 => frames_ns(r.below(4) + 1),
			_ => r.below(4_000_000) + 1,
		},
		easing: gen_easing(r),
	};
	cbs.push(Cb { ops: vec![Op::Pause { tr: target, tw: ptw }], frames: *r.pick(&[2usize, 3, 4, 5]) });
	for _ in 0..r.range(1, 4) {
		cbs.push(Cb { ops: vec![], frames: *r.pick(&[2usize, 3, 4, 5]) });
	}
	let (rstart, d_frames) = match r.below(8) {
		0 => (Start::Imm, 0),
		1 => {
			let f = r.below(3) + 1;
			(Start::Del(frames_ns(f) + r.below(2) * 500), f)
		}
		2 | 3 => (clk(r), 0),
		_ => {
			let f = 3 * ibs as u64 + 3 + r.below(8);
			(Start::Del(frames_ns(f) + r.below(2) * 500), f)
		}
	};
	let dur_frames = r.below(7);
	let rtw = Tw { start: rstart, dur_ns: if r.chance(1, 4) { r.below(5_000_000) } else { frames_ns(dur_frames) }, easing: gen_easing(r) };
	let st = if r.chance(1, 6) { gen_start(r) } else { Start::Imm };
	cbs.push(Cb { ops: vec![Op::Resume { tr: target, st, tw: rtw }], frames: *r.pick(&[2usize, 3, 4, 5]) });
	let mut left = (d_frames + 6 + 3 * ibs as u64 + 2 + 4) as i64;
	while left > 0 {
		let f = *r.pick(&[3usize, 4, 5, 8]);
		cbs.push(Cb { ops: vec![], frames: f });
		left -= f as i64;
	}
	Scenario { ibs, cbs }
}

/// fixed histories: the F1 and F28 regressions and the minimal frozen / removal scenes
fn fixed_scenarios() -> Vec<(&'static str, Scenario, bool, bool)> {
	let z = zero_tw;
	let top = |id, persist| Op::AddTop { id, persist, fx: false, spatial: false };
	let sub = |parent, id, persist| Op::AddSub { parent, id, persist, fx: false, spatial: false };
	let play = |tr, sid, n| Op::Play { tr, sid, n, start: 0, st: Start::Imm };
	let cb = |ops: Vec<Op>, frames| Cb { ops, frames };
	let quiet = |n: usize, frames: usize| -> Vec<Cb> { (0..n).map(|_| Cb { ops: vec![], frames }).collect() };
	let del = |frames: u64, dur_frames: u64| Tw { start: Start::Del(frames_ns(frames)), dur_ns: frames_ns(dur_frames), easing: Easing::Linear };
	let seq = |parts: Vec<Vec<Cb>>| -> Vec<Cb> { parts.into_iter().flatten().collect() };
	vec![
		// --- directed: `resume(tween)` with a fade-in tween that carries its own start time.  The resume is immediate
		//     (Resuming at once, the subtree runs on silently), the tween counts its own delay ONCE: fade over after d + D
		(
			"directed: plain track paused (zero fade), Paused, resume(Tween { Delayed(12 frames), 4 frames })",
			Scenario {
				ibs: 2,
				cbs: seq(vec![
					vec![cb(vec![top(0, false), Op::Play { tr: 0, sid: 0, n: 250, start: 0, st: Start::Imm }], 4), cb(vec![Op::Pause { tr: 0, tw: z() }], 4), cb(vec![], 4), cb(vec![Op::Resume { tr: 0, st: Start::Imm, tw: del(12, 4) }], 4)],
					quiet(10, 4),
				]),
			},
			false,
			true,
		),
		(
			"directed: spatial sub-track of a plain track paused (zero fade), Paused, resume(Tween { Delayed(8 frames), 0 })",
			Scenario {
				ibs: 1,
				cbs: seq(vec![
					vec![
						cb(vec![top(0, false), Op::AddSub { parent: 0, id: 1, persist: false, fx: false, spatial: true }, Op::Play { tr: 1, sid: 0, n: 250, start: 0, st: Start::Imm }], 3),
						cb(vec![Op::Pause { tr: 1, tw: z() }], 3),
						cb(vec![], 3),
						cb(vec![Op::Resume { tr: 1, st: Start::Imm, tw: del(8, 0) }], 3),
					],
					quiet(8, 3),
				]),
			},
			false,
			true,
		),
		(
			"directed: spatial top track, 8-frame fade-out, resume(Tween { Delayed(16 frames), 6 frames, InPowi(2) }) while still Pausing",
			Scenario {
				ibs: 4,
				cbs: seq(vec![
					vec![
						cb(vec![Op::AddTop { id: 0, persist: false, fx: false, spatial: true }, Op::Play { tr: 0, sid: 0, n: 250, start: 0, st: Start::Imm }], 4),
						cb(vec![Op::Pause { tr: 0, tw: Tw { start: Start::Imm, dur_ns: frames_ns(8), easing: Easing::Linear } }], 4),
						cb(vec![Op::Resume { tr: 0, st: Start::Imm, tw: Tw { start: Start::Del(frames_ns(16)), dur_ns: frames_ns(6), easing: Easing::InPowi(2) } }], 4),
					],
					quiet(12, 5),
				]),
			},
			false,
			true,
		),
		(
			"directed: chain of three, middle track paused with a delayed fade-out, Paused, resume(Tween { ClockTime(clock 0, tick 2), 4 frames })",
			Scenario {
				ibs: 2,
				cbs: seq(vec![
					vec![
						cb(vec![top(0, false), sub(0, 1, false), Op::AddSub { parent: 1, id: 2, persist: false, fx: false, spatial: true }, Op::Play { tr: 2, sid: 0, n: 250, start: 0, st: Start::Imm }, Op::ClockStart(0)], 4),
						cb(vec![Op::Pause { tr: 1, tw: del(3, 2) }], 4),
						cb(vec![], 4),
						cb(vec![], 4),
						cb(vec![Op::Resume { tr: 1, st: Start::Imm, tw: Tw { start: Start::Clk { clock: 0, ticks: 2, fr: 0.0 }, dur_ns: frames_ns(4), easing: Easing::Linear } }], 4),
					],
					quiet(8, 4),
				]),
			},
			false,
			true,
		),
		(
			"F1 regression: pause; resume_at(ClockTime c); clock c dropped",
			Scenario {
				ibs: 4,
				cbs: vec![
					cb(vec![top(0, false), play(0, 0, 30)], 4),
					cb(vec![Op::Pause { tr: 0, tw: z() }], 4),
					cb(vec![Op::Resume { tr: 0, st: Start::Clk { clock: 0, ticks: 1, fr: 0.0 }, tw: z() }], 4),
					cb(vec![Op::ClockDrop(0)], 4),
					cb(vec![], 4),
					cb(vec![Op::Resume { tr: 0, st: Start::Imm, tw: z() }], 4),
					cb(vec![], 4),
				],
			},
			false,
			false,
		),
		(
			"F28 regression (a): persisting track, sound played and handle dropped between two callbacks",
			Scenario { ibs: 8, cbs: vec![cb(vec![top(0, true)], 4), cb(vec![play(0, 0, 10), Op::Drop { tr: 0 }], 4), cb(vec![], 4), cb(vec![], 4), cb(vec![], 4), cb(vec![], 4), cb(vec![], 4)] },
			false,
			false,
		),
		(
			"F28 regression (b): child added and parent handle dropped between two callbacks",
			Scenario { ibs: 8, cbs: vec![cb(vec![top(0, false)], 4), cb(vec![sub(0, 1, false), play(1, 0, 10), Op::Drop { tr: 0 }], 4), cb(vec![], 4), cb(vec![], 4), cb(vec![Op::Drop { tr: 1 }], 4), cb(vec![], 4), cb(vec![], 4)] },
			false,
			false,
		),
		(
			"queued track dropped at once: plays one callback, removed at the one after",
			Scenario { ibs: 8, cbs: vec![cb(vec![top(0, false), play(0, 0, 20), Op::Drop { tr: 0 }], 4), cb(vec![], 4), cb(vec![], 4)] },
			false,
			false,
		),
		(
			"three-node chain, pause the root with a zero fade, resume after three callbacks",
			Scenario {
				ibs: 1,
				cbs: vec![
					cb(vec![top(0, false), sub(0, 1, false), sub(1, 2, false), play(2, 0, 40)], 3),
					cb(vec![], 5),
					cb(vec![Op::Pause { tr: 0, tw: z() }], 4),
					cb(vec![], 2),
					cb(vec![], 8),
					cb(vec![Op::Resume { tr: 0, st: Start::Imm, tw: z() }], 3),
					cb(vec![Op::Pause { tr: 1, tw: z() }], 3),
					cb(vec![Op::Resume { tr: 1, st: Start::Del(3 * FRAME_NS_X2), tw: z() }], 4),
					cb(vec![], 8),
					cb(vec![], 8),
				],
			},
			true,
			false,
		),
	]
}

fn key_of(t: &str) -> String {
	let mut h = 1469598103934665603u64;
	for b in t.bytes() {
		h = (h ^ b as u64).wrapping_mul(1099511628211);
	}
	format!("{h:x}")
}

pub fn run(args: &Args) {
	let mut rng = Rng::new(args.seed ^ 0xC12);
	let n: u64 = (if args.thorough { 6_000 } else { 600 }) * args.budget_mul;
	let mut s = Session::new(
		"C12",
		&args.out,
		"From Coq Require Import ZArith List. Import ListNotations. Open Scope Z_scope.\nFrom KV Require Import Base.Corr C06.Run C03.Run C12.Run.",
		"run",
		25,
		"one case = one real AudioManager (sample rate 1024, internal buffer size 1-8) with a tree of up to 4 sub-tracks of depth <= 3 (plain and spatial handles, persistence on/off, optional counting probe effect), up to 4 index-coded static sounds (start position, start delay immediate/delayed/clock), two real clocks (started, paused, dropped), driven through 5-10 callbacks of 1-8 frames with generated pause / resume / resume_at / set_volume / drop-track / drop-sound operations (fade tweens of 0, sub-frame, frame-multiple and arbitrary length, Linear/Powi easings, immediate/delayed/clock start, also for the fade-in tween of resume(tween)); plus the line family (chain of 1-3 tracks, one sound, pause then resume(tween) with a delayed / clock / immediate tween start, up to 20 callbacks) and four directed resume(delayed tween) histories that run first; observables per callback: manager.num_sub_tracks(), for every live track handle state() (under catch_unwind) / num_sounds() / num_sub_tracks(), for every live sound handle state() / position(), every output frame (bit pattern); distinct = distinct case text; non-trivial = at least one pause/resume/drop operation",
	);
	let mut all: Vec<(String, Scenario, bool, bool)> = fixed_scenarios().into_iter().map(|(a, b, c, d)| (a.to_string(), b, c, d)).collect();
	for i in 0..n {
		let pure = i % 4 == 3;
		all.push((if pure { "pure".into() } else { "random".into() }, gen_scenario(&mut rng, pure), pure, false));
		// the line family on top of the others: resume(tween) with tweens that carry their own start time
		if i % 4 == 1 {
			all.push(("line".into(), gen_line(&mut rng), false, true));
		}
	}
	for (name, sc, pure, line) in &all {
		let tr = run_scenario(sc);
		let t = term(sc, &tr);
		let nontrivial = sc.cbs.iter().any(|c| c.ops.iter().any(|o| matches!(o, Op::Pause { .. } | Op::Resume { .. } | Op::Drop { .. })));
		let kind = if name == "pure" || name == "random" || name == "line" { name.as_str() } else { "fixed" };
		s.case(kind, t.clone(), &tr.obs, if nontrivial { Some(key_of(&t)) } else { None });
		for o in &tr.per_cb {
			for (_, (st, _, _)) in &o.tracks {
				if let Ok(st) = st {
					s.count(&format!("track_state_{st:?}"));
				}
			}
		}
		let desc = format!("{name}: ibs={} {:?}", sc.ibs, sc.cbs);
		monitors(&mut s, &desc, sc, &tr, *pure, *line);
	}
	s.finish();
}
