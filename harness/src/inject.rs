//! Deterministic interleavings of the caller's thread with `Renderer::on_start_processing`, through the public
//! API only: an effect's `on_start_processing` runs in the middle of the audio thread's start-of-callback
//! bookkeeping (inside the sub-track loop, the send-track loop or the main track's turn), which is exactly where a
//! concurrently running caller can get its work in.  A `HookFx` sitting on an already live track runs a closure
//! there; the closure locks the manager and plays the caller's part.
#![allow(dead_code)]
use kira::backend::{Backend, Renderer};
use kira::effect::{Effect, EffectBuilder};
use kira::info::Info;
use kira::sound::{Sound, SoundData};
use kira::track::MainTrackBuilder;
use kira::{AudioManager, AudioManagerSettings, Capacities, Frame};
use std::sync::{Arc, Mutex};

pub type SharedRenderer = Arc<Mutex<Option<Renderer>>>;
pub struct SBk {
	renderer: SharedRenderer,
}
pub struct SBkSettings {
	pub renderer: SharedRenderer,
	pub sample_rate: u32,
}
impl Backend for SBk {
	type Settings = SBkSettings;
	type Error = ();
	fn setup(settings: SBkSettings, _internal_buffer_size: usize) -> Result<(Self, u32), ()> {
		Ok((SBk { renderer: settings.renderer }, settings.sample_rate))
	}
	fn start(&mut self, renderer: Renderer) -> Result<(), ()> {
		*self.renderer.lock().unwrap() = Some(renderer);
		Ok(())
	}
}
pub type SMgr = Arc<Mutex<AudioManager<SBk>>>;

pub type Hook = Arc<Mutex<Option<Box<dyn FnOnce() + Send>>>>;
pub struct HookFx {
	hook: Hook,
}
impl Effect for HookFx {
	fn on_start_processing(&mut self) {
		let h = self.hook.lock().unwrap().take();
		if let Some(h) = h {
			h();
		}
	}
	fn process(&mut self, _input: &mut [Frame], _dt: f64, _info: &Info) {}
}
pub struct HookFxBuilder(pub Hook);
impl EffectBuilder for HookFxBuilder {
	type Handle = ();
	fn build(self) -> (Box<dyn Effect>, ()) {
		(Box::new(HookFx { hook: self.0 }), ())
	}
}

/// a sound that outputs a constant for ever
pub struct Dc(pub f32);
impl Sound for Dc {
	fn process(&mut self, out: &mut [Frame], _dt: f64, _info: &Info) {
		out.fill(Frame::from_mono(self.0));
	}
	fn finished(&self) -> bool {
		false
	}
}
impl SoundData for Dc {
	type Error = ();
	type Handle = ();
	fn into_sound(self) -> Result<(Box<dyn Sound>, ()), ()> {
		Ok((Box::new(self), ()))
	}
}

pub fn shared_manager(sample_rate: u32, internal_buffer_size: usize, main: MainTrackBuilder) -> (SMgr, SharedRenderer) {
	let renderer = SharedRenderer::default();
	let m = AudioManager::<SBk>::new(AudioManagerSettings {
		capacities: Capacities::default(),
		main_track_builder: main,
		internal_buffer_size,
		backend_settings: SBkSettings { renderer: renderer.clone(), sample_rate },
	})
	.unwrap();
	(Arc::new(Mutex::new(m)), renderer)
}

/// one device callback (the manager is NOT locked meanwhile: hooks lock it)
pub fn callback(renderer: &SharedRenderer, frames: usize, channels: u16) -> Vec<f32> {
	let mut g = renderer.lock().unwrap();
	let r = g.as_mut().unwrap();
	let mut out = vec![f32::from_bits(0x7FC0_1234); frames * channels as usize];
	r.on_start_processing();
	r.process(&mut out, channels);
	out
}

/// a sound that outputs silence for ever and runs a hook in `on_start_processing`: inside its track's
/// `on_start_processing`, AFTER the track's sounds were drained and BEFORE its sub-tracks are
pub struct HookSound(pub Hook);
impl Sound for HookSound {
	fn on_start_processing(&mut self) {
		let h = self.0.lock().unwrap().take();
		if let Some(h) = h {
			h();
		}
	}
	fn process(&mut self, out: &mut [Frame], _dt: f64, _info: &Info) {
		out.fill(Frame::ZERO);
	}
	fn finished(&self) -> bool {
		false
	}
}
impl SoundData for HookSound {
	type Error = ();
	type Handle = ();
	fn into_sound(self) -> Result<(Box<dyn Sound>, ()), ()> {
		Ok((Box::new(self), ()))
	}
}

/// a constant source that counts the frames it was asked for
pub struct CountingDc(pub f32, pub Arc<std::sync::atomic::AtomicUsize>);
impl Sound for CountingDc {
	fn process(&mut self, out: &mut [Frame], _dt: f64, _info: &Info) {
		self.1.fetch_add(out.len(), std::sync::atomic::Ordering::SeqCst);
		out.fill(Frame::from_mono(self.0));
	}
	fn finished(&self) -> bool {
		false
	}
}
impl SoundData for CountingDc {
	type Error = ();
	type Handle = ();
	fn into_sound(self) -> Result<(Box<dyn Sound>, ()), ()> {
		Ok((Box::new(self), ()))
	}
}
