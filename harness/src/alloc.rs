//! Counting global allocator: counts allocations and frees made by the CURRENT thread while it is
//! "armed" (the harness arms it only around the audio callback), so that "no heap allocation or
//! free on the audio thread" is an observable.
use std::alloc::{GlobalAlloc, Layout, System};
use std::cell::Cell;

thread_local! {
	static ARMED: Cell<bool> = const { Cell::new(false) };
	static ALLOCS: Cell<u64> = const { Cell::new(0) };
	static FREES: Cell<u64> = const { Cell::new(0) };
}
pub static TRACE: std::sync::atomic::AtomicBool = std::sync::atomic::AtomicBool::new(false);
fn trace() {
	if TRACE.load(std::sync::atomic::Ordering::Relaxed) {
		let _ = ARMED.try_with(|a| a.set(false));
		eprintln!("ALLOC on audio path:\n{}", std::backtrace::Backtrace::force_capture());
		let _ = ARMED.try_with(|a| a.set(true));
	}
}
pub struct CountingAlloc;
unsafe impl GlobalAlloc for CountingAlloc {
	unsafe fn alloc(&self, l: Layout) -> *mut u8 {
		let _ = ARMED.try_with(|a| {
			if a.get() {
				let _ = ALLOCS.try_with(|c| c.set(c.get() + 1));
				trace();
			}
		});
		System.alloc(l)
	}
	unsafe fn dealloc(&self, p: *mut u8, l: Layout) {
		let _ = ARMED.try_with(|a| {
			if a.get() {
				let _ = FREES.try_with(|c| c.set(c.get() + 1));
			}
		});
		System.dealloc(p, l)
	}
	unsafe fn realloc(&self, p: *mut u8, l: Layout, n: usize) -> *mut u8 {
		let _ = ARMED.try_with(|a| {
			if a.get() {
				let _ = ALLOCS.try_with(|c| c.set(c.get() + 1));
			}
		});
		System.realloc(p, l, n)
	}
}
/// runs `f` with counting armed on this thread; returns (result, allocations, frees)
pub fn counted<T>(f: impl FnOnce() -> T) -> (T, u64, u64) {
	let (a0, f0) = (ALLOCS.with(|c| c.get()), FREES.with(|c| c.get()));
	ARMED.with(|a| a.set(true));
	let r = f();
	ARMED.with(|a| a.set(false));
	(r, ALLOCS.with(|c| c.get()) - a0, FREES.with(|c| c.get()) - f0)
}
