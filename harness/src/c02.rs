//! C02 — mixer signal flow.  Random track trees inside a REAL `AudioManager<VBackend>` built from
//! probe sounds (public `Sound` / `SoundData` traits) and probe effects (public `Effect` /
//! `EffectBuilder` traits) whose values are dyadic rationals (multiples of 2^-24, total magnitude
//! < 1, at most five halvings on any path) so that every f32 operation of the mixer is exact.
//! (1) Each segment of callbacks with no command in flight is a case for the buffer-level Gallina
//! model (`C02/Run.v`): device buffer + every call log must be predicted exactly.
//! (2) Monitors on the implementation: every probe sound is handed an all-zero buffer; every
//! sound / effect on an advancing path is asked for exactly the chunk sequence b, b, .., rest of
//! every callback, nobody else is asked; after silencing actions (stop all sounds / pause / remove /
//! mute) the device buffer is exact zeros; under tweened volumes the output stays between the
//! muted and the unmuted rendering.
use crate::backend::*;
use crate::util::*;
use kira::effect::{Effect, EffectBuilder};
use kira::info::Info;
use kira::sound::{Sound, SoundData};
use kira::track::{MainTrackBuilder, SendTrackBuilder, SendTrackHandle, SendTrackId, TrackBuilder, TrackHandle};
use kira::{Capacities, Decibels, Easing, Frame, StartTime, Tween};
use std::sync::atomic::{AtomicBool, Ordering};
use std::sync::{Arc, Mutex};
use std::time::Duration;

pub const UNIT: f64 = 16777216.0; // 2^24
pub const SR: u32 = 48000;
pub type Log = Arc<Mutex<Vec<usize>>>;

fn units(u: u64) -> f32 {
	(u as f64 / UNIT) as f32
}

// ---------------------------------------------------------------- probes
pub struct SndProbe {
	id: u64,
	pos: u64,
	log: Log,
	stop: Arc<AtomicBool>,
	dirty: Arc<AtomicBool>,
}
impl Sound for SndProbe {
	fn process(&mut self, out: &mut [Frame], _dt: f64, _info: &Info) {
		if out.iter().any(|f| f.left.to_bits() != 0 || f.right.to_bits() != 0) {
			self.dirty.store(true, Ordering::SeqCst);
		}
		for (i, f) in out.iter_mut().enumerate() {
			let v = self.id * (1 << 13) + ((self.pos + i as u64) % 128) * 64;
			*f = Frame::new(units(v), units(v + 512));
		}
		self.pos += out.len() as u64;
		self.log.lock().unwrap().push(out.len());
	}
	fn finished(&self) -> bool {
		self.stop.load(Ordering::SeqCst)
	}
}
pub struct SndData(SndProbe);
impl SoundData for SndData {
	type Error = ();
	type Handle = ();
	fn into_sound(self) -> Result<(Box<dyn Sound>, ()), ()> {
		Ok((Box::new(self.0), ()))
	}
}
pub struct FxProbe {
	k: u64,
	pos: u64,
	log: Log,
	bad_dt: Arc<AtomicBool>,
}
impl Effect for FxProbe {
	fn process(&mut self, input: &mut [Frame], dt: f64, _info: &Info) {
		if dt.to_bits() != (1.0 / SR as f64).to_bits() {
			self.bad_dt.store(true, Ordering::SeqCst);
		}
		for (i, f) in input.iter_mut().enumerate() {
			let o = if self.k == 0 { 0.0 } else { units(self.k * 4096 + ((self.pos + i as u64) % 8) * 64) };
			*f = Frame::new(f.left * 0.5 + o, f.right * 0.5 + o);
		}
		self.pos += input.len() as u64;
		self.log.lock().unwrap().push(input.len());
	}
}
pub struct FxBuilder(FxProbe);
impl EffectBuilder for FxBuilder {
	type Handle = ();
	fn build(self) -> (Box<dyn Effect>, ()) {
		(Box::new(self.0), ())
	}
}

// ---------------------------------------------------------------- shadow of the scene (arena iteration order)
pub struct PSnd {
	pub id: u64,
	pub log: Log,
	pub stop: Arc<AtomicBool>,
	pub dirty: Arc<AtomicBool>,
	pub mark: usize,
	/// already picked up by the audio thread (an item removed before that lives for one callback)
	pub ins: bool,
}
pub struct PFx {
	pub k: u64,
	pub log: Log,
	pub bad_dt: Arc<AtomicBool>,
	pub mark: usize,
}
pub struct Node {
	pub h: TrackHandle,
	pub adv: bool,
	pub gain: u8,
	pub pending: bool,
	pub subs: Vec<Node>,
	pub snds: Vec<PSnd>,
	pub fx: Vec<PFx>,
	pub routes: Vec<(u64, SendTrackId, u8)>,
	pub fx_path: usize,
	pub depth: usize,
	pub ins: bool,
	/// a pause / resume command was written since the last callback (pause is read before resume whatever the order of writing)
	pub psm_cmd: bool,
}
pub struct SendN {
	pub h: SendTrackHandle,
	pub key: u64,
	pub gain: u8,
	pub fx: Vec<PFx>,
	pub ins: bool,
}
pub struct Scene {
	pub mgr: Mgr,
	pub b: usize,
	pub main_gain: u8,
	pub main_pending: bool,
	pub main_snds: Vec<PSnd>,
	pub main_fx: Vec<PFx>,
	pub subs: Vec<Node>,
	pub sends: Vec<SendN>,
	pub dead_sends: Vec<(u64, SendTrackId)>,
	next_id: u64,
	next_key: u64,
	/// only pure-halving effects (silence in -> silence out), for the leak scenarios
	pub silent_fx: bool,
	pub hist: Vec<String>,
}

pub fn zero_tween() -> Tween {
	Tween { start_time: StartTime::Immediate, duration: Duration::ZERO, easing: Easing::Linear }
}
fn db(g: u8) -> Decibels {
	if g == 0 {
		Decibels::SILENCE
	} else {
		Decibels::IDENTITY
	}
}
fn sum(l: &Log, upto: usize) -> u64 {
	l.lock().unwrap()[..upto].iter().map(|x| *x as u64).sum()
}
fn len(l: &Log) -> usize {
	l.lock().unwrap().len()
}
pub fn chunk_sizes(b: usize, mut n: usize) -> Vec<usize> {
	let mut v = vec![];
	while n > 0 {
		let k = n.min(b);
		v.push(k);
		n -= k;
	}
	v
}

fn count_nodes(subs: &[Node]) -> usize {
	subs.iter().map(|n| 1 + count_nodes(&n.subs)).sum()
}
fn count_sounds(subs: &[Node]) -> usize {
	subs.iter().map(|n| n.snds.len() + count_sounds(&n.subs)).sum()
}
fn nth_node_mut<'a>(subs: &'a mut Vec<Node>, idx: &mut usize) -> Option<&'a mut Node> {
	for n in subs.iter_mut() {
		if *idx == 0 {
			return Some(n);
		}
		*idx -= 1;
		if let Some(x) = nth_node_mut(&mut n.subs, idx) {
			return Some(x);
		}
	}
	None
}
fn remove_nth(subs: &mut Vec<Node>, idx: &mut usize) -> Option<Node> {
	for i in 0..subs.len() {
		if *idx == 0 {
			return Some(subs.remove(i));
		}
		*idx -= 1;
		if let Some(x) = remove_nth(&mut subs[i].subs, idx) {
			return Some(x);
		}
	}
	None
}

impl Scene {
	pub fn new(r: &mut Rng, b: usize, silent_fx: bool) -> Scene {
		let mut main = MainTrackBuilder::new();
		let mut main_fx = vec![];
		let mut sc_next_id = 0;
		if r.chance(1, 2) {
			let (f, p) = Self::mk_fx(r, silent_fx);
			main.add_effect(f);
			main_fx.push(p);
		}
		let _ = &mut sc_next_id;
		let mgr = manager(SR, b, Capacities::default(), main);
		Scene {
			mgr,
			b,
			main_gain: 1,
			main_pending: false,
			main_snds: vec![],
			main_fx,
			subs: vec![],
			sends: vec![],
			dead_sends: vec![],
			next_id: 0,
			next_key: 0,
			silent_fx,
			hist: vec![],
		}
	}
	fn mk_fx(r: &mut Rng, silent: bool) -> (FxBuilder, PFx) {
		let k = if silent { 0 } else { r.below(4) };
		let log: Log = Arc::new(Mutex::new(vec![]));
		let bad = Arc::new(AtomicBool::new(false));
		(FxBuilder(FxProbe { k, pos: 0, log: log.clone(), bad_dt: bad.clone() }), PFx { k, log, bad_dt: bad, mark: 0 })
	}
	fn mk_snd(&mut self) -> (SndData, PSnd) {
		self.next_id += 1;
		let id = 1 + (self.next_id - 1) % 12;
		let log: Log = Arc::new(Mutex::new(vec![]));
		let stop = Arc::new(AtomicBool::new(false));
		let dirty = Arc::new(AtomicBool::new(false));
		(SndData(SndProbe { id, pos: 0, log: log.clone(), stop: stop.clone(), dirty: dirty.clone() }), PSnd { id, log, stop, dirty, mark: 0, ins: false })
	}
	pub fn num_sounds(&self) -> usize {
		self.main_snds.len() + count_sounds(&self.subs)
	}
	pub fn num_nodes(&self) -> usize {
		count_nodes(&self.subs)
	}
	pub fn add_send(&mut self, r: &mut Rng) {
		if self.sends.len() >= 2 {
			return;
		}
		let mut bld = SendTrackBuilder::new();
		let mut fx = vec![];
		if r.chance(1, 2) {
			let (f, p) = Self::mk_fx(r, self.silent_fx);
			bld.add_effect(f);
			fx.push(p);
		}
		let gain = if r.chance(1, 8) && !self.silent_fx { 0 } else { 1 };
		let h = self.mgr.add_send_track(bld.volume(db(gain))).unwrap();
		self.next_key += 1;
		self.sends.insert(0, SendN { h, key: self.next_key, gain, fx, ins: false });
	}
	pub fn drop_send(&mut self, r: &mut Rng) {
		if self.sends.is_empty() {
			return;
		}
		let i = r.below(self.sends.len() as u64) as usize;
		if !self.sends[i].ins {
			return;
		}
		let s = self.sends.remove(i);
		self.dead_sends.push((s.key, s.h.id()));
	}
	/// adds a sub-track under node number `at` (DFS numbering), or at top level if `at` is None
	pub fn add_track(&mut self, r: &mut Rng, at: Option<usize>) {
		if self.num_nodes() >= 9 {
			return;
		}
		let (fx_path, depth) = match at {
			None => (0, 0),
			Some(i) => {
				let mut k = i;
				match nth_node_mut(&mut self.subs, &mut k) {
					Some(n) => (n.fx_path, n.depth),
					None => return,
				}
			}
		};
		if depth >= 4 {
			return;
		}
		let mut bld = TrackBuilder::new();
		let mut fx = vec![];
		let nfx = r.below(3).min((3 - fx_path) as u64) as usize;
		let nfx = if r.chance(1, 2) { nfx } else { 0 };
		for _ in 0..nfx {
			let (f, p) = Self::mk_fx(r, self.silent_fx);
			bld.add_effect(f);
			fx.push(p);
		}
		let gain = if r.chance(1, 8) && !self.silent_fx { 0 } else { 1 };
		bld = bld.volume(db(gain));
		let mut routes: Vec<(u64, SendTrackId, u8)> = vec![];
		let mut cands: Vec<(u64, SendTrackId)> = self.sends.iter().map(|s| (s.key, s.h.id())).collect();
		cands.extend(self.dead_sends.iter().cloned());
		for (key, id) in cands {
			if r.chance(1, 2) && !routes.iter().any(|x| x.1 == id) {
				let g = if r.chance(1, 6) { 0 } else { 1 };
				bld = bld.with_send(id, db(g));
				routes.push((key, id, g));
			}
		}
		let h = match at {
			None => self.mgr.add_sub_track(bld).unwrap(),
			Some(i) => {
				let mut k = i;
				nth_node_mut(&mut self.subs, &mut k).unwrap().h.add_sub_track(bld).unwrap()
			}
		};
		let node = Node { h, adv: true, gain, pending: false, subs: vec![], snds: vec![], fx, routes, fx_path: fx_path + nfx, depth: depth + 1, ins: false, psm_cmd: false };
		match at {
			None => self.subs.insert(0, node),
			Some(i) => {
				let mut k = i;
				nth_node_mut(&mut self.subs, &mut k).unwrap().subs.insert(0, node)
			}
		}
	}
	pub fn add_sound(&mut self, at: Option<usize>) {
		if self.num_sounds() >= 12 {
			return;
		}
		let (d, p) = self.mk_snd();
		match at {
			None => {
				self.mgr.play(d).unwrap();
				self.main_snds.insert(0, p);
			}
			Some(i) => {
				let mut k = i;
				if let Some(n) = nth_node_mut(&mut self.subs, &mut k) {
					if n.snds.len() < 3 {
						n.h.play(d).unwrap();
						n.snds.insert(0, p);
					}
				}
			}
		}
	}
	fn all_sounds_mut<'a>(&'a mut self) -> Vec<(Option<usize>, usize)> {
		// (node number or None for main, index in that node)
		let mut v: Vec<(Option<usize>, usize)> = (0..self.main_snds.len()).map(|i| (None, i)).collect();
		fn go(subs: &[Node], num: &mut usize, v: &mut Vec<(Option<usize>, usize)>) {
			for n in subs {
				let me = *num;
				*num += 1;
				for i in 0..n.snds.len() {
					v.push((Some(me), i));
				}
				go(&n.subs, num, v);
			}
		}
		let mut num = 0;
		go(&self.subs, &mut num, &mut v);
		v
	}
	pub fn stop_sound(&mut self, r: &mut Rng) {
		let all = self.all_sounds_mut();
		if all.is_empty() {
			return;
		}
		let (at, i) = all[r.below(all.len() as u64) as usize];
		let inserted = match at {
			None => self.main_snds[i].ins,
			Some(n) => {
				let mut k = n;
				nth_node_mut(&mut self.subs, &mut k).unwrap().snds[i].ins
			}
		};
		if !inserted {
			return;
		}
		let p = match at {
			None => self.main_snds.remove(i),
			Some(n) => {
				let mut k = n;
				nth_node_mut(&mut self.subs, &mut k).unwrap().snds.remove(i)
			}
		};
		self.hist.push(format!("stopped id {} at {:?} idx {} loglen {}", p.id, at, i, len(&p.log)));
		p.stop.store(true, Ordering::SeqCst);
	}
	pub fn stop_all_sounds(&mut self) {
		fn go(subs: &mut [Node]) {
			for n in subs {
				for p in n.snds.drain(..) {
					p.stop.store(true, Ordering::SeqCst);
				}
				go(&mut n.subs);
			}
		}
		go(&mut self.subs);
		for p in self.main_snds.drain(..) {
			p.stop.store(true, Ordering::SeqCst);
		}
	}
	pub fn random_edit(&mut self, r: &mut Rng) {
		let nn = self.num_nodes();
		let pick_node = |r: &mut Rng| if nn == 0 || r.chance(1, 4) { None } else { Some(r.below(nn as u64) as usize) };
		let code = r.below(12);
		self.hist.push(format!("edit{code}"));
		match code {
			0 | 1 => {
				let at = pick_node(r);
				self.add_sound(at)
			}
			2 => self.stop_sound(r),
			3 | 4 => {
				let at = pick_node(r);
				self.add_track(r, at)
			}
			5 => {
				if nn > 0 {
					fn all_ins(n: &Node) -> bool {
						n.ins && n.subs.iter().all(all_ins)
					}
					let i = r.below(nn as u64) as usize;
					let mut k = i;
					if all_ins(nth_node_mut(&mut self.subs, &mut k).unwrap()) {
						let mut k = i;
						drop(remove_nth(&mut self.subs, &mut k));
					}
				}
			}
			6 => self.add_send(r),
			7 => self.drop_send(r),
			8 => {
				// pause / resume (zero-length fade)
				if nn > 0 {
					let mut k = r.below(nn as u64) as usize;
					let n = nth_node_mut(&mut self.subs, &mut k).unwrap();
					if n.psm_cmd {
						return;
					}
					n.psm_cmd = true;
					if n.adv {
						n.h.pause(zero_tween());
						n.adv = false;
					} else {
						n.h.resume(zero_tween());
						n.adv = true;
						n.pending = true;
					}
				}
			}
			9 => {
				// volume 0 dB <-> silent
				if self.silent_fx {
					return;
				}
				match pick_node(r) {
					Some(i) => {
						let mut k = i;
						let n = nth_node_mut(&mut self.subs, &mut k).unwrap();
						n.gain ^= 1;
						n.h.set_volume(db(n.gain), zero_tween());
						n.pending = true;
					}
					None => {
						if r.chance(1, 2) || self.sends.is_empty() {
							self.main_gain ^= 1;
							let g = self.main_gain;
							self.mgr.main_track().set_volume(db(g), zero_tween());
						} else {
							let i = r.below(self.sends.len() as u64) as usize;
							self.sends[i].gain ^= 1;
							let g = self.sends[i].gain;
							self.sends[i].h.set_volume(db(g), zero_tween());
						}
						self.main_pending = true;
					}
				}
			}
			10 => {
				// route volume (not interpolated: takes effect in the next chunk)
				if nn > 0 {
					let mut k = r.below(nn as u64) as usize;
					let n = nth_node_mut(&mut self.subs, &mut k).unwrap();
					if !n.routes.is_empty() {
						let i = r.below(n.routes.len() as u64) as usize;
						n.routes[i].2 ^= 1;
						let (_, id, g) = n.routes[i];
						n.h.set_send(id, db(g), zero_tween()).unwrap();
					}
				}
			}
			_ => {}
		}
	}
	/// is a gain ramp (volume change / resume) waiting in a node that the next chunk will process?
	pub fn ramp_pending(&self) -> bool {
		fn go(subs: &[Node]) -> bool {
			subs.iter().any(|n| n.adv && (n.pending || go(&n.subs)))
		}
		self.main_pending || go(&self.subs)
	}
	fn clear_pending(&mut self) {
		fn go(subs: &mut [Node]) {
			for n in subs {
				if n.adv {
					n.pending = false;
					go(&mut n.subs);
				}
			}
		}
		self.main_pending = false;
		go(&mut self.subs);
		fn mark(subs: &mut [Node]) {
			for n in subs {
				n.ins = true;
				n.psm_cmd = false;
				for p in n.snds.iter_mut() {
					p.ins = true;
				}
				mark(&mut n.subs);
			}
		}
		mark(&mut self.subs);
		for p in self.main_snds.iter_mut() {
			p.ins = true;
		}
		for p in self.sends.iter_mut() {
			p.ins = true;
		}
	}
	/// Gallina term of the scene as it will be when the next callback starts; sets the log marks
	pub fn snapshot_term(&mut self, ch: u16, cbs: &[usize]) -> String {
		fn snds(v: &mut [PSnd]) -> String {
			let mut o = vec![];
			for p in v.iter_mut() {
				p.mark = len(&p.log);
				o.push(format!("({}, {})", p.id, sum(&p.log, p.mark)));
			}
			format!("[{}]", o.join("; "))
		}
		fn fxs(v: &mut [PFx]) -> String {
			let mut o = vec![];
			for p in v.iter_mut() {
				p.mark = len(&p.log);
				o.push(format!("({}, {})", p.k, sum(&p.log, p.mark)));
			}
			format!("[{}]", o.join("; "))
		}
		fn node(n: &mut Node) -> String {
			let subs: Vec<String> = n.subs.iter_mut().map(node).collect();
			let mut routes: Vec<(u64, u8)> = n.routes.iter().map(|(k, _, g)| (*k, *g)).collect();
			routes.sort();
			format!(
				"RT {} {} [{}] {} {} [{}]",
				n.adv as u8,
				n.gain,
				subs.join("; "),
				snds(&mut n.snds),
				fxs(&mut n.fx),
				routes.iter().map(|(k, g)| format!("({}, {})", k, g)).collect::<Vec<_>>().join("; ")
			)
		}
		let subs: Vec<String> = self.subs.iter_mut().map(node).collect();
		let sends: Vec<String> = self.sends.iter_mut().map(|s| format!("RS {} {} {}", s.key, s.gain, fxs(&mut s.fx))).collect();
		format!(
			"CScene {} {} [{}] {} {} {} [{}] [{}]",
			self.b,
			ch,
			cbs.iter().map(|x| x.to_string()).collect::<Vec<_>>().join("; "),
			self.main_gain,
			snds(&mut self.main_snds),
			fxs(&mut self.main_fx),
			subs.join("; "),
			sends.join("; ")
		)
	}
	pub fn render(&mut self, ch: u16, cbs: &[usize]) -> Vec<f32> {
		let mut out = vec![];
		for n in cbs {
			out.extend(self.mgr.backend_mut().callback(*n, ch));
			self.clear_pending();
		}
		out
	}
	/// logs since the marks, in the traversal order of `enc_mixer` (Run.v)
	pub fn logs_since_mark(&self) -> Vec<Vec<usize>> {
		fn node(n: &Node, o: &mut Vec<Vec<usize>>) {
			for p in &n.snds {
				o.push(p.log.lock().unwrap()[p.mark..].to_vec());
			}
			for p in &n.fx {
				o.push(p.log.lock().unwrap()[p.mark..].to_vec());
			}
			for c in &n.subs {
				node(c, o);
			}
		}
		let mut o = vec![];
		for p in &self.main_snds {
			o.push(p.log.lock().unwrap()[p.mark..].to_vec());
		}
		for p in &self.main_fx {
			o.push(p.log.lock().unwrap()[p.mark..].to_vec());
		}
		for n in &self.subs {
			node(n, &mut o);
		}
		for s in &self.sends {
			for p in &s.fx {
				o.push(p.log.lock().unwrap()[p.mark..].to_vec());
			}
		}
		o
	}
	/// Rust mirror of `exactly_once_in_order`: what every log must have gained since the marks
	pub fn check_logs(&self, cbs: &[usize]) -> Option<String> {
		let want: Vec<usize> = cbs.iter().flat_map(|n| chunk_sizes(self.b, *n)).collect();
		fn node(n: &Node, live: bool, want: &[usize], path: String) -> Option<String> {
			let live = live && n.adv;
			let w: &[usize] = if live { want } else { &[] };
			for (i, p) in n.snds.iter().enumerate() {
				let got = p.log.lock().unwrap()[p.mark..].to_vec();
				if got != w {
					return Some(format!("sound {i} of track {path} (advancing path: {live}) was asked for slices {got:?}, expected {w:?}"));
				}
				if p.dirty.load(Ordering::SeqCst) {
					return Some(format!("sound {i} of track {path} was handed a buffer that was not all zeros"));
				}
			}
			for (i, p) in n.fx.iter().enumerate() {
				let got = p.log.lock().unwrap()[p.mark..].to_vec();
				if got != w {
					return Some(format!("effect {i} of track {path} (advancing path: {live}) was asked for slices {got:?}, expected {w:?}"));
				}
				if p.bad_dt.load(Ordering::SeqCst) {
					return Some(format!("effect {i} of track {path} was called with dt != 1/sample_rate"));
				}
			}
			for (i, c) in n.subs.iter().enumerate() {
				if let Some(e) = node(c, live, want, format!("{path}.{i}")) {
					return Some(e);
				}
			}
			None
		}
		for (i, p) in self.main_snds.iter().enumerate() {
			let got = p.log.lock().unwrap()[p.mark..].to_vec();
			if got != want {
				return Some(format!("main-track sound {i} was asked for slices {got:?}, expected {want:?}"));
			}
			if p.dirty.load(Ordering::SeqCst) {
				return Some(format!("main-track sound {i} was handed a buffer that was not all zeros"));
			}
		}
		for (i, p) in self.main_fx.iter().enumerate() {
			let got = p.log.lock().unwrap()[p.mark..].to_vec();
			if got != want {
				return Some(format!("main-track effect {i} was asked for slices {got:?}, expected {want:?}"));
			}
		}
		for (i, n) in self.subs.iter().enumerate() {
			if let Some(e) = node(n, true, &want, format!("{i}")) {
				return Some(e);
			}
		}
		for (j, s) in self.sends.iter().enumerate() {
			for (i, p) in s.fx.iter().enumerate() {
				let got = p.log.lock().unwrap()[p.mark..].to_vec();
				if got != want {
					return Some(format!("effect {i} of send track {j} was asked for slices {got:?}, expected {want:?}"));
				}
			}
		}
		None
	}
	pub fn populate(&mut self, r: &mut Rng) {
		for _ in 0..r.below(3) {
			self.add_send(r);
		}
		let n = r.range(1, 7);
		for _ in 0..n {
			let nn = self.num_nodes();
			let at = if nn == 0 || r.chance(1, 3) { None } else { Some(r.below(nn as u64) as usize) };
			self.add_track(r, at);
		}
		let ns = r.range(1, 9);
		for _ in 0..ns {
			let nn = self.num_nodes();
			let at = if nn == 0 || r.chance(1, 5) { None } else { Some(r.below(nn as u64) as usize) };
			self.add_sound(at);
		}
	}
}

/// device samples as integers in units of 2^-24; None if a sample is not such a multiple
/// (the scene left the exact regime) or is NaN / -0.0
pub fn scaled(out: &[f32]) -> Option<Vec<i128>> {
	let mut v = vec![];
	for x in out {
		let y = *x as f64 * UNIT;
		if x.is_nan() || y.fract() != 0.0 || y.abs() > UNIT || (x.to_bits() == 0x8000_0000) {
			return None;
		}
		v.push(y as i128);
	}
	Some(v)
}
pub fn gen_cbs(r: &mut Rng, b: usize, first_one: bool) -> Vec<usize> {
	let mut v = vec![];
	if first_one {
		v.push(1);
	}
	let k = r.range(1, 3);
	for _ in 0..k {
		let n = match r.below(6) {
			0 => 1,
			1 => b,
			2 => b * (r.below(3) as usize + 1),
			3 => b + 1 + r.below(b as u64) as usize,
			4 => r.below(b as u64) as usize + 1,
			_ => r.below(3 * b as u64 + 2) as usize + 1,
		};
		v.push(n.min(40));
	}
	v
}
pub fn hash_key(term: &str) -> String {
	let mut h = 1469598103934665603u64;
	for b in term.bytes() {
		h = (h ^ b as u64).wrapping_mul(1099511628211);
	}
	format!("{:x}", h)
}
pub fn pick_b(r: &mut Rng) -> usize {
	*r.pick(&[1usize, 2, 3, 4, 5, 7, 8, 13, 16, 32])
}

/// one model case: snapshot, render, observe; monitors on logs
pub fn segment(s: &mut Session, sc: &mut Scene, r: &mut Rng, kind: &str, ch: u16) {
	let cbs = gen_cbs(r, sc.b, sc.ramp_pending());
	let term = sc.snapshot_term(ch, &cbs);
	let out = sc.render(ch, &cbs);
	let Some(mut obs) = scaled(&out) else {
		s.fail(term, "a device sample is not an exact multiple of 2^-24 in [-1, 1] (probe arithmetic must be exact)".into(), None);
		return;
	};
	obs.insert(0, 0);
	obs.push(0);
	for l in sc.logs_since_mark() {
		obs.push(l.len() as i128);
		obs.extend(l.iter().map(|x| *x as i128));
	}
	let key = hash_key(&term);
	if std::env::var("C02_TRACE").is_ok() {
		eprintln!("case {} hist {:?} cbs {:?}", s.model_cases, sc.hist, cbs);
	}
	let nontrivial = sc.num_nodes() >= 1 && sc.num_sounds() >= 1;
	s.case(kind, term.clone(), &obs, if nontrivial { Some(key) } else { None });
	if let Some(e) = sc.check_logs(&cbs) {
		s.fail(term, e, None);
	}
}


/// Pick-up order (theorem `pickup_order_users_first`): the caller creates a referenced resource and then its user
/// at a point in the MIDDLE of `Renderer::on_start_processing` (hook effects on live tracks, see inject.rs).
/// Whatever the point, a live user must find what it refers to in the same callback: a track routed to a new send
/// track is never heard without its send contribution; a sound waiting for a new (started) clock is never cancelled.
fn pickup_order_scenarios(s: &mut Session) {
	use crate::inject::*;
	use kira::clock::{ClockHandle, ClockSpeed};
	use kira::sound::static_sound::StaticSoundHandle;
	use kira::sound::PlaybackState;
	#[derive(Default)]
	struct Keep {
		tracks: Vec<TrackHandle>,
		sends: Vec<SendTrackHandle>,
		clocks: Vec<ClockHandle>,
		sounds: Vec<StaticSoundHandle>,
	}
	let points = ["effect on a live sub-track", "effect on a live send track", "effect on the main track"];
	let scens = ["add send track S; add sub-track T routed to S at 0 dB; T.play(constant 0.25)", "add clock c; c.start(); main.play(sound starting at c's time 0)", "add clock c; c.start(); add sub-track T; T.play(sound starting at c's time 0)"];
	for (pi, point) in points.iter().enumerate() {
		for (si, scen) in scens.iter().enumerate() {
			for b in [1usize, 4, 8] {
				let hook = Hook::default();
				let main = if pi == 2 { MainTrackBuilder::new().with_effect(HookFxBuilder(hook.clone())) } else { MainTrackBuilder::new() };
				let (m, r) = shared_manager(1000, b, main);
				let keep: Arc<Mutex<Keep>> = Arc::default();
				match pi {
					0 => {
						let t = m.lock().unwrap().add_sub_track(TrackBuilder::new().with_effect(HookFxBuilder(hook.clone()))).unwrap();
						keep.lock().unwrap().tracks.push(t);
					}
					1 => {
						let t = m.lock().unwrap().add_send_track(SendTrackBuilder::new().with_effect(HookFxBuilder(hook.clone()))).unwrap();
						keep.lock().unwrap().sends.push(t);
					}
					_ => {}
				}
				let warm = callback(&r, b, 2);
				let desc = format!("internal buffer {b}; in the next callback's on_start_processing, from an {point}: {scen}; then 5 callbacks of {b} frames");
				if warm.iter().any(|x| *x != 0.0) {
					s.fail(desc.clone(), "warm-up callback not silent".into(), None);
				}
				*hook.lock().unwrap() = Some(Box::new({
					let m = m.clone();
					let keep = keep.clone();
					move || {
						let mut m = m.lock().unwrap();
						let mut k = keep.lock().unwrap();
						match si {
							0 => {
								let send = m.add_send_track(SendTrackBuilder::new()).unwrap();
								let mut t = m.add_sub_track(TrackBuilder::new().with_send(&send, 0.0)).unwrap();
								t.play(Dc(0.25)).unwrap();
								k.sends.push(send);
								k.tracks.push(t);
							}
							1 | _ => {
								let mut c = m.add_clock(ClockSpeed::TicksPerSecond(10.0)).unwrap();
								c.start();
								let data = sound_from_frames(1000, vec![Frame::from_mono(0.25); 64]).start_time(c.time());
								if si == 1 {
									let h = m.play(data).unwrap();
									k.sounds.push(h);
								} else {
									let mut t = m.add_sub_track(TrackBuilder::new()).unwrap();
									let h = t.play(data).unwrap();
									k.sounds.push(h);
									k.tracks.push(t);
								}
								k.clocks.push(c);
							}
						}
					}
				}));
				let mut heard = false;
				let mut bad = None;
				for n in 0..5 {
					let out = callback(&r, b, 2);
					for (i, x) in out.iter().enumerate() {
						let ok = if si == 0 { *x == 0.0 || *x == 0.5 } else { *x == 0.0 || *x == 0.25 };
						if !ok && bad.is_none() {
							bad = Some(format!("callback {n}, sample {i}: {x:?} (a track heard without its send route gives 0.25, with it 0.5)"));
						}
						heard |= *x != 0.0;
					}
					if si > 0 {
						if let Some(h) = keep.lock().unwrap().sounds.first() {
							if h.state() == PlaybackState::Stopped && !heard && bad.is_none() {
								bad = Some(format!("callback {n}: the sound was cancelled (Stopped) although its clock exists and was started before it"));
							}
						}
					}
				}
				s.eval_only("pickup_order_scenario");
				if hook.lock().unwrap().is_some() {
					s.fail(desc.clone(), "the hook never ran".into(), None);
				} else if let Some(w) = bad {
					s.fail(desc.clone(), w, None);
				} else if !heard {
					s.fail(desc.clone(), "the new resource never became audible".into(), None);
				}
			}
		}
	}
}

pub fn run(args: &Args) {
	let mut rng = Rng::new(args.seed ^ 0xC02);
	let n: u64 = (if args.thorough { 6000 } else { 700 }) * args.budget_mul;
	let mut s = Session::new(
		"C02",
		&args.out,
		"From Coq Require Import ZArith List. Import ListNotations. Open Scope Z_scope.\nFrom KV Require Import Base.Corr C02.Run.",
		"run",
		120,
		"one case = one segment of device callbacks (no command in flight) rendered by a real AudioManager on a random track tree (depth <= 4, <= 9 tracks, <= 12 probe sounds, <= 2 send tracks, probe effects, pauses, mutes, stale routes) reached through a random add/remove/pause history; observable = device buffer + call log of every probe; distinct = distinct scene/partition text with at least one sub-track and one sound",
	);

	// ---- minimal scenes first: the classic mutants each fail one of them
	for b in [1usize, 2, 3, 4] {
		for variant in 0..6 {
			let mut r = Rng::new(1000 + variant);
			let mut sc = Scene::new(&mut r, b, false);
			match variant {
				0 => {
					// two siblings with a sound each
					sc.add_track(&mut r, None);
					sc.add_track(&mut r, None);
					sc.add_sound(Some(0));
					sc.add_sound(Some(1));
				}
				1 => {
					// child + send
					sc.add_send(&mut r);
					sc.add_track(&mut r, None);
					sc.add_track(&mut r, Some(0));
					sc.add_sound(Some(1));
					sc.add_sound(Some(0));
				}
				2 => {
					// paused parent
					sc.add_track(&mut r, None);
					sc.add_track(&mut r, Some(0));
					sc.add_sound(Some(1));
					sc.add_sound(None);
					sc.subs[0].h.pause(zero_tween());
					sc.subs[0].adv = false;
				}
				3 => {
					sc.add_sound(None);
					sc.add_sound(None);
				}
				4 => {
					sc.add_send(&mut r);
					sc.add_send(&mut r);
					sc.add_track(&mut r, None);
					sc.add_sound(Some(0));
					sc.drop_send(&mut r);
				}
				_ => sc.populate(&mut r),
			}
			for ch in [2u16, 1, 3] {
				segment(&mut s, &mut sc, &mut r, "minimal", ch);
			}
		}
	}
	// ---- internal_buffer_size = 0: `chunks_mut(0)` panics in Renderer::process
	{
		let mut r = Rng::new(5);
		let mut sc = Scene::new(&mut r, 0, true);
		let term = sc.snapshot_term(2, &[3]);
		let o = catch(|| {
			sc.render(2, &[3]);
			vec![]
		});
		s.case("b_zero", term, &encode_outcome(&o), None);
	}

	// ---- random scenes and histories
	for _ in 0..n {
		let b = pick_b(&mut rng);
		let mut sc = Scene::new(&mut rng, b, false);
		sc.populate(&mut rng);
		let segs = rng.range(2, 4);
		for k in 0..segs {
			if k > 0 {
				for _ in 0..rng.range(1, 3) {
					sc.random_edit(&mut rng);
				}
			}
			let ch = *rng.pick(&[2u16, 2, 2, 1, 3, 4, 6, 8]);
			segment(&mut s, &mut sc, &mut rng, "random", ch);
		}
	}

	// ---- leak scenarios (monitor only): after a silencing action the device buffer is exact zeros
	for i in 0..n / 2 {
		let b = pick_b(&mut rng);
		let mut sc = Scene::new(&mut rng, b, true);
		sc.populate(&mut rng);
		let cbs = gen_cbs(&mut rng, b, false);
		let warm = sc.render(2, &cbs);
		let audible = warm.iter().any(|x| *x != 0.0);
		let action = i % 5;
		let what = match action {
			0 => {
				sc.stop_all_sounds();
				"every sound removed"
			}
			1 => {
				for n in sc.subs.iter_mut() {
					n.h.pause(zero_tween());
					n.adv = false;
				}
				while !sc.main_snds.is_empty() {
					sc.main_snds.remove(0).stop.store(true, Ordering::SeqCst);
				}
				"every top-level track paused, main-track sounds removed"
			}
			2 => {
				sc.subs.clear();
				while !sc.main_snds.is_empty() {
					sc.main_snds.remove(0).stop.store(true, Ordering::SeqCst);
				}
				"every sub-track removed, main-track sounds removed"
			}
			3 => {
				// a nested track's own routes bypass its parent's fader, so every track is muted
				fn mute(subs: &mut [Node]) {
					for n in subs {
						n.h.set_volume(Decibels::SILENCE, zero_tween());
						mute(&mut n.subs);
					}
				}
				mute(&mut sc.subs);
				while !sc.main_snds.is_empty() {
					sc.main_snds.remove(0).stop.store(true, Ordering::SeqCst);
				}
				// the first chunk still ramps from 0 dB down to silence (C06); skip one callback
				sc.render(2, &[1]);
				"every sub-track muted (sends are post-fader), main-track sounds removed"
			}
			_ => {
				sc.mgr.main_track().set_volume(Decibels::SILENCE, zero_tween());
				sc.render(2, &[1]);
				"main track muted"
			}
		};
		let cbs2 = gen_cbs(&mut rng, b, false);
		let ch = *rng.pick(&[2u16, 1, 4]);
		let after = sc.render(ch, &cbs2);
		s.eval_only("leak_scenario");
		if audible {
			s.count("leak_scenario_audible_before");
		}
		if let Some(p) = after.iter().position(|x| *x != 0.0) {
			s.fail(
				format!("scene b={b} (seed-derived), warm-up callbacks {cbs:?}, then: {what}; callbacks {cbs2:?} on {ch} channels"),
				format!("device sample {p} is {:?}, not silence: something leaked", after[p]),
				None,
			);
		}
	}

	// ---- tweened volumes (monitor only): output stays between the muted and the unmuted rendering, logs unaffected
	for _ in 0..n / 2 {
		let b = pick_b(&mut rng);
		let seed = rng.next();
		let mut outs = vec![];
		let cbs = {
			let mut r = Rng(seed ^ 77);
			let mut v = gen_cbs(&mut r, b, false);
			v.extend(gen_cbs(&mut r, b, false));
			v
		};
		let mut log_err = None;
		for mode in 0..2 {
			let mut r = Rng(seed);
			let mut sc = Scene::new(&mut r, b, true);
			sc.populate(&mut r);
			sc.render(2, &[1]);
			if sc.subs.is_empty() {
				break;
			}
			let pick = (seed % sc.subs.len() as u64) as usize;
			match mode {
				0 => {}
				_ => {
					let frames: usize = cbs.iter().sum();
					let d = Duration::from_secs_f64((1 + (seed >> 8) % (2 * frames as u64 + 1)) as f64 / SR as f64);
					sc.subs[pick].h.set_volume(Decibels::SILENCE, Tween { start_time: StartTime::Immediate, duration: d, easing: Easing::Linear });
				}
			}
			let _ = sc.snapshot_term(2, &cbs);
			outs.push(sc.render(2, &cbs));
			if mode == 1 {
				log_err = sc.check_logs(&cbs);
			}
		}
		if outs.len() < 2 {
			continue;
		}
		s.eval_only("tweened_volume_scenario");
		let desc = format!("scene seed {seed:#x}, b={b}, callbacks {cbs:?}: volume of a top-level track tweened to silence");
		if let Some(e) = log_err {
			s.fail(desc.clone(), e, None);
		}
		for i in 0..outs[0].len() {
			// all probe values are >= 0 and every gain is in [0, 1]; in the muted rendering the first chunk still ramps
			let (hi, mid) = (outs[0][i], outs[1][i]);
			if !(mid <= hi + 1e-6 && mid >= -1e-6) {
				s.fail(desc.clone(), format!("sample {i}: tweened {mid:?} outside [0, unmuted {hi:?}]"), None);
				break;
			}
		}
	}
	pickup_order_scenarios(&mut s);
	s.notes.push("probe values are dyadic: every mixer float operation is exact, so the model runs on integers scaled by 2^24 (Run.v header)".into());
	s.finish();
}
