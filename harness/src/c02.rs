//! C02 — mixer signal flow.  Random track trees inside a REAL `AudioManager<VBackend>` built from
//! probe sounds (public `Sound` / `SoundData` traits) and probe effects (public `Effect` /
//! `EffectBuilder` traits) whose values are dyadic rationals (multiples of 2^-24, total magnitude
//! < 1, at most five halvings on any path) so that every f32 operation of the mixer is exact.
//! (1) Each segment of callbacks with no command in flight is a case for the buffer-level Gallina
//! model (`C02/Run.v`): device buffer + every call log must be predicted exactly.
//! (2) Monitors on the implementation: every probe sound is handed an all-zero buffer; every
//! sound / effect on an advancing path is asked for exactly the chunk sequence b, b, .., rest of
//! every callback, nobody else is asked; after silencing actions (stop all sounds / pause / remove /
//! mute) the device buffer is exact zeros; under tweened volumes the output stays between the
//! muted and the unmuted rendering.
//! (3) Control scenes (second half of this file): pause / resume / resume_at (delayed, clock) with fades,
//! volume and send-route volume tweens, handle calls made in the MIDDLE of a callback (from an effect on
//! the main track, at a chosen chunk), compared bit for bit with the model's concrete control part
//! (`C02/ModelCtl.v`, case `CCtl`: binary32 frames, decibel tweens, libm table) and checked against the
//! property's clauses: a Paused / WaitingToResume branch is silent and frozen; a volume commanded while
//! the track is paused is in force at the resume; a command written during a callback is not heard in it.
//! (4) Removal histories (case `CKeep`): nested tracks, handles dropped in any order, persisting tracks:
//! a branch is rendered exactly as long as something in it has a reason to stay.
use crate::backend::*;
use crate::util::*;
use kira::effect::{Effect, EffectBuilder};
use kira::info::Info;
use kira::sound::{Sound, SoundData};
use kira::track::{MainTrackBuilder, SendTrackBuilder, SendTrackHandle, SendTrackId, TrackBuilder, TrackHandle};
use kira::{Capacities, Decibels, Easing, Frame, StartTime, Tween};
use std::sync::atomic::{AtomicBool, Ordering};
use std::sync::{Arc, Mutex};
use std::time::Duration;

pub const UNIT: f64 = 16777216.0; // 2^24
pub const SR: u32 = 48000;
pub type Log = Arc<Mutex<Vec<usize>>>;

fn units(u: u64) -> f32 {
	(u as f64 / UNIT) as f32
}

// ---------------------------------------------------------------- probes
pub struct SndProbe {
	id: u64,
	pos: u64,
	log: Log,
	stop: Arc<AtomicBool>,
	dirty: Arc<AtomicBool>,
}
impl Sound for SndProbe {
	fn process(&mut self, out: &mut [Frame], _dt: f64, _info: &Info) {
		if out.iter().any(|f| f.left.to_bits() != 0 || f.right.to_bits() != 0) {
			self.dirty.store(true, Ordering::SeqCst);
		}
		for (i, f) in out.iter_mut().enumerate() {
			let v = self.id * (1 << 13) + ((self.pos + i as u64) % 128) * 64;
			*f = Frame::new(units(v), units(v + 512));
		}
		self.pos += out.len() as u64;
		self.log.lock().unwrap().push(out.len());
	}
	fn finished(&self) -> bool {
		self.stop.load(Ordering::SeqCst)
	}
}
pub struct SndData(SndProbe);
impl SoundData for SndData {
	type Error = ();
	type Handle = ();
	fn into_sound(self) -> Result<(Box<dyn Sound>, ()), ()> {
		Ok((Box::new(self.0), ()))
	}
}
pub struct FxProbe {
	k: u64,
	pos: u64,
	log: Log,
	bad_dt: Arc<AtomicBool>,
}
impl Effect for FxProbe {
	fn process(&mut self, input: &mut [Frame], dt: f64, _info: &Info) {
		if dt.to_bits() != (1.0 / SR as f64).to_bits() {
			self.bad_dt.store(true, Ordering::SeqCst);
		}
		for (i, f) in input.iter_mut().enumerate() {
			let o = if self.k == 0 { 0.0 } else { units(self.k * 4096 + ((self.pos + i as u64) % 8) * 64) };
			*f = Frame::new(f.left * 0.5 + o, f.right * 0.5 + o);
		}
		self.pos += input.len() as u64;
		self.log.lock().unwrap().push(input.len());
	}
}
pub struct FxBuilder(FxProbe);
impl EffectBuilder for FxBuilder {
	type Handle = ();
	fn build(self) -> (Box<dyn Effect>, ()) {
		(Box::new(self.0), ())
	}
}

// ---------------------------------------------------------------- shadow of the scene (arena iteration order)
pub struct PSnd {
	pub id: u64,
	pub log: Log,
	pub stop: Arc<AtomicBool>,
	pub dirty: Arc<AtomicBool>,
	pub mark: usize,
	/// already picked up by the audio thread (an item removed before that lives for one callback)
	pub ins: bool,
}
pub struct PFx {
	pub k: u64,
	pub log: Log,
	pub bad_dt: Arc<AtomicBool>,
	pub mark: usize,
}
pub struct Node {
	pub h: TrackHandle,
	pub adv: bool,
	pub gain: u8,
	pub pending: bool,
	pub subs: Vec<Node>,
	pub snds: Vec<PSnd>,
	pub fx: Vec<PFx>,
	pub routes: Vec<(u64, SendTrackId, u8)>,
	pub fx_path: usize,
	pub depth: usize,
	pub ins: bool,
	/// a pause / resume command was written since the last callback (pause is read before resume whatever the order of writing)
	pub psm_cmd: bool,
}
pub struct SendN {
	pub h: SendTrackHandle,
	pub key: u64,
	pub gain: u8,
	pub fx: Vec<PFx>,
	pub ins: bool,
}
pub struct Scene {
	pub mgr: Mgr,
	pub b: usize,
	pub main_gain: u8,
	pub main_pending: bool,
	pub main_snds: Vec<PSnd>,
	pub main_fx: Vec<PFx>,
	pub subs: Vec<Node>,
	pub sends: Vec<SendN>,
	pub dead_sends: Vec<(u64, SendTrackId)>,
	next_id: u64,
	next_key: u64,
	/// only pure-halving effects (silence in -> silence out), for the leak scenarios
	pub silent_fx: bool,
	pub hist: Vec<String>,
}

pub fn zero_tween() -> Tween {
	Tween { start_time: StartTime::Immediate, duration: Duration::ZERO, easing: Easing::Linear }
}
fn db(g: u8) -> Decibels {
	if g == 0 {
		Decibels::SILENCE
	} else {
		Decibels::IDENTITY
	}
}
fn sum(l: &Log, upto: usize) -> u64 {
	l.lock().unwrap()[..upto].iter().map(|x| *x as u64).sum()
}
fn len(l: &Log) -> usize {
	l.lock().unwrap().len()
}
pub fn chunk_sizes(b: usize, mut n: usize) -> Vec<usize> {
	let mut v = vec![];
	while n > 0 {
		let k = n.min(b);
		v.push(k);
		n -= k;
	}
	v
}

fn count_nodes(subs: &[Node]) -> usize {
	subs.iter().map(|n| 1 + count_nodes(&n.subs)).sum()
}
fn count_sounds(subs: &[Node]) -> usize {
	subs.iter().map(|n| n.snds.len() + count_sounds(&n.subs)).sum()
}
fn nth_node_mut<'a>(subs: &'a mut Vec<Node>, idx: &mut usize) -> Option<&'a mut Node> {
	for n in subs.iter_mut() {
		if *idx == 0 {
			return Some(n);
		}
		*idx -= 1;
		if let Some(x) = nth_node_mut(&mut n.subs, idx) {
			return Some(x);
		}
	}
	None
}
fn remove_nth(subs: &mut Vec<Node>, idx: &mut usize) -> Option<Node> {
	for i in 0..subs.len() {
		if *idx == 0 {
			return Some(subs.remove(i));
		}
		*idx -= 1;
		if let Some(x) = remove_nth(&mut subs[i].subs, idx) {
			return Some(x);
		}
	}
	None
}

impl Scene {
	pub fn new(r: &mut Rng, b: usize, silent_fx: bool) -> Scene {
		let mut main = MainTrackBuilder::new();
		let mut main_fx = vec![];
		let mut sc_next_id = 0;
		if r.chance(1, 2) {
			let (f, p) = Self::mk_fx(r, silent_fx);
			main.add_effect(f);
			main_fx.push(p);
		}
		let _ = &mut sc_next_id;
		let mgr = manager(SR, b, Capacities::default(), main);
		Scene {
			mgr,
			b,
			main_gain: 1,
			main_pending: false,
			main_snds: vec![],
			main_fx,
			subs: vec![],
			sends: vec![],
			dead_sends: vec![],
			next_id: 0,
			next_key: 0,
			silent_fx,
			hist: vec![],
		}
	}
	fn mk_fx(r: &mut Rng, silent: bool) -> (FxBuilder, PFx) {
		let k = if silent { 0 } else { r.below(4) };
		let log: Log = Arc::new(Mutex::new(vec![]));
		let bad = Arc::new(AtomicBool::new(false));
		(FxBuilder(FxProbe { k, pos: 0, log: log.clone(), bad_dt: bad.clone() }), PFx { k, log, bad_dt: bad, mark: 0 })
	}
	fn mk_snd(&mut self) -> (SndData, PSnd) {
		self.next_id += 1;
		let id = 1 + (self.next_id - 1) % 12;
		let log: Log = Arc::new(Mutex::new(vec![]));
		let stop = Arc::new(AtomicBool::new(false));
		let dirty = Arc::new(AtomicBool::new(false));
		(SndData(SndProbe { id, pos: 0, log: log.clone(), stop: stop.clone(), dirty: dirty.clone() }), PSnd { id, log, stop, dirty, mark: 0, ins: false })
	}
	pub fn num_sounds(&self) -> usize {
		self.main_snds.len() + count_sounds(&self.subs)
	}
	pub fn num_nodes(&self) -> usize {
		count_nodes(&self.subs)
	}
	pub fn add_send(&mut self, r: &mut Rng) {
		if self.sends.len() >= 2 {
			return;
		}
		let mut bld = SendTrackBuilder::new();
		let mut fx = vec![];
		if r.chance(1, 2) {
			let (f, p) = Self::mk_fx(r, self.silent_fx);
			bld.add_effect(f);
			fx.push(p);
		}
		let gain = if r.chance(1, 8) && !self.silent_fx { 0 } else { 1 };
		let h = self.mgr.add_send_track(bld.volume(db(gain))).unwrap();
		self.next_key += 1;
		self.sends.insert(0, SendN { h, key: self.next_key, gain, fx, ins: false });
	}
	pub fn drop_send(&mut self, r: &mut Rng) {
		if self.sends.is_empty() {
			return;
		}
		let i = r.below(self.sends.len() as u64) as usize;
		if !self.sends[i].ins {
			return;
		}
		let s = self.sends.remove(i);
		self.dead_sends.push((s.key, s.h.id()));
	}
	/// adds a sub-track under node number `at` (DFS numbering), or at top level if `at` is None
	pub fn add_track(&mut self, r: &mut Rng, at: Option<usize>) {
		if self.num_nodes() >= 9 {
			return;
		}
		let (fx_path, depth) = match at {
			None => (0, 0),
			Some(i) => {
				let mut k = i;
				match nth_node_mut(&mut self.subs, &mut k) {
					Some(n) => (n.fx_path, n.depth),
					None => return,
				}
			}
		};
		if depth >= 4 {
			return;
		}
		let mut bld = TrackBuilder::new();
		let mut fx = vec![];
		let nfx = r.below(3).min((3 - fx_path) as u64) as usize;
		let nfx = if r.chance(1, 2) { nfx } else { 0 };
		for _ in 0..nfx {
			let (f, p) = Self::mk_fx(r, self.silent_fx);
			bld.add_effect(f);
			fx.push(p);
		}
		let gain = if r.chance(1, 8) && !self.silent_fx { 0 } else { 1 };
		bld = bld.volume(db(gain));
		let mut routes: Vec<(u64, SendTrackId, u8)> = vec![];
		let mut cands: Vec<(u64, SendTrackId)> = self.sends.iter().map(|s| (s.key, s.h.id())).collect();
		cands.extend(self.dead_sends.iter().cloned());
		for (key, id) in cands {
			if r.chance(1, 2) && !routes.iter().any(|x| x.1 == id) {
				let g = if r.chance(1, 6) { 0 } else { 1 };
				bld = bld.with_send(id, db(g));
				routes.push((key, id, g));
			}
		}
		let h = match at {
			None => self.mgr.add_sub_track(bld).unwrap(),
			Some(i) => {
				let mut k = i;
				nth_node_mut(&mut self.subs, &mut k).unwrap().h.add_sub_track(bld).unwrap()
			}
		};
		let node = Node { h, adv: true, gain, pending: false, subs: vec![], snds: vec![], fx, routes, fx_path: fx_path + nfx, depth: depth + 1, ins: false, psm_cmd: false };
		match at {
			None => self.subs.insert(0, node),
			Some(i) => {
				let mut k = i;
				nth_node_mut(&mut self.subs, &mut k).unwrap().subs.insert(0, node)
			}
		}
	}
	pub fn add_sound(&mut self, at: Option<usize>) {
		if self.num_sounds() >= 12 {
			return;
		}
		let (d, p) = self.mk_snd();
		match at {
			None => {
				self.mgr.play(d).unwrap();
				self.main_snds.insert(0, p);
			}
			Some(i) => {
				let mut k = i;
				if let Some(n) = nth_node_mut(&mut self.subs, &mut k) {
					if n.snds.len() < 3 {
						n.h.play(d).unwrap();
						n.snds.insert(0, p);
					}
				}
			}
		}
	}
	fn all_sounds_mut<'a>(&'a mut self) -> Vec<(Option<usize>, usize)> {
		// (node number or None for main, index in that node)
		let mut v: Vec<(Option<usize>, usize)> = (0..self.main_snds.len()).map(|i| (None, i)).collect();
		fn go(subs: &[Node], num: &mut usize, v: &mut Vec<(Option<usize>, usize)>) {
			for n in subs {
				let me = *num;
				*num += 1;
				for i in 0..n.snds.len() {
					v.push((Some(me), i));
				}
				go(&n.subs, num, v);
			}
		}
		let mut num = 0;
		go(&self.subs, &mut num, &mut v);
		v
	}
	pub fn stop_sound(&mut self, r: &mut Rng) {
		let all = self.all_sounds_mut();
		if all.is_empty() {
			return;
		}
		let (at, i) = all[r.below(all.len() as u64) as usize];
		let inserted = match at {
			None => self.main_snds[i].ins,
			Some(n) => {
				let mut k = n;
				nth_node_mut(&mut self.subs, &mut k).unwrap().snds[i].ins
			}
		};
		if !inserted {
			return;
		}
		let p = match at {
			None => self.main_snds.remove(i),
			Some(n) => {
				let mut k = n;
				nth_node_mut(&mut self.subs, &mut k).unwrap().snds.remove(i)
			}
		};
		self.hist.push(format!("stopped id {} at {:?} idx {} loglen {}", p.id, at, i, len(&p.log)));
		p.stop.store(true, Ordering::SeqCst);
	}
	pub fn stop_all_sounds(&mut self) {
		fn go(subs: &mut [Node]) {
			for n in subs {
				for p in n.snds.drain(..) {
					p.stop.store(true, Ordering::SeqCst);
				}
				go(&mut n.subs);
			}
		}
		go(&mut self.subs);
		for p in self.main_snds.drain(..) {
			p.stop.store(true, Ordering::SeqCst);
		}
	}
	pub fn random_edit(&mut self, r: &mut Rng) {
		let nn = self.num_nodes();
		let pick_node = |r: &mut Rng| if nn == 0 || r.chance(1, 4) { None } else { Some(r.below(nn as u64) as usize) };
		let code = r.below(12);
		self.hist.push(format!("edit{code}"));
		match code {
			0 | 1 => {
				let at = pick_node(r);
				self.add_sound(at)
			}
			2 => self.stop_sound(r),
			3 | 4 => {
				let at = pick_node(r);
				self.add_track(r, at)
			}
			5 => {
				if nn > 0 {
					fn all_ins(n: &Node) -> bool {
						n.ins && n.subs.iter().all(all_ins)
					}
					let i = r.below(nn as u64) as usize;
					let mut k = i;
					if all_ins(nth_node_mut(&mut self.subs, &mut k).unwrap()) {
						let mut k = i;
						drop(remove_nth(&mut self.subs, &mut k));
					}
				}
			}
			6 => self.add_send(r),
			7 => self.drop_send(r),
			8 => {
				// pause / resume (zero-length fade)
				if nn > 0 {
					let mut k = r.below(nn as u64) as usize;
					let n = nth_node_mut(&mut self.subs, &mut k).unwrap();
					if n.psm_cmd {
						return;
					}
					n.psm_cmd = true;
					if n.adv {
						n.h.pause(zero_tween());
						n.adv = false;
					} else {
						n.h.resume(zero_tween());
						n.adv = true;
						n.pending = true;
					}
				}
			}
			9 => {
				// volume 0 dB <-> silent
				if self.silent_fx {
					return;
				}
				match pick_node(r) {
					Some(i) => {
						let mut k = i;
						let n = nth_node_mut(&mut self.subs, &mut k).unwrap();
						n.gain ^= 1;
						n.h.set_volume(db(n.gain), zero_tween());
						n.pending = true;
					}
					None => {
						if r.chance(1, 2) || self.sends.is_empty() {
							self.main_gain ^= 1;
							let g = self.main_gain;
							self.mgr.main_track().set_volume(db(g), zero_tween());
						} else {
							let i = r.below(self.sends.len() as u64) as usize;
							self.sends[i].gain ^= 1;
							let g = self.sends[i].gain;
							self.sends[i].h.set_volume(db(g), zero_tween());
						}
						self.main_pending = true;
					}
				}
			}
			10 => {
				// route volume (not interpolated: takes effect in the next chunk)
				if nn > 0 {
					let mut k = r.below(nn as u64) as usize;
					let n = nth_node_mut(&mut self.subs, &mut k).unwrap();
					if !n.routes.is_empty() {
						let i = r.below(n.routes.len() as u64) as usize;
						n.routes[i].2 ^= 1;
						let (_, id, g) = n.routes[i];
						n.h.set_send(id, db(g), zero_tween()).unwrap();
					}
				}
			}
			_ => {}
		}
	}
	/// is a gain ramp (volume change / resume) waiting in a node that the next chunk will process?
	pub fn ramp_pending(&self) -> bool {
		fn go(subs: &[Node]) -> bool {
			subs.iter().any(|n| n.adv && (n.pending || go(&n.subs)))
		}
		self.main_pending || go(&self.subs)
	}
	fn clear_pending(&mut self) {
		fn go(subs: &mut [Node]) {
			for n in subs {
				if n.adv {
					n.pending = false;
					go(&mut n.subs);
				}
			}
		}
		self.main_pending = false;
		go(&mut self.subs);
		fn mark(subs: &mut [Node]) {
			for n in subs {
				n.ins = true;
				n.psm_cmd = false;
				for p in n.snds.iter_mut() {
					p.ins = true;
				}
				mark(&mut n.subs);
			}
		}
		mark(&mut self.subs);
		for p in self.main_snds.iter_mut() {
			p.ins = true;
		}
		for p in self.sends.iter_mut() {
			p.ins = true;
		}
	}
	/// Gallina term of the scene as it will be when the next callback starts; sets the log marks
	pub fn snapshot_term(&mut self, ch: u16, cbs: &[usize]) -> String {
		fn snds(v: &mut [PSnd]) -> String {
			let mut o = vec![];
			for p in v.iter_mut() {
				p.mark = len(&p.log);
				o.push(format!("({}, {})", p.id, sum(&p.log, p.mark)));
			}
			format!("[{}]", o.join("; "))
		}
		fn fxs(v: &mut [PFx]) -> String {
			let mut o = vec![];
			for p in v.iter_mut() {
				p.mark = len(&p.log);
				o.push(format!("({}, {})", p.k, sum(&p.log, p.mark)));
			}
			format!("[{}]", o.join("; "))
		}
		fn node(n: &mut Node) -> String {
			let subs: Vec<String> = n.subs.iter_mut().map(node).collect();
			let mut routes: Vec<(u64, u8)> = n.routes.iter().map(|(k, _, g)| (*k, *g)).collect();
			routes.sort();
			format!(
				"RT {} {} [{}] {} {} [{}]",
				n.adv as u8,
				n.gain,
				subs.join("; "),
				snds(&mut n.snds),
				fxs(&mut n.fx),
				routes.iter().map(|(k, g)| format!("({}, {})", k, g)).collect::<Vec<_>>().join("; ")
			)
		}
		let subs: Vec<String> = self.subs.iter_mut().map(node).collect();
		let sends: Vec<String> = self.sends.iter_mut().map(|s| format!("RS {} {} {}", s.key, s.gain, fxs(&mut s.fx))).collect();
		format!(
			"CScene {} {} [{}] {} {} {} [{}] [{}]",
			self.b,
			ch,
			cbs.iter().map(|x| x.to_string()).collect::<Vec<_>>().join("; "),
			self.main_gain,
			snds(&mut self.main_snds),
			fxs(&mut self.main_fx),
			subs.join("; "),
			sends.join("; ")
		)
	}
	pub fn render(&mut self, ch: u16, cbs: &[usize]) -> Vec<f32> {
		let mut out = vec![];
		for n in cbs {
			out.extend(self.mgr.backend_mut().callback(*n, ch));
			self.clear_pending();
		}
		out
	}
	/// logs since the marks, in the traversal order of `enc_mixer` (Run.v)
	pub fn logs_since_mark(&self) -> Vec<Vec<usize>> {
		fn node(n: &Node, o: &mut Vec<Vec<usize>>) {
			for p in &n.snds {
				o.push(p.log.lock().unwrap()[p.mark..].to_vec());
			}
			for p in &n.fx {
				o.push(p.log.lock().unwrap()[p.mark..].to_vec());
			}
			for c in &n.subs {
				node(c, o);
			}
		}
		let mut o = vec![];
		for p in &self.main_snds {
			o.push(p.log.lock().unwrap()[p.mark..].to_vec());
		}
		for p in &self.main_fx {
			o.push(p.log.lock().unwrap()[p.mark..].to_vec());
		}
		for n in &self.subs {
			node(n, &mut o);
		}
		for s in &self.sends {
			for p in &s.fx {
				o.push(p.log.lock().unwrap()[p.mark..].to_vec());
			}
		}
		o
	}
	/// Rust mirror of `exactly_once_in_order`: what every log must have gained since the marks
	pub fn check_logs(&self, cbs: &[usize]) -> Option<String> {
		let want: Vec<usize> = cbs.iter().flat_map(|n| chunk_sizes(self.b, *n)).collect();
		fn node(n: &Node, live: bool, want: &[usize], path: String) -> Option<String> {
			let live = live && n.adv;
			let w: &[usize] = if live { want } else { &[] };
			for (i, p) in n.snds.iter().enumerate() {
				let got = p.log.lock().unwrap()[p.mark..].to_vec();
				if got != w {
					return Some(format!("sound {i} of track {path} (advancing path: {live}) was asked for slices {got:?}, expected {w:?}"));
				}
				if p.dirty.load(Ordering::SeqCst) {
					return Some(format!("sound {i} of track {path} was handed a buffer that was not all zeros"));
				}
			}
			for (i, p) in n.fx.iter().enumerate() {
				let got = p.log.lock().unwrap()[p.mark..].to_vec();
				if got != w {
					return Some(format!("effect {i} of track {path} (advancing path: {live}) was asked for slices {got:?}, expected {w:?}"));
				}
				if p.bad_dt.load(Ordering::SeqCst) {
					return Some(format!("effect {i} of track {path} was called with dt != 1/sample_rate"));
				}
			}
			for (i, c) in n.subs.iter().enumerate() {
				if let Some(e) = node(c, live, want, format!("{path}.{i}")) {
					return Some(e);
				}
			}
			None
		}
		for (i, p) in self.main_snds.iter().enumerate() {
			let got = p.log.lock().unwrap()[p.mark..].to_vec();
			if got != want {
				return Some(format!("main-track sound {i} was asked for slices {got:?}, expected {want:?}"));
			}
			if p.dirty.load(Ordering::SeqCst) {
				return Some(format!("main-track sound {i} was handed a buffer that was not all zeros"));
			}
		}
		for (i, p) in self.main_fx.iter().enumerate() {
			let got = p.log.lock().unwrap()[p.mark..].to_vec();
			if got != want {
				return Some(format!("main-track effect {i} was asked for slices {got:?}, expected {want:?}"));
			}
		}
		for (i, n) in self.subs.iter().enumerate() {
			if let Some(e) = node(n, true, &want, format!("{i}")) {
				return Some(e);
			}
		}
		for (j, s) in self.sends.iter().enumerate() {
			for (i, p) in s.fx.iter().enumerate() {
				let got = p.log.lock().unwrap()[p.mark..].to_vec();
				if got != want {
					return Some(format!("effect {i} of send track {j} was asked for slices {got:?}, expected {want:?}"));
				}
			}
		}
		None
	}
	pub fn populate(&mut self, r: &mut Rng) {
		for _ in 0..r.below(3) {
			self.add_send(r);
		}
		let n = r.range(1, 7);
		for _ in 0..n {
			let nn = self.num_nodes();
			let at = if nn == 0 || r.chance(1, 3) { None } else { Some(r.below(nn as u64) as usize) };
			self.add_track(r, at);
		}
		let ns = r.range(1, 9);
		for _ in 0..ns {
			let nn = self.num_nodes();
			let at = if nn == 0 || r.chance(1, 5) { None } else { Some(r.below(nn as u64) as usize) };
			self.add_sound(at);
		}
	}
}

/// device samples as integers in units of 2^-24; None if a sample is not such a multiple
/// (the scene left the exact regime) or is NaN / -0.0
pub fn scaled(out: &[f32]) -> Option<Vec<i128>> {
	let mut v = vec![];
	for x in out {
		let y = *x as f64 * UNIT;
		if x.is_nan() || y.fract() != 0.0 || y.abs() > UNIT || (x.to_bits() == 0x8000_0000) {
			return None;
		}
		v.push(y as i128);
	}
	Some(v)
}
pub fn gen_cbs(r: &mut Rng, b: usize, first_one: bool) -> Vec<usize> {
	let mut v = vec![];
	if first_one {
		v.push(1);
	}
	let k = r.range(1, 3);
	for _ in 0..k {
		let n = match r.below(6) {
			0 => 1,
			1 => b,
			2 => b * (r.below(3) as usize + 1),
			3 => b + 1 + r.below(b as u64) as usize,
			4 => r.below(b as u64) as usize + 1,
			_ => r.below(3 * b as u64 + 2) as usize + 1,
		};
		v.push(n.min(40));
	}
	v
}
pub fn hash_key(term: &str) -> String {
	let mut h = 1469598103934665603u64;
	for b in term.bytes() {
		h = (h ^ b as u64).wrapping_mul(1099511628211);
	}
	format!("{:x}", h)
}
pub fn pick_b(r: &mut Rng) -> usize {
	*r.pick(&[1usize, 2, 3, 4, 5, 7, 8, 13, 16, 32])
}

/// one model case: snapshot, render, observe; monitors on logs
pub fn segment(s: &mut Session, sc: &mut Scene, r: &mut Rng, kind: &str, ch: u16) {
	let cbs = gen_cbs(r, sc.b, sc.ramp_pending());
	let term = sc.snapshot_term(ch, &cbs);
	let out = sc.render(ch, &cbs);
	let Some(mut obs) = scaled(&out) else {
		s.fail(term, "a device sample is not an exact multiple of 2^-24 in [-1, 1] (probe arithmetic must be exact)".into(), None);
		return;
	};
	obs.insert(0, 0);
	obs.push(0);
	for l in sc.logs_since_mark() {
		obs.push(l.len() as i128);
		obs.extend(l.iter().map(|x| *x as i128));
	}
	let key = hash_key(&term);
	if std::env::var("C02_TRACE").is_ok() {
		eprintln!("case {} hist {:?} cbs {:?}", s.model_cases, sc.hist, cbs);
	}
	let nontrivial = sc.num_nodes() >= 1 && sc.num_sounds() >= 1;
	s.case(kind, term.clone(), &obs, if nontrivial { Some(key) } else { None });
	if let Some(e) = sc.check_logs(&cbs) {
		s.fail(term, e, None);
	}
}


/// Pick-up order (theorem `pickup_order_users_first`): the caller creates a referenced resource and then its user
/// at a point in the MIDDLE of `Renderer::on_start_processing` (hook effects on live tracks, see inject.rs).
/// Whatever the point, a live user must find what it refers to in the same callback: a track routed to a new send
/// track is never heard without its send contribution; a sound waiting for a new (started) clock is never cancelled.
fn pickup_order_scenarios(s: &mut Session) {
	use crate::inject::*;
	use kira::clock::{ClockHandle, ClockSpeed};
	use kira::sound::static_sound::StaticSoundHandle;
	use kira::sound::PlaybackState;
	#[derive(Default)]
	struct Keep {
		tracks: Vec<TrackHandle>,
		sends: Vec<SendTrackHandle>,
		clocks: Vec<ClockHandle>,
		sounds: Vec<StaticSoundHandle>,
	}
	let points = ["effect on a live sub-track", "effect on a live send track", "effect on the main track"];
	let scens = ["add send track S; add sub-track T routed to S at 0 dB; T.play(constant 0.25)", "add clock c; c.start(); main.play(sound starting at c's time 0)", "add clock c; c.start(); add sub-track T; T.play(sound starting at c's time 0)"];
	for (pi, point) in points.iter().enumerate() {
		for (si, scen) in scens.iter().enumerate() {
			for b in [1usize, 4, 8] {
				let hook = Hook::default();
				let main = if pi == 2 { MainTrackBuilder::new().with_effect(HookFxBuilder(hook.clone())) } else { MainTrackBuilder::new() };
				let (m, r) = shared_manager(1000, b, main);
				let keep: Arc<Mutex<Keep>> = Arc::default();
				match pi {
					0 => {
						let t = m.lock().unwrap().add_sub_track(TrackBuilder::new().with_effect(HookFxBuilder(hook.clone()))).unwrap();
						keep.lock().unwrap().tracks.push(t);
					}
					1 => {
						let t = m.lock().unwrap().add_send_track(SendTrackBuilder::new().with_effect(HookFxBuilder(hook.clone()))).unwrap();
						keep.lock().unwrap().sends.push(t);
					}
					_ => {}
				}
				let warm = callback(&r, b, 2);
				let desc = format!("internal buffer {b}; in the next callback's on_start_processing, from an {point}: {scen}; then 5 callbacks of {b} frames");
				if warm.iter().any(|x| *x != 0.0) {
					s.fail(desc.clone(), "warm-up callback not silent".into(), None);
				}
				*hook.lock().unwrap() = Some(Box::new({
					let m = m.clone();
					let keep = keep.clone();
					move || {
						let mut m = m.lock().unwrap();
						let mut k = keep.lock().unwrap();
						match si {
							0 => {
								let send = m.add_send_track(SendTrackBuilder::new()).unwrap();
								let mut t = m.add_sub_track(TrackBuilder::new().with_send(&send, 0.0)).unwrap();
								t.play(Dc(0.25)).unwrap();
								k.sends.push(send);
								k.tracks.push(t);
							}
							1 | _ => {
								let mut c = m.add_clock(ClockSpeed::TicksPerSecond(10.0)).unwrap();
								c.start();
								let data = sound_from_frames(1000, vec![Frame::from_mono(0.25); 64]).start_time(c.time());
								if si == 1 {
									let h = m.play(data).unwrap();
									k.sounds.push(h);
								} else {
									let mut t = m.add_sub_track(TrackBuilder::new()).unwrap();
									let h = t.play(data).unwrap();
									k.sounds.push(h);
									k.tracks.push(t);
								}
								k.clocks.push(c);
							}
						}
					}
				}));
				let mut heard = false;
				let mut bad = None;
				for n in 0..5 {
					let out = callback(&r, b, 2);
					for (i, x) in out.iter().enumerate() {
						let ok = if si == 0 { *x == 0.0 || *x == 0.5 } else { *x == 0.0 || *x == 0.25 };
						if !ok && bad.is_none() {
							bad = Some(format!("callback {n}, sample {i}: {x:?} (a track heard without its send route gives 0.25, with it 0.5)"));
						}
						heard |= *x != 0.0;
					}
					if si > 0 {
						if let Some(h) = keep.lock().unwrap().sounds.first() {
							if h.state() == PlaybackState::Stopped && !heard && bad.is_none() {
								bad = Some(format!("callback {n}: the sound was cancelled (Stopped) although its clock exists and was started before it"));
							}
						}
					}
				}
				s.eval_only("pickup_order_scenario");
				if hook.lock().unwrap().is_some() {
					s.fail(desc.clone(), "the hook never ran".into(), None);
				} else if let Some(w) = bad {
					s.fail(desc.clone(), w, None);
				} else if !heard {
					s.fail(desc.clone(), "the new resource never became audible".into(), None);
				}
			}
		}
	}
}

// =====================================================================================================
// Control scenes: pause / resume / resume_at with fades, delayed and clock start times, volume and
// route-volume tweens, commands written in the MIDDLE of a callback — through a real manager, compared bit
// for bit with the buffer-level model instantiated with the concrete control part (C02/ModelCtl.v, case
// `CCtl` of C02/Run.v), plus the property's own clauses as monitors:
//  (A) a sub-track that is Paused / WaitingToResume for a whole callback asks nobody beneath it for a frame,
//      and if every sound sits beneath such a track the device buffer is exact silence;
//  (B) a volume / route volume commanded while the track is paused (tween elapsed before the resume) is in
//      force from the first frame after the resume: same rendering as with an instant change;
//  (C) a command written during a callback is not heard in that callback: same rendering as when it is
//      written right after the callback;
//  (D) (removal histories, case `CKeep`) a branch is rendered for as long as anything in it has a reason to
//      stay — a live handle at any depth, a persisting track with a sound — and only that long.
// =====================================================================================================
use crate::inject::{shared_manager, SMgr, SharedRenderer};
use kira::clock::{ClockHandle, ClockSpeed, ClockTime};
use kira::track::TrackPlaybackState;

/// a little under one frame at 48 kHz, in nanoseconds (nothing here needs to be dyadic: the model is bit-exact)
const FRAME_NS: u64 = 20_833;

type ChunkHooks = Arc<Mutex<Vec<(usize, Box<dyn FnOnce() + Send>)>>>;
/// leaves the signal alone; sits on the main track (processed last in every chunk) and runs the caller's
/// part after chunk number `at` of the current callback has been mixed
struct ChunkHookFx {
	hooks: ChunkHooks,
	chunk: usize,
}
impl Effect for ChunkHookFx {
	fn on_start_processing(&mut self) {
		self.chunk = 0;
	}
	fn process(&mut self, _input: &mut [Frame], _dt: f64, _info: &Info) {
		let due: Vec<Box<dyn FnOnce() + Send>> = {
			let mut g = self.hooks.lock().unwrap();
			let mut due = vec![];
			let mut i = 0;
			while i < g.len() {
				if g[i].0 == self.chunk {
					due.push(g.remove(i).1);
				} else {
					i += 1;
				}
			}
			due
		};
		for h in due {
			h();
		}
		self.chunk += 1;
	}
}
struct ChunkHookBuilder(ChunkHooks);
impl EffectBuilder for ChunkHookBuilder {
	type Handle = ();
	fn build(self) -> (Box<dyn Effect>, ()) {
		(Box::new(ChunkHookFx { hooks: self.0, chunk: 0 }), ())
	}
}

#[derive(Clone, Debug)]
struct TSpec {
	parent: Option<usize>,
	vol: f32,
	/// (send index, route volume)
	routes: Vec<(usize, f32)>,
	nsnd: usize,
	fx: Vec<u64>,
}
#[derive(Clone, Debug)]
struct SSpec {
	vol: f32,
	fx: Option<u64>,
}
#[derive(Clone, Debug)]
struct CSpec {
	b: usize,
	ch: u16,
	main_vol: f32,
	main_fx: Option<u64>,
	main_nsnd: usize,
	sends: Vec<SSpec>,
	tracks: Vec<TSpec>,
	clock: bool,
}
#[derive(Clone, Debug, PartialEq)]
enum CStart {
	Imm,
	Del(u64),
	Clk,
}
#[derive(Clone, Debug, PartialEq)]
struct CTw {
	start: CStart,
	dur_ns: u64,
	ek: i128,
	ep: i128,
}
/// tracks are named as in the model: 0 = main track, 1.. = sub-tracks in creation order, 100.. = send tracks
#[derive(Clone, Debug, PartialEq)]
enum CCmd {
	Vol(usize, f32, CTw),
	Route(usize, usize, f32, CTw),
	Pause(usize, CTw),
	Resume(usize, CStart, CTw),
	ClockStart,
	ClockDrop,
}
#[derive(Clone, Debug)]
struct CCb {
	/// written before the callback
	pre: Vec<CCmd>,
	/// written during the callback, after chunk number .0 has been mixed
	mid: Vec<(usize, CCmd)>,
	n: usize,
}

fn ctw_zero() -> CTw {
	CTw { start: CStart::Imm, dur_ns: 0, ek: 0, ep: 0 }
}
fn cstart_term(s: &CStart) -> String {
	match s {
		CStart::Imm => "SImm".into(),
		CStart::Del(ns) => format!("(SDel {ns})"),
		CStart::Clk => format!("(SClk 0 0 {})", f64_bits_z(0.0)),
	}
}
fn ctw_term(t: &CTw) -> String {
	format!("({}, {}, {}, {})", cstart_term(&t.start), t.dur_ns, t.ek, z(t.ep))
}
fn ccmd_term(c: &CCmd) -> Option<String> {
	Some(match c {
		CCmd::Vol(tr, db, tw) => format!("KVol {} {} {}", tr, f32_bits_z(*db), ctw_term(tw)),
		CCmd::Route(tr, r, db, tw) => format!("KRoute {} {} {} {}", tr, r, f32_bits_z(*db), ctw_term(tw)),
		CCmd::Pause(tr, tw) => format!("KPause {} {}", tr, ctw_term(tw)),
		CCmd::Resume(tr, st, tw) => format!("KResume {} {} {}", tr, cstart_term(st), ctw_term(tw)),
		CCmd::ClockStart | CCmd::ClockDrop => return None,
	})
}
fn ccmd_text(c: &CCmd) -> String {
	let tw = |t: &CTw| format!("{:.2} frames{}{}", t.dur_ns as f64 / 20833.333, if t.ek == 0 { "" } else { " powi" }, match &t.start { CStart::Imm => "".to_string(), s => format!(" starting {s:?}") });
	match c {
		CCmd::Vol(tr, db, t) => format!("set_volume(track {tr}, {db} dB, {})", tw(t)),
		CCmd::Route(tr, r, db, t) => format!("set_send(track {tr}, route {r}, {db} dB, {})", tw(t)),
		CCmd::Pause(tr, t) => format!("pause(track {tr}, {})", tw(t)),
		CCmd::Resume(tr, st, t) => format!("resume_at(track {tr}, {st:?}, {})", tw(t)),
		CCmd::ClockStart => "clock.start()".into(),
		CCmd::ClockDrop => "drop(clock)".into(),
	}
}
fn script_text(spec: &CSpec, cbs: &[CCb]) -> String {
	let mut o = format!(
		"internal buffer {}, {} channels; main {} dB; sends {:?}; sub-tracks (1.. in order) {:?}; ",
		spec.b,
		spec.ch,
		spec.main_vol,
		spec.sends.iter().map(|s| s.vol).collect::<Vec<_>>(),
		spec.tracks.iter().map(|t| format!("parent {:?} vol {} routes {:?} sounds {} fx {:?}", t.parent.map(|p| p + 1), t.vol, t.routes, t.nsnd, t.fx)).collect::<Vec<_>>()
	);
	for (k, cb) in cbs.iter().enumerate() {
		let pre: Vec<String> = cb.pre.iter().map(ccmd_text).collect();
		let mid: Vec<String> = cb.mid.iter().map(|(c, x)| format!("after chunk {c}: {}", ccmd_text(x))).collect();
		o += &format!("| cb{k} [{}] {} frames [{}] ", pre.join("; "), cb.n, mid.join("; "));
	}
	o
}

fn easing_of(ek: i128, ep: i128) -> Easing {
	match ek {
		1 => Easing::InPowi(ep as i32),
		2 => Easing::OutPowi(ep as i32),
		_ => Easing::Linear,
	}
}
fn tstate_code(s: TrackPlaybackState) -> i128 {
	match s {
		TrackPlaybackState::Playing => 0,
		TrackPlaybackState::Pausing => 1,
		TrackPlaybackState::Paused => 2,
		TrackPlaybackState::WaitingToResume => 3,
		TrackPlaybackState::Resuming => 4,
	}
}

struct CRt {
	mgr: SMgr,
	tracks: Vec<Arc<Mutex<TrackHandle>>>,
	sends: Vec<Arc<Mutex<SendTrackHandle>>>,
	send_ids: Vec<SendTrackId>,
	/// route lists as the model has them: sorted by send key
	routes: Vec<Vec<usize>>,
	clock: Mutex<Option<ClockHandle>>,
	clock_id: Option<kira::clock::ClockId>,
}
impl CRt {
	fn start(&self, s: &CStart) -> StartTime {
		match s {
			CStart::Imm => StartTime::Immediate,
			CStart::Del(ns) => StartTime::Delayed(Duration::from_nanos(*ns)),
			CStart::Clk => StartTime::ClockTime(ClockTime { clock: self.clock_id.unwrap(), ticks: 0, fraction: 0.0 }),
		}
	}
	fn tween(&self, t: &CTw) -> Tween {
		Tween { start_time: self.start(&t.start), duration: Duration::from_nanos(t.dur_ns), easing: easing_of(t.ek, t.ep) }
	}
	fn apply(&self, c: &CCmd) {
		match c {
			CCmd::Vol(tr, db, tw) => {
				let t = self.tween(tw);
				if *tr == 0 {
					self.mgr.lock().unwrap().main_track().set_volume(Decibels(*db), t);
				} else if *tr >= 100 {
					self.sends[*tr - 100].lock().unwrap().set_volume(Decibels(*db), t);
				} else {
					self.tracks[*tr - 1].lock().unwrap().set_volume(Decibels(*db), t);
				}
			}
			CCmd::Route(tr, r, db, tw) => {
				let id = self.send_ids[self.routes[*tr - 1][*r]];
				self.tracks[*tr - 1].lock().unwrap().set_send(id, Decibels(*db), self.tween(tw)).unwrap();
			}
			CCmd::Pause(tr, tw) => self.tracks[*tr - 1].lock().unwrap().pause(self.tween(tw)),
			CCmd::Resume(tr, st, tw) => self.tracks[*tr - 1].lock().unwrap().resume_at(self.start(st), self.tween(tw)),
			CCmd::ClockStart => {
				if let Some(c) = self.clock.lock().unwrap().as_mut() {
					c.start();
				}
			}
			CCmd::ClockDrop => {
				self.clock.lock().unwrap().take();
			}
		}
	}
}

#[derive(Default)]
struct CTrace {
	outs: Vec<Vec<f32>>,
	/// handle states of the sub-tracks (creation order) before / after every callback
	before: Vec<Vec<i128>>,
	after: Vec<Vec<i128>>,
	/// per callback, per sub-track (creation order): did any probe directly on that track get a call
	asked: Vec<Vec<bool>>,
	/// logs since the snapshot, in the model's traversal order
	logs: Vec<Vec<usize>>,
	tab: Vec<(u32, u32, u32)>,
	term: String,
	obs: Vec<i128>,
	hooks_left: usize,
	failed: Option<String>,
}

/// arena order: most recently inserted first
fn children_of(spec: &CSpec, parent: Option<usize>) -> Vec<usize> {
	let mut v: Vec<usize> = (0..spec.tracks.len()).filter(|i| spec.tracks[*i].parent == parent).collect();
	v.reverse();
	v
}
fn traversal(spec: &CSpec) -> Vec<usize> {
	fn go(spec: &CSpec, p: Option<usize>, o: &mut Vec<usize>) {
		for c in children_of(spec, p) {
			o.push(c);
			go(spec, Some(c), o);
		}
	}
	let mut o = vec![];
	go(spec, None, &mut o);
	o
}

/// `defer_mid`: write the mid-callback commands right AFTER their callback instead (the reference of monitor C)
fn run_ctl(spec: &CSpec, cbs: &[CCb], defer_mid: bool) -> CTrace {
	let mut tr = CTrace::default();
	let _ = kira::verif::take_powf32_log();
	let hooks: ChunkHooks = Arc::default();
	let mut main = MainTrackBuilder::new().volume(Decibels(spec.main_vol)).with_effect(ChunkHookBuilder(hooks.clone()));
	let mut main_fx: Vec<PFx> = vec![];
	if let Some(k) = spec.main_fx {
		let log: Log = Arc::default();
		let bad = Arc::new(AtomicBool::new(false));
		main.add_effect(FxBuilder(FxProbe { k, pos: 0, log: log.clone(), bad_dt: bad.clone() }));
		main_fx.push(PFx { k, log, bad_dt: bad, mark: 0 });
	}
	let (mgr, renderer): (SMgr, SharedRenderer) = shared_manager(SR, spec.b, main);
	let mk_fx = |k: u64| {
		let log: Log = Arc::default();
		let bad = Arc::new(AtomicBool::new(false));
		(FxBuilder(FxProbe { k, pos: 0, log: log.clone(), bad_dt: bad.clone() }), PFx { k, log, bad_dt: bad, mark: 0 })
	};
	let mut next_snd = 0u64;
	let mut mk_snd = || {
		next_snd += 1;
		let id = 1 + (next_snd - 1) % 12;
		let log: Log = Arc::default();
		let stop = Arc::new(AtomicBool::new(false));
		let dirty = Arc::new(AtomicBool::new(false));
		(SndData(SndProbe { id, pos: 0, log: log.clone(), stop: stop.clone(), dirty: dirty.clone() }), PSnd { id, log, stop, dirty, mark: 0, ins: true })
	};
	// sends
	let mut sends = vec![];
	let mut send_ids = vec![];
	let mut send_fx: Vec<Vec<PFx>> = vec![];
	for sp in &spec.sends {
		let mut bld = SendTrackBuilder::new().volume(Decibels(sp.vol));
		let mut fx = vec![];
		if let Some(k) = sp.fx {
			let (f, p) = mk_fx(k);
			bld.add_effect(f);
			fx.push(p);
		}
		let h = mgr.lock().unwrap().add_send_track(bld).unwrap();
		send_ids.push(h.id());
		sends.push(Arc::new(Mutex::new(h)));
		send_fx.push(fx);
	}
	// the clock (picked up by the warm-up callback, stopped)
	let clock = if spec.clock { Some(mgr.lock().unwrap().add_clock(ClockSpeed::TicksPerSecond(1000.0)).unwrap()) } else { None };
	let clock_id = clock.as_ref().map(|c| c.id());
	// sub-tracks
	let mut tracks: Vec<Arc<Mutex<TrackHandle>>> = vec![];
	let mut t_snds: Vec<Vec<PSnd>> = vec![];
	let mut t_fx: Vec<Vec<PFx>> = vec![];
	let mut routes_sorted: Vec<Vec<usize>> = vec![];
	for ts in &spec.tracks {
		let mut bld = TrackBuilder::new().volume(Decibels(ts.vol));
		let mut fx = vec![];
		for k in &ts.fx {
			let (f, p) = mk_fx(*k);
			bld.add_effect(f);
			fx.push(p);
		}
		let mut rs: Vec<usize> = ts.routes.iter().map(|r| r.0).collect();
		rs.sort();
		for (si, db) in &ts.routes {
			bld = bld.with_send(send_ids[*si], Decibels(*db));
		}
		let mut h = match ts.parent {
			None => mgr.lock().unwrap().add_sub_track(bld).unwrap(),
			Some(p) => tracks[p].lock().unwrap().add_sub_track(bld).unwrap(),
		};
		let mut snds = vec![];
		for _ in 0..ts.nsnd {
			let (d, p) = mk_snd();
			h.play(d).unwrap();
			snds.insert(0, p);
		}
		tracks.push(Arc::new(Mutex::new(h)));
		t_snds.push(snds);
		t_fx.push(fx);
		routes_sorted.push(rs);
	}
	let mut main_snds = vec![];
	for _ in 0..spec.main_nsnd {
		let (d, p) = mk_snd();
		mgr.lock().unwrap().play(d).unwrap();
		main_snds.insert(0, p);
	}
	let rt = Arc::new(CRt { mgr: mgr.clone(), tracks: tracks.clone(), sends: sends.clone(), send_ids: send_ids.clone(), routes: routes_sorted.clone(), clock: Mutex::new(clock), clock_id });
	// warm-up: everything is picked up; one frame
	let _ = crate::inject::callback(&renderer, 1, spec.ch);
	// ---- snapshot (marks) and scene term
	let order = traversal(spec);
	let snd_t = |v: &mut Vec<PSnd>| {
		let mut o = vec![];
		for p in v.iter_mut() {
			p.mark = len(&p.log);
			o.push(format!("({}, {})", p.id, sum(&p.log, p.mark)));
		}
		format!("[{}]", o.join("; "))
	};
	let fx_t = |v: &mut Vec<PFx>| {
		let mut o = vec![];
		for p in v.iter_mut() {
			p.mark = len(&p.log);
			o.push(format!("({}, {})", p.k, sum(&p.log, p.mark)));
		}
		format!("[{}]", o.join("; "))
	};
	fn node_term(spec: &CSpec, i: usize, snds: &[String], fxs: &[String], rs: &[Vec<usize>]) -> String {
		let ts = &spec.tracks[i];
		let routes: Vec<String> = rs[i].iter().map(|si| format!("({}, {})", si, f32_bits_z(ts.routes.iter().find(|r| r.0 == *si).unwrap().1))).collect();
		let subs: Vec<String> = children_of(spec, Some(i)).into_iter().map(|c| node_term(spec, c, snds, fxs, rs)).collect();
		format!("RCN {} {} [{}] {} {} [{}]", i + 1, f32_bits_z(ts.vol), routes.join("; "), snds[i], fxs[i], subs.join("; "))
	}
	let snd_terms: Vec<String> = t_snds.iter_mut().map(|v| snd_t(v)).collect();
	let fx_terms: Vec<String> = t_fx.iter_mut().map(|v| fx_t(v)).collect();
	let main_term = format!("(RCN 0 {} [] {} {} [])", f32_bits_z(spec.main_vol), snd_t(&mut main_snds), fx_t(&mut main_fx));
	let mut send_terms = vec![];
	for j in (0..spec.sends.len()).rev() {
		send_terms.push(format!("({}, RCN {} {} [] [] {} [])", j, 100 + j, f32_bits_z(spec.sends[j].vol), fx_t(&mut send_fx[j])));
	}
	let sub_terms: Vec<String> = children_of(spec, None).into_iter().map(|c| format!("({})", node_term(spec, c, &snd_terms, &fx_terms, &routes_sorted))).collect();
	// ---- the history
	let states = |tracks: &Vec<Arc<Mutex<TrackHandle>>>| -> Vec<i128> { tracks.iter().map(|t| tstate_code(t.lock().unwrap().state())).collect() };
	let mut clock_present = spec.clock;
	let mut clock_ticking = false;
	let mut cb_terms = vec![];
	let mut carried: Vec<CCmd> = vec![];
	for (k, cb) in cbs.iter().enumerate() {
		let mut cmds: Vec<CCmd> = std::mem::take(&mut carried);
		for c in &cb.pre {
			rt.apply(c);
			cmds.push(c.clone());
		}
		for c in &cmds {
			match c {
				CCmd::ClockStart => clock_ticking = clock_present,
				CCmd::ClockDrop => clock_present = false,
				_ => {}
			}
		}
		let last = k + 1 == cbs.len();
		if !defer_mid {
			for (at, c) in &cb.mid {
				let rt2 = rt.clone();
				let c2 = c.clone();
				hooks.lock().unwrap().push((*at, Box::new(move || rt2.apply(&c2))));
			}
		}
		tr.before.push(states(&tracks));
		let marks: Vec<usize> = (0..tracks.len()).map(|i| t_snds[i].iter().map(|p| len(&p.log)).sum::<usize>() + t_fx[i].iter().map(|p| len(&p.log)).sum::<usize>()).collect();
		let out = crate::inject::callback(&renderer, cb.n, spec.ch);
		tr.after.push(states(&tracks));
		tr.asked.push((0..tracks.len()).map(|i| t_snds[i].iter().map(|p| len(&p.log)).sum::<usize>() + t_fx[i].iter().map(|p| len(&p.log)).sum::<usize>() != marks[i]).collect());
		if defer_mid {
			for (_, c) in &cb.mid {
				rt.apply(c);
			}
		}
		if !last {
			carried = cb.mid.iter().map(|x| x.1.clone()).collect();
		}
		tr.hooks_left += hooks.lock().unwrap().len();
		hooks.lock().unwrap().clear();
		let info = if spec.clock { format!("({}, {}, 0, {})", clock_present as u8, (clock_present && clock_ticking) as u8, f64_bits_z(0.0)) } else { String::new() };
		cb_terms.push(format!("RCCb [{}] {} [{}]", cmds.iter().filter_map(ccmd_term).collect::<Vec<_>>().join("; "), cb.n, info));
		tr.obs.extend(out.iter().map(|x| obs32(*x)));
		for i in &order {
			tr.obs.push(tr.after[k][*i]);
		}
		tr.outs.push(out);
	}
	// ---- logs, in the order of enc_cmixer
	let since = |log: &Log, mark: usize| log.lock().unwrap()[mark..].to_vec();
	for p in &main_snds {
		tr.logs.push(since(&p.log, p.mark));
	}
	for p in &main_fx {
		tr.logs.push(since(&p.log, p.mark));
	}
	for i in &order {
		for p in &t_snds[*i] {
			tr.logs.push(since(&p.log, p.mark));
		}
		for p in &t_fx[*i] {
			tr.logs.push(since(&p.log, p.mark));
		}
		// (children follow in `order`: pre-order)
	}
	for j in (0..spec.sends.len()).rev() {
		for p in &send_fx[j] {
			tr.logs.push(since(&p.log, p.mark));
		}
	}
	for p in main_snds.iter().chain(t_snds.iter().flatten()) {
		if p.dirty.load(Ordering::SeqCst) && tr.failed.is_none() {
			tr.failed = Some(format!("probe sound {} was handed a buffer that was not all zeros", p.id));
		}
	}
	tr.tab = kira::verif::take_powf32_log();
	tr.tab.sort();
	tr.tab.dedup();
	let mut obs = vec![0];
	obs.extend(tr.obs.iter().copied());
	for l in &tr.logs {
		obs.push(l.len() as i128);
		obs.extend(l.iter().map(|x| *x as i128));
	}
	tr.obs = obs;
	tr.term = format!(
		"CCtl {} {} {} {} [{}] [{}] [{}] [{}]",
		spec.b,
		spec.ch,
		f64_bits_z(1.0 / SR as f64),
		main_term,
		send_terms.join("; "),
		sub_terms.join("; "),
		cb_terms.join("; "),
		tr.tab.iter().map(|(a, b, c)| format!("({}, {}, {})", a, b, c)).collect::<Vec<_>>().join("; ")
	);
	tr
}

fn subtree(spec: &CSpec, i: usize) -> Vec<usize> {
	let mut v = vec![i];
	let mut k = 0;
	while k < v.len() {
		let p = v[k];
		v.extend((0..spec.tracks.len()).filter(|c| spec.tracks[*c].parent == Some(p)));
		k += 1;
	}
	v
}
/// monitor (A): "a paused branch contributes exact silence", WaitingToResume included, and nobody beneath it is asked
fn monitor_quiet(s: &mut Session, spec: &CSpec, cbs: &[CCb], tr: &CTrace) {
	let desc = || script_text(spec, cbs);
	let quiet_code = |c: i128| c == 2 || c == 3;
	for k in 0..tr.outs.len() {
		// pause / resume commands that this callback's on_start_processing reads
		let mut touched: Vec<usize> = vec![];
		let mut note = |c: &CCmd| match c {
			CCmd::Pause(t, _) | CCmd::Resume(t, _, _) => touched.push(*t - 1),
			_ => {}
		};
		cbs[k].pre.iter().for_each(&mut note);
		if k > 0 {
			cbs[k - 1].mid.iter().for_each(|x| note(&x.1));
		}
		let quiet: Vec<bool> = (0..spec.tracks.len()).map(|i| quiet_code(tr.before[k][i]) && quiet_code(tr.after[k][i]) && !touched.contains(&i)).collect();
		let mut covered = vec![false; spec.tracks.len()];
		for i in 0..spec.tracks.len() {
			if quiet[i] {
				for j in subtree(spec, i) {
					covered[j] = true;
					if tr.asked[k][j] {
						s.fail(
							desc(),
							format!("callback {k}: sub-track {} is {} before and after it (no pause / resume command in between), yet a sound or effect on track {} beneath it was asked for frames", i + 1, if tr.after[k][i] == 3 { "WaitingToResume" } else { "Paused" }, j + 1),
							None,
						);
						return;
					}
				}
			}
		}
		let all_covered = spec.main_nsnd == 0 && (0..spec.tracks.len()).all(|i| spec.tracks[i].nsnd == 0 || covered[i]);
		let silent_fx = spec.main_fx.unwrap_or(0) == 0 && spec.sends.iter().all(|x| x.fx.unwrap_or(0) == 0) && (0..spec.tracks.len()).all(|i| covered[i] || spec.tracks[i].fx.iter().all(|k| *k == 0));
		if all_covered && silent_fx {
			if let Some(p) = tr.outs[k].iter().position(|x| *x != 0.0) {
				s.fail(desc(), format!("callback {k}: every sound sits beneath a track that is Paused / WaitingToResume for the whole callback, yet device sample {p} is {:?}", tr.outs[k][p]), None);
				return;
			}
		}
	}
}

fn gen_ctw(r: &mut Rng, allow_delay: bool) -> CTw {
	let dur_ns = match r.below(5) {
		0 | 1 => 0,
		2 => r.range(1, 6) as u64 * FRAME_NS + r.below(3000),
		3 => r.range(4, 24) as u64 * FRAME_NS + r.below(3000),
		_ => r.below(10 * FRAME_NS) + 1,
	};
	let (ek, ep) = match r.below(6) {
		0 => (1, 2),
		1 => (2, 2),
		_ => (0, 0),
	};
	let start = if allow_delay && r.chance(1, 8) { CStart::Del(r.range(1, 8) as u64 * FRAME_NS) } else { CStart::Imm };
	CTw { start, dur_ns, ek, ep }
}
fn gen_db(r: &mut Rng) -> f32 {
	*r.pick(&[0.0f32, 0.0, -60.0, -6.0, -12.5, -30.0, 3.0, -70.0])
}
fn gen_spec(r: &mut Rng) -> CSpec {
	let b = *r.pick(&[1usize, 2, 3, 4, 4, 8]);
	let nsends = r.below(3) as usize;
	let sends: Vec<SSpec> = (0..nsends).map(|_| SSpec { vol: *r.pick(&[0.0f32, 0.0, -6.0]), fx: if r.chance(1, 3) { Some(r.below(3)) } else { None } }).collect();
	let nt = r.range(1, 3) as usize;
	let mut tracks: Vec<TSpec> = vec![];
	let mut total_snd = 0;
	for i in 0..nt {
		let parent = if i == 0 || r.chance(1, 2) { None } else { Some(r.below(i as u64) as usize) };
		let mut routes = vec![];
		for j in 0..nsends {
			if r.chance(1, 2) {
				routes.push((j, *r.pick(&[0.0f32, 0.0, -6.0, -60.0])));
			}
		}
		let nsnd = if total_snd >= 3 { 0 } else { r.below(3) as usize };
		total_snd += nsnd;
		let fx = if r.chance(1, 4) { vec![r.below(3)] } else { vec![] };
		tracks.push(TSpec { parent, vol: *r.pick(&[0.0f32, 0.0, 0.0, -6.0, -60.0]), routes, nsnd, fx });
	}
	if total_snd == 0 {
		tracks[nt - 1].nsnd = 1;
	}
	CSpec { b, ch: *r.pick(&[2u16, 2, 2, 1, 3]), main_vol: *r.pick(&[0.0f32, 0.0, -6.0]), main_fx: if r.chance(1, 4) { Some(r.below(3)) } else { None }, main_nsnd: if r.chance(1, 5) { 1 } else { 0 }, sends, tracks, clock: r.chance(1, 3) }
}
fn gen_cmd(r: &mut Rng, spec: &CSpec) -> CCmd {
	let nt = spec.tracks.len();
	let t = 1 + r.below(nt as u64) as usize;
	match r.below(12) {
		0 | 1 | 2 => CCmd::Pause(t, gen_ctw(r, true)),
		3 | 4 | 5 => {
			let st = match r.below(6) {
				0 | 1 => CStart::Imm,
				5 if spec.clock => CStart::Clk,
				_ => CStart::Del(r.range(1, 30) as u64 * FRAME_NS + r.below(2) * 7000),
			};
			CCmd::Resume(t, st, gen_ctw(r, false))
		}
		6 | 7 => {
			let who = match r.below(4) {
				0 => 0,
				1 if !spec.sends.is_empty() => 100 + r.below(spec.sends.len() as u64) as usize,
				_ => t,
			};
			CCmd::Vol(who, gen_db(r), gen_ctw(r, true))
		}
		8 | 9 => {
			let with: Vec<usize> = (0..nt).filter(|i| !spec.tracks[*i].routes.is_empty()).collect();
			if with.is_empty() {
				CCmd::Vol(t, gen_db(r), gen_ctw(r, true))
			} else {
				let i = *r.pick(&with);
				CCmd::Route(i + 1, r.below(spec.tracks[i].routes.len() as u64) as usize, gen_db(r), gen_ctw(r, true))
			}
		}
		10 if spec.clock => CCmd::ClockStart,
		11 if spec.clock && r.chance(1, 3) => CCmd::ClockDrop,
		_ => CCmd::Pause(t, ctw_zero()),
	}
}
fn gen_history(r: &mut Rng, spec: &CSpec) -> Vec<CCb> {
	let ncb = r.range(4, 8) as usize;
	let mut cbs = vec![];
	for k in 0..ncb {
		let n = match r.below(5) {
			0 => 1,
			1 => spec.b,
			2 => 2 * spec.b,
			3 => spec.b + 1 + r.below(spec.b as u64) as usize,
			_ => r.below(3 * spec.b as u64) as usize + 1,
		}
		.min(10);
		let mut cb = CCb { pre: vec![], mid: vec![], n };
		if r.chance(3, 5) {
			for _ in 0..r.range(1, 2) {
				let c = gen_cmd(r, spec);
				let chunks = chunk_sizes(spec.b, n).len();
				if k + 1 < ncb && chunks >= 2 && r.chance(1, 3) {
					cb.mid.push((r.below(chunks as u64 - 1) as usize, c));
				} else {
					cb.pre.push(c);
				}
			}
		}
		cbs.push(cb);
	}
	cbs
}
/// the "waiting" family: pause (instant or fading), then resume_at with a delay (possibly while the fade-out is
/// still running) or on the clock; the callbacks in between must be silent and frozen
fn gen_wait_history(r: &mut Rng, spec: &CSpec) -> Vec<CCb> {
	let n = *r.pick(&[spec.b, 2 * spec.b, spec.b + 1]).min(&8);
	let t = 1 + r.below(spec.tracks.len() as u64) as usize;
	let fade = if r.chance(1, 2) { 0 } else { r.range(6, 30) as u64 * FRAME_NS };
	let wait_frames = r.range(2 * n as i64, 6 * n as i64) as u64;
	let st = if spec.clock && r.chance(1, 4) { CStart::Clk } else { CStart::Del(wait_frames * FRAME_NS) };
	let mut cbs = vec![CCb { pre: vec![], mid: vec![], n }];
	cbs.push(CCb { pre: vec![CCmd::Pause(t, CTw { start: CStart::Imm, dur_ns: fade, ek: 0, ep: 0 })], mid: vec![], n });
	if r.chance(1, 2) {
		cbs.push(CCb { pre: vec![], mid: vec![], n });
	}
	cbs.push(CCb { pre: vec![CCmd::Resume(t, st.clone(), CTw { start: CStart::Imm, dur_ns: if r.chance(1, 2) { 0 } else { r.range(1, 8) as u64 * FRAME_NS }, ek: 0, ep: 0 })], mid: vec![], n });
	for k in 0..7 {
		let mut cb = CCb { pre: vec![], mid: vec![], n };
		if st == CStart::Clk && k == 3 {
			cb.pre.push(CCmd::ClockStart);
		}
		cbs.push(cb);
	}
	cbs
}

/// the "mid-callback" family: one track with a sound, routed to a send; every callback spans several internal
/// chunks and the handles are used while it is being rendered
fn gen_mid_script(r: &mut Rng) -> (CSpec, Vec<CCb>) {
	let b = *r.pick(&[1usize, 2, 4]);
	let mut tracks = vec![TSpec { parent: None, vol: 0.0, routes: vec![(0, *r.pick(&[0.0f32, 0.0, -60.0]))], nsnd: 1, fx: vec![] }];
	if r.chance(1, 3) {
		tracks.push(TSpec { parent: Some(0), vol: 0.0, routes: if r.chance(1, 2) { vec![(0, 0.0)] } else { vec![] }, nsnd: 1, fx: vec![] });
	}
	let spec = CSpec { b, ch: 2, main_vol: 0.0, main_fx: None, main_nsnd: 0, sends: vec![SSpec { vol: 0.0, fx: None }], tracks, clock: false };
	let ncb = r.range(3, 6) as usize;
	let mut cbs = vec![];
	let mut route_db = spec.tracks[0].routes[0].1;
	for k in 0..ncb {
		let chunks = r.range(2, 4) as usize;
		let n = (chunks * b).min(10);
		let chunks = chunk_sizes(b, n).len();
		let mut cb = CCb { pre: vec![], mid: vec![], n };
		if k + 1 < ncb && chunks >= 2 {
			for _ in 0..r.range(1, 2) {
				let at = r.below(chunks as u64 - 1) as usize;
				let tw = if r.chance(2, 3) { ctw_zero() } else { CTw { start: CStart::Imm, dur_ns: r.range(1, 6) as u64 * FRAME_NS, ek: 0, ep: 0 } };
				let c = match r.below(8) {
					0 | 1 | 2 | 3 => {
						route_db = if route_db == 0.0 { *r.pick(&[-60.0f32, -60.0, -6.0]) } else { 0.0 };
						CCmd::Route(1, 0, route_db, tw)
					}
					4 => CCmd::Vol(*r.pick(&[0usize, 1, 100]), *r.pick(&[-60.0f32, 0.0, -6.0]), tw),
					5 => CCmd::Pause(1, tw),
					6 => CCmd::Resume(1, CStart::Imm, tw),
					_ => CCmd::Route(1, 0, *r.pick(&[-60.0f32, 0.0]), tw),
				};
				cb.mid.push((at, c));
			}
			cb.mid.sort_by_key(|x| x.0);
		}
		cbs.push(cb);
	}
	(spec, cbs)
}

fn key_of(t: &str) -> String {
	hash_key(t)
}

fn ctl_scenarios(s: &mut Session, rng: &mut Rng, count: u64) {
	// ---- random histories and the waiting family: model cases + monitors A and C
	s.flush();
	for i in 0..count {
		let mut r = rng.fork();
		let mut spec = gen_spec(&mut r);
		let wait = i % 4 == 2;
		let midf = i % 4 == 3;
		if wait {
			spec.main_nsnd = 0;
		}
		let cbs = if wait {
			gen_wait_history(&mut r, &spec)
		} else if midf {
			let (sp, cbs) = gen_mid_script(&mut r);
			spec = sp;
			cbs
		} else {
			gen_history(&mut r, &spec)
		};
		let tr = run_ctl(&spec, &cbs, false);
		let nontrivial = cbs.iter().any(|c| !c.pre.is_empty() || !c.mid.is_empty());
		s.case(if wait { "ctl_waiting" } else if midf { "ctl_mid_callback" } else { "ctl_history" }, tr.term.clone(), &tr.obs, if nontrivial { Some(key_of(&tr.term)) } else { None });
		if i % 12 == 11 {
			s.flush(); // a control case costs ~0.3 s of vm_compute: small shards, evaluated in parallel
		}
		for st in tr.after.iter().flatten() {
			s.count(&format!("track_state_{st}"));
		}
		if let Some(e) = &tr.failed {
			s.fail(script_text(&spec, &cbs), e.clone(), None);
		}
		if tr.hooks_left > 0 {
			s.fail(script_text(&spec, &cbs), "harness: a mid-callback hook did not run".into(), None);
		}
		monitor_quiet(s, &spec, &cbs, &tr);
		if cbs.iter().any(|c| !c.mid.is_empty()) {
			let rf = run_ctl(&spec, &cbs, true);
			s.eval_only("mid_callback_twin");
			'cmp: for k in 0..tr.outs.len() {
				for (j, (a, b)) in tr.outs[k].iter().zip(rf.outs[k].iter()).enumerate() {
					if a.to_bits() != b.to_bits() {
						let which: Vec<String> = cbs.iter().enumerate().flat_map(|(q, c)| c.mid.iter().map(move |(at, x)| format!("{} after chunk {at} of callback {q}", ccmd_text(x)))).collect();
						s.fail(
							script_text(&spec, &cbs),
							format!("commands written during a callback ({}) must wait for the next callback: callback {k}, device sample {j} is {a:?}; with the same commands written right after their callback it is {b:?}", which.join("; ")),
							None,
						);
						break 'cmp;
					}
				}
			}
		}
	}
	// ---- monitor B: a volume / route volume commanded while the track is paused (or waiting) is in force at the resume
	for i in 0..count {
		let mut r = rng.fork();
		let b = *r.pick(&[2usize, 4, 8]);
		let n = *r.pick(&[b, 2 * b, b + 1]);
		let child = r.chance(1, 3);
		let mut tracks = vec![TSpec { parent: None, vol: 0.0, routes: vec![(0, 0.0)], nsnd: 1, fx: vec![] }];
		if child {
			tracks.push(TSpec { parent: Some(0), vol: 0.0, routes: vec![], nsnd: 1, fx: vec![] });
		}
		let kind = i % 4; // 0 mute the track, 1 unmute it, 2 close the route, 3 open it
		match kind {
			1 => tracks[0].vol = -60.0,
			3 => tracks[0].routes[0].1 = -60.0,
			_ => {}
		}
		let spec = CSpec { b, ch: 2, main_vol: 0.0, main_fx: None, main_nsnd: 0, sends: vec![SSpec { vol: 0.0, fx: None }], tracks, clock: false };
		let dur_frames = r.range(3 * b as i64, 8 * b as i64) as u64;
		let waiting = r.chance(1, 3);
		let target = match kind {
			0 | 2 => -60.0,
			_ => *r.pick(&[0.0f32, -6.0]),
		};
		let paused_cbs = (dur_frames as usize + n - 1) / n + 2;
		let mk = |dur_ns: u64| -> Vec<CCb> {
			let tw = CTw { start: CStart::Imm, dur_ns, ek: 0, ep: 0 };
			let cmd = if kind < 2 { CCmd::Vol(1, target, tw) } else { CCmd::Route(1, 0, target, tw) };
			let mut cbs = vec![CCb { pre: vec![], mid: vec![], n }];
			let mut first = vec![CCmd::Pause(1, ctw_zero())];
			if waiting {
				first.push(CCmd::Resume(1, CStart::Del((paused_cbs as u64 + 2) * n as u64 * FRAME_NS), ctw_zero()));
			}
			cbs.push(CCb { pre: first, mid: vec![], n });
			cbs.push(CCb { pre: vec![cmd], mid: vec![], n });
			for _ in 0..paused_cbs {
				cbs.push(CCb { pre: vec![], mid: vec![], n });
			}
			cbs.push(CCb { pre: if waiting { vec![] } else { vec![CCmd::Resume(1, CStart::Imm, ctw_zero())] }, mid: vec![], n });
			for _ in 0..5 {
				cbs.push(CCb { pre: vec![], mid: vec![], n });
			}
			cbs
		};
		let test = mk(dur_frames * FRAME_NS);
		let reference = mk(0);
		let a = run_ctl(&spec, &test, false);
		let rf = run_ctl(&spec, &reference, false);
		s.eval_only("volume_while_paused_twin");
		let from = 3 + paused_cbs;
		let what = match kind {
			0 => "track muted",
			1 => "track unmuted",
			2 => "send route closed",
			_ => "send route opened",
		};
		let heard = a.outs[from..].iter().flatten().any(|x| *x != 0.0);
		if kind != 0 && !heard {
			s.fail(script_text(&spec, &test), format!("{what} while paused: nothing at all is heard after the resume"), None);
		}
		'cmpb: for k in from..a.outs.len() {
			for (j, (x, y)) in a.outs[k].iter().zip(rf.outs[k].iter()).enumerate() {
				if x.to_bits() != y.to_bits() {
					s.fail(
						script_text(&spec, &test),
						format!("{what} with a tween of {dur_frames} frames while the track was {} ({} frames went by before it resumed): the commanded volume must be in force at the resume; callback {k}, device sample {j} is {x:?}, with an instant change at the same point it is {y:?}", if waiting { "WaitingToResume" } else { "Paused" }, paused_cbs * n),
						None,
					);
					break 'cmpb;
				}
			}
		}
		// (every third test run is also a model case)
		if i % 3 == 0 {
			s.case("ctl_volume_while_paused", a.term.clone(), &a.obs, Some(key_of(&a.term)));
		}
		if i % 36 == 35 {
			s.flush();
		}
		monitor_quiet(s, &spec, &test, &a);
	}
}

// ---------------------------------------------------------------- removal histories (monitor D, case CKeep)
#[derive(Clone, Debug)]
enum KOp {
	Add(usize, usize, bool),
	Play(usize),
	Drop(usize),
}
struct KNode {
	parent: usize,
	persist: bool,
	h: Option<TrackHandle>,
	snds: Vec<Log>,
	/// still in the mixer as far as the documented rules go
	present: bool,
}
fn keep_scenarios(s: &mut Session, rng: &mut Rng, count: u64) {
	for i in 0..count {
		let mut r = rng.fork();
		let b = *r.pick(&[1usize, 4]);
		let mut mgr = manager(SR, b, Capacities::default(), MainTrackBuilder::new());
		// node 0 is the mixer
		let mut nodes: Vec<KNode> = vec![KNode { parent: 0, persist: false, h: None, snds: vec![], present: true }];
		let mut rounds: Vec<Vec<KOp>> = vec![];
		let mut obs: Vec<i128> = vec![];
		let mut failure: Option<String> = None;
		let nrounds = r.range(4, 9) as usize;
		let scripted = i % 3; // 0: random; 1: chain, handles dropped top-down, grandchild alive; 2: persisting child with a sound
		for round in 0..nrounds {
			let mut ops: Vec<KOp> = vec![];
			if scripted == 1 && round < 3 {
				match round {
					0 => {
						ops.push(KOp::Add(0, 1, false));
						ops.push(KOp::Add(1, 2, false));
						if r.chance(1, 2) {
							ops.push(KOp::Add(2, 3, false));
							ops.push(KOp::Play(3));
						}
					}
					1 => {
						if nodes.len() < 4 {
							// the grandchild is still queued when both ancestors' handles go
							ops.push(KOp::Add(2, 3, false));
							ops.push(KOp::Play(3));
						}
						if r.chance(1, 2) {
							ops.push(KOp::Drop(1));
							ops.push(KOp::Drop(2));
						} else {
							ops.push(KOp::Drop(2));
							ops.push(KOp::Drop(1));
						}
					}
					_ => {}
				}
			} else if scripted == 2 && round < 2 {
				match round {
					0 => {
						ops.push(KOp::Add(0, 1, false));
						ops.push(KOp::Add(1, 2, true));
						ops.push(KOp::Play(2));
					}
					_ => {
						ops.push(KOp::Drop(2));
						ops.push(KOp::Drop(1));
					}
				}
			} else {
				for _ in 0..r.below(4) {
					let held: Vec<usize> = (1..nodes.len()).filter(|j| nodes[*j].h.is_some()).collect();
					match r.below(6) {
						0 | 1 if nodes.len() < 9 => {
							let parent = if held.is_empty() || r.chance(1, 3) { 0 } else { *r.pick(&held) };
							ops.push(KOp::Add(parent, nodes.len() + ops.iter().filter(|o| matches!(o, KOp::Add(..))).count(), r.chance(1, 4)));
						}
						2 if !held.is_empty() => ops.push(KOp::Play(*r.pick(&held))),
						3 | 4 if !held.is_empty() => {
							let t = *r.pick(&held);
							if !ops.iter().any(|o| matches!(o, KOp::Drop(x) | KOp::Play(x) if *x == t) || matches!(o, KOp::Add(p, _, _) if *p == t)) {
								ops.push(KOp::Drop(t));
							}
						}
						_ => {}
					}
				}
			}
			// apply
			let mut done: Vec<KOp> = vec![];
			for o in ops {
				match &o {
					KOp::Add(p, id, persist) => {
						if *id != nodes.len() {
							continue;
						}
						let bld = TrackBuilder::new().persist_until_sounds_finish(*persist);
						let h = if *p == 0 {
							mgr.add_sub_track(bld).ok()
						} else {
							match nodes[*p].h.as_mut() {
								Some(ph) => ph.add_sub_track(bld).ok(),
								None => None,
							}
						};
						let Some(h) = h else { continue };
						nodes.push(KNode { parent: *p, persist: *persist, h: Some(h), snds: vec![], present: true });
					}
					KOp::Play(t) => {
						let total: usize = nodes.iter().map(|n| n.snds.len()).sum();
						if total >= 10 {
							continue;
						}
						let Some(h) = nodes[*t].h.as_mut() else { continue };
						let log: Log = Arc::default();
						let d = SndData(SndProbe { id: 1 + (total as u64 % 12), pos: 0, log: log.clone(), stop: Arc::new(AtomicBool::new(false)), dirty: Arc::new(AtomicBool::new(false)) });
						if h.play(d).is_err() {
							continue;
						}
						nodes[*t].snds.push(log);
					}
					KOp::Drop(t) => {
						if nodes[*t].h.take().is_none() {
							continue;
						}
					}
				}
				done.push(o);
			}
			// the documented rules: a track stays while anything at or below it has a reason to stay
			let nn = nodes.len();
			let mut anchored = vec![false; nn];
			for j in (1..nn).rev() {
				let own = nodes[j].h.is_some() || (nodes[j].persist && !nodes[j].snds.is_empty());
				if own || anchored[j] {
					anchored[j] = true;
					let p = nodes[j].parent;
					anchored[p] = true;
				}
			}
			anchored[0] = true;
			for j in 1..nn {
				// (parents have smaller numbers than their children)
				let p = nodes[j].parent;
				nodes[j].present = nodes[j].present && nodes[p].present && anchored[j];
			}
			let marks: Vec<Vec<usize>> = nodes.iter().map(|n| n.snds.iter().map(len).collect()).collect();
			let n_frames = *r.pick(&[1usize, 2, 5]);
			mgr.backend_mut().callback(n_frames, 2);
			let want: Vec<usize> = chunk_sizes(b, n_frames);
			let mut rendered = 0i128;
			for (j, n) in nodes.iter().enumerate() {
				for (q, l) in n.snds.iter().enumerate() {
					let got = l.lock().unwrap()[marks[j][q]..].to_vec();
					if !got.is_empty() {
						rendered += 1;
					}
					if failure.is_none() {
						if n.present && got != want {
							failure = Some(format!("round {round}: a sound on track {j} was asked for slices {got:?} in this callback, expected {want:?}: the branch still has a reason to stay (a live handle at or below it, or a persisting track with a sound), so nothing of it may be lost"));
						}
						if !n.present && !got.is_empty() {
							failure = Some(format!("round {round}: a sound on track {j} is still rendered although nothing at or below the track has a reason to stay"));
						}
					}
				}
			}
			obs.push(rendered);
			rounds.push(done);
		}
		let term = format!(
			"CKeep [{}]",
			rounds
				.iter()
				.map(|ops| {
					format!(
						"[{}]",
						ops.iter()
							.map(|o| match o {
								KOp::Add(p, id, pe) => format!("RKAdd {} {} {}", p, id, *pe as u8),
								KOp::Play(t) => format!("RKPlay {}", t),
								KOp::Drop(t) => format!("RKDrop {}", t),
							})
							.collect::<Vec<_>>()
							.join("; ")
					)
				})
				.collect::<Vec<_>>()
				.join("; ")
		);
		let nontrivial = rounds.iter().flatten().any(|o| matches!(o, KOp::Drop(_)));
		s.case("keep_history", term.clone(), &obs, if nontrivial { Some(key_of(&term)) } else { None });
		if let Some(f) = failure {
			s.fail(format!("internal buffer {b}; tracks are numbered in creation order, 0 is the mixer; one callback after every round of handle operations: {term}"), f, None);
		}
	}
}

/// Builder-side and unity-gain corner cases (monitor only).
/// (a) A send route given twice on one builder is ONE route with the last volume (`with_send` inserts into a map):
///     "plus that signal through every send route on the path (route volume x send-track volume)".
/// (b) A main-track volume tween that ends on exactly 0 dB renders like its twin that ends a hair below 0 dB:
///     "all scaled by the main-track volume" also in the buffer in which the fader arrives at unity.
fn builder_and_unity_scenarios(s: &mut Session) {
	use crate::inject::*;
	// (a)
	for (first, second, expect) in [(-6.0f32, f32::NEG_INFINITY, 0.25f32), (f32::NEG_INFINITY, 0.0, 0.5), (0.0, 0.0, 0.5)] {
		let (m, r) = shared_manager(1000, 4, MainTrackBuilder::new());
		let send = m.lock().unwrap().add_send_track(SendTrackBuilder::new()).unwrap();
		let db = |x: f32| if x == f32::NEG_INFINITY { Decibels::SILENCE } else { Decibels(x) };
		let mut t = m.lock().unwrap().add_sub_track(TrackBuilder::new().with_send(&send, db(first)).with_send(&send, db(second))).unwrap();
		t.play(Dc(0.25)).unwrap();
		let _ = callback(&r, 4, 2);
		let out = callback(&r, 8, 2);
		s.eval_only("send_given_twice");
		if let Some(i) = out.iter().position(|x| (*x - expect).abs() > 1e-6) {
			s.fail(
				format!("TrackBuilder::new().with_send(S, {first} dB).with_send(S, {second} dB); constant 0.25 on the track; S and main at 0 dB"),
				format!("sample {i} is {:?}, expected {expect:?} (direct 0.25 + 0.25 x the LAST route volume given for S)", out[i]),
				None,
			);
		}
		drop(t);
		drop(send);
	}
	// (b)
	for (b, cbs, from_db, frames) in [(8usize, vec![8usize, 8, 8, 8], -20.0f32, 12u64), (16, vec![5, 16, 7, 16], -30.0, 0), (4, vec![4, 4, 4, 4, 4, 4], -6.0, 9), (128, vec![100, 100, 100], -12.0, 150)] {
		let mut outs = vec![];
		for target in [0.0f32, -0.0001] {
			let (m, r) = shared_manager(1000, b, MainTrackBuilder::new().volume(Decibels(from_db)));
			m.lock().unwrap().play(Dc(0.5)).unwrap();
			let _ = callback(&r, b, 2);
			m.lock().unwrap().main_track().set_volume(Decibels(target), Tween { start_time: StartTime::Immediate, duration: Duration::from_millis(frames), easing: Easing::Linear });
			let mut o = vec![];
			for n in &cbs {
				o.extend(callback(&r, *n, 2));
			}
			outs.push(o);
		}
		s.eval_only("main_fader_to_unity");
		for i in 0..outs[0].len() {
			let (a, c) = (outs[0][i], outs[1][i]);
			if (a - c).abs() > 1e-4 * c.abs().max(1e-3) {
				s.fail(
					format!("internal buffer {b}, callbacks {cbs:?}; main volume {from_db} dB, then set_volume(0 dB, Linear over {frames} frames); constant 0.5 on the main track"),
					format!("sample {i} is {a:?}; with a target of -0.0001 dB instead of 0 dB it is {c:?}: the fader is not applied in the buffer in which it arrives at unity"),
					None,
				);
				break;
			}
		}
	}
}

pub fn run(args: &Args) {
	let mut rng = Rng::new(args.seed ^ 0xC02);
	let n: u64 = (if args.thorough { 6000 } else { 700 }) * args.budget_mul;
	let mut s = Session::new(
		"C02",
		&args.out,
		"From Coq Require Import ZArith List. Import ListNotations. Open Scope Z_scope.\nFrom KV Require Import Base.Corr C06.Run C02.Run.",
		"run",
		120,
		"one case = one segment of device callbacks (no command in flight) rendered by a real AudioManager on a random track tree (depth <= 4, <= 9 tracks, <= 12 probe sounds, <= 2 send tracks, probe effects, pauses, mutes, stale routes) reached through a random add/remove/pause history; observable = device buffer + call log of every probe; distinct = distinct scene/partition text with at least one sub-track and one sound; ctl_* cases = a fixed small tree (<= 3 sub-tracks, <= 2 sends) driven through 4-14 callbacks with pause / resume / resume_at(delayed, clock) / set_volume / set_send commands (tweens of 0..24 frames, Linear / Powi, delayed starts) written before or in the middle of callbacks, observable = device buffer bit patterns + sub-track states per callback + call logs; keep_history = rounds of add_sub_track / play / drop(handle) on nested (persisting) tracks, observable = number of sounds rendered per callback",
	);

	// ---- minimal scenes first: the classic mutants each fail one of them
	for b in [1usize, 2, 3, 4] {
		for variant in 0..6 {
			let mut r = Rng::new(1000 + variant);
			let mut sc = Scene::new(&mut r, b, false);
			match variant {
				0 => {
					// two siblings with a sound each
					sc.add_track(&mut r, None);
					sc.add_track(&mut r, None);
					sc.add_sound(Some(0));
					sc.add_sound(Some(1));
				}
				1 => {
					// child + send
					sc.add_send(&mut r);
					sc.add_track(&mut r, None);
					sc.add_track(&mut r, Some(0));
					sc.add_sound(Some(1));
					sc.add_sound(Some(0));
				}
				2 => {
					// paused parent
					sc.add_track(&mut r, None);
					sc.add_track(&mut r, Some(0));
					sc.add_sound(Some(1));
					sc.add_sound(None);
					sc.subs[0].h.pause(zero_tween());
					sc.subs[0].adv = false;
				}
				3 => {
					sc.add_sound(None);
					sc.add_sound(None);
				}
				4 => {
					sc.add_send(&mut r);
					sc.add_send(&mut r);
					sc.add_track(&mut r, None);
					sc.add_sound(Some(0));
					sc.drop_send(&mut r);
				}
				_ => sc.populate(&mut r),
			}
			for ch in [2u16, 1, 3] {
				segment(&mut s, &mut sc, &mut r, "minimal", ch);
			}
		}
	}
	// ---- internal_buffer_size = 0: `chunks_mut(0)` panics in Renderer::process
	{
		let mut r = Rng::new(5);
		let mut sc = Scene::new(&mut r, 0, true);
		let term = sc.snapshot_term(2, &[3]);
		let o = catch(|| {
			sc.render(2, &[3]);
			vec![]
		});
		s.case("b_zero", term, &encode_outcome(&o), None);
	}

	// ---- random scenes and histories
	for _ in 0..n {
		let b = pick_b(&mut rng);
		let mut sc = Scene::new(&mut rng, b, false);
		sc.populate(&mut rng);
		let segs = rng.range(2, 4);
		for k in 0..segs {
			if k > 0 {
				for _ in 0..rng.range(1, 3) {
					sc.random_edit(&mut rng);
				}
			}
			let ch = *rng.pick(&[2u16, 2, 2, 1, 3, 4, 6, 8]);
			segment(&mut s, &mut sc, &mut rng, "random", ch);
		}
	}

	// ---- leak scenarios (monitor only): after a silencing action the device buffer is exact zeros
	for i in 0..n / 2 {
		let b = pick_b(&mut rng);
		let mut sc = Scene::new(&mut rng, b, true);
		sc.populate(&mut rng);
		let cbs = gen_cbs(&mut rng, b, false);
		let warm = sc.render(2, &cbs);
		let audible = warm.iter().any(|x| *x != 0.0);
		let action = i % 5;
		let what = match action {
			0 => {
				sc.stop_all_sounds();
				"every sound removed"
			}
			1 => {
				for n in sc.subs.iter_mut() {
					n.h.pause(zero_tween());
					n.adv = false;
				}
				while !sc.main_snds.is_empty() {
					sc.main_snds.remove(0).stop.store(true, Ordering::SeqCst);
				}
				"every top-level track paused, main-track sounds removed"
			}
			2 => {
				sc.subs.clear();
				while !sc.main_snds.is_empty() {
					sc.main_snds.remove(0).stop.store(true, Ordering::SeqCst);
				}
				"every sub-track removed, main-track sounds removed"
			}
			3 => {
				// a nested track's own routes bypass its parent's fader, so every track is muted
				fn mute(subs: &mut [Node]) {
					for n in subs {
						n.h.set_volume(Decibels::SILENCE, zero_tween());
						mute(&mut n.subs);
					}
				}
				mute(&mut sc.subs);
				while !sc.main_snds.is_empty() {
					sc.main_snds.remove(0).stop.store(true, Ordering::SeqCst);
				}
				// the first chunk still ramps from 0 dB down to silence (C06); skip one callback
				sc.render(2, &[1]);
				"every sub-track muted (sends are post-fader), main-track sounds removed"
			}
			_ => {
				sc.mgr.main_track().set_volume(Decibels::SILENCE, zero_tween());
				sc.render(2, &[1]);
				"main track muted"
			}
		};
		let cbs2 = gen_cbs(&mut rng, b, false);
		let ch = *rng.pick(&[2u16, 1, 4]);
		let after = sc.render(ch, &cbs2);
		s.eval_only("leak_scenario");
		if audible {
			s.count("leak_scenario_audible_before");
		}
		if let Some(p) = after.iter().position(|x| *x != 0.0) {
			s.fail(
				format!("scene b={b} (seed-derived), warm-up callbacks {cbs:?}, then: {what}; callbacks {cbs2:?} on {ch} channels"),
				format!("device sample {p} is {:?}, not silence: something leaked", after[p]),
				None,
			);
		}
	}

	// ---- tweened volumes (monitor only): output stays between the muted and the unmuted rendering, logs unaffected
	for _ in 0..n / 2 {
		let b = pick_b(&mut rng);
		let seed = rng.next();
		let mut outs = vec![];
		let cbs = {
			let mut r = Rng(seed ^ 77);
			let mut v = gen_cbs(&mut r, b, false);
			v.extend(gen_cbs(&mut r, b, false));
			v
		};
		let mut log_err = None;
		for mode in 0..2 {
			let mut r = Rng(seed);
			let mut sc = Scene::new(&mut r, b, true);
			sc.populate(&mut r);
			sc.render(2, &[1]);
			if sc.subs.is_empty() {
				break;
			}
			let pick = (seed % sc.subs.len() as u64) as usize;
			match mode {
				0 => {}
				_ => {
					let frames: usize = cbs.iter().sum();
					let d = Duration::from_secs_f64((1 + (seed >> 8) % (2 * frames as u64 + 1)) as f64 / SR as f64);
					sc.subs[pick].h.set_volume(Decibels::SILENCE, Tween { start_time: StartTime::Immediate, duration: d, easing: Easing::Linear });
				}
			}
			let _ = sc.snapshot_term(2, &cbs);
			outs.push(sc.render(2, &cbs));
			if mode == 1 {
				log_err = sc.check_logs(&cbs);
			}
		}
		if outs.len() < 2 {
			continue;
		}
		s.eval_only("tweened_volume_scenario");
		let desc = format!("scene seed {seed:#x}, b={b}, callbacks {cbs:?}: volume of a top-level track tweened to silence");
		if let Some(e) = log_err {
			s.fail(desc.clone(), e, None);
		}
		for i in 0..outs[0].len() {
			// all probe values are >= 0 and every gain is in [0, 1]; in the muted rendering the first chunk still ramps
			let (hi, mid) = (outs[0][i], outs[1][i]);
			if !(mid <= hi + 1e-6 && mid >= -1e-6) {
				s.fail(desc.clone(), format!("sample {i}: tweened {mid:?} outside [0, unmuted {hi:?}]"), None);
				break;
			}
		}
	}
	pickup_order_scenarios(&mut s);
	builder_and_unity_scenarios(&mut s);
	let n_ctl: u64 = (if args.thorough { 900 } else { 90 }) * args.budget_mul;
	ctl_scenarios(&mut s, &mut rng, n_ctl);
	keep_scenarios(&mut s, &mut rng, n_ctl * 4);
	s.notes.push("probe values are dyadic: every mixer float operation is exact, so the model runs on integers scaled by 2^24 (Run.v header)".into());
	s.finish();
}
