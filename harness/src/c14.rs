//! C14 — each effect realises its documented transfer behaviour.
//! Drives the REAL effects (public builders, `Effect::init` / `Effect::process`) and
//!  (1) evaluates the property itself on what they did (monitors, `s.fail`): decibel / equal-power laws,
//!      clip curves, echo positions and gains, measured frequency responses against the textbook
//!      transfer functions (analog prototype + bilinear transform, RBJ shelves / bell), an independent
//!      Freeverb reference, compressor convergence curves against the closed form;
//!  (2) emits cases for coqc: the SPECIFICATIONS evaluated in Flocq binary32 (volume, panning, clip
//!      curves, closed-form echo train, Freeverb written with delay-line histories) must agree bit for
//!      bit with the implementation, and sample traces of every effect must agree with the C13 effect
//!      models the C14 theorems are about;
//!  (3) HISTORIES: what an effect does next depends on the rate in force and on its state only —
//!      compressor through gaps of exact zeros (k whole buffers + a partial one, aligned or not; the follower
//!      keeps releasing: compressor_piecewise_R / compressor_release_through_silence_R), every kind of
//!      response / echo / first-reflection measurement repeated ACROSS a device-rate change on a live effect
//!      (filter_response_after_rate_change_R, eq_response_after_rate_change_R), on the bare effect and on a
//!      sub-track of a real AudioManager (injector and tap effects around the effect under test, so that
//!      the slices are the renderer's own), after HISTORIES of 1-4 device-rate changes (A->B, A->B->A, A->B->C->A,
//!      A->B->B, A->B->A->B, A->B->C->B->A: returns to an earlier / the initial / the same rate), always against the
//!      specification at the rate in force after the last change (reverb_after_rate_history_any; compressor with
//!      per-segment time constants), and bit-exact traces through such histories (C14.Run.CHist).
use crate::util::*;
use kira::effect::compressor::CompressorBuilder;
use kira::effect::delay::{DelayBuilder, DelayHandle};
use kira::effect::distortion::{DistortionBuilder, DistortionHandle, DistortionKind};
use kira::effect::eq_filter::{EqFilterBuilder, EqFilterHandle, EqFilterKind};
use kira::effect::filter::{FilterBuilder, FilterHandle, FilterMode};
use kira::effect::panning_control::{PanningControlBuilder, PanningControlHandle};
use kira::effect::reverb::ReverbBuilder;
use kira::effect::volume_control::{VolumeControlBuilder, VolumeControlHandle};
use kira::effect::{Effect, EffectBuilder};
use kira::info::{Info, MockInfoBuilder};
use kira::{Frame, Panning, Tween, Value};
use kira::track::TrackBuilder;
use std::collections::BTreeSet;
use std::sync::{Arc, Mutex};
use std::time::Duration;

// ------------------------------------------------------------------ effect descriptions
// (small helpers copied from c13.rs: builder parameters, Gallina term of C13.Run.edesc, libm table)

#[derive(Clone, Debug)]
enum Desc {
	Vol(f32),
	Pan(f32),
	Dist { hard: bool, db: f32, mix: f32 },
	Filter { mode: u8, cutoff: f64, res: f64, mix: f32 },
	Eq { kind: u8, freq: f64, gain: f32, q: f64 },
	Comp { thr: f64, ratio: f64, att: Duration, rel: Duration, mk: f32, mix: f32 },
	Delay { time: Duration, fb: f32, mix: f32, fx: Vec<Desc> },
	Reverb { fb: f64, damp: f64, width: f64, mix: f32 },
}
use Desc::*;

fn eff32(a: f32) -> f32 {
	a + (a - a) * 1.0f32
}
fn eff64(a: f64) -> f64 {
	a + (a - a) * 1.0f64
}

const T_TAN: u8 = 0;
const T_POW10: u8 = 1;
const T_EXP: u8 = 2;
const T_POWF10: u8 = 3;
const T_LOG10F: u8 = 4;
type Tab = BTreeSet<(u8, i128, i128)>;

struct Boxed(Desc);
impl EffectBuilder for Boxed {
	type Handle = ();
	fn build(self) -> (Box<dyn Effect>, ()) {
		(self.0.build(), ())
	}
}

impl Desc {
	fn build(&self) -> Box<dyn Effect> {
		match self {
			Vol(db) => VolumeControlBuilder::new(*db).build().0,
			Pan(p) => PanningControlBuilder(Value::Fixed(Panning(*p))).build().0,
			Dist { hard, db, mix } => DistortionBuilder::new()
				.kind(if *hard { DistortionKind::HardClip } else { DistortionKind::SoftClip })
				.drive(*db)
				.mix(*mix)
				.build()
				.0,
			Filter { mode, cutoff, res, mix } => FilterBuilder::new()
				.mode(match mode {
					0 => FilterMode::LowPass,
					1 => FilterMode::BandPass,
					2 => FilterMode::HighPass,
					_ => FilterMode::Notch,
				})
				.cutoff(*cutoff)
				.resonance(*res)
				.mix(*mix)
				.build()
				.0,
			Eq { kind, freq, gain, q } => EqFilterBuilder::new(
				match kind {
					0 => EqFilterKind::Bell,
					1 => EqFilterKind::LowShelf,
					_ => EqFilterKind::HighShelf,
				},
				*freq,
				*gain,
				*q,
			)
			.build()
			.0,
			Comp { thr, ratio, att, rel, mk, mix } => CompressorBuilder::new()
				.threshold(*thr)
				.ratio(*ratio)
				.attack_duration(*att)
				.release_duration(*rel)
				.makeup_gain(*mk)
				.mix(*mix)
				.build()
				.0,
			Delay { time, fb, mix, fx } => {
				let mut b = DelayBuilder::new().delay_time(*time).feedback(*fb).mix(*mix);
				for d in fx {
					b = b.with_feedback_effect(Boxed(d.clone()));
				}
				b.build().0
			}
			Reverb { fb, damp, width, mix } => ReverbBuilder::new().feedback(*fb).damping(*damp).stereo_width(*width).mix(*mix).build().0,
		}
	}
	/// Gallina term of type `C13.Run.edesc`
	fn term(&self) -> String {
		match self {
			Vol(db) => format!("(DVol {})", f32_bits_z(*db)),
			Pan(p) => format!("(DPan {})", f32_bits_z(*p)),
			Dist { hard, db, mix } => format!("(DDist {} {} {})", if *hard { 0 } else { 1 }, f32_bits_z(*db), f32_bits_z(*mix)),
			Filter { mode, cutoff, res, mix } => format!("(DFilter {} {} {} {})", mode, f64_bits_z(*cutoff), f64_bits_z(*res), f32_bits_z(*mix)),
			Eq { kind, freq, gain, q } => format!("(DEq {} {} {} {})", kind, f64_bits_z(*freq), f32_bits_z(*gain), f64_bits_z(*q)),
			Comp { thr, ratio, att, rel, mk, mix } => format!(
				"(DComp {} {} {} {} {} {})",
				f64_bits_z(*thr),
				f64_bits_z(*ratio),
				f64_bits_z(att.as_secs_f64()),
				f64_bits_z(rel.as_secs_f64()),
				f32_bits_z(*mk),
				f32_bits_z(*mix)
			),
			Delay { time, fb, mix, fx } => format!(
				"(DDelay {} {} {} [{}])",
				time.as_nanos(),
				f32_bits_z(*fb),
				f32_bits_z(*mix),
				fx.iter().map(|d| d.term()).collect::<Vec<_>>().join("; ")
			),
			Reverb { fb, damp, width, mix } => format!("(DReverb {} {} {} {})", f64_bits_z(*fb), f64_bits_z(*damp), f64_bits_z(*width), f32_bits_z(*mix)),
		}
	}
	/// libm results that depend on the parameters only (same std calls as the implementation)
	fn oracle(&self, sr: u32, tab: &mut Tab) {
		let dt = 1.0 / sr as f64;
		let powf10 = |tab: &mut Tab, db: f32| {
			let arg = eff32(db) / 20.0;
			tab.insert((T_POWF10, obs32(arg), obs32(10.0f32.powf(arg))));
		};
		match self {
			Vol(db) => powf10(tab, *db),
			Pan(_) | Reverb { .. } => {}
			Dist { db, .. } => powf10(tab, *db),
			Filter { cutoff, .. } => {
				let sample_rate = 1.0 / dt;
				let c = eff64(*cutoff) / sample_rate;
				let c = if c < 0.0001 { 0.0001 } else if c > 0.5 { 0.5 } else { c };
				let arg = std::f64::consts::PI * c;
				tab.insert((T_TAN, obs64(arg), obs64(arg.tan())));
			}
			Eq { freq, gain, .. } => {
				let a = eff32(*gain) as f64 / 40.0;
				tab.insert((T_POW10, obs64(a), obs64(10.0f64.powf(a))));
				let c = eff64(*freq) * dt;
				let c = if c < 0.0001 { 0.0001 } else if c > 0.5 { 0.5 } else { c };
				let arg = std::f64::consts::PI * c;
				tab.insert((T_TAN, obs64(arg), obs64(arg.tan())));
			}
			Comp { att, rel, mk, .. } => {
				for d in [att, rel] {
					let arg = -1.0 / (d.as_secs_f64() / dt);
					tab.insert((T_EXP, obs64(arg), obs64(arg.exp())));
				}
				powf10(tab, *mk);
			}
			Delay { fb, fx, .. } => {
				powf10(tab, *fb);
				for d in fx {
					d.oracle(sr, tab);
				}
			}
		}
	}
}

/// the libm calls of the compressor that depend on the signal: a mirror of compressor.rs
/// (segments = consecutive runs at possibly different sample rates; the envelope carries over)
fn comp_oracle(d: &Desc, segments: &[(u32, &[Frame])], tab: &mut Tab) {
	if let Comp { thr, ratio, att, rel, .. } = d {
		let threshold = *thr as f32;
		let ratio = *ratio as f32;
		let mut env = [0.0f32; 2];
		for (sr, input) in segments {
			let dt = 1.0 / *sr as f64;
			for f in input.iter() {
				let chans = [f.left, f.right];
				for i in 0..2 {
					let a = chans[i].abs();
					let l = a.log10();
					tab.insert((T_LOG10F, obs32(a), obs32(l)));
					let input_db = 20.0 * l;
					let over = (input_db - threshold).max(0.0);
					let duration = if env[i] > over { *rel } else { *att };
					let speed = (-1.0 / (duration.as_secs_f64() / dt)).exp();
					env[i] = over + speed as f32 * (env[i] - over);
					let gr = env[i] * ((1.0 / ratio) - 1.0);
					let arg = gr / 20.0;
					tab.insert((T_POWF10, obs32(arg), obs32(10.0f32.powf(arg))));
				}
			}
		}
	}
}

struct Ctx {
	info: Info<'static>,
}

/// internal buffer size given to `init`; every `process` call gets at most this many frames
const T: usize = 256;

/// build, init, process the input in slices of at most T frames
fn run_effect(cx: &Ctx, d: &Desc, sr: u32, input: &[Frame]) -> Outcome<Vec<Frame>> {
	catch(|| {
		let mut e = d.build();
		e.init(sr, T);
		let dt = 1.0 / sr as f64;
		let mut buf = input.to_vec();
		for chunk in buf.chunks_mut(T) {
			e.on_start_processing();
			e.process(chunk, dt, &cx.info);
		}
		buf
	})
}
/// same, panics turned into a monitor failure
fn run_ok(s: &mut Session, cx: &Ctx, d: &Desc, sr: u32, input: &[Frame]) -> Option<Vec<Frame>> {
	match run_effect(cx, d, sr, input) {
		Outcome::Ok(v) => Some(v),
		_ => {
			s.fail(format!("{:?} @ {} Hz", d, sr), format!("process panicked: {}", last_panic()), None);
			None
		}
	}
}

fn canon32(x: f32) -> i128 {
	if x == 0.0 {
		0
	} else {
		obs32(x)
	}
}
fn frames_canon(v: &[Frame]) -> Vec<i128> {
	let mut o = Vec::with_capacity(v.len() * 2);
	for f in v {
		o.push(canon32(f.left));
		o.push(canon32(f.right));
	}
	o
}
fn frames_term(v: &[Frame]) -> String {
	format!("[{}]", v.iter().map(|f| format!("({}, {})", f32_bits_z(f.left), f32_bits_z(f.right))).collect::<Vec<_>>().join("; "))
}
fn hash(s: &str) -> u64 {
	let mut h: u64 = 0xcbf29ce484222325;
	for b in s.bytes() {
		h ^= b as u64;
		h = h.wrapping_mul(0x100000001b3);
	}
	h
}
fn key_of(term: &str) -> Option<String> {
	Some(format!("{:016x}", hash(term)))
}

const RATES: [u32; 9] = [8000, 11025, 16000, 22050, 32000, 44100, 48000, 96000, 192000];
fn gen_sr(r: &mut Rng) -> u32 {
	if r.chance(3, 4) {
		*r.pick(&RATES)
	} else {
		r.range(8000, 192000) as u32
	}
}
fn unit32(r: &mut Rng) -> f32 {
	(r.unit_f64() * 2.0 - 1.0) as f32
}
fn noise(r: &mut Rng, n: usize, amp: f32) -> Vec<Frame> {
	(0..n).map(|_| Frame::new(unit32(r) * amp, unit32(r) * amp)).collect()
}
/// `Decibels::as_amplitude` in f64 (the documented law)
fn amp64(db: f32) -> f64 {
	if db <= -60.0 {
		0.0
	} else {
		10f64.powf(db as f64 / 20.0)
	}
}
fn powf_tab(db: f32) -> String {
	let arg = eff32(db) / 20.0;
	format!("[({}, {})]", f32_bits_z(arg), f32_bits_z(10.0f32.powf(arg)))
}
fn close(a: f64, b: f64, rel: f64, abs: f64) -> bool {
	(a - b).abs() <= rel * b.abs() + abs
}
fn mixw(mix: f32) -> (f64, f64) {
	let m = (mix as f64).clamp(0.0, 1.0);
	(m.sqrt(), (1.0 - m).sqrt())
}

// ------------------------------------------------------------------ volume / panning / distortion

fn sec_volume(s: &mut Session, cx: &Ctx, rng: &mut Rng, n: usize) {
	let specials = [0.0f32, -0.0, -60.0, -59.999996, -60.000004, 6.0, -6.0, 20.0, -20.0, -100.0, 24.0];
	for i in 0..n {
		let db = if i < specials.len() { specials[i] } else { (-70.0 + rng.unit_f64() * 94.0) as f32 };
		let sr = gen_sr(rng);
		let mut input = noise(rng, 6, 1.0);
		input[0] = Frame::new(1.0, -1.0);
		input[1] = Frame::new(0.5, 0.0);
		let d = Vol(db);
		let Some(out) = run_ok(s, cx, &d, sr, &input) else { continue };
		let term = format!("CVol {} {} {}", f32_bits_z(db), powf_tab(db), frames_term(&input));
		let k = key_of(&term);
		s.case("volume_law_b32", term, &frames_canon(&out), k);
		// monitor: the decibel law itself
		let g = amp64(db);
		for (x, y) in input.iter().zip(out.iter()) {
			for (xi, yi) in [(x.left, y.left), (x.right, y.right)] {
				let want = xi as f64 * g;
				let ok = if db == 0.0 { yi == xi } else if db <= -60.0 { yi == 0.0 } else { close(yi as f64, want, 1e-6, 1e-30) };
				if !ok {
					s.fail(format!("{:?} @ {} Hz", d, sr), format!("volume control: input {xi} output {yi}, decibel law gives {want}"), None);
				}
			}
		}
	}
}

fn sec_panning(s: &mut Session, cx: &Ctx, rng: &mut Rng, n: usize) {
	let specials = [0.0f32, -0.0, 1.0, -1.0, 0.5, -0.5, 1.5, -3.0, 0.25, 1e-3];
	for i in 0..n {
		let p = if i < specials.len() { specials[i] } else { (rng.unit_f64() * 2.4 - 1.2) as f32 };
		let sr = gen_sr(rng);
		let mut input = noise(rng, 6, 1.0);
		input[0] = Frame::new(1.0, 1.0);
		input[1] = Frame::new(-0.5, 0.25);
		let d = Pan(p);
		let Some(out) = run_ok(s, cx, &d, sr, &input) else { continue };
		let term = format!("CPan {} {}", f32_bits_z(p), frames_term(&input));
		let k = key_of(&term);
		s.case("pan_law_b32", term, &frames_canon(&out), k);
		// monitor: equal-power law
		let pc = (p as f64).clamp(-1.0, 1.0);
		let (gl, gr) = ((1.0 - pc).sqrt(), (1.0 + pc).sqrt());
		for (x, y) in input.iter().zip(out.iter()) {
			// compared in the power domain: 1 - m is rounded to binary32 before the square root, so next to a
			// hard pan the small gain carries an absolute (not relative) rounding error
			let pw_ok = |y: f32, x: f32, g: f64| -> bool {
				let (y, x) = (y as f64, x as f64);
				(y * y - x * x * g * g).abs() <= 1e-6 * x * x + 1e-30 && (y == 0.0 || x * g == 0.0 || (y > 0.0) == (x > 0.0))
			};
			if !(pw_ok(y.left, x.left, gl) && pw_ok(y.right, x.right, gr)) {
				s.fail(format!("{:?} @ {} Hz", d, sr), format!("panning: in {:?} out {:?}, equal-power gains ({gl}, {gr})", x, y), None);
			}
		}
		let (l, r) = (out[0].left as f64, out[0].right as f64);
		if !close(l * l + r * r, 2.0, 1e-6, 0.0) {
			s.fail(format!("{:?} @ {} Hz", d, sr), format!("panning is not equal-power: L^2 + R^2 = {} for a unit frame", l * l + r * r), None);
		}
		if p == 0.0 && !(out[1].left == input[1].left && out[1].right == input[1].right) {
			s.fail(format!("{:?} @ {} Hz", d, sr), "centre panning changes the frame".into(), None);
		}
	}
}

fn sec_distortion(s: &mut Session, cx: &Ctx, rng: &mut Rng, n: usize) {
	let specials = [0.0f32, 6.0, -6.0, 20.0, 40.0, -40.0, -59.0, -60.0, -80.0];
	for i in 0..n {
		let hard = i % 2 == 0;
		let db = if i / 2 < specials.len() { specials[i / 2] } else { (-50.0 + rng.unit_f64() * 90.0) as f32 };
		let sr = gen_sr(rng);
		let dr = amp64(db);
		let mut input: Vec<Frame> = (0..10)
			.map(|j| {
				let scale = match j % 5 {
					0 => 2.0,
					1 => 1.0,
					2 => 0.01,
					3 => 1e-4,
					_ => if dr > 0.0 { (1.0 / dr) as f32 * 1.5 } else { 1.0 },
				};
				Frame::new(unit32(rng) * scale, unit32(rng) * scale)
			})
			.collect();
		input[0] = Frame::new(1.0, -1.0);
		if dr > 0.0 {
			input[1] = Frame::new((1.0 / dr) as f32, -(2.0 / dr) as f32);
		}
		// --- fully wet: bit-exact against the clip curves in binary32
		let d = Dist { hard, db, mix: 1.0 };
		let Some(out) = run_ok(s, cx, &d, sr, &input) else { continue };
		let term = format!("CDist {} {} {} {}", if hard { 0 } else { 1 }, f32_bits_z(db), powf_tab(db), frames_term(&input));
		let k = key_of(&term);
		s.case(if hard { "hard_clip_curve_b32" } else { "soft_clip_curve_b32" }, term, &frames_canon(&out), k);
		// --- monitors
		let desc = format!("{:?} @ {} Hz", d, sr);
		for (x, y) in input.iter().zip(out.iter()) {
			for (xi, yi) in [(x.left as f64, y.left as f64), (x.right as f64, y.right as f64)] {
				if dr == 0.0 {
					if yi != xi {
						s.fail(desc.clone(), format!("drive <= -60 dB: input {xi} output {yi} (documented: unchanged)"), None);
					}
					continue;
				}
				let v = xi * dr;
				if hard {
					if !((yi * dr).abs() <= 1.0 + 1e-6) {
						s.fail(desc.clone(), format!("hard clip exceeds unit level after drive: x = {xi}, out * d = {}", yi * dr), None);
					}
					let want = v.clamp(-1.0, 1.0) / dr;
					if !close(yi, want, 2e-6, 1e-30) {
						s.fail(desc.clone(), format!("hard clip: x = {xi}, out = {yi}, clamp(x d)/d = {want}"), None);
					}
				} else {
					let want = xi / (1.0 + v.abs());
					if !close(yi, want, 2e-6, 1e-30) {
						s.fail(desc.clone(), format!("soft clip: x = {xi}, out = {yi}, x/(1+|x d|) = {want}"), None);
					}
					if !((yi - xi).abs() <= dr * xi * xi * (1.0 + 1e-5) + 4e-7 * xi.abs()) {
						s.fail(desc.clone(), format!("soft clip not transparent: |out - x| = {} > d x^2 = {}", (yi - xi).abs(), dr * xi * xi), None);
					}
					if !((yi * dr).abs() < 1.0 + 1e-6) {
						s.fail(desc.clone(), format!("soft clip reaches unit level: out * d = {}", yi * dr), None);
					}
				}
			}
		}
		// --- partly wet: the equal-power blend of the curve and the dry signal
		let mix = rng.unit_f64() as f32;
		let d2 = Dist { hard, db, mix };
		if let Some(out2) = run_ok(s, cx, &d2, sr, &input) {
			s.eval_only("mon_distortion_mix");
			let (ws, ds) = mixw(mix);
			for (j, (x, y)) in input.iter().zip(out2.iter()).enumerate() {
				let want = out[j].left as f64 * ws + x.left as f64 * ds;
				if !close(y.left as f64, want, 2e-6, 1e-30) {
					s.fail(format!("{:?} @ {} Hz", d2, sr), format!("mix: out {} vs wet*sqrt(m)+dry*sqrt(1-m) = {want}", y.left), None);
				}
			}
		}
	}
}

// ------------------------------------------------------------------ delay: echo train

/// the documented delay length: floor(delay_time * sample_rate) in exact arithmetic, at least one frame
fn exact_frames(time: Duration, sr: u32) -> usize {
	((time.as_nanos() * sr as u128 / 1_000_000_000u128) as usize).max(1)
}

/// impulse response of a plain delay: positions and gains of the echoes
fn check_echoes(s: &mut Session, cx: &Ctx, time: Duration, sr: u32, fb: f32, mix: f32, a: f32, b: f32, echoes: usize, kind: &str) -> Option<Vec<Frame>> {
	let dd = exact_frames(time, sr);
	let n = dd * echoes + dd / 2 + 2;
	let mut input = vec![Frame::ZERO; n];
	input[0] = Frame::new(a, b);
	let d = Delay { time, fb, mix, fx: vec![] };
	let out = run_ok(s, cx, &d, sr, &input)?;
	s.eval_only(kind);
	let g = amp64(fb);
	let (ws, ds) = mixw(mix);
	let desc = format!("{:?} @ {} Hz (delay_time = {} ns, exact floor(delay_time * rate) = {} frames)", d, sr, time.as_nanos(), dd);
	for i in 0..n {
		let (wl, wr) = if i > 0 && i % dd == 0 {
			let k = (i / dd) as i32;
			(g.powi(k) * a as f64, g.powi(k) * b as f64)
		} else {
			(0.0, 0.0)
		};
		let (xl, xr) = if i == 0 { (a as f64, b as f64) } else { (0.0, 0.0) };
		let (el, er) = (wl * ws + xl * ds, wr * ws + xr * ds);
		let (ol, or) = (out[i].left as f64, out[i].right as f64);
		let ok = if el == 0.0 && er == 0.0 { ol == 0.0 && or == 0.0 } else { close(ol, el, 2e-5, 1e-38) && close(or, er, 2e-5, 1e-38) };
		if !ok {
			let first = out.iter().skip(1).position(|f| f.left != 0.0 || f.right != 0.0).map(|p| p + 1);
			s.fail(
				desc.clone(),
				format!("impulse ({a}, {b}) at frame 0: frame {i} is ({ol}, {or}), echo train says ({el}, {er}) [echo k at frame k*{dd} with gain g^k, g = {g}]; first non-zero output after frame 0 at {:?}", first),
				None,
			);
			break;
		}
	}
	Some(out)
}

fn sec_delay(s: &mut Session, cx: &Ctx, rng: &mut Rng, n_cases: usize, n_long: usize) {
	// --- small delays: monitor + closed-form echo train evaluated in binary32 by coqc
	for i in 0..n_cases {
		let sr = gen_sr(rng);
		let dd = if i < 4 { 1 + i as u64 } else { rng.range(1, 12) as u64 };
		let time = Duration::from_nanos((dd * 1_000_000_000 + 250_000_000) / sr as u64 + 1);
		let fb = match i % 5 {
			0 => -6.0,
			1 => 0.0,
			2 => -60.0,
			_ => (-30.0 + rng.unit_f64() * 30.0) as f32,
		};
		let mix = match i % 4 {
			0 => 1.0,
			1 => 0.5,
			_ => rng.unit_f64() as f32,
		};
		let (a, b) = (*rng.pick(&[1.0f32, -1.0, 0.5, 0.7]), unit32(rng));
		let dexact = exact_frames(time, sr);
		if let Some(out) = check_echoes(s, cx, time, sr, fb, mix, a, b, 5, "mon_delay_echoes_small") {
			let nn = out.len();
			let term = format!("CEcho {} {} {} {} {} {} {}", dexact, f32_bits_z(fb), powf_tab(fb), f32_bits_z(mix), f32_bits_z(a), f32_bits_z(b), nn);
			let k = key_of(&term);
			s.case("delay_echo_train_b32", term, &frames_canon(&out), k);
		}
	}
	// --- realistic delay times, every rate: positions are exact multiples of the delay time in frames
	for i in 0..n_long {
		let sr = gen_sr(rng);
		let time = match i % 4 {
			0 => Duration::from_millis(rng.range(1, 250) as u64),
			1 => Duration::from_micros(rng.range(50, 200_000) as u64),
			2 => Duration::from_nanos(rng.range(10_000, 100_000_000) as u64),
			_ => Duration::from_secs_f64(rng.range(1, 2000) as f64 / sr as f64),
		};
		let fb = (-24.0 + rng.unit_f64() * 23.0) as f32;
		let mix = if i % 3 == 0 { 1.0 } else { rng.unit_f64() as f32 };
		check_echoes(s, cx, time, sr, fb, mix, 1.0, -0.5, 4, "mon_delay_echoes");
	}
	// --- regression witnesses of F35 (delay line one frame short of floor(delay_time * rate) when the
	//     product was rounded in f64) and delay times that are whole numbers of frames
	for (time, sr) in [
		(Duration::from_micros(35750), 48000u32),
		(Duration::from_millis(1001), 8000),
		(Duration::from_millis(1003), 8000),
		(Duration::from_micros(125875), 16000),
		(Duration::from_micros(70750), 48000),
		(Duration::from_millis(100), 44100),
		(Duration::from_millis(300), 48000),
		(Duration::from_millis(10), 192000),
		(Duration::from_nanos(1), 48000),
		(Duration::ZERO, 44100),
	] {
		check_echoes(s, cx, time, sr, -6.0, 1.0, 1.0, 0.25, 3, "regression_F35_delay_frames");
	}
}

/// delay with effects in the feedback loop: echo k is the impulse passed k times through the loop
/// effects and the feedback gain.  The reference is built from the REAL loop effects run on their own
/// (fresh instance per pass), so that only the delay's routing is under test here.
fn sec_delay_fx(s: &mut Session, cx: &Ctx, rng: &mut Rng, n: usize) {
	for i in 0..n {
		let sr = gen_sr(rng);
		let dd = rng.range(40, 600) as usize;
		let time = Duration::from_nanos((dd as u64 * 1_000_000_000 + 250_000_000) / sr as u64 + 1);
		if exact_frames(time, sr) != dd {
			continue;
		}
		let fb = (-12.0 + rng.unit_f64() * 11.0) as f32;
		let fc = 300.0 * (20.0f64).powf(rng.unit_f64()).min(sr as f64 * 0.4 / 300.0);
		let fx: Vec<Desc> = match i % 4 {
			0 => vec![Filter { mode: 0, cutoff: fc, res: 0.1, mix: 1.0 }],
			1 => vec![Vol(-3.0), Pan(0.3)],
			2 => vec![Filter { mode: 2, cutoff: fc, res: 0.3, mix: 1.0 }, Vol(2.0)],
			_ => vec![Eq { kind: 0, freq: fc, gain: 6.0, q: 1.0 }],
		};
		let echoes = 4usize;
		let n_frames = dd * (echoes + 1);
		let mut input = vec![Frame::ZERO; n_frames];
		// a short burst, well inside one delay period
		for f in input.iter_mut().take(8) {
			*f = Frame::new(unit32(rng), unit32(rng));
		}
		let d = Delay { time, fb, mix: 1.0, fx: fx.clone() };
		let desc = format!("{:?} @ {} Hz", d, sr);
		let Some(out) = run_ok(s, cx, &d, sr, &input) else { continue };
		s.eval_only("mon_delay_feedback_effects");
		// reference: pass the burst (padded to one period) through the loop effects, then the gain, k times
		let g = amp64(fb);
		let mut cur: Vec<Frame> = input[..n_frames].to_vec();
		let mut expect = vec![(0.0f64, 0.0f64); n_frames];
		let mut ok = true;
		for k in 1..=echoes {
			// one trip: loop effects (fresh state: they only ever see this trip's signal, delayed), gain, delay by dd
			for e in &fx {
				match run_effect(cx, e, sr, &cur) {
					Outcome::Ok(v) => cur = v,
					_ => ok = false,
				}
			}
			let mut next = vec![Frame::ZERO; n_frames];
			for j in 0..n_frames - dd {
				next[j + dd] = Frame::new((cur[j].left as f64 * g) as f32, (cur[j].right as f64 * g) as f32);
			}
			cur = next;
			for j in 0..n_frames {
				expect[j].0 += cur[j].left as f64;
				expect[j].1 += cur[j].right as f64;
			}
			let _ = k;
		}
		if !ok {
			continue;
		}
		let peak = expect.iter().map(|p| p.0.abs().max(p.1.abs())).fold(1e-9, f64::max);
		for j in 0..n_frames {
			let (el, er) = ((out[j].left as f64 - expect[j].0).abs(), (out[j].right as f64 - expect[j].1).abs());
			if !(el <= 1e-4 * peak && er <= 1e-4 * peak) {
				s.fail(desc.clone(), format!("frame {j} (delay period {}): wet output ({}, {}), but the sum of the echoes g^k FX^k(input) delayed by k*{dd} frames is ({:.8}, {:.8}) (peak {peak:.4})", j / dd, out[j].left, out[j].right, expect[j].0, expect[j].1), None);
				break;
			}
		}
		if j_first_nonzero(&out) < dd {
			s.fail(desc.clone(), format!("wet output before the first delay period has elapsed: frame {}", j_first_nonzero(&out)), None);
		}
	}
}
fn j_first_nonzero(v: &[Frame]) -> usize {
	v.iter().position(|f| f.left != 0.0 || f.right != 0.0).unwrap_or(v.len())
}

// ------------------------------------------------------------------ feedback effects driven through their handles
// "... each attenuated once more by the feedback gain and shaped by the feedback effects": the effects in the
// loop are the ones the user holds handles to (`DelayBuilder::add_feedback_effect`), so the shaping that counts is
// the one configured THROUGH THE HANDLE at the time the echo goes round, not the one given to the builder.
// Scene: delay with loop effects built at settings A; some idle callbacks; every loop effect is set to settings B
// through its handle (instant / default / random tween), optionally the delay's own feedback too; silence until
// every tween has ended; then a burst.  The echoes must be g_B^k FX_B^k(burst) at k * delay frames, where FX_B
// is the REAL effect built at B and run on its own (fresh instance per pass).  Bare effect and real sub-track.

enum FxHandle {
	Vol(VolumeControlHandle),
	Pan(PanningControlHandle),
	Dist(DistortionHandle),
	Filter(FilterHandle),
	Eq(EqFilterHandle),
}
fn filter_mode_of(m: u8) -> FilterMode {
	match m {
		0 => FilterMode::LowPass,
		1 => FilterMode::BandPass,
		2 => FilterMode::HighPass,
		_ => FilterMode::Notch,
	}
}
fn eq_kind_of(k: u8) -> EqFilterKind {
	match k {
		0 => EqFilterKind::Bell,
		1 => EqFilterKind::LowShelf,
		_ => EqFilterKind::HighShelf,
	}
}
fn dist_kind_of(hard: bool) -> DistortionKind {
	if hard {
		DistortionKind::HardClip
	} else {
		DistortionKind::SoftClip
	}
}
fn build_delay_with_handles(time: Duration, fb: f32, mix: f32, fx: &[Desc]) -> (Box<dyn Effect>, DelayHandle, Vec<FxHandle>) {
	let mut b = DelayBuilder::new().delay_time(time).feedback(fb).mix(mix);
	let mut hs = vec![];
	for d in fx {
		hs.push(match d {
			Vol(db) => FxHandle::Vol(b.add_feedback_effect(VolumeControlBuilder::new(*db))),
			Pan(p) => FxHandle::Pan(b.add_feedback_effect(PanningControlBuilder(Value::Fixed(Panning(*p))))),
			Dist { hard, db, mix } => FxHandle::Dist(b.add_feedback_effect(DistortionBuilder::new().kind(dist_kind_of(*hard)).drive(*db).mix(*mix))),
			Filter { mode, cutoff, res, mix } => FxHandle::Filter(b.add_feedback_effect(FilterBuilder::new().mode(filter_mode_of(*mode)).cutoff(*cutoff).resonance(*res).mix(*mix))),
			Eq { kind, freq, gain, q } => FxHandle::Eq(b.add_feedback_effect(EqFilterBuilder::new(eq_kind_of(*kind), *freq, *gain, *q))),
			_ => panic!("harness: no handle scene for {:?}", d),
		});
	}
	let (e, h) = b.build();
	(e, h, hs)
}
/// every setting of `to` written through the handle
fn apply_handle(h: &mut FxHandle, to: &Desc, tween: Tween) {
	match (h, to) {
		(FxHandle::Vol(h), Vol(db)) => h.set_volume(*db, tween),
		(FxHandle::Pan(h), Pan(p)) => h.set_panning(Value::Fixed(Panning(*p)), tween),
		(FxHandle::Dist(h), Dist { hard, db, mix }) => {
			h.set_kind(dist_kind_of(*hard));
			h.set_drive(*db, tween);
			h.set_mix(*mix, tween);
		}
		(FxHandle::Filter(h), Filter { mode, cutoff, res, mix }) => {
			h.set_mode(filter_mode_of(*mode));
			h.set_cutoff(*cutoff, tween);
			h.set_resonance(*res, tween);
			h.set_mix(*mix, tween);
		}
		(FxHandle::Eq(h), Eq { kind, freq, gain, q }) => {
			h.set_kind(eq_kind_of(*kind));
			h.set_frequency(*freq, tween);
			h.set_gain(*gain, tween);
			h.set_q(*q, tween);
		}
		_ => panic!("harness: handle / description mismatch"),
	}
}

#[derive(Clone, Debug)]
struct HScene {
	sr: u32,
	/// internal buffer size
	t: usize,
	on_track: bool,
	time: Duration,
	fb: f32,
	/// the delay's own feedback, set through the DelayHandle at the same moment
	fb_after: Option<f32>,
	before: Vec<Desc>,
	after: Vec<Desc>,
	tween_dur: Duration,
	/// device callbacks (frames); the handles are used just before callback `set_at`
	calls: Vec<usize>,
	set_at: usize,
	/// frame at which the burst starts (a callback boundary, after every tween has ended)
	burst_at: usize,
	burst: Vec<Frame>,
}
impl HScene {
	fn total(&self) -> usize {
		self.calls.iter().sum()
	}
	fn signal(&self) -> Vec<Frame> {
		let mut v = vec![Frame::ZERO; self.total()];
		v[self.burst_at..self.burst_at + self.burst.len()].copy_from_slice(&self.burst);
		v
	}
	fn text(&self) -> String {
		format!(
			"delay (delay_time {} ns = {} frames @ {} Hz, feedback {} dB, wet) with feedback effects {:?} added by add_feedback_effect; {}; internal buffer {}; callbacks {:?}; just before callback #{} every feedback effect is set through its handle to {:?}{} (tween {} ns, immediate start); input: silence, then from frame {} (callback boundary, {} frames after the tweens ended) the burst {:?}",
			self.time.as_nanos(),
			exact_frames(self.time, self.sr),
			self.sr,
			self.fb,
			self.before,
			if self.on_track { "on a sub-track of a real AudioManager (injector + tap effects around it)" } else { "bare effect: init, then per callback on_start_processing + process in slices of the internal buffer" },
			self.t,
			self.calls,
			self.set_at,
			self.after,
			match self.fb_after {
				Some(f) => format!(" and the delay's feedback to {} dB through the DelayHandle", f),
				None => String::new(),
			},
			self.tween_dur.as_nanos(),
			self.burst_at,
			self.burst_at - self.calls[..self.set_at].iter().sum::<usize>() - (self.tween_dur.as_secs_f64() * self.sr as f64).ceil() as usize,
			self.burst.iter().map(|f| (f.left, f.right)).collect::<Vec<_>>(),
		)
	}
}
fn run_hscene(cx: &Ctx, sc: &HScene) -> Outcome<Vec<Frame>> {
	catch(|| {
		let tween = Tween { duration: sc.tween_dur, ..Default::default() };
		let (mut e, mut dh, mut hs) = build_delay_with_handles(sc.time, sc.fb, 1.0, &sc.before);
		let signal = sc.signal();
		let set_all = |dh: &mut DelayHandle, hs: &mut Vec<FxHandle>| {
			for (h, to) in hs.iter_mut().zip(&sc.after) {
				apply_handle(h, to, tween);
			}
			if let Some(f) = sc.fb_after {
				dh.set_feedback(f, tween);
			}
		};
		if !sc.on_track {
			e.init(sc.sr, sc.t);
			let dt = 1.0 / sc.sr as f64;
			let mut buf = signal;
			let mut pos = 0;
			for (ci, &n) in sc.calls.iter().enumerate() {
				if ci == sc.set_at {
					set_all(&mut dh, &mut hs);
				}
				e.on_start_processing();
				for chunk in buf[pos..pos + n].chunks_mut(sc.t) {
					e.process(chunk, dt, &cx.info);
				}
				pos += n;
			}
			buf
		} else {
			let log = Arc::new(Mutex::new(vec![]));
			let calls = Arc::new(Mutex::new(vec![]));
			let mut m = crate::backend::simple_manager(sc.sr, sc.t);
			let builder = TrackBuilder::new()
				.with_built_effect(Box::new(Inject { data: Arc::new(signal), pos: 0 }))
				.with_built_effect(e)
				.with_built_effect(Box::new(Tap { log: log.clone(), calls: calls.clone() }));
			let _track = m.add_sub_track(builder).unwrap();
			for (ci, &n) in sc.calls.iter().enumerate() {
				if ci == sc.set_at {
					set_all(&mut dh, &mut hs);
				}
				m.backend_mut().callback(n, 2);
			}
			let out = log.lock().unwrap().clone();
			out
		}
	})
}
/// sum over k = 1..echoes of g^k FX^k(input) delayed by k * dd frames; FX = the real effects built from `fx`, each run on
/// its own with a fresh instance per pass
fn echo_reference(cx: &Ctx, fx: &[Desc], sr: u32, input: &[Frame], dd: usize, g: f64, echoes: usize) -> Option<Vec<(f64, f64)>> {
	let n = input.len();
	let mut cur = input.to_vec();
	let mut expect = vec![(0.0f64, 0.0f64); n];
	for _ in 1..=echoes {
		for e in fx {
			match run_effect(cx, e, sr, &cur) {
				Outcome::Ok(v) => cur = v,
				_ => return None,
			}
		}
		let mut next = vec![Frame::ZERO; n];
		for j in 0..n.saturating_sub(dd) {
			next[j + dd] = Frame::new((cur[j].left as f64 * g) as f32, (cur[j].right as f64 * g) as f32);
		}
		cur = next;
		for j in 0..n {
			expect[j].0 += cur[j].left as f64;
			expect[j].1 += cur[j].right as f64;
		}
	}
	Some(expect)
}
const H_ECHOES: usize = 4;
/// callbacks for a scene: `pre` idle callbacks, [handles used], silence for the tween + 3 internal buffers, then the tail
fn hscene_calls(rng: Option<&mut Rng>, sr: u32, t: usize, pre: usize, tween_dur: Duration, tail: usize) -> (Vec<usize>, usize, usize) {
	let sizes = [t, 64, 2 * t, t + t / 2 + 1, 7, 4 * t];
	let mut k = 0usize;
	let mut rng = rng;
	let mut next = |left: Option<usize>| -> usize {
		let c = match rng.as_deref_mut() {
			Some(r) => *r.pick(&sizes),
			None => {
				k += 1;
				64
			}
		};
		match left {
			Some(l) => c.min(l),
			None => c,
		}
	};
	let mut calls = vec![];
	for _ in 0..pre {
		calls.push(next(None));
	}
	let set_at = calls.len();
	let settle = (tween_dur.as_secs_f64() * sr as f64).ceil() as usize + 3 * t + 1;
	let mut got = 0;
	while got < settle {
		let c = next(None);
		calls.push(c);
		got += c;
	}
	let burst_at = calls.iter().sum();
	let mut left = tail;
	while left > 0 {
		let c = next(Some(left));
		calls.push(c);
		left -= c;
	}
	let _ = k;
	(calls, set_at, burst_at)
}
/// runs the scene and evaluates the clause; returns the part of the output from the burst on
fn check_hscene(s: &mut Session, cx: &Ctx, sc: &HScene, kind: &str) -> Option<Vec<Frame>> {
	let desc = sc.text();
	let dd = exact_frames(sc.time, sc.sr);
	let out = match run_hscene(cx, sc) {
		Outcome::Ok(v) => v,
		_ => {
			s.fail(desc, format!("scene panicked: {}", last_panic()), None);
			return None;
		}
	};
	if out.len() != sc.total() {
		s.fail(desc, format!("track scene did not run as planned: {} frames tapped, planned {} (harness problem)", out.len(), sc.total()), None);
		return None;
	}
	s.eval_only(kind);
	if let Some(j) = out[..sc.burst_at].iter().position(|f| f.left != 0.0 || f.right != 0.0) {
		s.fail(desc, format!("frame {j}: output ({}, {}) although only silence has been fed so far", out[j].left, out[j].right), None);
		return None;
	}
	let tail = &out[sc.burst_at..];
	let input = &sc.signal()[sc.burst_at..];
	let g = amp64(sc.fb_after.unwrap_or(sc.fb));
	// every echo that starts inside the observed tail
	let echoes = (tail.len() - 1) / dd;
	let expect = echo_reference(cx, &sc.after, sc.sr, input, dd, g, echoes)?;
	let stale = echo_reference(cx, &sc.before, sc.sr, input, dd, amp64(sc.fb), echoes);
	let peak = expect.iter().map(|p| p.0.abs().max(p.1.abs())).fold(1e-9, f64::max);
	for j in 0..tail.len() {
		let (el, er) = ((tail[j].left as f64 - expect[j].0).abs(), (tail[j].right as f64 - expect[j].1).abs());
		if !(el <= 1e-4 * peak && er <= 1e-4 * peak) {
			let hint = match &stale {
				Some(st) if (tail[j].left as f64 - st[j].0).abs() <= 1e-4 * peak && (tail[j].right as f64 - st[j].1).abs() <= 1e-4 * peak => {
					" -- the output equals what the settings given to the BUILDERS would produce: what was written through the handles never reached the effects in the loop"
				}
				_ => "",
			};
			s.fail(
				desc,
				format!(
					"frame {} after the burst (delay period {}): wet output ({}, {}), but the sum of the echoes g^k FX^k(burst) delayed by k*{dd} frames, with FX / g as configured through the handles, is ({:.8}, {:.8}) (peak {peak:.4}){hint}",
					j,
					j / dd,
					tail[j].left,
					tail[j].right,
					expect[j].0,
					expect[j].1
				),
				None,
			);
			return None;
		}
	}
	Some(tail.to_vec())
}
fn fixed_burst() -> Vec<Frame> {
	vec![
		Frame::new(1.0, -0.5),
		Frame::new(-0.75, 0.25),
		Frame::new(0.5, 0.875),
		Frame::new(0.9, -0.9),
		Frame::new(-0.3, 0.6),
		Frame::new(0.0, -1.0),
		Frame::new(0.45, 0.1),
		Frame::new(-0.95, 0.7),
	]
}
/// directed scenes, the same on every run (no PRNG): one per kind of loop effect, bare and on a real track
fn sec_delay_fx_handles_fixed(s: &mut Session, cx: &Ctx) {
	let sr = 48000u32;
	let dd = 100usize;
	let time = Duration::from_nanos((dd as u64 * 1_000_000_000 + 250_000_000) / sr as u64 + 1);
	let zero = Duration::ZERO;
	let dflt = Tween::default().duration;
	let scenes: Vec<(f32, Option<f32>, Vec<Desc>, Vec<Desc>, Duration, usize, Vec<Frame>)> = vec![
		// the seeded demo: 0 dB volume control in the loop set to -6 dB, feedback 0 dB, unit impulse
		(0.0, None, vec![Vol(0.0)], vec![Vol(-6.0)], zero, 3, vec![Frame::new(1.0, 1.0)]),
		(0.0, None, vec![Vol(0.0)], vec![Vol(-6.0)], zero, 0, vec![Frame::new(1.0, 1.0)]),
		(-3.0, None, vec![Vol(-12.0)], vec![Vol(3.0)], dflt, 2, fixed_burst()),
		(-3.0, None, vec![Filter { mode: 0, cutoff: 8000.0, res: 0.1, mix: 1.0 }], vec![Filter { mode: 0, cutoff: 500.0, res: 0.1, mix: 1.0 }], zero, 3, fixed_burst()),
		(-3.0, None, vec![Filter { mode: 0, cutoff: 2000.0, res: 0.2, mix: 1.0 }], vec![Filter { mode: 2, cutoff: 2000.0, res: 0.2, mix: 1.0 }], zero, 1, fixed_burst()),
		(-2.0, None, vec![Filter { mode: 0, cutoff: 1000.0, res: 0.0, mix: 1.0 }], vec![Filter { mode: 0, cutoff: 1000.0, res: 0.8, mix: 0.5 }], dflt, 2, fixed_burst()),
		(-3.0, None, vec![Eq { kind: 0, freq: 1000.0, gain: 6.0, q: 1.0 }], vec![Eq { kind: 0, freq: 1000.0, gain: -6.0, q: 1.0 }], zero, 3, fixed_burst()),
		(-3.0, None, vec![Eq { kind: 0, freq: 1000.0, gain: 9.0, q: 1.0 }], vec![Eq { kind: 1, freq: 3000.0, gain: 9.0, q: 0.7 }], dflt, 2, fixed_burst()),
		(-1.0, None, vec![Dist { hard: true, db: 0.0, mix: 1.0 }], vec![Dist { hard: false, db: 12.0, mix: 1.0 }], zero, 3, fixed_burst()),
		(-4.0, None, vec![Pan(0.0)], vec![Pan(0.8)], zero, 3, fixed_burst()),
		(-3.0, Some(-9.0), vec![Vol(-3.0), Filter { mode: 0, cutoff: 6000.0, res: 0.1, mix: 1.0 }], vec![Vol(1.0), Filter { mode: 1, cutoff: 900.0, res: 0.3, mix: 1.0 }], dflt, 2, fixed_burst()),
	];
	for (fb, fb_after, before, after, tween_dur, pre, burst) in scenes {
		for on_track in [false, true] {
			let t = if on_track { 128 } else { 256 };
			let (calls, set_at, burst_at) = hscene_calls(None, sr, t, pre, tween_dur, dd * (H_ECHOES + 1));
			let sc = HScene { sr, t, on_track, time, fb, fb_after, before: before.clone(), after: after.clone(), tween_dur, calls, set_at, burst_at, burst: burst.clone() };
			check_hscene(s, cx, &sc, "mon_delay_feedback_effects_follow_handles_fixed");
		}
	}
	// small scenes whose tail is also a model case: from the burst on, the delay must be bit for bit the C13 model of a
	// delay BUILT with the settings written through the handles (C14.Run.CTrace)
	for (i, (before, after)) in [
		(vec![Vol(0.0)], vec![Vol(-6.0)]),
		(vec![Filter { mode: 0, cutoff: 9000.0, res: 0.2, mix: 1.0 }], vec![Filter { mode: 0, cutoff: 700.0, res: 0.2, mix: 1.0 }]),
		(vec![Filter { mode: 0, cutoff: 1500.0, res: 0.2, mix: 1.0 }, Vol(-2.0)], vec![Filter { mode: 2, cutoff: 1500.0, res: 0.2, mix: 1.0 }, Vol(-5.0)]),
	]
	.into_iter()
	.enumerate()
	{
		let dd = 2 + i;
		let time = Duration::from_nanos((dd as u64 * 1_000_000_000 + 250_000_000) / sr as u64 + 1);
		let (calls, set_at, burst_at) = hscene_calls(None, sr, T, 2, zero, 16);
		let sc = HScene { sr, t: T, on_track: false, time, fb: -3.0, fb_after: None, before, after: after.clone(), tween_dur: zero, calls, set_at, burst_at, burst: fixed_burst() };
		if let Some(tail) = check_hscene(s, cx, &sc, "mon_delay_feedback_effects_follow_handles_fixed") {
			emit_trace_observed(s, "trace_delay_fx_after_handles", &Delay { time, fb: -3.0, mix: 1.0, fx: after }, sr, &sc.signal()[sc.burst_at..], &tail);
		}
	}
}
/// a C13-model trace case whose observed side was produced elsewhere (one process call of at most T frames)
fn emit_trace_observed(s: &mut Session, kind: &str, d: &Desc, sr: u32, input: &[Frame], out: &[Frame]) {
	let mut obs = vec![0];
	for f in out {
		obs.push(obs32(f.left));
		obs.push(obs32(f.right));
	}
	let mut tab = Tab::new();
	d.oracle(sr, &mut tab);
	let tabs = format!("[{}]", tab.iter().map(|(t, a, b)| format!("({}, {}, {})", t, z(*a), z(*b))).collect::<Vec<_>>().join("; "));
	let term = format!("CTrace (Case {} {} {} {} [] {})", sr, T, tabs, d.term(), frames_term(input));
	let k = key_of(&term);
	s.case(kind, term, &obs, k);
}
fn gen_loop_fx(r: &mut Rng, sr: u32, which: u64) -> (Desc, Desc) {
	let fcut = |r: &mut Rng| (200.0 * (40.0f64).powf(r.unit_f64())).min(sr as f64 * 0.4);
	match which {
		0 => {
			let a = (-12.0 + r.unit_f64() * 14.0) as f32;
			let step = (3.0 + r.unit_f64() * 9.0) as f32;
			(Vol(a), Vol(if a > -5.0 { a - step } else { a + step }))
		}
		1 => {
			let a = unit32(r);
			(Pan(a), Pan(if a > 0.0 { a - 0.7 } else { a + 0.7 }))
		}
		2 => {
			let hard = r.chance(1, 2);
			let db = (r.unit_f64() * 12.0) as f32;
			if r.chance(1, 2) {
				(Dist { hard, db, mix: 1.0 }, Dist { hard: !hard, db: db + 6.0, mix: 1.0 })
			} else {
				(Dist { hard, db, mix: 1.0 }, Dist { hard, db: db + 12.0, mix: r.unit_f64() as f32 })
			}
		}
		3 => {
			let mode = r.below(4) as u8;
			let (c0, res) = (fcut(r), r.unit_f64() * 0.8);
			match r.below(3) {
				0 => (Filter { mode, cutoff: c0, res, mix: 1.0 }, Filter { mode: (mode + 1 + r.below(3) as u8) % 4, cutoff: c0, res, mix: 1.0 }),
				1 => (Filter { mode, cutoff: c0, res, mix: 1.0 }, Filter { mode, cutoff: if c0 > 1200.0 { c0 / 4.0 } else { (c0 * 4.0).min(sr as f64 * 0.45) }, res, mix: 1.0 }),
				_ => (Filter { mode, cutoff: c0, res, mix: 1.0 }, Filter { mode: r.below(4) as u8, cutoff: fcut(r), res: r.unit_f64() * 0.8, mix: (0.3 + 0.7 * r.unit_f64()) as f32 }),
			}
		}
		_ => {
			let kind = r.below(3) as u8;
			let (f0, gain, q) = (fcut(r), (-15.0 + r.unit_f64() * 30.0) as f32, 0.4 + r.unit_f64() * 3.0);
			match r.below(3) {
				0 => (Eq { kind, freq: f0, gain, q }, Eq { kind, freq: f0, gain: if gain > 0.0 { gain - 12.0 } else { gain + 12.0 }, q }),
				1 => (Eq { kind, freq: f0, gain: gain.abs() + 4.0, q }, Eq { kind: (kind + 1) % 3, freq: f0, gain: gain.abs() + 4.0, q }),
				_ => (Eq { kind, freq: f0, gain, q }, Eq { kind: r.below(3) as u8, freq: fcut(r), gain: (-15.0 + r.unit_f64() * 30.0) as f32, q: 0.4 + r.unit_f64() * 3.0 }),
			}
		}
	}
}
fn sec_delay_fx_handles(s: &mut Session, cx: &Ctx, rng: &mut Rng, n: usize) {
	for i in 0..n {
		let sr = gen_sr(rng);
		let dd = rng.range(40, 600) as usize;
		let time = Duration::from_nanos((dd as u64 * 1_000_000_000 + 250_000_000) / sr as u64 + 1);
		if exact_frames(time, sr) != dd {
			continue;
		}
		let fb = (-12.0 + rng.unit_f64() * 11.0) as f32;
		let fb_after = if rng.chance(1, 4) { Some((-12.0 + rng.unit_f64() * 11.0) as f32) } else { None };
		let n_fx = if rng.chance(1, 3) { 2 } else { 1 };
		let (mut before, mut after) = (vec![], vec![]);
		for j in 0..n_fx {
			let which = if j == 0 { (i % 5) as u64 } else { rng.below(5) };
			let (a, b) = gen_loop_fx(rng, sr, which);
			before.push(a);
			after.push(b);
		}
		// the closed form g^k FX^k(burst) adds the echoes up: valid when the loop is linear (filters, EQ, volume,
		// panning: their tails may overlap) or when the echoes of the short burst do not overlap (a memoryless
		// distortion), NOT for a distortion next to a filter / EQ, whose tail carries one echo into the next
		// period where the clipper sees their sum
		let nonlinear = before.iter().chain(after.iter()).any(|d| matches!(d, Dist { .. }));
		let with_memory = before.iter().chain(after.iter()).any(|d| matches!(d, Filter { .. } | Eq { .. }));
		if nonlinear && with_memory {
			continue;
		}
		let tween_dur = match rng.below(3) {
			0 => Duration::ZERO,
			1 => Tween::default().duration,
			_ => Duration::from_micros(rng.range(1, 5000) as u64),
		};
		let t = *rng.pick(&[64usize, 128, 256]);
		let on_track = i % 3 == 1;
		let pre = rng.below(4) as usize;
		let (calls, set_at, burst_at) = hscene_calls(Some(rng), sr, t, pre, tween_dur, dd * (H_ECHOES + 1));
		let burst: Vec<Frame> = if rng.chance(1, 4) { vec![Frame::new(1.0, -0.5)] } else { noise(rng, 8, 1.0) };
		let sc = HScene { sr, t, on_track, time, fb, fb_after, before, after, tween_dur, calls, set_at, burst_at, burst };
		check_hscene(s, cx, &sc, "mon_delay_feedback_effects_follow_handles");
	}
}

// ------------------------------------------------------------------ sample traces against the C13 effect models

fn emit_trace(s: &mut Session, cx: &Ctx, kind: &str, d: &Desc, sr: u32, input: &[Frame]) {
	let out = run_effect(cx, d, sr, input);
	let obs = match &out {
		Outcome::Ok(v) => {
			let mut o = vec![0];
			for f in v {
				o.push(obs32(f.left));
				o.push(obs32(f.right));
			}
			o
		}
		Outcome::Panic(c) => vec![1, *c],
		Outcome::Hang => vec![2],
	};
	let mut tab = Tab::new();
	d.oracle(sr, &mut tab);
	comp_oracle(d, &[(sr, input)], &mut tab);
	let tabs = format!("[{}]", tab.iter().map(|(t, a, b)| format!("({}, {}, {})", t, z(*a), z(*b))).collect::<Vec<_>>().join("; "));
	let term = format!("CTrace (Case {} {} {} {} [] {})", sr, T, tabs, d.term(), frames_term(input));
	let k = key_of(&term);
	s.case(kind, term, &obs, k);
}

fn sec_traces(s: &mut Session, cx: &Ctx, rng: &mut Rng, per_kind: usize) {
	for i in 0..per_kind {
		let sr = gen_sr(rng);
		let n = 16;
		let mut input = noise(rng, n, 0.9);
		if i % 2 == 0 {
			input = vec![Frame::ZERO; n];
			input[0] = Frame::new(1.0, -0.5);
		}
		let fc = 20.0 * (1000.0f64).powf(rng.unit_f64());
		let fc = fc.min(sr as f64 * 0.45);
		emit_trace(s, cx, "trace_filter", &Filter { mode: (i % 4) as u8, cutoff: fc, res: rng.unit_f64(), mix: 1.0 }, sr, &input);
		emit_trace(s, cx, "trace_eq", &Eq { kind: (i % 3) as u8, freq: fc, gain: (-18.0 + rng.unit_f64() * 36.0) as f32, q: 0.3 + rng.unit_f64() * 4.0 }, sr, &input);
		let lvl = noise(rng, n, 1.0);
		emit_trace(
			s,
			cx,
			"trace_compressor",
			&Comp { thr: -(rng.unit_f64() * 30.0) - 3.0, ratio: *rng.pick(&[2.0, 4.0, 10.0, 1.5]), att: Duration::from_micros(rng.range(100, 20_000) as u64), rel: Duration::from_micros(rng.range(1000, 300_000) as u64), mk: 0.0, mix: 1.0 },
			sr,
			&lvl,
		);
		let dd = rng.range(1, 5) as u64;
		let time = Duration::from_nanos((dd * 1_000_000_000 + 250_000_000) / sr as u64 + 1);
		emit_trace(s, cx, "trace_delay", &Delay { time, fb: -6.0, mix: 0.5, fx: vec![] }, sr, &input);
		emit_trace(
			s,
			cx,
			"trace_delay_fx",
			&Delay { time, fb: -3.0, mix: 1.0, fx: vec![Filter { mode: 0, cutoff: fc, res: 0.2, mix: 1.0 }, Vol(-2.0)] },
			sr,
			&input,
		);
		let mut imp = vec![Frame::ZERO; 40];
		imp[0] = Frame::new(1.0, 0.5);
		emit_trace(s, cx, "trace_reverb", &Reverb { fb: rng.unit_f64() * 0.95, damp: rng.unit_f64(), width: rng.unit_f64(), mix: 1.0 }, *rng.pick(&[441u32, 500, 700]), &imp);
	}
}

// ------------------------------------------------------------------ frequency responses (filter, EQ)

#[derive(Clone, Copy, Debug)]
struct Cx {
	re: f64,
	im: f64,
}
impl Cx {
	fn new(re: f64, im: f64) -> Cx {
		Cx { re, im }
	}
	fn add(self, o: Cx) -> Cx {
		Cx::new(self.re + o.re, self.im + o.im)
	}
	fn sub(self, o: Cx) -> Cx {
		Cx::new(self.re - o.re, self.im - o.im)
	}
	fn mul(self, o: Cx) -> Cx {
		Cx::new(self.re * o.re - self.im * o.im, self.re * o.im + self.im * o.re)
	}
	fn scale(self, k: f64) -> Cx {
		Cx::new(self.re * k, self.im * k)
	}
	fn div(self, o: Cx) -> Cx {
		let d = o.re * o.re + o.im * o.im;
		Cx::new((self.re * o.re + self.im * o.im) / d, (self.im * o.re - self.re * o.im) / d)
	}
	fn abs(self) -> f64 {
		self.re.hypot(self.im)
	}
}
const ONE: Cx = Cx { re: 1.0, im: 0.0 };

/// analog prototype of the state-variable filter at s = i * om, damping k
fn proto_filter(mode: u8, k: f64, om: f64) -> Cx {
	let s = Cx::new(0.0, om);
	let den = s.mul(s).add(s.scale(k)).add(ONE);
	match mode {
		0 => ONE.div(den),
		1 => s.div(den),
		2 => s.mul(s).div(den),
		_ => s.mul(s).add(ONE).div(den),
	}
}
/// Audio-EQ-Cookbook prototypes (peaking / low shelf / high shelf) at s = i * om; ra = sqrt(A), A = 10^(dB/40)
fn proto_eq(kind: u8, ra: f64, q: f64, om: f64) -> Cx {
	let s = Cx::new(0.0, om);
	let a = ra * ra;
	let s2 = s.mul(s);
	match kind {
		0 => s2.add(s.scale(a / q)).add(ONE).div(s2.add(s.scale(1.0 / (a * q))).add(ONE)),
		1 => s2.add(s.scale(ra / q)).add(ONE.scale(a)).scale(a).div(s2.scale(a).add(s.scale(ra / q)).add(ONE)),
		_ => s2.scale(a).add(s.scale(ra / q)).add(ONE).scale(a).div(s2.add(s.scale(ra / q)).add(ONE.scale(a))),
	}
}
/// frequency warping of the bilinear transform with pre-warping: probe f, requested frequency fc
fn warp(fc: f64, sr: f64, f: f64) -> f64 {
	let pi = std::f64::consts::PI;
	(pi * f / sr).tan() / (pi * fc / sr).tan()
}
fn spec_filter(mode: u8, fc: f64, k: f64, sr: f64, f: f64) -> Cx {
	proto_filter(mode, k, warp(fc, sr, f))
}
fn spec_eq(kind: u8, fc: f64, gain_db: f64, q: f64, sr: f64, f: f64) -> Cx {
	proto_eq(kind, 10f64.powf(gain_db / 40.0).sqrt(), q, warp(fc, sr, f))
}
/// the reference formulas above against the rational evaluation of the Coq prototypes (coqc decides)
fn emit_spec_filter(s: &mut Session, mode: u8, k: f64, om: f64) {
	let h = proto_filter(mode, k, om);
	if !(h.re.is_finite() && h.im.is_finite() && om.is_finite()) {
		return;
	}
	let term = format!("CSpecFilter {} {} {} {} {}", mode, f64_bits_z(k), f64_bits_z(om), f64_bits_z(h.re), f64_bits_z(h.im));
	let key = key_of(&term);
	s.case("reference_formula_filter_Q", term, &[1], key);
}
fn emit_spec_eq(s: &mut Session, kind: u8, ra: f64, q: f64, om: f64) {
	let h = proto_eq(kind, ra, q, om);
	if !(h.re.is_finite() && h.im.is_finite() && om.is_finite()) {
		return;
	}
	let term = format!("CSpecEq {} {} {} {} {} {}", kind, f64_bits_z(ra), f64_bits_z(q), f64_bits_z(om), f64_bits_z(h.re), f64_bits_z(h.im));
	let key = key_of(&term);
	s.case("reference_formula_eq_Q", term, &[1], key);
}

/// measured response from the impulse response: H(e^{i theta}) = sum_n h[n] e^{-i n theta};
/// returns the responses at the probe frequencies and the size of the tail that was cut off
fn measure_ir(cx: &Ctx, d: &Desc, sr: u32, n: usize, probes: &[f64]) -> Option<(Vec<Cx>, f64)> {
	let mut input = vec![Frame::ZERO; n];
	input[0] = Frame::new(1.0, 1.0);
	let out = match run_effect(cx, d, sr, &input) {
		Outcome::Ok(v) => v,
		_ => return None,
	};
	let mut res = vec![];
	for &f in probes {
		let th = 2.0 * std::f64::consts::PI * f / sr as f64;
		// Goertzel-free direct sum with a recurrence for e^{-i n theta} re-seeded regularly
		let (mut re, mut im) = (0.0f64, 0.0f64);
		for (i, fr) in out.iter().enumerate() {
			let h = fr.left as f64;
			if h != 0.0 {
				let ph = th * i as f64;
				re += h * ph.cos();
				im -= h * ph.sin();
			}
		}
		res.push(Cx::new(re, im));
	}
	let tail = out[n - n / 16..].iter().map(|f| (f.left as f64).abs()).fold(0.0, f64::max);
	Some((res, tail))
}

/// measured steady-state response to a sine: left = cos, right = sin of the same phase (a complex
/// exponential); the effect treats the channels alike, so out_l + i out_r = H e^{i n theta} once the
/// transient is gone; averaged over the measuring window
fn measure_sine(cx: &Ctx, d: &Desc, sr: u32, f: f64, warm: usize, win: usize) -> Option<Cx> {
	let th = 2.0 * std::f64::consts::PI * f / sr as f64;
	let amp = 0.5f64;
	let input: Vec<Frame> = (0..warm + win).map(|i| Frame::new((amp * (th * i as f64).cos()) as f32, (amp * (th * i as f64).sin()) as f32)).collect();
	let out = match run_effect(cx, d, sr, &input) {
		Outcome::Ok(v) => v,
		_ => return None,
	};
	let mut acc = Cx::new(0.0, 0.0);
	for i in warm..warm + win {
		let y = Cx::new(out[i].left as f64, out[i].right as f64);
		// the rounded input actually fed in
		let x = Cx::new(input[i].left as f64, input[i].right as f64);
		acc = acc.add(y.div(x));
	}
	Some(acc.scale(1.0 / win as f64))
}

fn probe_freqs(r: &mut Rng, sr: u32, fc: f64, n: usize) -> Vec<f64> {
	let ny = sr as f64 / 2.0;
	let mut v = vec![10.0, fc, fc * 0.5, (fc * 2.0).min(ny * 0.98), ny * 0.5, ny * 0.9, ny * 0.999];
	for _ in 0..n {
		// log-uniform between 10 Hz and Nyquist
		v.push(10.0 * (ny / 10.0).powf(r.unit_f64()));
	}
	v.retain(|f| *f >= 10.0 && *f < ny);
	v
}

/// how long the impulse response must be recorded: the slowest pole pair of the prototype decays like
/// exp(-min(k/2, 1/k...) * w0 * t); generous factor, capped
fn ir_len(sr: u32, fc: f64, k: f64) -> usize {
	let w0 = 2.0 * std::f64::consts::PI * fc;
	// poles of s^2 + k s + 1: real part -k/2 (complex pair) or the slow real pole (k - sqrt(k^2-4))/2
	let sigma = if k < 2.0 { k / 2.0 } else { (k - (k * k - 4.0).sqrt()) / 2.0 };
	let tau = 1.0 / (sigma.max(1e-3) * w0);
	((tau * 24.0 * sr as f64) as usize + 4096).min(3_000_000)
}

/// stated tolerance of the response comparison: 1e-3 relative + 2e-4 absolute while the requested frequency
/// is at least fs/1000; below that the binary32 state and coefficients of the trapezoidal integrators lose
/// precision like fs/fc and the tolerance grows in proportion (e.g. 3.5e-3 at fc = fs/3500)
fn resp_tol(fc: f64, sr: u32) -> (f64, f64) {
	let k = (1e-3 * sr as f64 / fc).max(1.0);
	(1e-3 * k, 2e-4 * k)
}

struct RespStats {
	worst_rel: f64,
	worst_at: String,
	count: u64,
}

fn check_response(s: &mut Session, st: &mut RespStats, what: &str, desc: &str, f: f64, meas: Cx, spec: Cx, tol_rel: f64, tol_abs: f64) {
	let err = meas.sub(spec).abs();
	let scale = spec.abs();
	st.count += 1;
	let rel = err / (scale + tol_abs / tol_rel);
	if rel > st.worst_rel {
		st.worst_rel = rel;
		st.worst_at = format!("{desc} at {f:.3} Hz ({what})");
	}
	if !(err <= tol_rel * scale + tol_abs) {
		s.fail(
			desc.to_string(),
			format!("{what}: measured response at {f:.4} Hz is {:.6}{:+.6}i (|H| = {:.6}), the cited design gives {:.6}{:+.6}i (|H| = {:.6}); |difference| = {:.3e} > {:.1e} |H| + {:.1e}", meas.re, meas.im, meas.abs(), spec.re, spec.im, scale, err, tol_rel, tol_abs),
			None,
		);
	}
}

fn sec_filter_response(s: &mut Session, cx: &Ctx, rng: &mut Rng, n_cfg: usize, n_sine: usize) {
	let mut st = RespStats { worst_rel: 0.0, worst_at: String::new(), count: 0 };
	for i in 0..n_cfg {
		let sr = if i < RATES.len() { RATES[i] } else { gen_sr(rng) };
		let ny = sr as f64 / 2.0;
		// requested cutoff: 30 Hz .. 0.45 fs, log-uniform (documented range; the code clamps fc/fs to [1e-4, 0.5])
		let fc = (30.0 * (ny * 0.9 / 30.0).powf(rng.unit_f64())).max(sr as f64 * 2e-4);
		let res = match i % 4 {
			0 => 0.0,
			1 => rng.unit_f64() * 0.5,
			2 => 0.5 + rng.unit_f64() * 0.45,
			_ => rng.unit_f64(),
		};
		let k = 2.0 - 1.9 * res;
		let mode = (i % 4) as u8;
		let d = Filter { mode, cutoff: fc, res, mix: 1.0 };
		let desc = format!("{:?} @ {} Hz", d, sr);
		let probes = probe_freqs(rng, sr, fc, 6);
		let n = ir_len(sr, fc, k);
		s.eval_only("mon_filter_response_ir");
		match measure_ir(cx, &d, sr, n, &probes) {
			Some((hs, tail)) => {
				if !(tail <= 1e-6) {
					s.notes.push(format!("{desc}: impulse response not decayed after {n} frames (tail {tail:e}); response not compared"));
					continue;
				}
				for (j, (f, h)) in probes.iter().zip(hs.iter()).enumerate() {
					let (tr, ta) = resp_tol(fc, sr);
					if i < 24 && j % 4 == 1 {
						emit_spec_filter(s, mode, k, warp(fc, sr as f64, *f));
					}
					check_response(s, &mut st, "impulse-response DFT", &desc, *f, *h, spec_filter(mode, fc, k, sr as f64, *f), tr, ta);
				}
			}
			None => s.fail(desc.clone(), format!("process panicked: {}", last_panic()), None),
		}
		// landmarks, stated directly: unity pass band, corner gain 1/k at the requested frequency
		if let Some((hs, _)) = measure_ir(cx, &d, sr, n, &[fc, 1e-3]) {
			let (hc, h0) = (hs[0].abs(), hs[1].abs());
			let want_c = if mode == 3 { 0.0 } else { 1.0 / k };
			let (tr, ta) = resp_tol(fc, sr);
			if !close(hc, want_c, 2.0 * tr, 1.5 * ta) {
				s.fail(desc.clone(), format!("gain at the requested cutoff {fc:.3} Hz is {hc:.6}, the design has {want_c:.6} (= 1/k, k = {k:.4})"), None);
			}
			let want_0 = if mode == 0 || mode == 3 { 1.0 } else { 0.0 };
			if !close(h0, want_0, tr, 1.5 * ta) {
				s.fail(desc.clone(), format!("gain at DC is {h0:.6}, the design has {want_0}"), None);
			}
		}
	}
	// steady-state sine measurements (direct), a subset
	for i in 0..n_sine {
		let sr = *rng.pick(&RATES);
		let ny = sr as f64 / 2.0;
		let fc = 200.0 * (ny * 0.8 / 200.0).powf(rng.unit_f64());
		let res = rng.unit_f64() * 0.9;
		let k = 2.0 - 1.9 * res;
		let mode = (i % 4) as u8;
		let d = Filter { mode, cutoff: fc, res, mix: 1.0 };
		let desc = format!("{:?} @ {} Hz", d, sr);
		let f = match i % 3 {
			0 => fc,
			1 => 10.0 * (ny / 10.0).powf(rng.unit_f64()),
			_ => fc * (0.25 + rng.unit_f64() * 3.0),
		}
		.min(ny * 0.98)
		.max(10.0);
		let warm = ir_len(sr, fc, k).min(400_000);
		s.eval_only("mon_filter_response_sine");
		if let Some(h) = measure_sine(cx, &d, sr, f, warm, 4096) {
			let (tr, ta) = resp_tol(fc, sr);
			check_response(s, &mut st, "steady-state sine", &desc, f, h, spec_filter(mode, fc, k, sr as f64, f), tr, ta);
		}
	}
	// wet/dry: H sqrt(m) + sqrt(1 - m)
	for i in 0..n_sine / 2 {
		let sr = *rng.pick(&RATES);
		let fc = 1000.0;
		let mix = rng.unit_f64() as f32;
		let mode = (i % 4) as u8;
		let d = Filter { mode, cutoff: fc, res: 0.3, mix };
		let k = 2.0 - 1.9 * 0.3;
		let probes = [100.0, 1000.0, 3000.0];
		s.eval_only("mon_filter_response_mix");
		if let Some((hs, _)) = measure_ir(cx, &d, sr, ir_len(sr, fc, k), &probes) {
			let (ws, ds) = mixw(mix);
			for (f, h) in probes.iter().zip(hs.iter()) {
				let spec = spec_filter(mode, fc, k, sr as f64, *f).scale(ws).add(ONE.scale(ds));
				check_response(s, &mut st, "mix", &format!("{:?} @ {} Hz", d, sr), *f, *h, spec, 1e-3, 2e-4);
			}
		}
	}
	s.notes.push(format!("filter: {} measured responses compared with the prototype + bilinear transform; worst |H_meas - H_spec| / (|H_spec| + 0.2) = {:.3e} at {}", st.count, st.worst_rel, st.worst_at));
}

/// known finding F42 (class filter_cutoff_clamped_below_1e-4_fs; Coq: filter_low_cutoff_clamped_refuted):
/// filter.rs / eq_filter.rs clamp frequency/sample_rate to [0.0001, 0.5], so a requested frequency below
/// fs/10000 is realised at fs/10000.  Fixed witnesses, replayed every run; the failure is attributed to the
/// class only when the requested fc/fs < 1e-4 AND the measured corner / centre is not where it was requested.
const CLASS_CLAMP: &str = "filter_cutoff_clamped_below_1e-4_fs";
fn sec_low_cutoff_witness(s: &mut Session, cx: &Ctx) {
	// --- filter: 10 Hz low-pass at 192 kHz
	{
		let (sr, fc, res) = (192000u32, 10.0f64, 0.0f64);
		let k = 2.0 - 1.9 * res;
		let d = Filter { mode: 0, cutoff: fc, res, mix: 1.0 };
		s.eval_only("witness_low_cutoff_clamped");
		let clamped = sr as f64 * 1e-4;
		if let Some((hs, tail)) = measure_ir(cx, &d, sr, ir_len(sr, fc, k), &[fc, clamped]) {
			let (at_req, at_clamp) = (hs[0].abs(), hs[1].abs());
			let design = 1.0 / k;
			if tail <= 1e-6 && fc / (sr as f64) < 1e-4 && !close(at_req, design, 1e-2, 0.0) {
				s.fail(
					format!("{:?} @ {} Hz", d, sr),
					format!("requested cutoff {fc} Hz (below fs/10000 = {clamped} Hz): gain at {fc} Hz is {at_req:.4}, the design has 1/k = {design} at the cutoff; that gain is found at {clamped} Hz instead (measured {at_clamp:.4}): cutoff/sample_rate is clamped to [0.0001, 0.5]"),
					Some(CLASS_CLAMP),
				);
			} else {
				s.notes.push(format!("F42 witness no longer reproduces for the filter: |H({fc} Hz)| = {at_req:.4} (design {design}), |H({clamped} Hz)| = {at_clamp:.4}, tail {tail:e}"));
			}
		}
	}
	// --- EQ: +12 dB bell at 12 Hz, 192 kHz
	{
		let (sr, fc, gain, q) = (192000u32, 12.0f64, 12.0f32, 2.0f64);
		let d = Eq { kind: 0, freq: fc, gain, q };
		s.eval_only("witness_low_cutoff_clamped");
		let clamped = sr as f64 * 1e-4;
		let a = 10f64.powf(gain as f64 / 40.0);
		if let Some((hs, tail)) = measure_ir(cx, &d, sr, ir_len(sr, fc, 1.0 / (q * a)), &[fc, clamped]) {
			let (at_req, at_clamp) = (hs[0].abs(), hs[1].abs());
			let want = 10f64.powf(gain as f64 / 20.0);
			if tail <= 1e-6 && fc / (sr as f64) < 1e-4 && !close(at_req, want, 1e-2, 0.0) {
				s.fail(
					format!("{:?} @ {} Hz", d, sr),
					format!("requested centre {fc} Hz (below fs/10000 = {clamped} Hz): gain at {fc} Hz is {at_req:.4}, requested {gain} dB = {want:.4}; that gain is found at {clamped} Hz instead (measured {at_clamp:.4}): frequency/sample_rate is clamped to [0.0001, 0.5]"),
					Some(CLASS_CLAMP),
				);
			} else {
				s.notes.push(format!("F42 witness no longer reproduces for the EQ: |H({fc} Hz)| = {at_req:.4} (requested {want:.4}), |H({clamped} Hz)| = {at_clamp:.4}, tail {tail:e}"));
			}
		}
	}
}

fn sec_eq_response(s: &mut Session, cx: &Ctx, rng: &mut Rng, n_cfg: usize) {
	let mut st = RespStats { worst_rel: 0.0, worst_at: String::new(), count: 0 };
	for i in 0..n_cfg {
		let sr = if i < RATES.len() { RATES[i] } else { gen_sr(rng) };
		let ny = sr as f64 / 2.0;
		let fc = (40.0 * (ny * 0.8 / 40.0).powf(rng.unit_f64())).max(sr as f64 * 2e-4);
		let gain = match i % 5 {
			0 => 6.0,
			1 => -12.0,
			_ => (-24.0 + rng.unit_f64() * 48.0) as f32,
		};
		let q = match i % 3 {
			0 => 0.7071,
			_ => 0.3 + rng.unit_f64() * 6.0,
		};
		let kind = (i % 3) as u8;
		let d = Eq { kind, freq: fc, gain, q };
		let desc = format!("{:?} @ {} Hz", d, sr);
		let a = 10f64.powf(gain as f64 / 40.0);
		// slowest pole: damping 1/(Q A) for the bell, 1/Q at a shifted corner for the shelves
		let k_eff = if kind == 0 { 1.0 / (q * a) } else { 1.0 / q };
		let fc_eff = match kind {
			0 => fc,
			1 => fc / a.sqrt().max(1.0),
			_ => fc * a.sqrt().min(1.0),
		};
		let n = ir_len(sr, fc_eff.max(5.0), k_eff.min(2.0));
		let probes = probe_freqs(rng, sr, fc, 6);
		s.eval_only("mon_eq_response_ir");
		match measure_ir(cx, &d, sr, n, &probes) {
			Some((hs, tail)) => {
				if !(tail <= 1e-6) {
					s.notes.push(format!("{desc}: impulse response not decayed after {n} frames (tail {tail:e}); response not compared"));
					continue;
				}
				for (j, (f, h)) in probes.iter().zip(hs.iter()).enumerate() {
					let (tr, ta) = resp_tol(fc, sr);
					if i < 24 && j % 4 == 1 {
						emit_spec_eq(s, kind, 10f64.powf(gain as f64 / 40.0).sqrt(), q, warp(fc, sr as f64, *f));
					}
					check_response(s, &mut st, "impulse-response DFT", &desc, *f, *h, spec_eq(kind, fc, gain as f64, q, sr as f64, *f), tr, ta);
				}
			}
			None => s.fail(desc.clone(), format!("process panicked: {}", last_panic()), None),
		}
		// the requested gain, stated directly: bell centre / shelf plateau = 10^(dB/20), unity at the far side
		let want = 10f64.powf(gain as f64 / 20.0);
		let far_lo = 1e-3;
		let far_hi = ny * 0.99999;
		if let Some((hs, _)) = measure_ir(cx, &d, sr, n, &[fc, far_lo, far_hi]) {
			let (hc, hl, hh) = (hs[0].abs(), hs[1].abs(), hs[2].abs());
			let (wl, wh) = match kind {
				0 => (1.0, 1.0),
				1 => (want, 1.0),
				_ => (1.0, want),
			};
			let (tr, ta) = resp_tol(fc, sr);
			if kind == 0 && !close(hc, want, 2.0 * tr, ta) {
				s.fail(desc.clone(), format!("bell gain at the requested centre {fc:.3} Hz is {hc:.6}, requested {gain} dB = {want:.6}"), None);
			}
			if kind != 0 && !close(hc, want.sqrt(), 2.0 * tr, ta) {
				s.fail(desc.clone(), format!("shelf gain at the requested corner {fc:.3} Hz is {hc:.6}, the design has half the dB gain there = {:.6}", want.sqrt()), None);
			}
			if !close(hl, wl, 2.0 * tr, ta) {
				s.fail(desc.clone(), format!("gain at DC is {hl:.6}, the design has {wl:.6}"), None);
			}
			if !close(hh, wh, 2.0 * tr, ta) {
				s.fail(desc.clone(), format!("gain next to Nyquist is {hh:.6}, the design has {wh:.6}"), None);
			}
		}
	}
	s.notes.push(format!("EQ: {} measured responses compared with the cookbook prototypes + bilinear transform; worst |H_meas - H_spec| / (|H_spec| + 0.2) = {:.3e} at {}", st.count, st.worst_rel, st.worst_at));
}

// ------------------------------------------------------------------ reverb: independent Freeverb reference

/// Freeverb as its reference describes it (Jezar at Dreampoint; J. O. Smith, PASP "Freeverb"), in f64,
/// with delay lines as queues (push newest, pop oldest) rather than indexed arrays.
struct RefComb {
	line: std::collections::VecDeque<f64>,
	store: f64,
}
impl RefComb {
	fn new(n: usize) -> Self {
		RefComb { line: std::iter::repeat(0.0).take(n).collect(), store: 0.0 }
	}
	fn process(&mut self, x: f64, feedback: f64, damp: f64) -> f64 {
		let out = self.line.pop_front().unwrap();
		self.store = out * (1.0 - damp) + self.store * damp;
		self.line.push_back(x + self.store * feedback);
		out
	}
}
struct RefAllpass {
	line: std::collections::VecDeque<f64>,
}
impl RefAllpass {
	fn new(n: usize) -> Self {
		RefAllpass { line: std::iter::repeat(0.0).take(n).collect() }
	}
	fn process(&mut self, x: f64) -> f64 {
		let bo = self.line.pop_front().unwrap();
		self.line.push_back(x + bo * 0.5);
		bo - x
	}
}
const FV_COMBS: [u64; 8] = [1116, 1188, 1277, 1356, 1422, 1491, 1557, 1617];
const FV_ALLPASSES: [u64; 4] = [556, 441, 341, 225];
const FV_SPREAD: u64 = 23;
/// the line length kira derives from a reference tuning: the binary64 product `tuning * (sr / 44100)` truncated.
/// At every standard device rate this is floor(tuning * sr / 44100) (Coq: C14 ProofsFreeverb / C16
/// `reverb_line_exact_standard_rates`); at a few unusual rates (e.g. 48600 Hz: 441 * 1.1020408163265305 =
/// 485.99999999999994) the product falls one frame short of the exact quotient (C16
/// `reverb_line_f64_one_frame_short`, recorded in DESIGN 10.2 as observed, within the one-frame bound).  The
/// reference network is the cited Freeverb topology with THESE lengths; the exact quotient is counted beside it.
fn fv_len(tuning: u64, sr: u32) -> usize {
	(((tuning as f64) * (sr as f64 / 44100.0)) as usize).max(1)
}
fn fv_len_exact(tuning: u64, sr: u32) -> usize {
	((tuning * sr as u64 / 44100) as usize).max(1)
}
fn ref_freeverb(sr: u32, fb: f64, damp: f64, width: f64, mix: f32, input: &[Frame]) -> Vec<(f64, f64)> {
	let mut cl: Vec<RefComb> = FV_COMBS.iter().map(|t| RefComb::new(fv_len(*t, sr))).collect();
	let mut cr: Vec<RefComb> = FV_COMBS.iter().map(|t| RefComb::new(fv_len(*t + FV_SPREAD, sr))).collect();
	let mut al: Vec<RefAllpass> = FV_ALLPASSES.iter().map(|t| RefAllpass::new(fv_len(*t, sr))).collect();
	let mut ar: Vec<RefAllpass> = FV_ALLPASSES.iter().map(|t| RefAllpass::new(fv_len(*t + FV_SPREAD, sr))).collect();
	// the implementation holds feedback, damping and width as f32
	let (fb, damp, width) = (fb as f32 as f64, damp as f32 as f64, width as f32 as f64);
	let (ws, ds) = mixw(mix);
	let wet1 = width / 2.0 + 0.5;
	let wet2 = (1.0 - width) / 2.0;
	let mut out = vec![];
	for f in input {
		let x = (f.left as f64 + f.right as f64) * 0.015f32 as f64;
		let (mut l, mut r) = (0.0, 0.0);
		for c in cl.iter_mut() {
			l += c.process(x, fb, damp);
		}
		for c in cr.iter_mut() {
			r += c.process(x, fb, damp);
		}
		for a in al.iter_mut() {
			l = a.process(l);
		}
		for a in ar.iter_mut() {
			r = a.process(r);
		}
		let (ol, or) = (l * wet1 + r * wet2, r * wet1 + l * wet2);
		out.push((ol * ws + f.left as f64 * ds, or * ws + f.right as f64 * ds));
	}
	out
}

fn sec_reverb(s: &mut Session, cx: &Ctx, rng: &mut Rng, n_cases: usize, n_ref: usize, n_decay: usize) {
	// --- the reference network evaluated in binary32 by coqc, bit for bit (short lines: very low rates)
	for i in 0..n_cases {
		let sr = *rng.pick(&[441u32, 500, 620, 700, 882]);
		let (fb, damp, width) = match i % 4 {
			0 => (0.9, 0.1, 1.0),
			1 => (0.5, 0.0, 0.0),
			_ => (rng.unit_f64(), rng.unit_f64(), rng.unit_f64()),
		};
		let mix = if i % 3 == 0 { 1.0 } else { rng.unit_f64() as f32 };
		let n = 36;
		let mut input = if i % 2 == 0 { vec![Frame::ZERO; n] } else { noise(rng, n, 0.8) };
		input[0] = Frame::new(1.0, 0.5);
		let d = Reverb { fb, damp, width, mix };
		let Some(out) = run_ok(s, cx, &d, sr, &input) else { continue };
		let mut obs = vec![];
		for f in &out {
			obs.push(obs32(f.left));
			obs.push(obs32(f.right));
		}
		let term = format!("CFreeverb {} {} {} {} {} {}", sr, f64_bits_z(fb), f64_bits_z(damp), f64_bits_z(width), f32_bits_z(mix), frames_term(&input));
		let k = key_of(&term);
		s.case("reverb_is_freeverb_b32", term, &obs, k);
	}
	// --- real rates: sample-by-sample against the f64 reference, arrival frames of the first reflections
	let mut worst = 0.0f64;
	for i in 0..n_ref {
		let sr = if i < RATES.len() { RATES[i] } else { gen_sr(rng) };
		let (fb, damp, width) = match i % 4 {
			0 => (0.9, 0.1, 1.0),
			1 => (0.0, 0.0, 1.0),
			_ => (rng.unit_f64() * 0.98, rng.unit_f64(), rng.unit_f64()),
		};
		let mix = if i % 2 == 0 { 1.0 } else { rng.unit_f64() as f32 };
		let n = (sr as usize / 6).max(6000);
		let mut input = if i % 3 == 2 { noise(rng, n, 0.5) } else { vec![Frame::ZERO; n] };
		input[0] = Frame::new(1.0, 0.5);
		let d = Reverb { fb, damp, width, mix };
		let desc = format!("{:?} @ {} Hz", d, sr);
		let Some(out) = run_ok(s, cx, &d, sr, &input) else { continue };
		s.eval_only("mon_reverb_vs_reference");
		// kira's scaling rule against the exact quotient: equal at the standard rates, never more than one frame short
		for t in FV_COMBS.iter().chain(FV_ALLPASSES.iter()).flat_map(|t| [*t, *t + FV_SPREAD]) {
			let (a, b) = (fv_len(t, sr), fv_len_exact(t, sr));
			if a != b {
				s.count("reverb_line_one_frame_short_of_exact_quotient");
				let standard = [8000u32, 11025, 16000, 22050, 32000, 44100, 48000, 88200, 96000, 176400, 192000].contains(&sr);
				if standard || a + 1 != b {
					s.fail(desc.clone(), format!("line for tuning {t}: the binary64 product gives {a} frames, floor(tuning * rate / 44100) = {b}"), None);
				}
			}
		}
		let reference = ref_freeverb(sr, fb, damp, width, mix, &input);
		let peak = reference.iter().map(|p| p.0.abs().max(p.1.abs())).fold(1e-9, f64::max);
		for j in 0..n {
			let (el, er) = ((out[j].left as f64 - reference[j].0).abs(), (out[j].right as f64 - reference[j].1).abs());
			worst = worst.max(el.max(er) / peak);
			if !(el <= 2e-4 * peak && er <= 2e-4 * peak) {
				s.fail(desc.clone(), format!("frame {j}: output ({}, {}) but the Freeverb reference network gives ({:.9}, {:.9}) (peak {peak:.4})", out[j].left, out[j].right, reference[j].0, reference[j].1), None);
				break;
			}
		}
		// first reflections of a lone impulse, fully wet, full width: the shortest comb of each channel
		if i % 3 != 2 && mix == 1.0 && width == 1.0 {
			let fl = out.iter().position(|f| f.left != 0.0);
			let fr = out.iter().position(|f| f.right != 0.0);
			let (wl, wr) = (fv_len(1116, sr), fv_len(1116 + 23, sr));
			if fl != Some(wl) || fr != Some(wr) {
				s.fail(desc.clone(), format!("first reflection at frames {:?} / {:?}, Freeverb's shortest combs are 1116 and 1139 samples at 44100 Hz = {} / {} frames here", fl, fr, wl, wr), None);
			} else if !close(out[wl].left as f64, 0.015 * 1.5, 1e-5, 0.0) {
				s.fail(desc.clone(), format!("first reflection has amplitude {}, reference: input gain 0.015 x (L + R) = {}", out[wl].left, 0.015 * 1.5), None);
			}
		}
	}
	s.notes.push(format!("reverb: largest deviation from the f64 Freeverb reference / peak = {worst:.3e} (bound 2e-4)"));
	// --- decay for feedback < 1: after the input stops the tail dies away; for feedback = 1 and no damping it does not
	for i in 0..n_decay {
		let sr = *rng.pick(&[8000u32, 11025, 16000]);
		let fb = match i % 3 {
			0 => 0.5,
			1 => 0.8,
			_ => 0.2 + rng.unit_f64() * 0.65,
		};
		let damp = rng.unit_f64() * 0.6;
		let d = Reverb { fb, damp, width: 1.0, mix: 1.0 };
		let desc = format!("{:?} @ {} Hz", d, sr);
		let longest = fv_len(1617 + 23, sr);
		// loop gain per trip through a comb is at most fb: -60 dB after ln(1000)/ln(1/fb) trips
		let trips = (1000f64.ln() / (1.0 / fb).ln()).ceil() as usize + 2;
		let n = longest * (trips + 1) * 2 + 4 * fv_len(579, sr);
		let burst = 200;
		let mut input = vec![Frame::ZERO; n];
		for f in input.iter_mut().take(burst) {
			*f = Frame::new(unit32(rng), unit32(rng));
		}
		let Some(out) = run_ok(s, cx, &d, sr, &input) else { continue };
		s.eval_only("mon_reverb_decays");
		let w = longest * 2;
		let peaks: Vec<f64> = out.chunks(w).map(|c| c.iter().map(|f| (f.left as f64).abs().max((f.right as f64).abs())).fold(0.0, f64::max)).collect();
		let first = peaks[0].max(peaks[1]);
		let last = *peaks.last().unwrap();
		if !(last <= 2e-3 * first) {
			s.fail(desc.clone(), format!("tail does not decay: peak {first:e} at the start, still {last:e} after {n} frames ({trips} comb round trips for -60 dB)"), None);
		}
		// the envelope keeps falling: six windows (>= 12 round trips of every comb, loop gain <= fb each) later the
		// peak is lower (the sum of eight combs of different lengths beats, so neighbouring windows may not be ordered)
		for j in 6..peaks.len() {
			if !(peaks[j] <= peaks[j - 6] + 1e-9) {
				s.fail(desc.clone(), format!("tail does not keep decaying: window {j} peak {:e}, six windows earlier {:e}", peaks[j], peaks[j - 6]), None);
				break;
			}
		}
	}
}

// ------------------------------------------------------------------ compressor

/// gain change in dB per frame measured on the implementation: output / input on a constant-level signal
fn sec_compressor(s: &mut Session, cx: &Ctx, rng: &mut Rng, n_cfg: usize) {
	let mut worst_db = 0.0f64;
	// fixed corpus, identical on every run (own generator): slow attacks and small overshoots, where one attack step
	// from rest is far below a thousandth of a decibel (over / (attack * rate)): the follower must still converge
	// (sr, threshold, ratio, attack us, release us, make-up, overshoot dB)
	const SLOW: [(u32, f64, f64, u64, u64, f32, f64); 4] = [
		(48_000, -12.0, 4.0, 200_000, 100_000, 0.0, 3.0),
		(192_000, -20.0, 2.0, 30_000, 50_000, 0.0, 4.0),
		(44_100, -6.0, 10.0, 100_000, 300_000, 3.0, 1.5),
		(96_000, -30.0, 1.5, 500_000, 20_000, 0.0, 6.0),
	];
	let mut fixed_rng = Rng::new(0xC14_510);
	for i in 0..SLOW.len() + n_cfg {
		let fixed = SLOW.get(i).copied();
		let rng: &mut Rng = if fixed.is_some() { &mut fixed_rng } else { &mut *rng };
		let (sr, thr, ratio, att, rel, mk) = match fixed {
			Some((sr, thr, ratio, att, rel, mk, _)) => (sr, thr, ratio, Duration::from_micros(att), Duration::from_micros(rel), mk),
			None => {
				let sr = gen_sr(rng);
				let thr = -(6.0 + rng.unit_f64() * 34.0);
				let ratio = *rng.pick(&[2.0, 4.0, 8.0, 1.5, 20.0, 3.0]);
				// one configuration in four has a slow attack (up to half a second)
				// (kept short enough for six time constants to fit into the 400 000 frames rendered below)
				let slow_max = ((400_000.0 / (6.5 * sr as f64)) * 1e6).min(500_000.0).max(30_001.0) as i64;
				let att = Duration::from_micros(if i % 4 == 3 { rng.range(30_000, slow_max) } else { rng.range(200, 30_000) } as u64);
				let rel = Duration::from_micros(rng.range(5_000, 300_000) as u64);
				let mk = if i % 2 == 0 { 0.0 } else { (-6.0 + rng.unit_f64() * 12.0) as f32 };
				(sr, thr, ratio, att, rel, mk)
			}
		};
		let dt = 1.0 / sr as f64;
		let d = Comp { thr, ratio, att, rel, mk, mix: 1.0 };
		let desc = format!("{:?} @ {} Hz", d, sr);
		let mkg = 10f64.powf(mk as f64 / 20.0);
		// --- below the threshold: unchanged up to the make-up gain
		{
			let top = 10f64.powf((thr - 0.5) / 20.0) as f32;
			let input: Vec<Frame> = (0..2000).map(|_| Frame::new(unit32(rng) * top, unit32(rng) * top)).collect();
			if let Some(out) = run_ok(s, cx, &d, sr, &input) {
				s.eval_only("mon_compressor_below_threshold");
				for (x, y) in input.iter().zip(out.iter()) {
					if !(close(y.left as f64, x.left as f64 * mkg, 1e-6, 1e-30) && close(y.right as f64, x.right as f64 * mkg, 1e-6, 1e-30)) {
						s.fail(desc.clone(), format!("signal below the threshold changed: in {:?} out {:?} (make-up gain {mkg})", x, y), None);
						break;
					}
				}
			}
		}
		// --- constant level above the threshold (attack), then a lower level (release)
		let l1 = match fixed {
			Some(f) => thr + f.6,
			None => thr + 3.0 + rng.unit_f64() * (-thr - 3.0).max(1.0), // dB, above the threshold, at most ~0 dBFS
		};
		let l2 = if i % 2 == 0 { thr - 10.0 } else { thr + (l1 - thr) * 0.3 };
		let (a1, a2) = (10f64.powf(l1 / 20.0) as f32, 10f64.powf(l2 / 20.0) as f32);
		let n1 = ((att.as_secs_f64() * 6.0 / dt) as usize).clamp(200, 400_000);
		let n2 = ((rel.as_secs_f64() * 4.0 / dt) as usize).clamp(200, 600_000);
		let mut input = vec![];
		for j in 0..n1 {
			let sg = if j % 2 == 0 { 1.0 } else { -1.0 };
			input.push(Frame::new(a1 * sg, a1));
		}
		for j in 0..n2 {
			let sg = if j % 3 == 0 { -1.0 } else { 1.0 };
			input.push(Frame::new(a2 * sg, a2));
		}
		let Some(out) = run_ok(s, cx, &d, sr, &input) else { continue };
		s.eval_only("mon_compressor_convergence");
		// closed form (the levels the detector sees are those of the rounded f32 amplitudes)
		let (la, lb) = (20.0 * (a1 as f64).log10(), 20.0 * (a2 as f64).log10());
		let (o1, o2) = ((la - thr).max(0.0), (lb - thr).max(0.0));
		let s_att = (-dt / att.as_secs_f64()).exp();
		let s_rel = (-dt / rel.as_secs_f64()).exp();
		let slope = 1.0 / ratio - 1.0;
		let e_switch = o1 + s_att.powi(n1 as i32) * (0.0 - o1);
		let mut ok = true;
		for j in 0..input.len() {
			let env = if j < n1 {
				o1 + s_att.powf((j + 1) as f64) * (0.0 - o1)
			} else {
				let m = (j - n1 + 1) as f64;
				// falling towards o2 < e_switch: release
				o2 + s_rel.powf(m) * (e_switch - o2)
			};
			let want_db = env * slope;
			let got_db = 20.0 * ((out[j].left as f64 / input[j].left as f64) / mkg).abs().log10();
			let err = (got_db - want_db).abs();
			worst_db = worst_db.max(err);
			if !(err <= 0.02 + 2e-3 * want_db.abs()) {
				s.fail(
					desc.clone(),
					format!(
						"frame {j} ({}): gain change {got_db:.5} dB, closed form (o + s^n (e0 - o)) (1/ratio - 1) = {want_db:.5} dB [level {:.3} dB, threshold {thr:.3}, s_attack = exp(-dt/{:?}), s_release = exp(-dt/{:?})]",
						if j < n1 { "attack" } else { "release" },
						if j < n1 { la } else { lb },
						att,
						rel
					),
					None,
				);
				ok = false;
				break;
			}
		}
		if ok {
			// the limit: (level - threshold) (1 - 1/ratio) dB of gain reduction once settled
			let settled = 20.0 * ((out[n1 - 1].left as f64 / input[n1 - 1].left as f64) / mkg).abs().log10();
			let want = -(la - thr) * (1.0 - 1.0 / ratio);
			if !((settled - want).abs() <= 0.01 * want.abs() + 0.02) {
				s.fail(desc.clone(), format!("after 6 attack time constants the gain reduction is {settled:.4} dB, static curve (level - threshold)(1 - 1/ratio) = {want:.4} dB"), None);
			}
			// time constant: after one attack time the remaining distance is 1/e
			let n_tau = (att.as_secs_f64() / dt).round() as usize;
			if n_tau >= 50 && n_tau < n1 {
				let g = 20.0 * ((out[n_tau - 1].left as f64 / input[n_tau - 1].left as f64) / mkg).abs().log10();
				let frac = 1.0 - g / (o1 * slope);
				if !((frac - (-1.0f64).exp()).abs() <= 0.01) {
					s.fail(desc.clone(), format!("after one attack time ({:?} = {n_tau} frames) the remaining distance to the target is {frac:.4} of the total, a time constant means 1/e = 0.3679", att), None);
				}
			}
			let n_tau = (rel.as_secs_f64() / dt).round() as usize;
			if n_tau >= 50 && n_tau < n2 && (e_switch - o2).abs() > 0.5 {
				let j = n1 + n_tau - 1;
				let g = 20.0 * ((out[j].left as f64 / input[j].left as f64) / mkg).abs().log10();
				let frac = (g / slope - o2) / (e_switch - o2);
				if !((frac - (-1.0f64).exp()).abs() <= 0.01) {
					s.fail(desc.clone(), format!("after one release time ({:?} = {n_tau} frames) the remaining distance to the target is {frac:.4} of the total, a time constant means 1/e = 0.3679", rel), None);
				}
			}
		}
	}
	s.notes.push(format!("compressor: largest |measured - closed form| gain change over all frames = {worst_db:.3e} dB (bound 0.02 dB + 0.2 %)"));
}

// ------------------------------------------------------------------ histories: device-rate changes, real tracks
// (compressor_piecewise_R / compressor_release_through_silence_R, filter_response_after_rate_change_R,
//  eq_response_after_rate_change_R: what an effect does next depends on the rate in force and on its state,
//  not on how it got there nor on how the frames were cut into process calls)

/// one stretch at one device rate: the sizes of the process calls (bare effect) / device callbacks (real manager)
type Seg = (u32, Vec<usize>);
fn seg_frames(segs: &[Seg]) -> usize {
	segs.iter().map(|s| s.1.iter().sum::<usize>()).sum()
}
fn calls_of(n: usize, t: usize) -> Vec<usize> {
	let mut v = vec![t; n / t];
	if n % t != 0 {
		v.push(n % t);
	}
	v
}
/// the bare effect through a history: init(first rate, t), process calls of the given sizes with dt = 1/rate,
/// on_change_sample_rate between the segments
fn run_history(cx: &Ctx, d: &Desc, t: usize, segs: &[Seg], signal: &[Frame]) -> Outcome<Vec<Frame>> {
	catch(|| {
		let mut e = d.build();
		e.init(segs[0].0, t);
		let mut buf = signal[..seg_frames(segs)].to_vec();
		let mut pos = 0;
		for (i, (sr, calls)) in segs.iter().enumerate() {
			if i > 0 {
				e.on_change_sample_rate(*sr);
			}
			let dt = 1.0 / *sr as f64;
			for &n in calls {
				e.on_start_processing();
				e.process(&mut buf[pos..pos + n], dt, &cx.info);
				pos += n;
			}
		}
		buf
	})
}

/// probe effects for a real track: the injector overwrites the track's bus with the test signal (frame by frame, in
/// processing order), the tap records what comes out of the effect under test and the slices the renderer made
struct Inject {
	data: Arc<Vec<Frame>>,
	pos: usize,
}
impl Effect for Inject {
	fn process(&mut self, input: &mut [Frame], _dt: f64, _info: &Info) {
		for f in input.iter_mut() {
			*f = self.data.get(self.pos).copied().unwrap_or(Frame::ZERO);
			self.pos += 1;
		}
	}
}
struct Tap {
	log: Arc<Mutex<Vec<Frame>>>,
	calls: Arc<Mutex<Vec<(usize, u64)>>>,
}
impl Effect for Tap {
	fn process(&mut self, input: &mut [Frame], dt: f64, _info: &Info) {
		self.log.lock().unwrap().extend_from_slice(input);
		self.calls.lock().unwrap().push((input.len(), dt.to_bits()));
	}
}
struct TrackRun {
	output: Vec<Frame>,
	/// (frames, bits of dt) of every process call the effect under test received
	calls: Vec<(usize, u64)>,
}
/// the effect on a sub-track of a real `AudioManager` (custom backend owning the `Renderer`): device callbacks of the
/// given sizes, `Renderer::on_change_sample_rate` between the segments; internal buffer boundaries are the renderer's
fn run_on_track(d: &Desc, ibs: usize, segs: &[Seg], signal: &[Frame]) -> Outcome<TrackRun> {
	catch(|| {
		let log = Arc::new(Mutex::new(vec![]));
		let calls = Arc::new(Mutex::new(vec![]));
		let mut m = crate::backend::simple_manager(segs[0].0, ibs);
		let builder = TrackBuilder::new()
			.with_built_effect(Box::new(Inject { data: Arc::new(signal.to_vec()), pos: 0 }))
			.with_built_effect(d.build())
			.with_built_effect(Box::new(Tap { log: log.clone(), calls: calls.clone() }));
		let _track = m.add_sub_track(builder).unwrap();
		for (i, (sr, cbs)) in segs.iter().enumerate() {
			if i > 0 {
				m.backend_mut().set_sample_rate(*sr);
			}
			for &n in cbs {
				m.backend_mut().callback(n, 2);
			}
		}
		let output = log.lock().unwrap().clone();
		let calls = calls.lock().unwrap().clone();
		TrackRun { output, calls }
	})
}
/// runs the history on the bare effect (`track = None`) or on a real track (`Some(internal buffer size)`);
/// a scene that did not run as planned is a failure of the harness, reported as such
fn run_either(s: &mut Session, cx: &Ctx, d: &Desc, t: usize, on_track: bool, segs: &[Seg], signal: &[Frame], desc: &str) -> Option<Vec<Frame>> {
	let n = seg_frames(segs);
	if !on_track {
		match run_history(cx, d, t, segs, signal) {
			Outcome::Ok(v) => Some(v),
			_ => {
				s.fail(desc.to_string(), format!("process panicked: {}", last_panic()), None);
				None
			}
		}
	} else {
		match run_on_track(d, t, segs, signal) {
			Outcome::Ok(r) => {
				let mut want_dt = vec![];
				for (sr, c) in segs {
					for &cb in c {
						for k in calls_of(cb, t) {
							want_dt.push((k, (1.0 / *sr as f64).to_bits()));
						}
					}
				}
				if r.output.len() != n || r.calls != want_dt {
					s.fail(desc.to_string(), format!("track scene did not run as planned: {} frames tapped in {} calls, planned {} in {} (harness problem or the renderer slices differently)", r.output.len(), r.calls.len(), n, want_dt.len()), None);
					return None;
				}
				Some(r.output)
			}
			_ => {
				s.fail(desc.to_string(), format!("real track panicked: {}", last_panic()), None);
				None
			}
		}
	}
}
fn gen_callbacks(r: &mut Rng, n: usize, b: usize) -> Vec<usize> {
	let mut v = vec![];
	let mut left = n;
	while left > 0 {
		let c = (*r.pick(&[b, 4 * b, 4 * b + b / 2 + 1, 7, 2 * b])).min(left);
		v.push(c);
		left -= c;
	}
	v
}

/// closed form of the decibel-domain follower through a piecewise-constant overshoot history
/// (compressor_piecewise_R): per segment o + s^j (e0 - o), s = release when the segment starts above its target
fn follower_closed_form(s_att: f64, s_rel: f64, segs: &[(f64, usize)]) -> Vec<f64> {
	let mut out = vec![];
	let mut e0 = 0.0f64;
	for &(o, n) in segs {
		let sp = if o < e0 { s_rel } else { s_att };
		for j in 1..=n {
			out.push(o + sp.powf(j as f64) * (e0 - o));
		}
		if n > 0 {
			e0 = *out.last().unwrap();
		}
	}
	out
}

/// compressor through digital silence: loud passage, a gap of EXACT zeros (k whole buffers + a partial one, aligned
/// with the buffer grid or not), then a tone below the threshold.  The follower keeps releasing through the gap
/// (overshoot of silence = 0: log10(0) = -inf, (-inf - threshold).max(0) = 0), so the tone gets the gain of
/// rel^(gap + j + 1) * e1; also attack after leading silence.  Bare effect and real track.
fn sec_compressor_gaps(s: &mut Session, cx: &Ctx, rng: &mut Rng, n_cfg: usize) {
	const BUFS: [usize; 3] = [1, 16, 128];
	const KS: [usize; 4] = [0, 1, 2, 10];
	let mut worst_db = 0.0f64;
	for i in 0..n_cfg {
		let b = BUFS[i % 3];
		let k = KS[(i / 3) % 4];
		let aligned = (i / 12) % 2 == 0;
		let lead_silence = i % 5 == 4;
		let sr = if b == 1 { *rng.pick(&[8000u32, 22050, 44100, 48000]) } else { gen_sr(rng) };
		let dt = 1.0 / sr as f64;
		let thr = -(10.0 + rng.unit_f64() * 30.0);
		let ratio = *rng.pick(&[2.0, 4.0, 8.0, 20.0, 3.0]);
		let att = Duration::from_micros(rng.range(200, 5_000) as u64);
		// short releases too, so that a gap of a few frames is a visible part of the release
		let rel = if i % 2 == 0 { Duration::from_micros(rng.range(300, 5_000) as u64) } else { Duration::from_micros(rng.range(5_000, 60_000) as u64) };
		let mk = if i % 3 == 0 { 0.0 } else { (-6.0 + rng.unit_f64() * 12.0) as f32 };
		let d = Comp { thr, ratio, att, rel, mk, mix: 1.0 };
		let mkg = 10f64.powf(mk as f64 / 20.0);
		let l1 = thr + 6.0 + rng.unit_f64() * (-thr - 6.0).max(1.0);
		let l3 = thr - 1.0 - rng.unit_f64() * 12.0;
		let (a1, a3) = (10f64.powf(l1 / 20.0) as f32, 10f64.powf(l3 / 20.0) as f32);
		let mut n1 = ((att.as_secs_f64() * 8.0 / dt) as usize).clamp(64, 40_000);
		// where the silence starts relative to the buffer grid
		let off = if aligned || b == 1 { 0 } else { rng.range(1, b as i64 - 1) as usize };
		n1 = n1 / b * b + off;
		let partial = if b == 1 { 0 } else { rng.range(0, b as i64 - 1) as usize };
		let nz = k * b + partial;
		let n3 = ((rel.as_secs_f64() * 3.0 / dt) as usize).clamp(64, 20_000);
		let mut signal = vec![];
		let mut levels: Vec<(f64, usize)> = vec![];
		let (la, lc) = (20.0 * (a1 as f64).log10(), 20.0 * (a3 as f64).log10());
		let (o1, o3) = ((la - thr).max(0.0), (lc - thr).max(0.0));
		if lead_silence {
			signal.extend(std::iter::repeat(Frame::ZERO).take(nz));
			levels.push((0.0, nz));
		}
		for j in 0..n1 {
			let sg = if j % 2 == 0 { 1.0 } else { -1.0 };
			signal.push(Frame::new(a1 * sg, a1));
		}
		levels.push((o1, n1));
		if !lead_silence {
			signal.extend(std::iter::repeat(Frame::ZERO).take(nz));
			levels.push((0.0, nz));
		}
		for j in 0..n3 {
			let sg = if j % 3 == 0 { -1.0 } else { 1.0 };
			signal.push(Frame::new(a3 * sg, a3));
		}
		levels.push((o3, n3));
		let n = signal.len();
		let s_att = (-dt / att.as_secs_f64()).exp();
		let s_rel = (-dt / rel.as_secs_f64()).exp();
		let slope = 1.0 / ratio - 1.0;
		let env = follower_closed_form(s_att, s_rel, &levels);
		for on_track in [false, true] {
			let segs: Vec<Seg> = vec![(sr, if on_track { gen_callbacks(rng, n, b) } else { calls_of(n, b) })];
			let scene = format!(
				"{:?} @ {} Hz, {}, buffers of {} frames: {}{} frames at {:.2} dB (above the threshold), {}{} frames at {:.2} dB (below the threshold)",
				d,
				sr,
				if on_track { format!("on a sub-track of a real AudioManager (device callbacks {:?}...)", &segs[0].1[..segs[0].1.len().min(6)]) } else { "bare effect".to_string() },
				b,
				if lead_silence { format!("{nz} frames of exact zeros ({k} whole buffers + {partial}), then ") } else { String::new() },
				n1,
				la,
				if lead_silence { String::new() } else { format!("then {nz} frames of exact zeros ({k} whole buffers + {partial}, starting {off} frames into a buffer), then ") },
				n3,
				lc
			);
			let Some(out) = run_either(s, cx, &d, b, on_track, &segs, &signal, &scene) else { continue };
			s.eval_only(if on_track { "mon_compressor_gap_track" } else { "mon_compressor_gap_bare" });
			for j in 0..n {
				let x = signal[j];
				if x.left == 0.0 {
					if !(out[j].left == 0.0 && out[j].right == 0.0) {
						s.fail(scene.clone(), format!("frame {j}: silence in, ({}, {}) out", out[j].left, out[j].right), None);
						break;
					}
					continue;
				}
				let want_db = env[j] * slope;
				let got_db = 20.0 * ((out[j].left as f64 / x.left as f64) / mkg).abs().log10();
				let err = (got_db - want_db).abs();
				worst_db = worst_db.max(err);
				if !(err <= 0.02 + 2e-3 * want_db.abs()) {
					let part = levels.iter().scan(0usize, |acc, l| { *acc += l.1; Some(*acc) }).position(|end| j < end).unwrap_or(0);
					let below = x.left.abs() == a3;
					s.fail(
						scene.clone(),
						format!(
							"frame {j} (frame {} of part {}): gain change {got_db:.5} dB, the follower through the piecewise-constant history gives {want_db:.5} dB{} [follower after the loud passage {:.4} dB over, s_release = exp(-dt/{:?}) per frame INCLUDING the {nz} silent frames]",
							j - levels[..part].iter().map(|l| l.1).sum::<usize>(),
							part + 1,
							if below { " — this signal is below the threshold: only what is left of the release after the silence may still attenuate it" } else { "" },
							o1 * (1.0 - s_att.powf(n1 as f64)),
							rel
						),
						None,
					);
					break;
				}
			}
		}
		// the same scene, tiny, bit for bit against the C13 model the theorems are about (buffers of 2 frames)
		if i < 12 {
			let mut small = vec![];
			for j in 0..3 {
				small.push(Frame::new(if j % 2 == 0 { a1 } else { -a1 }, a1));
			}
			for _ in 0..(1 + (i % 2) + 2 * (i % 3)) {
				small.push(Frame::ZERO);
			}
			small.push(Frame::new(a3, -a3));
			small.push(Frame::new(-a3, a3));
			emit_trace_t(s, cx, "trace_compressor_gap", &d, sr, 2, &small);
		}
	}
	s.notes.push(format!("compressor through silence: largest |measured - closed form| gain change = {worst_db:.3e} dB (bound 0.02 dB + 0.2 %)"));
}

/// like `emit_trace` with an internal buffer of `t` frames (the implementation is driven in slices of t; the model's
/// frame-by-frame recurrence does not depend on the slicing: effects_partition_independent_any)
fn emit_trace_t(s: &mut Session, cx: &Ctx, kind: &str, d: &Desc, sr: u32, t: usize, input: &[Frame]) {
	let out = run_history(cx, d, t, &[(sr, calls_of(input.len(), t))], input);
	let obs = match &out {
		Outcome::Ok(v) => {
			let mut o = vec![0];
			for f in v {
				o.push(obs32(f.left));
				o.push(obs32(f.right));
			}
			o
		}
		Outcome::Panic(c) => vec![1, *c],
		Outcome::Hang => vec![2],
	};
	let mut tab = Tab::new();
	d.oracle(sr, &mut tab);
	comp_oracle(d, &[(sr, input)], &mut tab);
	let tabs = format!("[{}]", tab.iter().map(|(t, a, b)| format!("({}, {}, {})", t, z(*a), z(*b))).collect::<Vec<_>>().join("; "));
	let sl = format!("[{}]", calls_of(input.len(), t).iter().map(|x| x.to_string()).collect::<Vec<_>>().join("; "));
	let term = format!("CTrace (Case {} {} {} {} {} {})", sr, t, tabs, d.term(), sl, frames_term(input));
	let k = key_of(&term);
	s.case(kind, term, &obs, k);
}
fn sine(f: f64, sr: u32, n: usize, amp: f64) -> Vec<Frame> {
	let th = 2.0 * std::f64::consts::PI * f / sr as f64;
	(0..n).map(|i| Frame::new((amp * (th * i as f64).cos()) as f32, (amp * (th * i as f64).sin()) as f32)).collect()
}
/// steady-state response from the last `win` frames: mean of (out_l + i out_r) / (in_l + i in_r)
fn tail_response(signal: &[Frame], out: &[Frame], win: usize) -> Cx {
	let n = out.len();
	let mut acc = Cx::new(0.0, 0.0);
	for i in n - win..n {
		let y = Cx::new(out[i].left as f64, out[i].right as f64);
		let x = Cx::new(signal[i].left as f64, signal[i].right as f64);
		acc = acc.add(y.div(x));
	}
	acc.scale(1.0 / win as f64)
}
/// a history of device rates: the first is the rate given to `init`, every later one is an `on_change_sample_rate`
/// (1 to 4 changes; returns to an earlier rate, to the initial rate, and a change to the SAME rate included);
/// measurements are taken in the last segment, against the specification at the rate then in force
fn rate_history(r: &mut Rng, i: usize) -> Vec<u32> {
	let a = if i % 4 == 3 { r.range(8000, 192000) as u32 } else { RATES[i % RATES.len()] };
	let far = |r: &mut Rng, from: &[u32], odd: bool| -> u32 {
		loop {
			let b = if odd { r.range(8000, 192000) as u32 } else { *r.pick(&RATES) };
			if from.iter().all(|x| {
				let q = b as f64 / *x as f64;
				q > 1.05 || q < 0.95
			}) {
				return b;
			}
		}
	};
	let b = far(r, &[a], i % 7 == 6);
	let c = far(r, &[a, b], i % 11 == 10);
	match i % 6 {
		0 => vec![a, b],
		1 => vec![a, b, a],
		2 => vec![a, b, c, a],
		3 => vec![a, b, b],
		4 => vec![a, b, a, b],
		_ => vec![a, b, c, b, a],
	}
}
fn hist_text(rates: &[u32], pre: &[usize], what: &str) -> String {
	let mut s = format!("init({})", rates[0]);
	for (j, n) in pre.iter().enumerate() {
		if j > 0 {
			s.push_str(&format!(", on_change_sample_rate({})", rates[j]));
		}
		s.push_str(&format!(", {} frames of {} at {} Hz", n, what, rates[j]));
	}
	s.push_str(&format!(", on_change_sample_rate({})", rates[rates.len() - 1]));
	s
}
fn hist_segs(rng: &mut Rng, rates: &[u32], lens: &[usize], t: usize, on_track: bool) -> Vec<Seg> {
	rates.iter().zip(lens.iter()).map(|(sr, n)| (*sr, if on_track { gen_callbacks(rng, *n, t) } else { calls_of(*n, t) })).collect()
}

/// a history, bit for bit against the model: init at the first rate, `on_change_sample_rate` + the coefficients of
/// the new rate for every later segment (state carried over / lines rebuilt as C13's change_rate says)
fn emit_trace_hist(s: &mut Session, cx: &Ctx, kind: &str, d: &Desc, t: usize, parts: &[(u32, Vec<Frame>)]) {
	let segs: Vec<Seg> = parts.iter().map(|(sr, v)| (*sr, calls_of(v.len(), t))).collect();
	let signal: Vec<Frame> = parts.iter().flat_map(|(_, v)| v.iter().copied()).collect();
	let out = run_history(cx, d, t, &segs, &signal);
	let obs = match &out {
		Outcome::Ok(v) => {
			let mut o = vec![0];
			for f in v {
				o.push(obs32(f.left));
				o.push(obs32(f.right));
			}
			o
		}
		Outcome::Panic(c) => vec![1, *c],
		Outcome::Hang => vec![2],
	};
	let mut tab = Tab::new();
	for (sr, _) in parts {
		d.oracle(*sr, &mut tab);
	}
	let osegs: Vec<(u32, &[Frame])> = parts.iter().map(|(sr, v)| (*sr, v.as_slice())).collect();
	comp_oracle(d, &osegs, &mut tab);
	let tabs = format!("[{}]", tab.iter().map(|(t, a, b)| format!("({}, {}, {})", t, z(*a), z(*b))).collect::<Vec<_>>().join("; "));
	let sl = |v: &[usize]| format!("[{}]", v.iter().map(|x| x.to_string()).collect::<Vec<_>>().join("; "));
	let hs = parts.iter().zip(segs.iter()).map(|((sr, v), sg)| format!("({}, {}, {})", sr, sl(&sg.1), frames_term(v))).collect::<Vec<_>>().join("; ");
	let term = format!("CHist {} {} {} [{}]", t, tabs, d.term(), hs);
	let k = key_of(&term);
	s.case(kind, term, &obs, k);
}

/// every kind of frequency-response measurement repeated after a HISTORY of device-rate changes on a live effect:
/// the corner / centre must sit at the requested frequency in hertz at the rate in force after the last change
/// (filter_response_after_rate_change_R, eq_response_after_rate_change_R: any list of rates)
fn sec_rate_change_response(s: &mut Session, cx: &Ctx, rng: &mut Rng, n_filter: usize, n_eq: usize) {
	let mut st = RespStats { worst_rel: 0.0, worst_at: String::new(), count: 0 };
	let win = 4096usize;
	for i in 0..n_filter + n_eq {
		let is_eq = i >= n_filter;
		let rates = rate_history(rng, i);
		let rb = *rates.last().unwrap();
		let ny = *rates.iter().min().unwrap() as f64 / 2.0;
		let fc = 200.0 * (ny * 0.8 / 200.0).powf(rng.unit_f64());
		// every third configuration on a real track
		let on_track = i % 3 == 2;
		let t = if on_track { *rng.pick(&[32usize, 128]) } else { T };
		let (d, k_eff, fc_eff): (Desc, f64, f64);
		let mode = ((i / 6) % 4) as u8;
		let kind = ((i / 6) % 3) as u8;
		let res = rng.unit_f64() * 0.9;
		let gain = (-18.0 + rng.unit_f64() * 36.0) as f32;
		let q = 0.4 + rng.unit_f64() * 4.0;
		let a = 10f64.powf(gain as f64 / 40.0);
		if is_eq {
			d = Eq { kind, freq: fc, gain, q };
			k_eff = if kind == 0 { 1.0 / (q * a) } else { 1.0 / q };
			fc_eff = match kind {
				0 => fc,
				1 => fc / a.sqrt().max(1.0),
				_ => fc * a.sqrt().min(1.0),
			};
		} else {
			d = Filter { mode, cutoff: fc, res, mix: 1.0 };
			k_eff = 2.0 - 1.9 * res;
			fc_eff = fc;
		}
		let spec_at = |rate: f64, design_rate: f64, f: f64| -> Cx {
			// response at device rate `rate` of the design whose coefficient g was computed for `design_rate`
			let pi = std::f64::consts::PI;
			let om = (pi * f / rate).tan() / (pi * fc / design_rate).tan();
			if is_eq {
				proto_eq(kind, a.sqrt(), q, om)
			} else {
				proto_filter(mode, k_eff, om)
			}
		};
		let probes = [fc, (20.0 * (rb as f64 / 2.0 * 0.98 / 20.0).powf(rng.unit_f64())).max(20.0)];
		for (pi_, f) in probes.iter().enumerate() {
			let warm = ir_len(rb, fc_eff.max(5.0), k_eff.min(2.0)).min(400_000);
			let n_b = warm + win;
			let mut lens: Vec<usize> = rates[..rates.len() - 1].iter().map(|_| 64 + rng.range(0, 3000) as usize).collect();
			let pre = lens.clone();
			lens.push(n_b);
			let mut signal = vec![];
			for (sr, n) in rates.iter().zip(lens.iter()) {
				signal.extend(sine(*f, *sr, *n, 0.5));
			}
			let segs = hist_segs(rng, &rates, &lens, t, on_track);
			let desc = format!(
				"{:?}, {}: {}, then {n_b} frames of the {f:.3} Hz sine at {rb} Hz (dt = 1/{rb}); response measured on the last {win} frames",
				d,
				if on_track { format!("on a sub-track of a real AudioManager (internal buffer {t}, Renderer::on_change_sample_rate)") } else { format!("bare effect (process calls of {t} frames)") },
				hist_text(&rates, &pre, &format!("a {f:.3} Hz sine"))
			);
			let Some(out) = run_either(s, cx, &d, t, on_track, &segs, &signal, &desc) else { continue };
			s.eval_only(match (is_eq, on_track) {
				(false, false) => "mon_filter_response_after_rate_history",
				(false, true) => "mon_filter_response_after_rate_history_track",
				(true, false) => "mon_eq_response_after_rate_history",
				(true, true) => "mon_eq_response_after_rate_history_track",
			});
			s.count(&format!("rate_history_{}_changes{}", rates.len() - 1, if rates[..rates.len() - 1].contains(&rb) { "_returning" } else { "" }));
			let h = tail_response(&signal, &out, win);
			let spec = spec_at(rb as f64, rb as f64, *f);
			let (tr, ta) = resp_tol(fc, rb);
			let err = h.sub(spec).abs();
			st.count += 1;
			let rel = err / (spec.abs() + ta / tr);
			if rel > st.worst_rel {
				st.worst_rel = rel;
				st.worst_at = format!("{desc} at {f:.3} Hz");
			}
			if !(err <= tr * spec.abs() + ta) {
				let mut hint = String::new();
				for ra in rates.iter().filter(|x| **x != rb) {
					let stale = spec_at(rb as f64, *ra as f64, *f);
					if h.sub(stale).abs() <= tr * stale.abs() + ta {
						hint = format!("; it IS the response of coefficients computed for {ra} Hz used at {rb} Hz (|H| = {:.6}): the corner sits at {:.3} Hz instead of the requested {fc:.3} Hz", stale.abs(), fc * rb as f64 / *ra as f64);
						break;
					}
				}
				s.fail(
					desc.clone(),
					format!(
						"{} after the last device-rate change: measured response at {f:.4} Hz is {:.6}{:+.6}i (|H| = {:.6}), the cited design at {rb} Hz gives {:.6}{:+.6}i (|H| = {:.6}); |difference| = {:.3e} > {:.1e} |H| + {:.1e}{hint}",
						if pi_ == 0 { "at the requested corner / centre frequency" } else { "probe frequency" },
						h.re,
						h.im,
						h.abs(),
						spec.re,
						spec.im,
						spec.abs(),
						err,
						tr,
						ta
					),
					None,
				);
			}
		}
		// bit for bit through the history against the model run with the dt of every segment (a few, short)
		if i % 6 < 3 && (i / 6) % 2 == 0 {
			let parts: Vec<(u32, Vec<Frame>)> = rates.iter().map(|sr| (*sr, noise(rng, 3 + (*sr as usize % 3), 0.9))).collect();
			emit_trace_hist(s, cx, if is_eq { "trace_eq_rate_history" } else { "trace_filter_rate_history" }, &d, 4, &parts);
		}
	}
	s.notes.push(format!("filter / EQ after histories of device-rate changes: {} measured responses; worst |H_meas - H_spec| / (|H_spec| + 0.2) = {:.3e} at {}", st.count, st.worst_rel, st.worst_at));
}

/// delay and reverb after a history of device-rate changes: the lines are rebuilt for the new rate (empty) on EVERY
/// change, so an impulse after the last change comes back at multiples of floor(delay_time * rate in force) / at the
/// Freeverb tunings scaled to the rate in force (reverb_after_rate_history_any) — also when that rate is the one the
/// effect started with, or the same as before the change
fn sec_rate_change_lines(s: &mut Session, cx: &Ctx, rng: &mut Rng, n_delay: usize, n_reverb: usize) {
	for i in 0..n_delay {
		let rates = rate_history(rng, i);
		let rb = *rates.last().unwrap();
		let time = match (i / 6) % 3 {
			0 => Duration::from_millis(rng.range(1, 60) as u64),
			1 => Duration::from_micros(rng.range(50, 50_000) as u64),
			_ => Duration::from_nanos(rng.range(10_000, 40_000_000) as u64),
		};
		let fb = (-24.0 + rng.unit_f64() * 23.0) as f32;
		let mix = if i % 3 == 0 { 1.0 } else { rng.unit_f64() as f32 };
		let on_track = i % 3 == 2;
		let t = if on_track { *rng.pick(&[32usize, 128]) } else { T };
		let d = Delay { time, fb, mix, fx: vec![] };
		let dd = exact_frames(time, rb);
		let echoes = 4usize;
		let n_b = dd * echoes + dd / 2 + 2;
		let (a, b) = (1.0f32, -0.5f32);
		let mut lens: Vec<usize> = rates[..rates.len() - 1].iter().map(|sr| exact_frames(time, *sr) + rng.range(1, 500) as usize).collect();
		let pre = lens.clone();
		let n_a: usize = pre.iter().sum();
		lens.push(n_b);
		let mut signal = noise(rng, n_a, 0.7);
		let mut tail = vec![Frame::ZERO; n_b];
		tail[0] = Frame::new(a, b);
		signal.extend(tail);
		let segs = hist_segs(rng, &rates, &lens, t, on_track);
		let desc = format!(
			"{:?}, {}: {}, then an impulse ({a}, {b}) and {} frames of silence at {rb} Hz (delay_time = {} ns, floor(delay_time * {rb}) = {dd} frames)",
			d,
			if on_track { format!("on a sub-track of a real AudioManager (internal buffer {t})") } else { "bare effect".to_string() },
			hist_text(&rates, &pre, "noise"),
			n_b - 1,
			time.as_nanos()
		);
		let Some(out) = run_either(s, cx, &d, t, on_track, &segs, &signal, &desc) else { continue };
		s.eval_only(if on_track { "mon_delay_echoes_after_rate_history_track" } else { "mon_delay_echoes_after_rate_history" });
		let g = amp64(fb);
		let (ws, ds) = mixw(mix);
		for j in 0..n_b {
			let (wl, wr) = if j > 0 && j % dd == 0 {
				let k = (j / dd) as i32;
				(g.powi(k) * a as f64, g.powi(k) * b as f64)
			} else {
				(0.0, 0.0)
			};
			let (xl, xr) = if j == 0 { (a as f64, b as f64) } else { (0.0, 0.0) };
			let (el, er) = (wl * ws + xl * ds, wr * ws + xr * ds);
			let (ol, or) = (out[n_a + j].left as f64, out[n_a + j].right as f64);
			let ok = if el == 0.0 && er == 0.0 { ol == 0.0 && or == 0.0 } else { close(ol, el, 2e-5, 1e-38) && close(or, er, 2e-5, 1e-38) };
			if !ok {
				let first = out[n_a + 1..].iter().position(|f| f.left != 0.0 || f.right != 0.0).map(|p| p + 1);
				s.fail(desc.clone(), format!("frame {j} after the impulse is ({ol}, {or}), the echo train at the rate in force says ({el}, {er}) [echo k at frame k*{dd} with gain g^k, g = {g}; nothing from before the change: the line is rebuilt on every change]; first non-zero output after the impulse at {:?}", first), None);
				break;
			}
		}
		if i % 5 == 0 {
			let (r1, r2) = (*rng.pick(&[8000u32, 11025]), *rng.pick(&[16000u32, 22050]));
			let dsmall = Delay { time: Duration::from_nanos(2 * 1_000_000_000 / r1 as u64 + 20_000), fb: -6.0, mix: 0.5, fx: vec![] };
			let mut last = vec![Frame::ZERO; 10];
			last[0] = Frame::new(1.0, -0.5);
			let parts = if i % 10 == 0 { vec![(r1, noise(rng, 5, 0.9)), (r2, noise(rng, 4, 0.9)), (r1, last)] } else { vec![(r1, noise(rng, 5, 0.9)), (r2, last)] };
			emit_trace_hist(s, cx, "trace_delay_rate_history", &dsmall, 4, &parts);
		}
	}
	let mut worst = 0.0f64;
	for i in 0..n_reverb {
		// mostly histories that come back (to the initial rate, to an earlier one, to the same one)
		let rates = rate_history(rng, [1, 2, 3, 5, 4, 0][i % 6] + 6 * (i / 6) + 12);
		let rb = *rates.last().unwrap();
		let (fb, damp) = if i % 2 == 0 { (0.9, 0.1) } else { (rng.unit_f64() * 0.95, rng.unit_f64()) };
		let on_track = i % 3 == 2;
		let t = if on_track { 128 } else { T };
		let d = Reverb { fb, damp, width: 1.0, mix: 1.0 };
		let n_b = (rb as usize / 8).max(3000);
		let mut lens: Vec<usize> = rates[..rates.len() - 1].iter().map(|_| 600 + rng.range(0, 2500) as usize).collect();
		let pre = lens.clone();
		let n_a: usize = pre.iter().sum();
		lens.push(n_b);
		let mut signal = noise(rng, n_a, 0.5);
		let mut tail = vec![Frame::ZERO; n_b];
		tail[0] = Frame::new(1.0, 0.5);
		signal.extend(tail.clone());
		let segs = hist_segs(rng, &rates, &lens, t, on_track);
		let desc = format!(
			"{:?}, {}: {}, then an impulse (1, 0.5) and silence at {rb} Hz",
			d,
			if on_track { format!("on a sub-track of a real AudioManager (internal buffer {t})") } else { "bare effect".to_string() },
			hist_text(&rates, &pre, "noise")
		);
		let Some(out) = run_either(s, cx, &d, t, on_track, &segs, &signal, &desc) else { continue };
		s.eval_only(if on_track { "mon_reverb_after_rate_history_track" } else { "mon_reverb_after_rate_history" });
		let out_b = &out[n_a..];
		let fl = out_b.iter().position(|f| f.left != 0.0);
		let fr = out_b.iter().position(|f| f.right != 0.0);
		let (wl, wr) = (fv_len(1116, rb), fv_len(1116 + 23, rb));
		let mut failed = false;
		if fl != Some(wl) || fr != Some(wr) {
			let tuned = rates.iter().find(|x| Some(fv_len(1116, **x)) == fl && Some(fv_len(1139, **x)) == fr);
			s.fail(
				desc.clone(),
				format!(
					"first reflection {:?} / {:?} frames after the impulse, Freeverb's shortest combs (1116 / 1139 samples at 44100 Hz) are floor(1116 * {rb} / 44100) = {} / {} frames at the rate in force{}",
					fl,
					fr,
					wl,
					wr,
					match tuned {
						Some(x) => format!("; {:?} / {:?} are the lengths for {x} Hz, a rate of the past: the network was not rebuilt for {rb} Hz", fl, fr),
						None => String::new(),
					}
				),
				None,
			);
			failed = true;
		}
		let reference = ref_freeverb(rb, fb, damp, 1.0, 1.0, &tail);
		let peak = reference.iter().map(|p| p.0.abs().max(p.1.abs())).fold(1e-9, f64::max);
		for j in 0..n_b {
			let (el, er) = ((out_b[j].left as f64 - reference[j].0).abs(), (out_b[j].right as f64 - reference[j].1).abs());
			if !failed {
				worst = worst.max(el.max(er) / peak);
			}
			if !(el <= 2e-4 * peak && er <= 2e-4 * peak) {
				s.fail(desc.clone(), format!("frame {j} after the last change: output ({}, {}) but the Freeverb network built for {rb} Hz (empty lines) gives ({:.9}, {:.9}) (peak {peak:.4})", out_b[j].left, out_b[j].right, reference[j].0, reference[j].1), None);
				break;
			}
		}
		if i < 3 {
			let (r1, r2) = if i == 1 { (620u32, 441u32) } else { (441, 500) };
			let mut last = vec![Frame::ZERO; 14];
			last[0] = Frame::new(1.0, 0.5);
			let parts = if i == 0 { vec![(r1, noise(rng, 13, 0.8)), (r2, last)] } else { vec![(r1, noise(rng, 6, 0.8)), (r2, noise(rng, 4, 0.8)), (r1, last)] };
			emit_trace_hist(s, cx, "trace_reverb_rate_history", &Reverb { fb: 0.8, damp: 0.2, width: 0.7, mix: 1.0 }, 8, &parts);
		}
	}
	s.notes.push(format!("reverb after histories of device-rate changes: largest deviation from the f64 Freeverb reference built for the rate in force / peak = {worst:.3e} (bound 2e-4)"));
}

/// compressor through a history of device rates: the follower carries over, attack / release coefficients are
/// exp(-dt/tau) with the dt of the rate in force in EVERY segment (piecewise closed form with per-segment speeds);
/// loud through all but the last segment (not settled), then a signal below the threshold
fn sec_compressor_rate_history(s: &mut Session, cx: &Ctx, rng: &mut Rng, n_cfg: usize) {
	let mut worst_db = 0.0f64;
	for i in 0..n_cfg {
		let rates = rate_history(rng, i);
		let rb = *rates.last().unwrap();
		let thr = -(10.0 + rng.unit_f64() * 30.0);
		let ratio = *rng.pick(&[2.0, 4.0, 8.0, 3.0]);
		let att = Duration::from_micros(rng.range(500, 8_000) as u64);
		let rel = Duration::from_micros(rng.range(2_000, 40_000) as u64);
		let mk = if i % 2 == 0 { 0.0 } else { (-6.0 + rng.unit_f64() * 12.0) as f32 };
		let d = Comp { thr, ratio, att, rel, mk, mix: 1.0 };
		let mkg = 10f64.powf(mk as f64 / 20.0);
		let on_track = i % 3 == 2;
		let t = if on_track { *rng.pick(&[16usize, 128]) } else { T };
		let l1 = thr + 6.0 + rng.unit_f64() * (-thr - 6.0).max(1.0);
		let l3 = thr - 1.0 - rng.unit_f64() * 12.0;
		let (a1, a3) = (10f64.powf(l1 / 20.0) as f32, 10f64.powf(l3 / 20.0) as f32);
		let (o1, o3) = ((20.0 * (a1 as f64).log10() - thr).max(0.0), (20.0 * (a3 as f64).log10() - thr).max(0.0));
		// about one attack time per loud segment: the follower is still moving at every change
		let mut lens: Vec<usize> = rates[..rates.len() - 1].iter().map(|sr| ((att.as_secs_f64() * (0.6 + rng.unit_f64()) * *sr as f64) as usize).clamp(32, 20_000)).collect();
		let pre = lens.clone();
		let n_a: usize = pre.iter().sum();
		let n_b = ((rel.as_secs_f64() * 3.0 * rb as f64) as usize).clamp(64, 20_000);
		lens.push(n_b);
		let mut signal = vec![];
		for j in 0..n_a {
			signal.push(Frame::new(if j % 2 == 0 { a1 } else { -a1 }, a1));
		}
		for j in 0..n_b {
			signal.push(Frame::new(if j % 3 == 0 { -a3 } else { a3 }, a3));
		}
		// closed form, segment by segment, with the coefficients of the rate in force
		let mut env = vec![];
		let mut e0 = 0.0f64;
		for (j, (sr, n)) in rates.iter().zip(lens.iter()).enumerate() {
			let dt = 1.0 / *sr as f64;
			let (s_att, s_rel) = ((-dt / att.as_secs_f64()).exp(), (-dt / rel.as_secs_f64()).exp());
			let o = if j + 1 == rates.len() { o3 } else { o1 };
			let sp = if o < e0 { s_rel } else { s_att };
			let start = e0;
			for m in 1..=*n {
				e0 = o + sp.powf(m as f64) * (start - o);
				env.push(e0);
			}
		}
		let segs = hist_segs(rng, &rates, &lens, t, on_track);
		let desc = format!(
			"{:?}, {}: {} and {n_b} frames at {:.2} dB (below the threshold) at {rb} Hz",
			d,
			if on_track { format!("on a sub-track of a real AudioManager (internal buffer {t})") } else { "bare effect".to_string() },
			hist_text(&rates, &pre, &format!("a {:.2} dB signal (above the threshold)", 20.0 * (a1 as f64).log10())),
			20.0 * (a3 as f64).log10()
		);
		let Some(out) = run_either(s, cx, &d, t, on_track, &segs, &signal, &desc) else { continue };
		s.eval_only(if on_track { "mon_compressor_rate_history_track" } else { "mon_compressor_rate_history" });
		let slope = 1.0 / ratio - 1.0;
		for j in 0..signal.len() {
			let want_db = env[j] * slope;
			let got_db = 20.0 * ((out[j].left as f64 / signal[j].left as f64) / mkg).abs().log10();
			let err = (got_db - want_db).abs();
			worst_db = worst_db.max(err);
			if !(err <= 0.02 + 2e-3 * want_db.abs()) {
				let mut acc = 0usize;
				let mut seg = 0usize;
				for (k, n) in lens.iter().enumerate() {
					if j < acc + n {
						seg = k;
						break;
					}
					acc += n;
				}
				s.fail(
					desc.clone(),
					format!(
						"frame {j} (frame {} of segment {} at {} Hz): gain change {got_db:.5} dB, the follower with attack / release coefficients exp(-dt/{:?}) / exp(-dt/{:?}) for the dt of EVERY segment's rate gives {want_db:.5} dB",
						j - acc,
						seg + 1,
						rates[seg],
						att,
						rel
					),
					None,
				);
				break;
			}
		}
		if i < 6 {
			let parts: Vec<(u32, Vec<Frame>)> = rates.iter().enumerate().map(|(j, sr)| (*sr, if j + 1 == rates.len() { noise(rng, 2, a3) } else { noise(rng, 2, 1.0) })).collect();
			let dsmall = Comp { thr, ratio, att: Duration::from_micros(300), rel: Duration::from_micros(900), mk: 0.0, mix: 1.0 };
			emit_trace_hist(s, cx, "trace_compressor_rate_history", &dsmall, 2, &parts);
		}
	}
	s.notes.push(format!("compressor through histories of device rates: largest |measured - closed form| gain change = {worst_db:.3e} dB (bound 0.02 dB + 0.2 %)"));
}

pub fn run(args: &Args) {
	let mut rng = Rng::new(args.seed ^ 0xC14);
	let mul = args.budget_mul as usize;
	let big = if args.thorough { 8 } else { 1 } * mul;
	let mut s = Session::new(
		"C14",
		&args.out,
		"From Coq Require Import ZArith List. Import ListNotations. Open Scope Z_scope.\nFrom KV Require Import Base.Corr C13.Run C14.Run.",
		"C14.Run.run",
		6,
		"one evaluation = one built-in effect built by its public builder at one sample rate (or through a history: device-rate change on the live effect, gaps of exact zeros; bare or on a sub-track of a real AudioManager) and parameter setting, driven with a probe signal (impulse, sine pair, piecewise-constant level, noise) and compared with the textbook specification of its transfer behaviour; model cases = specification evaluated in binary32 by coqc (bit-exact) or C13 model traces (also across on_change_sample_rate); distinct = distinct (effect, parameters, rate(s), input)",
	);
	let cx = Ctx { info: MockInfoBuilder::new().build() };
	// directed scenes first, the same on every run; the seeded region around them has a PRNG of its own (derived from
	// args.seed) so that the streams of the older sections stay what they were
	sec_delay_fx_handles_fixed(&mut s, &cx);
	let mut rng_h = Rng::new(args.seed ^ 0xC14_F0B);
	sec_delay_fx_handles(&mut s, &cx, &mut rng_h, 60 * big);
	sec_volume(&mut s, &cx, &mut rng, 80 * big);
	sec_panning(&mut s, &cx, &mut rng, 80 * big);
	sec_distortion(&mut s, &cx, &mut rng, 100 * big);
	sec_delay(&mut s, &cx, &mut rng, 60 * big, 300 * big);
	sec_delay_fx(&mut s, &cx, &mut rng, 60 * big);
	sec_traces(&mut s, &cx, &mut rng, 10 * big);
	sec_filter_response(&mut s, &cx, &mut rng, 400 * big, 100 * big);
	sec_eq_response(&mut s, &cx, &mut rng, 300 * big);
	sec_low_cutoff_witness(&mut s, &cx);
	sec_reverb(&mut s, &cx, &mut rng, 20 * big, 40 * big, 12 * big);
	sec_compressor(&mut s, &cx, &mut rng, 150 * big);
	sec_compressor_gaps(&mut s, &cx, &mut rng, 48 * big);
	sec_rate_change_response(&mut s, &cx, &mut rng, 72 * big, 48 * big);
	sec_rate_change_lines(&mut s, &cx, &mut rng, 48 * big, 12 * big);
	sec_compressor_rate_history(&mut s, &cx, &mut rng, 36 * big);
	s.finish();
}
