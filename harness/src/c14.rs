//! C14 — each effect realises its documented transfer behaviour.
//! Drives the REAL effects (public builders, `Effect::init` / `Effect::process`) and
//!  (1) evaluates the property itself on what they did (monitors, `s.fail`): decibel / equal-power laws,
//!      clip curves, echo positions and gains, measured frequency responses against the textbook
//!      transfer functions (analog prototype + bilinear transform, RBJ shelves / bell), an independent
//!      Freeverb reference, compressor convergence curves against the closed form;
//!  (2) emits cases for coqc: the SPECIFICATIONS evaluated in Flocq binary32 (volume, panning, clip
//!      curves, closed-form echo train, Freeverb written with delay-line histories) must agree bit for
//!      bit with the implementation, and sample traces of every effect must agree with the C13 effect
//!      models the C14 theorems are about.
use crate::util::*;
use kira::effect::compressor::CompressorBuilder;
use kira::effect::delay::DelayBuilder;
use kira::effect::distortion::{DistortionBuilder, DistortionKind};
use kira::effect::eq_filter::{EqFilterBuilder, EqFilterKind};
use kira::effect::filter::{FilterBuilder, FilterMode};
use kira::effect::panning_control::PanningControlBuilder;
use kira::effect::reverb::ReverbBuilder;
use kira::effect::volume_control::VolumeControlBuilder;
use kira::effect::{Effect, EffectBuilder};
use kira::info::{Info, MockInfoBuilder};
use kira::{Frame, Panning, Value};
use std::collections::BTreeSet;
use std::time::Duration;

// ------------------------------------------------------------------ effect descriptions
// (small helpers copied from c13.rs: builder parameters, Gallina term of C13.Run.edesc, libm table)

#[derive(Clone, Debug)]
enum Desc {
	Vol(f32),
	Pan(f32),
	Dist { hard: bool, db: f32, mix: f32 },
	Filter { mode: u8, cutoff: f64, res: f64, mix: f32 },
	Eq { kind: u8, freq: f64, gain: f32, q: f64 },
	Comp { thr: f64, ratio: f64, att: Duration, rel: Duration, mk: f32, mix: f32 },
	Delay { time: Duration, fb: f32, mix: f32, fx: Vec<Desc> },
	Reverb { fb: f64, damp: f64, width: f64, mix: f32 },
}
use Desc::*;

fn eff32(a: f32) -> f32 {
	a + (a - a) * 1.0f32
}
fn eff64(a: f64) -> f64 {
	a + (a - a) * 1.0f64
}

const T_TAN: u8 = 0;
const T_POW10: u8 = 1;
const T_EXP: u8 = 2;
const T_POWF10: u8 = 3;
const T_LOG10F: u8 = 4;
type Tab = BTreeSet<(u8, i128, i128)>;

struct Boxed(Desc);
impl EffectBuilder for Boxed {
	type Handle = ();
	fn build(self) -> (Box<dyn Effect>, ()) {
		(self.0.build(), ())
	}
}

impl Desc {
	fn build(&self) -> Box<dyn Effect> {
		match self {
			Vol(db) => VolumeControlBuilder::new(*db).build().0,
			Pan(p) => PanningControlBuilder(Value::Fixed(Panning(*p))).build().0,
			Dist { hard, db, mix } => DistortionBuilder::new()
				.kind(if *hard { DistortionKind::HardClip } else { DistortionKind::SoftClip })
				.drive(*db)
				.mix(*mix)
				.build()
				.0,
			Filter { mode, cutoff, res, mix } => FilterBuilder::new()
				.mode(match mode {
					0 => FilterMode::LowPass,
					1 => FilterMode::BandPass,
					2 => FilterMode::HighPass,
					_ => FilterMode::Notch,
				})
				.cutoff(*cutoff)
				.resonance(*res)
				.mix(*mix)
				.build()
				.0,
			Eq { kind, freq, gain, q } => EqFilterBuilder::new(
				match kind {
					0 => EqFilterKind::Bell,
					1 => EqFilterKind::LowShelf,
					_ => EqFilterKind::HighShelf,
				},
				*freq,
				*gain,
				*q,
			)
			.build()
			.0,
			Comp { thr, ratio, att, rel, mk, mix } => CompressorBuilder::new()
				.threshold(*thr)
				.ratio(*ratio)
				.attack_duration(*att)
				.release_duration(*rel)
				.makeup_gain(*mk)
				.mix(*mix)
				.build()
				.0,
			Delay { time, fb, mix, fx } => {
				let mut b = DelayBuilder::new().delay_time(*time).feedback(*fb).mix(*mix);
				for d in fx {
					b = b.with_feedback_effect(Boxed(d.clone()));
				}
				b.build().0
			}
			Reverb { fb, damp, width, mix } => ReverbBuilder::new().feedback(*fb).damping(*damp).stereo_width(*width).mix(*mix).build().0,
		}
	}
	/// Gallina term of type `C13.Run.edesc`
	fn term(&self) -> String {
		match self {
			Vol(db) => format!("(DVol {})", f32_bits_z(*db)),
			Pan(p) => format!("(DPan {})", f32_bits_z(*p)),
			Dist { hard, db, mix } => format!("(DDist {} {} {})", if *hard { 0 } else { 1 }, f32_bits_z(*db), f32_bits_z(*mix)),
			Filter { mode, cutoff, res, mix } => format!("(DFilter {} {} {} {})", mode, f64_bits_z(*cutoff), f64_bits_z(*res), f32_bits_z(*mix)),
			Eq { kind, freq, gain, q } => format!("(DEq {} {} {} {})", kind, f64_bits_z(*freq), f32_bits_z(*gain), f64_bits_z(*q)),
			Comp { thr, ratio, att, rel, mk, mix } => format!(
				"(DComp {} {} {} {} {} {})",
				f64_bits_z(*thr),
				f64_bits_z(*ratio),
				f64_bits_z(att.as_secs_f64()),
				f64_bits_z(rel.as_secs_f64()),
				f32_bits_z(*mk),
				f32_bits_z(*mix)
			),
			Delay { time, fb, mix, fx } => format!(
				"(DDelay {} {} {} [{}])",
				time.as_nanos(),
				f32_bits_z(*fb),
				f32_bits_z(*mix),
				fx.iter().map(|d| d.term()).collect::<Vec<_>>().join("; ")
			),
			Reverb { fb, damp, width, mix } => format!("(DReverb {} {} {} {})", f64_bits_z(*fb), f64_bits_z(*damp), f64_bits_z(*width), f32_bits_z(*mix)),
		}
	}
	/// libm results that depend on the parameters only (same std calls as the implementation)
	fn oracle(&self, sr: u32, tab: &mut Tab) {
		let dt = 1.0 / sr as f64;
		let powf10 = |tab: &mut Tab, db: f32| {
			let arg = eff32(db) / 20.0;
			tab.insert((T_POWF10, obs32(arg), obs32(10.0f32.powf(arg))));
		};
		match self {
			Vol(db) => powf10(tab, *db),
			Pan(_) | Reverb { .. } => {}
			Dist { db, .. } => powf10(tab, *db),
			Filter { cutoff, .. } => {
				let sample_rate = 1.0 / dt;
				let c = eff64(*cutoff) / sample_rate;
				let c = if c < 0.0001 { 0.0001 } else if c > 0.5 { 0.5 } else { c };
				let arg = std::f64::consts::PI * c;
				tab.insert((T_TAN, obs64(arg), obs64(arg.tan())));
			}
			Eq { freq, gain, .. } => {
				let a = eff32(*gain) as f64 / 40.0;
				tab.insert((T_POW10, obs64(a), obs64(10.0f64.powf(a))));
				let c = eff64(*freq) * dt;
				let c = if c < 0.0001 { 0.0001 } else if c > 0.5 { 0.5 } else { c };
				let arg = std::f64::consts::PI * c;
				tab.insert((T_TAN, obs64(arg), obs64(arg.tan())));
			}
			Comp { att, rel, mk, .. } => {
				for d in [att, rel] {
					let arg = -1.0 / (d.as_secs_f64() / dt);
					tab.insert((T_EXP, obs64(arg), obs64(arg.exp())));
				}
				powf10(tab, *mk);
			}
			Delay { fb, fx, .. } => {
				powf10(tab, *fb);
				for d in fx {
					d.oracle(sr, tab);
				}
			}
		}
	}
}

/// the libm calls of the compressor that depend on the signal: a mirror of compressor.rs
fn comp_oracle(d: &Desc, sr: u32, input: &[Frame], tab: &mut Tab) {
	if let Comp { thr, ratio, att, rel, .. } = d {
		let threshold = *thr as f32;
		let ratio = *ratio as f32;
		let mut env = [0.0f32; 2];
		let dt = 1.0 / sr as f64;
		for f in input.iter() {
			let chans = [f.left, f.right];
			for i in 0..2 {
				let a = chans[i].abs();
				let l = a.log10();
				tab.insert((T_LOG10F, obs32(a), obs32(l)));
				let input_db = 20.0 * l;
				let over = (input_db - threshold).max(0.0);
				let duration = if env[i] > over { *rel } else { *att };
				let speed = (-1.0 / (duration.as_secs_f64() / dt)).exp();
				env[i] = over + speed as f32 * (env[i] - over);
				let gr = env[i] * ((1.0 / ratio) - 1.0);
				let arg = gr / 20.0;
				tab.insert((T_POWF10, obs32(arg), obs32(10.0f32.powf(arg))));
			}
		}
	}
}

struct Ctx {
	info: Info<'static>,
}

/// internal buffer size given to `init`; every `process` call gets at most this many frames
const T: usize = 256;

/// build, init, process the input in slices of at most T frames
fn run_effect(cx: &Ctx, d: &Desc, sr: u32, input: &[Frame]) -> Outcome<Vec<Frame>> {
	catch(|| {
		let mut e = d.build();
		e.init(sr, T);
		let dt = 1.0 / sr as f64;
		let mut buf = input.to_vec();
		for chunk in buf.chunks_mut(T) {
			e.on_start_processing();
			e.process(chunk, dt, &cx.info);
		}
		buf
	})
}
/// same, panics turned into a monitor failure
fn run_ok(s: &mut Session, cx: &Ctx, d: &Desc, sr: u32, input: &[Frame]) -> Option<Vec<Frame>> {
	match run_effect(cx, d, sr, input) {
		Outcome::Ok(v) => Some(v),
		_ => {
			s.fail(format!("{:?} @ {} Hz", d, sr), format!("process panicked: {}", last_panic()), None);
			None
		}
	}
}

fn canon32(x: f32) -> i128 {
	if x == 0.0 {
		0
	} else {
		obs32(x)
	}
}
fn frames_canon(v: &[Frame]) -> Vec<i128> {
	let mut o = Vec::with_capacity(v.len() * 2);
	for f in v {
		o.push(canon32(f.left));
		o.push(canon32(f.right));
	}
	o
}
fn frames_term(v: &[Frame]) -> String {
	format!("[{}]", v.iter().map(|f| format!("({}, {})", f32_bits_z(f.left), f32_bits_z(f.right))).collect::<Vec<_>>().join("; "))
}
fn hash(s: &str) -> u64 {
	let mut h: u64 = 0xcbf29ce484222325;
	for b in s.bytes() {
		h ^= b as u64;
		h = h.wrapping_mul(0x100000001b3);
	}
	h
}
fn key_of(term: &str) -> Option<String> {
	Some(format!("{:016x}", hash(term)))
}

const RATES: [u32; 9] = [8000, 11025, 16000, 22050, 32000, 44100, 48000, 96000, 192000];
fn gen_sr(r: &mut Rng) -> u32 {
	if r.chance(3, 4) {
		*r.pick(&RATES)
	} else {
		r.range(8000, 192000) as u32
	}
}
fn unit32(r: &mut Rng) -> f32 {
	(r.unit_f64() * 2.0 - 1.0) as f32
}
fn noise(r: &mut Rng, n: usize, amp: f32) -> Vec<Frame> {
	(0..n).map(|_| Frame::new(unit32(r) * amp, unit32(r) * amp)).collect()
}
/// `Decibels::as_amplitude` in f64 (the documented law)
fn amp64(db: f32) -> f64 {
	if db <= -60.0 {
		0.0
	} else {
		10f64.powf(db as f64 / 20.0)
	}
}
fn powf_tab(db: f32) -> String {
	let arg = eff32(db) / 20.0;
	format!("[({}, {})]", f32_bits_z(arg), f32_bits_z(10.0f32.powf(arg)))
}
fn close(a: f64, b: f64, rel: f64, abs: f64) -> bool {
	(a - b).abs() <= rel * b.abs() + abs
}
fn mixw(mix: f32) -> (f64, f64) {
	let m = (mix as f64).clamp(0.0, 1.0);
	(m.sqrt(), (1.0 - m).sqrt())
}

// ------------------------------------------------------------------ volume / panning / distortion

fn sec_volume(s: &mut Session, cx: &Ctx, rng: &mut Rng, n: usize) {
	let specials = [0.0f32, -0.0, -60.0, -59.999996, -60.000004, 6.0, -6.0, 20.0, -20.0, -100.0, 24.0];
	for i in 0..n {
		let db = if i < specials.len() { specials[i] } else { (-70.0 + rng.unit_f64() * 94.0) as f32 };
		let sr = gen_sr(rng);
		let mut input = noise(rng, 6, 1.0);
		input[0] = Frame::new(1.0, -1.0);
		input[1] = Frame::new(0.5, 0.0);
		let d = Vol(db);
		let Some(out) = run_ok(s, cx, &d, sr, &input) else { continue };
		let term = format!("CVol {} {} {}", f32_bits_z(db), powf_tab(db), frames_term(&input));
		let k = key_of(&term);
		s.case("volume_law_b32", term, &frames_canon(&out), k);
		// monitor: the decibel law itself
		let g = amp64(db);
		for (x, y) in input.iter().zip(out.iter()) {
			for (xi, yi) in [(x.left, y.left), (x.right, y.right)] {
				let want = xi as f64 * g;
				let ok = if db == 0.0 { yi == xi } else if db <= -60.0 { yi == 0.0 } else { close(yi as f64, want, 1e-6, 1e-30) };
				if !ok {
					s.fail(format!("{:?} @ {} Hz", d, sr), format!("volume control: input {xi} output {yi}, decibel law gives {want}"), None);
				}
			}
		}
	}
}

fn sec_panning(s: &mut Session, cx: &Ctx, rng: &mut Rng, n: usize) {
	let specials = [0.0f32, -0.0, 1.0, -1.0, 0.5, -0.5, 1.5, -3.0, 0.25, 1e-3];
	for i in 0..n {
		let p = if i < specials.len() { specials[i] } else { (rng.unit_f64() * 2.4 - 1.2) as f32 };
		let sr = gen_sr(rng);
		let mut input = noise(rng, 6, 1.0);
		input[0] = Frame::new(1.0, 1.0);
		input[1] = Frame::new(-0.5, 0.25);
		let d = Pan(p);
		let Some(out) = run_ok(s, cx, &d, sr, &input) else { continue };
		let term = format!("CPan {} {}", f32_bits_z(p), frames_term(&input));
		let k = key_of(&term);
		s.case("pan_law_b32", term, &frames_canon(&out), k);
		// monitor: equal-power law
		let pc = (p as f64).clamp(-1.0, 1.0);
		let (gl, gr) = ((1.0 - pc).sqrt(), (1.0 + pc).sqrt());
		for (x, y) in input.iter().zip(out.iter()) {
			if !(close(y.left as f64, x.left as f64 * gl, 1e-6, 1e-30) && close(y.right as f64, x.right as f64 * gr, 1e-6, 1e-30)) {
				s.fail(format!("{:?} @ {} Hz", d, sr), format!("panning: in {:?} out {:?}, equal-power gains ({gl}, {gr})", x, y), None);
			}
		}
		let (l, r) = (out[0].left as f64, out[0].right as f64);
		if !close(l * l + r * r, 2.0, 1e-6, 0.0) {
			s.fail(format!("{:?} @ {} Hz", d, sr), format!("panning is not equal-power: L^2 + R^2 = {} for a unit frame", l * l + r * r), None);
		}
		if p == 0.0 && !(out[1].left == input[1].left && out[1].right == input[1].right) {
			s.fail(format!("{:?} @ {} Hz", d, sr), "centre panning changes the frame".into(), None);
		}
	}
}

fn sec_distortion(s: &mut Session, cx: &Ctx, rng: &mut Rng, n: usize) {
	let specials = [0.0f32, 6.0, -6.0, 20.0, 40.0, -40.0, -59.0, -60.0, -80.0];
	for i in 0..n {
		let hard = i % 2 == 0;
		let db = if i / 2 < specials.len() { specials[i / 2] } else { (-50.0 + rng.unit_f64() * 90.0) as f32 };
		let sr = gen_sr(rng);
		let dr = amp64(db);
		let mut input: Vec<Frame> = (0..10)
			.map(|j| {
				let scale = match j % 5 {
					0 => 2.0,
					1 => 1.0,
					2 => 0.01,
					3 => 1e-4,
					_ => if dr > 0.0 { (1.0 / dr) as f32 * 1.5 } else { 1.0 },
				};
				Frame::new(unit32(rng) * scale, unit32(rng) * scale)
			})
			.collect();
		input[0] = Frame::new(1.0, -1.0);
		if dr > 0.0 {
			input[1] = Frame::new((1.0 / dr) as f32, -(2.0 / dr) as f32);
		}
		// --- fully wet: bit-exact against the clip curves in binary32
		let d = Dist { hard, db, mix: 1.0 };
		let Some(out) = run_ok(s, cx, &d, sr, &input) else { continue };
		let term = format!("CDist {} {} {} {}", if hard { 0 } else { 1 }, f32_bits_z(db), powf_tab(db), frames_term(&input));
		let k = key_of(&term);
		s.case(if hard { "hard_clip_curve_b32" } else { "soft_clip_curve_b32" }, term, &frames_canon(&out), k);
		// --- monitors
		let desc = format!("{:?} @ {} Hz", d, sr);
		for (x, y) in input.iter().zip(out.iter()) {
			for (xi, yi) in [(x.left as f64, y.left as f64), (x.right as f64, y.right as f64)] {
				if dr == 0.0 {
					if yi != xi {
						s.fail(desc.clone(), format!("drive <= -60 dB: input {xi} output {yi} (documented: unchanged)"), None);
					}
					continue;
				}
				let v = xi * dr;
				if hard {
					if !((yi * dr).abs() <= 1.0 + 1e-6) {
						s.fail(desc.clone(), format!("hard clip exceeds unit level after drive: x = {xi}, out * d = {}", yi * dr), None);
					}
					let want = v.clamp(-1.0, 1.0) / dr;
					if !close(yi, want, 2e-6, 1e-30) {
						s.fail(desc.clone(), format!("hard clip: x = {xi}, out = {yi}, clamp(x d)/d = {want}"), None);
					}
				} else {
					let want = xi / (1.0 + v.abs());
					if !close(yi, want, 2e-6, 1e-30) {
						s.fail(desc.clone(), format!("soft clip: x = {xi}, out = {yi}, x/(1+|x d|) = {want}"), None);
					}
					if !((yi - xi).abs() <= dr * xi * xi * (1.0 + 1e-5) + 4e-7 * xi.abs()) {
						s.fail(desc.clone(), format!("soft clip not transparent: |out - x| = {} > d x^2 = {}", (yi - xi).abs(), dr * xi * xi), None);
					}
					if !((yi * dr).abs() < 1.0 + 1e-6) {
						s.fail(desc.clone(), format!("soft clip reaches unit level: out * d = {}", yi * dr), None);
					}
				}
			}
		}
		// --- partly wet: the equal-power blend of the curve and the dry signal
		let mix = rng.unit_f64() as f32;
		let d2 = Dist { hard, db, mix };
		if let Some(out2) = run_ok(s, cx, &d2, sr, &input) {
			s.eval_only("mon_distortion_mix");
			let (ws, ds) = mixw(mix);
			for (j, (x, y)) in input.iter().zip(out2.iter()).enumerate() {
				let want = out[j].left as f64 * ws + x.left as f64 * ds;
				if !close(y.left as f64, want, 2e-6, 1e-30) {
					s.fail(format!("{:?} @ {} Hz", d2, sr), format!("mix: out {} vs wet*sqrt(m)+dry*sqrt(1-m) = {want}", y.left), None);
				}
			}
		}
	}
}

// ------------------------------------------------------------------ delay: echo train

/// the documented delay length: floor(delay_time * sample_rate) in exact arithmetic, at least one frame
fn exact_frames(time: Duration, sr: u32) -> usize {
	((time.as_nanos() * sr as u128 / 1_000_000_000u128) as usize).max(1)
}

/// impulse response of a plain delay: positions and gains of the echoes
fn check_echoes(s: &mut Session, cx: &Ctx, time: Duration, sr: u32, fb: f32, mix: f32, a: f32, b: f32, echoes: usize, kind: &str) -> Option<Vec<Frame>> {
	let dd = exact_frames(time, sr);
	let n = dd * echoes + dd / 2 + 2;
	let mut input = vec![Frame::ZERO; n];
	input[0] = Frame::new(a, b);
	let d = Delay { time, fb, mix, fx: vec![] };
	let out = run_ok(s, cx, &d, sr, &input)?;
	s.eval_only(kind);
	let g = amp64(fb);
	let (ws, ds) = mixw(mix);
	let desc = format!("{:?} @ {} Hz (delay_time = {} ns, exact floor(delay_time * rate) = {} frames)", d, sr, time.as_nanos(), dd);
	for i in 0..n {
		let (wl, wr) = if i > 0 && i % dd == 0 {
			let k = (i / dd) as i32;
			(g.powi(k) * a as f64, g.powi(k) * b as f64)
		} else {
			(0.0, 0.0)
		};
		let (xl, xr) = if i == 0 { (a as f64, b as f64) } else { (0.0, 0.0) };
		let (el, er) = (wl * ws + xl * ds, wr * ws + xr * ds);
		let (ol, or) = (out[i].left as f64, out[i].right as f64);
		let ok = if el == 0.0 && er == 0.0 { ol == 0.0 && or == 0.0 } else { close(ol, el, 2e-5, 1e-38) && close(or, er, 2e-5, 1e-38) };
		if !ok {
			let first = out.iter().skip(1).position(|f| f.left != 0.0 || f.right != 0.0).map(|p| p + 1);
			s.fail(
				desc.clone(),
				format!("impulse ({a}, {b}) at frame 0: frame {i} is ({ol}, {or}), echo train says ({el}, {er}) [echo k at frame k*{dd} with gain g^k, g = {g}]; first non-zero output after frame 0 at {:?}", first),
				None,
			);
			break;
		}
	}
	Some(out)
}

fn sec_delay(s: &mut Session, cx: &Ctx, rng: &mut Rng, n_cases: usize, n_long: usize) {
	// --- small delays: monitor + closed-form echo train evaluated in binary32 by coqc
	for i in 0..n_cases {
		let sr = gen_sr(rng);
		let dd = if i < 4 { 1 + i as u64 } else { rng.range(1, 12) as u64 };
		let time = Duration::from_nanos((dd * 1_000_000_000 + 250_000_000) / sr as u64 + 1);
		let fb = match i % 5 {
			0 => -6.0,
			1 => 0.0,
			2 => -60.0,
			_ => (-30.0 + rng.unit_f64() * 30.0) as f32,
		};
		let mix = match i % 4 {
			0 => 1.0,
			1 => 0.5,
			_ => rng.unit_f64() as f32,
		};
		let (a, b) = (*rng.pick(&[1.0f32, -1.0, 0.5, 0.7]), unit32(rng));
		let dexact = exact_frames(time, sr);
		if let Some(out) = check_echoes(s, cx, time, sr, fb, mix, a, b, 5, "mon_delay_echoes_small") {
			let nn = out.len();
			let term = format!("CEcho {} {} {} {} {} {} {}", dexact, f32_bits_z(fb), powf_tab(fb), f32_bits_z(mix), f32_bits_z(a), f32_bits_z(b), nn);
			let k = key_of(&term);
			s.case("delay_echo_train_b32", term, &frames_canon(&out), k);
		}
	}
	// --- realistic delay times, every rate: positions are exact multiples of the delay time in frames
	for i in 0..n_long {
		let sr = gen_sr(rng);
		let time = match i % 4 {
			0 => Duration::from_millis(rng.range(1, 250) as u64),
			1 => Duration::from_micros(rng.range(50, 200_000) as u64),
			2 => Duration::from_nanos(rng.range(10_000, 100_000_000) as u64),
			_ => Duration::from_secs_f64(rng.range(1, 2000) as f64 / sr as f64),
		};
		let fb = (-24.0 + rng.unit_f64() * 23.0) as f32;
		let mix = if i % 3 == 0 { 1.0 } else { rng.unit_f64() as f32 };
		check_echoes(s, cx, time, sr, fb, mix, 1.0, -0.5, 4, "mon_delay_echoes");
	}
	// --- regression witnesses of F35 (delay line one frame short of floor(delay_time * rate) when the
	//     product was rounded in f64) and delay times that are whole numbers of frames
	for (time, sr) in [
		(Duration::from_micros(35750), 48000u32),
		(Duration::from_millis(1001), 8000),
		(Duration::from_millis(1003), 8000),
		(Duration::from_micros(125875), 16000),
		(Duration::from_micros(70750), 48000),
		(Duration::from_millis(100), 44100),
		(Duration::from_millis(300), 48000),
		(Duration::from_millis(10), 192000),
		(Duration::from_nanos(1), 48000),
		(Duration::ZERO, 44100),
	] {
		check_echoes(s, cx, time, sr, -6.0, 1.0, 1.0, 0.25, 3, "regression_F35_delay_frames");
	}
}

// ------------------------------------------------------------------ sample traces against the C13 effect models

fn emit_trace(s: &mut Session, cx: &Ctx, kind: &str, d: &Desc, sr: u32, input: &[Frame]) {
	let out = run_effect(cx, d, sr, input);
	let obs = match &out {
		Outcome::Ok(v) => {
			let mut o = vec![0];
			for f in v {
				o.push(obs32(f.left));
				o.push(obs32(f.right));
			}
			o
		}
		Outcome::Panic(c) => vec![1, *c],
		Outcome::Hang => vec![2],
	};
	let mut tab = Tab::new();
	d.oracle(sr, &mut tab);
	comp_oracle(d, sr, input, &mut tab);
	let tabs = format!("[{}]", tab.iter().map(|(t, a, b)| format!("({}, {}, {})", t, z(*a), z(*b))).collect::<Vec<_>>().join("; "));
	let term = format!("CTrace (Case {} {} {} {} [] {})", sr, T, tabs, d.term(), frames_term(input));
	let k = key_of(&term);
	s.case(kind, term, &obs, k);
}

fn sec_traces(s: &mut Session, cx: &Ctx, rng: &mut Rng, per_kind: usize) {
	for i in 0..per_kind {
		let sr = gen_sr(rng);
		let n = 16;
		let mut input = noise(rng, n, 0.9);
		if i % 2 == 0 {
			input = vec![Frame::ZERO; n];
			input[0] = Frame::new(1.0, -0.5);
		}
		let fc = 20.0 * (1000.0f64).powf(rng.unit_f64());
		let fc = fc.min(sr as f64 * 0.45);
		emit_trace(s, cx, "trace_filter", &Filter { mode: (i % 4) as u8, cutoff: fc, res: rng.unit_f64(), mix: 1.0 }, sr, &input);
		emit_trace(s, cx, "trace_eq", &Eq { kind: (i % 3) as u8, freq: fc, gain: (-18.0 + rng.unit_f64() * 36.0) as f32, q: 0.3 + rng.unit_f64() * 4.0 }, sr, &input);
		let lvl = noise(rng, n, 1.0);
		emit_trace(
			s,
			cx,
			"trace_compressor",
			&Comp { thr: -(rng.unit_f64() * 30.0) - 3.0, ratio: *rng.pick(&[2.0, 4.0, 10.0, 1.5]), att: Duration::from_micros(rng.range(100, 20_000) as u64), rel: Duration::from_micros(rng.range(1000, 300_000) as u64), mk: 0.0, mix: 1.0 },
			sr,
			&lvl,
		);
		let dd = rng.range(1, 5) as u64;
		let time = Duration::from_nanos((dd * 1_000_000_000 + 250_000_000) / sr as u64 + 1);
		emit_trace(s, cx, "trace_delay", &Delay { time, fb: -6.0, mix: 0.5, fx: vec![] }, sr, &input);
		emit_trace(
			s,
			cx,
			"trace_delay_fx",
			&Delay { time, fb: -3.0, mix: 1.0, fx: vec![Filter { mode: 0, cutoff: fc, res: 0.2, mix: 1.0 }, Vol(-2.0)] },
			sr,
			&input,
		);
		let mut imp = vec![Frame::ZERO; 40];
		imp[0] = Frame::new(1.0, 0.5);
		emit_trace(s, cx, "trace_reverb", &Reverb { fb: rng.unit_f64() * 0.95, damp: rng.unit_f64(), width: rng.unit_f64(), mix: 1.0 }, *rng.pick(&[441u32, 500, 700]), &imp);
	}
}

pub fn run(args: &Args) {
	let mut rng = Rng::new(args.seed ^ 0xC14);
	let mul = args.budget_mul as usize;
	let big = if args.thorough { 8 } else { 1 } * mul;
	let mut s = Session::new(
		"C14",
		&args.out,
		"From Coq Require Import ZArith List. Import ListNotations. Open Scope Z_scope.\nFrom KV Require Import Base.Corr C13.Run C14.Run.",
		"C14.Run.run",
		6,
		"one evaluation = one built-in effect built by its public builder at one sample rate and parameter setting, driven with a probe signal (impulse, sine pair, constant level, noise) and compared with the textbook specification of its transfer behaviour; model cases = specification evaluated in binary32 by coqc (bit-exact) or C13 model traces; distinct = distinct (effect, parameters, rate, input)",
	);
	let cx = Ctx { info: MockInfoBuilder::new().build() };
	sec_volume(&mut s, &cx, &mut rng, 40 * big);
	sec_panning(&mut s, &cx, &mut rng, 40 * big);
	sec_distortion(&mut s, &cx, &mut rng, 60 * big);
	sec_delay(&mut s, &cx, &mut rng, 30 * big, 60 * big);
	sec_traces(&mut s, &cx, &mut rng, 6 * big);
	s.finish();
}
