//! C01 — the audio callback is real-time safe and its output well-formed.
//!
//! A *scene* is pure data (`Scene`): manager settings, main-track effects and a list of operations
//! (play static / streaming / probe sounds, add sub / send / spatial tracks with every built-in effect,
//! clocks, LFOs, tweeners, probe modulators, listeners, commands on random handles incl. effect
//! handles, handle drops, device sample-rate changes, device callbacks).  It is executed on the REAL kira code through the public API;
//! the `Renderer` lives on a dedicated audio thread, so "on the audio thread" is literal:
//!   * heap allocations / frees are counted on that thread while a callback runs,
//!   * probe sounds / effects / modulators record the thread on which their `Drop` ran,
//!   * a probe effect at the end of the main track records `on_start_processing` calls, the chunk
//!     lengths and the mixer bus, which are compared with the Coq model (`C01/Run.v`).
//! Slot re-use (rings between the two threads wrapping, arena slots handed out again) is driven on purpose:
//! `Gen::recycle` scenes, a corpus scene with the default capacities, and single-storage histories
//! (`res_history_cases`) that are also sent to C08's hand-off model through `CRes` of C01/Run.v.
//! Monitors per callback: outcome (ok / panic / hang by watchdog), heap traffic, `Drop` thread,
//! every sample written, finite, in [-1, 1], extra channels silent, chunk sequence.
//! Since the output stage replaces NaN by silence (`finite_clamped` in backend/renderer.rs) a
//! non-finite sample in the device buffer is a plain violation whatever the (finite) arguments:
//! the former NaN findings (F5, F29, F33, F36 NaN half, F37, F38, F39) are no longer classes of
//! this property; their witnesses are kept as regression scenes that must render finite output.
//! The classes left are the ones whose observable is a callback that does not return (F8, F34,
//! F36 through a playback rate).  F7 (the clock's tick loop) is repaired as well: `Clock::update`
//! splits its timer with `floor` in constant time; clock speeds are drawn without restriction and the
//! F7 witnesses are regression scenes (a callback that does not return there is a plain violation).
//! So is F40 (`Transport::seek_to` wrapped a target into the loop region one loop length per
//! iteration): the wrap is a remainder now; seek targets are drawn without restriction, the
//! witnesses (`seek_to(1e300)`, `seek_by(+-1e300)` on looping static and streaming sounds) are
//! regression scenes, and the static ones are also replayed against C04's sound model (`CSnd`: they
//! must return with the output and position the model predicts), the streaming ones against the
//! transport model (`CSeek`: where the decoder lands).
//!
//! Attribution of a failure to a known finding is COUNTERFACTUAL: the scene must contain the
//! finding's trigger (a predicate on the scene data, see `classes()`), the observed failure must be
//! the listed one, and re-running the scene with exactly that trigger replaced by a benign value
//! must make the failure disappear.  A failure that survives the removal of every listed trigger
//! is reported unattributed (VIOLATION), on the neutralised and minimised scene.
use crate::alloc::counted;
use crate::backend::*;
use crate::util::*;
use kira::backend::Renderer;
use kira::clock::{ClockHandle, ClockSpeed, ClockTime};
use kira::effect::compressor::{CompressorBuilder, CompressorHandle};
use kira::effect::delay::{DelayBuilder, DelayHandle};
use kira::effect::distortion::{DistortionBuilder, DistortionHandle, DistortionKind};
use kira::effect::eq_filter::{EqFilterBuilder, EqFilterHandle, EqFilterKind};
use kira::effect::filter::{FilterBuilder, FilterHandle, FilterMode};
use kira::effect::panning_control::PanningControlBuilder;
use kira::effect::reverb::{ReverbBuilder, ReverbHandle};
use kira::effect::volume_control::VolumeControlBuilder;
use kira::effect::{Effect, EffectBuilder};
use kira::info::Info;
use kira::listener::ListenerHandle;
use kira::modulator::lfo::{LfoBuilder, LfoHandle, Waveform};
use kira::modulator::tweener::{TweenerBuilder, TweenerHandle};
use kira::modulator::{Modulator, ModulatorBuilder, ModulatorId};
use kira::sound::static_sound::{StaticSoundHandle, StaticSoundSettings};
use kira::sound::streaming::{Decoder, StreamingSoundData, StreamingSoundHandle};
use kira::sound::{PlaybackPosition, Region, Sound, SoundData};
use kira::track::{MainTrackBuilder, SendTrackBuilder, SendTrackHandle, SpatialTrackBuilder, SpatialTrackHandle, TrackBuilder, TrackHandle};
use kira::{Capacities, Decibels, Easing, Frame, Mapping, Mix, Panning, PlaybackRate, StartTime, Tween, Value};
use std::collections::BTreeSet;
use std::sync::atomic::{AtomicU32, AtomicUsize, Ordering};
use std::sync::{mpsc, Arc, Mutex};
use std::thread::ThreadId;
use std::time::Duration;

/// classes of known findings (see known_findings.json); each has a trigger predicate and a
/// neutraliser in `classes()`
const HZ_RATE: &str = "playback_rate_loop_diverges";
const HZ_RATE_COST: &str = "playback_rate_cost_unbounded";
const HZ_EASING: &str = "easing_power_negative";
const HZ_RESYNC: &str = "resync_reallocates_delay_lines_in_callback";

// ------------------------------------------------------------------------------------------------
// scene description (pure data)
// ------------------------------------------------------------------------------------------------
#[derive(Clone, Debug, PartialEq)]
enum St {
	Immediate,
	Delayed(Duration),
	/// ClockTime { ticks } of the sel-th clock handle alive (Immediate if there is none)
	Clock { sel: u64, ticks: u64 },
}
#[derive(Clone, Debug, PartialEq)]
struct Tw {
	st: St,
	dur: Duration,
	easing: Easing,
}
#[derive(Clone, Debug, PartialEq)]
enum Fx {
	Filter { mode: FilterMode, cutoff: f64, linked: bool, res: f64, mix: f32 },
	Eq { kind: EqFilterKind, f: f64, gain: f32, q: f64 },
	Delay { time: Duration, fb: f32, mix: f32, fbfx: Option<(f64, f64)> },
	Reverb { fb: f64, damp: f64, width: f64, mix: f32 },
	Compressor { thr: f64, ratio: f64, attack: Duration, release: Duration, makeup: f32, mix: f32 },
	Distortion { kind: DistortionKind, drive: f32, mix: f32 },
	Volume(f32),
	Pan(f32),
	/// pass-through probe effect whose `Drop` records its thread
	Probe,
}
/// frames of a static sound: kind 0 uniform in [-1,1]; 1 ones; 2 alternating +-1; 3 sine; 4 denormal;
/// 5 +-8; 6 +-3e38 alternating; 7 zeros; 8 ramp through zero
#[derive(Clone, Debug, PartialEq)]
struct FramesSpec {
	n: usize,
	kind: u8,
	seed: u64,
}
impl FramesSpec {
	fn expand(&self) -> Vec<Frame> {
		let mut r = Rng::new(self.seed);
		(0..self.n)
			.map(|i| {
				let x = match self.kind {
					0 => (r.unit_f64() * 2.0 - 1.0) as f32,
					1 => 1.0,
					2 => if i % 2 == 0 { 1.0 } else { -1.0 },
					3 => ((i as f32) * 0.1).sin(),
					4 => 1e-40,
					5 => if r.chance(1, 2) { 8.0 } else { -8.0 },
					6 => if i % 2 == 0 { 3e38 } else { -3e38 },
					7 => 0.0,
					_ => (i as f32 - (self.n / 2) as f32) / 16.0,
				};
				Frame::new(x, if r.chance(1, 4) { -x } else { x })
			})
			.collect()
	}
}
#[derive(Clone, Debug, PartialEq)]
struct PlaySpec {
	frames: FramesSpec,
	ssr: u32,
	vol: f32,
	pan: f32,
	rate: f64,
	reverse: bool,
	looped: Option<(f64, f64)>,
	start: Option<usize>,
	fade_in: Option<Tw>,
	start_time: St,
	slice: Option<(usize, usize)>,
	/// None: main track; Some(sel): the sel-th sub track handle alive (main if none)
	on: Option<u64>,
}
#[derive(Clone, Debug, PartialEq)]
struct SubSpec {
	vol: f32,
	cap: usize,
	sub_cap: usize,
	persist: bool,
	fx: Vec<Fx>,
	/// keep the effect handles (commands on them later)
	keep_fx_handles: bool,
	send: Option<f32>,
	parent: Option<u64>,
}
#[derive(Clone, Debug, PartialEq)]
struct CmdSpec {
	sel: u64,
	which: u64,
	tw: Tw,
	db: f32,
	rate: f64,
	pan: f32,
	u: f64,
	/// argument of seek_to / seek_by (seconds)
	seek: f64,
	mixv: f32,
	speed: ClockSpeed,
	freq: f64,
	pos: [f32; 3],
}
#[derive(Clone, Debug, PartialEq)]
enum Op {
	Play(PlaySpec),
	/// streaming sound over an in-memory decoder (its decoder thread runs freely: only drawn with
	/// documented-range values, see `Gen::op`)
	PlayStream { frames: FramesSpec, ssr: u32, packet: usize, vol: f32, pan: f32, rate: f64, looped: Option<(f64, f64)>, on: Option<u64> },
	/// user-defined `Sound` that is finished after `len` frames; its `Drop` records the thread
	PlayProbe { len: u64, on: Option<u64> },
	AddSub(SubSpec),
	AddSend { vol: f32, probe: bool },
	AddClock { speed: ClockSpeed, start: bool },
	AddLfo { wave: u8, f: f64, amp: f64, offset: f64, phase: f64 },
	AddTweener { init: f64 },
	/// user-defined `Modulator` that is finished after `len` updates
	AddProbeMod { len: u64 },
	AddListener { pos: [f32; 3] },
	AddSpatial { pos: [f32; 3], d0: f32, d1: f32, strength: f32, atten: Option<Easing>, frames: FramesSpec, vol: f32 },
	Cmd(CmdSpec),
	DropHandle { sel: u64 },
	Callback { frames: usize, ch: u16 },
	/// the device sample rate changes: `Renderer::on_change_sample_rate` on the audio thread, between two
	/// callbacks (it may allocate: it is not a callback, and is not counted)
	RateChange { sr: u32 },
}
#[derive(Clone, Debug, PartialEq)]
struct Scene {
	sr: u32,
	ibs: usize,
	caps: [usize; 5],
	main_vol: f32,
	main_cap: usize,
	main_fx: Vec<Fx>,
	ops: Vec<Op>,
}

// ------------------------------------------------------------------------------------------------
// probes (ordinary user code: public Effect / Sound / Modulator traits)
// ------------------------------------------------------------------------------------------------
const CHUNK_LOG: usize = 1024;
const BUS_LOG: usize = 64;
struct ProbeLog {
	starts: AtomicUsize,
	nchunks: AtomicUsize,
	chunk_len: Vec<AtomicU32>,
	nbus: AtomicUsize,
	bus: Vec<(AtomicU32, AtomicU32)>,
	drops: Mutex<Vec<(&'static str, ThreadId)>>,
}
impl ProbeLog {
	fn new() -> Arc<Self> {
		Arc::new(ProbeLog {
			starts: AtomicUsize::new(0),
			nchunks: AtomicUsize::new(0),
			chunk_len: (0..CHUNK_LOG).map(|_| AtomicU32::new(0)).collect(),
			nbus: AtomicUsize::new(0),
			bus: (0..BUS_LOG).map(|_| (AtomicU32::new(0), AtomicU32::new(0))).collect(),
			drops: Mutex::new(Vec::with_capacity(256)),
		})
	}
	fn reset(&self) {
		self.starts.store(0, Ordering::SeqCst);
		self.nchunks.store(0, Ordering::SeqCst);
		self.nbus.store(0, Ordering::SeqCst);
	}
	fn dropped(&self, what: &'static str) {
		if let Ok(mut d) = self.drops.lock() {
			d.push((what, std::thread::current().id()));
		}
	}
}
/// last effect of the main track: records on_start_processing calls, chunk lengths and the bus
struct MainProbe(Arc<ProbeLog>);
impl Effect for MainProbe {
	fn on_start_processing(&mut self) {
		self.0.starts.fetch_add(1, Ordering::SeqCst);
	}
	fn process(&mut self, input: &mut [Frame], _dt: f64, _info: &Info) {
		let k = self.0.nchunks.fetch_add(1, Ordering::SeqCst);
		if k < CHUNK_LOG {
			self.0.chunk_len[k].store(input.len() as u32, Ordering::SeqCst);
		}
		for f in input.iter() {
			let j = self.0.nbus.fetch_add(1, Ordering::SeqCst);
			if j < BUS_LOG {
				self.0.bus[j].0.store(f.left.to_bits(), Ordering::SeqCst);
				self.0.bus[j].1.store(f.right.to_bits(), Ordering::SeqCst);
			}
		}
	}
}
struct FxProbe(Arc<ProbeLog>);
impl Effect for FxProbe {
	fn process(&mut self, _input: &mut [Frame], _dt: f64, _info: &Info) {}
}
impl Drop for FxProbe {
	fn drop(&mut self) {
		self.0.dropped("probe effect");
	}
}
struct SndProbe {
	log: Arc<ProbeLog>,
	left: u64,
	/// heap data owned by the sound, so that dropping it is visible to the allocator as well
	_payload: Vec<u8>,
}
impl Sound for SndProbe {
	fn process(&mut self, out: &mut [Frame], _dt: f64, _info: &Info) {
		for f in out.iter_mut() {
			if self.left > 0 {
				self.left -= 1;
				*f = Frame::new(0.25, -0.125);
			}
		}
	}
	fn finished(&self) -> bool {
		self.left == 0
	}
}
impl Drop for SndProbe {
	fn drop(&mut self) {
		self.log.dropped("probe sound");
	}
}
struct SndProbeData(SndProbe);
impl SoundData for SndProbeData {
	type Error = ();
	type Handle = ();
	fn into_sound(self) -> Result<(Box<dyn Sound>, ()), ()> {
		Ok((Box::new(self.0), ()))
	}
}
/// in-memory decoder for streaming sounds; `Drop` records the thread (it must be the decoder thread or the caller's)
struct MemDecoder {
	log: Arc<ProbeLog>,
	frames: Vec<Frame>,
	pos: usize,
	sr: u32,
	packet: usize,
}
impl Decoder for MemDecoder {
	type Error = ();
	fn sample_rate(&self) -> u32 {
		self.sr
	}
	fn num_frames(&self) -> usize {
		self.frames.len()
	}
	fn decode(&mut self) -> Result<Vec<Frame>, ()> {
		let end = (self.pos + self.packet.max(1)).min(self.frames.len());
		let v = self.frames[self.pos..end].to_vec();
		self.pos = end;
		Ok(v)
	}
	fn seek(&mut self, index: usize) -> Result<usize, ()> {
		self.pos = index.min(self.frames.len());
		Ok(self.pos)
	}
}
impl Drop for MemDecoder {
	fn drop(&mut self) {
		self.log.dropped("stream decoder");
	}
}
struct ModProbe {
	log: Arc<ProbeLog>,
	left: u64,
}
impl Modulator for ModProbe {
	fn update(&mut self, _dt: f64, _info: &Info) {
		self.left = self.left.saturating_sub(1);
	}
	fn value(&self) -> f64 {
		0.5
	}
	fn finished(&self) -> bool {
		self.left == 0
	}
}
impl Drop for ModProbe {
	fn drop(&mut self) {
		self.log.dropped("probe modulator");
	}
}
struct ModProbeBuilder(Arc<ProbeLog>, u64);
impl ModulatorBuilder for ModProbeBuilder {
	type Handle = ModulatorId;
	fn build(self, id: ModulatorId) -> (Box<dyn Modulator>, ModulatorId) {
		(Box::new(ModProbe { log: self.0, left: self.1 }), id)
	}
}

// ------------------------------------------------------------------------------------------------
// execution on the real code
// ------------------------------------------------------------------------------------------------
enum H {
	Sound(StaticSoundHandle),
	Stream(StreamingSoundHandle<()>),
	Track(TrackHandle),
	Spatial(SpatialTrackHandle),
	Send(SendTrackHandle),
	Clock(ClockHandle),
	Lfo(LfoHandle),
	Tweener(TweenerHandle),
	Listener(ListenerHandle),
	FxFilter(FilterHandle),
	FxEq(EqFilterHandle),
	FxDelay(DelayHandle),
	FxReverb(ReverbHandle),
	FxComp(CompressorHandle),
	FxDist(DistortionHandle),
}

fn clock_ids(hs: &[H]) -> Vec<kira::clock::ClockId> {
	hs.iter().filter_map(|h| if let H::Clock(c) = h { Some(c.id()) } else { None }).collect()
}
fn start_time(st: &St, hs: &[H]) -> StartTime {
	match st {
		St::Immediate => StartTime::Immediate,
		St::Delayed(d) => StartTime::Delayed(*d),
		St::Clock { sel, ticks } => {
			let ids = clock_ids(hs);
			if ids.is_empty() {
				StartTime::Immediate
			} else {
				StartTime::ClockTime(ClockTime { clock: ids[(*sel % ids.len() as u64) as usize], ticks: *ticks, fraction: 0.0 })
			}
		}
	}
}
fn tween(tw: &Tw, hs: &[H]) -> Tween {
	Tween { start_time: start_time(&tw.st, hs), duration: tw.dur, easing: tw.easing }
}

/// builds one effect; pushes its handle when `keep`
fn build_fx(fx: &Fx, hs: &[H], log: &Arc<ProbeLog>, keep: Option<&mut Vec<H>>) -> Box<dyn Effect> {
	let mut kept: Option<H> = None;
	let e: Box<dyn Effect> = match fx {
		Fx::Filter { mode, cutoff, linked, res, mix } => {
			let lfo = hs.iter().find_map(|h| if let H::Lfo(l) = h { Some(l.id()) } else { None });
			let c: Value<f64> = match (linked, lfo) {
				(true, Some(id)) => Value::FromModulator { id, mapping: Mapping { input_range: (-1.0, 1.0), output_range: (100.0, 8000.0), easing: Easing::Linear } },
				_ => Value::Fixed(*cutoff),
			};
			let (e, h) = FilterBuilder::new().mode(*mode).cutoff(c).resonance(*res).mix(Mix(*mix)).build();
			kept = Some(H::FxFilter(h));
			e
		}
		Fx::Eq { kind, f, gain, q } => {
			let (e, h) = EqFilterBuilder::new(*kind, *f, Decibels(*gain), *q).build();
			kept = Some(H::FxEq(h));
			e
		}
		Fx::Delay { time, fb, mix, fbfx } => {
			let mut d = DelayBuilder::new().delay_time(*time).feedback(Decibels(*fb)).mix(Mix(*mix));
			if let Some((c, q)) = fbfx {
				d = d.with_feedback_effect(FilterBuilder::new().cutoff(*c).resonance(*q));
			}
			let (e, h) = d.build();
			kept = Some(H::FxDelay(h));
			e
		}
		Fx::Reverb { fb, damp, width, mix } => {
			let (e, h) = ReverbBuilder::new().feedback(*fb).damping(*damp).stereo_width(*width).mix(Mix(*mix)).build();
			kept = Some(H::FxReverb(h));
			e
		}
		Fx::Compressor { thr, ratio, attack, release, makeup, mix } => {
			let (e, h) = CompressorBuilder::new().threshold(*thr).ratio(*ratio).attack_duration(*attack).release_duration(*release).makeup_gain(Decibels(*makeup)).mix(Mix(*mix)).build();
			kept = Some(H::FxComp(h));
			e
		}
		Fx::Distortion { kind, drive, mix } => {
			let (e, h) = DistortionBuilder::new().kind(*kind).drive(Decibels(*drive)).mix(Mix(*mix)).build();
			kept = Some(H::FxDist(h));
			e
		}
		Fx::Volume(d) => VolumeControlBuilder::new(Decibels(*d)).build().0,
		Fx::Pan(p) => PanningControlBuilder(Value::Fixed(Panning(*p))).build().0,
		Fx::Probe => Box::new(FxProbe(log.clone())),
	};
	if let (Some(v), Some(h)) = (keep, kept) {
		v.push(h);
	}
	e
}

enum AReq {
	Cb { out: Vec<f32>, ch: u16 },
	Rate(u32),
	Quit,
}
enum AResp {
	Cb { out: Vec<f32>, allocs: u64, frees: u64, panic: Option<String> },
	Rate(Option<String>),
	Quit(Box<Renderer>),
}
/// the audio thread: owns the `Renderer`; heap traffic is counted on this thread only while a
/// callback (`on_start_processing` + `process`) runs
struct Audio {
	tx: mpsc::Sender<AReq>,
	rx: mpsc::Receiver<AResp>,
	tid: ThreadId,
}
impl Audio {
	fn start(renderer: Renderer) -> Audio {
		let (tx, arx) = mpsc::channel::<AReq>();
		let (atx, rx) = mpsc::channel::<AResp>();
		let (ttx, trx) = mpsc::channel::<ThreadId>();
		let _ = std::thread::Builder::new().name("audio".into()).spawn(move || {
			let mut r = Box::new(renderer);
			let _ = ttx.send(std::thread::current().id());
			while let Ok(req) = arx.recv() {
				match req {
					AReq::Cb { mut out, ch } => {
						let (res, allocs, frees) = counted(|| {
							std::panic::catch_unwind(std::panic::AssertUnwindSafe(|| {
								r.on_start_processing();
								r.process(&mut out, ch);
							}))
						});
						let panic = if res.is_err() { Some(last_panic()) } else { None };
						if atx.send(AResp::Cb { out, allocs, frees, panic }).is_err() {
							return;
						}
					}
					AReq::Rate(sr) => {
						let res = std::panic::catch_unwind(std::panic::AssertUnwindSafe(|| r.on_change_sample_rate(sr)));
						let panic = if res.is_err() { Some(last_panic()) } else { None };
						if atx.send(AResp::Rate(panic)).is_err() {
							return;
						}
					}
					AReq::Quit => {
						let _ = atx.send(AResp::Quit(r));
						return;
					}
				}
			}
		});
		let tid = trx.recv().unwrap();
		Audio { tx, rx, tid }
	}
}

#[derive(Debug, Clone)]
struct Fail {
	kind: &'static str, // panic | nan | range | layout | alloc | drop | chunks | hang
	what: String,
	/// index of the operation at which it was observed
	at: usize,
}
#[derive(Debug, Default)]
struct SceneResult {
	fail: Option<Fail>,
	callbacks: usize,
	samples: u64,
	/// model cases (term, observed) collected from the callbacks of this scene
	cases: Vec<(&'static str, String, Vec<i128>)>,
	drops_seen: usize,
}

fn expected_chunks(frames: usize, ibs: usize) -> Vec<usize> {
	let mut v = vec![ibs; frames / ibs];
	if frames % ibs != 0 {
		v.push(frames % ibs);
	}
	v
}

/// Builds and runs one scene on this thread (+ its audio thread); stops at the first failure.
fn exec_scene(sc: &Scene, want_cases: bool) -> SceneResult {
	let mut res = SceneResult::default();
	let log = ProbeLog::new();
	let caps = Capacities { sub_track_capacity: sc.caps[0], send_track_capacity: sc.caps[1], clock_capacity: sc.caps[2], modulator_capacity: sc.caps[3], listener_capacity: sc.caps[4] };
	let mut hs: Vec<H> = vec![];
	let built = catch(|| {
		let mut main = MainTrackBuilder::new().volume(Decibels(sc.main_vol)).sound_capacity(sc.main_cap);
		for fx in &sc.main_fx {
			main.add_built_effect(build_fx(fx, &[], &log, None));
		}
		main.add_built_effect(Box::new(MainProbe(log.clone())));
		manager(sc.sr, sc.ibs, caps, main)
	});
	let mut m = match built {
		Outcome::Ok(m) => m,
		_ => {
			res.fail = Some(Fail { kind: "panic", what: format!("AudioManager::new panicked: {}", last_panic()), at: 0 });
			return res;
		}
	};
	let audio = Audio::start(m.backend_mut().renderer.take().unwrap());
	let mut cur_sr = sc.sr;
	let check_drops = |log: &ProbeLog, seen: &mut usize| -> Option<String> {
		let d = log.drops.lock().unwrap();
		*seen = d.len();
		d.iter().find(|(_, t)| *t == audio.tid).map(|(w, _)| format!("a {w} was dropped on the audio thread"))
	};
	let trace = crate::alloc::TRACE.load(std::sync::atomic::Ordering::Relaxed);
	for (idx, op) in sc.ops.iter().enumerate() {
		if trace {
			eprintln!("OP {idx}: {op:?}");
		}
		let r = catch(|| -> Option<(&'static str, String)> {
			match op {
				Op::Play(p) => {
					let mut st = StaticSoundSettings::new().volume(Decibels(p.vol)).panning(Panning(p.pan)).playback_rate(PlaybackRate(p.rate)).reverse(p.reverse);
					if let Some((a, b)) = p.looped {
						st = st.loop_region(Region::from(a..b));
					}
					if let Some(s) = p.start {
						st = st.start_position(PlaybackPosition::Samples(s));
					}
					if let Some(tw) = &p.fade_in {
						st = st.fade_in_tween(tween(tw, &hs));
					}
					st = st.start_time(start_time(&p.start_time, &hs));
					let mut data = sound_from_frames(p.ssr.max(1), p.frames.expand());
					data.settings = st;
					data.slice = p.slice;
					let tracks: Vec<usize> = hs.iter().enumerate().filter(|(_, h)| matches!(h, H::Track(_))).map(|(i, _)| i).collect();
					let hnd = match (p.on, tracks.is_empty()) {
						(Some(sel), false) => {
							let i = tracks[(sel % tracks.len() as u64) as usize];
							if let H::Track(t) = &mut hs[i] { t.play(data).ok() } else { None }
						}
						_ => m.play(data).ok(),
					};
					if let Some(h) = hnd {
						hs.push(H::Sound(h));
					}
				}
				Op::PlayStream { frames, ssr, packet, vol, pan, rate, looped, on } => {
					let dec = MemDecoder { log: log.clone(), frames: frames.expand(), pos: 0, sr: (*ssr).max(1), packet: *packet };
					let mut data = StreamingSoundData::from_decoder(dec).volume(Decibels(*vol)).panning(Panning(*pan)).playback_rate(PlaybackRate(*rate));
					if let Some((a, b)) = looped {
						data = data.loop_region(Region::from(*a..*b));
					}
					let tracks: Vec<usize> = hs.iter().enumerate().filter(|(_, h)| matches!(h, H::Track(_))).map(|(i, _)| i).collect();
					let hnd = match (on, tracks.is_empty()) {
						(Some(sel), false) => {
							let i = tracks[(*sel % tracks.len() as u64) as usize];
							if let H::Track(t) = &mut hs[i] { t.play(data).ok() } else { None }
						}
						_ => m.play(data).ok(),
					};
					if let Some(h) = hnd {
						hs.push(H::Stream(h));
						// give the decoder thread a moment to fill the ring buffer
						std::thread::sleep(Duration::from_micros(400));
					}
				}
				Op::PlayProbe { len, on } => {
					let data = SndProbeData(SndProbe { log: log.clone(), left: *len, _payload: vec![1u8; 64] });
					let tracks: Vec<usize> = hs.iter().enumerate().filter(|(_, h)| matches!(h, H::Track(_))).map(|(i, _)| i).collect();
					match (on, tracks.is_empty()) {
						(Some(sel), false) => {
							let i = tracks[(*sel % tracks.len() as u64) as usize];
							if let H::Track(t) = &mut hs[i] {
								let _ = t.play(data);
							}
						}
						_ => {
							let _ = m.play(data);
						}
					}
				}
				Op::AddSub(s) => {
					let mut b = TrackBuilder::new().volume(Decibels(s.vol)).sound_capacity(s.cap).sub_track_capacity(s.sub_cap).persist_until_sounds_finish(s.persist);
					let mut kept: Vec<H> = vec![];
					for fx in &s.fx {
						b.add_built_effect(build_fx(fx, &hs, &log, if s.keep_fx_handles { Some(&mut kept) } else { None }));
					}
					if let Some(v) = s.send {
						if let Some(sid) = hs.iter().find_map(|h| if let H::Send(s) = h { Some(s.id()) } else { None }) {
							b = b.with_send(sid, Decibels(v));
						}
					}
					let parents: Vec<usize> = hs.iter().enumerate().filter(|(_, h)| matches!(h, H::Track(_))).map(|(i, _)| i).collect();
					let t = match (s.parent, parents.is_empty()) {
						(Some(sel), false) => {
							let i = parents[(sel % parents.len() as u64) as usize];
							if let H::Track(p) = &mut hs[i] { p.add_sub_track(b).ok() } else { None }
						}
						_ => m.add_sub_track(b).ok(),
					};
					if let Some(t) = t {
						hs.push(H::Track(t));
						hs.extend(kept);
					}
				}
				Op::AddSend { vol, probe } => {
					let mut b = SendTrackBuilder::new().volume(Decibels(*vol)).with_effect(ReverbBuilder::new().mix(Mix(1.0)));
					if *probe {
						b.add_built_effect(Box::new(FxProbe(log.clone())));
					}
					if let Ok(s) = m.add_send_track(b) {
						hs.push(H::Send(s));
					}
				}
				Op::AddClock { speed, start } => {
					if let Ok(mut c) = m.add_clock(*speed) {
						if *start {
							c.start();
						}
						hs.push(H::Clock(c));
					}
				}
				Op::AddLfo { wave, f, amp, offset, phase } => {
					let w = [Waveform::Sine, Waveform::Triangle, Waveform::Saw, Waveform::Pulse { width: 0.3 }][*wave as usize % 4];
					if let Ok(l) = m.add_modulator(LfoBuilder::new().waveform(w).frequency(*f).amplitude(*amp).offset(*offset).starting_phase(*phase)) {
						hs.push(H::Lfo(l));
					}
				}
				Op::AddTweener { init } => {
					if let Ok(t) = m.add_modulator(TweenerBuilder { initial_value: *init }) {
						hs.push(H::Tweener(t));
					}
				}
				Op::AddProbeMod { len } => {
					let _ = m.add_modulator(ModProbeBuilder(log.clone(), *len));
				}
				Op::AddListener { pos } => {
					if let Ok(l) = m.add_listener(*pos, [0.0f32, 0.0, 0.0, 1.0]) {
						hs.push(H::Listener(l));
					}
				}
				Op::AddSpatial { pos, d0, d1, strength, atten, frames, vol } => {
					if let Some(lid) = hs.iter().find_map(|h| if let H::Listener(l) = h { Some(l.id()) } else { None }) {
						let b = SpatialTrackBuilder::new().volume(Decibels(*vol)).distances((*d0, *d1)).spatialization_strength(*strength).attenuation_function(*atten);
						if let Ok(mut t) = m.add_spatial_sub_track(lid, *pos, b) {
							let _ = t.play(sound_from_frames(cur_sr, frames.expand()));
							hs.push(H::Spatial(t));
						}
					}
				}
				Op::Cmd(c) => {
					if !hs.is_empty() {
						let i = (c.sel % hs.len() as u64) as usize;
						let tw = tween(&c.tw, &hs);
						let w = c.which;
						match &mut hs[i] {
							H::Sound(s) => match w % 10 {
								0 => s.pause(tw),
								1 => s.resume(tw),
								2 => s.stop(tw),
								3 => s.set_volume(Decibels(c.db), tw),
								4 => s.set_playback_rate(PlaybackRate(c.rate), tw),
								5 => s.set_panning(Panning(c.pan), tw),
								6 => s.seek_to(c.seek),
								7 => s.seek_by(c.seek - 0.01),
								8 => s.resume_at(tw.start_time, Tween { start_time: StartTime::Immediate, ..tw }),
								_ => {
									let a = c.u * 0.005;
									s.set_loop_region(Region::from(a..a + 0.002))
								}
							},
							H::Stream(s) => match w % 9 {
								0 => s.pause(tw),
								1 => s.resume(tw),
								2 => s.stop(tw),
								3 => s.set_volume(Decibels(c.db), tw),
								4 => s.set_playback_rate(PlaybackRate(c.rate), tw),
								5 => s.set_panning(Panning(c.pan), tw),
								6 => s.seek_to(c.seek),
								7 => s.seek_by(c.seek - 0.01),
								_ => s.resume_at(tw.start_time, Tween { start_time: StartTime::Immediate, ..tw }),
							},
							H::Track(t) => match w % 4 {
								0 => t.pause(tw),
								1 => t.resume(tw),
								2 => t.resume_at(tw.start_time, Tween { start_time: StartTime::Immediate, ..tw }),
								_ => t.set_volume(Decibels(c.db), tw),
							},
							H::Spatial(t) => match w % 5 {
								0 => t.set_position(c.pos, tw),
								1 => t.set_spatialization_strength(c.mixv, tw),
								2 => t.pause(tw),
								3 => t.resume(tw),
								_ => t.set_volume(Decibels(c.db), tw),
							},
							H::Send(s) => s.set_volume(Decibels(c.db), tw),
							H::Clock(k) => match w % 4 {
								0 => k.pause(),
								1 => k.stop(),
								2 => k.start(),
								_ => k.set_speed(c.speed, tw),
							},
							H::Lfo(l) => match w % 3 {
								0 => l.set_frequency(c.freq.min(1e6), tw),
								1 => l.set_amplitude(c.u * 2.0, tw),
								_ => l.set_phase((c.u - 0.5) * 20.0),
							},
							H::Tweener(t) => t.set(c.u * 2.0 - 1.0, tw),
							H::Listener(l) => l.set_position(c.pos, tw),
							H::FxFilter(f) => match w % 3 {
								0 => f.set_cutoff(c.freq, tw),
								1 => f.set_resonance(c.u, tw),
								_ => f.set_mix(Mix(c.mixv), tw),
							},
							H::FxEq(f) => match w % 3 {
								0 => f.set_frequency(c.freq, tw),
								1 => f.set_gain(Decibels(c.db), tw),
								_ => f.set_q(0.1 + c.u * 4.0, tw),
							},
							H::FxDelay(f) => match w % 2 {
								0 => f.set_feedback(Decibels(c.db.min(24.0)), tw),
								_ => f.set_mix(Mix(c.mixv), tw),
							},
							H::FxReverb(f) => match w % 4 {
								0 => f.set_feedback(c.u, tw),
								1 => f.set_damping(c.u, tw),
								2 => f.set_stereo_width(c.u, tw),
								_ => f.set_mix(Mix(c.mixv), tw),
							},
							H::FxComp(f) => match w % 4 {
								0 => f.set_ratio(1.0 + c.u * 8.0, tw),
								1 => f.set_threshold(-c.u * 40.0, tw),
								2 => f.set_makeup_gain(Decibels(c.db.min(24.0)), tw),
								_ => f.set_mix(Mix(c.mixv), tw),
							},
							H::FxDist(f) => match w % 2 {
								0 => f.set_drive(Decibels(c.db), tw),
								_ => f.set_mix(Mix(c.mixv), tw),
							},
						}
					}
				}
				Op::DropHandle { sel } => {
					if !hs.is_empty() {
						let i = (*sel % hs.len() as u64) as usize;
						hs.swap_remove(i);
					}
				}
				Op::RateChange { sr } => {
					audio.tx.send(AReq::Rate(*sr)).unwrap();
					match audio.rx.recv() {
						Ok(AResp::Rate(None)) => cur_sr = *sr,
						Ok(AResp::Rate(Some(p))) => return Some(("panic", format!("Renderer::on_change_sample_rate panicked: {p}"))),
						_ => return Some(("panic", "the audio thread died".into())),
					}
				}
				Op::Callback { frames, ch } => {
					let (frames, ch) = (*frames, *ch);
					log.reset();
					let out = vec![f32::from_bits(0x7FC0_1234); frames * ch as usize];
					audio.tx.send(AReq::Cb { out, ch }).unwrap();
					let (out, allocs, frees, panic) = match audio.rx.recv() {
						Ok(AResp::Cb { out, allocs, frees, panic }) => (out, allocs, frees, panic),
						_ => return Some(("panic", "the audio thread died".into())),
					};
					if let Some(p) = panic {
						return Some(("panic", format!("the audio callback panicked: {p}")));
					}
					if allocs != 0 || frees != 0 {
						return Some(("alloc", format!("callback allocated {allocs} / freed {frees} heap blocks on the audio thread")));
					}
					if let Some(w) = check_drops(&log, &mut res.drops_seen) {
						return Some(("drop", w));
					}
					let starts = log.starts.load(Ordering::SeqCst);
					let nchunks = log.nchunks.load(Ordering::SeqCst).min(CHUNK_LOG);
					let lens: Vec<usize> = (0..nchunks).map(|k| log.chunk_len[k].load(Ordering::SeqCst) as usize).collect();
					if starts != 1 || (frames <= CHUNK_LOG && lens != expected_chunks(frames, sc.ibs)) {
						return Some(("chunks", format!("on_start_processing ran {starts}x and the chunks were {lens:?} for {frames} frames with internal buffer {}", sc.ibs)));
					}
					for (k, x) in out.iter().enumerate() {
						if x.to_bits() == 0x7FC0_1234 {
							return Some(("layout", format!("sample {k} of the device buffer was not written")));
						}
						if !x.is_finite() {
							return Some(("nan", format!("sample {k} of a callback is {x:?}")));
						}
						if !(*x >= -1.0 && *x <= 1.0) {
							return Some(("range", format!("sample {k} of a callback is {x:?}, outside [-1, 1]")));
						}
						if ch > 2 && (k % ch as usize) >= 2 && x.to_bits() != 0 {
							return Some(("layout", format!("extra channel {} carries {x:?}", k % ch as usize)));
						}
					}
					if want_cases && frames <= CHUNK_LOG {
						// heap traffic, on_start count and chunk sequence against the model's annotation
						let mut obs: Vec<i128> = vec![allocs as i128, frees as i128, starts as i128];
						obs.extend(lens.iter().map(|l| *l as i128));
						res.cases.push(("callback_steps", format!("CCb {} {}", sc.ibs, frames), obs));
						// the bus recorded by the probe, through the model's output stage (main volume 0 dB only)
						if sc.main_vol == 0.0 && frames <= BUS_LOG && frames > 0 {
							let bus: Vec<String> = (0..frames).map(|j| format!("({}, {})", f32_bits_z(f32::from_bits(log.bus[j].0.load(Ordering::SeqCst))), f32_bits_z(f32::from_bits(log.bus[j].1.load(Ordering::SeqCst))))).collect();
							res.cases.push(("bus_out_stage", format!("COut {} {} [{}]", ch, sc.ibs, bus.join("; ")), out.iter().map(|x| obs32(*x)).collect()));
						}
					}
					res.callbacks += 1;
					res.samples += out.len() as u64;
				}
			}
			None
		});
		match r {
			Outcome::Ok(None) => {}
			Outcome::Ok(Some((k, w))) => {
				res.fail = Some(Fail { kind: k, what: w, at: idx });
				break;
			}
			_ => {
				res.fail = Some(Fail { kind: "panic", what: format!("a manager / handle call panicked: {} (operation {idx}: {:?})", last_panic(), sc.ops[idx]), at: idx });
				break;
			}
		}
	}
	// the renderer comes back; everything is dropped on this (the caller's) thread
	if res.fail.as_ref().map(|f| f.kind) != Some("panic") {
		let _ = audio.tx.send(AReq::Quit);
		if let Ok(AResp::Quit(r)) = audio.rx.recv_timeout(Duration::from_secs(2)) {
			m.backend_mut().renderer = Some(*r);
		}
	}
	drop(hs);
	drop(m);
	if res.fail.is_none() {
		if let Some(w) = check_drops(&log, &mut res.drops_seen) {
			res.fail = Some(Fail { kind: "drop", what: w, at: sc.ops.len() });
		}
	}
	res
}

/// runs a scene under a watchdog; `None` = it did not come back (the threads are abandoned)
fn run_watchdog(sc: &Scene, want_cases: bool, secs: f64) -> Option<SceneResult> {
	let (tx, rx) = mpsc::channel();
	let sc2 = sc.clone();
	let _ = std::thread::Builder::new().name("scene".into()).spawn(move || {
		let r = exec_scene(&sc2, want_cases);
		let _ = tx.send(r);
	});
	rx.recv_timeout(Duration::from_secs_f64(secs)).ok()
}

// ------------------------------------------------------------------------------------------------
// classes of known findings: trigger predicate + neutraliser (one function: it rewrites the
// trigger to a benign documented value and says whether it found one)
// ------------------------------------------------------------------------------------------------
fn for_each_easing(sc: &mut Scene, f: &mut dyn FnMut(&mut Easing)) {
	for op in sc.ops.iter_mut() {
		match op {
			Op::Play(p) => {
				if let Some(tw) = &mut p.fade_in {
					f(&mut tw.easing);
				}
			}
			Op::AddSpatial { atten: Some(e), .. } => f(e),
			Op::Cmd(c) => f(&mut c.tw.easing),
			_ => {}
		}
	}
}
/// the lowest device sample rate in force at any time in the scene
fn min_sr(sc: &Scene) -> u32 {
	sc.ops.iter().filter_map(|o| if let Op::RateChange { sr } = o { Some(*sr) } else { None }).chain(std::iter::once(sc.sr)).min().unwrap().max(1)
}
fn max_ssr(sc: &Scene) -> u32 {
	sc.ops.iter().filter_map(|o| if let Op::Play(p) = o { Some(p.ssr.max(1)) } else { None }).max().unwrap_or(sc.sr)
}
/// playback rates with the number of source frames they skip per device frame
fn for_each_rate(sc: &mut Scene, f: &mut dyn FnMut(&mut f64, f64)) {
	let (sr, mx) = (min_sr(sc) as f64, max_ssr(sc) as f64);
	for op in sc.ops.iter_mut() {
		match op {
			Op::Play(p) => {
				let k = p.ssr.max(1) as f64 / sr;
				f(&mut p.rate, k)
			}
			Op::Cmd(c) => f(&mut c.rate, mx / sr),
			_ => {}
		}
	}
}
fn for_each_speed(sc: &mut Scene, f: &mut dyn FnMut(&mut ClockSpeed)) {
	for op in sc.ops.iter_mut() {
		match op {
			Op::AddClock { speed, .. } => f(speed),
			Op::Cmd(c) => f(&mut c.speed),
			_ => {}
		}
	}
}
fn easing_power_negative(e: &Easing) -> bool {
	match e {
		Easing::InPowi(p) | Easing::OutPowi(p) | Easing::InOutPowi(p) => *p < 0,
		Easing::InPowf(p) | Easing::OutPowf(p) | Easing::InOutPowf(p) => *p < 0.0,
		Easing::Linear => false,
	}
}

struct Class {
	name: &'static str,
	/// which of the class's triggers (for classes that list several parameters)
	detail: &'static str,
	/// the failure kinds this finding is listed with
	kinds: &'static [&'static str],
	/// rewrites every trigger of the class to a benign value; true iff the scene contained one
	neutralise: fn(&mut Scene) -> bool,
}

/// F36 (its hang half): a power-curve easing with a negative power (Easing::apply then maps [0,1] to
/// [1, inf]); through set_playback_rate the sounds' carry loops reach 2^53 (through a clock speed nothing
/// loops any more since the F7 repair)
fn neut_easing(sc: &mut Scene) -> bool {
	let mut hit = false;
	for_each_easing(sc, &mut |e| {
		if easing_power_negative(e) {
			*e = Easing::Linear;
			hit = true;
		}
	});
	hit
}
const TWO53: f64 = 9007199254740992.0;
/// F8: a playback rate whose per-frame increment sample_rate * |rate| * dt reaches 2^53
fn neut_rate(sc: &mut Scene) -> bool {
	let mut hit = false;
	for_each_rate(sc, &mut |r, k| {
		if r.abs() * k >= TWO53 {
			*r = r.signum();
			hit = true;
		}
	});
	hit
}
/// F34: a playback rate that makes one output frame cost more than 1000 iterations of the carry loop
fn neut_rate_cost(sc: &mut Scene) -> bool {
	let mut hit = false;
	for_each_rate(sc, &mut |r, k| {
		if r.abs() * k > 1000.0 {
			*r = r.signum();
			hit = true;
		}
	});
	hit
}
/// F45: a sub-track with a Delay or Reverb effect (or a send track: ours always carry a reverb) that is
/// still queued (no callback since it was added) when the device sample rate changes to a different
/// value: the first callback after the change re-synchronises it in `on_start_processing`, and
/// `Delay / Reverb::on_change_sample_rate` allocates the new lines there.  The scene handed in ends with
/// the failing callback; only a rate change with no other callback between it and that last operation
/// qualifies, and exactly those rate changes are removed.
fn has_lines(op: &Op) -> bool {
	match op {
		Op::AddSub(s) => s.fx.iter().any(|f| matches!(f, Fx::Delay { .. } | Fx::Reverb { .. })),
		Op::AddSend { .. } => true,
		_ => false,
	}
}
/// indices of the rate changes that find a line-owning track still queued (initialised at another rate)
fn resync_rate_changes(ops: &[Op], sr0: u32) -> Vec<usize> {
	let mut cur = sr0;
	let mut queued_at: Vec<u32> = vec![];
	let mut hits = vec![];
	for (i, op) in ops.iter().enumerate() {
		match op {
			Op::Callback { .. } => queued_at.clear(),
			Op::RateChange { sr } => {
				if queued_at.iter().any(|q| *q != *sr) {
					hits.push(i);
				}
				cur = *sr;
			}
			op if has_lines(op) => queued_at.push(cur),
			_ => {}
		}
	}
	hits
}
fn neut_resync(sc: &mut Scene) -> bool {
	let n = sc.ops.len();
	if n == 0 || !matches!(sc.ops[n - 1], Op::Callback { .. }) {
		return false;
	}
	// only a change that the LAST operation (the failing callback) is the first callback after
	let remove: Vec<usize> = resync_rate_changes(&sc.ops, sc.sr).into_iter().filter(|i| !sc.ops[*i + 1..n - 1].iter().any(|o| matches!(o, Op::Callback { .. }))).collect();
	for i in remove.iter().rev() {
		sc.ops.remove(*i);
	}
	!remove.is_empty()
}
fn classes() -> Vec<Class> {
	let c = |name, detail, kinds, neutralise| Class { name, detail, kinds, neutralise };
	const HANG: &[&str] = &["hang"];
	vec![
		c(HZ_RESYNC, "", &["alloc"], neut_resync),
		c(HZ_EASING, "", HANG, neut_easing),
		c(HZ_RATE, "", HANG, neut_rate),
		c(HZ_RATE_COST, "", HANG, neut_rate_cost),
	]
}

/// scene -> (kind, what) of its first failure; a hang is a failure of kind "hang"
fn outcome(sc: &Scene, secs: f64, hangs_left: &mut u32) -> (Option<SceneResult>, Option<Fail>) {
	match run_watchdog(sc, false, secs) {
		Some(r) => {
			let f = r.fail.clone();
			(Some(r), f)
		}
		None => {
			*hangs_left = hangs_left.saturating_sub(1);
			(None, Some(Fail { kind: "hang", what: "a callback (or a call made on the audio path) did not return within the watchdog time".into(), at: usize::MAX }))
		}
	}
}

struct Verdict {
	/// the scene on which the reported failure was observed (known triggers already removed, minimised, for a new one)
	scene: Scene,
	fail: Fail,
	class: Option<&'static str>,
	detail: &'static str,
	trail: String,
}

/// Counterfactual attribution (see the module doc).  `first` is the failure of `sc` itself.
fn attribute(sc: &Scene, first: Fail, secs: f64, hangs_left: &mut u32) -> Verdict {
	let cls = classes();
	let mut cur = sc.clone();
	if first.at < cur.ops.len() {
		cur.ops.truncate(first.at + 1);
	}
	let mut fail = first;
	let mut used: BTreeSet<(&'static str, &'static str)> = BTreeSet::new();
	let mut trail = String::new();
	loop {
		// next listed class whose trigger is in the scene and whose listed failure is the observed one
		let mut next: Option<(&Class, Scene)> = None;
		for c in &cls {
			if used.contains(&(c.name, c.detail)) || !c.kinds.contains(&fail.kind) {
				continue;
			}
			let mut s2 = cur.clone();
			if (c.neutralise)(&mut s2) {
				next = Some((c, s2));
				break;
			}
		}
		let Some((c, s2)) = next else {
			// no listed trigger left: a failure of its own
			if fail.kind == "hang" {
				// a watchdog expiry must reproduce (the machine may be heavily loaded); a real hang always does
				if let (_, None) = outcome(&cur, secs, hangs_left) {
					return Verdict { scene: cur, fail, class: None, detail: "not reproduced", trail };
				}
				return Verdict { scene: cur, fail, class: None, detail: "", trail };
			}
			let scene = minimise(&cur, &fail, secs, hangs_left);
			return Verdict { scene, fail, class: None, detail: "", trail };
		};
		used.insert((c.name, c.detail));
		if fail.kind == "hang" && *hangs_left == 0 {
			// no budget to re-run a scene that may hang again: leave it unattributed rather than guess
			return Verdict { scene: cur, fail, class: None, detail: "", trail: trail + " (watchdog budget exhausted)" };
		}
		let (_, f2) = outcome(&s2, secs, hangs_left);
		match f2 {
			None => {
				// with exactly this trigger removed the scene is fine: the trigger was necessary
				if !c.detail.is_empty() {
					trail.push_str(&format!("[trigger: {}] ", c.detail));
				}
				return Verdict { scene: cur, fail, class: Some(c.name), detail: c.detail, trail };
			}
			Some(f2) => {
				trail.push_str(&format!("[still failing ({}) without the triggers of {} {}] ", f2.kind, c.name, c.detail));
				cur = s2;
				if f2.at < cur.ops.len() {
					cur.ops.truncate(f2.at + 1);
				}
				fail = f2;
			}
		}
	}
}

/// greedy removal of operations / effects while the failure kind stays the same
fn minimise(sc: &Scene, fail: &Fail, secs: f64, hangs_left: &mut u32) -> Scene {
	let mut cur = sc.clone();
	let mut budget = 250;
	let same = |s: &Scene, budget: &mut i32, hl: &mut u32| -> bool {
		*budget -= 1;
		matches!(outcome(s, secs, hl).1, Some(f) if f.kind == fail.kind)
	};
	let mut i = cur.ops.len();
	while i > 0 && budget > 0 {
		i -= 1;
		if i + 1 == cur.ops.len() {
			continue; // the failing callback itself
		}
		let mut s2 = cur.clone();
		s2.ops.remove(i);
		if same(&s2, &mut budget, hangs_left) {
			cur = s2;
		}
	}
	let mut j = cur.main_fx.len();
	while j > 0 && budget > 0 {
		j -= 1;
		let mut s2 = cur.clone();
		s2.main_fx.remove(j);
		if same(&s2, &mut budget, hangs_left) {
			cur = s2;
		}
	}
	for k in 0..cur.ops.len() {
		loop {
			let n = if let Op::AddSub(s) = &cur.ops[k] { s.fx.len() } else { 0 };
			let mut removed = false;
			for j in (0..n).rev() {
				if budget <= 0 {
					break;
				}
				let mut s2 = cur.clone();
				if let Op::AddSub(s) = &mut s2.ops[k] {
					s.fx.remove(j);
				}
				if same(&s2, &mut budget, hangs_left) {
					cur = s2;
					removed = true;
					break;
				}
			}
			if !removed {
				break;
			}
		}
	}
	cur
}

// ------------------------------------------------------------------------------------------------
// generators
// ------------------------------------------------------------------------------------------------
struct Gen<'a> {
	r: &'a mut Rng,
	boundary: bool,
	/// classes listed in known_findings.json: their triggers are only drawn when listed (a trigger of a
	/// finding that is not listed yet is exercised by the witness corpus and reported there)
	listed: &'a BTreeSet<String>,
}
impl<'a> Gen<'a> {
	fn on(&self, class: &str) -> bool {
		self.listed.contains(class)
	}
	/// decibel values: documented range plus finite extremes
	fn db(&mut self) -> f32 {
		if self.boundary && self.r.chance(1, 5) {
			let v = *self.r.pick(&[-60.0f32, -59.999996, -60.000004, -100.0, -1e30, 0.0, -0.0, 6.0, 24.0, 100.0, 700.0, 1000.0, 3e38, -3e38, 1e-40]);
			v
		} else {
			(self.r.unit_f64() * 72.0 - 66.0) as f32
		}
	}
	fn mix(&mut self) -> f32 {
		if self.boundary && self.r.chance(1, 4) {
			*self.r.pick(&[0.0f32, 1.0, -0.0, -1.0, 2.0, 1e30, -1e30, 0.5, 1e-40])
		} else {
			self.r.unit_f64() as f32
		}
	}
	fn pan(&mut self) -> f32 {
		if self.boundary && self.r.chance(1, 4) {
			*self.r.pick(&[0.0f32, -1.0, 1.0, -0.0, 3.0, -3.0, 1e30, -1e30, 1e-40])
		} else if self.r.chance(1, 8) {
			*self.r.pick(&[-1.0f32, 1.0, 0.0])
		} else {
			(self.r.unit_f64() * 2.0 - 1.0) as f32
		}
	}
	fn freq(&mut self) -> f64 {
		if self.boundary && self.r.chance(1, 4) {
			*self.r.pick(&[0.0, -0.0, 1e-300, 20.0, 20000.0, 1e6, 1e300, -100.0, 22050.0, 24000.0])
		} else {
			20.0 * (1000.0f64).powf(self.r.unit_f64()) * 0.19
		}
	}
	fn unit(&mut self) -> f64 {
		if self.boundary && self.r.chance(1, 4) {
			*self.r.pick(&[0.0, 1.0, -0.0, -1.0, 2.0, 1e300, -1e300, 0.999999, 1e-300])
		} else {
			0.05 + 0.85 * self.r.unit_f64()
		}
	}
	/// any seek target (the boundary stream draws +-1e300: far beyond every sound and loop region)
	fn seek(&mut self) -> f64 {
		self.unit() * 0.02
	}
	fn dur(&mut self) -> Duration {
		match self.r.below(if self.boundary { 7 } else { 4 }) {
			0 => Duration::ZERO,
			1 => Duration::from_nanos(self.r.below(2_000_000)),
			2 | 3 => Duration::from_micros(self.r.below(80_000) + 1),
			4 => Duration::from_nanos(1),
			5 => Duration::from_secs(1 << 40),
			_ => Duration::MAX,
		}
	}
	fn easing(&mut self) -> Easing {
		let neg = self.boundary && self.on(HZ_EASING);
		let pi = if self.boundary { self.r.range(if neg { -3 } else { 0 }, 9) as i32 } else { self.r.range(1, 5) as i32 };
		let pf = if self.boundary { *self.r.pick(&[0.0, if neg { -1.0 } else { 0.25 }, 0.5, 2.0, 1e300, 1e-300]) } else { *self.r.pick(&[0.5, 1.0, 2.0, 3.0]) };
		match self.r.below(8) {
			0 => Easing::InPowi(pi),
			1 => Easing::OutPowi(pi),
			2 => Easing::InOutPowi(pi),
			3 => Easing::InPowf(pf),
			4 => Easing::OutPowf(pf),
			5 => Easing::InOutPowf(pf),
			_ => Easing::Linear,
		}
	}
	fn st(&mut self) -> St {
		match self.r.below(8) {
			0 => St::Delayed(self.dur()),
			1 => St::Clock { sel: self.r.next(), ticks: self.r.below(4) },
			_ => St::Immediate,
		}
	}
	fn tw(&mut self) -> Tw {
		Tw { st: self.st(), dur: self.dur(), easing: self.easing() }
	}
	fn rate(&mut self) -> f64 {
		if self.boundary && self.r.chance(1, 4) {
			let v = *self.r.pick(&[0.0, -0.0, 1.0, -1.0, 1e-300, 0.5, 2.0, 64.0, -64.0, -2.0]);
			if self.on(HZ_RATE_COST) && self.r.chance(1, 12) {
				return *self.r.pick(&[1e6, -1e6]);
			}
			v
		} else {
			*self.r.pick(&[1.0, 1.0, 0.5, 2.0, -1.0, 1.5, 0.25, 3.0, -0.5])
		}
	}
	fn clock_speed(&mut self) -> ClockSpeed {
		if self.boundary && self.r.chance(1, 3) {
			*self.r.pick(&[
				ClockSpeed::TicksPerSecond(0.0),
				ClockSpeed::TicksPerSecond(-5.0),
				ClockSpeed::SecondsPerTick(1e300),
				ClockSpeed::SecondsPerTick(-1.0),
				ClockSpeed::TicksPerMinute(0.0),
				ClockSpeed::TicksPerSecond(1e4),
				// the former F7 region: infinite, stuck (x - 1 == x) and merely huge tick increments
				ClockSpeed::SecondsPerTick(0.0),
				ClockSpeed::SecondsPerTick(5e-324),
				ClockSpeed::TicksPerSecond(1e300),
				ClockSpeed::TicksPerSecond(-1e300),
				ClockSpeed::TicksPerSecond(1e9),
				ClockSpeed::TicksPerSecond(1e15),
				ClockSpeed::TicksPerSecond(4.0e19),
				ClockSpeed::TicksPerMinute(f64::MAX),
			])
		} else {
			ClockSpeed::TicksPerSecond(1.0 + self.r.unit_f64() * 200.0)
		}
	}
	fn frames(&mut self) -> FramesSpec {
		let n = match self.r.below(8) {
			0 => 0,
			1 => 1,
			2 => 2,
			3 => 3,
			_ => self.r.below(300) as usize + 4,
		};
		let kind = if self.boundary { *self.r.pick(&[0u8, 1, 2, 3, 4, 5, 6, 7, 7, 8]) } else { *self.r.pick(&[0u8, 1, 2, 3, 7, 0, 3]) };
		FramesSpec { n, kind, seed: self.r.next() }
	}
	fn pos(&mut self) -> [f32; 3] {
		[self.pan() * 10.0, self.pan(), self.pan() * 10.0]
	}
	fn fx(&mut self, allow_link: bool) -> Fx {
		match self.r.below(9) {
			0 => Fx::Filter { mode: *self.r.pick(&[FilterMode::LowPass, FilterMode::BandPass, FilterMode::HighPass, FilterMode::Notch]), cutoff: self.freq(), linked: allow_link && self.r.chance(1, 3), res: self.unit(), mix: self.mix() },
			1 => Fx::Eq { kind: *self.r.pick(&[EqFilterKind::Bell, EqFilterKind::LowShelf, EqFilterKind::HighShelf]), f: self.freq(), gain: self.db(), q: 0.1 + self.unit() * 4.0 },
			2 => {
				let time = match self.r.below(if self.boundary { 5 } else { 3 }) {
					0 => Duration::from_micros(self.r.below(30_000) + 100),
					1 => Duration::from_millis(self.r.below(40) + 1),
					2 => Duration::from_micros(self.r.below(2000)),
					3 => Duration::ZERO,
					_ => Duration::from_nanos(1),
				};
				let fb0 = self.db().min(24.0);
				let fb = if self.boundary { fb0 } else { fb0.min(-1.0) };
				let fbfx = if self.r.chance(1, 3) { Some((self.freq(), self.unit())) } else { None };
				Fx::Delay { time, fb, mix: self.mix(), fbfx }
			}
			3 => Fx::Reverb { fb: self.unit(), damp: self.unit(), width: self.unit(), mix: self.mix() },
			4 => {
				let thr = if self.boundary && self.r.chance(1, 3) { *self.r.pick(&[0.0, -0.0, -1e300, 1e300, -60.0, 10.0]) } else { -self.r.unit_f64() * 40.0 };
				let ratio = if self.boundary && self.r.chance(1, 3) { *self.r.pick(&[0.0, -0.0, 1.0, -1.0, 1e300, 1e-300, 0.5]) } else { 1.0 + self.r.unit_f64() * 10.0 };
				Fx::Compressor { thr, ratio, attack: self.dur(), release: self.dur(), makeup: self.db().min(24.0), mix: self.mix() }
			}
			5 => Fx::Distortion { kind: if self.r.chance(1, 2) { DistortionKind::HardClip } else { DistortionKind::SoftClip }, drive: self.db(), mix: self.mix() },
			6 => Fx::Volume(self.db()),
			7 => Fx::Pan(self.pan()),
			_ => Fx::Probe,
		}
	}
	fn play(&mut self, sr: u32) -> PlaySpec {
		let frames = self.frames();
		let ssr = *self.r.pick(&[sr, 44100, 22050, 8000, 1]);
		let rate = self.rate();
		let (vol, pan, reverse) = (self.db(), self.pan(), self.r.chance(1, 5));
		let looped = if self.r.chance(1, 3) {
			let (a, b) = (self.r.unit_f64() * 0.01, self.r.unit_f64() * 0.01);
			Some(if self.boundary && self.r.chance(1, 3) { (a, a) } else if self.boundary && self.r.chance(1, 3) { (a.max(b), a.min(b)) } else { (a.min(b), a.max(b) + 1e-4) })
		} else {
			None
		};
		let start = if self.r.chance(1, 4) { Some(self.r.below(frames.n as u64 + 3) as usize) } else { None };
		let fade_in = if self.r.chance(1, 5) { Some(self.tw()) } else { None };
		let start_time = if self.r.chance(1, 5) { self.st() } else { St::Immediate };
		let slice = if self.boundary && self.r.chance(1, 6) { Some((self.r.below(frames.n as u64 + 3) as usize, self.r.below(frames.n as u64 + 5) as usize)) } else { None };
		let on = if self.r.chance(1, 2) { Some(self.r.next()) } else { None };
		PlaySpec { frames, ssr, vol, pan, rate, reverse, looped, start, fade_in, start_time, slice, on }
	}
	fn callback(&mut self, ibs: usize) -> Op {
		let frames = match self.r.below(6) {
			0 => 1,
			1 => ibs,
			2 => ibs + 1,
			3 => self.r.below(5) as usize,
			_ => self.r.below(3 * ibs as u64 + 40) as usize,
		};
		let ch = if self.r.chance(1, 2) { 2 } else { self.r.range(1, 8) as u16 };
		Op::Callback { frames, ch }
	}
	fn cmd(&mut self) -> CmdSpec {
		CmdSpec { sel: self.r.next(), which: self.r.next(), tw: self.tw(), db: self.db(), rate: self.rate(), pan: self.pan(), u: self.unit(), seek: self.seek(), mixv: self.mix(), speed: self.clock_speed(), freq: self.freq(), pos: self.pos() }
	}
	fn sub(&mut self) -> SubSpec {
		let n = self.r.below(3) as usize;
		SubSpec {
			vol: self.db(),
			cap: self.r.below(4) as usize + 1,
			sub_cap: self.r.below(3) as usize + if self.boundary { 0 } else { 1 },
			persist: self.r.chance(1, 3),
			fx: (0..n).map(|_| self.fx(true)).collect(),
			keep_fx_handles: self.r.chance(1, 2),
			send: if self.r.chance(1, 2) { Some(self.db()) } else { None },
			parent: if self.r.chance(1, 3) { Some(self.r.next()) } else { None },
		}
	}
	fn device_rate(&mut self) -> u32 {
		if self.boundary { *self.r.pick(&[8000u32, 22050, 44100, 48000, 96000, 192000, 1000, 1, 100]) } else { *self.r.pick(&[8000u32, 22050, 44100, 48000, 96000, 192000]) }
	}
	fn header(&mut self) -> Scene {
		let boundary = self.boundary;
		let sr = self.device_rate();
		let ibs = *self.r.pick(&[1usize, 2, 7, 16, 64, 128, 256]);
		let z = if boundary { 0 } else { 1 };
		let caps = [self.r.below(5) as usize + 2 * z, self.r.below(3) as usize + z, self.r.below(3) as usize + z, self.r.below(4) as usize + z, self.r.below(2) as usize + z];
		let nfx = self.r.below(3) as usize;
		let main_vol = if self.r.chance(1, 2) { 0.0 } else { self.db() };
		let main_cap = self.r.below(6) as usize + 2 * z;
		let main_fx = (0..nfx).map(|_| self.fx(false)).collect();
		Scene { sr, ibs, caps, main_vol, main_cap, main_fx, ops: vec![] }
	}
	fn op(&mut self, sc: &Scene) -> Op {
		match self.r.below(23) {
			22 => Op::RateChange { sr: self.device_rate() },
			0 | 1 | 2 => Op::Play(self.play(sc.sr)),
			3 | 4 => Op::AddSub(self.sub()),
			5 => Op::AddSend { vol: self.db(), probe: self.r.chance(1, 2) },
			6 => Op::AddClock { speed: self.clock_speed(), start: self.r.chance(3, 4) },
			7 => Op::AddLfo { wave: self.r.below(4) as u8, f: self.freq().min(1e6), amp: self.unit() * 2.0, offset: self.unit(), phase: (self.r.unit_f64() - 0.5) * 20.0 },
			8 => {
				if self.r.chance(1, 2) {
					Op::AddTweener { init: self.unit() }
				} else {
					Op::AddProbeMod { len: self.r.below(6) }
				}
			}
			9 => Op::AddListener { pos: self.pos() },
			10 => Op::AddSpatial {
				pos: self.pos(),
				d0: self.unit().clamp(-1e30, 1e30) as f32 * 5.0,
				d1: self.unit().clamp(-1e30, 1e30) as f32 * 50.0,
				strength: self.mix(),
				atten: if self.r.chance(1, 3) { None } else { Some(self.easing()) },
				frames: self.frames(),
				vol: self.db(),
			},
			11 | 12 | 13 => Op::Cmd(self.cmd()),
			14 => Op::DropHandle { sel: self.r.next() },
			15 => {
				if !self.boundary && self.r.chance(1, 2) {
					// streaming sounds only with documented-range values: their decoder thread is not paced,
					// so a failure in such a scene must not depend on a counterfactual re-run
					let n = self.r.below(400) as usize;
					let looped = if self.r.chance(1, 3) { Some((0.0, (self.r.below(n as u64 + 1) + 1) as f64 / sc.sr as f64)) } else { None };
					Op::PlayStream { frames: FramesSpec { n, kind: *self.r.pick(&[0u8, 1, 3, 7]), seed: self.r.next() }, ssr: *self.r.pick(&[sc.sr, 22050, 8000]), packet: *self.r.pick(&[1usize, 7, 64, 1000]), vol: (self.r.unit_f64() * 30.0 - 30.0) as f32, pan: self.pan(), rate: *self.r.pick(&[1.0, 0.5, 2.0, 1.5]), looped, on: if self.r.chance(1, 2) { Some(self.r.next()) } else { None } }
				} else {
					Op::PlayProbe { len: self.r.below(40), on: if self.r.chance(1, 2) { Some(self.r.next()) } else { None } }
				}
			}
			_ => self.callback(sc.ibs),
		}
	}
	fn random_scene(&mut self) -> Scene {
		let mut sc = self.header();
		let nops = self.r.range(6, 30);
		for _ in 0..nops {
			let op = self.op(&sc);
			sc.ops.push(op);
		}
		// most rate changes should find the tracks already owned by the renderer (F45 ends a scene early)
		for i in resync_rate_changes(&sc.ops, sc.sr).into_iter().rev() {
			if self.r.chance(3, 4) {
				let c = self.callback(sc.ibs);
				sc.ops.insert(i, c);
			}
		}
		if !self.on(HZ_RESYNC) {
			// F45 not listed: no rate change while a track with delay / reverb lines is still queued
			loop {
				let hits = resync_rate_changes(&sc.ops, sc.sr);
				match hits.first() {
					Some(i) => {
						sc.ops.remove(*i);
					}
					None => break,
				}
			}
		}
		sc
	}

	/// directed scenarios: rare audio-thread branches that the random stream reaches too seldom
	fn scenario(&mut self) -> Scene {
		let mut sc = self.header();
		sc.caps = [4, 2, 2, 3, 1];
		sc.main_cap = 4;
		let ibs = sc.ibs;
		let which = self.r.below(8);
		let short_tw = |g: &mut Gen| Tw { st: St::Immediate, dur: Duration::from_nanos(g.r.below(6) * 1_000_000_000 / sc.sr as u64), easing: Easing::Linear };
		let cb = |g: &mut Gen, ops: &mut Vec<Op>, n: u64| {
			for _ in 0..n {
				let c = g.callback(ibs);
				ops.push(c);
			}
		};
		let mut ops: Vec<Op> = vec![];
		let plain = |g: &mut Gen, n: usize, on: Option<u64>| PlaySpec { frames: FramesSpec { n, kind: *g.r.pick(&[0u8, 1, 3, 7]), seed: g.r.next() }, ssr: sc.sr, vol: g.db(), pan: g.pan(), rate: 1.0, reverse: false, looped: None, start: None, fade_in: None, start_time: St::Immediate, slice: None, on };
		match which {
			0 => {
				// a sound finishes / is stopped while its track is pausing or paused
				ops.push(Op::AddSub(SubSpec { vol: self.db(), cap: 3, sub_cap: 1, persist: self.r.chance(1, 2), fx: vec![Fx::Probe], keep_fx_handles: false, send: None, parent: None }));
				let n = self.r.below(3 * ibs as u64 + 6) as usize;
				if self.r.chance(1, 2) {
					ops.push(Op::Play(plain(self, n, Some(0))));
				} else {
					ops.push(Op::PlayProbe { len: n as u64, on: Some(0) });
				}
				ops.push(Op::Callback { frames: self.r.below(4) as usize, ch: 2 });
				let tw = short_tw(self);
				if self.r.chance(1, 2) {
					ops.push(Op::Cmd(CmdSpec { sel: 1, which: 2, tw: tw.clone(), ..self.cmd() })); // stop the sound
				}
				ops.push(Op::Cmd(CmdSpec { sel: 0, which: 0, tw, ..self.cmd() })); // pause the track
				cb(self, &mut ops, 3);
				// ... and sounds that are already finished arrive on the paused track
				if self.r.chance(2, 3) {
					ops.push(Op::PlayProbe { len: self.r.below(3), on: Some(0) });
					let p = plain(self, 0, Some(0));
					ops.push(Op::Play(p));
					cb(self, &mut ops, 2);
				}
				if self.r.chance(1, 2) {
					ops.push(Op::DropHandle { sel: 0 });
				} else {
					ops.push(Op::Cmd(CmdSpec { sel: 0, which: 1, tw: short_tw(self), ..self.cmd() }));
				}
				cb(self, &mut ops, 3);
				ops.push(Op::PlayProbe { len: 2, on: None });
				cb(self, &mut ops, 2);
			}
			1 => {
				// backwards through a loop region (negative rate and / or reverse)
				let n = self.r.below(60) as usize + 8;
				let a = self.r.below(n as u64 / 2) as f64 / sc.sr as f64;
				let b = a + (self.r.below(n as u64 / 2) + 1) as f64 / sc.sr as f64;
				let mut p = plain(self, n, None);
				p.rate = *self.r.pick(&[-1.0, -0.5, -2.0, -3.0, 1.0, 2.0, -1.0]);
				p.reverse = self.r.chance(1, 3);
				p.looped = Some((a, b));
				p.start = if self.r.chance(1, 2) { Some(self.r.below(n as u64 + 2) as usize) } else { None };
				ops.push(Op::Play(p));
				for _ in 0..6 {
					ops.push(Op::Callback { frames: self.r.below(2 * n as u64) as usize + 1, ch: 2 });
					if self.r.chance(1, 3) {
						ops.push(Op::Cmd(CmdSpec { sel: 0, which: *self.r.pick(&[4u64, 6, 7, 9]), rate: *self.r.pick(&[-1.0, 1.0, -2.5, 0.5]), tw: short_tw(self), ..self.cmd() }));
					}
				}
			}
			2 => {
				// churn: tracks with sounds and probes come and go; creation drains the unused queues on the caller's thread
				for k in 0..self.r.range(3, 7) {
					ops.push(Op::AddSub(SubSpec { vol: self.db(), cap: 2, sub_cap: 2, persist: self.r.chance(1, 2), fx: vec![Fx::Probe, self.fx(false)], keep_fx_handles: false, send: None, parent: if self.r.chance(1, 3) { Some(self.r.next()) } else { None } }));
					ops.push(Op::PlayProbe { len: self.r.below(2 * ibs as u64 + 3), on: Some(k as u64) });
					let (pn, po) = (self.r.below(20) as usize, self.r.next());
					let p = plain(self, pn, Some(po));
					ops.push(Op::Play(p));
					cb(self, &mut ops, 1);
					if self.r.chance(2, 3) {
						ops.push(Op::DropHandle { sel: self.r.next() });
					}
					cb(self, &mut ops, 1);
				}
				cb(self, &mut ops, 2);
			}
			3 => {
				// clock-timed starts; the clock goes away before it fires (the sound will never start)
				ops.push(Op::AddClock { speed: ClockSpeed::TicksPerSecond(sc.sr as f64 / (ibs as f64 * (1 + self.r.below(3)) as f64)), start: self.r.chance(3, 4) });
				let mut p = plain(self, 30, None);
				p.start_time = St::Clock { sel: 0, ticks: self.r.below(4) };
				p.fade_in = Some(Tw { st: St::Clock { sel: 0, ticks: 1 }, dur: Duration::from_millis(1), easing: Easing::Linear });
				ops.push(Op::Play(p));
				ops.push(Op::PlayProbe { len: 5, on: None });
				cb(self, &mut ops, 2);
				ops.push(Op::Cmd(CmdSpec { sel: 1, which: 8, tw: Tw { st: St::Clock { sel: 0, ticks: 2 + self.r.below(3) }, dur: Duration::ZERO, easing: Easing::Linear }, ..self.cmd() }));
				if self.r.chance(1, 2) {
					ops.push(Op::DropHandle { sel: 0 });
				}
				cb(self, &mut ops, 4);
				ops.push(Op::PlayProbe { len: 1, on: None });
				cb(self, &mut ops, 2);
			}
			4 => {
				// pause / resume / stop / seek with short tweens, many small callbacks
				let n = self.r.below(200) as usize + 1;
				let mut p = plain(self, n, None);
				p.rate = *self.r.pick(&[1.0, 0.5, 2.0, -1.0]);
				ops.push(Op::Play(p));
				for _ in 0..self.r.range(6, 14) {
					ops.push(Op::Cmd(CmdSpec { sel: 0, tw: short_tw(self), ..self.cmd() }));
					cb(self, &mut ops, 1);
				}
			}
			5 => {
				// modulators and listeners that finish or lose their handles, linked parameters
				ops.push(Op::AddLfo { wave: self.r.below(4) as u8, f: 2.0 + self.r.unit_f64() * 50.0, amp: 1.0, offset: 0.0, phase: 0.0 });
				ops.push(Op::AddProbeMod { len: self.r.below(4) });
				ops.push(Op::AddTweener { init: 0.5 });
				ops.push(Op::AddSub(SubSpec { vol: -3.0, cap: 2, sub_cap: 1, persist: false, fx: vec![Fx::Filter { mode: FilterMode::LowPass, cutoff: 1000.0, linked: true, res: 0.2, mix: 1.0 }, Fx::Probe], keep_fx_handles: true, send: None, parent: None }));
				let p = plain(self, 100, Some(0));
				ops.push(Op::Play(p));
				cb(self, &mut ops, 2);
				ops.push(Op::DropHandle { sel: self.r.below(3) });
				cb(self, &mut ops, 2);
				ops.push(Op::AddProbeMod { len: 1 });
				ops.push(Op::DropHandle { sel: 0 });
				cb(self, &mut ops, 3);
				ops.push(Op::AddProbeMod { len: 0 });
				cb(self, &mut ops, 1);
			}
			6 => {
				// the device sample rate changes under tracks with delay / reverb lines: owned ones are told at
				// once (outside the callback), queued ones re-synchronise in the next callback (F45)
				let short = Duration::from_micros(self.r.below(3000) + 50);
				let fxs = vec![Fx::Delay { time: short, fb: -12.0, mix: 0.5, fbfx: if self.r.chance(1, 3) { Some((800.0, 0.3)) } else { None } }, Fx::Reverb { fb: 0.6, damp: 0.4, width: 0.8, mix: 0.3 }, Fx::Probe];
				let nfx = self.r.range(1, 3) as usize;
				ops.push(Op::AddSub(SubSpec { vol: -6.0, cap: 2, sub_cap: 1, persist: false, fx: fxs[..nfx].to_vec(), keep_fx_handles: false, send: None, parent: None }));
				let p = plain(self, 300, Some(0));
				ops.push(Op::Play(p));
				cb(self, &mut ops, 2);
				for _ in 0..self.r.range(1, 3) {
					ops.push(Op::RateChange { sr: self.device_rate() });
					cb(self, &mut ops, 2);
				}
				if self.on(HZ_RESYNC) && self.r.chance(1, 2) {
					ops.push(Op::AddSub(SubSpec { vol: -6.0, cap: 2, sub_cap: 1, persist: false, fx: vec![fxs[self.r.below(2) as usize].clone()], keep_fx_handles: false, send: None, parent: if self.r.chance(1, 2) { Some(0) } else { None } }));
					ops.push(Op::RateChange { sr: self.device_rate() });
					cb(self, &mut ops, 2);
				}
			}
			_ => {
				// send tracks and routes; the send track goes away while it is still routed to
				ops.push(Op::AddSend { vol: self.db(), probe: true });
				ops.push(Op::AddSub(SubSpec { vol: self.db(), cap: 2, sub_cap: 1, persist: true, fx: vec![], keep_fx_handles: false, send: Some(self.db()), parent: None }));
				let p = plain(self, 80, Some(0));
				ops.push(Op::Play(p));
				cb(self, &mut ops, 2);
				ops.push(Op::DropHandle { sel: 0 });
				cb(self, &mut ops, 2);
				ops.push(Op::AddSend { vol: 0.0, probe: true });
				ops.push(Op::DropHandle { sel: 0 });
				cb(self, &mut ops, 3);
			}
		}
		sc.ops = ops;
		sc
	}

	/// slot re-use in whole scenes: resources of several kinds (send tracks with routed sub-tracks, clocks,
	/// modulators, listeners, sub-tracks, probe sounds) are added, used for a few callbacks and given up
	/// again, for more rounds than the smallest storage (and its unused-ring, capacity + 1) has slots;
	/// capacities from 1 up to the defaults
	fn recycle(&mut self) -> Scene {
		let mut sc = self.header();
		sc.caps = [*self.r.pick(&[3usize, 4, 8]), *self.r.pick(&[1usize, 2, 3, 16]), *self.r.pick(&[1usize, 2, 8]), *self.r.pick(&[1usize, 2, 3, 16]), *self.r.pick(&[1usize, 2, 8])];
		sc.main_cap = 4;
		let ibs = sc.ibs;
		let mut ops: Vec<Op> = vec![];
		// prelude (two handles that stay): a sub-track with a looping sound
		ops.push(Op::AddSub(SubSpec { vol: -6.0, cap: 2, sub_cap: 1, persist: false, fx: vec![], keep_fx_handles: false, send: None, parent: None }));
		ops.push(Op::Play(PlaySpec { frames: FramesSpec { n: 64, kind: 3, seed: 1 }, ssr: sc.sr, vol: -6.0, pan: 0.0, rate: 1.0, reverse: false, looped: Some((0.0, 64.0 / sc.sr as f64)), start: None, fade_in: None, start_time: St::Immediate, slice: None, on: Some(0) }));
		let base = 2u64;
		// kinds taking part: bit 0 send (+ routed sub-track), 1 clock, 2 modulator, 3 listener, 4 sub-track, 5 probe sound
		let mut kinds = self.r.below(64);
		if self.r.chance(2, 3) {
			kinds |= 1;
		}
		if kinds == 0 {
			kinds = 1;
		}
		let mut slots = usize::MAX;
		let mut most = 0usize;
		for (bit, cap) in [(1u64, sc.caps[1]), (2, sc.caps[2]), (4, sc.caps[3]), (8, sc.caps[4]), (16, sc.caps[0] - 2)] {
			if kinds & bit != 0 {
				slots = slots.min(cap);
				most = most.max(cap);
			}
		}
		if slots == usize::MAX {
			slots = 2;
			most = 2;
		}
		let rounds = if self.r.chance(1, 2) { most } else { slots } as u64 + 2 + self.r.below(3);
		for _ in 0..rounds {
			let mut held = 0u64;
			if kinds & 1 != 0 {
				ops.push(Op::AddSend { vol: self.db(), probe: self.r.chance(1, 2) });
				held += 1;
				if self.r.chance(2, 3) {
					// routed to the first send track alive, i.e. this one
					ops.push(Op::AddSub(SubSpec { vol: self.db(), cap: 2, sub_cap: 1, persist: self.r.chance(1, 3), fx: vec![], keep_fx_handles: false, send: Some(self.db()), parent: None }));
					held += 1;
				}
			}
			if kinds & 2 != 0 {
				ops.push(Op::AddClock { speed: self.clock_speed(), start: self.r.chance(3, 4) });
				held += 1;
			}
			if kinds & 4 != 0 {
				if self.r.chance(1, 2) {
					ops.push(Op::AddTweener { init: self.unit() });
				} else {
					ops.push(Op::AddLfo { wave: self.r.below(4) as u8, f: 2.0 + self.r.unit_f64() * 50.0, amp: 1.0, offset: 0.0, phase: 0.0 });
				}
				held += 1;
			}
			if kinds & 8 != 0 {
				ops.push(Op::AddListener { pos: self.pos() });
				held += 1;
			}
			if kinds & 16 != 0 {
				ops.push(Op::AddSub(SubSpec { vol: self.db(), cap: 2, sub_cap: 1, persist: false, fx: vec![Fx::Probe], keep_fx_handles: false, send: None, parent: None }));
				held += 1;
			}
			if kinds & 32 != 0 {
				ops.push(Op::PlayProbe { len: self.r.below(2 * ibs as u64 + 3), on: None });
			}
			for _ in 0..self.r.below(3) {
				let c = self.callback(ibs);
				ops.push(c);
			}
			// give up what this round added, last first (the handle list shrinks from its end)
			for k in (0..held).rev() {
				ops.push(Op::DropHandle { sel: base + k });
			}
			for _ in 0..1 + self.r.below(2) {
				let c = self.callback(ibs);
				ops.push(c);
			}
		}
		sc.ops = ops;
		sc
	}
}

fn listed_classes() -> BTreeSet<String> {
	// read-only: which classes are listed (status known) for C01
	let mut out = BTreeSet::new();
	if let Ok(t) = std::fs::read_to_string("/verif/known_findings.json") {
		// a tiny scan is enough: objects are flat; take "class" of entries with property C01 and status known
		for obj in t.split('{').skip(1) {
			let get = |k: &str| -> Option<String> {
				let i = obj.find(&format!("\"{k}\""))?;
				let rest = &obj[i + k.len() + 2..];
				let a = rest.find('"')?;
				let b = rest[a + 1..].find('"')?;
				Some(rest[a + 1..a + 1 + b].to_string())
			};
			if get("property").as_deref() == Some("C01") && get("status").as_deref() == Some("known") {
				if let Some(c) = get("class") {
					out.insert(c);
				}
			}
		}
	}
	out
}

// ------------------------------------------------------------------------------------------------
// F40 (repaired), regression against the models: a seek far beyond / below a loop region
// ------------------------------------------------------------------------------------------------
/// index-coded in-memory decoder (frame i is `indexed_frame(i)`)
struct IdxDecoder {
	n: usize,
	pos: usize,
	sr: u32,
}
impl Decoder for IdxDecoder {
	type Error = ();
	fn sample_rate(&self) -> u32 {
		self.sr
	}
	fn num_frames(&self) -> usize {
		self.n
	}
	fn decode(&mut self) -> Result<Vec<Frame>, ()> {
		let end = (self.pos + 32).min(self.n);
		let v = (self.pos..end).map(indexed_frame).collect();
		self.pos = end;
		Ok(v)
	}
	fn seek(&mut self, index: usize) -> Result<usize, ()> {
		self.pos = index.min(self.n);
		Ok(self.pos)
	}
}
/// A looping STREAMING sound at rate 1; after a few callbacks `seek_to(t)` / `seek_by(t)` with a target
/// far outside the sound.  The wrap runs on the decoder thread: before the repair that thread never
/// came back from `Transport::seek_to` and the sound fell silent once the frame ring had drained.
/// Monitor: the frames heard follow the loop's successor function except for ONE jump, the sound does
/// not fall silent; model (`CSeek`): the jump lands on the frame `Transport::seek_to` computes.
fn stream_seek_regression(s: &mut Session) {
	use kira::info::MockInfoBuilder;
	use kira::sound::EndPosition;
	let (sr, n) = (48000u32, 400usize);
	let dt = 1.0 / sr as f64;
	// one attempt: Ok(Some((frame heard before the jump, frame it landed on))), Ok(None): no jump seen
	let attempt = |ls: usize, le: usize, t: f64, by: bool, chunk: usize, pause_us: u64| -> (i128, Result<Option<(usize, usize)>, String>) {
		let info = MockInfoBuilder::new().build();
		let data = StreamingSoundData::from_decoder(IdxDecoder { n, pos: 0, sr }).loop_region(Region { start: PlaybackPosition::Samples(ls), end: EndPosition::Custom(PlaybackPosition::Samples(le)) });
		let (mut sound, mut handle) = match data.into_sound() {
			Ok(x) => x,
			Err(_) => return (0, Err("into_sound() failed".into())),
		};
		let target: i128 = {
			let p = if by { handle.position() + t } else { t };
			((p * sr as f64).round() as usize) as i128
		};
		let succ = |x: usize| if x + 1 >= le { ls + (x + 1 - ls) % (le - ls) } else { x + 1 };
		// let the decoder thread fill the frame ring first (an underrun skips a frame)
		std::thread::sleep(Duration::from_millis(40));
		let mut heard: Vec<usize> = vec![];
		let mut jump: Option<(usize, usize)> = None;
		let mut bad: Option<String> = None;
		let mut after_jump = 0usize;
		let mut sought = false;
		let start = std::time::Instant::now();
		let mut last_sound = std::time::Instant::now();
		let mut round = 0;
		while start.elapsed() < Duration::from_millis(6000) && after_jump < 200 && bad.is_none() {
			if round == 3 {
				if by {
					handle.seek_by(t)
				} else {
					handle.seek_to(t)
				}
				sought = true;
				last_sound = std::time::Instant::now();
			}
			round += 1;
			let mut out = vec![Frame::ZERO; if sought { chunk } else { 16 }];
			sound.on_start_processing();
			sound.process(&mut out, dt, &info);
			for f in out {
				if f.left == 0.0 && f.right == 0.0 {
					continue; // waiting for the decoder
				}
				last_sound = std::time::Instant::now();
				let x = f.left as f64 * 65536.0 - 1.0;
				if !(x >= 0.0 && x < n as f64 && x.fract() == 0.0) {
					bad = Some(format!("a frame that is not a source frame was heard: ({}, {})", f.left, f.right));
					break;
				}
				let x = x as usize;
				if let Some(&prev) = heard.last() {
					if x != succ(prev) {
						if jump.is_some() || !sought {
							bad = Some(format!("frame {x} heard after frame {prev} (the successor in the loop is {})", succ(prev)));
							break;
						}
						jump = Some((prev, x));
					}
				}
				heard.push(x);
				if jump.is_some() {
					after_jump += 1;
				}
			}
			if sought && last_sound.elapsed() > Duration::from_millis(1500) {
				bad = Some(format!("silent for 1.5 s after the seek ({} frames heard, last {:?}): the decoder thread does not deliver any more", heard.len(), heard.last()));
			}
			// the decoder thread sleeps 1 ms whenever the frame ring is full: give it time to refill, so that
			// the ring never runs empty (an underrun skips frames, which is not what is examined here)
			std::thread::sleep(Duration::from_micros(pause_us));
		}
		handle.stop(Tween::default());
		sound.on_start_processing();
		let mut out = vec![Frame::ZERO; 4];
		sound.process(&mut out, 1.0, &info);
		(target, match bad {
			Some(w) => Err(w),
			None => Ok(jump),
		})
	};
	let mut failed = 0;
	for (ls, le) in [(0usize, 48usize), (10, 57), (100, 400)] {
		for (t, by) in [(1e300, false), (1e300, true), (-1e300, true), (1e12, false)] {
			if failed >= 2 {
				return;
			}
			let desc = format!("streaming sound of {n} index-coded frames at {sr} Hz, loop region {ls}..{le} frames, rate 1; callbacks; {}({t:e}); callbacks", if by { "seek_by" } else { "seek_to" });
			// the property's own prediction of the landing frame (the model's is compared through `CSeek`)
			let want = |prev: usize, target: i128| -> i128 {
				let (ls, le, len) = (ls as i128, le as i128, (le - ls) as i128);
				if target > prev as i128 {
					if target >= le { ls + (target - ls) % len } else { target }
				} else if target < ls {
					le - 1 - (ls - 1 - target) % len
				} else {
					target
				}
			};
			// (a run disturbed by an underrun of the frame ring on a busy machine is repeated at a slower pace)
			let mut res = (0, Ok(None));
			for (chunk, pause_us) in [(256usize, 1500u64), (64, 3000), (32, 5000)] {
				res = attempt(ls, le, t, by, chunk, pause_us);
				match &res.1 {
					Ok(Some((prev, q))) if want(*prev, res.0) == *q as i128 => break,
					Ok(None) => break,
					Err(w) if w.starts_with("silent") => break,
					_ => {}
				}
			}
			match res {
				(_, Err(what)) => {
					failed += 1;
					s.fail(desc, what, None);
				}
				(target, Ok(Some((prev, q)))) => {
					if want(prev, target) != q as i128 {
						s.fail(desc, format!("after the seek to frame index {target} (read while frame {prev} was the last one decoded) frame {q} is heard; the loop region wraps it to frame {}", want(prev, target)), None);
					}
					let term = format!("CSeek {prev} (Some ({ls}, {le})) true ({target}) {n}");
					s.case("regression_F40_stream_seek_landing", term, &[0, q as i128, if q < n { 1 } else { 0 }], Some(format!("{ls}-{le}-{t:e}-{by}")));
				}
				// the target happened to be the loop's next frame: nothing to see
				(_, Ok(None)) => s.eval_only("regression_F40_stream_seek_no_jump"),
			}
		}
	}
}
// ------------------------------------------------------------------------------------------------
// fixed witnesses of the findings (the `_refuted` theorems' inputs, replayed on the real code)
// ------------------------------------------------------------------------------------------------
fn base_scene(sr: u32, ibs: usize) -> Scene {
	Scene { sr, ibs, caps: [4, 2, 2, 2, 1], main_vol: 0.0, main_cap: 4, main_fx: vec![], ops: vec![] }
}
fn plain_play(sr: u32, n: usize, kind: u8) -> PlaySpec {
	PlaySpec { frames: FramesSpec { n, kind, seed: 1 }, ssr: sr, vol: 0.0, pan: 0.0, rate: 1.0, reverse: false, looped: None, start: None, fade_in: None, start_time: St::Immediate, slice: None, on: None }
}
fn plain_cmd() -> CmdSpec {
	CmdSpec { sel: 0, which: 0, tw: Tw { st: St::Immediate, dur: Duration::from_millis(10), easing: Easing::Linear }, db: 0.0, rate: 1.0, pan: 0.0, u: 0.5, seek: 0.01, mixv: 0.5, speed: ClockSpeed::TicksPerSecond(2.0), freq: 1000.0, pos: [0.0; 3] }
}
/// `Some(class)`: witness of a listed finding (must fail and be attributed to exactly that class);
/// `None`: regression scene of a repaired finding (must render finite, well-formed output)
fn corpus() -> Vec<(Option<&'static str>, &'static str, Scene)> {
	let cb = Op::Callback { frames: 64, ch: 2 };
	let mut v = vec![];
	// F5: sound volume +1000 dB on a sound containing a zero sample (inf * 0)
	let mut s = base_scene(48000, 64);
	s.ops = vec![Op::Play(PlaySpec { vol: 1000.0, ..plain_play(48000, 100, 7) }), cb.clone()];
	v.push((None, "F5: sound volume +1000 dB on a silent sound", s));
	// F29: frames alternating +-3e38 at rate 1
	let mut s = base_scene(48000, 64);
	s.ops = vec![Op::Play(plain_play(48000, 100, 6)), cb.clone()];
	v.push((None, "F29: static sound whose frames alternate +3e38 / -3e38", s));
	// F33: compressor ratio 0 on the main track, silence
	let mut s = base_scene(48000, 64);
	s.main_fx = vec![Fx::Compressor { thr: -24.0, ratio: 0.0, attack: Duration::from_millis(10), release: Duration::from_millis(100), makeup: 0.0, mix: 1.0 }];
	s.ops = vec![cb.clone()];
	v.push((None, "F33: CompressorBuilder::new().ratio(0.0) on the main track, silence", s));
	// F36: easing with a negative power
	let mut s = base_scene(48000, 64);
	s.ops = vec![
		Op::AddSub(SubSpec { vol: 0.0, cap: 2, sub_cap: 1, persist: false, fx: vec![], keep_fx_handles: false, send: None, parent: None }),
		Op::Cmd(CmdSpec { sel: 0, which: 1, tw: Tw { st: St::Immediate, dur: Duration::from_secs(1), easing: Easing::InPowi(-40) }, ..plain_cmd() }),
		cb.clone(),
	];
	v.push((None, "F36 (NaN half): track.resume(Tween { duration: 1 s, easing: InPowi(-40) }) on an empty sub-track", s));
	// F37: two finite gains whose product overflows, panned hard left (inf * 0 on the right)
	let mut s = base_scene(48000, 64);
	s.main_fx = vec![Fx::Pan(-1.0)];
	s.ops = vec![
		Op::AddSub(SubSpec { vol: 700.0, cap: 2, sub_cap: 1, persist: false, fx: vec![], keep_fx_handles: false, send: None, parent: None }),
		Op::Play(PlaySpec { vol: 700.0, on: Some(0), ..plain_play(48000, 100, 1) }),
		cb.clone(),
	];
	v.push((None, "F37: sound volume +700 dB on a track of volume +700 dB, hard-left panning effect on the main track", s));
	// F38: compressor threshold -1e300 (f32: -inf) on a non-silent signal
	let mut s = base_scene(48000, 64);
	s.main_fx = vec![Fx::Compressor { thr: -1e300, ratio: 2.0, attack: Duration::from_millis(10), release: Duration::from_millis(100), makeup: 0.0, mix: 1.0 }];
	s.ops = vec![Op::Play(plain_play(48000, 100, 1)), cb.clone()];
	v.push((None, "F38: CompressorBuilder::new().threshold(-1e300) on a non-silent signal", s));
	// F39: EQ gain -1e30 dB
	let mut s = base_scene(48000, 64);
	s.main_fx = vec![Fx::Eq { kind: EqFilterKind::Bell, f: 1000.0, gain: -1e30, q: 1.0 }];
	s.ops = vec![Op::Play(plain_play(48000, 100, 1)), cb.clone()];
	v.push((None, "F39: EqFilterBuilder::new(Bell, 1000.0, Decibels(-1e30), 1.0)", s));
	// F33, the other parameters: reverb stereo width 2.0 and feedback 1e300, delay feedback +24 dB on one frame
	let mut s = base_scene(48000, 64);
	s.main_fx = vec![Fx::Reverb { fb: 1e300, damp: -1.0, width: 2.0, mix: 0.5 }, Fx::Delay { time: Duration::ZERO, fb: 24.0, mix: 0.5, fbfx: None }];
	s.ops = vec![Op::Play(plain_play(48000, 200, 1)), cb.clone(), cb.clone(), cb.clone()];
	v.push((None, "F33: reverb feedback 1e300 / damping -1 / width 2 and delay feedback +24 dB over a one-frame line", s));
	// F45: a track with a delay is still queued when the device rate changes
	let mut s = base_scene(48000, 64);
	s.ops = vec![
		Op::AddSub(SubSpec { vol: 0.0, cap: 2, sub_cap: 1, persist: false, fx: vec![Fx::Delay { time: Duration::from_millis(5), fb: -12.0, mix: 0.5, fbfx: None }], keep_fx_handles: false, send: None, parent: None }),
		Op::RateChange { sr: 44100 },
		cb.clone(),
	];
	v.push((Some(HZ_RESYNC), "add_sub_track(with a Delay); device rate 48000 -> 44100; one callback", s));
	// ... while a track the renderer already owns is told outside the callback: no allocation in any callback
	let mut s = base_scene(48000, 64);
	s.ops = vec![
		Op::AddSub(SubSpec { vol: 0.0, cap: 2, sub_cap: 1, persist: false, fx: vec![Fx::Delay { time: Duration::from_millis(1), fb: -12.0, mix: 0.5, fbfx: None }, Fx::Reverb { fb: 0.5, damp: 0.5, width: 0.5, mix: 0.5 }], keep_fx_handles: false, send: None, parent: None }),
		Op::Play(PlaySpec { on: Some(0), ..plain_play(48000, 300, 3) }),
		cb.clone(),
		Op::RateChange { sr: 192000 },
		cb.clone(),
		Op::RateChange { sr: 8000 },
		cb.clone(),
	];
	v.push((None, "owned track with Delay and Reverb across rate changes 48000 -> 192000 -> 8000", s));
	// F36, hang half: the same easing on a playback rate
	let mut s = base_scene(48000, 64);
	s.ops = vec![
		Op::Play(PlaySpec { looped: Some((0.0, 0.001)), ..plain_play(48000, 100, 1) }),
		Op::Cmd(CmdSpec { sel: 0, which: 4, rate: 2.0, tw: Tw { st: St::Immediate, dur: Duration::from_secs(1), easing: Easing::InPowi(-40) }, ..plain_cmd() }),
		cb.clone(),
	];
	v.push((Some(HZ_EASING), "sound.set_playback_rate(2.0, Tween { duration: 1 s, easing: InPowi(-40) }) on a looping sound", s));
	// F40 (repaired): regression scenes: a seek far beyond / below a loop region
	for (which, seek, what) in [
		(6u64, 1e300, "F40: sound.seek_to(1e300) on a sound with a loop region"),
		(7, 1e300, "F40: sound.seek_by(1e300) on a sound with a loop region"),
		(7, -1e300, "F40: sound.seek_by(-1e300) on a sound with a loop region"),
		(6, 1e15, "F40: sound.seek_to(1e15) on a sound with a loop region"),
	] {
		let mut s = base_scene(48000, 64);
		s.ops = vec![Op::Play(PlaySpec { looped: Some((0.0, 0.001)), ..plain_play(48000, 100, 1) }), cb.clone(), Op::Cmd(CmdSpec { which, seek, ..plain_cmd() }), cb.clone(), cb.clone()];
		v.push((None, what, s));
	}
	// ... the same on a streaming sound (there the wrap runs on the decoder thread)
	for (which, seek, what) in [(6u64, 1e300, "F40: streaming sound with a loop region; seek_to(1e300); callbacks"), (7, 1e300, "F40: streaming sound with a loop region; seek_by(1e300); callbacks")] {
		let mut s = base_scene(48000, 64);
		s.ops = vec![
			Op::PlayStream { frames: FramesSpec { n: 400, kind: 1, seed: 1 }, ssr: 48000, packet: 32, vol: 0.0, pan: 0.0, rate: 1.0, looped: Some((0.0, 0.001)), on: None },
			cb.clone(),
			Op::Cmd(CmdSpec { which, seek, ..plain_cmd() }),
			cb.clone(),
			cb.clone(),
			cb.clone(),
		];
		v.push((None, what, s));
	}
	// slot re-use with the default capacities: 20 rooms, each with a reverb send, a sub-track routed to it and a
	// looping sound, entered and left again (the unused-ring of the 16 send-track slots has 17 places)
	let mut s = base_scene(48000, 64);
	s.caps = [128, 16, 8, 16, 8];
	s.main_cap = 128;
	for _ in 0..20 {
		s.ops.push(Op::AddSend { vol: 0.0, probe: true });
		s.ops.push(Op::AddSub(SubSpec { vol: 0.0, cap: 2, sub_cap: 1, persist: false, fx: vec![], keep_fx_handles: false, send: Some(-6.0), parent: None }));
		s.ops.push(Op::Play(PlaySpec { on: Some(0), looped: Some((0.0, 0.002)), ..plain_play(48000, 100, 3) }));
		s.ops.extend([cb.clone(), cb.clone()]);
		s.ops.extend([Op::DropHandle { sel: 2 }, Op::DropHandle { sel: 1 }, Op::DropHandle { sel: 0 }]);
		s.ops.push(cb.clone());
	}
	v.push((None, "20 rounds of add_send_track + routed sub-track + looping sound, callbacks, drop all three, callback (default capacities)", s));
	// F7 (repaired): regression scenes
	let mut s = base_scene(48000, 64);
	s.ops = vec![Op::AddClock { speed: ClockSpeed::SecondsPerTick(0.0), start: true }, cb.clone(), cb.clone()];
	v.push((None, "F7: add_clock(SecondsPerTick(0.0)); start; callbacks", s));
	let mut s = base_scene(48000, 64);
	s.ops = vec![Op::AddClock { speed: ClockSpeed::TicksPerSecond(1e300), start: true }, cb.clone(), cb.clone()];
	v.push((None, "F7: add_clock(TicksPerSecond(1e300)); start; callbacks", s));
	let mut s = base_scene(1, 64);
	s.ops = vec![Op::AddClock { speed: ClockSpeed::TicksPerSecond(1e9), start: true }, cb.clone(), cb.clone()];
	v.push((None, "F7 (finite cost): add_clock(TicksPerSecond(1e9)) on a 1 Hz device; start; callbacks", s));
	// F8
	let mut s = base_scene(48000, 64);
	s.ops = vec![Op::Play(PlaySpec { rate: 1e300, looped: Some((0.0, 0.001)), ..plain_play(48000, 100, 1) }), cb.clone()];
	v.push((Some(HZ_RATE), "play(sound with playback_rate 1e300 and a loop region); one callback", s));
	// F34
	let mut s = base_scene(1, 64);
	s.ops = vec![Op::Play(PlaySpec { rate: 1e6, ssr: 22050, looped: Some((0.0, 0.001)), ..plain_play(22050, 100, 1) }), cb.clone()];
	v.push((Some(HZ_RATE_COST), "sound at 22050 Hz with playback_rate 1e6 on a 1 Hz device", s));
	v
}

/// the output stage against the model: a static sound at unit gain on a bare main track
fn out_stage_cases(s: &mut Session, rng: &mut Rng, count: u64) {
	let vals: Vec<f32> = vec![
		0.0, 1.0, -1.0, 0.5, -0.5, 1.0000001, -1.0000001, 0.99999994, 1.5, -3.0, 1e30, -1e30, 1e-45, -1e-45, 1e-38, 2.0, 1.0e10, 0.33333334, -0.7, 8.0e20,
	];
	for _ in 0..count {
		let n = rng.range(1, 10) as usize;
		let ch = rng.range(1, 8) as u16;
		let ibs = *rng.pick(&[1usize, 2, 3, 8, 64]);
		let frames: Vec<Frame> = (0..n)
			.map(|_| {
				let v = |r: &mut Rng| if r.chance(1, 2) { *r.pick(&vals) } else { (r.unit_f64() * 3.0 - 1.5) as f32 };
				Frame::new(v(rng), v(rng))
			})
			.collect();
		let mut m = simple_manager(1024, ibs);
		let _h = m.play(sound_from_frames(1024, frames.clone())).unwrap();
		let out = m.backend_mut().callback(n, ch);
		let term = format!(
			"COut {} {} [{}]",
			ch,
			ibs,
			frames.iter().map(|f| format!("({}, {})", f32_bits_z(f.left), f32_bits_z(f.right))).collect::<Vec<_>>().join("; ")
		);
		let obs: Vec<i128> = out.iter().map(|x| obs32(*x)).collect();
		s.case("out_stage", term.clone(), &obs, Some(term.clone()));
		// the layout clauses, directly
		for (k, fr) in frames.iter().enumerate() {
			let fc = |x: f32| if x.is_nan() { 0.0 } else { x.clamp(-1.0, 1.0) };
			let (l, r) = (fc(fr.left), fc(fr.right));
			let o = &out[k * ch as usize..(k + 1) * ch as usize];
			if ch == 1 {
				if o[0].to_bits() != ((l + r) / 2.0).to_bits() {
					s.fail(term.clone(), format!("mono sample {:?} is not the mean of left {l:?} and right {r:?}", o[0]), None);
				}
			} else {
				if o[0].to_bits() != l.to_bits() || o[1].to_bits() != r.to_bits() {
					s.fail(term.clone(), format!("frame {k}: ({:?},{:?}) instead of clamped ({l:?},{r:?})", o[0], o[1]), None);
				}
				if o[2..].iter().any(|x| x.to_bits() != 0) {
					s.fail(term.clone(), format!("frame {k}: extra channels not silent: {:?}", &o[2..]), None);
				}
			}
		}
	}
}

// ------------------------------------------------------------------------------------------------
// slot re-use: histories on ONE resource storage (send tracks, sub-tracks, sounds of the main track,
// clocks, modulators) with more add -> drop -> callback rounds than the storage has slots, so that
// every ring between the two threads wraps and every arena slot is handed out again.  Monitors: the
// clauses of the property on every callback.  Model: C08's hand-off model through `CRes` of C01/Run.v
// (what `queues_never_overflow` / `audio_side_never_frees` are about): outcome of every operation, the
// reported count, and which payload is destroyed during which operation on which thread.
// ------------------------------------------------------------------------------------------------
#[derive(Clone, Copy, Debug, PartialEq)]
enum RKind {
	Send,
	Sub,
	Sound,
	Clock,
	Modulator,
}
const RKINDS: [RKind; 5] = [RKind::Send, RKind::Sub, RKind::Sound, RKind::Clock, RKind::Modulator];
impl RKind {
	fn selfref(self) -> bool {
		matches!(self, RKind::Clock | RKind::Modulator)
	}
	/// the payload exists before the slot is reserved (the caller drops it when the limit is reached)
	fn prebuild(self) -> bool {
		matches!(self, RKind::Sub | RKind::Sound)
	}
	/// M_LEN, and M_DROPS where user code with a `Drop` can be put inside the payload
	fn mask(self) -> i128 {
		if self == RKind::Clock { 2 } else { 6 }
	}
	fn create_name(self) -> &'static str {
		match self {
			RKind::Send => "add_send_track",
			RKind::Sub => "add_sub_track",
			RKind::Sound => "play (main track)",
			RKind::Clock => "add_clock",
			RKind::Modulator => "add_modulator",
		}
	}
}
type DropLog = Arc<Mutex<Vec<(u64, ThreadId)>>>;
struct IdFx {
	id: u64,
	log: DropLog,
}
impl Effect for IdFx {
	fn process(&mut self, _input: &mut [Frame], _dt: f64, _info: &Info) {}
}
impl Drop for IdFx {
	fn drop(&mut self) {
		if let Ok(mut d) = self.log.lock() {
			d.push((self.id, std::thread::current().id()));
		}
	}
}
struct IdSound {
	id: u64,
	log: DropLog,
	done: Arc<std::sync::atomic::AtomicBool>,
	_payload: Vec<u8>,
}
impl Sound for IdSound {
	fn process(&mut self, out: &mut [Frame], _dt: f64, _info: &Info) {
		for f in out.iter_mut() {
			*f = Frame::new(0.25, -0.125);
		}
	}
	fn finished(&self) -> bool {
		self.done.load(Ordering::SeqCst)
	}
}
impl Drop for IdSound {
	fn drop(&mut self) {
		if let Ok(mut d) = self.log.lock() {
			d.push((self.id, std::thread::current().id()));
		}
	}
}
struct IdSoundData(IdSound);
impl SoundData for IdSoundData {
	type Error = ();
	type Handle = ();
	fn into_sound(self) -> Result<(Box<dyn Sound>, ()), ()> {
		Ok((Box::new(self.0), ()))
	}
}
struct IdMod {
	id: u64,
	log: DropLog,
	done: Arc<std::sync::atomic::AtomicBool>,
}
impl Modulator for IdMod {
	fn update(&mut self, _dt: f64, _info: &Info) {}
	fn value(&self) -> f64 {
		0.25
	}
	fn finished(&self) -> bool {
		self.done.load(Ordering::SeqCst)
	}
}
impl Drop for IdMod {
	fn drop(&mut self) {
		if let Ok(mut d) = self.log.lock() {
			d.push((self.id, std::thread::current().id()));
		}
	}
}
/// the payload (with its `Drop`) only comes into being in `build`, i.e. once a slot is reserved
struct IdModBuilder(u64, DropLog, Arc<std::sync::atomic::AtomicBool>);
impl ModulatorBuilder for IdModBuilder {
	type Handle = ();
	fn build(self, _id: ModulatorId) -> (Box<dyn Modulator>, ()) {
		(Box::new(IdMod { id: self.0, log: self.1, done: self.2 }), ())
	}
}
/// what keeps a payload alive on the game's side
enum RHandle {
	Send(SendTrackHandle, Option<TrackHandle>),
	Sub(TrackHandle),
	Clock(ClockHandle),
	Flag(Arc<std::sync::atomic::AtomicBool>),
}
#[derive(Clone, Debug)]
struct ResHist {
	kind: RKind,
	cap: usize,
	/// send tracks only: every send track gets a sub-track routed to it that plays a short sound
	routed: bool,
	sr: u32,
	ibs: usize,
	frames: usize,
	ch: u16,
	/// 0 create, 1 callback, 100 + p: the handle of the p-th payload is dropped / it reports `finished`
	ops: Vec<i128>,
}
impl ResHist {
	fn term(&self) -> String {
		format!("CRes {} {} {} {} [{}]", self.kind.selfref(), self.kind.prebuild(), self.cap, self.kind.mask(), self.ops.iter().map(|o| o.to_string()).collect::<Vec<_>>().join("; "))
	}
	fn describe(&self) -> String {
		let ops: Vec<String> = self
			.ops
			.iter()
			.map(|o| match *o {
				0 => self.kind.create_name().to_string(),
				1 => format!("callback({} frames, {} ch)", self.frames, self.ch),
				p => format!("{} #{}", if matches!(self.kind, RKind::Sound | RKind::Modulator) { "finish" } else { "drop handle of" }, p - 100),
			})
			.collect();
		format!("resource history on a manager with {:?} capacity {}{} (device {} Hz, internal buffer {}): {}  [model term: {}]", self.kind, self.cap, if self.routed { ", each send track with a sub-track routed to it" } else { "" }, self.sr, self.ibs, ops.join("; "), self.term())
	}
}
struct ResOut {
	obs: Vec<i128>,
	/// (index of the operation, what) of the first violated clause
	fail: Option<(usize, String)>,
	callbacks: u64,
	removed: u64,
}
fn run_res_history(h: &ResHist) -> ResOut {
	let mut res = ResOut { obs: vec![], fail: None, callbacks: 0, removed: 0 };
	let k = h.kind;
	let caps = Capacities {
		sub_track_capacity: if k == RKind::Sub { h.cap } else { 64 },
		send_track_capacity: if k == RKind::Send { h.cap } else { 2 },
		clock_capacity: if k == RKind::Clock { h.cap } else { 2 },
		modulator_capacity: if k == RKind::Modulator { h.cap } else { 2 },
		listener_capacity: 1,
	};
	let main = MainTrackBuilder::new().sound_capacity(if k == RKind::Sound { h.cap } else { 4 });
	let mut m = match catch(|| manager(h.sr, h.ibs, caps, main)) {
		Outcome::Ok(m) => m,
		_ => {
			res.fail = Some((0, format!("AudioManager::new panicked: {}", last_panic())));
			return res;
		}
	};
	if k != RKind::Sound {
		// something audible, so that the callbacks do real work
		let mut data = sound_from_frames(h.sr, FramesSpec { n: 64, kind: 3, seed: 1 }.expand());
		data.settings = StaticSoundSettings::new().loop_region(..);
		let _ = m.play(data);
	}
	let audio = Audio::start(m.backend_mut().renderer.take().unwrap());
	let log: DropLog = Arc::new(Mutex::new(Vec::with_capacity(1024)));
	let mut seen = 0usize;
	let mut live: Vec<Option<RHandle>> = vec![];
	let mut panicked = false;
	let len_of = |m: &mut Mgr| -> i128 {
		(match k {
			RKind::Send => m.num_send_tracks(),
			RKind::Sub => m.num_sub_tracks(),
			RKind::Sound => m.main_track().num_sounds(),
			RKind::Clock => m.num_clocks(),
			RKind::Modulator => m.num_modulators(),
		}) as i128
	};
	for (idx, op) in h.ops.iter().enumerate() {
		let before = len_of(&mut m);
		let mut head: Vec<i128> = vec![];
		let r = catch(|| -> Option<String> {
			match *op {
				0 => {
					let id = live.len() as u64;
					let flag = Arc::new(std::sync::atomic::AtomicBool::new(false));
					let made: Option<RHandle> = match k {
						RKind::Send => {
							let mut b = SendTrackBuilder::new().with_effect(ReverbBuilder::new().mix(Mix(1.0)));
							b.add_built_effect(Box::new(IdFx { id, log: log.clone() }));
							match m.add_send_track(b) {
								Ok(s) => {
									let t = if h.routed {
										m.add_sub_track(TrackBuilder::new().with_send(s.id(), Decibels(-6.0))).ok().map(|mut t| {
											let _ = t.play(sound_from_frames(h.sr, FramesSpec { n: 40, kind: 0, seed: id }.expand()));
											t
										})
									} else {
										None
									};
									Some(RHandle::Send(s, t))
								}
								Err(_) => {
									// the builder (with its probe) was dropped by the failed call: no payload ever existed
									log.lock().unwrap().retain(|(i, _)| *i != id);
									None
								}
							}
						}
						RKind::Sub => {
							let mut b = TrackBuilder::new();
							b.add_built_effect(Box::new(IdFx { id, log: log.clone() }));
							m.add_sub_track(b).ok().map(RHandle::Sub)
						}
						RKind::Sound => m.play(IdSoundData(IdSound { id, log: log.clone(), done: flag.clone(), _payload: vec![1u8; 64] })).ok().map(|_| RHandle::Flag(flag.clone())),
						RKind::Clock => m.add_clock(ClockSpeed::TicksPerSecond(50.0)).ok().map(|mut c| {
							c.start();
							RHandle::Clock(c)
						}),
						RKind::Modulator => m.add_modulator(IdModBuilder(id, log.clone(), flag.clone())).ok().map(|_| RHandle::Flag(flag.clone())),
					};
					match made {
						Some(hd) => {
							head.push(0);
							live.push(Some(hd));
						}
						None => {
							head.push(1);
							if k.prebuild() {
								// the rejected payload has used up an index
								live.push(None);
							}
						}
					}
				}
				1 => {
					let out = vec![f32::from_bits(0x7FC0_1234); h.frames * h.ch as usize];
					audio.tx.send(AReq::Cb { out, ch: h.ch }).unwrap();
					let (out, allocs, frees, panic) = match audio.rx.recv() {
						Ok(AResp::Cb { out, allocs, frees, panic }) => (out, allocs, frees, panic),
						_ => return Some("the audio thread died".into()),
					};
					if let Some(p) = panic {
						head.extend([2, panic_code(&p)]);
						panicked = true;
						return Some(format!("the audio callback panicked: {p}"));
					}
					head.push(0);
					res.callbacks += 1;
					if allocs != 0 || frees != 0 {
						return Some(format!("callback allocated {allocs} / freed {frees} heap blocks on the audio thread"));
					}
					for (j, x) in out.iter().enumerate() {
						if x.to_bits() == 0x7FC0_1234 {
							return Some(format!("sample {j} of the device buffer was not written"));
						}
						if !x.is_finite() || !(*x >= -1.0 && *x <= 1.0) {
							return Some(format!("sample {j} of a callback is {x:?}"));
						}
						if h.ch > 2 && (j % h.ch as usize) >= 2 && x.to_bits() != 0 {
							return Some(format!("extra channel {} carries {x:?}", j % h.ch as usize));
						}
					}
				}
				p => {
					let p = (p - 100) as usize;
					match live.get_mut(p).and_then(|x| x.take()) {
						Some(RHandle::Flag(f)) => f.store(true, Ordering::SeqCst),
						Some(hd) => drop(hd),
						None => {}
					}
				}
			}
			None
		});
		let what = match r {
			Outcome::Ok(w) => w,
			_ => Some(format!("a manager / handle call panicked: {}", last_panic())),
		};
		res.obs.extend(head);
		if !panicked {
			let after = len_of(&mut m);
			if *op == 1 && after < before {
				res.removed += (before - after) as u64;
			}
			res.obs.push(after);
			if k.mask() & 4 != 0 {
				let d = log.lock().unwrap();
				res.obs.push((d.len() - seen) as i128);
				for (id, t) in d[seen..].iter() {
					res.obs.push(*id as i128);
					res.obs.push(if *t == audio.tid { 1 } else { 0 });
				}
				let on_audio = d[seen..].iter().find(|(_, t)| *t == audio.tid).map(|(id, _)| *id);
				seen = d.len();
				if let (Some(id), None) = (on_audio, &what) {
					res.fail = Some((idx, format!("payload #{id} was destroyed on the audio thread")));
					break;
				}
			}
		}
		if let Some(w) = what {
			res.fail = Some((idx, w));
			break;
		}
	}
	if !panicked {
		let _ = audio.tx.send(AReq::Quit);
		if let Ok(AResp::Quit(r)) = audio.rx.recv_timeout(Duration::from_secs(2)) {
			m.backend_mut().renderer = Some(*r);
		}
	}
	drop(live);
	drop(m);
	res
}
/// `strict`: one payload at a time, add -> callbacks -> drop -> callbacks, more rounds than there are slots
/// (and than the unused-ring has, capacity + 1); otherwise a random walk that keeps filling and emptying
/// the storage (creation attempts on a full storage included) until as many payloads have gone round
fn gen_res_ops(r: &mut Rng, kind: RKind, cap: usize, strict: bool) -> Vec<i128> {
	let rounds = cap as u64 + 2 + r.below(3);
	let mut ops: Vec<i128> = vec![];
	if strict {
		let mut next = 0i128;
		for _ in 0..rounds {
			ops.push(0);
			if cap == 0 {
				if kind.prebuild() {
					next += 1;
				}
				ops.push(1);
				continue;
			}
			for _ in 0..r.below(3) {
				ops.push(1);
			}
			ops.push(100 + next);
			next += 1;
			for _ in 0..1 + r.below(2) {
				ops.push(1);
			}
		}
		return ops;
	}
	// reference bookkeeping, only to aim the marks at payloads that are alive
	let (mut next, mut used, mut removed) = (0i128, 0usize, 0u64);
	let mut queued: Vec<i128> = vec![];
	let mut arena: Vec<i128> = vec![];
	let mut marked: Vec<i128> = vec![];
	while removed < rounds && ops.len() < 60 + 12 * cap {
		match r.below(7) {
			0 | 1 | 2 => {
				if used < cap {
					ops.push(0);
					queued.push(next);
					next += 1;
					used += 1;
				} else if r.chance(1, 4) {
					ops.push(0);
					if kind.prebuild() {
						next += 1;
					}
				}
			}
			3 | 4 => {
				let alive: Vec<i128> = queued.iter().chain(arena.iter()).filter(|p| !marked.contains(p)).cloned().collect();
				if !alive.is_empty() {
					let p = *r.pick(&alive);
					marked.push(p);
					ops.push(100 + p);
				}
			}
			_ => {
				ops.push(1);
				let n0 = arena.len();
				arena.retain(|p| !marked.contains(p));
				removed += (n0 - arena.len()) as u64;
				used -= n0 - arena.len();
				arena.append(&mut queued);
			}
		}
	}
	ops.push(1);
	ops.push(0);
	ops.push(1);
	ops
}
fn res_history_cases(s: &mut Session, rng: &mut Rng, extra: u64) {
	let mut hists: Vec<ResHist> = vec![];
	let mk = |r: &mut Rng, kind: RKind, cap: usize, strict: bool| {
		let ibs = *r.pick(&[1usize, 7, 16, 64, 128]);
		let frames = match r.below(4) {
			0 => 1,
			1 => ibs,
			2 => ibs + 1,
			_ => r.below(2 * ibs as u64 + 20) as usize + 1,
		};
		ResHist { kind, cap, routed: kind == RKind::Send && r.chance(1, 2), sr: *r.pick(&[8000u32, 44100, 48000, 96000]), ibs, frames, ch: if r.chance(1, 2) { 2 } else { r.range(1, 8) as u16 }, ops: gen_res_ops(r, kind, cap, strict) }
	};
	for kind in RKINDS {
		for cap in [1usize, 2, 3] {
			hists.push(mk(rng, kind, cap, true));
			hists.push(mk(rng, kind, cap, false));
		}
		hists.push(mk(rng, kind, 0, true));
	}
	// the default capacities of `Capacities::default()` (send tracks 16, clocks 8, modulators 16)
	hists.push(mk(rng, RKind::Send, 16, true));
	hists.push(mk(rng, RKind::Clock, 8, true));
	hists.push(mk(rng, RKind::Modulator, 16, true));
	for _ in 0..extra {
		let kind = *rng.pick(&RKINDS);
		let cap = *rng.pick(&[1usize, 1, 2, 2, 3, 4, 5]);
		let strict = rng.chance(1, 3);
		hists.push(mk(rng, kind, cap, strict));
	}
	for h in hists {
		let out = run_res_history(&h);
		let term = h.term();
		s.case("resource_history", term.clone(), &out.obs, if out.removed > h.cap as u64 + 1 { Some(term) } else { None });
		*s.hist.entry("resource_history_callbacks".into()).or_insert(0) += out.callbacks;
		*s.hist.entry("resource_history_payloads_gone_round".into()).or_insert(0) += out.removed;
		if let Some((idx, what)) = out.fail {
			s.fail(h.describe(), format!("operation {idx}: {what}"), None);
		}
	}
}

fn report(s: &mut Session, label: &str, v: Verdict) {
	if v.class.is_none() && v.detail == "not reproduced" {
		s.count("watchdog_expiry_not_reproduced");
		s.notes.push(format!("{label}: the watchdog expired once but the same scene then ran to completion in time (machine load); not counted as a failure"));
		return;
	}
	let case = format!("{label}: {}{:?}", v.trail, v.scene);
	s.count(&format!("failure_{}_{}{}{}", v.fail.kind, v.class.unwrap_or("UNATTRIBUTED"), if v.detail.is_empty() { "" } else { ": " }, v.detail));
	s.fail(case, v.fail.what, v.class);
}

pub fn run(args: &Args) {
	let mut listed = listed_classes();
	if std::env::var("C01_ASSUME_LISTED").is_ok() {
		// debugging aid: draw the triggers of the proposed (not yet listed) classes as well
		for c in classes() {
			listed.insert(c.name.to_string());
		}
	}
	if let Ok(v) = std::env::var("C01_SCENE") {
		// debugging aid: C01_SCENE=<hex seed>,<w|b|s> replays one scene with the default panic output and an allocation trace
		let _ = std::panic::take_hook();
		crate::alloc::TRACE.store(true, std::sync::atomic::Ordering::Relaxed);
		let (sd, st) = v.split_once(',').map(|(a, b)| (a.to_string(), b.to_string())).unwrap_or((v.clone(), "w".into()));
		let seed = u64::from_str_radix(sd.trim_start_matches("0x"), 16).unwrap();
		let mut rng = Rng::new(seed);
		let mut g = Gen { r: &mut rng, boundary: st == "b", listed: &listed };
		let sc = if st == "s" { g.scenario() } else if st == "r" { g.recycle() } else { g.random_scene() };
		if std::env::var("C01_MIN").is_ok() {
			// attribution + minimisation of this scene, then a traced run of the resulting scene
			crate::util::install_panic_hook();
			crate::alloc::TRACE.store(false, std::sync::atomic::Ordering::Relaxed);
			let mut hl = 20;
			if let (_, Some(f)) = outcome(&sc, 2.5, &mut hl) {
				let v = attribute(&sc, f, 2.5, &mut hl);
				println!("class {:?} {} | {} | {}\n{:#?}", v.class, v.detail, v.fail.what, v.trail, v.scene);
			} else {
				println!("the scene does not fail");
			}
			return;
		}
		println!("{sc:#?}");
		let r = exec_scene(&sc, false);
		println!("{:?} callbacks {} drops {}", r.fail, r.callbacks, r.drops_seen);
		return;
	}
	// (Rng::new of consecutive seeds gives the same stream shifted by one: scramble once more)
	let mut rng = Rng::new(Rng::new(args.seed ^ 0xC01).next());
	let n: u64 = (if args.thorough { 12_000 } else { 900 }) * args.budget_mul;
	let mut s = Session::new(
		"C01",
		&args.out,
		"From Coq Require Import ZArith List. Import ListNotations. Open Scope Z_scope.\nFrom KV Require Import Base.Corr C04.Run C01.Run.",
		"run",
		150,
		"scenes (pure data, printed in full on failure): an AudioManager with random capacities / internal buffer / sample rate, main-track effects, then operations (play static sounds with drawn volume, panning, rate incl. negative, loop, slice, start position, fade-in, delayed / clock start; streaming sounds over an in-memory decoder (documented-range values only); probe sounds that finish; sub / send / spatial tracks with every built-in effect incl. nested delay feedback effects; clocks; LFOs, tweeners, probe modulators linked to parameters; listeners; commands on random handles incl. effect handles with random tweens; handle drops; device sample-rate changes between callbacks; device callbacks of 0..3b+40 frames and 1..8 channels) in three streams: well-formed (documented ranges), boundary (0, -0, denormals, +-1e300, -60 dB, zero / huge durations, empty / inverted regions, out-of-range slices, capacity 0) and directed scenarios (finish while paused, backwards through loops, churn, clock-timed starts, short tweens, finishing modulators, vanishing send tracks), slot re-use scenes (send tracks with routed sub-tracks, clocks, modulators, listeners, sub-tracks, probe sounds added, used and given up for more rounds than the storage and its unused-ring (capacity + 1) have places, capacities 1 .. defaults) and single-storage histories (send tracks / sub-tracks / main-track sounds / clocks / modulators, capacity 0..5 and the defaults: strict rounds and random fill / empty walks incl. creations on a full storage); the Renderer runs on its own audio thread; observed per callback: panic, hang (watchdog), heap allocations / frees on the audio thread, thread of every probe Drop, on_start_processing count and chunk sequence, every sample written, finite, in [-1,1], extra channels silent; model cases: output stage on a unit-gain sound, output stage on the recorded mixer bus, callback step list (allocations, frees, starts, chunk lengths), single-storage histories against C08's hand-off model (outcome of every creation and callback, reported count after every operation, which payload is destroyed during which operation and on which thread); distinct = scene seed; non-trivial = at least one callback rendered",
	);
	out_stage_cases(&mut s, &mut rng, n / 3);
	// (its own generator stream: the streams of the older parts are unchanged)
	let mut rrng = Rng::new(Rng::new(args.seed ^ 0xC01_5107).next());
	res_history_cases(&mut s, &mut rrng, n / 30);
	let mut hangs_left = (if args.thorough { 150u32 } else { 12 }) * args.budget_mul as u32;
	let wd = 2.5;
	// ---- witnesses of the listed findings, regression scenes of the repaired ones
	for (class, desc, sc) in corpus() {
		s.eval_only(if class.is_some() { "corpus_witness" } else { "corpus_regression" });
		let (r, f) = outcome(&sc, wd, &mut hangs_left);
		match (class, f) {
			(None, None) => {
				if r.map(|r| r.callbacks).unwrap_or(0) == 0 {
					s.fail(format!("regression scene ({desc})"), "rendered no callback".into(), None);
				}
			}
			(None, Some(f)) => {
				// a repaired finding is back (or was never repaired in this tree): a plain violation
				let v = attribute(&sc, f, wd, &mut hangs_left);
				report(&mut s, &format!("regression scene ({desc})"), v);
			}
			(Some(class), Some(f)) => {
				let v = attribute(&sc, f, wd, &mut hangs_left);
				if v.class == Some(class) && listed.contains(class) {
					report(&mut s, &format!("witness ({desc})"), v);
				} else if v.class == Some(class) {
					// reproduced, attributed to its own trigger, but not listed in known_findings.json (yet)
					s.notes.push(format!("finding not listed yet: class {class} reproduced by its witness ({desc}): {}", v.fail.what));
					s.count("corpus_unlisted_reproduced");
				} else {
					report(&mut s, &format!("witness ({desc}) expected class {class}"), v);
				}
			}
			(Some(class), None) => {
				s.notes.push(format!("witness of {class} ({desc}) no longer fails"));
				s.count("corpus_not_reproduced");
			}
		}
	}
	// ---- F40 (repaired): the regression cases against the models.  Static sounds: C04's cases (a looping
	// sound, a seek far beyond / below the loop region): the callback returns, output and position are the
	// model's.  Streaming sounds: where the decoder lands.
	for (term, obs, desc) in crate::c04::f40_regression_cases() {
		if obs.last() == Some(&2000) || obs.first() == Some(&2) {
			s.fail(desc.clone(), "a callback with a seek far beyond a loop region did not return within 3 s".into(), None);
		}
		s.case("regression_F40_static_seek_far_beyond_loop", format!("CSnd ({term})"), &obs, Some(term.clone()));
	}
	stream_seek_regression(&mut s);
	// ---- generated scenes
	let mut callbacks = 0u64;
	let mut samples = 0u64;
	let mut drops = 0u64;
	let mut model_budget: i64 = if args.thorough { 12_000 } else { 1_500 } * args.budget_mul as i64;
	// the slot re-use scenes come on top of the n scenes of the three older streams
	let nr = n / 25;
	for i in 0..n + nr {
		let seed = rng.next();
		let stream = if i >= n { "r" } else if i % 10 == 9 { "s" } else if i % 3 == 2 { "b" } else { "w" };
		let mut srng = Rng::new(seed);
		let mut g = Gen { r: &mut srng, boundary: stream == "b", listed: &listed };
		let sc = if stream == "s" { g.scenario() } else if stream == "r" { g.recycle() } else { g.random_scene() };
		s.eval_only(match stream {
			"s" => "scene_scenario",
			"r" => "scene_slot_reuse",
			"b" => "scene_boundary",
			_ => "scene_wellformed",
		});
		let label = format!("scene seed {seed:#x},{stream}");
		match run_watchdog(&sc, model_budget > 0, wd) {
			Some(r) => {
				callbacks += r.callbacks as u64;
				samples += r.samples;
				drops += r.drops_seen as u64;
				if r.callbacks > 0 {
					s.nontrivial.insert(format!("{seed:x}"));
				}
				for (kind, term, obs) in r.cases.iter() {
					if model_budget > 0 {
						model_budget -= 1;
						s.case(kind, term.clone(), obs, None);
					}
				}
				match r.fail {
					None => s.count("outcome_ok"),
					Some(f) => {
						s.count(&format!("outcome_{}", f.kind));
						let v = attribute(&sc, f, wd, &mut hangs_left);
						report(&mut s, &label, v);
					}
				}
			}
			None => {
				s.count("outcome_hang");
				hangs_left = hangs_left.saturating_sub(1);
				let f = Fail { kind: "hang", what: "a callback (or a call made on the audio path) did not return within the watchdog time".into(), at: usize::MAX };
				let v = attribute(&sc, f, wd, &mut hangs_left);
				report(&mut s, &label, v);
			}
		}
	}
	s.hist.insert("callbacks_rendered".into(), callbacks);
	s.hist.insert("samples_checked".into(), samples);
	s.hist.insert("probe_drops_observed".into(), drops);
	s.finish();
}
