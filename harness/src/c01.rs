//! C01 — the audio callback is real-time safe and its output well-formed: whole-manager scenes
//! with every built-in effect and modulator and boundary values of every argument; per callback:
//! outcome (ok / panic / hang), heap traffic on the audio thread, every sample finite in [-1,1],
//! channel layout.  The output stage itself is compared bit-for-bit with the Coq model.
use crate::alloc::counted;
use crate::backend::*;
use crate::util::*;
use kira::clock::{ClockHandle, ClockSpeed};
use kira::effect::compressor::CompressorBuilder;
use kira::effect::delay::DelayBuilder;
use kira::effect::distortion::{DistortionBuilder, DistortionKind};
use kira::effect::eq_filter::{EqFilterBuilder, EqFilterKind};
use kira::effect::filter::{FilterBuilder, FilterMode};
use kira::effect::panning_control::PanningControlBuilder;
use kira::effect::reverb::ReverbBuilder;
use kira::effect::volume_control::VolumeControlBuilder;
use kira::listener::ListenerHandle;
use kira::modulator::lfo::{LfoBuilder, LfoHandle, Waveform};
use kira::modulator::tweener::{TweenerBuilder, TweenerHandle};
use kira::sound::static_sound::{StaticSoundHandle, StaticSoundSettings};
use kira::sound::{PlaybackPosition, Region};
use kira::track::{MainTrackBuilder, SendTrackBuilder, SendTrackHandle, SpatialTrackBuilder, SpatialTrackHandle, TrackBuilder, TrackHandle};
use kira::{Capacities, Decibels, Easing, Frame, Mapping, Mix, Panning, PlaybackRate, StartTime, Tween, Value};
use std::sync::mpsc;
use std::time::Duration;

/// classes of known findings a scene may have been seeded with (see known_findings.json)
const HZ_GAIN: &str = "gain_amplitude_overflow";
const HZ_CLOCK: &str = "clock_speed_tick_loop_diverges";
const HZ_RATE: &str = "playback_rate_loop_diverges";
const HZ_SAMPLES: &str = "source_samples_overflow_interpolation";
const HZ_PARAM: &str = "effect_parameter_outside_documented_range";
const HZ_RATE_COST: &str = "playback_rate_cost_unbounded";

enum Msg {
	Note(String),
	Hazard(&'static str),
	Done(SceneResult),
}
struct Gen<'a> {
	tx: Option<mpsc::Sender<Msg>>,
	r: &'a mut Rng,
	boundary: bool,
	hazards: Vec<&'static str>,
	allow_hang: bool,
	log: Vec<String>,
}
impl<'a> Gen<'a> {
	fn note(&mut self, s: String) {
		if crate::alloc::TRACE.load(std::sync::atomic::Ordering::Relaxed) {
			eprintln!("NOTE {s}");
		}
		if self.log.len() < 400 {
			if let Some(tx) = &self.tx {
				let _ = tx.send(Msg::Note(s.clone()));
			}
			self.log.push(s);
		}
	}
	fn hazard(&mut self, h: &'static str) {
		if !self.hazards.contains(&h) {
			if let Some(tx) = &self.tx {
				let _ = tx.send(Msg::Hazard(h));
			}
			self.hazards.push(h);
		}
	}
	/// decibel values: documented range plus finite extremes
	fn db(&mut self) -> f32 {
		if self.boundary && self.r.chance(1, 5) {
			let v = *self.r.pick(&[-60.0f32, -59.999996, -60.000004, -100.0, -1e30, 0.0, -0.0, 6.0, 24.0, 100.0, 700.0, 1000.0, 3e38, -3e38, 1e-40]);
			if v > 600.0 {
				self.hazard(HZ_GAIN);
			}
			v
		} else {
			(self.r.unit_f64() * 72.0 - 66.0) as f32
		}
	}
	fn mix(&mut self) -> f32 {
		if self.boundary && self.r.chance(1, 4) {
			*self.r.pick(&[0.0f32, 1.0, -0.0, -1.0, 2.0, 1e30, -1e30, 0.5, 1e-40])
		} else {
			self.r.unit_f64() as f32
		}
	}
	fn pan(&mut self) -> f32 {
		if self.boundary && self.r.chance(1, 4) {
			*self.r.pick(&[0.0f32, -1.0, 1.0, -0.0, 3.0, -3.0, 1e30, -1e30, 1e-40])
		} else {
			(self.r.unit_f64() * 2.0 - 1.0) as f32
		}
	}
	fn freq(&mut self) -> f64 {
		if self.boundary && self.r.chance(1, 4) {
			self.hazard(HZ_PARAM);
			*self.r.pick(&[0.0, -0.0, 1e-300, 20.0, 20000.0, 1e6, 1e300, -100.0, 22050.0, 24000.0])
		} else {
			20.0 * (1000.0f64).powf(self.r.unit_f64())
		}
	}
	fn unit(&mut self) -> f64 {
		if self.boundary && self.r.chance(1, 4) {
			let v = *self.r.pick(&[0.0, 1.0, -0.0, -1.0, 2.0, 1e300, -1e300, 0.999999, 1e-300]);
			if !(0.0..=0.95).contains(&v) || v == 0.0 {
				self.hazard(HZ_PARAM);
			}
			v
		} else {
			0.05 + 0.85 * self.r.unit_f64()
		}
	}
	fn dur(&mut self) -> Duration {
		match self.r.below(if self.boundary { 7 } else { 4 }) {
			0 => Duration::ZERO,
			1 => Duration::from_nanos(self.r.below(2_000_000)),
			2 | 3 => Duration::from_micros(self.r.below(80_000) + 1),
			4 => Duration::from_nanos(1),
			5 => Duration::from_secs(1 << 40),
			_ => Duration::MAX,
		}
	}
	fn easing(&mut self) -> Easing {
		let pi = if self.boundary { self.r.range(-3, 9) as i32 } else { self.r.range(1, 5) as i32 };
		let pf = if self.boundary { *self.r.pick(&[0.0, -1.0, 0.5, 2.0, 1e300, 1e-300]) } else { *self.r.pick(&[0.5, 1.0, 2.0, 3.0]) };
		match self.r.below(8) {
			0 => Easing::InPowi(pi),
			1 => Easing::OutPowi(pi),
			2 => Easing::InOutPowi(pi),
			3 => Easing::InPowf(pf),
			4 => Easing::OutPowf(pf),
			5 => Easing::InOutPowf(pf),
			_ => Easing::Linear,
		}
	}
	fn tween(&mut self) -> Tween {
		let start_time = match self.r.below(5) {
			0 => StartTime::Delayed(self.dur()),
			_ => StartTime::Immediate,
		};
		Tween { start_time, duration: self.dur(), easing: self.easing() }
	}
	fn rate(&mut self) -> f64 {
		if self.boundary && self.r.chance(1, 4) {
			let v = *self.r.pick(&[0.0, -0.0, 1.0, -1.0, 1e-300, 0.5, 2.0, 64.0, 1e6, -1e6]);
			v
		} else if self.allow_hang && self.r.chance(1, 30) {
			self.hazard(HZ_RATE);
			*self.r.pick(&[1e300, -1e300, 1e16])
		} else {
			*self.r.pick(&[1.0, 1.0, 0.5, 2.0, -1.0, 1.5, 0.25, 3.0])
		}
	}
	fn clock_speed(&mut self) -> ClockSpeed {
		if self.allow_hang && self.r.chance(1, 20) {
			self.hazard(HZ_CLOCK);
			return *self.r.pick(&[ClockSpeed::SecondsPerTick(0.0), ClockSpeed::TicksPerSecond(1e300), ClockSpeed::TicksPerMinute(1e300)]);
		}
		if self.boundary && self.r.chance(1, 3) {
			*self.r.pick(&[ClockSpeed::TicksPerSecond(0.0), ClockSpeed::TicksPerSecond(-5.0), ClockSpeed::SecondsPerTick(1e300), ClockSpeed::SecondsPerTick(-1.0), ClockSpeed::TicksPerMinute(0.0), ClockSpeed::TicksPerSecond(1e9)])
		} else {
			ClockSpeed::TicksPerSecond(1.0 + self.r.unit_f64() * 200.0)
		}
	}
	fn frames(&mut self, sr: u32) -> Vec<Frame> {
		let n = match self.r.below(8) {
			0 => 0,
			1 => 1,
			2 => 2,
			3 => 3,
			_ => self.r.below(300) as usize + 4,
		};
		let kind = self.r.below(if self.boundary { 7 } else { 4 });
		let _ = sr;
		(0..n)
			.map(|i| {
				let x = match kind {
					0 => (self.r.unit_f64() * 2.0 - 1.0) as f32,
					1 => 1.0,
					2 => if i % 2 == 0 { 1.0 } else { -1.0 },
					3 => ((i as f32) * 0.1).sin(),
					4 => 1e-40,
					5 => if self.r.chance(1, 2) { 8.0 } else { -8.0 },
					_ => {
						self.hazard(HZ_SAMPLES);
						if i % 2 == 0 { 3e38 } else { -3e38 }
					}
				};
				Frame::new(x, if self.r.chance(1, 4) { -x } else { x })
			})
			.collect()
	}
}

enum H {
	Sound(StaticSoundHandle),
	Track(TrackHandle),
	Spatial(SpatialTrackHandle),
	Send(SendTrackHandle),
	Clock(ClockHandle),
	Lfo(LfoHandle),
	Tweener(TweenerHandle),
	Listener(ListenerHandle),
}

fn add_effects_main(g: &mut Gen, mut b: MainTrackBuilder, n: usize) -> MainTrackBuilder {
	for _ in 0..n {
		b = match g.r.below(8) {
			0 => { let (m, c, q, x) = (mode(g), g.freq(), g.unit(), g.mix()); g.note(format!("main fx filter {m:?} cutoff {c:e} res {q:e} mix {x:e}")); b.with_effect(FilterBuilder::new().mode(m).cutoff(c).resonance(q).mix(Mix(x))) }
			1 => { let (k, f, d, q) = (eqkind(g), g.freq(), g.db(), 0.1 + g.unit() * 4.0); g.note(format!("main fx eq {k:?} f {f:e} gain {d:e} q {q:e}")); b.with_effect(EqFilterBuilder::new(k, f, Decibels(d), q)) }
			2 => { let d = delay(g); b.with_effect(d) }
			3 => { let (a, d, w, x) = (g.unit(), g.unit(), g.unit(), g.mix()); g.note(format!("main fx reverb fb {a:e} damp {d:e} width {w:e} mix {x:e}")); b.with_effect(ReverbBuilder::new().feedback(a).damping(d).stereo_width(w).mix(Mix(x))) }
			4 => { let c = compressor(g); b.with_effect(c) }
			5 => { let (k, d, x) = (if g.r.chance(1, 2) { DistortionKind::HardClip } else { DistortionKind::SoftClip }, g.db(), g.mix()); g.note(format!("main fx distortion {k:?} drive {d:e} mix {x:e}")); b.with_effect(DistortionBuilder::new().kind(k).drive(Decibels(d)).mix(Mix(x))) }
			6 => { let d = g.db(); g.note(format!("main fx volume {d:e}")); b.with_effect(VolumeControlBuilder::new(Decibels(d))) }
			_ => { let p = g.pan(); g.note(format!("main fx pan {p:e}")); b.with_effect(PanningControlBuilder(Value::Fixed(Panning(p)))) }
		};
	}
	b
}
fn add_effects_sub(g: &mut Gen, mut b: TrackBuilder, n: usize, link: Option<Value<f64>>) -> TrackBuilder {
	for _ in 0..n {
		b = match g.r.below(8) {
			0 => { let (m, c, q, x) = (mode(g), g.freq(), g.unit(), g.mix()); g.note(format!("fx filter {m:?} cutoff {c:e} res {q:e} mix {x:e} linked {}", link.is_some())); let c: Value<f64> = link.unwrap_or(Value::Fixed(c)); b.with_effect(FilterBuilder::new().mode(m).cutoff(c).resonance(q).mix(Mix(x))) }
			1 => { let (k, f, d, q) = (eqkind(g), g.freq(), g.db(), 0.1 + g.unit() * 4.0); g.note(format!("fx eq {k:?} f {f:e} gain {d:e} q {q:e}")); b.with_effect(EqFilterBuilder::new(k, f, Decibels(d), q)) }
			2 => { let d = delay(g); b.with_effect(d) }
			3 => { let (a, d, w, x) = (g.unit(), g.unit(), g.unit(), g.mix()); g.note(format!("fx reverb fb {a:e} damp {d:e} width {w:e} mix {x:e}")); b.with_effect(ReverbBuilder::new().feedback(a).damping(d).stereo_width(w).mix(Mix(x))) }
			4 => { let c = compressor(g); b.with_effect(c) }
			5 => { let (k, d, x) = (if g.r.chance(1, 2) { DistortionKind::HardClip } else { DistortionKind::SoftClip }, g.db(), g.mix()); g.note(format!("fx distortion {k:?} drive {d:e} mix {x:e}")); b.with_effect(DistortionBuilder::new().kind(k).drive(Decibels(d)).mix(Mix(x))) }
			6 => { let d = g.db(); g.note(format!("fx volume {d:e}")); b.with_effect(VolumeControlBuilder::new(Decibels(d))) }
			_ => { let p = g.pan(); g.note(format!("fx pan {p:e}")); b.with_effect(PanningControlBuilder(Value::Fixed(Panning(p)))) }
		};
	}
	b
}
fn mode(g: &mut Gen) -> FilterMode {
	*g.r.pick(&[FilterMode::LowPass, FilterMode::BandPass, FilterMode::HighPass, FilterMode::Notch])
}
fn eqkind(g: &mut Gen) -> EqFilterKind {
	*g.r.pick(&[EqFilterKind::Bell, EqFilterKind::LowShelf, EqFilterKind::HighShelf])
}
fn delay(g: &mut Gen) -> DelayBuilder {
	let t = match g.r.below(if g.boundary { 5 } else { 3 }) {
		0 => Duration::from_micros(g.r.below(30_000) + 100),
		1 => Duration::from_millis(g.r.below(40) + 1),
		2 => Duration::from_micros(g.r.below(2000)),
		3 => Duration::ZERO,
		_ => Duration::from_nanos(1),
	};
	let fb0 = g.db().min(24.0);
	let fb = if g.boundary { if fb0 > -1.0 { g.hazard(HZ_PARAM); } fb0 } else { fb0.min(-1.0) };
	let x = g.mix();
	g.note(format!("fx delay {t:?} feedback {fb:e} mix {x:e}"));
	let mut d = DelayBuilder::new().delay_time(t).feedback(Decibels(fb)).mix(Mix(x));
	if g.r.chance(1, 3) {
		let (c, q) = (g.freq(), g.unit());
		g.note(format!("   feedback fx filter cutoff {c:e} res {q:e}"));
		d = d.with_feedback_effect(FilterBuilder::new().cutoff(c).resonance(q));
	}
	d
}
fn compressor(g: &mut Gen) -> CompressorBuilder {
	let thr = if g.boundary && g.r.chance(1, 3) { g.hazard(HZ_PARAM); *g.r.pick(&[0.0, -0.0, -1e300, 1e300, -60.0, 10.0]) } else { -g.r.unit_f64() * 40.0 };
	let ratio = if g.boundary && g.r.chance(1, 3) { g.hazard(HZ_PARAM); *g.r.pick(&[0.0, -0.0, 1.0, -1.0, 1e300, 1e-300, 0.5]) } else { 1.0 + g.r.unit_f64() * 10.0 };
	let (a, rl, mk, x) = (g.dur(), g.dur(), g.db().min(24.0), g.mix());
	g.note(format!("fx compressor thr {thr:e} ratio {ratio:e} attack {a:?} release {rl:?} makeup {mk:e} mix {x:e}"));
	CompressorBuilder::new().threshold(thr).ratio(ratio).attack_duration(a).release_duration(rl).makeup_gain(Decibels(mk)).mix(Mix(x))
}

#[derive(Debug)]
struct SceneResult {
	what: Option<String>, // first property failure
	kind: &'static str,   // "" | panic | nan | range | layout | alloc
	callbacks: usize,
	samples: u64,
}

/// Builds and runs one scene on this thread; returns the first failure (if any).
fn run_scene(seed: u64, boundary: bool, allow_hang: bool, log_out: &mut Vec<String>, hazards_out: &mut Vec<&'static str>, tx: Option<mpsc::Sender<Msg>>) -> SceneResult {
	let mut rng = Rng::new(seed);
	let mut g = Gen { tx, r: &mut rng, boundary, hazards: vec![], allow_hang, log: vec![] };
	let sr = if boundary { *g.r.pick(&[8000u32, 22050, 44100, 48000, 96000, 192000, 1000, 1, 100]) } else { *g.r.pick(&[8000u32, 22050, 44100, 48000, 96000, 192000]) };
	if sr < 8000 {
		g.hazard(HZ_PARAM);
	}
	let ibs = *g.r.pick(&[1usize, 2, 7, 16, 64, 128, 256]);
	let caps = Capacities {
		sub_track_capacity: g.r.below(5) as usize + if boundary { 0 } else { 2 },
		send_track_capacity: g.r.below(3) as usize + if boundary { 0 } else { 1 },
		clock_capacity: g.r.below(3) as usize + if boundary { 0 } else { 1 },
		modulator_capacity: g.r.below(4) as usize + if boundary { 0 } else { 1 },
		listener_capacity: g.r.below(2) as usize + if boundary { 0 } else { 1 },
	};
	g.note(format!("sample rate {sr}, internal buffer {ibs}, capacities {caps:?}"));
	let nfx = g.r.below(3) as usize;
	let main_vol = g.db();
	g.note(format!("main volume {main_vol:e}"));
	let main_cap = g.r.below(6) as usize + if boundary { 0 } else { 2 };
	let main = add_effects_main(&mut g, MainTrackBuilder::new().volume(Decibels(main_vol)).sound_capacity(main_cap), nfx);
	let mut res = SceneResult { what: None, kind: "", callbacks: 0, samples: 0 };
	let built = catch(|| manager(sr, ibs, caps, main));
	let mut m = match built {
		Outcome::Ok(m) => m,
		_ => {
			res.what = Some(format!("AudioManager::new panicked: {}", last_panic()));
			res.kind = "panic";
			*log_out = g.log.clone();
			*hazards_out = g.hazards.clone();
			return res;
		}
	};
	let mut hs: Vec<H> = vec![];
	let nops = g.r.range(6, 30);
	for _ in 0..nops {
		if res.what.is_some() {
			break;
		}
		let op = g.r.below(20);
		let r = catch(|| -> Option<String> {
			match op {
				0 | 1 | 2 => {
					// play a sound on the main track or a sub track
					let fr = g.frames(sr);
					let ssr = *g.r.pick(&[sr, 44100, 22050, 8000, 1]);
					let rate = g.rate();
					if rate.abs() * ssr as f64 / sr as f64 > 1000.0 {
						g.hazard(HZ_RATE_COST);
					}
					let mut st = StaticSoundSettings::new().volume(Decibels(g.db())).panning(Panning(g.pan())).playback_rate(PlaybackRate(rate)).reverse(g.r.chance(1, 5));
					if g.r.chance(1, 3) {
						let (a, b) = (g.r.unit_f64() * 0.01, g.r.unit_f64() * 0.01);
						let (a, b) = if g.boundary && g.r.chance(1, 3) { (a, a) } else if g.boundary && g.r.chance(1, 3) { (a.max(b), a.min(b)) } else { (a.min(b), a.max(b) + 1e-4) };
						st = st.loop_region(Region::from(a..b));
						g.note(format!("   loop {a:e}..{b:e}"));
					}
					if g.r.chance(1, 4) {
						st = st.start_position(PlaybackPosition::Samples(g.r.below(fr.len() as u64 + 3) as usize));
					}
					if g.r.chance(1, 5) {
						st = st.fade_in_tween(g.tween());
					}
					if g.r.chance(1, 6) {
						st = st.start_time(StartTime::Delayed(g.dur()));
					}
					g.note(format!("play sound {} frames at {ssr} Hz, settings vol/pan/rate as drawn", fr.len()));
					let mut data = sound_from_frames(ssr.max(1), fr);
					data.settings = st;
					if g.boundary && g.r.chance(1, 6) {
						let n = data.frames.len();
						data.slice = Some((g.r.below(n as u64 + 3) as usize, g.r.below(n as u64 + 5) as usize));
						g.note(format!("   slice {:?}", data.slice));
					}
					let tracks: Vec<usize> = hs.iter().enumerate().filter(|(_, h)| matches!(h, H::Track(_))).map(|(i, _)| i).collect();
					let hnd = if !tracks.is_empty() && g.r.chance(1, 2) {
						let i = *g.r.pick(&tracks);
						if let H::Track(t) = &mut hs[i] { t.play(data).ok() } else { None }
					} else {
						m.play(data).ok()
					};
					if let Some(h) = hnd {
						hs.push(H::Sound(h));
					}
				}
				3 | 4 => {
					let lfo = hs.iter().find_map(|h| if let H::Lfo(l) = h { Some(l.id()) } else { None });
					let link = lfo.filter(|_| g.r.chance(1, 2)).map(|id| Value::FromModulator { id, mapping: Mapping { input_range: (-1.0, 1.0), output_range: (100.0, 8000.0), easing: Easing::Linear } });
					let n = g.r.below(3) as usize;
					let vol = g.db();
					g.note(format!("add sub track volume {vol:e}"));
					let (cap, persist) = (g.r.below(4) as usize + 1, g.r.chance(1, 3));
					let mut b = add_effects_sub(&mut g, TrackBuilder::new().volume(Decibels(vol)).sound_capacity(cap).persist_until_sounds_finish(persist), n, link);
					if let Some(sid) = hs.iter().find_map(|h| if let H::Send(s) = h { Some(s.id()) } else { None }) {
						if g.r.chance(1, 2) {
							b = b.with_send(sid, Decibels(g.db()));
						}
					}
					let parent: Vec<usize> = hs.iter().enumerate().filter(|(_, h)| matches!(h, H::Track(_))).map(|(i, _)| i).collect();
					let t = if !parent.is_empty() && g.r.chance(1, 3) {
						let i = *g.r.pick(&parent);
						if let H::Track(p) = &mut hs[i] { p.add_sub_track(b).ok() } else { None }
					} else {
						m.add_sub_track(b).ok()
					};
					if let Some(t) = t {
						hs.push(H::Track(t));
					}
				}
				5 => {
					let vol = g.db();
					g.note(format!("add send track volume {vol:e}"));
					if let Ok(s) = m.add_send_track(SendTrackBuilder::new().volume(Decibels(vol)).with_effect(ReverbBuilder::new().mix(Mix(1.0)))) {
						hs.push(H::Send(s));
					}
				}
				6 => {
					let sp = g.clock_speed();
					g.note(format!("add clock {sp:?}"));
					if let Ok(mut c) = m.add_clock(sp) {
						if g.r.chance(3, 4) {
							c.start();
						}
						hs.push(H::Clock(c));
					}
				}
				7 => {
					let (f, a, o, ph) = (g.freq().min(1e6), g.unit() * 2.0, g.unit(), (g.r.unit_f64() - 0.5) * 20.0);
					let w = *g.r.pick(&[Waveform::Sine, Waveform::Triangle, Waveform::Saw, Waveform::Pulse { width: 0.3 }]);
					g.note(format!("add lfo {w:?} f {f:e} amp {a:e} offset {o:e} phase {ph:e}"));
					if let Ok(l) = m.add_modulator(LfoBuilder::new().waveform(w).frequency(f).amplitude(a).offset(o).starting_phase(ph)) {
						hs.push(H::Lfo(l));
					}
				}
				8 => {
					if let Ok(t) = m.add_modulator(TweenerBuilder { initial_value: g.unit() }) {
						hs.push(H::Tweener(t));
					}
				}
				9 => {
					let p = [g.pan() * 10.0, g.pan(), g.pan() * 10.0];
					g.note(format!("add listener at {p:?}"));
					if let Ok(l) = m.add_listener(p, [0.0f32, 0.0, 0.0, 1.0]) {
						hs.push(H::Listener(l));
					}
				}
				10 => {
					if let Some(lid) = hs.iter().find_map(|h| if let H::Listener(l) = h { Some(l.id()) } else { None }) {
						let p = [g.pan() * 10.0, g.pan(), g.pan() * 10.0];
						let (d0, d1) = (g.unit() as f32 * 5.0, g.unit() as f32 * 50.0);
						let s = g.mix();
						g.note(format!("add spatial track at {p:?} distances ({d0:e},{d1:e}) strength {s:e}"));
						if let Ok(mut t) = m.add_spatial_sub_track(lid, p, SpatialTrackBuilder::new().distances((d0, d1)).spatialization_strength(s).attenuation_function(if g.r.chance(1, 3) { None } else { Some(g.easing()) })) {
							let fr = g.frames(sr);
							let _ = t.play(sound_from_frames(sr, fr));
							hs.push(H::Spatial(t));
						}
					}
				}
				11 | 12 | 13 => {
					// command on a random handle
					if !hs.is_empty() {
						let i = g.r.below(hs.len() as u64) as usize;
						let tw = g.tween();
						g.note(format!("   tween {tw:?}"));
						match &mut hs[i] {
							H::Sound(s) => match g.r.below(9) {
								0 => s.pause(tw),
								1 => s.resume(tw),
								2 => s.stop(tw),
								3 => s.set_volume(Decibels(g.db()), tw),
								4 => {
									let rate = g.rate();
									if rate.abs() * 192000.0 / sr as f64 > 1000.0 {
										g.hazard(HZ_RATE_COST);
									}
									s.set_playback_rate(PlaybackRate(rate), tw)
								}
								5 => s.set_panning(Panning(g.pan()), tw),
								6 => s.seek_to(g.unit() * 0.02),
								7 => s.seek_by((g.unit() - 0.5) * 0.02),
								_ => {
									let a = g.unit() * 0.005;
									s.set_loop_region(Region::from(a..a + 0.002))
								}
							},
							H::Track(t) => match g.r.below(3) {
								0 => t.pause(tw),
								1 => t.resume(tw),
								_ => t.set_volume(Decibels(g.db()), tw),
							},
							H::Spatial(t) => match g.r.below(3) {
								0 => t.set_position([g.pan() * 10.0, 0.0, g.pan() * 10.0], tw),
								1 => t.set_spatialization_strength(g.mix(), tw),
								_ => t.set_volume(Decibels(g.db()), tw),
							},
							H::Send(s) => s.set_volume(Decibels(g.db()), tw),
							H::Clock(c) => match g.r.below(4) {
								0 => c.pause(),
								1 => c.stop(),
								2 => c.start(),
								_ => c.set_speed(g.clock_speed(), tw),
							},
							H::Lfo(l) => match g.r.below(3) {
								0 => l.set_frequency(g.freq().min(1e6), tw),
								1 => l.set_amplitude(g.unit() * 2.0, tw),
								_ => l.set_phase((g.r.unit_f64() - 0.5) * 20.0),
							},
							H::Tweener(t) => t.set(g.unit() * 2.0 - 1.0, tw),
							H::Listener(l) => l.set_position([g.pan() * 10.0, 0.0, g.pan()], tw),
						}
						g.note(format!("command on handle {i}"));
					}
				}
				14 => {
					if !hs.is_empty() {
						let i = g.r.below(hs.len() as u64) as usize;
						hs.swap_remove(i);
						g.note(format!("drop handle {i}"));
					}
				}
				_ => {
					// a device callback
					let frames = match g.r.below(6) {
						0 => 1,
						1 => ibs,
						2 => ibs + 1,
						3 => g.r.below(5) as usize,
						_ => g.r.below(3 * ibs as u64 + 40) as usize,
					};
					let ch = if g.r.chance(1, 2) { 2 } else { g.r.range(1, 8) as u16 };
					g.note(format!("callback {frames} frames x {ch} channels"));
					let mut out = vec![f32::from_bits(0x7FC0_1234); frames * ch as usize];
					let be = m.backend_mut();
					let (_, allocs, frees) = counted(|| {
						be.r().on_start_processing();
						be.r().process(&mut out, ch);
					});
					if allocs != 0 || frees != 0 {
						return Some(format!("alloc|callback allocated {allocs} / freed {frees} heap blocks on the audio thread"));
					}
					for (k, x) in out.iter().enumerate() {
						if x.to_bits() == 0x7FC0_1234 {
							return Some(format!("layout|sample {k} of the device buffer was not written"));
						}
						if !x.is_finite() {
							return Some(format!("nan|sample {k} of a callback is {x:?}"));
						}
						if !(*x >= -1.0 && *x <= 1.0) {
							return Some(format!("range|sample {k} of a callback is {x:?}, outside [-1, 1]"));
						}
						if ch > 2 && (k % ch as usize) >= 2 && x.to_bits() != 0 {
							return Some(format!("layout|extra channel {} carries {x:?}", k % ch as usize));
						}
					}
					return Some(format!("ok|{}", out.len()));
				}
			}
			None
		});
		match r {
			Outcome::Ok(Some(s)) => {
				let (k, w) = s.split_once('|').unwrap();
				if k == "ok" {
					res.callbacks += 1;
					res.samples += w.parse::<u64>().unwrap_or(0);
				} else {
					res.kind = match k {
						"alloc" => "alloc",
						"nan" => "nan",
						"range" => "range",
						_ => "layout",
					};
					res.what = Some(w.to_string());
				}
			}
			Outcome::Ok(None) => {}
			_ => {
				res.kind = "panic";
				res.what = Some(format!("panic: {}", last_panic()));
			}
		}
	}
	*log_out = g.log.clone();
	*hazards_out = g.hazards.clone();
	res
}

/// the output stage against the model: a static sound at unit gain on a bare main track
fn out_stage_cases(s: &mut Session, rng: &mut Rng, count: u64) {
	let vals: Vec<f32> = vec![
		0.0, 1.0, -1.0, 0.5, -0.5, 1.0000001, -1.0000001, 0.99999994, 1.5, -3.0, 1e30, -1e30, 1e-45, -1e-45, 1e-38, 2.0, 1.0e10, 0.33333334, -0.7, 8.0e20,
	];
	for _ in 0..count {
		let n = rng.range(1, 10) as usize;
		let ch = rng.range(1, 8) as u16;
		let ibs = *rng.pick(&[1usize, 2, 3, 8, 64]);
		let frames: Vec<Frame> = (0..n)
			.map(|_| {
				let mut v = |r: &mut Rng| if r.chance(1, 2) { *r.pick(&vals) } else { (r.unit_f64() * 3.0 - 1.5) as f32 };
				Frame::new(v(rng), v(rng))
			})
			.collect();
		let mut m = simple_manager(1024, ibs);
		let _h = m.play(sound_from_frames(1024, frames.clone())).unwrap();
		let out = m.backend_mut().callback(n, ch);
		let term = format!(
			"COut {} {} [{}]",
			ch,
			ibs,
			frames.iter().map(|f| format!("({}, {})", f32_bits_z(f.left), f32_bits_z(f.right))).collect::<Vec<_>>().join("; ")
		);
		let obs: Vec<i128> = out.iter().map(|x| obs32(*x)).collect();
		s.case("out_stage", term.clone(), &obs, Some(term.clone()));
		// the layout clauses, directly
		for (k, fr) in frames.iter().enumerate() {
			let (l, r) = (fr.left.clamp(-1.0, 1.0), fr.right.clamp(-1.0, 1.0));
			let o = &out[k * ch as usize..(k + 1) * ch as usize];
			if ch == 1 {
				if o[0].to_bits() != ((l + r) / 2.0).to_bits() {
					s.fail(term.clone(), format!("mono sample {:?} is not the mean of left {l:?} and right {r:?}", o[0]), None);
				}
			} else {
				if o[0].to_bits() != l.to_bits() || o[1].to_bits() != r.to_bits() {
					s.fail(term.clone(), format!("frame {k}: ({:?},{:?}) instead of clamped ({l:?},{r:?})", o[0], o[1]), None);
				}
				if o[2..].iter().any(|x| x.to_bits() != 0) {
					s.fail(term.clone(), format!("frame {k}: extra channels not silent: {:?}", &o[2..]), None);
				}
			}
		}
	}
}

/// the two known ways to make the audio thread spin for ever (F7, F8), as fixed witnesses;
/// each runs under a watchdog on a thread that is abandoned if it does not return
fn hang_corpus(s: &mut Session) {
	let cases: Vec<(&str, &str, Box<dyn FnOnce() + Send>)> = vec![
		(
			"clock_speed_tick_loop_diverges",
			"add_clock(SecondsPerTick(0.0)); start; one callback",
			Box::new(|| {
				let mut m = simple_manager(48000, 64);
				let mut c = m.add_clock(ClockSpeed::SecondsPerTick(0.0)).unwrap();
				c.start();
				m.backend_mut().callback(64, 2);
				m.backend_mut().callback(64, 2);
			}),
		),
		(
			"playback_rate_loop_diverges",
			"play(sound with playback_rate 1e300); one callback",
			Box::new(|| {
				let mut m = simple_manager(48000, 64);
				let mut d = sound_from_frames(48000, vec![Frame::new(0.5, 0.5); 100]);
				d.settings = StaticSoundSettings::new().playback_rate(PlaybackRate(1e300)).loop_region(Region::from(..));
				let _h = m.play(d).unwrap();
				m.backend_mut().callback(64, 2);
			}),
		),
	];
	for (class, desc, f) in cases {
		let (tx, rx) = mpsc::channel();
		let _ = std::thread::Builder::new().name("hang-corpus".into()).spawn(move || {
			f();
			let _ = tx.send(());
		});
		s.eval_only("hang_corpus");
		if rx.recv_timeout(Duration::from_secs(2)).is_err() {
			s.fail(desc.to_string(), "the audio callback did not return within 2 s".into(), Some(class));
		}
	}
}

pub fn run(args: &Args) {
	if let Ok(v) = std::env::var("C01_SCENE") {
		// debugging aid: C01_SCENE=<hex seed>[,b] replays one scene with the default panic output
		let _ = std::panic::take_hook();
		crate::alloc::TRACE.store(true, std::sync::atomic::Ordering::Relaxed);
		let (sd, b) = v.split_once(',').map(|(a, b)| (a.to_string(), b == "b")).unwrap_or((v.clone(), false));
		let seed = u64::from_str_radix(sd.trim_start_matches("0x"), 16).unwrap();
		let (mut log, mut hz) = (vec![], vec![]);
		let r = run_scene(seed, b, false, &mut log, &mut hz, None);
		println!("{r:?}\n{}", log.join("\n"));
		return;
	}
	let mut rng = Rng::new(args.seed ^ 0xC01);
	let n: u64 = (if args.thorough { 12_000 } else { 900 }) * args.budget_mul;
	let mut s = Session::new(
		"C01",
		&args.out,
		"From Coq Require Import ZArith List. Import ListNotations. Open Scope Z_scope.\nFrom KV Require Import Base.Corr C01.Run.",
		"run",
		200,
		"scenes: an AudioManager with random capacities / internal buffer / sample rate, main-track effects, then 6-30 operations (play static sounds with drawn volume, panning, rate, loop, slice, start; add sub / send / spatial tracks with every built-in effect incl. nested delay feedback effects; clocks; LFOs and tweeners linked to parameters; listeners; random commands with random tweens; handle drops; device callbacks of 0..3b+40 frames and 1..8 channels); a well-formed stream (documented ranges) and a boundary stream (0, -0, denormals, +-1e300, -60 dB, zero/huge durations, empty/inverted regions, out-of-range slices, capacity 0); observed per callback: panic, hang (watchdog), heap allocations/frees on the audio thread, every sample finite and in [-1,1], unwritten slots, extra channels; plus output-stage cases compared bit-for-bit with the Coq model; distinct = scene seed; non-trivial = at least one callback rendered",
	);
	out_stage_cases(&mut s, &mut rng, n / 3);
	let mut hang_budget = 2u32;
	hang_corpus(&mut s);
	let mut callbacks = 0u64;
	let mut samples = 0u64;
	for i in 0..n {
		let seed = rng.next();
		let boundary = i % 3 == 2;
		let allow_hang = false;
		let (tx, rx) = mpsc::channel::<Msg>();
		let _ = std::thread::Builder::new().name(format!("scene-{i}")).spawn(move || {
			let mut log = vec![];
			let mut hz = vec![];
			let r = run_scene(seed, boundary, allow_hang, &mut log, &mut hz, Some(tx.clone()));
			let _ = tx.send(Msg::Done(r));
		});
		s.eval_only(if boundary { "scene_boundary" } else { "scene_wellformed" });
		let deadline = std::time::Instant::now() + Duration::from_secs(if hang_budget > 0 { 8 } else { 3 });
		let mut log: Vec<String> = vec![];
		let mut hz: Vec<&'static str> = vec![];
		let mut done: Option<SceneResult> = None;
		loop {
			let left = deadline.saturating_duration_since(std::time::Instant::now());
			match rx.recv_timeout(left) {
				Ok(Msg::Note(n)) => log.push(n),
				Ok(Msg::Hazard(h)) => hz.push(h),
				Ok(Msg::Done(r)) => {
					done = Some(r);
					break;
				}
				Err(_) => break,
			}
		}
		match done {
			Some(r) => {
				callbacks += r.callbacks as u64;
				samples += r.samples;
				if r.callbacks > 0 {
					s.nontrivial.insert(format!("{seed:x}"));
				}
				if let Some(w) = r.what {
					let class = match r.kind {
						"nan" | "range" if hz.contains(&HZ_GAIN) => Some(HZ_GAIN),
						"nan" | "range" if hz.contains(&HZ_SAMPLES) => Some(HZ_SAMPLES),
						"nan" | "range" if hz.contains(&HZ_PARAM) => Some(HZ_PARAM),
						_ => None,
					};
					s.fail(format!("scene seed {seed:#x} boundary={boundary}: {}", log.join(" ; ")), w, class);
				}
				s.count(&format!("outcome_{}", if r.kind.is_empty() { "ok" } else { r.kind }));
			}
			None => {
				// the scene thread is abandoned (it may spin for a very long time)
				hang_budget = hang_budget.saturating_sub(1);
				let class = if hz.contains(&HZ_RATE_COST) { Some(HZ_RATE_COST) } else { None };
				s.fail(format!("scene seed {seed:#x} boundary={boundary}: {}", log.join(" ; ")), "a callback (or a call made on the audio path) did not return within the watchdog time".into(), class);
				s.count("outcome_hang");
			}
		}
	}
	s.hist.insert("callbacks_rendered".into(), callbacks);
	s.hist.insert("samples_checked".into(), samples);
	s.finish();
}
