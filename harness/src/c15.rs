//! C15 — spatial tracks: drive a real `AudioManager<VBackend>` with a constant-frame probe
//! sound on a spatial sub-track, evaluate the property's laws on the levels that come out, and
//! emit every observed frame as a case for the binary32 instance of coq/theories/C15/Model.v.
use crate::backend::*;
use crate::util::*;
use glam::{Quat, Vec3};
use kira::info::{Info, ListenerInfo, MockInfoBuilder};
use kira::listener::ListenerHandle;
use kira::sound::{Sound, SoundData};
use kira::track::{SpatialTrackBuilder, SpatialTrackHandle, TrackBuilder, TrackHandle};
use kira::{Decibels, Easing, Frame, Mapping, Parameter, StartTime, Tween, Tweenable, Value};
use std::f32::consts::FRAC_PI_8;
use std::sync::{Arc, Mutex};
use std::time::Duration;

const SR: u32 = 1024;
const EAR: f32 = 0.1;

// ---------------------------------------------------------------- probe sound
#[derive(Clone, Copy, Debug)]
struct ProbeRec {
	dist: Option<f32>,
	li: Option<ListenerInfo>,
}
type Log = Arc<Mutex<Vec<ProbeRec>>>;
struct Dc {
	frame: Frame,
	log: Log,
}
impl Sound for Dc {
	fn process(&mut self, out: &mut [Frame], _dt: f64, info: &Info) {
		self.log.lock().unwrap().push(ProbeRec { dist: info.listener_distance(), li: info.listener_info() });
		out.fill(self.frame);
	}
	fn finished(&self) -> bool {
		false
	}
}
struct DcData(Frame, Log);
impl SoundData for DcData {
	type Error = ();
	type Handle = ();
	fn into_sound(self) -> Result<(Box<dyn Sound>, ()), ()> {
		Ok((Box::new(Dc { frame: self.0, log: self.1 }), ()))
	}
}

// ---------------------------------------------------------------- scenarios
#[derive(Clone, Copy, Debug, PartialEq)]
enum LMode {
	/// the listener exists for the whole run
	Present,
	/// the id comes from another manager: this manager never had a listener
	Foreign,
	/// the listener handle is dropped before callback k
	DropBefore(usize),
}
/// something done between two callbacks (takes effect at the next callback)
#[derive(Clone, Copy, Debug)]
enum Op {
	ListenerPos(Vec3, u32),
	ListenerQuat(Quat, u32),
	EmitterPos(Vec3, u32),
	Strength(f32, u32),
	/// `SpatialTrackHandle::set_volume(Value::FromListenerDistance(mapping), tween)`: a link made at run time
	TrackVolume(Mapping<Decibels>, u32),
	/// the same on the (non-spatial) child track the sound plays on (`scn.nested`)
	ChildVolume(Mapping<Decibels>, u32),
}
#[derive(Clone, Debug)]
struct Scn {
	lpos: Vec3,
	lq: Quat,
	epos: Vec3,
	dmin: f32,
	dmax: f32,
	easing: Option<Easing>,
	strength: f32,
	input: (f32, f32),
	buf: usize,
	nested: bool,
	pre: Option<Mapping<Decibels>>,
	post: Option<Mapping<Decibels>>,
	lmode: LMode,
	/// (before callback k, op)
	ops: Vec<(usize, Op)>,
}
impl Scn {
	fn base() -> Scn {
		Scn {
			lpos: Vec3::ZERO,
			lq: Quat::IDENTITY,
			epos: Vec3::new(0.0, 0.0, -5.0),
			dmin: 1.0,
			dmax: 100.0,
			easing: Some(Easing::Linear),
			strength: 0.75,
			input: (0.5, 0.5),
			buf: 1,
			nested: false,
			pre: None,
			post: None,
			lmode: LMode::Present,
			ops: vec![],
		}
	}
	fn describe(&self) -> String {
		format!(
			"listener pos {:?} orientation {:?}; emitter {:?}; distances ({:?}, {:?}); attenuation {:?}; strength {:?}; input {:?}; buffer {}; nested {}; child volume {:?}; track volume {:?}; listener {:?}; ops {:?}",
			self.lpos.to_array(),
			self.lq.to_array(),
			self.epos.to_array(),
			self.dmin,
			self.dmax,
			self.easing,
			self.strength,
			self.input,
			self.buf,
			self.nested || self.pre.is_some(),
			self.pre.map(|m| (m.input_range, m.output_range.0 .0, m.output_range.1 .0, m.easing)),
			self.post.map(|m| (m.input_range, m.output_range.0 .0, m.output_range.1 .0, m.easing)),
			self.lmode,
			self.ops
		)
	}
}
struct RunObs {
	/// per callback: the frames, or the panic code
	cbs: Vec<Outcome<Vec<Frame>>>,
	/// per callback (one chunk each): what the probe sound saw
	probes: Vec<ProbeRec>,
}
fn tween_frames(frames: u32) -> Tween {
	Tween { start_time: StartTime::Immediate, duration: Duration::from_secs_f64(frames as f64 / SR as f64), easing: Easing::Linear }
}
struct Rig {
	m: Mgr,
	_other: Option<Mgr>,
	listener: Option<ListenerHandle>,
	_foreign: Option<ListenerHandle>,
	track: SpatialTrackHandle,
	_child: Option<TrackHandle>,
	log: Log,
}
fn build(scn: &Scn) -> Rig {
	let mut m = simple_manager(SR, scn.buf);
	let mut other = None;
	let mut foreign = None;
	let mut listener = None;
	let id = match scn.lmode {
		LMode::Foreign => {
			let mut o = simple_manager(SR, scn.buf);
			let h = o.add_listener(scn.lpos, scn.lq).unwrap();
			let id = h.id();
			foreign = Some(h);
			other = Some(o);
			id
		}
		_ => {
			let h = m.add_listener(scn.lpos, scn.lq).unwrap();
			let id = h.id();
			listener = Some(h);
			id
		}
	};
	let mut b = SpatialTrackBuilder::new().distances((scn.dmin, scn.dmax)).attenuation_function(scn.easing).spatialization_strength(scn.strength);
	if let Some(mp) = scn.post {
		b = b.volume(Value::FromListenerDistance(mp));
	}
	let mut track = m.add_spatial_sub_track(id, scn.epos, b).unwrap();
	let log: Log = Arc::new(Mutex::new(vec![]));
	let data = DcData(Frame::new(scn.input.0, scn.input.1), log.clone());
	let mut child = None;
	if scn.nested || scn.pre.is_some() {
		let mut cb = TrackBuilder::new();
		if let Some(mp) = scn.pre {
			cb = cb.volume(Value::FromListenerDistance(mp));
		}
		let mut c = track.add_sub_track(cb).unwrap();
		c.play(data).unwrap();
		child = Some(c);
	} else {
		track.play(data).unwrap();
	}
	Rig { m, _other: other, listener, _foreign: foreign, track, _child: child, log }
}
fn run_scn(scn: &Scn, callbacks: usize) -> RunObs {
	let mut rig = build(scn);
	let mut cbs = vec![];
	for k in 0..callbacks {
		if scn.lmode == LMode::DropBefore(k) {
			rig.listener = None;
		}
		for (at, op) in &scn.ops {
			if *at == k {
				match *op {
					Op::ListenerPos(p, f) => {
						if let Some(l) = rig.listener.as_mut() {
							l.set_position(p, tween_frames(f))
						}
					}
					Op::ListenerQuat(q, f) => {
						if let Some(l) = rig.listener.as_mut() {
							l.set_orientation(q, tween_frames(f))
						}
					}
					Op::EmitterPos(p, f) => rig.track.set_position(p, tween_frames(f)),
					Op::Strength(x, f) => rig.track.set_spatialization_strength(x, tween_frames(f)),
					Op::TrackVolume(mp, f) => rig.track.set_volume(Value::FromListenerDistance(mp), tween_frames(f)),
					Op::ChildVolume(mp, f) => {
						if let Some(c) = rig._child.as_mut() {
							c.set_volume(Value::FromListenerDistance(mp), tween_frames(f))
						}
					}
				}
			}
		}
		let buf = scn.buf;
		let o = catch(|| rig.m.backend_mut().callback_stereo(buf));
		let stop = !matches!(o, Outcome::Ok(_));
		cbs.push(o);
		if stop {
			break;
		}
	}
	let probes = rig.log.lock().unwrap().clone();
	RunObs { cbs, probes }
}

// ---------------------------------------------------------------- encoding for the model
fn easing_code(e: Easing) -> (i128, i128) {
	match e {
		Easing::Linear => (0, 0),
		Easing::InPowi(p) => (1, p as i128),
		Easing::OutPowi(p) => (2, p as i128),
		Easing::InOutPowi(p) => (3, p as i128),
		Easing::InPowf(p) => (4, obs64(p)),
		Easing::OutPowf(p) => (5, obs64(p)),
		Easing::InOutPowf(p) => (6, obs64(p)),
	}
}
/// the libm calls `Easing::apply(x)` makes: (x, p, x.powf(p))
fn easing_oracle(e: Easing, x: f64, tab: &mut Vec<(f64, f64, f64)>) {
	match e {
		Easing::InPowf(p) => tab.push((x, p, x.powf(p))),
		Easing::OutPowf(p) => tab.push((1.0 - x, p, (1.0 - x).powf(p))),
		Easing::InOutPowf(p) => {
			let x2 = x * 2.0;
			if x2 < 1.0 {
				tab.push((x2, p, x2.powf(p)))
			} else {
				let y = 2.0 - x2;
				tab.push((y, p, y.powf(p)))
			}
		}
		_ => {}
	}
}
/// `Easing::apply` is crate-private; `Mapping::map` over the identity ranges is exactly it on [0,1]
fn apply_easing(e: Easing, x: f64) -> f64 {
	Mapping { input_range: (0.0, 1.0), output_range: (0.0f64, 1.0f64), easing: e }.map(x)
}
fn amp_oracle(db: f32, tab: &mut Vec<(f32, f32, f32)>) {
	if db != 0.0 && !(db <= -60.0) {
		let a = db / 20.0;
		tab.push((10.0, a, 10.0f32.powf(a)));
	}
}
fn fl(v: &[f32]) -> String {
	format!("[{}]", v.iter().map(|x| f32_bits_z(*x)).collect::<Vec<_>>().join("; "))
}
fn tab64s(t: &[(f64, f64, f64)]) -> String {
	format!("[{}]", t.iter().map(|(a, b, c)| format!("({}, {}, {})", f64_bits_z(*a), f64_bits_z(*b), f64_bits_z(*c))).collect::<Vec<_>>().join("; "))
}
fn tab32s(t: &[(f32, f32, f32)]) -> String {
	format!("[{}]", t.iter().map(|(a, b, c)| format!("({}, {}, {})", f32_bits_z(*a), f32_bits_z(*b), f32_bits_z(*c))).collect::<Vec<_>>().join("; "))
}
fn ear_consts() -> [f32; 4] {
	let l = Quat::from_rotation_y(-FRAC_PI_8);
	let r = Quat::from_rotation_y(FRAC_PI_8);
	[l.y, l.w, r.y, r.w]
}
/// listener data (prev pos, pos, prev orientation, orientation) as the model's list
fn listener_list(li: &ListenerInfo) -> Vec<f32> {
	let mut v = vec![];
	v.extend_from_slice(&[li.previous_position.x, li.previous_position.y, li.previous_position.z]);
	v.extend_from_slice(&[li.position.x, li.position.y, li.position.z]);
	let (p, q) = (li.previous_orientation, li.orientation);
	v.extend_from_slice(&[p.v.x, p.v.y, p.v.z, p.s]);
	v.extend_from_slice(&[q.v.x, q.v.y, q.v.z, q.s]);
	v
}
fn v3(m: mint::Vector3<f32>) -> Vec3 {
	Vec3::new(m.x, m.y, m.z)
}
fn mapping_list(first: bool, mp: &Mapping<Decibels>, tp: Vec3) -> String {
	let (ek, ep) = easing_code(mp.easing);
	format!(
		"[{}; {}; {}; {}; {}; {}; {}; {}; {}; {}]",
		if first { 1 } else { 0 },
		f64_bits_z(mp.input_range.0),
		f64_bits_z(mp.input_range.1),
		f32_bits_z(mp.output_range.0 .0),
		f32_bits_z(mp.output_range.1 .0),
		ek,
		z(ep),
		f32_bits_z(tp.x),
		f32_bits_z(tp.y),
		f32_bits_z(tp.z)
	)
}
/// emitter state (previous / current position and strength) of one chunk
#[derive(Clone, Copy, Debug)]
struct Em {
	pp: Vec3,
	p: Vec3,
	ps: f32,
	s: f32,
	/// `position.value()` when the chunk began (what `Info` hands to sounds and parameters)
	tp: Vec3,
}
/// Records the libm calls of a volume parameter mapped from the listener distance.
fn vol_oracle(first: bool, mp: &Mapping<Decibels>, lpos: Vec3, tp: Vec3, t1: f64, tab64: &mut Vec<(f64, f64, f64)>, tab32: &mut Vec<(f32, f32, f32)>) {
	let d = lpos.distance(tp) as f64;
	let amount = ((d - mp.input_range.0) / (mp.input_range.1 - mp.input_range.0)).clamp(0.0, 1.0);
	if !amount.is_nan() {
		easing_oracle(mp.easing, amount, tab64);
	}
	let cur = mp.map(d);
	let prev = if first { Decibels(0.0) } else { cur };
	let db = Decibels::interpolate(prev, cur, t1);
	amp_oracle(db.0, tab32);
}
/// The arguments with which the attenuation stage reaches libm (mirror of the data path up to there).
#[allow(clippy::too_many_arguments)]
fn atten_oracle(easing: Option<Easing>, dmin: f32, dmax: f32, li: &ListenerInfo, em: &Em, t: f32, tab64: &mut Vec<(f64, f64, f64)>, tab32: &mut Vec<(f32, f32, f32)>) {
	if let Some(e) = easing {
		let lp_t = v3(li.previous_position).lerp(v3(li.position), t);
		let p_t = em.pp + (em.p - em.pp) * t;
		let d = (lp_t - p_t).length();
		let rd = if dmax <= dmin {
			Some(if d >= dmax { 1.0f32 } else { 0.0 })
		} else if dmin <= dmax {
			Some((d.clamp(dmin, dmax) - dmin) / (dmax - dmin))
		} else {
			None
		};
		if let Some(rd) = rd {
			let x = (1.0 - rd) as f64;
			if !x.is_nan() {
				easing_oracle(e, x, tab64);
			}
			let rv = apply_easing(e, x) as f32;
			let db = Decibels::interpolate(Decibels::SILENCE, Decibels::IDENTITY, rv as f64);
			amp_oracle(db.0, tab32);
		}
	}
}
/// One frame of one chunk as a case for the model.  `li` is what `Info::listener_info` returned
/// in that chunk (None: no listener), `em` the emitter parameters of the chunk.
#[allow(clippy::too_many_arguments)]
fn emit_case(s: &mut Session, kind: &str, scn: &Scn, li: Option<&ListenerInfo>, em: &Em, i: usize, n: usize, first: bool, observed: &Outcome<(f32, f32)>) {
	let mut tab64 = vec![];
	let mut tab32 = vec![];
	let t = (i as f64 / n as f64) as f32;
	let t1 = (i + 1) as f64 / n as f64;
	if let Some(li) = li {
		atten_oracle(scn.easing, scn.dmin, scn.dmax, li, em, t, &mut tab64, &mut tab32);
		if let Some(mp) = &scn.pre {
			vol_oracle(first, mp, v3(li.position), em.tp, t1, &mut tab64, &mut tab32);
		}
		if let Some(mp) = &scn.post {
			vol_oracle(first, mp, v3(li.position), em.tp, t1, &mut tab64, &mut tab32);
		}
	}
	let (ek, ep) = scn.easing.map(easing_code).unwrap_or((0, 0));
	let cfg = format!("[{}; {}; {}; {}; {}]", f32_bits_z(scn.dmin), f32_bits_z(scn.dmax), if scn.easing.is_some() { 1 } else { 0 }, ek, z(ep));
	let lst = match li {
		Some(li) => fl(&listener_list(li)),
		None => "[]".to_string(),
	};
	let emv = fl(&[em.pp.x, em.pp.y, em.pp.z, em.p.x, em.p.y, em.p.z, em.ps, em.s]);
	let pre = scn.pre.as_ref().map(|m| mapping_list(first, m, em.tp)).unwrap_or("[]".into());
	let post = scn.post.as_ref().map(|m| mapping_list(first, m, em.tp)).unwrap_or("[]".into());
	let term = format!(
		"CSpat {} {} {} {} {} {} {} {} {} {} {}",
		fl(&ear_consts()),
		cfg,
		fl(&[scn.input.0, scn.input.1]),
		lst,
		emv,
		i,
		n,
		pre,
		post,
		tab64s(&tab64),
		tab32s(&tab32)
	);
	let obs = match observed {
		Outcome::Ok((l, r)) => Outcome::Ok(vec![obs32(*l), obs32(*r)]),
		Outcome::Panic(c) => Outcome::Panic(*c),
		Outcome::Hang => Outcome::Hang,
	};
	let key = format!(
		"{:?}|{:?}|{:?}|{}|{}|{:?}|{:?}|{}|{}|{:?}",
		li.map(listener_list),
		em,
		(scn.dmin, scn.dmax),
		scn.easing.map(|e| format!("{e:?}")).unwrap_or_default(),
		scn.strength,
		scn.input,
		scn.pre.is_some() || scn.post.is_some(),
		i,
		n,
		obs
	);
	let nontrivial = li.is_some() && (scn.input.0 != 0.0 || scn.input.1 != 0.0);
	s.case(kind, term, &encode_outcome(&obs), if nontrivial { Some(key) } else { None });
}

/// What `Track::process` does to the emitter's parameters, replayed on kira's own public
/// `Parameter` type (same `set` / `update` calls at the same points), so that the previous and
/// current raw values of every chunk are known without a hook.
struct EmMirror {
	pos: Parameter<Vec3>,
	strength: Parameter<f32>,
	info: Info<'static>,
}
impl EmMirror {
	fn new(scn: &Scn) -> Self {
		EmMirror { pos: Parameter::new(Value::Fixed(scn.epos), Vec3::ZERO), strength: Parameter::new(Value::Fixed(scn.strength), 0.75), info: MockInfoBuilder::new().build() }
	}
	/// one callback of one chunk of `n` frames, with the ops issued before it
	fn step(&mut self, scn: &Scn, k: usize, n: usize) -> Em {
		for (at, op) in &scn.ops {
			if *at == k {
				match *op {
					Op::EmitterPos(p, f) => self.pos.set(Value::Fixed(p), tween_frames(f)),
					Op::Strength(x, f) => self.strength.set(Value::Fixed(x), tween_frames(f)),
					_ => {}
				}
			}
		}
		let tp = self.pos.value();
		let dt = 1.0 / SR as f64;
		self.pos.update(dt * n as f64, &self.info);
		self.strength.update(dt * n as f64, &self.info);
		Em { pp: self.pos.previous_value(), p: self.pos.value(), ps: self.strength.previous_value(), s: self.strength.value(), tp }
	}
}

/// Runs a scenario for `callbacks` callbacks (one chunk each), checks the universal monitors
/// (finite output, silence without a listener, listener data and distance seen by sounds, mapped
/// volume) and, if `emit`, sends every frame to the model.  Returns the last callback's frames.
fn run_check(s: &mut Session, kind: &str, scn: &Scn, callbacks: usize, emit: bool) -> Option<Vec<Frame>> {
	let obs = run_scn(scn, callbacks);
	let mut mirror = EmMirror::new(scn);
	let mut last = None;
	if !emit {
		s.eval_only(kind);
	}
	for (k, cb) in obs.cbs.iter().enumerate() {
		let em = mirror.step(scn, k, scn.buf);
		let present = match scn.lmode {
			LMode::Present => true,
			LMode::Foreign => false,
			LMode::DropBefore(j) => k < j,
		};
		let probe = obs.probes.get(k).copied();
		// what sounds on the track are told about the listener
		if let Some(p) = probe {
			if p.li.is_some() != present {
				s.fail(scn.describe(), format!("callback {k}: listener_info().is_some() = {} but the listener {}", p.li.is_some(), if present { "exists" } else { "does not exist" }), None);
			}
			if let Some(li) = p.li {
				let want = v3(li.position).distance(em.tp);
				if p.dist.map(obs32) != Some(obs32(want)) {
					s.fail(scn.describe(), format!("callback {k}: listener_distance() = {:?}, distance of listener {:?} and emitter {:?} = {want:?}", p.dist, li.position, em.tp), None);
				}
				if emit {
					s.case("listener_distance", format!("CDist {} {}", fl(&listener_list(&li)), fl(&[em.tp.x, em.tp.y, em.tp.z])), &[1, p.dist.map(obs32).unwrap_or(-2)], Some(format!("d:{:?}:{:?}", li.position, em.tp)));
				}
				let no_listener_ops = !scn.ops.iter().any(|(_, o)| matches!(o, Op::ListenerPos(..) | Op::ListenerQuat(..)));
				if no_listener_ops && (v3(li.position).to_array().map(f32::to_bits) != scn.lpos.to_array().map(f32::to_bits)) {
					s.fail(scn.describe(), format!("callback {k}: listener position seen by the track is {:?}", li.position), None);
				}
			} else if p.dist.is_some() {
				s.fail(scn.describe(), format!("callback {k}: listener_distance() = {:?} without a listener", p.dist), None);
			}
		}
		let li = probe.and_then(|p| p.li);
		match cb {
			Outcome::Ok(frames) => {
				for (i, f) in frames.iter().enumerate() {
					if emit {
						emit_case(s, kind, scn, li.as_ref(), &em, i, frames.len(), k == 0, &Outcome::Ok((f.left, f.right)));
					}
					if !present && (f.left.to_bits() != 0 || f.right.to_bits() != 0) {
						s.fail(scn.describe(), format!("callback {k} frame {i}: output {f:?} although the listener does not exist"), None);
					}
					if !(f.left.is_finite() && f.right.is_finite()) {
						s.fail(scn.describe(), format!("callback {k} frame {i}: output {f:?} is not finite"), None);
					}
				}
				// a volume mapped from the listener distance follows that distance: with no attenuation
				// curve and strength 0 the output is exactly input * map(distance).as_amplitude()
				if let (Some(li), true, true) = (li, k >= 1, scn.ops.is_empty()) {
					let one = match (scn.pre, scn.post) {
						(Some(m), None) | (None, Some(m)) => Some(m),
						_ => None,
					};
					if let (Some(m), None, true) = (one, scn.easing, scn.strength.clamp(0.0, 1.0) == 0.0) {
						let amp = m.map(v3(li.position).distance(em.tp) as f64).as_amplitude();
						let want = (0.0 + (0.0 + scn.input.0) * (amp * 1.0), 0.0 + (0.0 + scn.input.1) * (amp * 1.0));
						for (i, f) in frames.iter().enumerate() {
							if obs32(f.left) != obs32(want.0) || obs32(f.right) != obs32(want.1) {
								s.fail(scn.describe(), format!("callback {k} frame {i}: output {f:?} but input * amplitude of the volume mapped from the listener distance = {want:?}"), None);
							}
						}
						s.count("monitor_distance_mapped_volume");
					}
				}
				last = Some(frames.clone());
			}
			Outcome::Panic(c) => {
				if emit {
					emit_case(s, kind, scn, li.as_ref(), &em, 0, scn.buf, k == 0, &Outcome::Panic(*c));
				}
				s.fail(scn.describe(), format!("callback {k}: audio thread panicked: {}", last_panic()), None);
				last = None;
			}
			Outcome::Hang => {}
		}
	}
	last
}
/// steady-state levels (second callback, frame 0, one-frame chunks)
fn levels(s: &mut Session, kind: &str, scn: &Scn, emit: bool) -> Option<(f32, f32)> {
	let mut c = scn.clone();
	c.buf = 1;
	run_check(s, kind, &c, 2, emit).map(|f| (f[0].left, f[0].right))
}

// ---------------------------------------------------------------- generators
fn unit(r: &mut Rng) -> f32 {
	(r.unit_f64() * 2.0 - 1.0) as f32
}
fn gen_quat(r: &mut Rng) -> Quat {
	match r.below(10) {
		0 => Quat::IDENTITY,
		1 => Quat::from_xyzw(0.0, 1.0, 0.0, 0.0),
		2 => Quat::from_xyzw(0.0, std::f32::consts::FRAC_1_SQRT_2, 0.0, std::f32::consts::FRAC_1_SQRT_2),
		3 => Quat::from_xyzw(std::f32::consts::FRAC_1_SQRT_2, 0.0, 0.0, -std::f32::consts::FRAC_1_SQRT_2),
		4 => Quat::from_xyzw(0.5, 0.5, 0.5, 0.5),
		5 => Quat::from_xyzw(0.0, 0.0, 1.0, 0.0),
		_ => loop {
			let q = Quat::from_xyzw(unit(r), unit(r), unit(r), unit(r));
			let n = q.length();
			if n > 0.1 && n <= 1.0 {
				break q.normalize();
			}
		},
	}
}
fn gen_pos(r: &mut Rng) -> Vec3 {
	match r.below(8) {
		0 => Vec3::ZERO,
		1 => Vec3::new(r.range(-8, 8) as f32, r.range(-8, 8) as f32, r.range(-8, 8) as f32),
		2 => Vec3::new(unit(r) * 1000.0, unit(r) * 1000.0, unit(r) * 1000.0),
		3 => Vec3::new(r.range(-64, 64) as f32 / 8.0, r.range(-64, 64) as f32 / 8.0, r.range(-64, 64) as f32 / 8.0),
		_ => Vec3::new(unit(r) * 10.0, unit(r) * 10.0, unit(r) * 10.0),
	}
}
/// emitter position relative to a listener: coincident, on an axis, at an ear, far apart, random
fn gen_emitter(r: &mut Rng, lp: Vec3, lq: Quat) -> Vec3 {
	let axes = [Vec3::X, Vec3::NEG_X, Vec3::Y, Vec3::NEG_Y, Vec3::Z, Vec3::NEG_Z];
	match r.below(12) {
		0 => lp,
		1 => lp + *r.pick(&axes) * *r.pick(&[0.05f32, 0.1, 0.5, 1.0, 2.0, 10.0, 100.0, 1000.0]),
		2 => lp + lq * (*r.pick(&axes) * *r.pick(&[0.05f32, 0.1, 0.5, 1.0, 2.0, 10.0, 100.0])),
		3 => lp + lq * (Vec3::NEG_X * EAR),
		4 => lp + lq * (Vec3::X * EAR),
		5 => lp + Vec3::new(unit(r), unit(r), unit(r)) * 1.0e-3,
		6 => lp + Vec3::new(unit(r), unit(r), unit(r)) * *r.pick(&[1.0e4f32, 1.0e10, 1.0e19, 1.0e30, 3.0e38]),
		7 => lp + Vec3::new(unit(r), unit(r), unit(r)) * 0.3,
		8 => lp + Vec3::new(unit(r), unit(r), unit(r)) * 120.0,
		_ => lp + Vec3::new(unit(r), unit(r), unit(r)) * 10.0,
	}
}
fn gen_easing_opt(r: &mut Rng) -> Option<Easing> {
	match r.below(12) {
		0 => None,
		1 | 2 | 3 | 4 => Some(Easing::Linear),
		5 => Some(Easing::InPowi(2)),
		6 => Some(Easing::OutPowi(*r.pick(&[2, 3]))),
		7 => Some(Easing::InOutPowi(*r.pick(&[2, 3]))),
		8 => Some(Easing::InPowf(*r.pick(&[0.5, 1.5, 2.0]))),
		9 => Some(Easing::OutPowf(*r.pick(&[0.5, 1.5, 2.0]))),
		10 => Some(Easing::InOutPowf(*r.pick(&[0.5, 1.5, 2.0]))),
		_ => Some(Easing::InPowi(3)),
	}
}
fn gen_distances(r: &mut Rng) -> (f32, f32) {
	match r.below(9) {
		0 | 1 => (1.0, 100.0),
		2 => (0.0, 1.0),
		3 => (0.5, 2.0),
		4 => (0.0, 1.0e6),
		5 => (1.0e-3, 1.0e-2),
		6 => {
			let a = (r.unit_f64() * 10.0) as f32;
			(a, a + (r.unit_f64() * 50.0) as f32 + 0.01)
		}
		7 => *r.pick(&[(10.0f32, 1.0f32), (5.0, 5.0), (0.0, 0.0), (3.0, 2.0), (100.0, 0.0)]),
		_ => (r.range(0, 4) as f32, r.range(5, 40) as f32),
	}
}
fn gen_strength(r: &mut Rng) -> f32 {
	match r.below(10) {
		0 => 0.0,
		1 => 1.0,
		2 => 0.75,
		3 => 0.5,
		4 => -0.5,
		5 => 1.5,
		6 => -0.0,
		_ => r.unit_f64() as f32,
	}
}
fn gen_input(r: &mut Rng) -> (f32, f32) {
	match r.below(6) {
		0 => (0.5, 0.5),
		1 => (0.5, -0.25),
		2 => (1.0, 0.0),
		3 => (0.0, 0.0),
		_ => (unit(r), unit(r)),
	}
}
fn gen_mapping(r: &mut Rng) -> Mapping<Decibels> {
	let lo = *r.pick(&[0.0, 1.0, 0.5]);
	let hi = lo + *r.pick(&[1.0, 10.0, 100.0, 7.5]);
	let e = gen_easing_opt(r).unwrap_or(Easing::Linear);
	let (a, b) = *r.pick(&[(0.0f32, -60.0f32), (0.0, -20.0), (-6.0, -40.0), (-30.0, 0.0), (-3.0, -3.0)]);
	Mapping { input_range: (lo, hi), output_range: (Decibels(a), Decibels(b)), easing: e }
}
fn gen_scn(r: &mut Rng) -> Scn {
	let lpos = gen_pos(r);
	let lq = gen_quat(r);
	let epos = gen_emitter(r, lpos, lq);
	let (dmin, dmax) = gen_distances(r);
	let mut scn = Scn::base();
	scn.lpos = lpos;
	scn.lq = lq;
	scn.epos = epos;
	scn.dmin = dmin;
	scn.dmax = dmax;
	scn.easing = gen_easing_opt(r);
	scn.strength = gen_strength(r);
	scn.input = gen_input(r);
	scn.buf = *r.pick(&[1usize, 1, 1, 2, 3, 4]);
	scn.nested = r.chance(1, 5);
	if r.chance(1, 6) {
		scn.pre = Some(gen_mapping(r));
	}
	if r.chance(1, 6) {
		scn.post = Some(gen_mapping(r));
	}
	scn
}

// ---------------------------------------------------------------- a spatial track inside a spatial track
#[derive(Clone, Debug)]
struct Stage {
	lpos: Vec3,
	lq: Quat,
	epos: Vec3,
	dmin: f32,
	dmax: f32,
	easing: Option<Easing>,
	strength: f32,
	exists: bool,
}
fn gen_stage(r: &mut Rng) -> Stage {
	let g = gen_scn(r);
	Stage { lpos: g.lpos, lq: g.lq, epos: g.epos, dmin: g.dmin, dmax: g.dmax, easing: g.easing, strength: g.strength, exists: !r.chance(1, 8) }
}
fn static_info(st: &Stage) -> ListenerInfo {
	let p = mint::Vector3 { x: st.lpos.x, y: st.lpos.y, z: st.lpos.z };
	let q = mint::Quaternion { v: mint::Vector3 { x: st.lq.x, y: st.lq.y, z: st.lq.z }, s: st.lq.w };
	ListenerInfo { position: p, orientation: q, previous_position: p, previous_orientation: q }
}
fn stage_lists(st: &Stage, t: f32, tab64: &mut Vec<(f64, f64, f64)>, tab32: &mut Vec<(f32, f32, f32)>) -> (String, String, String) {
	let (ek, ep) = st.easing.map(easing_code).unwrap_or((0, 0));
	let cfg = format!("[{}; {}; {}; {}; {}]", f32_bits_z(st.dmin), f32_bits_z(st.dmax), if st.easing.is_some() { 1 } else { 0 }, ek, z(ep));
	let em = Em { pp: st.epos, p: st.epos, ps: st.strength, s: st.strength, tp: st.epos };
	let li = static_info(st);
	if st.exists {
		atten_oracle(st.easing, st.dmin, st.dmax, &li, &em, t, tab64, tab32);
	}
	let lst = if st.exists { fl(&listener_list(&li)) } else { "[]".to_string() };
	let emv = fl(&[em.pp.x, em.pp.y, em.pp.z, em.p.x, em.p.y, em.p.z, em.ps, em.s]);
	(cfg, lst, emv)
}
fn run_nested(s: &mut Session, r: &mut Rng) {
	let parent = gen_stage(r);
	let child = gen_stage(r);
	let input = gen_input(r);
	let buf = *r.pick(&[1usize, 1, 2]);
	let mut m = simple_manager(SR, buf);
	// ids of listeners that this manager never had: taken from another manager, from slots this one leaves empty
	let mut other = simple_manager(SR, buf);
	let mut foreign = vec![];
	for _ in 0..6 {
		foreign.push(other.add_listener(Vec3::ZERO, Quat::IDENTITY).unwrap());
	}
	let mut keep = vec![];
	let mut id_of = |st: &Stage, m: &mut Mgr, slot: usize| {
		if st.exists {
			let h = m.add_listener(st.lpos, st.lq).unwrap();
			let id = h.id();
			keep.push(h);
			id
		} else {
			foreign[4 + slot].id()
		}
	};
	let ida = id_of(&parent, &mut m, 0);
	let idb = id_of(&child, &mut m, 1);
	let builder = |st: &Stage| SpatialTrackBuilder::new().distances((st.dmin, st.dmax)).attenuation_function(st.easing).spatialization_strength(st.strength);
	let mut pt = m.add_spatial_sub_track(ida, parent.epos, builder(&parent)).unwrap();
	let mut ct = pt.add_spatial_sub_track(idb, child.epos, builder(&child)).unwrap();
	let log: Log = Arc::new(Mutex::new(vec![]));
	ct.play(DcData(Frame::new(input.0, input.1), log.clone())).unwrap();
	let describe = format!("nested spatial tracks: parent {parent:?}; child {child:?}; input {input:?}; buffer {buf}");
	for k in 0..2 {
		let o = catch(|| m.backend_mut().callback_stereo(buf));
		let probe = log.lock().unwrap().get(k).copied();
		if let Some(p) = probe {
			// the sound sits on the child: it must see the child's listener and emitter
			if p.li.is_some() != child.exists {
				s.fail(describe.clone(), format!("callback {k}: the sound on the inner track sees listener_info().is_some() = {}", p.li.is_some()), None);
			}
			if child.exists && p.dist.map(obs32) != Some(obs32(child.lpos.distance(child.epos))) {
				s.fail(describe.clone(), format!("callback {k}: listener_distance() on the inner track = {:?}, expected {:?}", p.dist, child.lpos.distance(child.epos)), None);
			}
		}
		match o {
			Outcome::Ok(frames) => {
				for (i, f) in frames.iter().enumerate() {
					let t = (i as f64 / buf as f64) as f32;
					let (mut tab64, mut tab32) = (vec![], vec![]);
					let (c1, l1, e1) = stage_lists(&child, t, &mut tab64, &mut tab32);
					// the parent's libm calls do not depend on its input, only on positions
					let (c2, l2, e2) = stage_lists(&parent, t, &mut tab64, &mut tab32);
					let term = format!("CNest {} {} {} {} {} {} {} {} {} {} {} {}", fl(&ear_consts()), c1, l1, e1, c2, l2, e2, fl(&[input.0, input.1]), i, buf, tab64s(&tab64), tab32s(&tab32));
					let key = format!("{parent:?}{child:?}{input:?}{i}{buf}");
					s.case("nested_spatial", term, &[0, obs32(f.left), obs32(f.right)], if parent.exists && child.exists && input != (0.0, 0.0) { Some(key) } else { None });
					if !(f.left.is_finite() && f.right.is_finite()) {
						s.fail(describe.clone(), format!("callback {k} frame {i}: output {f:?} is not finite"), None);
					}
					if (!parent.exists || !child.exists) && (f.left.to_bits() != 0 || f.right.to_bits() != 0) {
						s.fail(describe.clone(), format!("callback {k} frame {i}: output {f:?} although a listener on the path does not exist"), None);
					}
				}
			}
			_ => s.fail(describe.clone(), format!("callback {k}: audio thread panicked: {}", last_panic()), None),
		}
	}
}

// ---------------------------------------------------------------- monitors of the relational laws
fn rot64(q: Quat, v: [f64; 3]) -> [f64; 3] {
	let (x, y, z, w) = (q.x as f64, q.y as f64, q.z as f64, q.w as f64);
	let n = (x * x + y * y + z * z + w * w).sqrt();
	let (x, y, z, w) = (x / n, y / n, z / n, w / n);
	// v + 2 w (b x v) + 2 b x (b x v)
	let c1 = [y * v[2] - z * v[1], z * v[0] - x * v[2], x * v[1] - y * v[0]];
	let c2 = [y * c1[2] - z * c1[1], z * c1[0] - x * c1[2], x * c1[1] - y * c1[0]];
	[v[0] + 2.0 * (w * c1[0] + c2[0]), v[1] + 2.0 * (w * c1[1] + c2[1]), v[2] + 2.0 * (w * c1[2] + c2[2])]
}
fn qmul64(a: Quat, b: Quat) -> Quat {
	let (ax, ay, az, aw) = (a.x as f64, a.y as f64, a.z as f64, a.w as f64);
	let (bx, by, bz, bw) = (b.x as f64, b.y as f64, b.z as f64, b.w as f64);
	let q = [aw * bx + ax * bw + ay * bz - az * by, aw * by - ax * bz + ay * bw + az * bx, aw * bz + ax * by - ay * bx + az * bw, aw * bw - ax * bx - ay * by - az * bz];
	let n = (q[0] * q[0] + q[1] * q[1] + q[2] * q[2] + q[3] * q[3]).sqrt();
	Quat::from_xyzw((q[0] / n) as f32, (q[1] / n) as f32, (q[2] / n) as f32, (q[3] / n) as f32)
}
fn d3(v: Vec3) -> [f64; 3] {
	[v.x as f64, v.y as f64, v.z as f64]
}
fn f3(v: [f64; 3]) -> Vec3 {
	Vec3::new(v[0] as f32, v[1] as f32, v[2] as f32)
}
fn dot64(a: [f64; 3], b: [f64; 3]) -> f64 {
	a[0] * b[0] + a[1] * b[1] + a[2] * b[2]
}
fn sub64(a: [f64; 3], b: [f64; 3]) -> [f64; 3] {
	[a[0] - b[0], a[1] - b[1], a[2] - b[2]]
}
fn norm64(a: [f64; 3]) -> f64 {
	dot64(a, a).sqrt()
}
fn gen_unit_vec(r: &mut Rng) -> Vec3 {
	match r.below(4) {
		0 => *r.pick(&[Vec3::X, Vec3::NEG_X, Vec3::Y, Vec3::NEG_Y, Vec3::Z, Vec3::NEG_Z]),
		_ => loop {
			let v = Vec3::new(unit(r), unit(r), unit(r));
			if v.length() > 0.1 && v.length() <= 1.0 {
				break v.normalize();
			}
		},
	}
}
fn gen_moderate_pos(r: &mut Rng) -> Vec3 {
	match r.below(3) {
		0 => Vec3::ZERO,
		1 => Vec3::new(r.range(-64, 64) as f32 / 8.0, r.range(-64, 64) as f32 / 8.0, r.range(-64, 64) as f32 / 8.0),
		_ => Vec3::new(unit(r) * 8.0, unit(r) * 8.0, unit(r) * 8.0),
	}
}

/// attenuation: a function of the distance only, unity within min, zero from max on,
/// non-increasing along a ray; strength 0 passes the stereo frame un-mixed
fn monitor_attenuation(s: &mut Session, r: &mut Rng, emit_every: u64, idx: u64) {
	let lp = gen_moderate_pos(r);
	let lq = gen_quat(r);
	let (dmin, dmax) = gen_distances(r);
	let e = gen_easing_opt(r).unwrap_or(Easing::Linear);
	let u = gen_unit_vec(r);
	let (lo, hi) = if dmin < dmax { (dmin, dmax) } else { (dmax, dmin) };
	let mut ds = vec![0.0f32, lo * 0.5, lo, lo * 1.000001, hi * 0.999999, hi, hi * 1.0001, hi * 2.0 + 1.0, hi * 1000.0 + 7.0];
	for w in [0.1f32, 0.25, 0.5, 0.75, 0.9] {
		ds.push(lo + (hi - lo) * w);
	}
	for _ in 0..3 {
		ds.push(lo + (hi - lo) * r.unit_f64() as f32);
	}
	let mut base = Scn::base();
	base.lpos = lp;
	base.lq = lq;
	base.dmin = dmin;
	base.dmax = dmax;
	base.easing = Some(e);
	base.strength = *r.pick(&[0.0f32, 0.0, -0.0, -0.5]);
	base.input = (0.5, 0.25);
	base.nested = r.chance(1, 4);
	let mut pts: Vec<(f32, f32, Vec3)> = vec![];
	let mut seen: std::collections::HashMap<u32, (f32, Vec3)> = std::collections::HashMap::new();
	for (j, d) in ds.iter().enumerate() {
		for flip in [false, true] {
			let mut scn = base.clone();
			scn.epos = if flip { lp - u * *d } else { lp + u * *d };
			if flip {
				scn.lq = gen_quat(r);
			}
			let emit = emit_every > 0 && (idx + j as u64) % emit_every == 0 && !flip;
			let Some(out) = levels(s, "monitor_attenuation", &scn, emit) else { continue };
			let d_act = (lp - scn.epos).length();
			let a = out.0 * 2.0;
			if out.0.to_bits() != (out.1 * 2.0).to_bits() {
				s.fail(scn.describe(), format!("strength 0: output {out:?} is not the input (0.5, 0.25) scaled by one factor"), None);
			}
			if !(0.0..=1.0).contains(&a) {
				s.fail(scn.describe(), format!("attenuation factor {a:?} outside [0, 1] at distance {d_act:?}"), None);
			}
			if d_act <= dmin && d_act < dmax && a != 1.0 {
				s.fail(scn.describe(), format!("distance {d_act:?} within the minimum distance but the attenuation factor is {a:?}"), None);
			}
			if d_act >= dmax && a != 0.0 {
				s.fail(scn.describe(), format!("distance {d_act:?} at or beyond the maximum distance but the attenuation factor is {a:?}"), None);
			}
			if let Some((a0, p0)) = seen.get(&d_act.to_bits()) {
				if a0.to_bits() != a.to_bits() {
					s.fail(scn.describe(), format!("same distance {d_act:?} as emitter {p0:?} (other direction / listener orientation) but attenuation {a:?} instead of {a0:?}"), None);
				}
			} else {
				seen.insert(d_act.to_bits(), (a, scn.epos));
			}
			pts.push((d_act, a, scn.epos));
		}
	}
	pts.sort_by(|x, y| x.0.partial_cmp(&y.0).unwrap());
	for w in pts.windows(2) {
		if w[1].1 > w[0].1 {
			let mut scn = base.clone();
			scn.epos = w[1].2;
			s.fail(scn.describe(), format!("attenuation increases with distance: {:?} at {:?} but {:?} at {:?} (emitter {:?})", w[0].1, w[0].0, w[1].1, w[1].0, w[0].2), None);
		}
	}
}

/// per-ear gains: range, side preference, mirror swap, rigid-motion invariance
fn monitor_gains(s: &mut Session, r: &mut Rng, emit: bool) {
	let lp = gen_moderate_pos(r);
	let lq = gen_quat(r);
	let mut scn = Scn::base();
	scn.lpos = lp;
	scn.lq = lq;
	scn.epos = match r.below(4) {
		0 => lp + lq * Vec3::new(unit(r) * 0.2, unit(r) * 0.2, unit(r) * 0.2),
		1 => lp + Vec3::new(unit(r) * 12.0, unit(r) * 12.0, unit(r) * 12.0),
		_ => gen_emitter(r, lp, lq),
	};
	scn.easing = None;
	scn.strength = match r.below(4) {
		0 => 1.0,
		1 => gen_strength(r),
		_ => r.unit_f64() as f32,
	};
	scn.input = (0.5, 0.5);
	let sc = scn.strength.clamp(0.0, 1.0);
	let Some(out) = levels(s, "monitor_gains", &scn, emit) else { return };
	let (gl, gr) = (out.0 * 2.0, out.1 * 2.0);
	let eps = 2.0e-6f32;
	for (name, g) in [("left", gl), ("right", gr)] {
		if !(g >= 1.0 - sc - eps && g <= 1.0 + eps) {
			s.fail(scn.describe(), format!("{name} ear gain {g:?} outside [1 - strength, 1] = [{:?}, 1]", 1.0 - sc), None);
		}
	}
	if sc == 0.0 {
		if gl != 1.0 || gr != 1.0 {
			s.fail(scn.describe(), format!("strength 0 but gains ({gl:?}, {gr:?})"), None);
		}
		return;
	}
	if !(scn.epos.is_finite() && scn.epos.abs().max_element() < 1.0e6) {
		return;
	}
	// side preference
	let rel = sub64(d3(scn.epos), d3(lp));
	let n = rot64(lq, [1.0, 0.0, 0.0]);
	let x = dot64(rel, n);
	let margin = 1.0e-6 * (1.0 + norm64(d3(lp)) + norm64(rel));
	let ear = EAR as f64;
	let wrong_side = (x < 0.0 && gl < gr - eps) || (x > 0.0 && gr < gl - eps);
	if wrong_side {
		if x.abs() >= ear + margin {
			s.fail(scn.describe(), format!("emitter at local x = {x:?} (beyond the ear plane) but gains (left {gl:?}, right {gr:?}) favour the other ear"), None);
		} else if x.abs() < ear - margin {
			s.fail(scn.describe(), format!("emitter inside the head at local x = {x:?}: gains (left {gl:?}, right {gr:?}) favour the other ear"), Some("spatial_side_preference_inside_head"));
		}
	}
	s.count("monitor_side_preference");
	// conditioning of the direction computation: coordinates / distance to the nearer ear
	let ear_l = sub64(rel, [-ear * n[0], -ear * n[1], -ear * n[2]]);
	let ear_r = sub64(rel, [ear * n[0], ear * n[1], ear * n[2]]);
	let delta = norm64(ear_l).min(norm64(ear_r));
	if delta < 1.0e-3 {
		return;
	}
	let m = norm64(d3(lp)) + norm64(rel) + 1.0;
	// mirror through the median plane
	{
		let pm = [d3(scn.epos)[0] - 2.0 * x * n[0], d3(scn.epos)[1] - 2.0 * x * n[1], d3(scn.epos)[2] - 2.0 * x * n[2]];
		let mut sm = scn.clone();
		sm.epos = f3(pm);
		if let Some(o2) = levels(s, "monitor_mirror", &sm, false) {
			let tol = (1.0e-5 * (1.0 + m / delta)) as f32;
			let (ml, mr) = (o2.0 * 2.0, o2.1 * 2.0);
			if (ml - gr).abs() > tol || (mr - gl).abs() > tol {
				s.fail(scn.describe(), format!("mirrored emitter {:?}: gains ({ml:?}, {mr:?}) are not the swapped gains ({gr:?}, {gl:?}) within {tol:e}", sm.epos), None);
			}
		}
	}
	// rigid motion of listener and emitter together
	{
		let g = gen_quat(r);
		let t = gen_moderate_pos(r);
		let mv = |p: Vec3| {
			let q = rot64(g, d3(p));
			f3([q[0] + t.x as f64, q[1] + t.y as f64, q[2] + t.z as f64])
		};
		let mut sm = scn.clone();
		sm.lpos = mv(lp);
		sm.epos = mv(scn.epos);
		sm.lq = qmul64(g, lq);
		let m2 = m + norm64(d3(t));
		if let Some(o2) = levels(s, "monitor_rigid_motion", &sm, false) {
			let tol = (1.0e-5 * (1.0 + m2 / delta)) as f32;
			let (ml, mr) = (o2.0 * 2.0, o2.1 * 2.0);
			if (ml - gl).abs() > tol || (mr - gr).abs() > tol {
				s.fail(scn.describe(), format!("after the rigid motion (rotation {:?}, translation {:?}) gains ({ml:?}, {mr:?}) differ from ({gl:?}, {gr:?}) by more than {tol:e}", g.to_array(), t.to_array()), None);
			}
		}
		// ... and the attenuation (strength 0, wide linear range)
		let mut a1 = scn.clone();
		a1.strength = 0.0;
		a1.easing = Some(*r.pick(&[Easing::Linear, Easing::InPowi(2), Easing::OutPowi(2)]));
		a1.dmin = 0.0;
		a1.dmax = 64.0;
		let mut a2 = a1.clone();
		a2.lpos = sm.lpos;
		a2.epos = sm.epos;
		a2.lq = sm.lq;
		if let (Some(x1), Some(x2)) = (levels(s, "monitor_rigid_motion", &a1, false), levels(s, "monitor_rigid_motion", &a2, false)) {
			let tol = (1.0e-5 * (1.0 + 30.0 * m2 / 64.0)) as f32;
			if (x1.0 - x2.0).abs() > tol * x1.0.abs().max(1.0e-3) {
				s.fail(scn.describe(), format!("after the rigid motion (rotation {:?}, translation {:?}) the attenuated level {:?} differs from {:?} by more than {tol:e} relative", g.to_array(), t.to_array(), x2.0, x1.0), None);
			}
		}
	}
}


/// Pick-up order (C02 theorem `pickup_order_users_first`, here for listeners): the caller creates a listener and
/// then a spatial track that names it, in the MIDDLE of `Renderer::on_start_processing` (hook run from a probe
/// sound's / effect's `on_start_processing` on a live parent track).  A spatial track that is live (its sound is
/// asked for frames) while its listener exists — created before it, handle alive — must never render a callback of
/// silence: "silent" is only for a listener that does not exist.
fn pickup_order_listener(s: &mut Session) {
	use crate::inject::*;
	use kira::listener::ListenerHandle;
	use kira::track::{SpatialTrackHandle, TrackHandle};
	use std::sync::atomic::{AtomicUsize, Ordering};
	use std::sync::{Arc, Mutex};
	#[derive(Default)]
	struct Keep {
		parents: Vec<TrackHandle>,
		spatial: Vec<SpatialTrackHandle>,
		listeners: Vec<ListenerHandle>,
	}
	let points = ["a probe sound on the parent track (before the parent drains its sub-tracks)", "an effect on the parent track (after it)"];
	for (pi, point) in points.iter().enumerate() {
		for b in [1usize, 4, 8] {
			let hook = Hook::default();
			let (m, r) = shared_manager(1000, b, kira::track::MainTrackBuilder::new());
			let keep: Arc<Mutex<Keep>> = Arc::default();
			let mut parent = {
				let tb = if pi == 1 { TrackBuilder::new().with_effect(HookFxBuilder(hook.clone())) } else { TrackBuilder::new() };
				m.lock().unwrap().add_sub_track(tb).unwrap()
			};
			if pi == 0 {
				parent.play(HookSound(hook.clone())).unwrap();
			}
			let _ = callback(&r, b, 2);
			let _ = callback(&r, b, 2);
			let asked = Arc::new(AtomicUsize::new(0));
			let parent = Arc::new(Mutex::new(parent));
			*hook.lock().unwrap() = Some(Box::new({
				let m = m.clone();
				let keep = keep.clone();
				let parent = parent.clone();
				let asked = asked.clone();
				move || {
					let mut m = m.lock().unwrap();
					let mut k = keep.lock().unwrap();
					let l = m.add_listener(Vec3::ZERO, Quat::IDENTITY).unwrap();
					let mut t = parent.lock().unwrap().add_spatial_sub_track(l.id(), Vec3::new(1.0, 0.0, 0.0), SpatialTrackBuilder::new()).unwrap();
					t.play(CountingDc(0.25, asked.clone())).unwrap();
					k.listeners.push(l);
					k.spatial.push(t);
				}
			}));
			let desc = format!("internal buffer {b}; in a callback's on_start_processing, from {point}: add_listener L; parent.add_spatial_sub_track(listener L, 1 unit away); play(constant 0.25); then 5 callbacks of {b} frames");
			let mut heard = false;
			let mut bad = None;
			for n in 0..5 {
				let before = asked.load(Ordering::SeqCst);
				let out = callback(&r, b, 2);
				let got = asked.load(Ordering::SeqCst) - before;
				let nonzero = out.iter().any(|x| *x != 0.0);
				if got > 0 && !nonzero && bad.is_none() {
					bad = Some(format!("callback {n}: the spatial track's sound was asked for {got} frames but the callback is silent although its listener was created before it and is alive"));
				}
				heard |= nonzero;
			}
			s.eval_only("pickup_order_listener");
			if hook.lock().unwrap().is_some() {
				s.fail(desc.clone(), "the hook never ran".into(), None);
			} else if let Some(w) = bad {
				s.fail(desc.clone(), w, None);
			} else if !heard {
				s.fail(desc.clone(), "the spatial track never became audible".into(), None);
			}
			keep.lock().unwrap().parents.clear();
		}
	}
}

// ---------------------------------------------------------------- histories: links made at run time, common motion
fn chunks_of(frames: u32, buf: usize) -> usize {
	((frames as usize + buf - 1) / buf).max(1)
}
fn gen_link_dist(r: &mut Rng) -> f32 {
	match r.below(3) {
		0 => *r.pick(&[0.0f32, 0.5, 1.0, 2.0, 5.0, 7.5, 10.0, 20.0, 50.0, 100.0]),
		1 => (r.unit_f64() * 12.0) as f32,
		_ => r.range(0, 96) as f32 / 8.0,
	}
}
/// "A parameter mapped from listener distance follows that distance" for a link made AT RUN TIME through a handle
/// (`set_volume(Value::FromListenerDistance(..), tween)` on the spatial track or on a child track of it) and a
/// history that goes on AFTER the link's tween has ended: listener and emitter move (zero-length and longer tweens),
/// and in every chunk after the end of the tween the volume must be `mapping.map(distance of THAT chunk)`:
///  * scenes without attenuation and panning: every output frame is the input times the amplitude of the decibel
///    value interpolated between the previous and the current chunk's mapped distance (exact);
///  * all scenes: once everything is at rest the output is bit-identical to that of the static scene built with the
///    same mapping in the builder at the final positions (a value does not depend on how it was linked or on the
///    history), and the frames of chunks at rest are sent to the model with the mapping as the volume stage.
fn run_linked(s: &mut Session, r: &mut Rng, emit_twin: bool) {
	let mut scn = Scn::base();
	scn.lpos = gen_moderate_pos(r);
	scn.lq = gen_quat(r);
	scn.epos = scn.lpos + gen_unit_vec(r) * gen_link_dist(r);
	let pure = r.chance(2, 3);
	if pure {
		scn.easing = None;
		scn.strength = *r.pick(&[0.0f32, 0.0, -0.0, -0.5]);
	} else {
		let (a, b) = gen_distances(r);
		scn.dmin = a;
		scn.dmax = b;
		scn.easing = gen_easing_opt(r);
		scn.strength = gen_strength(r);
	}
	scn.input = gen_input(r);
	if scn.input == (0.0, 0.0) {
		scn.input = (0.5, -0.25);
	}
	scn.buf = *r.pick(&[1usize, 1, 2, 4]);
	let on_child = r.chance(1, 3);
	scn.nested = on_child;
	let mp = gen_mapping(r);
	let link_at = r.below(3) as usize;
	let f = *r.pick(&[0u32, 0, 1, 3, 5, 8, 10]);
	// the chunk in which the link's tween ends: from there on the parameter is idle and linked
	let kf = link_at + chunks_of(f, scn.buf) - 1;
	scn.ops.push((link_at, if on_child { Op::ChildVolume(mp, f) } else { Op::TrackVolume(mp, f) }));
	let (mut lfin, mut qfin, mut efin) = (scn.lpos, scn.lq, scn.epos);
	let mut at = kf + 1 + r.below(3) as usize;
	for _ in 0..r.range(1, 3) {
		let g = *r.pick(&[0u32, 0, 1, 3, 8]);
		match r.below(4) {
			0 | 1 => {
				lfin = efin + gen_unit_vec(r) * gen_link_dist(r);
				scn.ops.push((at, Op::ListenerPos(lfin, g)));
			}
			2 => {
				efin = lfin + gen_unit_vec(r) * gen_link_dist(r);
				scn.ops.push((at, Op::EmitterPos(efin, g)));
			}
			_ => {
				lfin = efin + gen_unit_vec(r) * gen_link_dist(r);
				qfin = gen_quat(r);
				scn.ops.push((at, Op::ListenerPos(lfin, g)));
				scn.ops.push((at, Op::ListenerQuat(qfin, g)));
			}
		}
		at += chunks_of(g, scn.buf) + r.below(3) as usize;
	}
	let total = at + 3;
	let obs = run_scn(&scn, total);
	let mut mirror = EmMirror::new(&scn);
	s.eval_only("linked_at_run_time");
	// the scenario as the model sees a chunk at rest: the mapping is the volume stage of the (child) track
	let mut mscn = scn.clone();
	if on_child {
		mscn.pre = Some(mp);
	} else {
		mscn.post = Some(mp);
	}
	let mut prev_db: Option<Decibels> = None;
	let mut emitted = 0;
	let mut last: Option<Frame> = None;
	for (k, cb) in obs.cbs.iter().enumerate() {
		let em = mirror.step(&scn, k, scn.buf);
		let Some(li) = obs.probes.get(k).and_then(|p| p.li) else {
			s.fail(scn.describe(), format!("callback {k}: the sound on the spatial track was not processed or saw no listener"), None);
			return;
		};
		let d = v3(li.position).distance(em.tp);
		if obs.probes[k].dist.map(obs32) != Some(obs32(d)) {
			s.fail(scn.describe(), format!("callback {k}: listener_distance() = {:?}, distance of listener {:?} and emitter {:?} = {d:?}", obs.probes[k].dist, li.position, em.tp), None);
		}
		let cur = mp.map(d as f64);
		let Outcome::Ok(frames) = cb else {
			s.fail(scn.describe(), format!("callback {k}: audio thread panicked: {}", last_panic()), None);
			return;
		};
		// one chunk of slack after the nominal end of the link's tween: its duration is a whole number of
		// nanoseconds (Duration), which can exceed f frames of accumulated dt by a rounding, so the tween may end
		// one chunk later than kf; the chunk after THAT is the first whose previous value is the mapped distance
		if let (true, Some(prev)) = (k > kf + 1, prev_db) {
			let n = frames.len();
			let at_rest = prev.0.to_bits() == cur.0.to_bits();
			for (i, fr) in frames.iter().enumerate() {
				if pure {
					let t1 = (i + 1) as f64 / n as f64;
					let amp = Decibels::interpolate(prev, cur, t1).as_amplitude();
					let want = (0.0 + (0.0 + scn.input.0) * (amp * 1.0), 0.0 + (0.0 + scn.input.1) * (amp * 1.0));
					if obs32(fr.left) != obs32(want.0) || obs32(fr.right) != obs32(want.1) {
						s.fail(
							scn.describe(),
							format!(
								"callback {k} frame {i}: the volume was linked to the listener distance before callback {link_at} (tween of {f} frames, over in callback {kf}); the distance is now {d:?} (mapped: {:?} dB, previous chunk {:?} dB) so the output must be input * {amp:?} = {want:?}, but it is {fr:?}: the parameter does not follow the distance",
								cur.0, prev.0
							),
							None,
						);
						return;
					}
					s.count("monitor_linked_volume_follows_distance");
				}
				if at_rest && (emitted < n || (k + 1 == obs.cbs.len() && i + 1 == n)) {
					emit_case(s, "linked_at_run_time", &mscn, Some(&li), &em, i, n, false, &Outcome::Ok((fr.left, fr.right)));
					emitted += 1;
				}
			}
		}
		for fr in frames {
			if !(fr.left.is_finite() && fr.right.is_finite()) {
				s.fail(scn.describe(), format!("callback {k}: output {fr:?} is not finite"), None);
			}
		}
		prev_db = Some(cur);
		last = frames.last().copied();
	}
	// the static twin: same mapping given to the builder, everything at its final place from the start
	let mut twin = mscn.clone();
	twin.ops.clear();
	twin.lpos = lfin;
	twin.lq = qfin;
	twin.epos = efin;
	if let (Some(a), Some(bf)) = (last, run_check(s, "linked_static_twin", &twin, 2, emit_twin)) {
		let b = *bf.last().unwrap();
		if obs32(a.left) != obs32(b.left) || obs32(a.right) != obs32(b.right) {
			s.fail(
				scn.describe(),
				format!(
					"at rest after the history (listener {:?} {:?}, emitter {:?}) the output is {a:?}, but the same scene with the mapping given to the builder renders {b:?}: the value of a parameter mapped from the listener distance depends on the history, not on the distance",
					lfin.to_array(),
					qfin.to_array(),
					efin.to_array()
				),
				None,
			);
		}
		s.count("monitor_linked_equals_static_twin");
	}
}

/// what the sound on a riding emitter sees in one chunk
#[derive(Clone, Copy)]
struct RideRec {
	li: Option<ListenerInfo>,
	m: Option<f64>,
}
struct RideDc {
	frame: Frame,
	id: kira::modulator::ModulatorId,
	log: Arc<Mutex<Vec<RideRec>>>,
}
impl Sound for RideDc {
	fn process(&mut self, out: &mut [Frame], _dt: f64, info: &Info) {
		self.log.lock().unwrap().push(RideRec { li: info.listener_info(), m: info.modulator_value(self.id) });
		out.fill(self.frame);
	}
	fn finished(&self) -> bool {
		false
	}
}
struct RideDcData(RideDc);
impl SoundData for RideDcData {
	type Error = ();
	type Handle = ();
	fn into_sound(self) -> Result<(Box<dyn Sound>, ()), ()> {
		Ok((Box::new(self.0), ()))
	}
}
fn dyadic_pos(r: &mut Rng, span: i64) -> Vec3 {
	Vec3::new(r.range(-span, span) as f32 / 8.0, r.range(-span, span) as f32 / 8.0, r.range(-span, span) as f32 / 8.0)
}
/// Rigid motion applied to listener and emitter TOGETHER, as a history: both ride one vehicle.  Kind 0: both
/// positions are linked to the same tweener modulator (same mapping, the emitter's shifted by a constant offset);
/// kind 1: both are moved through their handles by the same tween started on the same clock tick.  The true distance
/// and relative direction never change, so ("the attenuation depends only on the emitter-listener distance", "each
/// ear gain ... is unchanged by a rigid motion applied to listener and emitter together") every frame rendered while
/// the vehicle moves must have the level of the parked scene.  For kind 0 the frames of moving chunks also go to the
/// model, with listener and emitter data computed from the modulator values the track saw in those chunks.
fn run_ride(s: &mut Session, r: &mut Rng) {
	use kira::clock::ClockSpeed;
	use kira::modulator::tweener::TweenerBuilder;
	let kind = if r.chance(1, 4) { 1 } else { 0 };
	let b = *r.pick(&[1usize, 2, 4, 8]);
	let lq = gen_quat(r);
	let range = *r.pick(&[4.0f32, 8.0, 16.0]);
	let (dmin, dmax) = (1.0f32, 1.0 + range);
	let l0 = dyadic_pos(r, 64);
	let dir = gen_unit_vec(r);
	let rel = dir * (dmin + range * (0.2 + 0.4 * r.unit_f64() as f32));
	// per internal chunk the vehicle advances by 5 % .. 25 % of the attenuation range, for `moving` chunks
	let moving = 8usize;
	let step = range * (0.05 + 0.2 * r.unit_f64() as f32);
	let tdir = match r.below(4) {
		0 => dir,
		1 => -dir,
		_ => gen_unit_vec(r),
	};
	let travel = tdir * (step * moving as f32);
	let easing = *r.pick(&[Easing::Linear, Easing::Linear, Easing::InPowi(2), Easing::OutPowi(2)]);
	let strength = *r.pick(&[0.0f32, 0.5, 0.75, 1.0]);
	let input = (0.5f32, *r.pick(&[0.5f32, 0.25, -0.25]));
	let tween_easing = *r.pick(&[Easing::Linear, Easing::Linear, Easing::OutPowi(2)]);
	let desc = format!(
		"listener and emitter riding together ({}): internal buffer {b} at {SR} Hz; listener at {:?} orientation {:?}; emitter at listener + {:?}; distances ({dmin:?}, {dmax:?}); attenuation {easing:?}; strength {strength:?}; input {input:?}; after 3 parked callbacks both are translated by {:?} over {} frames ({tween_easing:?})",
		if kind == 0 { "both positions Value::FromModulator of one tweener, mapping 0..1 -> start..start+travel; tweener.set(1.0, tween)" } else { "listener.set_position and track.set_position with the same tween, StartTime::ClockTime of the same tick" },
		l0.to_array(),
		lq.to_array(),
		rel.to_array(),
		travel.to_array(),
		moving * b
	);
	let mut m = simple_manager(SR, b);
	let mut vehicle = m.add_modulator(TweenerBuilder { initial_value: 0.0 }).unwrap();
	let riding = |off: Vec3| Mapping { input_range: (0.0, 1.0), output_range: (off, off + travel), easing: Easing::Linear };
	let as_value = |mp: Mapping<Vec3>| -> Value<mint::Vector3<f32>> {
		Value::FromModulator { id: vehicle.id(), mapping: Mapping { input_range: mp.input_range, output_range: (mp.output_range.0.into(), mp.output_range.1.into()), easing: mp.easing } }
	};
	let (map_l, map_e) = (riding(l0), riding(l0 + rel));
	let mut listener = if kind == 0 { m.add_listener(as_value(map_l), lq).unwrap() } else { m.add_listener(l0, lq).unwrap() };
	let builder = SpatialTrackBuilder::new().distances((dmin, dmax)).attenuation_function(Some(easing)).spatialization_strength(strength);
	let mut track = if kind == 0 { m.add_spatial_sub_track(listener.id(), as_value(map_e), builder).unwrap() } else { m.add_spatial_sub_track(listener.id(), l0 + rel, builder).unwrap() };
	let log: Arc<Mutex<Vec<RideRec>>> = Arc::default();
	track.play(RideDcData(RideDc { frame: Frame::new(input.0, input.1), id: vehicle.id(), log: log.clone() })).unwrap();
	let mut clock = m.add_clock(ClockSpeed::TicksPerSecond(SR as f64 / (2 * b) as f64)).unwrap();
	clock.start();
	s.eval_only(if kind == 0 { "ride_same_modulator" } else { "ride_same_clock_tick" });
	let cb = |m: &mut Mgr| catch(|| m.backend_mut().callback_stereo(b));
	let mut parked = None;
	for _ in 0..3 {
		match cb(&mut m) {
			Outcome::Ok(f) => parked = f.last().copied(),
			_ => {
				s.fail(desc.clone(), format!("audio thread panicked while parked: {}", last_panic()), None);
				return;
			}
		}
	}
	let parked = parked.unwrap();
	if !(parked.left.abs() > 1.0e-5 || parked.right.abs() > 1.0e-5) {
		s.count("ride_parked_level_too_low");
		return;
	}
	let tween = |start_time| Tween { start_time, duration: Duration::from_secs_f64((moving * b) as f64 / SR as f64), easing: tween_easing };
	if kind == 0 {
		vehicle.set(1.0, tween(StartTime::Immediate));
	} else {
		let t = StartTime::ClockTime(clock.time() + 2u64);
		// the caller does the two calls back to back: both commands are picked up by the same callback
		listener.set_position(l0 + travel, tween(t));
		track.set_position(l0 + rel + travel, tween(t));
	}
	let tol = |x: f32| 2.0e-3 * x.abs() + 1.0e-7;
	let total = moving + if kind == 0 { 3 } else { 8 };
	let mut emitted_chunks = 0;
	for k in 0..total {
		let frames = match cb(&mut m) {
			Outcome::Ok(f) => f,
			_ => {
				s.fail(desc.clone(), format!("callback {} (moving): audio thread panicked: {}", 3 + k, last_panic()), None);
				return;
			}
		};
		for (i, fr) in frames.iter().enumerate() {
			if (fr.left - parked.left).abs() > tol(parked.left) || (fr.right - parked.right).abs() > tol(parked.right) || !fr.left.is_finite() || !fr.right.is_finite() {
				let recs = log.lock().unwrap();
				let seen = recs.last().and_then(|x| x.li).map(|li| (li.previous_position, li.position));
				s.fail(
					desc.clone(),
					format!(
						"callback {} frame {i}: level {fr:?} while riding, but {parked:?} while parked: listener and emitter are moved by the same rigid motion (distance {:?} and relative direction never change), yet the level changed (listener position seen by the track in this chunk, previous/current: {seen:?}; modulator value {:?})",
						3 + k,
						rel.length(),
						recs.last().and_then(|x| x.m)
					),
					None,
				);
				return;
			}
		}
		s.count("monitor_ride_level_unchanged");
		// model cases: listener and emitter data of this chunk from the modulator values the track saw
		if kind == 0 {
			let recs = log.lock().unwrap();
			let c = recs.len() - 1;
			if let (Some(m1), Some(m0), Some(li)) = (recs[c].m, recs[c - 1].m, recs[c].li) {
				let moved = m1 != m0;
				if moved && emitted_chunks < if b >= 4 { 1 } else { 2 } {
					emitted_chunks += 1;
					let mint3 = |v: Vec3| mint::Vector3 { x: v.x, y: v.y, z: v.z };
					let predicted = ListenerInfo { previous_position: mint3(map_l.map(m0)), position: mint3(map_l.map(m1)), ..li };
					let em = Em { pp: map_e.map(m0), p: map_e.map(m1), ps: strength, s: strength, tp: map_e.map(m0) };
					let mut scn = Scn::base();
					scn.lpos = l0;
					scn.lq = lq;
					scn.epos = l0 + rel;
					scn.dmin = dmin;
					scn.dmax = dmax;
					scn.easing = Some(easing);
					scn.strength = strength;
					scn.input = input;
					scn.buf = b;
					for (i, fr) in frames.iter().enumerate() {
						emit_case(s, "ride_same_modulator_frame", &scn, Some(&predicted), &em, i, frames.len(), false, &Outcome::Ok((fr.left, fr.right)));
					}
				}
			}
		}
	}
}

pub fn run(args: &Args) {
	let mut rng = Rng::new(args.seed ^ 0xC15);
	let n: u64 = (if args.thorough { 6000 } else { 420 }) * args.budget_mul;
	let mut s = Session::new(
		"C15",
		&args.out,
		"From Coq Require Import ZArith List. Import ListNotations. Open Scope Z_scope.\nFrom KV Require Import Base.Corr C15.Run.",
		"run",
		60,
		"one case = one output frame of a real AudioManager with a constant-frame sound on a spatial sub-track (listener / emitter positions and orientations, distance range, attenuation curve, strength, nesting, listener-distance-mapped volumes, listener add/drop); distinct = distinct (listener data, emitter data, configuration, frame index, observable); non-trivial = a listener exists and the input is not silent",
	);
	s.keep_case_text = true;

	// ---- regression corpus: F11 (repaired in /repo by af7861d): distances (10, 1) panicked in
	// f32::clamp on the audio thread, (5, 5) produced NaN; a recurrence is a plain violation
	{
		let mut a = Scn::base();
		a.dmin = 10.0;
		a.dmax = 1.0;
		run_check(&mut s, "f11_min_gt_max", &a, 2, true);
		let mut b = Scn::base();
		b.dmin = 5.0;
		b.dmax = 5.0;
		run_check(&mut s, "f11_min_eq_max", &b, 2, true);
	}
	// ---- random static scenarios
	for _ in 0..n {
		let scn = gen_scn(&mut rng);
		run_check(&mut s, "static", &scn, 2, true);
	}
	// ---- listener never existed / dropped
	for i in 0..n / 6 {
		let mut scn = gen_scn(&mut rng);
		scn.lmode = if i % 2 == 0 { LMode::Foreign } else { LMode::DropBefore(1 + rng.below(2) as usize) };
		run_check(&mut s, "listener_absent", &scn, 3, true);
	}
	// ---- position / orientation / strength tweens in flight (chunks of 1, 2, 4 frames)
	for _ in 0..n / 3 {
		let mut scn = gen_scn(&mut rng);
		scn.pre = None;
		scn.post = None;
		scn.buf = *rng.pick(&[1usize, 2, 4]);
		if matches!(scn.easing, Some(Easing::InPowf(_)) | Some(Easing::OutPowf(_)) | Some(Easing::InOutPowf(_))) && rng.chance(1, 2) {
			scn.easing = Some(Easing::Linear);
		}
		for _ in 0..rng.range(1, 3) {
			let at = rng.range(1, 2) as usize;
			let frames = *rng.pick(&[0u32, 1, 3, 8, 5]);
			let op = match rng.below(4) {
				0 => Op::ListenerPos(gen_pos(&mut rng), frames),
				1 => Op::ListenerQuat(gen_quat(&mut rng), frames),
				2 => {
					let p = gen_emitter(&mut rng, scn.lpos, scn.lq);
					Op::EmitterPos(p, frames)
				}
				_ => Op::Strength(gen_strength(&mut rng), frames),
			};
			scn.ops.push((at, op));
		}
		run_check(&mut s, "tween", &scn, 4, true);
	}
	// ---- quaternions that are not orientations (outside the theorems' guard): non-unit ones are
	// normalized by the listener interpolation (finite output required); the zero quaternion is
	// recorded as a note only
	{
		for q in [Quat::from_xyzw(0.0, 0.0, 0.0, 2.0), Quat::from_xyzw(1.0, 1.0, 1.0, 1.0), Quat::from_xyzw(0.0, 3.0e-3, 0.0, 4.0e-3), Quat::from_xyzw(1.0e18, 0.0, 0.0, 1.0e18)] {
			let mut w = Scn::base();
			w.lq = q;
			w.epos = Vec3::new(2.0, 1.0, -3.0);
			run_check(&mut s, "non_unit_quaternion", &w, 2, true);
		}
		let mut w = Scn::base();
		w.lq = Quat::from_xyzw(0.0, 0.0, 0.0, 0.0);
		let o = run_scn(&w, 1);
		if let Some(Outcome::Ok(f)) = o.cbs.first() {
			s.notes.push(format!("zero quaternion (0,0,0,0) as listener orientation (not an orientation; outside the guard): output {:?}", f[0]));
		}
		s.eval_only("zero_quaternion_note");
	}
	// ---- spatial tracks nested in spatial tracks
	for _ in 0..n / 4 {
		run_nested(&mut s, &mut rng);
	}
	// ---- F22 witness (side_preference_inside_head_refuted of Props.v), replayed on the real code
	{
		let mut w = Scn::base();
		w.epos = Vec3::new(-0.098, 0.0, 0.000834);
		w.strength = 1.0;
		w.easing = None;
		if let Some(out) = levels(&mut s, "f22_inside_head", &w, true) {
			if out.0 < out.1 {
				s.fail(w.describe(), format!("emitter inside the head, left of the centre: left level {:?} < right level {:?}", out.0, out.1), Some("spatial_side_preference_inside_head"));
			}
		}
	}
	// ---- relational laws on the implementation
	let emit_every = if args.thorough { 40 } else { 25 };
	for i in 0..n / 12 {
		monitor_attenuation(&mut s, &mut rng, emit_every, i);
	}
	for i in 0..n * 2 {
		monitor_gains(&mut s, &mut rng, i % 8 == 0);
	}
	// ---- the libm hypotheses of attenuation_of_distance_R (powf10_ok) on this platform:
	// 10^x monotone on [-3, 0], non-negative, 1 at 0
	{
		let count: u32 = if args.thorough { 1 << 22 } else { 1 << 17 };
		let lo = (-3.0f32).to_bits();
		let step = ((lo - 0x8000_0000) / count).max(1);
		let (mut b, mut prev, mut bad) = (lo, 0.0f32, 0u64);
		while b >= 0x8000_0000 + step {
			let v = 10f32.powf(f32::from_bits(b));
			if !(v >= prev) || !(v >= 0.0) || !(v <= 1.0) {
				bad += 1;
			}
			prev = v;
			b -= step;
		}
		if 10f32.powf(0.0) != 1.0 || 10f32.powf(-0.0) != 1.0 {
			bad += 1;
		}
		s.hist.insert("libm_powf10_monotone_samples".into(), count as u64);
		if bad > 0 {
			s.fail("powf(10, x) sweep over [-3, 0]".into(), format!("{bad} violations of the oracle hypotheses (monotone, in [0, 1], 1 at zero)"), None);
		}
	}
	pickup_order_listener(&mut s);
	// ---- histories (own generator streams, so that the cases above are the same as before)
	{
		let mut r1 = Rng::new(args.seed ^ 0xC15_0001).fork();
		for i in 0..n / 4 {
			run_linked(&mut s, &mut r1, i % 4 == 0);
		}
		let mut r2 = Rng::new(args.seed ^ 0xC15_0002).fork();
		for _ in 0..n / 8 {
			run_ride(&mut s, &mut r2);
		}
	}
	s.finish();
}
