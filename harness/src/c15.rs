//! C15 — spatial tracks: drive a real `AudioManager<VBackend>` with a constant-frame probe
//! sound on a spatial sub-track, evaluate the property's laws on the levels that come out, and
//! emit every observed frame as a case for the binary32 instance of coq/theories/C15/Model.v.
use crate::backend::*;
use crate::util::*;
use glam::{Quat, Vec3};
use kira::info::{Info, ListenerInfo};
use kira::listener::ListenerHandle;
use kira::sound::{Sound, SoundData};
use kira::track::{SpatialTrackBuilder, SpatialTrackHandle, TrackBuilder, TrackHandle};
use kira::{Decibels, Easing, Frame, Mapping, StartTime, Tween, Tweenable, Value};
use std::f32::consts::FRAC_PI_8;
use std::sync::{Arc, Mutex};
use std::time::Duration;

const SR: u32 = 1024;
const EAR: f32 = 0.1;

// ---------------------------------------------------------------- probe sound
#[derive(Clone, Copy, Debug)]
struct ProbeRec {
	dist: Option<f32>,
	li: Option<ListenerInfo>,
}
type Log = Arc<Mutex<Vec<ProbeRec>>>;
struct Dc {
	frame: Frame,
	log: Log,
}
impl Sound for Dc {
	fn process(&mut self, out: &mut [Frame], _dt: f64, info: &Info) {
		self.log.lock().unwrap().push(ProbeRec { dist: info.listener_distance(), li: info.listener_info() });
		out.fill(self.frame);
	}
	fn finished(&self) -> bool {
		false
	}
}
struct DcData(Frame, Log);
impl SoundData for DcData {
	type Error = ();
	type Handle = ();
	fn into_sound(self) -> Result<(Box<dyn Sound>, ()), ()> {
		Ok((Box::new(Dc { frame: self.0, log: self.1 }), ()))
	}
}

// ---------------------------------------------------------------- scenarios
#[derive(Clone, Copy, Debug, PartialEq)]
enum LMode {
	/// the listener exists for the whole run
	Present,
	/// the id comes from another manager: this manager never had a listener
	Foreign,
	/// the listener handle is dropped before callback k
	DropBefore(usize),
}
/// something done between two callbacks (takes effect at the next callback)
#[derive(Clone, Copy, Debug)]
enum Op {
	ListenerPos(Vec3, u32),
	ListenerQuat(Quat, u32),
	EmitterPos(Vec3, u32),
	Strength(f32, u32),
}
#[derive(Clone, Debug)]
struct Scn {
	lpos: Vec3,
	lq: Quat,
	epos: Vec3,
	dmin: f32,
	dmax: f32,
	easing: Option<Easing>,
	strength: f32,
	input: (f32, f32),
	buf: usize,
	nested: bool,
	pre: Option<Mapping<Decibels>>,
	post: Option<Mapping<Decibels>>,
	lmode: LMode,
	/// (before callback k, op)
	ops: Vec<(usize, Op)>,
}
impl Scn {
	fn base() -> Scn {
		Scn {
			lpos: Vec3::ZERO,
			lq: Quat::IDENTITY,
			epos: Vec3::new(0.0, 0.0, -5.0),
			dmin: 1.0,
			dmax: 100.0,
			easing: Some(Easing::Linear),
			strength: 0.75,
			input: (0.5, 0.5),
			buf: 1,
			nested: false,
			pre: None,
			post: None,
			lmode: LMode::Present,
			ops: vec![],
		}
	}
	fn describe(&self) -> String {
		format!(
			"listener pos {:?} orientation {:?}; emitter {:?}; distances ({:?}, {:?}); attenuation {:?}; strength {:?}; input {:?}; buffer {}; nested {}; child volume {:?}; track volume {:?}; listener {:?}; ops {:?}",
			self.lpos.to_array(),
			self.lq.to_array(),
			self.epos.to_array(),
			self.dmin,
			self.dmax,
			self.easing,
			self.strength,
			self.input,
			self.buf,
			self.nested || self.pre.is_some(),
			self.pre.map(|m| (m.input_range, m.output_range.0 .0, m.output_range.1 .0, m.easing)),
			self.post.map(|m| (m.input_range, m.output_range.0 .0, m.output_range.1 .0, m.easing)),
			self.lmode,
			self.ops
		)
	}
}
struct RunObs {
	/// per callback: the frames, or the panic code
	cbs: Vec<Outcome<Vec<Frame>>>,
	/// per callback (one chunk each): what the probe sound saw
	probes: Vec<ProbeRec>,
}
fn tween_frames(frames: u32) -> Tween {
	Tween { start_time: StartTime::Immediate, duration: Duration::from_secs_f64(frames as f64 / SR as f64), easing: Easing::Linear }
}
struct Rig {
	m: Mgr,
	_other: Option<Mgr>,
	listener: Option<ListenerHandle>,
	_foreign: Option<ListenerHandle>,
	track: SpatialTrackHandle,
	_child: Option<TrackHandle>,
	log: Log,
}
fn build(scn: &Scn) -> Rig {
	let mut m = simple_manager(SR, scn.buf);
	let mut other = None;
	let mut foreign = None;
	let mut listener = None;
	let id = match scn.lmode {
		LMode::Foreign => {
			let mut o = simple_manager(SR, scn.buf);
			let h = o.add_listener(scn.lpos, scn.lq).unwrap();
			let id = h.id();
			foreign = Some(h);
			other = Some(o);
			id
		}
		_ => {
			let h = m.add_listener(scn.lpos, scn.lq).unwrap();
			let id = h.id();
			listener = Some(h);
			id
		}
	};
	let mut b = SpatialTrackBuilder::new().distances((scn.dmin, scn.dmax)).attenuation_function(scn.easing).spatialization_strength(scn.strength);
	if let Some(mp) = scn.post {
		b = b.volume(Value::FromListenerDistance(mp));
	}
	let mut track = m.add_spatial_sub_track(id, scn.epos, b).unwrap();
	let log: Log = Arc::new(Mutex::new(vec![]));
	let data = DcData(Frame::new(scn.input.0, scn.input.1), log.clone());
	let mut child = None;
	if scn.nested || scn.pre.is_some() {
		let mut cb = TrackBuilder::new();
		if let Some(mp) = scn.pre {
			cb = cb.volume(Value::FromListenerDistance(mp));
		}
		let mut c = track.add_sub_track(cb).unwrap();
		c.play(data).unwrap();
		child = Some(c);
	} else {
		track.play(data).unwrap();
	}
	Rig { m, _other: other, listener, _foreign: foreign, track, _child: child, log }
}
fn run_scn(scn: &Scn, callbacks: usize) -> RunObs {
	let mut rig = build(scn);
	let mut cbs = vec![];
	for k in 0..callbacks {
		if scn.lmode == LMode::DropBefore(k) {
			rig.listener = None;
		}
		for (at, op) in &scn.ops {
			if *at == k {
				match *op {
					Op::ListenerPos(p, f) => {
						if let Some(l) = rig.listener.as_mut() {
							l.set_position(p, tween_frames(f))
						}
					}
					Op::ListenerQuat(q, f) => {
						if let Some(l) = rig.listener.as_mut() {
							l.set_orientation(q, tween_frames(f))
						}
					}
					Op::EmitterPos(p, f) => rig.track.set_position(p, tween_frames(f)),
					Op::Strength(x, f) => rig.track.set_spatialization_strength(x, tween_frames(f)),
				}
			}
		}
		let buf = scn.buf;
		let o = catch(|| rig.m.backend_mut().callback_stereo(buf));
		let stop = !matches!(o, Outcome::Ok(_));
		cbs.push(o);
		if stop {
			break;
		}
	}
	let probes = rig.log.lock().unwrap().clone();
	RunObs { cbs, probes }
}

// ---------------------------------------------------------------- encoding for the model
fn easing_code(e: Easing) -> (i128, i128) {
	match e {
		Easing::Linear => (0, 0),
		Easing::InPowi(p) => (1, p as i128),
		Easing::OutPowi(p) => (2, p as i128),
		Easing::InOutPowi(p) => (3, p as i128),
		Easing::InPowf(p) => (4, obs64(p)),
		Easing::OutPowf(p) => (5, obs64(p)),
		Easing::InOutPowf(p) => (6, obs64(p)),
	}
}
/// the libm calls `Easing::apply(x)` makes: (x, p, x.powf(p))
fn easing_oracle(e: Easing, x: f64, tab: &mut Vec<(f64, f64, f64)>) {
	match e {
		Easing::InPowf(p) => tab.push((x, p, x.powf(p))),
		Easing::OutPowf(p) => tab.push((1.0 - x, p, (1.0 - x).powf(p))),
		Easing::InOutPowf(p) => {
			let x2 = x * 2.0;
			if x2 < 1.0 {
				tab.push((x2, p, x2.powf(p)))
			} else {
				let y = 2.0 - x2;
				tab.push((y, p, y.powf(p)))
			}
		}
		_ => {}
	}
}
/// `Easing::apply` is crate-private; `Mapping::map` over the identity ranges is exactly it on [0,1]
fn apply_easing(e: Easing, x: f64) -> f64 {
	Mapping { input_range: (0.0, 1.0), output_range: (0.0f64, 1.0f64), easing: e }.map(x)
}
fn amp_oracle(db: f32, tab: &mut Vec<(f32, f32, f32)>) {
	if db != 0.0 && !(db <= -60.0) {
		let a = db / 20.0;
		tab.push((10.0, a, 10.0f32.powf(a)));
	}
}
fn fl(v: &[f32]) -> String {
	format!("[{}]", v.iter().map(|x| f32_bits_z(*x)).collect::<Vec<_>>().join("; "))
}
fn tab64s(t: &[(f64, f64, f64)]) -> String {
	format!("[{}]", t.iter().map(|(a, b, c)| format!("({}, {}, {})", f64_bits_z(*a), f64_bits_z(*b), f64_bits_z(*c))).collect::<Vec<_>>().join("; "))
}
fn tab32s(t: &[(f32, f32, f32)]) -> String {
	format!("[{}]", t.iter().map(|(a, b, c)| format!("({}, {}, {})", f32_bits_z(*a), f32_bits_z(*b), f32_bits_z(*c))).collect::<Vec<_>>().join("; "))
}
fn ear_consts() -> [f32; 4] {
	let l = Quat::from_rotation_y(-FRAC_PI_8);
	let r = Quat::from_rotation_y(FRAC_PI_8);
	[l.y, l.w, r.y, r.w]
}
/// listener data (prev pos, pos, prev orientation, orientation) as the model's list
fn listener_list(li: &ListenerInfo) -> Vec<f32> {
	let mut v = vec![];
	v.extend_from_slice(&[li.previous_position.x, li.previous_position.y, li.previous_position.z]);
	v.extend_from_slice(&[li.position.x, li.position.y, li.position.z]);
	let (p, q) = (li.previous_orientation, li.orientation);
	v.extend_from_slice(&[p.v.x, p.v.y, p.v.z, p.s]);
	v.extend_from_slice(&[q.v.x, q.v.y, q.v.z, q.s]);
	v
}
fn v3(m: mint::Vector3<f32>) -> Vec3 {
	Vec3::new(m.x, m.y, m.z)
}
fn mapping_list(first: bool, mp: &Mapping<Decibels>, tp: Vec3) -> String {
	let (ek, ep) = easing_code(mp.easing);
	format!(
		"[{}; {}; {}; {}; {}; {}; {}; {}; {}; {}]",
		if first { 1 } else { 0 },
		f64_bits_z(mp.input_range.0),
		f64_bits_z(mp.input_range.1),
		f32_bits_z(mp.output_range.0 .0),
		f32_bits_z(mp.output_range.1 .0),
		ek,
		z(ep),
		f32_bits_z(tp.x),
		f32_bits_z(tp.y),
		f32_bits_z(tp.z)
	)
}
/// emitter state (previous / current position and strength) of one chunk
#[derive(Clone, Copy, Debug)]
struct Em {
	pp: Vec3,
	p: Vec3,
	ps: f32,
	s: f32,
	/// `position.value()` when the chunk began (what `Info` hands to sounds and parameters)
	tp: Vec3,
}
/// Records the libm calls of a volume parameter mapped from the listener distance.
fn vol_oracle(first: bool, mp: &Mapping<Decibels>, lpos: Vec3, tp: Vec3, t1: f64, tab64: &mut Vec<(f64, f64, f64)>, tab32: &mut Vec<(f32, f32, f32)>) {
	let d = lpos.distance(tp) as f64;
	let amount = ((d - mp.input_range.0) / (mp.input_range.1 - mp.input_range.0)).clamp(0.0, 1.0);
	if !amount.is_nan() {
		easing_oracle(mp.easing, amount, tab64);
	}
	let cur = mp.map(d);
	let prev = if first { Decibels(0.0) } else { cur };
	let db = Decibels::interpolate(prev, cur, t1);
	amp_oracle(db.0, tab32);
}
/// One frame of one chunk as a case for the model.  `li` is what `Info::listener_info` returned
/// in that chunk (None: no listener), `em` the emitter parameters of the chunk.
#[allow(clippy::too_many_arguments)]
fn emit_case(s: &mut Session, kind: &str, scn: &Scn, li: Option<&ListenerInfo>, em: &Em, i: usize, n: usize, first: bool, observed: &Outcome<(f32, f32)>) {
	let mut tab64 = vec![];
	let mut tab32 = vec![];
	let t = (i as f64 / n as f64) as f32;
	let t1 = (i + 1) as f64 / n as f64;
	if let Some(li) = li {
		// the arguments with which the implementation reaches libm (mirror of the data path up to there)
		if let Some(e) = scn.easing {
			let lp_t = v3(li.previous_position).lerp(v3(li.position), t);
			let p_t = em.pp + (em.p - em.pp) * t;
			let d = (lp_t - p_t).length();
			if scn.dmin <= scn.dmax {
				let dc = d.clamp(scn.dmin, scn.dmax);
				let rd = (dc - scn.dmin) / (scn.dmax - scn.dmin);
				let x = (1.0 - rd) as f64;
				if !x.is_nan() {
					easing_oracle(e, x, &mut tab64);
				}
				let rv = apply_easing(e, x) as f32;
				let db = Decibels::interpolate(Decibels::SILENCE, Decibels::IDENTITY, rv as f64);
				amp_oracle(db.0, &mut tab32);
			}
		}
		if let Some(mp) = &scn.pre {
			vol_oracle(first, mp, v3(li.position), em.tp, t1, &mut tab64, &mut tab32);
		}
		if let Some(mp) = &scn.post {
			vol_oracle(first, mp, v3(li.position), em.tp, t1, &mut tab64, &mut tab32);
		}
	}
	let (ek, ep) = scn.easing.map(easing_code).unwrap_or((0, 0));
	let cfg = format!("[{}; {}; {}; {}; {}]", f32_bits_z(scn.dmin), f32_bits_z(scn.dmax), if scn.easing.is_some() { 1 } else { 0 }, ek, z(ep));
	let lst = match li {
		Some(li) => fl(&listener_list(li)),
		None => "[]".to_string(),
	};
	let emv = fl(&[em.pp.x, em.pp.y, em.pp.z, em.p.x, em.p.y, em.p.z, em.ps, em.s]);
	let pre = scn.pre.as_ref().map(|m| mapping_list(first, m, em.tp)).unwrap_or("[]".into());
	let post = scn.post.as_ref().map(|m| mapping_list(first, m, em.tp)).unwrap_or("[]".into());
	let term = format!(
		"CSpat {} {} {} {} {} {} {} {} {} {} {}",
		fl(&ear_consts()),
		cfg,
		fl(&[scn.input.0, scn.input.1]),
		lst,
		emv,
		i,
		n,
		pre,
		post,
		tab64s(&tab64),
		tab32s(&tab32)
	);
	let obs = match observed {
		Outcome::Ok((l, r)) => Outcome::Ok(vec![obs32(*l), obs32(*r)]),
		Outcome::Panic(c) => Outcome::Panic(*c),
		Outcome::Hang => Outcome::Hang,
	};
	let key = format!(
		"{:?}|{:?}|{:?}|{}|{}|{:?}|{:?}|{}|{}|{:?}",
		li.map(listener_list),
		em,
		(scn.dmin, scn.dmax),
		scn.easing.map(|e| format!("{e:?}")).unwrap_or_default(),
		scn.strength,
		scn.input,
		scn.pre.is_some() || scn.post.is_some(),
		i,
		n,
		obs
	);
	let nontrivial = li.is_some() && (scn.input.0 != 0.0 || scn.input.1 != 0.0);
	s.case(kind, term, &encode_outcome(&obs), if nontrivial { Some(key) } else { None });
}

/// F11 classes
fn f11_class(scn: &Scn) -> Option<&'static str> {
	if scn.easing.is_some() && scn.lmode == LMode::Present {
		if scn.dmin > scn.dmax {
			return Some("spatial_distances_min_gt_max");
		}
		if scn.dmin == scn.dmax {
			return Some("spatial_distances_min_eq_max");
		}
	}
	None
}

/// Runs a static scenario for `callbacks` callbacks, checks the universal monitors (finite output,
/// silence without a listener, listener data and distance seen by sounds) and emits every frame
/// as a model case.  Returns the last callback's frames.
fn run_static(s: &mut Session, kind: &str, scn: &Scn, callbacks: usize) -> Option<Vec<Frame>> {
	let obs = run_scn(scn, callbacks);
	let em = Em { pp: scn.epos, p: scn.epos, ps: scn.strength, s: scn.strength, tp: scn.epos };
	let mut last = None;
	for (k, cb) in obs.cbs.iter().enumerate() {
		let present = match scn.lmode {
			LMode::Present => true,
			LMode::Foreign => false,
			LMode::DropBefore(j) => k < j,
		};
		let probe = obs.probes.get(k).copied();
		// what sounds on the track are told about the listener
		if let Some(p) = probe {
			if p.li.is_some() != present {
				s.fail(scn.describe(), format!("callback {k}: listener_info().is_some() = {} but the listener {}", p.li.is_some(), if present { "exists" } else { "does not exist" }), None);
			}
			if let Some(li) = p.li {
				let want = v3(li.position).distance(scn.epos);
				if p.dist.map(obs32) != Some(obs32(want)) {
					s.fail(scn.describe(), format!("callback {k}: listener_distance() = {:?}, distance of listener {:?} and emitter = {want:?}", p.dist, li.position), None);
				}
				let mut tp = vec![];
				tp.extend_from_slice(&[scn.epos.x, scn.epos.y, scn.epos.z]);
				s.case("listener_distance", format!("CDist {} {}", fl(&listener_list(&li)), fl(&tp)), &[1, p.dist.map(obs32).unwrap_or(-2)], Some(format!("d:{:?}:{:?}", li.position, scn.epos)));
				if scn.ops.is_empty() && (v3(li.position).to_array().map(f32::to_bits) != scn.lpos.to_array().map(f32::to_bits)) {
					s.fail(scn.describe(), format!("callback {k}: listener position seen by the track is {:?}", li.position), None);
				}
			} else if p.dist.is_some() {
				s.fail(scn.describe(), format!("callback {k}: listener_distance() = {:?} without a listener", p.dist), None);
			}
		}
		let li = probe.and_then(|p| p.li);
		match cb {
			Outcome::Ok(frames) => {
				for (i, f) in frames.iter().enumerate() {
					emit_case(s, kind, scn, li.as_ref(), &em, i, frames.len(), k == 0, &Outcome::Ok((f.left, f.right)));
					if !present && (f.left.to_bits() != 0 || f.right.to_bits() != 0) {
						s.fail(scn.describe(), format!("callback {k} frame {i}: output {f:?} although the listener does not exist"), None);
					}
					if !(f.left.is_finite() && f.right.is_finite()) {
						let class = f11_class(scn);
						if class == Some("spatial_distances_min_eq_max") || class.is_none() {
							s.fail(scn.describe(), format!("callback {k} frame {i}: output {f:?} is not finite"), class);
						}
					}
				}
				last = Some(frames.clone());
			}
			Outcome::Panic(c) => {
				emit_case(s, kind, scn, li.as_ref(), &em, 0, scn.buf, k == 0, &Outcome::Panic(*c));
				let class = f11_class(scn);
				s.fail(scn.describe(), format!("callback {k}: audio thread panicked: {}", last_panic()), if class == Some("spatial_distances_min_gt_max") { class } else { None });
				last = None;
			}
			Outcome::Hang => {}
		}
	}
	last
}

// ---------------------------------------------------------------- generators
fn unit(r: &mut Rng) -> f32 {
	(r.unit_f64() * 2.0 - 1.0) as f32
}
fn gen_quat(r: &mut Rng) -> Quat {
	match r.below(10) {
		0 => Quat::IDENTITY,
		1 => Quat::from_xyzw(0.0, 1.0, 0.0, 0.0),
		2 => Quat::from_xyzw(0.0, std::f32::consts::FRAC_1_SQRT_2, 0.0, std::f32::consts::FRAC_1_SQRT_2),
		3 => Quat::from_xyzw(std::f32::consts::FRAC_1_SQRT_2, 0.0, 0.0, -std::f32::consts::FRAC_1_SQRT_2),
		4 => Quat::from_xyzw(0.5, 0.5, 0.5, 0.5),
		5 => Quat::from_xyzw(0.0, 0.0, 1.0, 0.0),
		_ => loop {
			let q = Quat::from_xyzw(unit(r), unit(r), unit(r), unit(r));
			let n = q.length();
			if n > 0.1 && n <= 1.0 {
				break q.normalize();
			}
		},
	}
}
fn gen_pos(r: &mut Rng) -> Vec3 {
	match r.below(8) {
		0 => Vec3::ZERO,
		1 => Vec3::new(r.range(-8, 8) as f32, r.range(-8, 8) as f32, r.range(-8, 8) as f32),
		2 => Vec3::new(unit(r) * 1000.0, unit(r) * 1000.0, unit(r) * 1000.0),
		3 => Vec3::new(r.range(-64, 64) as f32 / 8.0, r.range(-64, 64) as f32 / 8.0, r.range(-64, 64) as f32 / 8.0),
		_ => Vec3::new(unit(r) * 10.0, unit(r) * 10.0, unit(r) * 10.0),
	}
}
/// emitter position relative to a listener: coincident, on an axis, at an ear, far apart, random
fn gen_emitter(r: &mut Rng, lp: Vec3, lq: Quat) -> Vec3 {
	let axes = [Vec3::X, Vec3::NEG_X, Vec3::Y, Vec3::NEG_Y, Vec3::Z, Vec3::NEG_Z];
	match r.below(12) {
		0 => lp,
		1 => lp + *r.pick(&axes) * *r.pick(&[0.05f32, 0.1, 0.5, 1.0, 2.0, 10.0, 100.0, 1000.0]),
		2 => lp + lq * (*r.pick(&axes) * *r.pick(&[0.05f32, 0.1, 0.5, 1.0, 2.0, 10.0, 100.0])),
		3 => lp + lq * (Vec3::NEG_X * EAR),
		4 => lp + lq * (Vec3::X * EAR),
		5 => lp + Vec3::new(unit(r), unit(r), unit(r)) * 1.0e-3,
		6 => lp + Vec3::new(unit(r), unit(r), unit(r)) * *r.pick(&[1.0e4f32, 1.0e10, 1.0e19, 1.0e30, 3.0e38]),
		7 => lp + Vec3::new(unit(r), unit(r), unit(r)) * 0.3,
		8 => lp + Vec3::new(unit(r), unit(r), unit(r)) * 120.0,
		_ => lp + Vec3::new(unit(r), unit(r), unit(r)) * 10.0,
	}
}
fn gen_easing_opt(r: &mut Rng) -> Option<Easing> {
	match r.below(12) {
		0 => None,
		1 | 2 | 3 | 4 => Some(Easing::Linear),
		5 => Some(Easing::InPowi(2)),
		6 => Some(Easing::OutPowi(*r.pick(&[2, 3]))),
		7 => Some(Easing::InOutPowi(*r.pick(&[2, 3]))),
		8 => Some(Easing::InPowf(*r.pick(&[0.5, 1.5, 2.0]))),
		9 => Some(Easing::OutPowf(*r.pick(&[0.5, 1.5, 2.0]))),
		10 => Some(Easing::InOutPowf(*r.pick(&[0.5, 1.5, 2.0]))),
		_ => Some(Easing::InPowi(3)),
	}
}
fn gen_distances(r: &mut Rng) -> (f32, f32) {
	match r.below(8) {
		0 | 1 => (1.0, 100.0),
		2 => (0.0, 1.0),
		3 => (0.5, 2.0),
		4 => (0.0, 1.0e6),
		5 => (1.0e-3, 1.0e-2),
		6 => {
			let a = (r.unit_f64() * 10.0) as f32;
			(a, a + (r.unit_f64() * 50.0) as f32 + 0.01)
		}
		_ => (r.range(0, 4) as f32, r.range(5, 40) as f32),
	}
}
fn gen_strength(r: &mut Rng) -> f32 {
	match r.below(10) {
		0 => 0.0,
		1 => 1.0,
		2 => 0.75,
		3 => 0.5,
		4 => -0.5,
		5 => 1.5,
		6 => -0.0,
		_ => r.unit_f64() as f32,
	}
}
fn gen_input(r: &mut Rng) -> (f32, f32) {
	match r.below(6) {
		0 => (0.5, 0.5),
		1 => (0.5, -0.25),
		2 => (1.0, 0.0),
		3 => (0.0, 0.0),
		_ => (unit(r), unit(r)),
	}
}
fn gen_mapping(r: &mut Rng) -> Mapping<Decibels> {
	let lo = *r.pick(&[0.0, 1.0, 0.5]);
	let hi = lo + *r.pick(&[1.0, 10.0, 100.0, 7.5]);
	let e = gen_easing_opt(r).unwrap_or(Easing::Linear);
	let (a, b) = *r.pick(&[(0.0f32, -60.0f32), (0.0, -20.0), (-6.0, -40.0), (-30.0, 0.0), (-3.0, -3.0)]);
	Mapping { input_range: (lo, hi), output_range: (Decibels(a), Decibels(b)), easing: e }
}
fn gen_scn(r: &mut Rng) -> Scn {
	let lpos = gen_pos(r);
	let lq = gen_quat(r);
	let epos = gen_emitter(r, lpos, lq);
	let (dmin, dmax) = gen_distances(r);
	let mut scn = Scn::base();
	scn.lpos = lpos;
	scn.lq = lq;
	scn.epos = epos;
	scn.dmin = dmin;
	scn.dmax = dmax;
	scn.easing = gen_easing_opt(r);
	scn.strength = gen_strength(r);
	scn.input = gen_input(r);
	scn.buf = *r.pick(&[1usize, 1, 1, 2, 3, 4]);
	scn.nested = r.chance(1, 5);
	if r.chance(1, 6) {
		scn.pre = Some(gen_mapping(r));
	}
	if r.chance(1, 6) {
		scn.post = Some(gen_mapping(r));
	}
	scn
}

pub fn run(args: &Args) {
	let mut rng = Rng::new(args.seed ^ 0xC15);
	let n: u64 = (if args.thorough { 6000 } else { 600 }) * args.budget_mul;
	let mut s = Session::new(
		"C15",
		&args.out,
		"From Coq Require Import ZArith List. Import ListNotations. Open Scope Z_scope.\nFrom KV Require Import Base.Corr C15.Run.",
		"run",
		60,
		"one case = one output frame of a real AudioManager with a constant-frame sound on a spatial sub-track (listener / emitter positions and orientations, distance range, attenuation curve, strength, nesting, listener-distance-mapped volumes, listener add/drop); distinct = distinct (listener data, emitter data, configuration, frame index, observable); non-trivial = a listener exists and the input is not silent",
	);
	s.keep_case_text = true;

	// ---- F11 witnesses (the `_refuted` theorems of Props.v), replayed on the real code
	{
		let mut a = Scn::base();
		a.dmin = 10.0;
		a.dmax = 1.0;
		run_static(&mut s, "f11_min_gt_max", &a, 2);
		let mut b = Scn::base();
		b.dmin = 5.0;
		b.dmax = 5.0;
		run_static(&mut s, "f11_min_eq_max", &b, 2);
	}
	// ---- random static scenarios
	for _ in 0..n {
		let scn = gen_scn(&mut rng);
		run_static(&mut s, "static", &scn, 2);
	}
	// ---- listener never existed / dropped
	for i in 0..n / 6 {
		let mut scn = gen_scn(&mut rng);
		scn.lmode = if i % 2 == 0 { LMode::Foreign } else { LMode::DropBefore(1 + rng.below(2) as usize) };
		run_static(&mut s, "listener_absent", &scn, 3);
	}
	s.finish();
}
