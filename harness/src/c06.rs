//! C06 — tweens: drive kira::Parameter<f64> / Parameter<Decibels> with set/update histories.
use crate::util::*;
use kira::clock::{ClockId, ClockTime};
use kira::info::MockInfoBuilder;
use kira::modulator::ModulatorId;
use kira::{Decibels, Easing, Mapping, Parameter, StartTime, Tween, Tweenable, Value};
use std::time::Duration;

#[derive(Clone, Debug)]
enum Tgt {
	Fixed(f64),
	Mod { id: usize, lo: f64, hi: f64, olo: f64, ohi: f64, easing: Easing },
}
#[derive(Clone, Debug)]
enum Start {
	Imm,
	Del(u64),
	Clk { clock: usize, ticks: u64, fr: f64 },
}
#[derive(Clone, Debug)]
enum Op {
	Set { target: Tgt, start: Start, dur_ns: u64, easing: Easing },
	Upd { dt: f64, clocks: Vec<(bool, bool, u64, f64)>, mods: Vec<(bool, f64)>, amount: f64 },
}

fn easing_code(e: Easing) -> (i128, i128) {
	match e {
		Easing::Linear => (0, 0),
		Easing::InPowi(p) => (1, p as i128),
		Easing::OutPowi(p) => (2, p as i128),
		Easing::InOutPowi(p) => (3, p as i128),
		Easing::InPowf(p) => (4, obs64(p)),
		Easing::OutPowf(p) => (5, obs64(p)),
		Easing::InOutPowf(p) => (6, obs64(p)),
	}
}
fn positive_power(e: Easing) -> bool {
	match e {
		Easing::Linear => true,
		Easing::InPowi(p) | Easing::OutPowi(p) | Easing::InOutPowi(p) => p > 0,
		Easing::InPowf(p) | Easing::OutPowf(p) | Easing::InOutPowf(p) => p > 0.0,
	}
}
/// libm calls made by ease(e, x)
fn oracle(e: Easing, x: f64, tab: &mut Vec<(f64, f64, f64)>) {
	let mut push = |a: f64, p: f64| {
		if !tab.iter().any(|(x0, p0, _)| x0.to_bits() == a.to_bits() && p0.to_bits() == p.to_bits()) {
			tab.push((a, p, a.powf(p)));
		}
	};
	match e {
		Easing::InPowf(p) => push(x, p),
		Easing::OutPowf(p) => push(1.0 - x, p),
		Easing::InOutPowf(p) => {
			let x2 = x * 2.0;
			if x2 < 1.0 {
				push(x2, p)
			} else {
				push(2.0 - x2, p)
			}
		}
		_ => {}
	}
}
fn tab_term(t: &[(f64, f64, f64)]) -> String {
	format!("[{}]", t.iter().map(|(a, b, c)| format!("({}, {}, {})", f64_bits_z(*a), f64_bits_z(*b), f64_bits_z(*c))).collect::<Vec<_>>().join("; "))
}

struct Ids {
	clocks: Vec<ClockId>,
	mods: Vec<ModulatorId>,
}
fn ids() -> Ids {
	let mut b = MockInfoBuilder::new();
	let clocks = vec![b.add_clock(false, 0, 0.0), b.add_clock(false, 0, 0.0)];
	let mods = vec![b.add_modulator(0.0), b.add_modulator(0.0)];
	Ids { clocks, mods }
}
/// an Info in which the first clocks / modulators marked present exist (ids are positional:
/// a fresh builder hands out the same keys in the same order, which is asserted)
fn build_info(ids: &Ids, clocks: &[(bool, bool, u64, f64)], mods: &[(bool, f64)]) -> kira::info::Info<'static> {
	let mut b = MockInfoBuilder::new();
	for (k, (present, ticking, tk, fr)) in clocks.iter().enumerate() {
		if !*present {
			break;
		}
		let id = b.add_clock(*ticking, *tk, *fr);
		assert!(id == ids.clocks[k]);
	}
	for (k, (present, v)) in mods.iter().enumerate() {
		if !*present {
			break;
		}
		let id = b.add_modulator(*v);
		assert!(id == ids.mods[k]);
	}
	b.build()
}

trait PV: Tweenable + Send + 'static {
	fn of(x: f64) -> Self;
	fn bits(self) -> i128;
	fn bits_str(x: f64) -> String;
	const CTOR: &'static str;
}
impl PV for f64 {
	fn of(x: f64) -> Self {
		x
	}
	fn bits(self) -> i128 {
		obs64(self)
	}
	fn bits_str(x: f64) -> String {
		f64_bits_z(x)
	}
	const CTOR: &'static str = "CP64";
}
impl PV for Decibels {
	fn of(x: f64) -> Self {
		Decibels(x as f32)
	}
	fn bits(self) -> i128 {
		obs32(self.0)
	}
	fn bits_str(x: f64) -> String {
		f32_bits_z(x as f32)
	}
	const CTOR: &'static str = "CP32";
}

/// `Parameter<ClockSpeed>`: the unit of a generated value is derived from the value itself (a hash of its bits), so that
/// the generic history generator produces all nine (unit of the start, unit of the target) combinations.
/// Encoding shared with C06/RunOwners.v `cs_of_bits` / `cs_to_bits`: unit * 2^64 + bits of the number; NaN = -(unit + 1).
fn cs_unit_of(x: f64) -> u8 {
	((x.to_bits() ^ 0xC5).wrapping_mul(0x9E37_79B9_7F4A_7C15) >> 33) as u8 % 3
}
fn cs_mk(unit: u8, x: f64) -> kira::clock::ClockSpeed {
	match unit {
		0 => kira::clock::ClockSpeed::SecondsPerTick(x),
		1 => kira::clock::ClockSpeed::TicksPerSecond(x),
		_ => kira::clock::ClockSpeed::TicksPerMinute(x),
	}
}
fn cs_parts(v: kira::clock::ClockSpeed) -> (u8, f64) {
	match v {
		kira::clock::ClockSpeed::SecondsPerTick(x) => (0, x),
		kira::clock::ClockSpeed::TicksPerSecond(x) => (1, x),
		kira::clock::ClockSpeed::TicksPerMinute(x) => (2, x),
	}
}
/// the speed expressed in unit `unit`
fn cs_in_unit(unit: u8, v: kira::clock::ClockSpeed) -> f64 {
	match unit {
		0 => v.as_seconds_per_tick(),
		1 => v.as_ticks_per_second(),
		_ => v.as_ticks_per_minute(),
	}
}
fn cs_code(v: kira::clock::ClockSpeed) -> i128 {
	let (u, x) = cs_parts(v);
	if x.is_nan() {
		-(u as i128 + 1)
	} else {
		((u as i128) << 64) | x.to_bits() as i128
	}
}
impl PV for kira::clock::ClockSpeed {
	fn of(x: f64) -> Self {
		cs_mk(cs_unit_of(x), x)
	}
	fn bits(self) -> i128 {
		cs_code(self)
	}
	fn bits_str(x: f64) -> String {
		z(cs_code(Self::of(x)))
	}
	const CTOR: &'static str = "CPCS";
}

fn tgt_value<V: PV>(ids: &Ids, t: &Tgt) -> Value<V> {
	match t {
		Tgt::Fixed(x) => Value::Fixed(V::of(*x)),
		Tgt::Mod { id, lo, hi, olo, ohi, easing } => Value::FromModulator {
			id: ids.mods[*id],
			mapping: Mapping { input_range: (*lo, *hi), output_range: (V::of(*olo), V::of(*ohi)), easing: *easing },
		},
	}
}
fn tgt_term<V: PV>(t: &Tgt) -> String {
	match t {
		Tgt::Fixed(x) => format!("(TFixed {})", V::bits_str(*x)),
		Tgt::Mod { id, lo, hi, olo, ohi, easing } => {
			let (ek, ep) = easing_code(*easing);
			format!("(TMod {} {} {} {} {} {} {})", id, f64_bits_z(*lo), f64_bits_z(*hi), V::bits_str(*olo), V::bits_str(*ohi), ek, z(ep))
		}
	}
}
fn op_term<V: PV>(o: &Op) -> String {
	match o {
		Op::Set { target, start, dur_ns, easing } => {
			let (ek, ep) = easing_code(*easing);
			let st = match start {
				Start::Imm => "SImm".to_string(),
				Start::Del(ns) => format!("(SDel {})", ns),
				Start::Clk { clock, ticks, fr } => format!("(SClk {} {} {})", clock, ticks, f64_bits_z(*fr)),
			};
			format!("RSet {} {} {} {} {}", tgt_term::<V>(target), st, dur_ns, ek, z(ep))
		}
		Op::Upd { dt, clocks, mods, amount } => format!(
			"RUpd {} [{}] [{}] {}",
			f64_bits_z(*dt),
			clocks.iter().map(|(p, t, k, f)| format!("({}, {}, {}, {})", *p as u8, *t as u8, k, f64_bits_z(*f))).collect::<Vec<_>>().join("; "),
			mods.iter().map(|(p, v)| format!("({}, {})", *p as u8, f64_bits_z(*v))).collect::<Vec<_>>().join("; "),
			f64_bits_z(*amount)
		),
	}
}

/// Runs a history on the real Parameter; returns the observable and the libm table.
fn run_history<V: PV>(ids: &Ids, init: &Tgt, default: f64, ops: &[Op]) -> (Vec<i128>, Vec<(f64, f64, f64)>, Vec<(f64, f64)>) {
	let mut obs = vec![];
	let mut tab = vec![];
	let mut values = vec![]; // (value as f64 for monitors, prev)
	let r = catch(|| {
		let mut p = Parameter::<V>::new(tgt_value::<V>(ids, init), V::of(default));
		let mut cur: Option<(Tgt, Start, u64, Easing, f64)> = None; // tween in force and its time
		let mut out = vec![];
		let mut tb: Vec<(f64, f64, f64)> = vec![];
		let mut vals = vec![];
		let mut idle: Tgt = init.clone();
		for o in ops {
			match o {
				Op::Set { target, start, dur_ns, easing } => {
					let st = match start {
						Start::Imm => StartTime::Immediate,
						Start::Del(ns) => StartTime::Delayed(Duration::from_nanos(*ns)),
						Start::Clk { clock, ticks, fr } => StartTime::ClockTime(ClockTime { clock: ids.clocks[*clock], ticks: *ticks, fraction: *fr }),
					};
					p.set(tgt_value::<V>(ids, target), Tween { start_time: st, duration: Duration::from_nanos(*dur_ns), easing: *easing });
					cur = Some((target.clone(), start.clone(), *dur_ns, *easing, 0.0));
				}
				Op::Upd { dt, clocks, mods, amount } => {
					let info = build_info(ids, clocks, mods);
					// record the libm calls the model will need (mirror of the time bookkeeping; only used to fill the oracle table)
					let mut cands: Vec<(Easing, f64)> = vec![];
					if let Some((tg, _st, dur, e, time)) = &mut cur {
						// whichever way the start test goes, offer both candidate times to the table
						let d = Duration::from_nanos(*dur).as_secs_f64();
						for t in [*time, *time + *dt] {
							cands.push((*e, t / d));
						}
						if let Tgt::Mod { id, lo, hi, easing, .. } = tg {
							if let Some((true, v)) = mods.get(*id) {
								cands.push((*easing, ((*v - *lo) / (*hi - *lo)).clamp(0.0, 1.0)));
							}
						}
					}
					if let Tgt::Mod { id, lo, hi, easing, .. } = &idle {
						if let Some((true, v)) = mods.get(*id) {
							cands.push((*easing, ((v - lo) / (hi - lo)).clamp(0.0, 1.0)));
						}
					}
					for (e, x) in cands {
						if !x.is_nan() {
							oracle(e, x, &mut tb);
						}
					}
					let before = p.value().bits();
					let fin = p.update(*dt, &info);
					if let Some((tg, st, _dur, _e, time)) = &mut cur {
						// mirror of "does this update count" just to keep `time` for the oracle table
						let counted = match st {
							Start::Imm => true,
							Start::Del(rem) => {
								if *rem == 0 {
									true
								} else {
									*rem = rem.saturating_sub(Duration::from_secs_f64(*dt).as_nanos() as u64);
									false
								}
							}
							Start::Clk { clock, ticks, fr } => match clocks.get(*clock) {
								Some((true, ticking, tk, f)) => *ticking && (*tk > *ticks || (*tk == *ticks && *f >= *fr)),
								_ => false,
							},
						};
						if counted {
							*time += *dt;
						}
						if fin {
							idle = tg.clone();
							cur = None;
						}
					}
					out.push(fin as i128);
					out.push(p.value().bits());
					out.push(p.previous_value().bits());
					out.push(p.interpolated_value(*amount).bits());
					vals.push((p.value().bits(), p.previous_value().bits(), before, fin));
				}
			}
		}
		(out, tb, vals)
	});
	match r {
		Outcome::Ok((o, t, v)) => {
			obs = o;
			tab = t;
			values = v.iter().map(|(a, b, _, _)| (*a as f64, *b as f64)).collect();
			// continuity monitor: previous_value() after an update == value() before it
			for (k, (_, prev, before, _)) in v.iter().enumerate() {
				if prev != before {
					values.push((f64::NAN, k as f64));
				}
			}
		}
		Outcome::Panic(c) => {
			obs.push(1000 + c);
		}
		Outcome::Hang => obs.push(2000),
	}
	(obs, tab, values)
}

fn gen_easing(r: &mut Rng, boundary: bool) -> Easing {
	let pi = if boundary { r.range(-2, 6) as i32 } else { r.range(1, 6) as i32 };
	let pf = if boundary { *r.pick(&[0.0, -1.0, 0.5, 2.0]) } else { *r.pick(&[0.25, 0.5, 1.0, 1.5, 2.0, 3.0]) };
	match r.below(9) {
		0 | 1 | 2 => Easing::Linear,
		3 => Easing::InPowi(pi),
		4 => Easing::OutPowi(pi),
		5 => Easing::InOutPowi(pi),
		6 => Easing::InPowf(pf),
		7 => Easing::OutPowf(pf),
		_ => Easing::InOutPowf(pf),
	}
}
/// dyadic dt: k * 2^-9 s (an integral number of nanoseconds, exactly representable)
fn gen_dt(r: &mut Rng, dyadic: bool) -> f64 {
	if dyadic {
		(r.below(64) + if r.chance(1, 10) { 0 } else { 1 }) as f64 / 512.0
	} else {
		match r.below(6) {
			0 => 1.0 / 44100.0 * (r.below(512) + 1) as f64,
			1 => 1.0 / 48000.0 * (r.below(512) + 1) as f64,
			2 => 0.0,
			_ => r.unit_f64() * 0.2,
		}
	}
}
fn gen_dur(r: &mut Rng, dyadic: bool) -> u64 {
	match r.below(8) {
		0 => 0,
		1 => r.below(1_000_000),           // shorter than most updates
		2 => 1_000_000_000 >> r.below(6),   // dyadic seconds
		3 => 10_000_000,
		_ => {
			if dyadic {
				(r.below(200) + 1) * 1_953_125 // k * 2^-9 s
			} else {
				r.below(800_000_000) + 1
			}
		}
	}
}
fn gen_value(r: &mut Rng, dyadic: bool) -> f64 {
	if dyadic {
		(r.range(-2048, 2048) as f64) / 16.0
	} else {
		match r.below(5) {
			0 => 0.0,
			1 => -60.0,
			2 => 1.0,
			_ => (r.unit_f64() - 0.5) * 200.0,
		}
	}
}
fn gen_info(r: &mut Rng) -> (Vec<(bool, bool, u64, f64)>, Vec<(bool, f64)>) {
	let nc = r.below(3) as usize;
	let nm = r.below(3) as usize;
	let clocks = (0..2).map(|k| (k < nc, r.chance(3, 4), r.below(6), if r.chance(1, 2) { 0.0 } else { r.dyadic_unit(3) })).collect();
	let mods = (0..2).map(|k| (k < nm, (r.unit_f64() - 0.25) * 2.0)).collect();
	(clocks, mods)
}

fn gen_history(r: &mut Rng, dyadic: bool, boundary: bool) -> (Tgt, f64, Vec<Op>) {
	let init = if r.chance(1, 6) {
		Tgt::Mod { id: r.below(2) as usize, lo: 0.0, hi: 1.0, olo: gen_value(r, dyadic), ohi: gen_value(r, dyadic), easing: Easing::Linear }
	} else {
		Tgt::Fixed(gen_value(r, dyadic))
	};
	let default = gen_value(r, dyadic);
	let mut ops = vec![];
	let n = r.range(3, 14);
	for k in 0..n {
		if k == 0 || r.chance(1, 5) {
			let target = if r.chance(1, 6) {
				let (lo, hi) = if r.chance(1, 4) { (1.0, 0.0) } else { (0.0, 1.0) };
				Tgt::Mod { id: r.below(2) as usize, lo, hi, olo: gen_value(r, dyadic), ohi: gen_value(r, dyadic), easing: gen_easing(r, boundary) }
			} else {
				Tgt::Fixed(gen_value(r, dyadic))
			};
			let start = match r.below(6) {
				0 => Start::Del(if dyadic { r.below(40) * 1_953_125 } else { r.below(300_000_000) }),
				1 => Start::Clk { clock: r.below(2) as usize, ticks: r.below(5), fr: if r.chance(1, 2) { 0.0 } else { r.dyadic_unit(3) } },
				_ => Start::Imm,
			};
			ops.push(Op::Set { target, start, dur_ns: gen_dur(r, dyadic), easing: gen_easing(r, boundary) });
		}
		let (clocks, mods) = gen_info(r);
		let amount = *r.pick(&[0.0, 1.0, 0.5, 0.25]);
		ops.push(Op::Upd { dt: gen_dt(r, dyadic), clocks, mods, amount });
	}
	(init, default, ops)
}

pub fn run(args: &Args) {
	let mut rng = Rng::new(args.seed ^ 0xC06);
	let n: u64 = (if args.thorough { 12_000 } else { 1_500 }) * args.budget_mul;
	let mut s = Session::new(
		"C06",
		&args.out,
		"From Coq Require Import ZArith List. Import ListNotations. Open Scope Z_scope.\nFrom KV Require Import Base.Corr C06.Run C06.RunOwners.\nFrom KV Require C17.Run.",
		"arun",
		150,
		"one case = one history of set()/update() calls on a real kira::Parameter (f64, Decibels or ClockSpeed in its three units) with generated targets (fixed / modulator-mapped), durations (0, sub-update, dyadic, arbitrary), easings, start times (immediate / delayed / clock present, paused, absent) and update partitions; or one history of handle commands and callbacks (random partitions, not multiples of the internal buffer, one-frame callbacks) on a real AudioManager with the parameter inside its owner: static / streaming sound (volume, panning, playback rate while Playing / Pausing / Paused / WaitingToResume / start pending; the fade volume of a sound played with a fade-in tween of zero / non-zero duration and immediate / delayed / clock start), sub-track + send route + send track + main track volumes, tweener and LFO modulators, a value linked at run time to the listener distance; the fade volume of a sound / sub-track / spatial sub-track told to move by pause(tween), resume(tween), resume_at(start, tween), stop(tween) with tweens that carry their own delayed / clock start time (a fixed corpus first: paused, found Paused, resume(Tween { start_time: Delayed(d), .. }); then seeded histories); distinct = distinct history text; non-trivial = contains at least one set and two updates",
	);
	let ids = ids();

	// ---- Duration conversions (Duration::from_secs_f64 rounding is part of the delayed-start model)
	for _ in 0..n {
		let x = match rng.below(6) {
			0 => rng.below(1 << 20) as f64 * 1e-9 + 0.5e-9,
			1 => rng.unit_f64(),
			2 => 1.0 / (rng.below(192_000) + 1) as f64,
			3 => crate::c19::gen_f64(&mut rng),
			4 => rng.below(1000) as f64 / 512.0,
			_ => rng.unit_f64() * 1e-6,
		};
		let o = catch(|| {
			let d = Duration::from_secs_f64(x);
			vec![d.as_nanos() as i128, obs64(d.as_secs_f64())]
		});
		s.case("duration", format!("ABase (CDur {})", f64_bits_z(x)), &encode_outcome(&o), Some(format!("dur:{}", x.to_bits())));
	}

	// ---- histories
	for i in 0..n {
		let dyadic = i % 3 == 0;
		let boundary = i % 7 == 6;
		let (init, default, ops) = gen_history(&mut rng, dyadic, boundary);
		let use32 = i % 4 == 3;
		let usecs = i % 8 == 5;
		let (obs, tab, vals) = if usecs {
			run_history::<kira::clock::ClockSpeed>(&ids, &init, default, &ops)
		} else if use32 {
			run_history::<Decibels>(&ids, &init, default, &ops)
		} else {
			run_history::<f64>(&ids, &init, default, &ops)
		};
		let term = if usecs {
			type CS = kira::clock::ClockSpeed;
			format!("AOwn (CPCS {} {} [{}] {})", tgt_term::<CS>(&init).replace("TFixed", "C06.Run.TFixed").replace("TMod", "C06.Run.TMod"), CS::bits_str(default), ops.iter().map(|o| format!("C06.Run.{}", op_term::<CS>(o).replace("(TFixed", "(C06.Run.TFixed").replace("(TMod", "(C06.Run.TMod").replace("(SDel", "(C06.Run.SDel").replace("(SClk", "(C06.Run.SClk").replace("SImm", "C06.Run.SImm"))).collect::<Vec<_>>().join("; "), tab_term(&tab))
		} else if use32 {
			format!("ABase (CP32 {} {} [{}] {})", tgt_term::<Decibels>(&init), Decibels::bits_str(default), ops.iter().map(|o| op_term::<Decibels>(o)).collect::<Vec<_>>().join("; "), tab_term(&tab))
		} else {
			format!("ABase (CP64 {} {} [{}] {})", tgt_term::<f64>(&init), f64::bits_str(default), ops.iter().map(|o| op_term::<f64>(o)).collect::<Vec<_>>().join("; "), tab_term(&tab))
		};
		let key = format!("{:x}", {
			let mut h = 1469598103934665603u64;
			for b in term.bytes() {
				h = (h ^ b as u64).wrapping_mul(1099511628211);
			}
			h
		});
		s.case(if usecs { "history_clock_speed" } else if use32 { "history_f32" } else { "history_f64" }, term.clone(), &obs, Some(key));
		for (a, b) in &vals {
			if a.is_nan() {
				s.fail(term.clone(), format!("update {}: previous_value() differs from the value before the update (discontinuity)", b), None);
			}
		}
	}

	// ---- property monitors on the implementation: law scenarios with a known answer
	for i in 0..n {
		let boundary = false;
		let e = gen_easing(&mut rng, boundary);
		let v0 = gen_value(&mut rng, true);
		let tg = gen_value(&mut rng, true);
		let dur_units = rng.below(60) + 1; // duration = dur_units * 2^-9 s
		let dur = Duration::from_nanos(dur_units * 1_953_125);
		// two partitions of the same dyadic total below the duration, then run past the end
		let total_units = rng.below(dur_units + 1);
		let mut run = |parts: &[u64], extra: &[u64]| -> (Vec<f64>, Vec<f64>) {
			let mut p = Parameter::<f64>::new(Value::Fixed(v0), v0);
			p.set(Value::Fixed(tg), Tween { start_time: StartTime::Immediate, duration: dur, easing: e });
			let info = MockInfoBuilder::new().build();
			let mut a = vec![];
			for u in parts {
				p.update(*u as f64 / 512.0, &info);
				a.push(p.value());
			}
			let mut b = vec![];
			for u in extra {
				p.update(*u as f64 / 512.0, &info);
				b.push(p.value());
			}
			(a, b)
		};
		let split = |r: &mut Rng, mut total: u64| -> Vec<u64> {
			let mut v = vec![];
			while total > 0 {
				let k = r.below(total) + 1;
				v.push(k);
				total -= k;
			}
			if v.is_empty() {
				v.push(0);
			}
			v
		};
		let p1 = split(&mut rng, total_units);
		let p2 = split(&mut rng, total_units);
		let rest = dur_units - total_units;
		let extra = vec![rest, 0, 3, 1];
		let (a1, b1) = run(&p1, &extra);
		let (a2, _b2) = run(&p2, &extra);
		s.eval_only("law_scenario");
		let desc = format!("Parameter {v0:?} -> {tg:?}, {e:?}, duration {dur_units}/512 s, partitions {p1:?} vs {p2:?}");
		if total_units < dur_units {
			let (x1, x2) = (*a1.last().unwrap(), *a2.last().unwrap());
			if x1.to_bits() != x2.to_bits() {
				s.fail(desc.clone(), format!("value depends on the partition of time: {x1:?} vs {x2:?}"), None);
			}
			// the law itself, evaluated independently in f64 through the public Mapping (easing) — same formula
			let x = total_units as f64 / dur_units as f64;
			let ez = Mapping { input_range: (0.0, 1.0), output_range: (0.0f64, 1.0f64), easing: e }.map(x);
			let want = v0 + (tg - v0) * ez;
			if total_units > 0 && (x1 - want).abs() > 1e-9 * (1.0 + want.abs()) {
				s.fail(desc.clone(), format!("value {x1:?} but start + (target-start)*ease(elapsed/duration) = {want:?}"), None);
			}
			for v in a1.iter().chain(a2.iter()) {
				let (lo, hi) = if v0 <= tg { (v0, tg) } else { (tg, v0) };
				if positive_power(e) && !(*v >= lo - 1e-9 && *v <= hi + 1e-9) {
					s.fail(desc.clone(), format!("value {v:?} leaves the interval between start and target"), None);
				}
			}
		}
		// from the end of the tween onward the value equals the target exactly
		for v in &b1 {
			if v.to_bits() != tg.to_bits() {
				s.fail(desc.clone(), format!("after the end of the tween the value is {v:?}, not the target {tg:?}"), None);
			}
		}
		// delayed start: holds the old value until the delay has elapsed; has started one update later
		if i % 2 == 0 {
			let delay_units = rng.below(20) + 1;
			let step = rng.below(4) + 1;
			let mut p = Parameter::<f64>::new(Value::Fixed(v0), v0);
			p.set(Value::Fixed(tg), Tween { start_time: StartTime::Delayed(Duration::from_nanos(delay_units * 1_953_125)), duration: dur, easing: Easing::Linear });
			let info = MockInfoBuilder::new().build();
			let mut t = 0u64;
			for _ in 0..(delay_units / step + 4) {
				p.update(step as f64 / 512.0, &info);
				t += step;
				let v = p.value();
				if t <= delay_units && v.to_bits() != v0.to_bits() {
					s.fail(format!("delayed tween {v0:?}->{tg:?} delay {delay_units}/512 s, step {step}/512"), format!("moved to {v:?} at t={t}/512 before the delay elapsed"), None);
				}
				if t >= delay_units + 2 * step && v0 != tg && v.to_bits() == v0.to_bits() {
					s.fail(format!("delayed tween {v0:?}->{tg:?} delay {delay_units}/512 s, step {step}/512"), format!("still at the old value at t={t}/512, more than one update after the delay elapsed"), None);
				}
			}
			s.eval_only("delayed_scenario");
		}
		// zero duration: takes effect at the next update
		if i % 5 == 0 {
			let mut p = Parameter::<f64>::new(Value::Fixed(v0), v0);
			p.set(Value::Fixed(tg), Tween { start_time: StartTime::Immediate, duration: Duration::ZERO, easing: e });
			let info = MockInfoBuilder::new().build();
			p.update(gen_dt(&mut rng, false), &info);
			if p.value().to_bits() != tg.to_bits() {
				s.fail(format!("zero-duration tween {v0:?}->{tg:?} {e:?}"), format!("value {:?} after the next update", p.value()), None);
			}
			s.eval_only("zero_duration_scenario");
		}
	}
	// ---- the same law scenarios for Parameter<ClockSpeed>: the law is stated in the unit the target is given in
	// (seconds per tick is the reciprocal of the other two, so a ramp that is linear in one is not in the other)
	{
		use kira::clock::ClockSpeed as CS;
		let mut r2 = Rng::new(args.seed ^ 0xC06_C5).fork();
		let unit_name = ["seconds per tick", "ticks per second", "ticks per minute"];
		for i in 0..(n / 3).max(60) {
			let e = gen_easing(&mut r2, false);
			let (us, ut) = ((i % 3) as u8, ((i / 3) % 3) as u8);
			let v0 = (r2.below(127) + 1) as f64 / 16.0; // positive dyadics: a speed
			let tg = (r2.below(127) + 1) as f64 / 16.0;
			let (start, target) = (cs_mk(us, v0), cs_mk(ut, tg));
			let dur_units = r2.below(60) + 1;
			let dur = Duration::from_nanos(dur_units * 1_953_125);
			let total_units = r2.below(dur_units + 1);
			let split = |r: &mut Rng, mut total: u64| -> Vec<u64> {
				let mut v = vec![];
				while total > 0 {
					let k = r.below(total) + 1;
					v.push(k);
					total -= k;
				}
				if v.is_empty() {
					v.push(0);
				}
				v
			};
			let run = |parts: &[u64], extra: &[u64]| -> (Vec<CS>, Vec<CS>) {
				let mut p = Parameter::<CS>::new(Value::Fixed(start), start);
				p.set(Value::Fixed(target), Tween { start_time: StartTime::Immediate, duration: dur, easing: e });
				let info = MockInfoBuilder::new().build();
				let mut a = vec![];
				for u in parts {
					p.update(*u as f64 / 512.0, &info);
					a.push(p.value());
				}
				let mut b = vec![];
				for u in extra {
					p.update(*u as f64 / 512.0, &info);
					b.push(p.value());
				}
				(a, b)
			};
			let p1 = split(&mut r2, total_units);
			let p2 = split(&mut r2, total_units);
			let extra = vec![dur_units - total_units, 0, 3, 1];
			let (a1, b1) = run(&p1, &extra);
			let (a2, _) = run(&p2, &extra);
			s.eval_only("law_scenario_clock_speed");
			let desc = format!("Parameter<ClockSpeed> {start:?} -> {target:?}, {e:?}, duration {dur_units}/512 s, updates (in 1/512 s) {p1:?} vs {p2:?}, then {extra:?}");
			if total_units < dur_units {
				let (x1, x2) = (*a1.last().unwrap(), *a2.last().unwrap());
				if cs_code(x1) != cs_code(x2) {
					s.fail(desc.clone(), format!("value depends on the partition of time: {x1:?} vs {x2:?}"), None);
				}
				let a = cs_in_unit(ut, start);
				let x = total_units as f64 / dur_units as f64;
				let want = a + (tg - a) * ease_pub(e, x);
				let got = cs_in_unit(ut, x1);
				if total_units > 0 && !((got - want).abs() <= 1e-9 * (1.0 + want.abs())) {
					s.fail(
						desc.clone(),
						format!(
							"after {total_units}/512 s the speed is {x1:?} = {got:?} {}; start + (target - start) x ease(elapsed / duration) = {want:?} {} (start = {a:?}, target = {tg:?})",
							unit_name[ut as usize], unit_name[ut as usize]
						),
						None,
					);
				}
				let (lo, hi) = if a <= tg { (a, tg) } else { (tg, a) };
				for v in a1.iter().chain(a2.iter()) {
					let g = cs_in_unit(ut, *v);
					if positive_power(e) && !(g >= lo - 1e-9 * (1.0 + lo.abs()) && g <= hi + 1e-9 * (1.0 + hi.abs())) {
						s.fail(desc.clone(), format!("value {v:?} leaves the interval between start and target"), None);
					}
				}
			}
			for v in &b1 {
				if cs_code(*v) != cs_code(target) {
					s.fail(desc.clone(), format!("after the end of the tween the value is {v:?}, not the target {target:?}"), None);
				}
			}
			// zero duration (immediate and delayed start): old value until the start, the target at the next update
			if i % 4 == 0 {
				let delay_units = if i % 8 == 0 { 0 } else { r2.below(12) + 2 };
				let st = if delay_units == 0 { StartTime::Immediate } else { StartTime::Delayed(Duration::from_nanos(delay_units * 1_953_125)) };
				let mut p = Parameter::<CS>::new(Value::Fixed(start), start);
				p.set(Value::Fixed(target), Tween { start_time: st, duration: Duration::ZERO, easing: e });
				let info = MockInfoBuilder::new().build();
				let mut t = 0;
				let d2 = format!("Parameter<ClockSpeed> {start:?} -> {target:?}, zero duration, start after {delay_units}/512 s, updates of 1/512 s");
				for _ in 0..delay_units + 2 {
					p.update(1.0 / 512.0, &info);
					t += 1;
					let v = p.value();
					if t <= delay_units && cs_code(v) != cs_code(start) {
						s.fail(d2.clone(), format!("moved to {v:?} at t={t}/512 s, before its start time"), None);
					}
					if t >= delay_units + 1 && cs_code(v) != cs_code(target) {
						s.fail(d2.clone(), format!("value {v:?} at t={t}/512 s: a zero-duration tween takes effect at the next update after its start"), None);
					}
				}
				s.eval_only("zero_duration_scenario_clock_speed");
			}
		}
	}
	owners(&mut s, &mut rng, args);
	s.finish();
}

// =====================================================================================================
// Parameters THROUGH THEIR OWNERS on a real AudioManager (custom backend): sounds, tracks, modulators,
// clocks, listeners.  Model side: coq/theories/C06/{ModelOwners,OwnersSound,RunOwners}.v
// =====================================================================================================
use crate::backend::{manager, Mgr};
use kira::clock::{ClockHandle, ClockSpeed};
use kira::effect::{Effect, EffectBuilder};
use kira::info::Info;
use kira::modulator::lfo::{LfoBuilder, LfoHandle, Waveform};
use kira::modulator::tweener::{TweenerBuilder, TweenerHandle};
use kira::sound::static_sound::{StaticSoundData, StaticSoundHandle, StaticSoundSettings};
use kira::sound::streaming::{Decoder, StreamingSoundData, StreamingSoundHandle, StreamingSoundSettings};
use kira::sound::PlaybackState;
use kira::track::{MainTrackBuilder, SendTrackBuilder, SpatialTrackBuilder, TrackBuilder, TrackPlaybackState};
use kira::{Capacities, Frame, Panning, PlaybackRate};
use std::sync::atomic::{AtomicU64, Ordering};
use std::sync::{Arc, Mutex};

const OSR: u32 = 1024; // dt = 2^-10 s, exactly representable
const ODT: f64 = 1.0 / OSR as f64;
const FRAME_NS: f64 = 976_562.5;

#[derive(Clone, Debug)]
struct OTw {
	start: Start,
	dur_ns: u64,
	easing: Easing,
}
fn tw0() -> OTw {
	OTw { start: Start::Imm, dur_ns: 0, easing: Easing::Linear }
}
fn ostart_term(s: &Start) -> String {
	match s {
		Start::Imm => "OImm".into(),
		Start::Del(ns) => format!("(ODel {})", ns),
		Start::Clk { clock, ticks, fr } => format!("(OClk {} {} {})", clock, ticks, f64_bits_z(*fr)),
	}
}
fn otw_term(t: &OTw) -> String {
	let (ek, ep) = easing_code(t.easing);
	format!("({}, {}, {}, {})", ostart_term(&t.start), t.dur_ns, ek, z(ep))
}
fn mk_ostart(clocks: &[kira::clock::ClockId], s: &Start) -> StartTime {
	match s {
		Start::Imm => StartTime::Immediate,
		Start::Del(ns) => StartTime::Delayed(Duration::from_nanos(*ns)),
		Start::Clk { clock, ticks, fr } => StartTime::ClockTime(ClockTime { clock: clocks[*clock], ticks: *ticks, fraction: *fr }),
	}
}
fn mk_otween(clocks: &[kira::clock::ClockId], t: &OTw) -> Tween {
	Tween { start_time: mk_ostart(clocks, &t.start), duration: Duration::from_nanos(t.dur_ns), easing: t.easing }
}
type ClockSnap = Vec<(bool, bool, u64, f64)>;
fn clocks_term(c: &ClockSnap) -> String {
	format!("[{}]", c.iter().map(|(p, t, k, f)| format!("({}, {}, {}, {})", *p as u8, *t as u8, k, f64_bits_z(*f))).collect::<Vec<_>>().join("; "))
}
fn chunks_term(ch: &[(usize, ClockSnap)]) -> String {
	format!("[{}]", ch.iter().map(|(l, c)| format!("({}, {})", l, clocks_term(c))).collect::<Vec<_>>().join("; "))
}
fn tab32_term(tab: &[(u32, u32, u32)]) -> String {
	let mut t = tab.to_vec();
	t.sort();
	t.dedup();
	format!("[{}]", t.iter().map(|(a, b, c)| format!("({}, {}, {})", a, b, c)).collect::<Vec<_>>().join("; "))
}
fn hash_key(term: &str) -> String {
	let mut h = 1469598103934665603u64;
	for b in term.bytes() {
		h = (h ^ b as u64).wrapping_mul(1099511628211);
	}
	format!("{:x}", h)
}

/// ease(x) through the public `Mapping` (input and output range 0..1)
fn ease_pub(e: Easing, x: f64) -> f64 {
	Mapping { input_range: (0.0, 1.0), output_range: (0.0f64, 1.0f64), easing: e }.map(x)
}

/// The property, evaluated independently of who owns the parameter: the value is the tween law of the time
/// PROCESSED since the command (one step of `dt * len` per processed chunk, whatever the owner's state is).
#[derive(Clone, Debug)]
struct Law {
	cur: f64,
	tw: Option<LawTw>,
	/// processed time since the command in force was taken (for messages)
	since_cmd: f64,
	target_exact: Option<f64>,
}
#[derive(Clone, Debug)]
struct LawTw {
	v0: f64,
	target: f64,
	start: Start,
	dur: f64,
	dur_ns: u64,
	easing: Easing,
	elapsed: f64,
}
impl Law {
	fn new(v: f64) -> Law {
		Law { cur: v, tw: None, since_cmd: 0.0, target_exact: None }
	}
	fn value(&self) -> f64 {
		match &self.tw {
			None => self.cur,
			Some(t) => {
				if t.dur_ns == 0 || t.elapsed == 0.0 {
					t.v0
				} else {
					t.v0 + (t.target - t.v0) * ease_pub(t.easing, t.elapsed / t.dur)
				}
			}
		}
	}
	fn set(&mut self, target: f64, tw: &OTw) {
		let v0 = self.value();
		self.cur = v0;
		self.since_cmd = 0.0;
		self.target_exact = None;
		self.tw = Some(LawTw { v0, target, start: tw.start.clone(), dur: Duration::from_nanos(tw.dur_ns).as_secs_f64(), dur_ns: tw.dur_ns, easing: tw.easing, elapsed: 0.0 });
	}
	/// one processed chunk of `dtc` seconds, with the clocks as they were during it
	fn advance(&mut self, dtc: f64, clocks: &ClockSnap) -> bool {
		self.since_cmd += dtc;
		let mut done = false;
		if let Some(t) = &mut self.tw {
			let counts = match &mut t.start {
				Start::Imm => true,
				Start::Del(rem) => {
					if *rem == 0 {
						true
					} else {
						*rem = rem.saturating_sub(Duration::from_secs_f64(dtc).as_nanos() as u64);
						false
					}
				}
				Start::Clk { clock, ticks, fr } => match clocks.get(*clock) {
					Some((true, ticking, tk, f)) => *ticking && (*tk > *ticks || (*tk == *ticks && *f >= *fr)),
					_ => false,
				},
			};
			if counts {
				t.elapsed += dtc;
				if t.elapsed >= t.dur {
					done = true;
				}
			}
		}
		if done {
			let t = self.tw.take().unwrap();
			self.cur = t.target;
			self.target_exact = Some(t.target);
		}
		done
	}
	fn describe(&self) -> String {
		match &self.tw {
			None => format!("at rest on {:?} ({} s processed since the command)", self.cur, self.since_cmd),
			Some(t) => format!("{:?} -> {:?} over {} s ({:?}, start {:?}), {} s of it elapsed, {} s processed since the command", t.v0, t.target, t.dur, t.easing, t.start, t.elapsed, self.since_cmd),
		}
	}
}

fn db_amp(db: f64) -> f64 {
	if db == 0.0 {
		1.0
	} else if db <= -60.0 {
		0.0
	} else {
		10f64.powf(db / 20.0)
	}
}

// ---- a probe effect that logs every processed chunk: its length and the clocks as the mixer saw them
type ChunkLog = Arc<Mutex<Vec<(usize, ClockSnap)>>>;
type ClockIds = Arc<Mutex<Vec<kira::clock::ClockId>>>;
struct ChunkProbe {
	clocks: ClockIds,
	log: ChunkLog,
}
impl Effect for ChunkProbe {
	fn process(&mut self, input: &mut [Frame], _dt: f64, info: &Info) {
		let snap = self
			.clocks
			.lock()
			.unwrap()
			.iter()
			.map(|id| match info.clock_info(*id) {
				Some(c) => (true, c.ticking, c.time.ticks, c.time.fraction),
				None => (false, false, 0, 0.0),
			})
			.collect();
		self.log.lock().unwrap().push((input.len(), snap));
	}
}
struct ChunkProbeBuilder(ClockIds, ChunkLog);
impl EffectBuilder for ChunkProbeBuilder {
	type Handle = ();
	fn build(self) -> (Box<dyn Effect>, ()) {
		(Box::new(ChunkProbe { clocks: self.0, log: self.1 }), ())
	}
}

// ---- an endless constant-amplitude stream
struct DcDecoder {
	amp: f32,
	calls: Arc<AtomicU64>,
}
const DC_PACKET: usize = 4096;
impl Decoder for DcDecoder {
	type Error = i128;
	fn sample_rate(&self) -> u32 {
		OSR
	}
	fn num_frames(&self) -> usize {
		1 << 24
	}
	fn decode(&mut self) -> Result<Vec<Frame>, i128> {
		self.calls.fetch_add(1, Ordering::SeqCst);
		Ok(vec![Frame::from_mono(self.amp); DC_PACKET])
	}
	fn seek(&mut self, _index: usize) -> Result<usize, i128> {
		Ok(0)
	}
}

fn state_code(s: PlaybackState) -> i128 {
	match s {
		PlaybackState::Playing => 0,
		PlaybackState::Pausing => 1,
		PlaybackState::Paused => 2,
		PlaybackState::WaitingToResume => 3,
		PlaybackState::Resuming => 4,
		PlaybackState::Stopping => 5,
		PlaybackState::Stopped => 6,
	}
}

#[derive(Clone, Debug)]
enum SCmd {
	Vol(f32, OTw),
	Rate(f64, OTw),
	Pan(f32, OTw),
	Pause(OTw),
	Resume(Start, OTw),
	/// `handle.resume(tween)` (NOT `resume_at`): the sound resumes at once, the tween is the fade-in's
	ResumeTw(OTw),
	Stop(OTw),
}
#[derive(Clone, Debug)]
struct SCb {
	cmds: Vec<SCmd>,
	frames: usize,
	/// repeat this callback (without its commands) until something is heard (the sound came back by itself)
	until_audible: bool,
}
#[derive(Clone, Debug)]
struct SndScen {
	streaming: bool,
	ibs: usize,
	src: f32,
	vol0: f32,
	rate0: f64,
	pan0: f32,
	st: Start,
	/// the fade-in tween given in the sound's settings (the fade volume is a parameter created at silence and told to
	/// move to 0 dB with this tween when the sound is constructed)
	fade_in: Option<OTw>,
	mode: &'static str,
	cbs: Vec<SCb>,
}
enum SndH {
	St(StaticSoundHandle),
	Sm(StreamingSoundHandle<i128>),
}
impl SndH {
	fn apply(&mut self, clocks: &[kira::clock::ClockId], c: &SCmd) {
		match (self, c) {
			(SndH::St(h), SCmd::Vol(v, t)) => h.set_volume(Decibels(*v), mk_otween(clocks, t)),
			(SndH::Sm(h), SCmd::Vol(v, t)) => h.set_volume(Decibels(*v), mk_otween(clocks, t)),
			(SndH::St(h), SCmd::Rate(v, t)) => h.set_playback_rate(PlaybackRate(*v), mk_otween(clocks, t)),
			(SndH::Sm(h), SCmd::Rate(v, t)) => h.set_playback_rate(PlaybackRate(*v), mk_otween(clocks, t)),
			(SndH::St(h), SCmd::Pan(v, t)) => h.set_panning(Panning(*v), mk_otween(clocks, t)),
			(SndH::Sm(h), SCmd::Pan(v, t)) => h.set_panning(Panning(*v), mk_otween(clocks, t)),
			(SndH::St(h), SCmd::Pause(t)) => h.pause(mk_otween(clocks, t)),
			(SndH::Sm(h), SCmd::Pause(t)) => h.pause(mk_otween(clocks, t)),
			(SndH::St(h), SCmd::Resume(st, t)) => h.resume_at(mk_ostart(clocks, st), mk_otween(clocks, t)),
			(SndH::Sm(h), SCmd::Resume(st, t)) => h.resume_at(mk_ostart(clocks, st), mk_otween(clocks, t)),
			(SndH::St(h), SCmd::ResumeTw(t)) => h.resume(mk_otween(clocks, t)),
			(SndH::Sm(h), SCmd::ResumeTw(t)) => h.resume(mk_otween(clocks, t)),
			(SndH::St(h), SCmd::Stop(t)) => h.stop(mk_otween(clocks, t)),
			(SndH::Sm(h), SCmd::Stop(t)) => h.stop(mk_otween(clocks, t)),
		}
	}
	fn state(&self) -> PlaybackState {
		match self {
			SndH::St(h) => h.state(),
			SndH::Sm(h) => h.state(),
		}
	}
	fn position(&self) -> f64 {
		match self {
			SndH::St(h) => h.position(),
			SndH::Sm(h) => h.position(),
		}
	}
}
fn scmd_term(c: &SCmd) -> String {
	match c {
		SCmd::Vol(v, t) => format!("CVol {} {}", f32_bits_z(*v), otw_term(t)),
		SCmd::Rate(v, t) => format!("CRate {} {}", f64_bits_z(*v), otw_term(t)),
		SCmd::Pan(v, t) => format!("CPan {} {}", f32_bits_z(*v), otw_term(t)),
		SCmd::Pause(t) => format!("CPause {}", otw_term(t)),
		SCmd::Resume(st, t) => format!("CResume {} {}", ostart_term(st), otw_term(t)),
		// what `resume(tween)` means: resume NOW, fade in with the tween (whose start time is the fade parameter's)
		SCmd::ResumeTw(t) => format!("CResume OImm {}", otw_term(t)),
		SCmd::Stop(t) => format!("CStop {}", otw_term(t)),
	}
}

struct SndCbTrace {
	state: PlaybackState,
	pos: f64,
	chunks: Vec<(usize, ClockSnap)>,
	out: Vec<f32>, // interleaved stereo
}
struct SndTrace {
	/// the callbacks as executed (`until_audible` expanded)
	exec: Vec<SCb>,
	cbs: Vec<SndCbTrace>,
	tab: Vec<(u32, u32, u32)>,
	panicked: Option<i128>,
}
const CLOCK_TPS: f64 = 64.0; // one tick every 16 frames at 1024 Hz

fn dc_frames() -> Arc<[Frame]> {
	static FRAMES: std::sync::OnceLock<Arc<[Frame]>> = std::sync::OnceLock::new();
	FRAMES.get_or_init(|| Arc::from(vec![Frame::from_mono(0.5); 1 << 16])).clone()
}

fn run_snd(sc: &SndScen) -> SndTrace {
	let _ = kira::verif::take_powf32_log();
	let r = catch(|| {
		let log: ChunkLog = Arc::new(Mutex::new(vec![]));
		let ids: ClockIds = Arc::new(Mutex::new(vec![]));
		let mut mgr: Mgr = manager(OSR, sc.ibs, Capacities::default(), MainTrackBuilder::new().with_effect(ChunkProbeBuilder(ids.clone(), log.clone())));
		let mut clock: ClockHandle = mgr.add_clock(ClockSpeed::TicksPerSecond(CLOCK_TPS)).unwrap();
		clock.start();
		ids.lock().unwrap().push(clock.id());
		let cids = vec![clock.id()];
		let mut h = if sc.streaming {
			let calls = Arc::new(AtomicU64::new(0));
			let settings = StreamingSoundSettings::new().volume(Decibels(sc.vol0)).playback_rate(PlaybackRate(sc.rate0)).panning(Panning(sc.pan0)).start_time(mk_ostart(&cids, &sc.st)).fade_in_tween(sc.fade_in.as_ref().map(|t| mk_otween(&cids, t)));
			let data = StreamingSoundData::from_decoder(DcDecoder { amp: sc.src, calls: calls.clone() }).with_settings(settings);
			let h = mgr.play(data).unwrap();
			// the decoder thread keeps ahead: a second `decode` call means the first packet (4096 frames) is in the ring
			let t0 = std::time::Instant::now();
			while calls.load(Ordering::SeqCst) < 2 && t0.elapsed() < Duration::from_secs(20) {
				std::thread::sleep(Duration::from_micros(200));
			}
			assert!(calls.load(Ordering::SeqCst) >= 2, "decoder thread did not start");
			SndH::Sm(h)
		} else {
			let settings = StaticSoundSettings::new().volume(Decibels(sc.vol0)).playback_rate(PlaybackRate(sc.rate0)).panning(Panning(sc.pan0)).start_time(mk_ostart(&cids, &sc.st)).fade_in_tween(sc.fade_in.as_ref().map(|t| mk_otween(&cids, t)));
			let mut frames = dc_frames();
			if sc.src != 0.5 {
				frames = Arc::from(vec![Frame::from_mono(sc.src); 1 << 14]);
			}
			SndH::St(mgr.play(StaticSoundData { sample_rate: OSR, frames, settings, slice: None }).unwrap())
		};
		let mut cbs = vec![];
		let mut exec = vec![];
		for cb in &sc.cbs {
			let mut rep = 0;
			loop {
				let cmds = if rep == 0 { cb.cmds.clone() } else { vec![] };
				for c in &cmds {
					h.apply(&cids, c);
				}
				let out = mgr.backend_mut().callback(cb.frames, 2);
				let chunks = std::mem::take(&mut *log.lock().unwrap());
				let heard = out.iter().any(|x| *x != 0.0);
				cbs.push(SndCbTrace { state: h.state(), pos: h.position(), chunks, out });
				exec.push(SCb { cmds, frames: cb.frames, until_audible: false });
				rep += 1;
				if !cb.until_audible || heard || rep >= 60 {
					break;
				}
			}
		}
		(exec, cbs)
	});
	let tab = kira::verif::take_powf32_log();
	match r {
		Outcome::Ok((exec, cbs)) => SndTrace { exec, cbs, tab, panicked: None },
		Outcome::Panic(c) => SndTrace { exec: vec![], cbs: vec![], tab, panicked: Some(1000 + c) },
		Outcome::Hang => SndTrace { exec: vec![], cbs: vec![], tab, panicked: Some(2000) },
	}
}

fn snd_term(sc: &SndScen, tr: &SndTrace) -> String {
	let cbs = tr
		.exec
		.iter()
		.zip(tr.cbs.iter())
		.map(|(cb, t)| format!("SCb [{}] {}", cb.cmds.iter().map(scmd_term).collect::<Vec<_>>().join("; "), chunks_term(&t.chunks)))
		.collect::<Vec<_>>()
		.join("; ");
	if let Some(f) = &sc.fade_in {
		return format!(
			"AOwn (CSndF {} {} {} {} {} {} {} {} [{}] {})",
			sc.streaming as u8,
			OSR,
			f32_bits_z(sc.src),
			f32_bits_z(sc.vol0),
			f64_bits_z(sc.rate0),
			f32_bits_z(sc.pan0),
			ostart_term(&sc.st),
			otw_term(f),
			cbs,
			tab32_term(&tr.tab)
		);
	}
	format!(
		"AOwn (CSnd {} {} {} {} {} {} {} [{}] {})",
		sc.streaming as u8,
		OSR,
		f32_bits_z(sc.src),
		f32_bits_z(sc.vol0),
		f64_bits_z(sc.rate0),
		f32_bits_z(sc.pan0),
		ostart_term(&sc.st),
		cbs,
		tab32_term(&tr.tab)
	)
}
fn snd_obs(tr: &SndTrace) -> Vec<i128> {
	if let Some(c) = tr.panicked {
		return vec![c];
	}
	let mut o = vec![];
	for cb in &tr.cbs {
		o.push(state_code(cb.state));
		o.push(obs64(cb.pos));
		o.extend(cb.out.iter().map(|x| obs32(*x)));
	}
	o
}

/// what a chunk-end frame must be when the fade is at unity
/// (`fade_db` = 0) or at `fade_db`
fn expected_lr_faded(src: f64, vol_db: f64, pan: f64, fade_db: f64) -> (f64, f64) {
	let a = src * db_amp(fade_db as f32 as f64) * db_amp(vol_db as f32 as f64);
	let (l, r) = if pan == 0.0 {
		(a, a)
	} else {
		let p = pan.clamp(-1.0, 1.0);
		let m = (p + 1.0) * 0.5;
		(a * (1.0 - m).sqrt() * std::f64::consts::SQRT_2, a * m.sqrt() * std::f64::consts::SQRT_2)
	};
	(l.clamp(-1.0, 1.0), r.clamp(-1.0, 1.0))
}

/// the monitors of one sound scenario; returns the failures (what)
fn snd_monitor(sc: &SndScen, tr: &SndTrace, checks: &mut (u64, u64, u64)) -> Vec<String> {
	let mut fails = vec![];
	let mut was_silent = false;
	let mut vol = Law::new(sc.vol0 as f64);
	let mut rate = Law::new(sc.rate0);
	let mut pan = Law::new(sc.pan0 as f64);
	// the fade volume: a parameter at silence (-60 dB) told at construction to move to 0 dB with the fade-in tween.
	// Fade-in scenarios start at once and are never paused: the sound plays (its position advances) from the first
	// frame on, however quiet, so a silent chunk is judged like any other.
	let mut fade = Law::new(if sc.fade_in.is_some() { -60.0 } else { 0.0 });
	if let Some(f) = &sc.fade_in {
		fade.set(0.0, f);
	}
	let faded = sc.fade_in.is_some();
	let mut state_before = PlaybackState::Playing;
	let mut prev_pos: Option<(f64, Option<f64>)> = None; // position published at the start of the previous callback, advance expected during it
	for (k, (cb, t)) in tr.exec.iter().zip(tr.cbs.iter()).enumerate() {
		let mut state_cmd = false;
		let mut zero_resume = false;
		for c in &cb.cmds {
			match c {
				SCmd::Vol(v, tw) => vol.set(*v as f64, tw),
				SCmd::Rate(v, tw) => rate.set(*v, tw),
				SCmd::Pan(v, tw) => pan.set(*v as f64, tw),
				SCmd::Pause(_) | SCmd::ResumeTw(_) | SCmd::Stop(_) => state_cmd = true,
				SCmd::Resume(st, tw) => {
					state_cmd = true;
					zero_resume = matches!(st, Start::Imm) && matches!(tw.start, Start::Imm) && tw.dur_ns == 0 && state_before == PlaybackState::Paused && !cb.cmds.iter().any(|c| matches!(c, SCmd::Pause(_)));
				}
			}
		}
		// position published at the start of this callback: the advance made during the previous one
		if let Some((p0, Some(want))) = prev_pos {
			checks.2 += 1;
			let got = (t.pos - p0) * OSR as f64;
			let tol = if sc.streaming { 1e-6 * (1.0 + want.abs()) } else { 1.0 + 1e-6 * want.abs() };
			if (got - want).abs() > tol {
				fails.push(format!(
					"callback {}: the position advanced by {got} source frames, but the playback rate following its tween law ({}) gives {want}",
					k - 1,
					rate.describe()
				));
			}
		}
		let eligible_cb = (state_before == PlaybackState::Playing && !state_cmd) || zero_resume;
		let mut off = 0usize;
		let mut advance = 0.0f64;
		// Before the first source frame has been consumed the interpolation window still holds the silent frame that
		// precedes the sound (resampler.rs / decode_scheduler.rs pre-seed), so at a fractional position the output is
		// not the source amplitude: nothing to do with tweens, not judged here.
		let mut consumed = t.pos * OSR as f64; // published at the start of this callback
		let mut all_audible = eligible_cb;
		for (len, clocks) in &t.chunks {
			let rate_prev = rate.value();
			let dtc = ODT * *len as f64;
			vol.advance(dtc, clocks);
			rate.advance(dtc, clocks);
			pan.advance(dtc, clocks);
			fade.advance(dtc, clocks);
			let frames = &t.out[off * 2..(off + len) * 2];
			off += len;
			let silent = !faded && frames.iter().all(|x| *x == 0.0);
			if silent {
				all_audible = false;
				was_silent = true;
			}
			// per-frame rate: interpolated from the previous chunk's final value
			let rc = rate.value();
			let mut consumed_before_last = consumed;
			for i in 0..*len {
				let a = (i + 1) as f64 / *len as f64;
				let step = (rate_prev + (rc - rate_prev) * a).abs();
				advance += step;
				if !silent {
					if i + 1 == *len {
						consumed_before_last = consumed;
					}
					consumed += step;
				}
			}
			if eligible_cb && !silent && consumed_before_last >= 1.5 {
				checks.0 += 1;
				if was_silent {
					checks.1 += 1;
				}
				let (l, r) = (frames[(len - 1) * 2] as f64, frames[(len - 1) * 2 + 1] as f64);
				let (wl, wr) = expected_lr_faded(sc.src as f64, vol.value(), pan.value(), fade.value());
				let tol = |w: f64| 2e-3 + 1e-3 * w.abs();
				if faded && ((l - wl).abs() > tol(wl) || (r - wr).abs() > tol(wr)) {
					let heard = (l.abs().max(r.abs())) / sc.src as f64;
					fails.push(format!(
						"callback {k}, chunk ending at frame {off}: last frame is ({l:?}, {r:?}), i.e. {:.3} dB relative to the source; the tween laws of the processed time give ({wl:?}, {wr:?}) = fade-in volume {:.3} dB [{}] + volume {:.3} dB [{}], panning {:.4} [{}]",
						20.0 * heard.log10(),
						fade.value(),
						fade.describe(),
						vol.value(),
						vol.describe(),
						pan.value(),
						pan.describe()
					));
				} else if (l - wl).abs() > tol(wl) || (r - wr).abs() > tol(wr) {
					let e2 = l * l + r * r;
					let a_obs = (e2 / 2.0).sqrt() / sc.src as f64;
					let pan_obs = if e2 > 0.0 { (r * r - l * l) / e2 } else { 0.0 };
					fails.push(format!(
						"callback {k}, chunk ending at frame {off}: last frame is ({l:?}, {r:?}) = gain {:.3} dB, balance {:.4}; the tween laws of the processed time give ({wl:?}, {wr:?}) = volume {:.3} dB [{}], panning {:.4} [{}]",
						20.0 * a_obs.log10(),
						pan_obs,
						vol.value(),
						vol.describe(),
						pan.value(),
						pan.describe()
					));
				}
			}
		}
		prev_pos = Some((t.pos, if all_audible && eligible_cb && !zero_resume { Some(advance) } else { None }));
		state_before = t.state;
	}
	fails
}

fn gen_otw(r: &mut Rng, allow_clock: bool) -> OTw {
	let start = match r.below(10) {
		0 | 1 => Start::Del((r.below(70) + 4) * 976_562 + r.below(2) * 500),
		2 if allow_clock => Start::Clk { clock: 0, ticks: r.below(7) + 1, fr: if r.chance(1, 2) { 0.0 } else { 0.5 } },
		_ => Start::Imm,
	};
	let dur_ns = match r.below(10) {
		0 => 0,
		1 => r.below(900_000) + 1,
		2 => (r.below(12) + 2) * 7_812_500, // k * 8 frames exactly
		_ => (r.below(150) + 16) * 976_562 + r.below(1000),
	};
	let easing = match r.below(6) {
		0 => Easing::InPowi(r.range(2, 3) as i32),
		1 => Easing::OutPowi(r.range(2, 3) as i32),
		2 => Easing::InOutPowi(2),
		_ => Easing::Linear,
	};
	OTw { start, dur_ns, easing }
}
fn gen_param_cmds(r: &mut Rng, force: bool) -> Vec<SCmd> {
	let mut v = vec![];
	let pick = if force { r.below(3) } else { 99 };
	if pick == 0 || r.chance(1, 3) {
		v.push(SCmd::Vol(*r.pick(&[0.0, -3.0, -6.0, -10.0, -20.0, -12.34, -40.0, 2.5]), gen_otw(r, true)));
	}
	if pick == 1 || r.chance(1, 4) {
		v.push(SCmd::Rate(*r.pick(&[0.5, 1.0, 1.5, 2.0, 3.0, 0.75, 1.1]), gen_otw(r, true)));
	}
	if pick == 2 || r.chance(1, 4) {
		v.push(SCmd::Pan(*r.pick(&[-1.0, -0.5, 0.0, 0.3, 0.75, 1.0]), gen_otw(r, true)));
	}
	v
}
fn gen_frames(r: &mut Rng, ibs: usize, max_mul: usize) -> usize {
	match r.below(8) {
		0 => 1,
		1 => ibs,
		2 => ibs + 1,
		3 => r.below(ibs as u64) as usize + 1,
		_ => r.below((ibs * max_mul) as u64) as usize + 1,
	}
}
fn gen_snd(r: &mut Rng, streaming: bool) -> SndScen {
	let ibs = *r.pick(&[8usize, 16, 32]);
	let mode = *r.pick(&["paused", "paused", "pausing", "waiting_delay", "waiting_clock", "start_delay", "start_clock", "playing"]);
	let st = match mode {
		"start_delay" => Start::Del((r.below(90) + 30) * 976_562 + 250),
		"start_clock" => Start::Clk { clock: 0, ticks: r.below(6) + 2, fr: if r.chance(1, 2) { 0.0 } else { 0.5 } },
		_ => Start::Imm,
	};
	let mut cbs = vec![];
	// lead-in (audible unless the start is pending)
	let lead = if matches!(st, Start::Imm) { r.below(3) as usize } else { 0 };
	for _ in 0..lead {
		cbs.push(SCb { until_audible: false, cmds: if r.chance(1, 3) { gen_param_cmds(r, false) } else { vec![] }, frames: r.below(4) as usize + 1 });
	}
	// into the silent state
	match mode {
		"paused" => cbs.push(SCb { until_audible: false, cmds: vec![SCmd::Pause(tw0())], frames: gen_frames(r, ibs, 2) }),
		"pausing" => cbs.push(SCb { until_audible: false, cmds: vec![SCmd::Pause(OTw { start: Start::Imm, dur_ns: (r.below(8) + 8) * 976_562, easing: Easing::Linear })], frames: r.below(3) as usize + 2 }),
		"waiting_delay" => {
			cbs.push(SCb { until_audible: false, cmds: vec![SCmd::Pause(tw0())], frames: gen_frames(r, ibs, 1) });
			cbs.push(SCb { until_audible: false, cmds: vec![SCmd::Resume(Start::Del((r.below(100) + 60) * 976_562), tw0())], frames: gen_frames(r, ibs, 2) });
		}
		"waiting_clock" => {
			cbs.push(SCb { until_audible: false, cmds: vec![SCmd::Pause(tw0())], frames: gen_frames(r, ibs, 1) });
			cbs.push(SCb { until_audible: false, cmds: vec![SCmd::Resume(Start::Clk { clock: 0, ticks: r.below(5) + 5, fr: 0.0 }, tw0())], frames: gen_frames(r, ibs, 2) });
		}
		_ => {}
	}
	// the silent stretch: commands to the parameters, time passing in random partitions
	let n = r.range(3, 6) as usize;
	let mut issued = false;
	for k in 0..n {
		let cmds = if k < 3 && (r.chance(2, 3) || (!issued && k == 2)) {
			issued = true;
			gen_param_cmds(r, true)
		} else {
			vec![]
		};
		let frames = if mode == "playing" { r.below(5) as usize + 1 } else if mode == "pausing" { r.below(6) as usize + 1 } else { gen_frames(r, ibs, 3) };
		cbs.push(SCb { until_audible: false, cmds, frames });
	}
	// out of it
	match mode {
		"paused" | "pausing" => cbs.push(SCb { until_audible: false, cmds: vec![SCmd::Resume(Start::Imm, tw0())], frames: r.below(6) as usize + 1 }),
		// the sound comes back by itself: short callbacks until it is heard
		"waiting_delay" | "waiting_clock" | "start_delay" | "start_clock" => cbs.push(SCb { until_audible: true, cmds: vec![], frames: r.below(9) as usize + 6 }),
		_ => {}
	}
	for _ in 0..r.range(2, 3) {
		cbs.push(SCb { until_audible: false, cmds: if r.chance(1, 5) { gen_param_cmds(r, false) } else { vec![] }, frames: r.below(6) as usize + 1 });
	}
	SndScen {
		streaming,
		ibs,
		src: 0.5,
		vol0: *r.pick(&[0.0f32, 0.0, -6.0, -12.5]),
		rate0: *r.pick(&[1.0f64, 1.0, 0.5, 2.0]),
		pan0: *r.pick(&[0.0f32, 0.0, -0.5, 0.25]),
		st,
		fade_in: None,
		mode,
		cbs,
	}
}

fn owners_sounds(s: &mut Session, rng: &mut Rng, n: u64) {
	s.flush();
	s.shard_size = 8; // an owner case costs the model up to ~0.7 s: small shards, evaluated in parallel
	for i in 0..n {
		let sc = gen_snd(rng, i % 2 == 1);
		let tr = run_snd(&sc);
		let term = snd_term(&sc, &tr);
		s.case(if sc.streaming { "owner_streaming_sound" } else { "owner_static_sound" }, term.clone(), &snd_obs(&tr), Some(hash_key(&term)));
		s.count(&format!("sound_mode_{}", sc.mode));
		if tr.panicked.is_some() {
			s.fail(format!("{sc:?}"), "panic while driving a sound through the manager".into(), None);
			continue;
		}
		let mut checks = (0, 0, 0);
		let fails = snd_monitor(&sc, &tr, &mut checks);
		*s.hist.entry("sound_chunk_end_frames_judged".into()).or_insert(0) += checks.0;
		*s.hist.entry("sound_chunk_end_frames_judged_after_silence".into()).or_insert(0) += checks.1;
		*s.hist.entry("sound_position_advances_judged".into()).or_insert(0) += checks.2;
		for f in fails {
			s.fail(format!("{} sound on the main track, 1024 Hz, internal buffer {}: {:?}", if sc.streaming { "streaming" } else { "static" }, sc.ibs, sc), f, None);
		}
	}
}

// -----------------------------------------------------------------------------------------------------
// (b) sub-track -> send route -> send track -> main track: four volume parameters, the sub-track paused / playing
// -----------------------------------------------------------------------------------------------------
#[derive(Clone, Debug)]
enum KCmd {
	Vol(f32, OTw),
	Route(f32, OTw),
	Send(f32, OTw),
	Main(f32, OTw),
	Pause(OTw),
	Resume(Start, OTw),
	/// `handle.resume(tween)` (NOT `resume_at`)
	ResumeTw(OTw),
}
#[derive(Clone, Debug)]
struct KCb {
	cmds: Vec<KCmd>,
	frames: usize,
	until_audible: bool,
}
#[derive(Clone, Debug)]
struct TrkScen {
	ibs: usize,
	src: f32,
	vol0: f32,
	route0: f32,
	send0: f32,
	main0: f32,
	mode: &'static str,
	cbs: Vec<KCb>,
}
fn tstate_code(s: TrackPlaybackState) -> i128 {
	match s {
		TrackPlaybackState::Playing => 0,
		TrackPlaybackState::Pausing => 1,
		TrackPlaybackState::Paused => 2,
		TrackPlaybackState::WaitingToResume => 3,
		TrackPlaybackState::Resuming => 4,
	}
}
fn kcmd_term(c: &KCmd) -> String {
	match c {
		KCmd::Vol(v, t) => format!("TVol {} {}", f32_bits_z(*v), otw_term(t)),
		KCmd::Route(v, t) => format!("TRoute {} {}", f32_bits_z(*v), otw_term(t)),
		KCmd::Send(v, t) => format!("TSend {} {}", f32_bits_z(*v), otw_term(t)),
		KCmd::Main(v, t) => format!("TMain {} {}", f32_bits_z(*v), otw_term(t)),
		KCmd::Pause(t) => format!("TPause {}", otw_term(t)),
		KCmd::Resume(st, t) => format!("TResume {} {}", ostart_term(st), otw_term(t)),
		KCmd::ResumeTw(t) => format!("TResume OImm {}", otw_term(t)),
	}
}
struct TrkCbTrace {
	state: TrackPlaybackState,
	chunks: Vec<(usize, ClockSnap)>,
	out: Vec<f32>,
}
struct TrkTrace {
	exec: Vec<KCb>,
	cbs: Vec<TrkCbTrace>,
	tab: Vec<(u32, u32, u32)>,
	panicked: Option<i128>,
}
fn run_trk(sc: &TrkScen) -> TrkTrace {
	let _ = kira::verif::take_powf32_log();
	let r = catch(|| {
		let log: ChunkLog = Arc::new(Mutex::new(vec![]));
		let ids: ClockIds = Arc::new(Mutex::new(vec![]));
		let mut mgr: Mgr = manager(OSR, sc.ibs, Capacities::default(), MainTrackBuilder::new().volume(Decibels(sc.main0)).with_effect(ChunkProbeBuilder(ids.clone(), log.clone())));
		let mut clock: ClockHandle = mgr.add_clock(ClockSpeed::TicksPerSecond(CLOCK_TPS)).unwrap();
		clock.start();
		ids.lock().unwrap().push(clock.id());
		let cids = vec![clock.id()];
		let mut send = mgr.add_send_track(SendTrackBuilder::new().volume(Decibels(sc.send0))).unwrap();
		let mut sub = mgr.add_sub_track(TrackBuilder::new().volume(Decibels(sc.vol0)).with_send(send.id(), Decibels(sc.route0))).unwrap();
		sub.play(crate::inject::Dc(sc.src)).unwrap();
		let mut cbs = vec![];
		let mut exec = vec![];
		for cb in &sc.cbs {
			let mut rep = 0;
			loop {
				let cmds = if rep == 0 { cb.cmds.clone() } else { vec![] };
				for c in &cmds {
					match c {
						KCmd::Vol(v, t) => sub.set_volume(Decibels(*v), mk_otween(&cids, t)),
						KCmd::Route(v, t) => sub.set_send(send.id(), Decibels(*v), mk_otween(&cids, t)).unwrap(),
						KCmd::Send(v, t) => send.set_volume(Decibels(*v), mk_otween(&cids, t)),
						KCmd::Main(v, t) => mgr.main_track().set_volume(Decibels(*v), mk_otween(&cids, t)),
						KCmd::Pause(t) => sub.pause(mk_otween(&cids, t)),
						KCmd::Resume(st, t) => sub.resume_at(mk_ostart(&cids, st), mk_otween(&cids, t)),
						KCmd::ResumeTw(t) => sub.resume(mk_otween(&cids, t)),
					}
				}
				let out = mgr.backend_mut().callback(cb.frames, 2);
				let chunks = std::mem::take(&mut *log.lock().unwrap());
				let heard = out.iter().any(|x| *x != 0.0);
				let mono: Vec<f32> = out.chunks(2).map(|c| if c[0].to_bits() == c[1].to_bits() { c[0] } else { f32::NAN }).collect();
				cbs.push(TrkCbTrace { state: sub.state(), chunks, out: mono });
				exec.push(KCb { cmds, frames: cb.frames, until_audible: false });
				rep += 1;
				if !cb.until_audible || heard || rep >= 60 {
					break;
				}
			}
		}
		(exec, cbs)
	});
	let tab = kira::verif::take_powf32_log();
	match r {
		Outcome::Ok((exec, cbs)) => TrkTrace { exec, cbs, tab, panicked: None },
		Outcome::Panic(c) => TrkTrace { exec: vec![], cbs: vec![], tab, panicked: Some(1000 + c) },
		Outcome::Hang => TrkTrace { exec: vec![], cbs: vec![], tab, panicked: Some(2000) },
	}
}
fn trk_term(sc: &TrkScen, tr: &TrkTrace) -> String {
	let cbs = tr
		.exec
		.iter()
		.zip(tr.cbs.iter())
		.map(|(cb, t)| format!("KCb [{}] {}", cb.cmds.iter().map(kcmd_term).collect::<Vec<_>>().join("; "), chunks_term(&t.chunks)))
		.collect::<Vec<_>>()
		.join("; ");
	format!(
		"AOwn (CTrk {} {} {} {} {} {} [{}] {})",
		OSR,
		f32_bits_z(sc.src),
		f32_bits_z(sc.vol0),
		f32_bits_z(sc.route0),
		f32_bits_z(sc.send0),
		f32_bits_z(sc.main0),
		cbs,
		tab32_term(&tr.tab)
	)
}
fn trk_obs(tr: &TrkTrace) -> Vec<i128> {
	if let Some(c) = tr.panicked {
		return vec![c];
	}
	let mut o = vec![];
	for cb in &tr.cbs {
		o.push(tstate_code(cb.state));
		o.extend(cb.out.iter().map(|x| obs32(*x)));
	}
	o
}
fn trk_monitor(sc: &TrkScen, tr: &TrkTrace, checks: &mut (u64, u64)) -> Vec<String> {
	let mut fails = vec![];
	let mut vol = Law::new(sc.vol0 as f64);
	let mut route = Law::new(sc.route0 as f64);
	let mut send = Law::new(sc.send0 as f64);
	let mut main = Law::new(sc.main0 as f64);
	let mut state_before = TrackPlaybackState::Playing;
	let mut was_silent = false;
	for (k, (cb, t)) in tr.exec.iter().zip(tr.cbs.iter()).enumerate() {
		let mut state_cmd = false;
		let mut zero_resume = false;
		for c in &cb.cmds {
			match c {
				KCmd::Vol(v, tw) => vol.set(*v as f64, tw),
				KCmd::Route(v, tw) => route.set(*v as f64, tw),
				KCmd::Send(v, tw) => send.set(*v as f64, tw),
				KCmd::Main(v, tw) => main.set(*v as f64, tw),
				KCmd::Pause(_) | KCmd::ResumeTw(_) => state_cmd = true,
				KCmd::Resume(st, tw) => {
					state_cmd = true;
					zero_resume = matches!(st, Start::Imm) && matches!(tw.start, Start::Imm) && tw.dur_ns == 0 && state_before == TrackPlaybackState::Paused && !cb.cmds.iter().any(|c| matches!(c, KCmd::Pause(_)));
				}
			}
		}
		let eligible_cb = (state_before == TrackPlaybackState::Playing && !state_cmd) || zero_resume;
		let mut off = 0usize;
		for (len, clocks) in &t.chunks {
			let dtc = ODT * *len as f64;
			for l in [&mut vol, &mut route, &mut send, &mut main] {
				l.advance(dtc, clocks);
			}
			let frames = &t.out[off..off + len];
			off += len;
			let silent = frames.iter().all(|x| *x == 0.0);
			if silent {
				was_silent = true;
			}
			if eligible_cb && !silent {
				checks.0 += 1;
				if was_silent {
					checks.1 += 1;
				}
				let got = frames[len - 1] as f64;
				let x = sc.src as f64 * db_amp(vol.value() as f32 as f64);
				let want = ((x + x * db_amp(route.value() as f32 as f64) * db_amp(send.value() as f32 as f64)) * db_amp(main.value() as f32 as f64)).clamp(-1.0, 1.0);
				if (got - want).abs() > 1e-3 + 1e-3 * want.abs() {
					fails.push(format!(
						"callback {k}, chunk ending at frame {off}: last frame is {got:?}; the tween laws of the processed time give {want:?} = {} x track volume {:.3} dB [{}] x (1 + route {:.3} dB [{}] x send track {:.3} dB [{}]) x main track {:.3} dB [{}]",
						sc.src,
						vol.value(),
						vol.describe(),
						route.value(),
						route.describe(),
						send.value(),
						send.describe(),
						main.value(),
						main.describe()
					));
				}
			}
		}
		state_before = t.state;
	}
	fails
}
fn gen_kparam_cmds(r: &mut Rng, force: bool) -> Vec<KCmd> {
	let mut v = vec![];
	let pick = if force { r.below(4) } else { 99 };
	let db = |r: &mut Rng| *r.pick(&[0.0f32, -3.0, -6.0, -10.0, -20.0, -12.34, -40.0, 1.5]);
	if pick == 0 || r.chance(1, 3) {
		let x = db(r);
		v.push(KCmd::Vol(x, gen_otw(r, true)));
	}
	if pick == 1 || r.chance(1, 4) {
		let x = db(r);
		v.push(KCmd::Route(x, gen_otw(r, true)));
	}
	if pick == 2 || r.chance(1, 5) {
		let x = db(r);
		v.push(KCmd::Send(x, gen_otw(r, true)));
	}
	if pick == 3 || r.chance(1, 5) {
		let x = db(r);
		v.push(KCmd::Main(x, gen_otw(r, true)));
	}
	v
}
fn gen_trk(r: &mut Rng) -> TrkScen {
	let ibs = *r.pick(&[8usize, 16, 32]);
	let mode = *r.pick(&["paused", "paused", "pausing", "waiting_delay", "waiting_clock", "playing"]);
	let mut cbs = vec![];
	for _ in 0..r.below(3) {
		cbs.push(KCb { until_audible: false, cmds: if r.chance(1, 3) { gen_kparam_cmds(r, false) } else { vec![] }, frames: r.below(4) as usize + 1 });
	}
	match mode {
		"paused" => cbs.push(KCb { until_audible: false, cmds: vec![KCmd::Pause(tw0())], frames: gen_frames(r, ibs, 2) }),
		"pausing" => cbs.push(KCb { until_audible: false, cmds: vec![KCmd::Pause(OTw { start: Start::Imm, dur_ns: (r.below(8) + 8) * 976_562, easing: Easing::Linear })], frames: r.below(3) as usize + 2 }),
		"waiting_delay" => {
			cbs.push(KCb { until_audible: false, cmds: vec![KCmd::Pause(tw0())], frames: gen_frames(r, ibs, 1) });
			cbs.push(KCb { until_audible: false, cmds: vec![KCmd::Resume(Start::Del((r.below(100) + 60) * 976_562), tw0())], frames: gen_frames(r, ibs, 2) });
		}
		"waiting_clock" => {
			cbs.push(KCb { until_audible: false, cmds: vec![KCmd::Pause(tw0())], frames: gen_frames(r, ibs, 1) });
			cbs.push(KCb { until_audible: false, cmds: vec![KCmd::Resume(Start::Clk { clock: 0, ticks: r.below(5) + 5, fr: 0.0 }, tw0())], frames: gen_frames(r, ibs, 2) });
		}
		_ => {}
	}
	let n = r.range(3, 6) as usize;
	let mut issued = false;
	for k in 0..n {
		let cmds = if k < 3 && (r.chance(2, 3) || (!issued && k == 2)) {
			issued = true;
			gen_kparam_cmds(r, true)
		} else {
			vec![]
		};
		let frames = if mode == "playing" { r.below(5) as usize + 1 } else if mode == "pausing" { r.below(6) as usize + 1 } else { gen_frames(r, ibs, 3) };
		cbs.push(KCb { until_audible: false, cmds, frames });
	}
	match mode {
		"paused" | "pausing" => cbs.push(KCb { until_audible: false, cmds: vec![KCmd::Resume(Start::Imm, tw0())], frames: r.below(6) as usize + 1 }),
		"waiting_delay" | "waiting_clock" => cbs.push(KCb { until_audible: true, cmds: vec![], frames: r.below(9) as usize + 6 }),
		_ => {}
	}
	for _ in 0..r.range(2, 3) {
		cbs.push(KCb { until_audible: false, cmds: if r.chance(1, 5) { gen_kparam_cmds(r, false) } else { vec![] }, frames: r.below(6) as usize + 1 });
	}
	TrkScen {
		ibs,
		src: 0.25,
		vol0: *r.pick(&[0.0f32, 0.0, -6.0]),
		route0: *r.pick(&[0.0f32, -6.0, -60.0, -12.5]),
		send0: *r.pick(&[0.0f32, -3.0]),
		main0: *r.pick(&[0.0f32, 0.0, -1.5]),
		mode,
		cbs,
	}
}
fn owners_tracks(s: &mut Session, rng: &mut Rng, n: u64) {
	for _ in 0..n {
		let sc = gen_trk(rng);
		let tr = run_trk(&sc);
		let term = trk_term(&sc, &tr);
		s.case("owner_track_volumes", term.clone(), &trk_obs(&tr), Some(hash_key(&term)));
		s.count(&format!("track_mode_{}", sc.mode));
		if tr.panicked.is_some() {
			s.fail(format!("{sc:?}"), "panic while driving a track through the manager".into(), None);
			continue;
		}
		let mut checks = (0, 0);
		let fails = trk_monitor(&sc, &tr, &mut checks);
		*s.hist.entry("track_chunk_end_frames_judged".into()).or_insert(0) += checks.0;
		*s.hist.entry("track_chunk_end_frames_judged_after_silence".into()).or_insert(0) += checks.1;
		for f in fails {
			s.fail(format!("constant sound on a sub-track routed to a send track, 1024 Hz, internal buffer {}: {:?}", sc.ibs, sc), f, None);
		}
	}
}

// -----------------------------------------------------------------------------------------------------
// (c) (d) renderer-level owners: tweener and LFO modulators, a clock's speed, a listener's position, each seen once per
// processed chunk by probe effects; callbacks that are not multiples of the internal buffer size
// -----------------------------------------------------------------------------------------------------
#[derive(Clone, Debug)]
enum RCmd {
	Tweener(f64, OTw),
	LfoAmp(f64, OTw),
	LfoOff(f64, OTw),
	LfoFreq(f64, OTw),
	/// unit (0 seconds per tick, 1 ticks per second, 2 ticks per minute), the number in that unit
	ClockSpeed(u8, f64, OTw),
	Listener(f32, OTw),
}
#[derive(Clone, Debug)]
struct RCb {
	cmds: Vec<RCmd>,
	frames: usize,
}
#[derive(Clone, Debug)]
struct RenScen {
	ibs: usize,
	tw_init: f64,
	lfo_amp0: f64,
	lfo_off0: f64,
	lfo_freq0: f64,
	speed0: f64,
	lis0: f32,
	cbs: Vec<RCb>,
}
#[derive(Clone, Debug)]
struct RenChunk {
	len: usize,
	tweener: Option<f64>,
	lfo: Option<f64>,
	saw: Option<f64>,
	clock: Option<(bool, u64, f64)>,
}
type RenLog = Arc<Mutex<Vec<RenChunk>>>;
type DistLog = Arc<Mutex<Vec<(usize, Option<f32>)>>>;
type ModIds = Arc<Mutex<Vec<kira::modulator::ModulatorId>>>;
struct RenProbe {
	mods: ModIds,
	clocks: ClockIds,
	log: RenLog,
}
impl Effect for RenProbe {
	fn process(&mut self, input: &mut [Frame], _dt: f64, info: &Info) {
		let m = self.mods.lock().unwrap();
		let c = self.clocks.lock().unwrap();
		self.log.lock().unwrap().push(RenChunk {
			len: input.len(),
			tweener: m.first().and_then(|id| info.modulator_value(*id)),
			lfo: m.get(1).and_then(|id| info.modulator_value(*id)),
			saw: m.get(2).and_then(|id| info.modulator_value(*id)),
			clock: c.first().and_then(|id| info.clock_info(*id)).map(|c| (c.ticking, c.time.ticks, c.time.fraction)),
		});
	}
}
struct RenProbeBuilder(ModIds, ClockIds, RenLog);
impl EffectBuilder for RenProbeBuilder {
	type Handle = ();
	fn build(self) -> (Box<dyn Effect>, ()) {
		(Box::new(RenProbe { mods: self.0, clocks: self.1, log: self.2 }), ())
	}
}
struct DistProbe(DistLog);
impl Effect for DistProbe {
	fn process(&mut self, input: &mut [Frame], _dt: f64, info: &Info) {
		self.0.lock().unwrap().push((input.len(), info.listener_distance()));
	}
}
struct DistProbeBuilder(DistLog);
impl EffectBuilder for DistProbeBuilder {
	type Handle = ();
	fn build(self) -> (Box<dyn Effect>, ()) {
		(Box::new(DistProbe(self.0)), ())
	}
}
fn v3(x: f32) -> mint::Vector3<f32> {
	mint::Vector3 { x, y: 0.0, z: 0.0 }
}
fn quat_id() -> mint::Quaternion<f32> {
	mint::Quaternion { v: mint::Vector3 { x: 0.0, y: 0.0, z: 0.0 }, s: 1.0 }
}
struct RenTrace {
	per_cb: Vec<(Vec<RenChunk>, Vec<(usize, Option<f32>)>)>,
	panicked: Option<i128>,
}
fn run_ren(sc: &RenScen) -> RenTrace {
	let r = catch(|| {
		let log: RenLog = Arc::new(Mutex::new(vec![]));
		let dlog: DistLog = Arc::new(Mutex::new(vec![]));
		let mids: ModIds = Arc::new(Mutex::new(vec![]));
		let cids: ClockIds = Arc::new(Mutex::new(vec![]));
		let mut mgr: Mgr = manager(OSR, sc.ibs, Capacities::default(), MainTrackBuilder::new().with_effect(RenProbeBuilder(mids.clone(), cids.clone(), log.clone())));
		let mut tweener: TweenerHandle = mgr.add_modulator(TweenerBuilder { initial_value: sc.tw_init }).unwrap();
		let mut lfo: LfoHandle = mgr
			.add_modulator(LfoBuilder::new().waveform(Waveform::Pulse { width: 1.0 }).frequency(2.0).amplitude(sc.lfo_amp0).offset(sc.lfo_off0))
			.unwrap();
		let mut saw: LfoHandle = mgr.add_modulator(LfoBuilder::new().waveform(Waveform::Saw).frequency(sc.lfo_freq0).amplitude(1.0).offset(0.0)).unwrap();
		*mids.lock().unwrap() = vec![tweener.id(), lfo.id(), saw.id()];
		let mut clock: ClockHandle = mgr.add_clock(ClockSpeed::TicksPerSecond(sc.speed0)).unwrap();
		clock.start();
		cids.lock().unwrap().push(clock.id());
		let mut listener = mgr.add_listener(v3(sc.lis0), quat_id()).unwrap();
		let _track = mgr.add_spatial_sub_track(listener.id(), v3(0.0), SpatialTrackBuilder::new().with_effect(DistProbeBuilder(dlog.clone()))).unwrap();
		let none: Vec<kira::clock::ClockId> = vec![];
		let mut per_cb = vec![];
		for cb in &sc.cbs {
			for c in &cb.cmds {
				match c {
					RCmd::Tweener(v, t) => tweener.set(*v, mk_otween(&none, t)),
					RCmd::LfoAmp(v, t) => lfo.set_amplitude(*v, mk_otween(&none, t)),
					RCmd::LfoOff(v, t) => lfo.set_offset(*v, mk_otween(&none, t)),
					RCmd::LfoFreq(v, t) => saw.set_frequency(*v, mk_otween(&none, t)),
					RCmd::ClockSpeed(u, v, t) => clock.set_speed(cs_mk(*u, *v), mk_otween(&none, t)),
					RCmd::Listener(v, t) => listener.set_position(v3(*v), mk_otween(&none, t)),
				}
			}
			let _ = mgr.backend_mut().callback(cb.frames, 2);
			per_cb.push((std::mem::take(&mut *log.lock().unwrap()), std::mem::take(&mut *dlog.lock().unwrap())));
		}
		per_cb
	});
	match r {
		Outcome::Ok(per_cb) => RenTrace { per_cb, panicked: None },
		Outcome::Panic(c) => RenTrace { per_cb: vec![], panicked: Some(1000 + c) },
		Outcome::Hang => RenTrace { per_cb: vec![], panicked: Some(2000) },
	}
}
/// the same history in the syntax of the C17 model (tweener = modulator 0, pulse LFO = modulator 1, one probe each)
fn ren_term(sc: &RenScen) -> String {
	let rtw = |t: &OTw| {
		let (ek, ep) = easing_code(t.easing);
		format!("(C17.Run.RTween {} {} {} {})", match &t.start { Start::Del(ns) => format!("{}", ns), _ => "(-1)".into() }, t.dur_ns, ek, z(ep))
	};
	let fx = |x: f64| format!("(C17.Run.RFixed {})", f64_bits_z(x));
	let mut ops = vec![
		format!("C17.Run.RAddTweener 0 {}", f64_bits_z(sc.tw_init)),
		format!("C17.Run.RAddLfo 1 (C17.Run.RPulse {}) {} {} {} {}", f64_bits_z(1.0), fx(2.0), fx(sc.lfo_amp0), fx(sc.lfo_off0), f64_bits_z(0.0)),
		format!("C17.Run.RAddProbe 100 0 {}", fx(0.0)),
		format!("C17.Run.RAddProbe 101 1 {}", fx(0.0)),
	];
	for cb in &sc.cbs {
		for c in &cb.cmds {
			match c {
				RCmd::Tweener(v, t) => ops.push(format!("C17.Run.RSetTweener 0 {} {}", f64_bits_z(*v), rtw(t))),
				RCmd::LfoAmp(v, t) => ops.push(format!("C17.Run.RSetLfoParam 1 1 {} {}", fx(*v), rtw(t))),
				RCmd::LfoOff(v, t) => ops.push(format!("C17.Run.RSetLfoParam 1 2 {} {}", fx(*v), rtw(t))),
				_ => {}
			}
		}
		ops.push(format!("C17.Run.RCb {}", cb.frames));
	}
	format!("AOwn (CMod (C17.Run.CScen {} {} [{}] [] []))", OSR, sc.ibs, ops.join("; "))
}
fn ren_obs(tr: &RenTrace) -> Vec<i128> {
	let mut o = vec![];
	for which in 0..2 {
		for (chunks, _) in &tr.per_cb {
			for c in chunks {
				o.push(c.len as i128);
				match if which == 0 { c.tweener } else { c.lfo } {
					Some(v) => {
						o.push(1);
						o.push(obs64(v));
					}
					None => {
						o.push(0);
						o.push(0);
					}
				}
				o.push(0); // the C17 probe's own parameter: Fixed(0.0)
			}
		}
	}
	o
}
fn ren_monitor(sc: &RenScen, tr: &RenTrace, checks: &mut u64) -> Vec<String> {
	let mut fails = vec![];
	let mut tweener = Law::new(sc.tw_init);
	let mut amp = Law::new(sc.lfo_amp0);
	let mut off = Law::new(sc.lfo_off0);
	let mut freq = Law::new(sc.lfo_freq0);
	let mut speed = Law::new(sc.speed0);
	let mut speed_unit = 1u8; // the clock is created with TicksPerSecond(speed0)
	let mut lis = Law::new(sc.lis0 as f64);
	let nc: ClockSnap = vec![];
	let mut clock_prev: Option<f64> = None;
	let mut phase_prev: Option<f64> = None;
	let mut frames_total = 0usize;
	for (k, (cb, (chunks, dists))) in sc.cbs.iter().zip(tr.per_cb.iter()).enumerate() {
		for c in &cb.cmds {
			match c {
				RCmd::Tweener(v, t) => tweener.set(*v, t),
				RCmd::LfoAmp(v, t) => amp.set(*v, t),
				RCmd::LfoOff(v, t) => off.set(*v, t),
				RCmd::LfoFreq(v, t) => freq.set(*v, t),
				RCmd::ClockSpeed(u, v, t) => {
					// the law of a clock speed is stated in the unit of the target: re-express the current value in it
					let cur = cs_in_unit(*u, cs_mk(speed_unit, speed.value()));
					speed = Law::new(cur);
					speed.set(*v, t);
					speed_unit = *u;
				}
				RCmd::Listener(v, t) => lis.set(*v as f64, t),
			}
		}
		if chunks.len() != dists.len() {
			fails.push(format!("callback {k}: the main track was processed {} times, the spatial track {} times", chunks.len(), dists.len()));
			continue;
		}
		for (j, (c, (dlen, dist))) in chunks.iter().zip(dists.iter()).enumerate() {
			let dtc = ODT * c.len as f64;
			frames_total += c.len;
			for l in [&mut tweener, &mut amp, &mut off, &mut freq, &mut speed, &mut lis] {
				l.advance(dtc, &nc);
			}
			*checks += 1;
			let at = format!("callback {k}, chunk {j} ({} frames; {frames_total} frames = {} s processed in all)", c.len, frames_total as f64 * ODT);
			if *dlen != c.len {
				fails.push(format!("{at}: the spatial track was given {dlen} frames"));
			}
			// tweener modulator
			match c.tweener {
				Some(v) => {
					let want = tweener.value();
					if let Some(t) = tweener.target_exact {
						if v.to_bits() != t.to_bits() {
							fails.push(format!("{at}: the tweener modulator's tween is over, its value is {v:?} and not the target {t:?} exactly"));
						}
					} else if (v - want).abs() > 1e-9 * (1.0 + want.abs()) {
						fails.push(format!("{at}: tweener modulator = {v:?}, the tween law of the processed time gives {want:?} [{}]", tweener.describe()));
					}
				}
				None => fails.push(format!("{at}: the tweener modulator has no value")),
			}
			// LFO amplitude and offset (pulse of width 1: value = offset + amplitude)
			match c.lfo {
				Some(v) => {
					let want = off.value() + amp.value();
					let exact = amp.tw.is_none() && off.tw.is_none();
					if (exact && v.to_bits() != want.to_bits()) || (v - want).abs() > 1e-9 * (1.0 + want.abs()) {
						fails.push(format!("{at}: LFO (pulse, width 1) = {v:?}, offset + amplitude by their tween laws = {want:?} [offset {}; amplitude {}]", off.describe(), amp.describe()));
					}
				}
				None => fails.push(format!("{at}: the LFO has no value")),
			}
			// LFO frequency (saw: value = fract(phase + 0.5) * 2 - 1; the phase advances by dt * frequency per chunk)
			if let Some(v) = c.saw {
				let phase = ((v + 1.0) / 2.0 + 0.5).fract();
				if let Some(p0) = phase_prev {
					let want = dtc * freq.value();
					let got = (phase - p0).rem_euclid(1.0);
					let d = (got - want.rem_euclid(1.0)).abs();
					if d.min(1.0 - d) > 1e-9 {
						fails.push(format!("{at}: the saw LFO's phase advanced by {got:?}, dt x frequency by its tween law = {want:?} [{}]", freq.describe()));
					}
				}
				phase_prev = Some(phase);
			}
			// clock speed
			if let Some((ticking, ticks, fr)) = c.clock {
				let now = ticks as f64 + fr;
				if let (true, Some(p0)) = (ticking, clock_prev) {
					let want = cs_mk(speed_unit, speed.value()).as_ticks_per_second() * dtc;
					if ((now - p0) - want).abs() > 1e-9 * (1.0 + want.abs()) {
						fails.push(format!(
							"{at}: the clock advanced by {:?} ticks, speed by its tween law (stated in {}) x chunk time = {want:?} [{}]",
							now - p0,
							["seconds per tick", "ticks per second", "ticks per minute"][speed_unit as usize],
							speed.describe()
						));
					}
				}
				if ticking {
					clock_prev = Some(now);
				}
			}
			// listener position, through the distance to a spatial track at the origin
			match dist {
				Some(d) => {
					let want = lis.value().abs();
					let exact = lis.tw.is_none();
					if (exact && (*d as f64) != want) || (*d as f64 - want).abs() > 1e-4 * (1.0 + want) {
						fails.push(format!("{at}: listener distance = {d:?}, |listener position| by its tween law = {want:?} [{}]", lis.describe()));
					}
				}
				None => fails.push(format!("{at}: no listener distance on the spatial track")),
			}
		}
	}
	fails
}
fn gen_rtw(r: &mut Rng) -> OTw {
	let mut t = gen_otw(r, false);
	if r.chance(1, 3) {
		t.dur_ns = (r.below(40) + 8) * 976_562 + r.below(1000); // short enough to end within the history
	}
	t
}
fn gen_ren(r: &mut Rng) -> RenScen {
	let ibs = *r.pick(&[8usize, 16, 32, 128]);
	let dec = |r: &mut Rng| (r.range(-20, 20) as f64) / 10.0; // tenths: differences are not exactly representable
	let mut cbs = vec![];
	let n = r.range(5, 12);
	for k in 0..n {
		let mut cmds = vec![];
		if k == 0 || r.chance(1, 4) {
			match r.below(6) {
				0 | 1 => cmds.push(RCmd::Tweener(dec(r), gen_rtw(r))),
				2 => {
					let x = dec(r);
					cmds.push(if r.chance(1, 2) { RCmd::LfoAmp(x, gen_rtw(r)) } else { RCmd::LfoOff(x, gen_rtw(r)) })
				}
				3 => cmds.push(RCmd::LfoFreq(*r.pick(&[0.5, 1.0, 3.0, 7.5]), gen_rtw(r))),
				4 => cmds.push(RCmd::ClockSpeed(1, *r.pick(&[1.0, 10.0, 64.0, 100.5, 0.25]), gen_rtw(r))),
				_ => cmds.push(RCmd::Listener(*r.pick(&[0.0f32, 1.0, -2.5, 10.1, 0.3]), gen_rtw(r))),
			}
			if r.chance(1, 3) {
				cmds.push(RCmd::Tweener(dec(r), gen_rtw(r)));
			}
		}
		// callbacks that are not multiples of the internal buffer size, one-frame callbacks, exact multiples
		let frames = match r.below(6) {
			0 => 1,
			1 => ibs,
			2 => 2 * ibs,
			3 => ibs + 1 + r.below(ibs as u64 - 1) as usize,
			_ => r.below(3 * ibs as u64) as usize + 1,
		};
		cbs.push(RCb { cmds, frames });
	}
	RenScen { ibs, tw_init: dec(r), lfo_amp0: 1.0, lfo_off0: dec(r), lfo_freq0: 2.0, speed0: *r.pick(&[2.0, 64.0, 10.0]), lis0: *r.pick(&[0.0f32, 1.5, -4.0]), cbs }
}
fn owners_renderer(s: &mut Session, rng: &mut Rng, n: u64) {
	for _ in 0..n {
		let sc = gen_ren(rng);
		let tr = run_ren(&sc);
		if tr.panicked.is_some() {
			s.fail(format!("{sc:?}"), "panic while driving modulators / clock / listener through the manager".into(), None);
			continue;
		}
		let term = ren_term(&sc);
		s.case("owner_modulators", term.clone(), &ren_obs(&tr), Some(hash_key(&term)));
		let mut checks = 0;
		let fails = ren_monitor(&sc, &tr, &mut checks);
		*s.hist.entry("renderer_chunks_judged".into()).or_insert(0) += checks;
		for f in fails {
			s.fail(format!("tweener + LFOs + clock + listener on a manager at 1024 Hz, internal buffer {}: {:?}", sc.ibs, sc), f, None);
		}
	}
}

/// The witness of `track_position_frozen_while_paused_refuted` on the real code: a spatial track is paused, told to
/// move, half of the tween's time is processed, the track is resumed.  kira updates the position below the "not
/// advancing" return (track/sub.rs:220); what it does is reported (not judged: see the final report of C06).
fn late_parameter_witness(s: &mut Session) {
	let r = catch(|| {
		let dlog: DistLog = Arc::new(Mutex::new(vec![]));
		let mut mgr: Mgr = manager(OSR, 16, Capacities::default(), MainTrackBuilder::new());
		let listener = mgr.add_listener(v3(0.0), quat_id()).unwrap();
		let mut track = mgr.add_spatial_sub_track(listener.id(), v3(0.0), SpatialTrackBuilder::new().with_effect(DistProbeBuilder(dlog.clone()))).unwrap();
		let z = Tween { start_time: StartTime::Immediate, duration: Duration::ZERO, easing: Easing::Linear };
		mgr.backend_mut().callback(16, 2);
		track.pause(z);
		mgr.backend_mut().callback(16, 2);
		track.set_position(v3(10.0), Tween { start_time: StartTime::Immediate, duration: Duration::from_secs(1), easing: Easing::Linear });
		mgr.backend_mut().callback(500, 2);
		mgr.backend_mut().callback(12, 2);
		track.resume(z);
		dlog.lock().unwrap().clear();
		mgr.backend_mut().callback(16, 2);
		mgr.backend_mut().callback(16, 2);
		let v = dlog.lock().unwrap().clone();
		v
	});
	if let Outcome::Ok(v) = r {
		// second chunk after the resume: the position as updated by the first one
		let d = v.get(1).and_then(|x| x.1).unwrap_or(f32::NAN);
		let frozen = (d as f64 - 10.0 * 16.0 / 1024.0).abs() < 1e-4;
		let followed = (d as f64 - 10.0 * 528.0 / 1024.0).abs() < 1e-3;
		s.count(if frozen { "late_parameter_frozen_while_track_paused" } else if followed { "late_parameter_followed_processed_time" } else { "late_parameter_other" });
		s.notes.push(format!(
			"spatial track paused, set_position(0 -> 10 over 1 s), 512 frames processed while paused, resumed: one chunk (16 frames) later the position is {d:?} ({}); the law of the processed time says {:?}, the model (position ticked only while the track advances) says {:?}",
			if frozen { "frozen while paused, as the model has it" } else if followed { "followed the processed time" } else { "neither" },
			10.0 * 528.0 / 1024.0,
			10.0 * 16.0 / 1024.0
		));
	}
}

// -----------------------------------------------------------------------------------------------------
// (e) values linked to the listener distance AT RUN TIME: a spatial sub-track's volume and a Parameter<f64> held by an
// effect on it are set through handles to Value::FromListenerDistance with tweens; after the tween the listener and
// the emitter move; the heard amplitude / the parameter must be the mapping of the CURRENT distance
// -----------------------------------------------------------------------------------------------------
#[derive(Clone, Debug)]
enum DVal {
	Fix(f64),
	Dist { lo: f64, hi: f64, olo: f64, ohi: f64, easing: Easing },
}
impl DVal {
	fn at(&self, d: Option<f32>, hold: f64) -> f64 {
		match self {
			DVal::Fix(x) => *x,
			DVal::Dist { lo, hi, olo, ohi, easing } => match d {
				Some(d) => {
					let a = ((d as f64 - lo) / (hi - lo)).clamp(0.0, 1.0);
					olo + (ohi - olo) * ease_pub(*easing, a)
				}
				None => hold,
			},
		}
	}
	fn term(&self, f32_valued: bool) -> String {
		let b = |x: f64| if f32_valued { f32_bits_z(x as f32) } else { f64_bits_z(x) };
		match self {
			DVal::Fix(x) => format!("(DFix {})", b(*x)),
			DVal::Dist { lo, hi, olo, ohi, easing } => {
				let (ek, ep) = easing_code(*easing);
				format!("(DDist {} {} {} {} {} {})", f64_bits_z(*lo), f64_bits_z(*hi), b(*olo), b(*ohi), ek, z(ep))
			}
		}
	}
}
#[derive(Clone, Debug)]
enum DCmd {
	Vol(DVal, OTw),
	Prm(DVal, OTw),
	Listener(f32, OTw),
	Emitter(f32, OTw),
}
#[derive(Clone, Debug)]
struct DCb {
	cmds: Vec<DCmd>,
	frames: usize,
}
#[derive(Clone, Debug)]
struct DstScen {
	ibs: usize,
	src: f32,
	vol0: f32,
	prm0: f64,
	lis0: f32,
	emit0: f32,
	cbs: Vec<DCb>,
}
type PrmCmd = Arc<Mutex<Option<(Value<f64>, Tween)>>>;
type PrmLog = Arc<Mutex<Vec<(usize, Option<f32>, f64)>>>;
struct PrmProbe {
	param: Parameter<f64>,
	cmd: PrmCmd,
	log: PrmLog,
}
impl Effect for PrmProbe {
	fn on_start_processing(&mut self) {
		if let Some((v, t)) = self.cmd.lock().unwrap().take() {
			self.param.set(v, t);
		}
	}
	fn process(&mut self, input: &mut [Frame], dt: f64, info: &Info) {
		self.param.update(dt * input.len() as f64, info);
		self.log.lock().unwrap().push((input.len(), info.listener_distance(), self.param.value()));
	}
}
struct PrmProbeBuilder(f64, PrmCmd, PrmLog);
impl EffectBuilder for PrmProbeBuilder {
	type Handle = ();
	fn build(self) -> (Box<dyn Effect>, ()) {
		(Box::new(PrmProbe { param: Parameter::new(Value::Fixed(self.0), self.0), cmd: self.1, log: self.2 }), ())
	}
}
fn dval_db(v: &DVal) -> Value<Decibels> {
	match v {
		DVal::Fix(x) => Value::Fixed(Decibels(*x as f32)),
		DVal::Dist { lo, hi, olo, ohi, easing } => Value::FromListenerDistance(Mapping { input_range: (*lo, *hi), output_range: (Decibels(*olo as f32), Decibels(*ohi as f32)), easing: *easing }),
	}
}
fn dval_f64(v: &DVal) -> Value<f64> {
	match v {
		DVal::Fix(x) => Value::Fixed(*x),
		DVal::Dist { lo, hi, olo, ohi, easing } => Value::FromListenerDistance(Mapping { input_range: (*lo, *hi), output_range: (*olo, *ohi), easing: *easing }),
	}
}
struct DstTrace {
	/// per callback: per chunk (len, listener distance, probe parameter), and the device output (mono)
	per_cb: Vec<(Vec<(usize, Option<f32>, f64)>, Vec<f32>)>,
	tab: Vec<(u32, u32, u32)>,
	panicked: Option<i128>,
}
fn run_dst(sc: &DstScen) -> DstTrace {
	let _ = kira::verif::take_powf32_log();
	let r = catch(|| {
		let cmd: PrmCmd = Arc::new(Mutex::new(None));
		let log: PrmLog = Arc::new(Mutex::new(vec![]));
		let mut mgr: Mgr = manager(OSR, sc.ibs, Capacities::default(), MainTrackBuilder::new());
		let mut listener = mgr.add_listener(v3(sc.lis0), quat_id()).unwrap();
		let mut track = mgr
			.add_spatial_sub_track(
				listener.id(),
				v3(sc.emit0),
				SpatialTrackBuilder::new().volume(Decibels(sc.vol0)).attenuation_function(None).spatialization_strength(0.0).with_effect(PrmProbeBuilder(sc.prm0, cmd.clone(), log.clone())),
			)
			.unwrap();
		track.play(crate::inject::Dc(sc.src)).unwrap();
		let none: Vec<kira::clock::ClockId> = vec![];
		let mut per_cb = vec![];
		for cb in &sc.cbs {
			for c in &cb.cmds {
				match c {
					DCmd::Vol(v, t) => track.set_volume(dval_db(v), mk_otween(&none, t)),
					DCmd::Prm(v, t) => *cmd.lock().unwrap() = Some((dval_f64(v), mk_otween(&none, t))),
					DCmd::Listener(x, t) => listener.set_position(v3(*x), mk_otween(&none, t)),
					DCmd::Emitter(x, t) => track.set_position(v3(*x), mk_otween(&none, t)),
				}
			}
			let out = mgr.backend_mut().callback(cb.frames, 2);
			let mono: Vec<f32> = out.chunks(2).map(|c| if c[0].to_bits() == c[1].to_bits() { c[0] } else { f32::NAN }).collect();
			per_cb.push((std::mem::take(&mut *log.lock().unwrap()), mono));
		}
		per_cb
	});
	let tab = kira::verif::take_powf32_log();
	match r {
		Outcome::Ok(per_cb) => DstTrace { per_cb, tab, panicked: None },
		Outcome::Panic(c) => DstTrace { per_cb: vec![], tab, panicked: Some(1000 + c) },
		Outcome::Hang => DstTrace { per_cb: vec![], tab, panicked: Some(2000) },
	}
}
fn dst_term(sc: &DstScen, tr: &DstTrace) -> String {
	let cbs = sc
		.cbs
		.iter()
		.zip(tr.per_cb.iter())
		.map(|(cb, (chunks, _))| {
			let cmds: Vec<String> = cb
				.cmds
				.iter()
				.filter_map(|c| match c {
					DCmd::Vol(v, t) => Some(format!("DVol {} {}", v.term(true), otw_term(t))),
					DCmd::Prm(v, t) => Some(format!("DPrm {} {}", v.term(false), otw_term(t))),
					_ => None,
				})
				.collect();
			format!(
				"DCb [{}] [{}]",
				cmds.join("; "),
				chunks.iter().map(|(l, d, _)| format!("({}, {})", l, match d { Some(d) => f32_bits_z(*d), None => "(-2)".into() })).collect::<Vec<_>>().join("; ")
			)
		})
		.collect::<Vec<_>>()
		.join("; ");
	format!("AOwn (CDst {} {} {} {} [{}] {})", OSR, f32_bits_z(sc.src), f32_bits_z(sc.vol0), f64_bits_z(sc.prm0), cbs, tab32_term(&tr.tab))
}
fn dst_obs(tr: &DstTrace) -> Vec<i128> {
	if let Some(c) = tr.panicked {
		return vec![c];
	}
	let mut o = vec![];
	for (chunks, out) in &tr.per_cb {
		let mut off = 0;
		for (len, _, prm) in chunks {
			off += len;
			o.push(obs64(*prm));
			o.push(obs32(out[off - 1]));
		}
	}
	o
}
/// a parameter that may be linked: progress of the tween in force, start value, target
struct LinkLaw {
	progress: Law, // 0 -> 1 with the tween's timing
	v0: f64,
	target: DVal,
	last: f64,
	since_end: f64,
}
impl LinkLaw {
	fn new(v: f64) -> LinkLaw {
		LinkLaw { progress: Law::new(1.0), v0: v, target: DVal::Fix(v), last: v, since_end: 0.0 }
	}
	fn set(&mut self, target: &DVal, tw: &OTw) {
		self.v0 = self.last;
		self.target = target.clone();
		self.progress = Law::new(0.0);
		self.progress.set(1.0, tw);
		self.since_end = 0.0;
	}
	/// the chunk is processed with the listener at distance `d`
	fn advance(&mut self, dtc: f64, d: Option<f32>) -> f64 {
		let was_over = self.progress.tw.is_none();
		self.progress.advance(dtc, &vec![]);
		if was_over {
			self.since_end += dtc;
		}
		let tgt = self.target.at(d, self.last);
		let p = self.progress.value();
		self.last = if self.progress.tw.is_none() { tgt } else { self.v0 + (tgt - self.v0) * p };
		self.last
	}
}
fn dst_monitor(sc: &DstScen, tr: &DstTrace, checks: &mut (u64, u64)) -> Vec<String> {
	let mut fails = vec![];
	let mut vol = LinkLaw::new(sc.vol0 as f64);
	let mut prm = LinkLaw::new(sc.prm0);
	let mut moved_after = false;
	for (k, (cb, (chunks, out))) in sc.cbs.iter().zip(tr.per_cb.iter()).enumerate() {
		for c in &cb.cmds {
			match c {
				DCmd::Vol(v, t) => vol.set(v, t),
				DCmd::Prm(v, t) => prm.set(v, t),
				_ => moved_after = true,
			}
		}
		let mut off = 0;
		for (j, (len, d, pv)) in chunks.iter().enumerate() {
			off += len;
			let dtc = ODT * *len as f64;
			let want_db = vol.advance(dtc, *d);
			let want_prm = prm.advance(dtc, *d);
			checks.0 += 1;
			if moved_after && (matches!(vol.target, DVal::Dist { .. }) && vol.progress.tw.is_none() || matches!(prm.target, DVal::Dist { .. }) && prm.progress.tw.is_none()) {
				checks.1 += 1;
			}
			let at = format!("callback {k}, chunk {j} ({len} frames), listener distance {d:?}");
			let got = out[off - 1] as f64;
			let want = (sc.src as f64 * db_amp(want_db as f32 as f64)).clamp(-1.0, 1.0);
			if (got - want).abs() > 1e-3 * (1.0 + want.abs()) {
				fails.push(format!(
					"{at}: the track's last frame is {got:?} = {:.3} dB; its volume {} gives {want:?} = {want_db:.3} dB",
					20.0 * (got / sc.src as f64).log10(),
					describe_link(&vol)
				));
			}
			if (pv - want_prm).abs() > 1e-6 * (1.0 + want_prm.abs()) {
				fails.push(format!("{at}: the effect's parameter is {pv:?}; {} gives {want_prm:?}", describe_link(&prm)));
			}
		}
	}
	fails
}
fn describe_link(l: &LinkLaw) -> String {
	let what = match &l.target {
		DVal::Fix(x) => format!("set to the fixed value {x:?}"),
		DVal::Dist { lo, hi, olo, ohi, easing } => format!("linked through its handle to the listener distance (distance {lo:?}..{hi:?} -> {olo:?}..{ohi:?}, {easing:?})"),
	};
	match &l.progress.tw {
		None => format!("{what}, its tween over for {} s of processed time", l.since_end),
		Some(_) => format!("{what}, from {:?}, tween: {}", l.v0, l.progress.describe()),
	}
}
fn gen_dval(r: &mut Rng, db: bool) -> DVal {
	if r.chance(1, 4) {
		DVal::Fix(if db { *r.pick(&[0.0, -6.0, -12.5]) } else { *r.pick(&[0.0, 100.0, 2500.5]) })
	} else {
		let easing = match r.below(4) {
			0 => Easing::InPowi(2),
			1 => Easing::OutPowi(3),
			_ => Easing::Linear,
		};
		let (lo, hi) = *r.pick(&[(0.0, 100.0), (1.0, 50.0), (0.0, 20.0)]);
		if db {
			DVal::Dist { lo, hi, olo: *r.pick(&[0.0, -3.0]), ohi: *r.pick(&[-40.0, -24.0, -59.0]), easing }
		} else {
			DVal::Dist { lo, hi, olo: *r.pick(&[20000.0, 1.0]), ohi: *r.pick(&[200.0, 0.0]), easing }
		}
	}
}
fn gen_dtw(r: &mut Rng) -> OTw {
	// zero / short / long, immediate or delayed
	let dur_ns = match r.below(4) {
		0 => 0,
		1 => r.below(3_000_000) + 1,
		2 => (r.below(20) + 4) * 976_562,
		_ => (r.below(100) + 30) * 976_562 + 333,
	};
	OTw { start: if r.chance(1, 5) { Start::Del((r.below(30) + 2) * 976_562) } else { Start::Imm }, dur_ns, easing: if r.chance(1, 3) { Easing::OutPowi(2) } else { Easing::Linear } }
}
fn gen_dst(r: &mut Rng) -> DstScen {
	let ibs = *r.pick(&[8usize, 16, 32]);
	let pos = |r: &mut Rng| *r.pick(&[0.0f32, 1.0, 5.0, 10.0, 25.5, 50.0, 80.0, 120.0, -30.0]);
	let frames = |r: &mut Rng| match r.below(5) {
		0 => 1,
		1 => ibs,
		_ => r.below(3 * ibs as u64) as usize + 1,
	};
	let mut cbs = vec![];
	for _ in 0..r.below(2) {
		cbs.push(DCb { cmds: vec![], frames: frames(r) });
	}
	// link at run time
	let mut cmds = vec![];
	if r.chance(4, 5) {
		cmds.push(DCmd::Vol(gen_dval(r, true), gen_dtw(r)));
	}
	if cmds.is_empty() || r.chance(3, 4) {
		cmds.push(DCmd::Prm(gen_dval(r, false), gen_dtw(r)));
	}
	cbs.push(DCb { cmds, frames: frames(r) });
	// let the tweens run (most of the time to completion: at most ~165 frames)
	for _ in 0..r.range(2, 5) {
		cbs.push(DCb { cmds: if r.chance(1, 6) { vec![DCmd::Listener(pos(r), gen_dtw(r))] } else { vec![] }, frames: 2 * ibs + r.below(2 * ibs as u64) as usize });
	}
	// then move the listener and the emitter, with and without tweens
	for _ in 0..r.range(3, 7) {
		let mut cmds = vec![];
		match r.below(5) {
			0 | 1 => cmds.push(DCmd::Listener(pos(r), gen_dtw(r))),
			2 => cmds.push(DCmd::Emitter(pos(r), gen_dtw(r))),
			3 => {
				cmds.push(DCmd::Listener(pos(r), tw0()));
				cmds.push(DCmd::Emitter(pos(r), tw0()));
			}
			_ => {}
		}
		if r.chance(1, 8) {
			cmds.push(DCmd::Vol(gen_dval(r, true), gen_dtw(r)));
		}
		if r.chance(1, 8) {
			cmds.push(DCmd::Prm(gen_dval(r, false), gen_dtw(r)));
		}
		cbs.push(DCb { cmds, frames: frames(r) });
	}
	DstScen { ibs, src: 0.5, vol0: *r.pick(&[0.0f32, -6.0]), prm0: *r.pick(&[1000.0, 0.0]), lis0: pos(r), emit0: pos(r), cbs }
}
fn owners_distance(s: &mut Session, rng: &mut Rng, n: u64) {
	for _ in 0..n {
		let sc = gen_dst(rng);
		let tr = run_dst(&sc);
		let term = dst_term(&sc, &tr);
		s.case("owner_distance_linked", term.clone(), &dst_obs(&tr), Some(hash_key(&term)));
		if tr.panicked.is_some() {
			s.fail(format!("{sc:?}"), "panic while driving a spatial track through the manager".into(), None);
			continue;
		}
		let mut checks = (0, 0);
		let fails = dst_monitor(&sc, &tr, &mut checks);
		*s.hist.entry("distance_chunks_judged".into()).or_insert(0) += checks.0;
		*s.hist.entry("distance_chunks_judged_linked_tween_over_after_a_move".into()).or_insert(0) += checks.1;
		for f in fails {
			s.fail(format!("constant sound on a spatial sub-track (no attenuation, strength 0) with a parameter-holding effect, 1024 Hz, internal buffer {}: {:?}", sc.ibs, sc), f, None);
		}
	}
}

// -----------------------------------------------------------------------------------------------------
// (a') sounds played WITH A FADE-IN TWEEN (settings.fade_in_tween): the fade volume is a Parameter<Decibels> created at
// silence and told, when the sound is constructed on the caller's thread, to move to 0 dB with the user's tween -- start
// time (immediate / delayed / clock) and duration (zero included) are the tween's.  Until the tween's start time the
// sound is silent; a zero-duration fade-in is at 0 dB one update after its start; in between the law, in decibels.
// -----------------------------------------------------------------------------------------------------
fn gen_fade_snd(r: &mut Rng, k: u64) -> SndScen {
	let ibs = *r.pick(&[8usize, 16, 32]);
	let streaming = k % 2 == 1;
	// every other scenario: zero duration with a start time that is several updates away
	let pending_zero = (k / 2) % 2 == 0;
	let start = match (pending_zero, r.below(4)) {
		(false, 0) => Start::Imm,
		(_, 1) => Start::Clk { clock: 0, ticks: r.below(6) + 2, fr: if r.chance(1, 2) { 0.0 } else { 0.5 } },
		_ => Start::Del((r.below(90) + 2 * ibs as u64 + 8) * 976_562 + r.below(2) * 500),
	};
	let dur_ns = if pending_zero {
		0
	} else {
		match r.below(5) {
			0 => 0,
			1 => r.below(900_000) + 1,
			2 => (r.below(12) + 2) * 7_812_500,
			_ => (r.below(100) + 16) * 976_562 + r.below(1000),
		}
	};
	let easing = match r.below(5) {
		0 => Easing::InPowi(2),
		1 => Easing::OutPowi(2),
		_ => Easing::Linear,
	};
	let mut cbs = vec![];
	// callbacks until well past the start and the end of the fade-in (at most ~100 + 116 frames), in random partitions
	let mut total = 0usize;
	let mut first = true;
	while total < 260 {
		let frames = if first { r.below(6) as usize + 1 } else { gen_frames(r, ibs, 3) };
		first = false;
		total += frames;
		cbs.push(SCb { until_audible: false, cmds: if r.chance(1, 8) { gen_param_cmds(r, false) } else { vec![] }, frames });
	}
	SndScen {
		streaming,
		ibs,
		src: 0.5,
		vol0: *r.pick(&[0.0f32, 0.0, -6.0]),
		rate0: *r.pick(&[1.0f64, 1.0, 0.5, 2.0]),
		pan0: *r.pick(&[0.0f32, 0.0, 0.25]),
		st: Start::Imm,
		fade_in: Some(OTw { start, dur_ns, easing }),
		mode: "fade_in",
		cbs,
	}
}
fn owners_fade_in(s: &mut Session, rng: &mut Rng, n: u64) {
	s.flush();
	s.shard_size = 4;
	for k in 0..n {
		let sc = gen_fade_snd(rng, k);
		let tr = run_snd(&sc);
		let term = snd_term(&sc, &tr);
		s.case(if sc.streaming { "owner_streaming_sound_fade_in" } else { "owner_static_sound_fade_in" }, term.clone(), &snd_obs(&tr), Some(hash_key(&term)));
		let f = sc.fade_in.as_ref().unwrap();
		s.count(if f.dur_ns == 0 && !matches!(f.start, Start::Imm) { "fade_in_zero_duration_start_pending" } else if f.dur_ns == 0 { "fade_in_zero_duration_immediate" } else { "fade_in_nonzero_duration" });
		if tr.panicked.is_some() {
			s.fail(format!("{sc:?}"), "panic while driving a sound with a fade-in tween through the manager".into(), None);
			continue;
		}
		let mut checks = (0, 0, 0);
		let fails = snd_monitor(&sc, &tr, &mut checks);
		*s.hist.entry("fade_in_chunk_end_frames_judged".into()).or_insert(0) += checks.0;
		for f in fails {
			s.fail(format!("{} sound of constant amplitude played with a fade-in tween on the main track, 1024 Hz, internal buffer {}: {:?}", if sc.streaming { "streaming" } else { "static" }, sc.ibs, sc), f, None);
		}
	}
}

/// (c') a clock whose speed is tweened between the three units of `ClockSpeed`; the law is stated in the unit of the target
fn gen_ren_speed(r: &mut Rng) -> RenScen {
	let ibs = *r.pick(&[8usize, 16, 32]);
	let mut cbs = vec![];
	let n = r.range(6, 12);
	for k in 0..n {
		let mut cmds = vec![];
		if k == 0 || r.chance(1, 3) {
			let unit = r.below(3) as u8;
			let tps = *r.pick(&[1.0, 2.0, 10.0, 64.0, 100.5, 0.25, 16.0]);
			let v = match unit {
				0 => 1.0 / tps,
				1 => tps,
				_ => tps * 60.0,
			};
			let mut t = gen_rtw(r);
			if r.chance(1, 2) {
				t.start = Start::Imm;
			}
			cmds.push(RCmd::ClockSpeed(unit, v, t));
		}
		let frames = match r.below(5) {
			0 => 1,
			1 => ibs,
			2 => ibs + 1 + r.below(ibs as u64 - 1) as usize,
			_ => r.below(3 * ibs as u64) as usize + 1,
		};
		cbs.push(RCb { cmds, frames });
	}
	RenScen { ibs, tw_init: 0.5, lfo_amp0: 1.0, lfo_off0: 0.25, lfo_freq0: 2.0, speed0: *r.pick(&[2.0, 64.0, 10.0]), lis0: 1.5, cbs }
}
fn owners_clock_speed(s: &mut Session, rng: &mut Rng, n: u64) {
	for _ in 0..n {
		let sc = gen_ren_speed(rng);
		let tr = run_ren(&sc);
		s.eval_only("owner_clock_speed_units");
		if tr.panicked.is_some() {
			s.fail(format!("{sc:?}"), "panic while tweening a clock's speed through the manager".into(), None);
			continue;
		}
		let mut checks = 0;
		let fails = ren_monitor(&sc, &tr, &mut checks);
		*s.hist.entry("clock_speed_chunks_judged".into()).or_insert(0) += checks;
		for f in fails {
			s.fail(format!("a clock whose speed is tweened (seconds per tick / ticks per second / ticks per minute) on a manager at 1024 Hz, internal buffer {}: {:?}", sc.ibs, sc), f, None);
		}
	}
}

// -----------------------------------------------------------------------------------------------------
// (f) THE FADE VOLUME of a sound / sub-track / spatial sub-track, told to move by pause(tween), resume(tween),
// resume_at(start, tween) and stop(tween) with tweens that carry their OWN start time (delayed / clock).  The fade volume
// is a Parameter<Decibels> inside its owner: it keeps its old value until the tween's start time -- counted ONCE, from
// the moment the owner tells it to move (the callback that takes the command; for resume_at the moment the resume's
// start time has come) --, then follows the law in decibels, then is the target exactly.  Heard through a constant
// source at every chunk end while the owner advances (Playing / Pausing / Resuming / Stopping).
// -----------------------------------------------------------------------------------------------------
#[derive(Clone, Debug)]
enum MPs {
	Playing,
	Pausing,
	Paused,
	Waiting(Start, OTw),
	Resuming,
	Stopping,
	Stopped,
}
/// who tells the fade parameter to move, and when (nothing else of the owner is mirrored)
#[derive(Clone, Debug)]
struct FadeOwner {
	ps: MPs,
	fade: Law,
	is_track: bool,
}
impl FadeOwner {
	fn new(is_track: bool) -> FadeOwner {
		FadeOwner { ps: MPs::Playing, fade: Law::new(0.0), is_track }
	}
	fn pause(&mut self, tw: &OTw) {
		if matches!(self.ps, MPs::Stopped) {
			return;
		}
		self.ps = MPs::Pausing;
		self.fade.set(-60.0, tw);
	}
	fn stop(&mut self, tw: &OTw) {
		if matches!(self.ps, MPs::Stopped) {
			return;
		}
		self.ps = MPs::Stopping;
		self.fade.set(-60.0, tw);
	}
	fn resume(&mut self, st: &Start, tw: &OTw) {
		if matches!(self.ps, MPs::Stopped) {
			return;
		}
		if matches!(st, Start::Imm) {
			self.ps = MPs::Resuming;
			self.fade.set(0.0, tw);
		} else {
			self.ps = MPs::Waiting(st.clone(), tw.clone());
		}
	}
	fn advance(&mut self, dtc: f64, clocks: &ClockSnap) {
		let finished = self.fade.advance(dtc, clocks);
		let mut resume_now: Option<OTw> = None;
		match &mut self.ps {
			MPs::Pausing if finished => self.ps = MPs::Paused,
			MPs::Resuming if finished => self.ps = MPs::Playing,
			MPs::Stopping if finished => self.ps = MPs::Stopped,
			MPs::Waiting(st, tw) => {
				// 0 later, 1 now, 2 never
				let when = match st {
					Start::Imm => 1,
					Start::Del(rem) => {
						*rem = rem.saturating_sub(Duration::from_secs_f64(dtc).as_nanos() as u64);
						(*rem == 0) as u8
					}
					Start::Clk { clock, ticks, fr } => match clocks.get(*clock) {
						Some((true, ticking, tk, f)) => (*ticking && (*tk > *ticks || (*tk == *ticks && *f >= *fr))) as u8,
						_ => 2,
					},
				};
				if when == 1 {
					resume_now = Some(tw.clone());
				} else if when == 2 {
					self.ps = if self.is_track { MPs::Paused } else { MPs::Stopped };
				}
			}
			_ => {}
		}
		if let Some(tw) = resume_now {
			self.resume(&Start::Imm, &tw);
		}
	}
	fn advancing(&self) -> bool {
		matches!(self.ps, MPs::Playing | MPs::Pausing | MPs::Resuming | MPs::Stopping)
	}
	fn code(&self) -> i128 {
		match self.ps {
			MPs::Playing => 0,
			MPs::Pausing => 1,
			MPs::Paused => 2,
			MPs::Waiting(..) => 3,
			MPs::Resuming => 4,
			MPs::Stopping => 5,
			MPs::Stopped => 6,
		}
	}
}
const STATE_NAMES: [&str; 7] = ["Playing", "Pausing", "Paused", "WaitingToResume", "Resuming", "Stopping", "Stopped"];

/// the last state command of a callback, for messages
fn describe_scmds(cmds: &[SCmd]) -> String {
	cmds.iter()
		.filter_map(|c| match c {
			SCmd::Pause(t) => Some(format!("pause({t:?})")),
			SCmd::Resume(st, t) => Some(format!("resume_at({st:?}, {t:?})")),
			SCmd::ResumeTw(t) => Some(format!("resume({t:?})")),
			SCmd::Stop(t) => Some(format!("stop({t:?})")),
			_ => None,
		})
		.collect::<Vec<_>>()
		.join(", ")
}

/// the fade-volume monitor of one sound scenario (rate 1, started at once, a lead-in of at least four frames)
fn snd_fade_monitor(sc: &SndScen, tr: &SndTrace, checks: &mut (u64, u64)) -> Vec<String> {
	let mut gain_fail: Option<String> = None;
	let mut state_fail: Option<String> = None;
	let mut own = FadeOwner::new(false);
	let mut vol = Law::new(sc.vol0 as f64);
	let mut pan = Law::new(sc.pan0 as f64);
	let mut last_cmd = String::from("(none)");
	let mut frames_since_cmd = 0usize;
	for (k, (cb, t)) in tr.exec.iter().zip(tr.cbs.iter()).enumerate() {
		// read_commands: parameters, pause, resume, stop
		for c in &cb.cmds {
			match c {
				SCmd::Vol(v, tw) => vol.set(*v as f64, tw),
				SCmd::Pan(v, tw) => pan.set(*v as f64, tw),
				_ => {}
			}
		}
		for c in &cb.cmds {
			if let SCmd::Pause(tw) = c {
				own.pause(tw)
			}
		}
		for c in &cb.cmds {
			match c {
				SCmd::Resume(st, tw) => own.resume(st, tw),
				SCmd::ResumeTw(tw) => own.resume(&Start::Imm, tw),
				_ => {}
			}
		}
		for c in &cb.cmds {
			if let SCmd::Stop(tw) = c {
				own.stop(tw)
			}
		}
		let d = describe_scmds(&cb.cmds);
		if !d.is_empty() {
			last_cmd = format!("{d} before callback {k}");
			frames_since_cmd = 0;
		}
		let mut off = 0usize;
		for (len, clocks) in &t.chunks {
			let dtc = ODT * *len as f64;
			vol.advance(dtc, clocks);
			pan.advance(dtc, clocks);
			own.advance(dtc, clocks);
			let frames = &t.out[off * 2..(off + len) * 2];
			off += len;
			frames_since_cmd += len;
			if !own.advancing() || gain_fail.is_some() {
				continue;
			}
			checks.0 += 1;
			let (l, r) = (frames[(len - 1) * 2] as f64, frames[(len - 1) * 2 + 1] as f64);
			let (wl, wr) = expected_lr_faded(sc.src as f64, vol.value(), pan.value(), own.fade.value());
			let tol = |w: f64| 2e-3 + 1e-3 * w.abs();
			if (l - wl).abs() > tol(wl) || (r - wr).abs() > tol(wr) {
				let gain = (l.abs().max(r.abs())) / (wl.abs().max(wr.abs())).max(1e-12);
				let full = expected_lr_faded(sc.src as f64, vol.value(), pan.value(), 0.0);
				let heard_db = 20.0 * ((l.abs().max(r.abs())) / full.0.abs().max(full.1.abs()).max(1e-12)).log10();
				gain_fail = Some(format!(
					"callback {k}, chunk ending at frame {off} of it ({frames_since_cmd} frames = {:.4} s processed since {last_cmd}): the last frame is ({l:?}, {r:?}), i.e. the fade volume heard is {heard_db:.2} dB (x{gain:.4} of what is due); the fade volume told to move by that command must be {:.3} dB [{}], giving ({wl:?}, {wr:?}) with volume {:.3} dB, panning {:.3}; the handle reports {:?} after this callback",
					frames_since_cmd as f64 * ODT,
					own.fade.value(),
					own.fade.describe(),
					vol.value(),
					pan.value(),
					t.state
				));
			}
		}
		checks.1 += 1;
		if state_code(t.state) != own.code() && state_fail.is_none() {
			state_fail = Some(format!(
				"callback {k} ({frames_since_cmd} frames processed since {last_cmd}): the handle reports {:?}, but the owner of the fade volume must be {} [fade volume: {}]{}",
				t.state,
				STATE_NAMES[own.code() as usize],
				own.fade.describe(),
				if matches!(t.state, PlaybackState::WaitingToResume) && matches!(own.ps, MPs::Resuming) {
					" -- the owner is counting the fade-in tween's own start time before telling the fade volume to move; the parameter will count it a second time"
				} else {
					""
				}
			));
		}
	}
	gain_fail.into_iter().chain(state_fail).collect()
}

/// the same for a sub-track with a send route (KCmd) -- the fade multiplies the track's output before the route
fn trk_fade_monitor(sc: &TrkScen, tr: &TrkTrace, checks: &mut (u64, u64)) -> Vec<String> {
	let mut gain_fail: Option<String> = None;
	let mut state_fail: Option<String> = None;
	let mut own = FadeOwner::new(true);
	let mut vol = Law::new(sc.vol0 as f64);
	let mut route = Law::new(sc.route0 as f64);
	let mut send = Law::new(sc.send0 as f64);
	let mut main = Law::new(sc.main0 as f64);
	let mut last_cmd = String::from("(none)");
	let mut frames_since_cmd = 0usize;
	for (k, (cb, t)) in tr.exec.iter().zip(tr.cbs.iter()).enumerate() {
		let mut d = vec![];
		for c in &cb.cmds {
			match c {
				KCmd::Vol(v, tw) => vol.set(*v as f64, tw),
				KCmd::Route(v, tw) => route.set(*v as f64, tw),
				KCmd::Send(v, tw) => send.set(*v as f64, tw),
				KCmd::Main(v, tw) => main.set(*v as f64, tw),
				_ => {}
			}
		}
		for c in &cb.cmds {
			if let KCmd::Pause(tw) = c {
				own.pause(tw);
				d.push(format!("pause({tw:?})"));
			}
		}
		for c in &cb.cmds {
			match c {
				KCmd::Resume(st, tw) => {
					own.resume(st, tw);
					d.push(format!("resume_at({st:?}, {tw:?})"));
				}
				KCmd::ResumeTw(tw) => {
					own.resume(&Start::Imm, tw);
					d.push(format!("resume({tw:?})"));
				}
				_ => {}
			}
		}
		if !d.is_empty() {
			last_cmd = format!("{} before callback {k}", d.join(", "));
			frames_since_cmd = 0;
		}
		let mut off = 0usize;
		for (len, clocks) in &t.chunks {
			let dtc = ODT * *len as f64;
			for l in [&mut vol, &mut route, &mut send, &mut main] {
				l.advance(dtc, clocks);
			}
			own.advance(dtc, clocks);
			let frames = &t.out[off..off + len];
			off += len;
			frames_since_cmd += len;
			if !own.advancing() || gain_fail.is_some() {
				continue;
			}
			checks.0 += 1;
			let got = frames[len - 1] as f64;
			let x = sc.src as f64 * db_amp(vol.value() as f32 as f64) * db_amp(own.fade.value() as f32 as f64);
			let want = ((x + x * db_amp(route.value() as f32 as f64) * db_amp(send.value() as f32 as f64)) * db_amp(main.value() as f32 as f64)).clamp(-1.0, 1.0);
			if !((got - want).abs() <= 2e-3 + 1e-3 * want.abs()) {
				gain_fail = Some(format!(
					"callback {k}, chunk ending at frame {off} of it ({frames_since_cmd} frames = {:.4} s processed since {last_cmd}): the last frame is {got:?}; the fade volume told to move by that command must be {:.3} dB [{}], giving {want:?} (track volume {:.3} dB, route {:.3} dB, send track {:.3} dB, main track {:.3} dB); the handle reports {:?} after this callback",
					frames_since_cmd as f64 * ODT,
					own.fade.value(),
					own.fade.describe(),
					vol.value(),
					route.value(),
					send.value(),
					main.value(),
					t.state
				));
			}
		}
		checks.1 += 1;
		if tstate_code(t.state) != own.code() && state_fail.is_none() {
			state_fail = Some(format!(
				"callback {k} ({frames_since_cmd} frames processed since {last_cmd}): the handle reports {:?}, but the owner of the fade volume must be {} [fade volume: {}]",
				t.state,
				STATE_NAMES[own.code() as usize],
				own.fade.describe()
			));
		}
	}
	gain_fail.into_iter().chain(state_fail).collect()
}

fn frames_ns(frames: u64) -> u64 {
	frames * 1_000_000_000 / OSR as u64
}
fn otw(start: Start, dur_ns: u64, easing: Easing) -> OTw {
	OTw { start, dur_ns, easing }
}
fn plain_cbs(parts: &[usize]) -> Vec<SCb> {
	parts.iter().map(|f| SCb { until_audible: false, cmds: vec![], frames: *f }).collect()
}
fn state_snd(streaming: bool, ibs: usize, vol0: f32, pan0: f32, mode: &'static str, cbs: Vec<SCb>) -> SndScen {
	SndScen { streaming, ibs, src: 0.5, vol0, rate0: 1.0, pan0, st: Start::Imm, fade_in: None, mode, cbs }
}
/// The fixed corpus (independent of the seed; runs first): a sound is paused at once, found Paused, and resumed with
/// `resume(Tween { start_time: Delayed(d), duration: D, .. })`.
fn directed_fade_snd() -> Vec<SndScen> {
	let mut v = vec![];
	let cmd = |c: SCmd, frames: usize| SCb { until_audible: false, cmds: vec![c], frames };
	for streaming in [false, true] {
		// d = 32 frames, D = 64 frames, callbacks of one internal buffer
		let mut cbs = plain_cbs(&[16, 16]);
		cbs.push(cmd(SCmd::Pause(tw0()), 32));
		cbs.push(cmd(SCmd::ResumeTw(otw(Start::Del(frames_ns(32)), frames_ns(64), Easing::Linear)), 16));
		cbs.extend(plain_cbs(&[16; 9]));
		v.push(state_snd(streaming, 16, 0.0, 0.0, "directed_resume_delayed_tween", cbs));
	}
	// the numbers of the demo: d = 100 ms, D = 100 ms, callbacks that are not multiples of the internal buffer
	let mut cbs = plain_cbs(&[21]);
	cbs.push(cmd(SCmd::Pause(tw0()), 21));
	cbs.push(cmd(SCmd::ResumeTw(otw(Start::Del(100_000_000), 100_000_000, Easing::Linear)), 7));
	cbs.extend(plain_cbs(&[13, 16, 29, 1, 40, 8, 33, 17, 5, 24, 31, 16]));
	v.push(state_snd(false, 8, -6.0, 0.25, "directed_resume_delayed_tween", cbs));
	// resumed while still Pausing (the new tween begins from the current, mid-tween value), non-linear easing
	let mut cbs = plain_cbs(&[12]);
	cbs.push(cmd(SCmd::Pause(otw(Start::Imm, frames_ns(40), Easing::Linear)), 16));
	cbs.push(cmd(SCmd::ResumeTw(otw(Start::Del(frames_ns(20)), frames_ns(30), Easing::InPowi(2))), 9));
	cbs.extend(plain_cbs(&[16, 3, 16, 16, 7, 16]));
	v.push(state_snd(true, 16, 0.0, 0.0, "directed_resume_delayed_tween_while_pausing", cbs));
	// the tween's start time is a clock time (tick 7 = frame 112 of a 64 Hz clock)
	let mut cbs = plain_cbs(&[16]);
	cbs.push(cmd(SCmd::Pause(tw0()), 16));
	cbs.push(cmd(SCmd::ResumeTw(otw(Start::Clk { clock: 0, ticks: 7, fr: 0.0 }, frames_ns(40), Easing::OutPowi(2))), 16));
	cbs.extend(plain_cbs(&[16; 8]));
	v.push(state_snd(false, 16, 0.0, 0.0, "directed_resume_clock_tween", cbs));
	// pause and stop with delayed tweens; resume_at with a delayed start AND a delayed tween (both delays are due)
	let mut cbs = plain_cbs(&[16]);
	cbs.push(cmd(SCmd::Pause(otw(Start::Del(frames_ns(24)), frames_ns(24), Easing::Linear)), 16));
	cbs.extend(plain_cbs(&[16, 16, 16]));
	cbs.push(cmd(SCmd::Resume(Start::Del(frames_ns(16)), otw(Start::Del(frames_ns(16)), frames_ns(32), Easing::Linear)), 16));
	cbs.extend(plain_cbs(&[16; 5]));
	cbs.push(cmd(SCmd::Stop(otw(Start::Del(frames_ns(20)), frames_ns(20), Easing::Linear)), 16));
	cbs.extend(plain_cbs(&[16, 16, 16]));
	v.push(state_snd(false, 16, 0.0, 0.0, "directed_pause_resume_at_stop_delayed_tweens", cbs));
	v
}
fn state_trk(ibs: usize, route0: f32, mode: &'static str, cbs: Vec<KCb>) -> TrkScen {
	TrkScen { ibs, src: 0.25, vol0: 0.0, route0, send0: 0.0, main0: 0.0, mode, cbs }
}
fn directed_fade_trk() -> Vec<TrkScen> {
	let mut v = vec![];
	let plain = |parts: &[usize]| -> Vec<KCb> { parts.iter().map(|f| KCb { until_audible: false, cmds: vec![], frames: *f }).collect() };
	let cmd = |c: KCmd, frames: usize| KCb { until_audible: false, cmds: vec![c], frames };
	let mut cbs = plain(&[16, 16]);
	cbs.push(cmd(KCmd::Pause(tw0()), 32));
	cbs.push(cmd(KCmd::ResumeTw(otw(Start::Del(frames_ns(32)), frames_ns(64), Easing::Linear)), 16));
	cbs.extend(plain(&[16; 9]));
	v.push(state_trk(16, -60.0, "directed_resume_delayed_tween", cbs));
	let mut cbs = plain(&[12]);
	cbs.push(cmd(KCmd::Pause(otw(Start::Imm, frames_ns(40), Easing::Linear)), 16));
	cbs.push(cmd(KCmd::ResumeTw(otw(Start::Del(frames_ns(20)), frames_ns(30), Easing::InPowi(2))), 9));
	cbs.extend(plain(&[16, 3, 16, 16, 7, 16]));
	v.push(state_trk(16, -6.0, "directed_resume_delayed_tween_while_pausing", cbs));
	v
}

/// a tween for a state command: its own start time is immediate / delayed / a clock time near the present
fn gen_stw(r: &mut Rng, frames_so_far: usize) -> OTw {
	let start = match r.below(10) {
		0..=3 => Start::Del((r.below(40) + 3) * 976_562 + r.below(2) * 500),
		4 | 5 => Start::Clk { clock: 0, ticks: (frames_so_far / 16) as u64 + r.below(4), fr: if r.chance(1, 2) { 0.0 } else { 0.5 } },
		_ => Start::Imm,
	};
	let dur_ns = match r.below(8) {
		0 => 0,
		1 => r.below(900_000) + 1,
		2 => (r.below(6) + 1) * 7_812_500,
		_ => (r.below(56) + 8) * 976_562 + r.below(1000),
	};
	let easing = match r.below(5) {
		0 => Easing::InPowi(2),
		1 => Easing::OutPowi(2),
		_ => Easing::Linear,
	};
	OTw { start, dur_ns, easing }
}
/// 0 pause, 1 resume(tween), 2 resume_at(start, tween), 3 stop
fn gen_state_kinds(r: &mut Rng, allow_stop: bool) -> Vec<u8> {
	let n = r.range(3, 5) as usize;
	let mut kinds = vec![];
	let mut paused = false;
	for k in 0..n {
		let kind = if allow_stop && k + 1 == n && r.chance(1, 3) {
			3
		} else if !paused {
			if r.chance(5, 6) {
				0
			} else {
				1
			}
		} else {
			match r.below(6) {
				0 => 0,
				1 | 2 => 2,
				_ => 1,
			}
		};
		paused = kind == 0;
		kinds.push(kind);
	}
	kinds
}
fn gen_state_start(r: &mut Rng, frames_so_far: usize) -> Start {
	if r.chance(1, 2) {
		Start::Del((r.below(30) + 4) * 976_562)
	} else {
		Start::Clk { clock: 0, ticks: (frames_so_far / 16) as u64 + r.below(3) + 1, fr: 0.0 }
	}
}
fn gen_state_snd(r: &mut Rng, k: u64) -> SndScen {
	let ibs = *r.pick(&[8usize, 16, 32]);
	let mut total = r.below(9) as usize + 4;
	let mut cbs = plain_cbs(&[total]);
	for kind in gen_state_kinds(r, true) {
		let tw = if kind == 0 && r.chance(1, 3) { tw0() } else { gen_stw(r, total) };
		let c = match kind {
			0 => SCmd::Pause(tw),
			1 => SCmd::ResumeTw(tw),
			2 => SCmd::Resume(gen_state_start(r, total), tw),
			_ => SCmd::Stop(tw),
		};
		let mut cmds = vec![c];
		if r.chance(1, 5) {
			cmds.push(SCmd::Vol(*r.pick(&[0.0, -6.0, -12.34]), gen_otw(r, false)));
		}
		// time for the command: sometimes short of the tween's start / end, sometimes well past them
		let mut budget = *r.pick(&[10usize, 30, 60, 100, 130]);
		let mut first = true;
		while budget > 0 {
			let f = gen_frames(r, ibs, 3).min(budget);
			cbs.push(SCb { until_audible: false, cmds: if first { std::mem::take(&mut cmds) } else { vec![] }, frames: f });
			first = false;
			budget -= f;
			total += f;
		}
	}
	state_snd(k % 2 == 1, ibs, *r.pick(&[0.0f32, 0.0, -6.0]), *r.pick(&[0.0f32, 0.0, 0.25]), "state_tweens", cbs)
}
fn gen_state_trk(r: &mut Rng) -> TrkScen {
	let ibs = *r.pick(&[8usize, 16, 32]);
	let mut total = r.below(9) as usize + 4;
	let mut cbs = vec![KCb { until_audible: false, cmds: vec![], frames: total }];
	for kind in gen_state_kinds(r, false) {
		let tw = if kind == 0 && r.chance(1, 3) { tw0() } else { gen_stw(r, total) };
		let c = match kind {
			0 => KCmd::Pause(tw),
			1 => KCmd::ResumeTw(tw),
			_ => KCmd::Resume(gen_state_start(r, total), tw),
		};
		let mut cmds = vec![c];
		if r.chance(1, 5) {
			cmds.push(KCmd::Vol(*r.pick(&[0.0, -6.0, -12.34]), gen_otw(r, false)));
		}
		let mut budget = *r.pick(&[10usize, 30, 60, 100, 130]);
		let mut first = true;
		while budget > 0 {
			let f = gen_frames(r, ibs, 3).min(budget);
			cbs.push(KCb { until_audible: false, cmds: if first { std::mem::take(&mut cmds) } else { vec![] }, frames: f });
			first = false;
			budget -= f;
			total += f;
		}
	}
	state_trk(ibs, *r.pick(&[-60.0f32, -6.0, 0.0]), "state_tweens", cbs)
}
fn judge_state_snd(s: &mut Session, sc: &SndScen) {
	let mut tr = run_snd(sc);
	// a Stopped sound is unloaded: the history ends with the callback after which the handle reports Stopped (what the
	// handle's position shows from then on is no business of a tween)
	if let Some(k) = tr.cbs.iter().position(|c| c.state == PlaybackState::Stopped) {
		tr.cbs.truncate(k + 1);
		tr.exec.truncate(k + 1);
	}
	let term = snd_term(sc, &tr);
	s.case(if sc.streaming { "owner_streaming_sound_state_tweens" } else { "owner_static_sound_state_tweens" }, term.clone(), &snd_obs(&tr), Some(hash_key(&term)));
	s.count(&format!("sound_{}", sc.mode));
	if tr.panicked.is_some() {
		s.fail(format!("{sc:?}"), "panic while driving a sound through the manager".into(), None);
		return;
	}
	let mut checks = (0, 0);
	let fails = snd_fade_monitor(sc, &tr, &mut checks);
	*s.hist.entry("state_tweens_chunk_end_frames_judged".into()).or_insert(0) += checks.0;
	*s.hist.entry("state_tweens_states_judged".into()).or_insert(0) += checks.1;
	for f in fails {
		s.fail(format!("{} sound of constant amplitude on the main track, 1024 Hz, internal buffer {}, commands through its handle (ResumeTw = handle.resume(tween), Resume = handle.resume_at(start, tween)): {:?}", if sc.streaming { "streaming" } else { "static" }, sc.ibs, sc), f, None);
	}
}
fn judge_state_trk(s: &mut Session, sc: &TrkScen) {
	let tr = run_trk(sc);
	let term = trk_term(sc, &tr);
	s.case("owner_track_state_tweens", term.clone(), &trk_obs(&tr), Some(hash_key(&term)));
	s.count(&format!("track_{}", sc.mode));
	if tr.panicked.is_some() {
		s.fail(format!("{sc:?}"), "panic while driving a track through the manager".into(), None);
		return;
	}
	let mut checks = (0, 0);
	let fails = trk_fade_monitor(sc, &tr, &mut checks);
	*s.hist.entry("state_tweens_chunk_end_frames_judged".into()).or_insert(0) += checks.0;
	*s.hist.entry("state_tweens_states_judged".into()).or_insert(0) += checks.1;
	for f in fails {
		s.fail(format!("constant sound on a sub-track routed to a send track, 1024 Hz, internal buffer {}, commands through the sub-track's handle (ResumeTw = handle.resume(tween), Resume = handle.resume_at(start, tween)): {:?}", sc.ibs, sc), f, None);
	}
}
/// a SPATIAL sub-track (no attenuation, spatialization strength 0) paused at once and resumed with `resume(tween)`
/// (monitor only: the model's track case is the plain sub-track)
fn directed_fade_spatial(s: &mut Session) {
	for (d, dur, parts) in [(32u64, 64u64, vec![16usize; 10]), (20, 30, vec![9, 16, 3, 16, 16, 7, 16])] {
		let tw = otw(Start::Del(frames_ns(d)), frames_ns(dur), Easing::Linear);
		let desc = format!("constant sound (0.5) on a spatial sub-track (no attenuation, strength 0), 1024 Hz, internal buffer 16: callbacks [16, 16]; pause(zero tween), callback 32; resume({tw:?}), callbacks {parts:?}");
		let r = catch(|| {
			let log: ChunkLog = Arc::new(Mutex::new(vec![]));
			let ids: ClockIds = Arc::new(Mutex::new(vec![]));
			let mut mgr: Mgr = manager(OSR, 16, Capacities::default(), MainTrackBuilder::new().with_effect(ChunkProbeBuilder(ids.clone(), log.clone())));
			let listener = mgr.add_listener(v3(0.0), quat_id()).unwrap();
			let mut track = mgr.add_spatial_sub_track(listener.id(), v3(1.0), SpatialTrackBuilder::new().attenuation_function(None).spatialization_strength(0.0)).unwrap();
			track.play(crate::inject::Dc(0.5)).unwrap();
			mgr.backend_mut().callback(16, 2);
			mgr.backend_mut().callback(16, 2);
			track.pause(mk_otween(&[], &tw0()));
			mgr.backend_mut().callback(32, 2);
			let paused = track.state();
			track.resume(mk_otween(&[], &tw));
			log.lock().unwrap().clear();
			let mut per_cb = vec![];
			for f in &parts {
				let out = mgr.backend_mut().callback(*f, 2);
				per_cb.push((std::mem::take(&mut *log.lock().unwrap()), out, track.state()));
			}
			(paused, per_cb)
		});
		s.eval_only("spatial_track_directed_resume_delayed_tween");
		let (paused, per_cb) = match r {
			Outcome::Ok(x) => x,
			_ => {
				s.fail(desc, "panic while driving a spatial sub-track through the manager".into(), None);
				continue;
			}
		};
		if paused != TrackPlaybackState::Paused {
			s.fail(desc.clone(), format!("the track reports {paused:?} after pause(zero tween) and a callback"), None);
			continue;
		}
		let mut own = FadeOwner::new(true);
		own.ps = MPs::Paused;
		own.fade = Law::new(-60.0);
		own.resume(&Start::Imm, &tw);
		let mut since = 0usize;
		let mut state_fail: Option<String> = None;
		'cbs: for (k, (chunks, out, state)) in per_cb.iter().enumerate() {
			let mut off = 0;
			for (len, clocks) in chunks {
				own.advance(ODT * *len as f64, clocks);
				off += len;
				since += len;
				let (l, r) = (out[(off - 1) * 2] as f64, out[(off - 1) * 2 + 1] as f64);
				let want = 0.5 * db_amp(own.fade.value() as f32 as f64);
				if (l - want).abs() > 2e-3 + 1e-3 * want || (r - want).abs() > 2e-3 + 1e-3 * want {
					s.fail(
						desc.clone(),
						format!(
							"callback {k} after the resume, chunk ending at frame {off} of it ({since} frames = {:.4} s processed since resume(tween)): the last frame is ({l:?}, {r:?}); the fade volume must be {:.3} dB [{}], giving {want:?}; the handle reports {state:?} after this callback",
							since as f64 * ODT,
							own.fade.value(),
							own.fade.describe()
						),
						None,
					);
					break 'cbs;
				}
			}
			if tstate_code(*state) != own.code() && state_fail.is_none() {
				state_fail = Some(format!("callback {k} after the resume ({since} frames processed since resume(tween)): the handle reports {state:?}, but the owner of the fade volume must be {}", STATE_NAMES[own.code() as usize]));
			}
		}
		if let Some(f) = state_fail {
			s.fail(desc.clone(), f, None);
		}
	}
}
/// (f) first the fixed corpus, then seeded histories
fn owners_state_tweens_directed(s: &mut Session) {
	s.flush();
	s.shard_size = 3;
	for sc in directed_fade_snd() {
		judge_state_snd(s, &sc);
	}
	for sc in directed_fade_trk() {
		judge_state_trk(s, &sc);
	}
	directed_fade_spatial(s);
	s.flush();
}
fn owners_state_tweens(s: &mut Session, rng: &mut Rng, n: u64) {
	s.flush();
	s.shard_size = 4;
	for k in 0..n {
		if k % 3 == 2 {
			let sc = gen_state_trk(rng);
			judge_state_trk(s, &sc);
		} else {
			let sc = gen_state_snd(rng, k);
			judge_state_snd(s, &sc);
		}
	}
}


fn owners(s: &mut Session, rng: &mut Rng, args: &Args) {
	let mul = args.budget_mul * if args.thorough { 8 } else { 1 };
	// Rng::new(seed) and Rng::new(seed + 1) are the same stream shifted by one: continue from a scrambled state
	let rng = &mut rng.fork();
	// the fixed corpus of (f) runs first on every run, whatever the seed
	owners_state_tweens_directed(s);
	owners_sounds(s, rng, 80 * mul);
	owners_tracks(s, rng, 40 * mul);
	s.flush();
	s.shard_size = 20;
	owners_renderer(s, rng, 40 * mul);
	owners_distance(s, rng, 40 * mul);
	late_parameter_witness(s);
	// added later, on a stream of their own (the scenarios above keep theirs)
	let rng2 = &mut Rng::new(args.seed ^ 0xC06_FADE).fork();
	owners_clock_speed(s, rng2, 40 * mul);
	owners_fade_in(s, rng2, 16 * mul);
	let rng3 = &mut Rng::new(args.seed ^ 0xC06_57A7E).fork();
	owners_state_tweens(s, rng3, 36 * mul);
}
