//! C06 — tweens: drive kira::Parameter<f64> / Parameter<Decibels> with set/update histories.
use crate::util::*;
use kira::clock::{ClockId, ClockTime};
use kira::info::MockInfoBuilder;
use kira::modulator::ModulatorId;
use kira::{Decibels, Easing, Mapping, Parameter, StartTime, Tween, Tweenable, Value};
use std::time::Duration;

#[derive(Clone, Debug)]
enum Tgt {
	Fixed(f64),
	Mod { id: usize, lo: f64, hi: f64, olo: f64, ohi: f64, easing: Easing },
}
#[derive(Clone, Debug)]
enum Start {
	Imm,
	Del(u64),
	Clk { clock: usize, ticks: u64, fr: f64 },
}
#[derive(Clone, Debug)]
enum Op {
	Set { target: Tgt, start: Start, dur_ns: u64, easing: Easing },
	Upd { dt: f64, clocks: Vec<(bool, bool, u64, f64)>, mods: Vec<(bool, f64)>, amount: f64 },
}

fn easing_code(e: Easing) -> (i128, i128) {
	match e {
		Easing::Linear => (0, 0),
		Easing::InPowi(p) => (1, p as i128),
		Easing::OutPowi(p) => (2, p as i128),
		Easing::InOutPowi(p) => (3, p as i128),
		Easing::InPowf(p) => (4, obs64(p)),
		Easing::OutPowf(p) => (5, obs64(p)),
		Easing::InOutPowf(p) => (6, obs64(p)),
	}
}
fn positive_power(e: Easing) -> bool {
	match e {
		Easing::Linear => true,
		Easing::InPowi(p) | Easing::OutPowi(p) | Easing::InOutPowi(p) => p > 0,
		Easing::InPowf(p) | Easing::OutPowf(p) | Easing::InOutPowf(p) => p > 0.0,
	}
}
/// libm calls made by ease(e, x)
fn oracle(e: Easing, x: f64, tab: &mut Vec<(f64, f64, f64)>) {
	let mut push = |a: f64, p: f64| {
		if !tab.iter().any(|(x0, p0, _)| x0.to_bits() == a.to_bits() && p0.to_bits() == p.to_bits()) {
			tab.push((a, p, a.powf(p)));
		}
	};
	match e {
		Easing::InPowf(p) => push(x, p),
		Easing::OutPowf(p) => push(1.0 - x, p),
		Easing::InOutPowf(p) => {
			let x2 = x * 2.0;
			if x2 < 1.0 {
				push(x2, p)
			} else {
				push(2.0 - x2, p)
			}
		}
		_ => {}
	}
}
fn tab_term(t: &[(f64, f64, f64)]) -> String {
	format!("[{}]", t.iter().map(|(a, b, c)| format!("({}, {}, {})", f64_bits_z(*a), f64_bits_z(*b), f64_bits_z(*c))).collect::<Vec<_>>().join("; "))
}

struct Ids {
	clocks: Vec<ClockId>,
	mods: Vec<ModulatorId>,
}
fn ids() -> Ids {
	let mut b = MockInfoBuilder::new();
	let clocks = vec![b.add_clock(false, 0, 0.0), b.add_clock(false, 0, 0.0)];
	let mods = vec![b.add_modulator(0.0), b.add_modulator(0.0)];
	Ids { clocks, mods }
}
/// an Info in which the first clocks / modulators marked present exist (ids are positional:
/// a fresh builder hands out the same keys in the same order, which is asserted)
fn build_info(ids: &Ids, clocks: &[(bool, bool, u64, f64)], mods: &[(bool, f64)]) -> kira::info::Info<'static> {
	let mut b = MockInfoBuilder::new();
	for (k, (present, ticking, tk, fr)) in clocks.iter().enumerate() {
		if !*present {
			break;
		}
		let id = b.add_clock(*ticking, *tk, *fr);
		assert!(id == ids.clocks[k]);
	}
	for (k, (present, v)) in mods.iter().enumerate() {
		if !*present {
			break;
		}
		let id = b.add_modulator(*v);
		assert!(id == ids.mods[k]);
	}
	b.build()
}

trait PV: Tweenable + Send + 'static {
	fn of(x: f64) -> Self;
	fn bits(self) -> i128;
	fn bits_str(x: f64) -> String;
	const CTOR: &'static str;
}
impl PV for f64 {
	fn of(x: f64) -> Self {
		x
	}
	fn bits(self) -> i128 {
		obs64(self)
	}
	fn bits_str(x: f64) -> String {
		f64_bits_z(x)
	}
	const CTOR: &'static str = "CP64";
}
impl PV for Decibels {
	fn of(x: f64) -> Self {
		Decibels(x as f32)
	}
	fn bits(self) -> i128 {
		obs32(self.0)
	}
	fn bits_str(x: f64) -> String {
		f32_bits_z(x as f32)
	}
	const CTOR: &'static str = "CP32";
}

fn tgt_value<V: PV>(ids: &Ids, t: &Tgt) -> Value<V> {
	match t {
		Tgt::Fixed(x) => Value::Fixed(V::of(*x)),
		Tgt::Mod { id, lo, hi, olo, ohi, easing } => Value::FromModulator {
			id: ids.mods[*id],
			mapping: Mapping { input_range: (*lo, *hi), output_range: (V::of(*olo), V::of(*ohi)), easing: *easing },
		},
	}
}
fn tgt_term<V: PV>(t: &Tgt) -> String {
	match t {
		Tgt::Fixed(x) => format!("(TFixed {})", V::bits_str(*x)),
		Tgt::Mod { id, lo, hi, olo, ohi, easing } => {
			let (ek, ep) = easing_code(*easing);
			format!("(TMod {} {} {} {} {} {} {})", id, f64_bits_z(*lo), f64_bits_z(*hi), V::bits_str(*olo), V::bits_str(*ohi), ek, z(ep))
		}
	}
}
fn op_term<V: PV>(o: &Op) -> String {
	match o {
		Op::Set { target, start, dur_ns, easing } => {
			let (ek, ep) = easing_code(*easing);
			let st = match start {
				Start::Imm => "SImm".to_string(),
				Start::Del(ns) => format!("(SDel {})", ns),
				Start::Clk { clock, ticks, fr } => format!("(SClk {} {} {})", clock, ticks, f64_bits_z(*fr)),
			};
			format!("RSet {} {} {} {} {}", tgt_term::<V>(target), st, dur_ns, ek, z(ep))
		}
		Op::Upd { dt, clocks, mods, amount } => format!(
			"RUpd {} [{}] [{}] {}",
			f64_bits_z(*dt),
			clocks.iter().map(|(p, t, k, f)| format!("({}, {}, {}, {})", *p as u8, *t as u8, k, f64_bits_z(*f))).collect::<Vec<_>>().join("; "),
			mods.iter().map(|(p, v)| format!("({}, {})", *p as u8, f64_bits_z(*v))).collect::<Vec<_>>().join("; "),
			f64_bits_z(*amount)
		),
	}
}

/// Runs a history on the real Parameter; returns the observable and the libm table.
fn run_history<V: PV>(ids: &Ids, init: &Tgt, default: f64, ops: &[Op]) -> (Vec<i128>, Vec<(f64, f64, f64)>, Vec<(f64, f64)>) {
	let mut obs = vec![];
	let mut tab = vec![];
	let mut values = vec![]; // (value as f64 for monitors, prev)
	let r = catch(|| {
		let mut p = Parameter::<V>::new(tgt_value::<V>(ids, init), V::of(default));
		let mut cur: Option<(Tgt, Start, u64, Easing, f64)> = None; // tween in force and its time
		let mut out = vec![];
		let mut tb: Vec<(f64, f64, f64)> = vec![];
		let mut vals = vec![];
		let mut idle: Tgt = init.clone();
		for o in ops {
			match o {
				Op::Set { target, start, dur_ns, easing } => {
					let st = match start {
						Start::Imm => StartTime::Immediate,
						Start::Del(ns) => StartTime::Delayed(Duration::from_nanos(*ns)),
						Start::Clk { clock, ticks, fr } => StartTime::ClockTime(ClockTime { clock: ids.clocks[*clock], ticks: *ticks, fraction: *fr }),
					};
					p.set(tgt_value::<V>(ids, target), Tween { start_time: st, duration: Duration::from_nanos(*dur_ns), easing: *easing });
					cur = Some((target.clone(), start.clone(), *dur_ns, *easing, 0.0));
				}
				Op::Upd { dt, clocks, mods, amount } => {
					let info = build_info(ids, clocks, mods);
					// record the libm calls the model will need (mirror of the time bookkeeping; only used to fill the oracle table)
					let mut cands: Vec<(Easing, f64)> = vec![];
					if let Some((tg, _st, dur, e, time)) = &mut cur {
						// whichever way the start test goes, offer both candidate times to the table
						let d = Duration::from_nanos(*dur).as_secs_f64();
						for t in [*time, *time + *dt] {
							cands.push((*e, t / d));
						}
						if let Tgt::Mod { id, lo, hi, easing, .. } = tg {
							if let Some((true, v)) = mods.get(*id) {
								cands.push((*easing, ((*v - *lo) / (*hi - *lo)).clamp(0.0, 1.0)));
							}
						}
					}
					if let Tgt::Mod { id, lo, hi, easing, .. } = &idle {
						if let Some((true, v)) = mods.get(*id) {
							cands.push((*easing, ((v - lo) / (hi - lo)).clamp(0.0, 1.0)));
						}
					}
					for (e, x) in cands {
						if !x.is_nan() {
							oracle(e, x, &mut tb);
						}
					}
					let before = p.value().bits();
					let fin = p.update(*dt, &info);
					if let Some((tg, st, _dur, _e, time)) = &mut cur {
						// mirror of "does this update count" just to keep `time` for the oracle table
						let counted = match st {
							Start::Imm => true,
							Start::Del(rem) => {
								if *rem == 0 {
									true
								} else {
									*rem = rem.saturating_sub(Duration::from_secs_f64(*dt).as_nanos() as u64);
									false
								}
							}
							Start::Clk { clock, ticks, fr } => match clocks.get(*clock) {
								Some((true, ticking, tk, f)) => *ticking && (*tk > *ticks || (*tk == *ticks && *f >= *fr)),
								_ => false,
							},
						};
						if counted {
							*time += *dt;
						}
						if fin {
							idle = tg.clone();
							cur = None;
						}
					}
					out.push(fin as i128);
					out.push(p.value().bits());
					out.push(p.previous_value().bits());
					out.push(p.interpolated_value(*amount).bits());
					vals.push((p.value().bits(), p.previous_value().bits(), before, fin));
				}
			}
		}
		(out, tb, vals)
	});
	match r {
		Outcome::Ok((o, t, v)) => {
			obs = o;
			tab = t;
			values = v.iter().map(|(a, b, _, _)| (*a as f64, *b as f64)).collect();
			// continuity monitor: previous_value() after an update == value() before it
			for (k, (_, prev, before, _)) in v.iter().enumerate() {
				if prev != before {
					values.push((f64::NAN, k as f64));
				}
			}
		}
		Outcome::Panic(c) => {
			obs.push(1000 + c);
		}
		Outcome::Hang => obs.push(2000),
	}
	(obs, tab, values)
}

fn gen_easing(r: &mut Rng, boundary: bool) -> Easing {
	let pi = if boundary { r.range(-2, 6) as i32 } else { r.range(1, 6) as i32 };
	let pf = if boundary { *r.pick(&[0.0, -1.0, 0.5, 2.0]) } else { *r.pick(&[0.25, 0.5, 1.0, 1.5, 2.0, 3.0]) };
	match r.below(9) {
		0 | 1 | 2 => Easing::Linear,
		3 => Easing::InPowi(pi),
		4 => Easing::OutPowi(pi),
		5 => Easing::InOutPowi(pi),
		6 => Easing::InPowf(pf),
		7 => Easing::OutPowf(pf),
		_ => Easing::InOutPowf(pf),
	}
}
/// dyadic dt: k * 2^-9 s (an integral number of nanoseconds, exactly representable)
fn gen_dt(r: &mut Rng, dyadic: bool) -> f64 {
	if dyadic {
		(r.below(64) + if r.chance(1, 10) { 0 } else { 1 }) as f64 / 512.0
	} else {
		match r.below(6) {
			0 => 1.0 / 44100.0 * (r.below(512) + 1) as f64,
			1 => 1.0 / 48000.0 * (r.below(512) + 1) as f64,
			2 => 0.0,
			_ => r.unit_f64() * 0.2,
		}
	}
}
fn gen_dur(r: &mut Rng, dyadic: bool) -> u64 {
	match r.below(8) {
		0 => 0,
		1 => r.below(1_000_000),           // shorter than most updates
		2 => 1_000_000_000 >> r.below(6),   // dyadic seconds
		3 => 10_000_000,
		_ => {
			if dyadic {
				(r.below(200) + 1) * 1_953_125 // k * 2^-9 s
			} else {
				r.below(800_000_000) + 1
			}
		}
	}
}
fn gen_value(r: &mut Rng, dyadic: bool) -> f64 {
	if dyadic {
		(r.range(-2048, 2048) as f64) / 16.0
	} else {
		match r.below(5) {
			0 => 0.0,
			1 => -60.0,
			2 => 1.0,
			_ => (r.unit_f64() - 0.5) * 200.0,
		}
	}
}
fn gen_info(r: &mut Rng) -> (Vec<(bool, bool, u64, f64)>, Vec<(bool, f64)>) {
	let nc = r.below(3) as usize;
	let nm = r.below(3) as usize;
	let clocks = (0..2).map(|k| (k < nc, r.chance(3, 4), r.below(6), if r.chance(1, 2) { 0.0 } else { r.dyadic_unit(3) })).collect();
	let mods = (0..2).map(|k| (k < nm, (r.unit_f64() - 0.25) * 2.0)).collect();
	(clocks, mods)
}

fn gen_history(r: &mut Rng, dyadic: bool, boundary: bool) -> (Tgt, f64, Vec<Op>) {
	let init = if r.chance(1, 6) {
		Tgt::Mod { id: r.below(2) as usize, lo: 0.0, hi: 1.0, olo: gen_value(r, dyadic), ohi: gen_value(r, dyadic), easing: Easing::Linear }
	} else {
		Tgt::Fixed(gen_value(r, dyadic))
	};
	let default = gen_value(r, dyadic);
	let mut ops = vec![];
	let n = r.range(3, 14);
	for k in 0..n {
		if k == 0 || r.chance(1, 5) {
			let target = if r.chance(1, 6) {
				let (lo, hi) = if r.chance(1, 4) { (1.0, 0.0) } else { (0.0, 1.0) };
				Tgt::Mod { id: r.below(2) as usize, lo, hi, olo: gen_value(r, dyadic), ohi: gen_value(r, dyadic), easing: gen_easing(r, boundary) }
			} else {
				Tgt::Fixed(gen_value(r, dyadic))
			};
			let start = match r.below(6) {
				0 => Start::Del(if dyadic { r.below(40) * 1_953_125 } else { r.below(300_000_000) }),
				1 => Start::Clk { clock: r.below(2) as usize, ticks: r.below(5), fr: if r.chance(1, 2) { 0.0 } else { r.dyadic_unit(3) } },
				_ => Start::Imm,
			};
			ops.push(Op::Set { target, start, dur_ns: gen_dur(r, dyadic), easing: gen_easing(r, boundary) });
		}
		let (clocks, mods) = gen_info(r);
		let amount = *r.pick(&[0.0, 1.0, 0.5, 0.25]);
		ops.push(Op::Upd { dt: gen_dt(r, dyadic), clocks, mods, amount });
	}
	(init, default, ops)
}

pub fn run(args: &Args) {
	let mut rng = Rng::new(args.seed ^ 0xC06);
	let n: u64 = (if args.thorough { 12_000 } else { 1_500 }) * args.budget_mul;
	let mut s = Session::new(
		"C06",
		&args.out,
		"From Coq Require Import ZArith List. Import ListNotations. Open Scope Z_scope.\nFrom KV Require Import Base.Corr C06.Run.",
		"run",
		150,
		"one case = one history of set()/update() calls on a real kira::Parameter (f64 or Decibels) with generated targets (fixed / modulator-mapped), durations (0, sub-update, dyadic, arbitrary), easings, start times (immediate / delayed / clock present, paused, absent) and update partitions; distinct = distinct history text; non-trivial = contains at least one set and two updates",
	);
	let ids = ids();

	// ---- Duration conversions (Duration::from_secs_f64 rounding is part of the delayed-start model)
	for _ in 0..n {
		let x = match rng.below(6) {
			0 => rng.below(1 << 20) as f64 * 1e-9 + 0.5e-9,
			1 => rng.unit_f64(),
			2 => 1.0 / (rng.below(192_000) + 1) as f64,
			3 => crate::c19::gen_f64(&mut rng),
			4 => rng.below(1000) as f64 / 512.0,
			_ => rng.unit_f64() * 1e-6,
		};
		let o = catch(|| {
			let d = Duration::from_secs_f64(x);
			vec![d.as_nanos() as i128, obs64(d.as_secs_f64())]
		});
		s.case("duration", format!("CDur {}", f64_bits_z(x)), &encode_outcome(&o), Some(format!("dur:{}", x.to_bits())));
	}

	// ---- histories
	for i in 0..n {
		let dyadic = i % 3 == 0;
		let boundary = i % 7 == 6;
		let (init, default, ops) = gen_history(&mut rng, dyadic, boundary);
		let use32 = i % 4 == 3;
		let (obs, tab, vals) = if use32 { run_history::<Decibels>(&ids, &init, default, &ops) } else { run_history::<f64>(&ids, &init, default, &ops) };
		let term = if use32 {
			format!("CP32 {} {} [{}] {}", tgt_term::<Decibels>(&init), Decibels::bits_str(default), ops.iter().map(|o| op_term::<Decibels>(o)).collect::<Vec<_>>().join("; "), tab_term(&tab))
		} else {
			format!("CP64 {} {} [{}] {}", tgt_term::<f64>(&init), f64::bits_str(default), ops.iter().map(|o| op_term::<f64>(o)).collect::<Vec<_>>().join("; "), tab_term(&tab))
		};
		let key = format!("{:x}", {
			let mut h = 1469598103934665603u64;
			for b in term.bytes() {
				h = (h ^ b as u64).wrapping_mul(1099511628211);
			}
			h
		});
		s.case(if use32 { "history_f32" } else { "history_f64" }, term.clone(), &obs, Some(key));
		for (a, b) in &vals {
			if a.is_nan() {
				s.fail(term.clone(), format!("update {}: previous_value() differs from the value before the update (discontinuity)", b), None);
			}
		}
	}

	// ---- property monitors on the implementation: law scenarios with a known answer
	for i in 0..n {
		let boundary = false;
		let e = gen_easing(&mut rng, boundary);
		let v0 = gen_value(&mut rng, true);
		let tg = gen_value(&mut rng, true);
		let dur_units = rng.below(60) + 1; // duration = dur_units * 2^-9 s
		let dur = Duration::from_nanos(dur_units * 1_953_125);
		// two partitions of the same dyadic total below the duration, then run past the end
		let total_units = rng.below(dur_units + 1);
		let mut run = |parts: &[u64], extra: &[u64]| -> (Vec<f64>, Vec<f64>) {
			let mut p = Parameter::<f64>::new(Value::Fixed(v0), v0);
			p.set(Value::Fixed(tg), Tween { start_time: StartTime::Immediate, duration: dur, easing: e });
			let info = MockInfoBuilder::new().build();
			let mut a = vec![];
			for u in parts {
				p.update(*u as f64 / 512.0, &info);
				a.push(p.value());
			}
			let mut b = vec![];
			for u in extra {
				p.update(*u as f64 / 512.0, &info);
				b.push(p.value());
			}
			(a, b)
		};
		let split = |r: &mut Rng, mut total: u64| -> Vec<u64> {
			let mut v = vec![];
			while total > 0 {
				let k = r.below(total) + 1;
				v.push(k);
				total -= k;
			}
			if v.is_empty() {
				v.push(0);
			}
			v
		};
		let p1 = split(&mut rng, total_units);
		let p2 = split(&mut rng, total_units);
		let rest = dur_units - total_units;
		let extra = vec![rest, 0, 3, 1];
		let (a1, b1) = run(&p1, &extra);
		let (a2, _b2) = run(&p2, &extra);
		s.eval_only("law_scenario");
		let desc = format!("Parameter {v0:?} -> {tg:?}, {e:?}, duration {dur_units}/512 s, partitions {p1:?} vs {p2:?}");
		if total_units < dur_units {
			let (x1, x2) = (*a1.last().unwrap(), *a2.last().unwrap());
			if x1.to_bits() != x2.to_bits() {
				s.fail(desc.clone(), format!("value depends on the partition of time: {x1:?} vs {x2:?}"), None);
			}
			// the law itself, evaluated independently in f64 through the public Mapping (easing) — same formula
			let x = total_units as f64 / dur_units as f64;
			let ez = Mapping { input_range: (0.0, 1.0), output_range: (0.0f64, 1.0f64), easing: e }.map(x);
			let want = v0 + (tg - v0) * ez;
			if total_units > 0 && (x1 - want).abs() > 1e-9 * (1.0 + want.abs()) {
				s.fail(desc.clone(), format!("value {x1:?} but start + (target-start)*ease(elapsed/duration) = {want:?}"), None);
			}
			for v in a1.iter().chain(a2.iter()) {
				let (lo, hi) = if v0 <= tg { (v0, tg) } else { (tg, v0) };
				if positive_power(e) && !(*v >= lo - 1e-9 && *v <= hi + 1e-9) {
					s.fail(desc.clone(), format!("value {v:?} leaves the interval between start and target"), None);
				}
			}
		}
		// from the end of the tween onward the value equals the target exactly
		for v in &b1 {
			if v.to_bits() != tg.to_bits() {
				s.fail(desc.clone(), format!("after the end of the tween the value is {v:?}, not the target {tg:?}"), None);
			}
		}
		// delayed start: holds the old value until the delay has elapsed; has started one update later
		if i % 2 == 0 {
			let delay_units = rng.below(20) + 1;
			let step = rng.below(4) + 1;
			let mut p = Parameter::<f64>::new(Value::Fixed(v0), v0);
			p.set(Value::Fixed(tg), Tween { start_time: StartTime::Delayed(Duration::from_nanos(delay_units * 1_953_125)), duration: dur, easing: Easing::Linear });
			let info = MockInfoBuilder::new().build();
			let mut t = 0u64;
			for _ in 0..(delay_units / step + 4) {
				p.update(step as f64 / 512.0, &info);
				t += step;
				let v = p.value();
				if t <= delay_units && v.to_bits() != v0.to_bits() {
					s.fail(format!("delayed tween {v0:?}->{tg:?} delay {delay_units}/512 s, step {step}/512"), format!("moved to {v:?} at t={t}/512 before the delay elapsed"), None);
				}
				if t >= delay_units + 2 * step && v0 != tg && v.to_bits() == v0.to_bits() {
					s.fail(format!("delayed tween {v0:?}->{tg:?} delay {delay_units}/512 s, step {step}/512"), format!("still at the old value at t={t}/512, more than one update after the delay elapsed"), None);
				}
			}
			s.eval_only("delayed_scenario");
		}
		// zero duration: takes effect at the next update
		if i % 5 == 0 {
			let mut p = Parameter::<f64>::new(Value::Fixed(v0), v0);
			p.set(Value::Fixed(tg), Tween { start_time: StartTime::Immediate, duration: Duration::ZERO, easing: e });
			let info = MockInfoBuilder::new().build();
			p.update(gen_dt(&mut rng, false), &info);
			if p.value().to_bits() != tg.to_bits() {
				s.fail(format!("zero-duration tween {v0:?}->{tg:?} {e:?}"), format!("value {:?} after the next update", p.value()), None);
			}
			s.eval_only("zero_duration_scenario");
		}
	}
	s.finish();
}
