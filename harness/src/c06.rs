//! C06 — tweens: drive kira::Parameter<f64> / Parameter<Decibels> with set/update histories.
use crate::util::*;
use kira::clock::{ClockId, ClockTime};
use kira::info::MockInfoBuilder;
use kira::modulator::ModulatorId;
use kira::{Decibels, Easing, Mapping, Parameter, StartTime, Tween, Tweenable, Value};
use std::time::Duration;

#[derive(Clone, Debug)]
enum Tgt {
	Fixed(f64),
	Mod { id: usize, lo: f64, hi: f64, olo: f64, ohi: f64, easing: Easing },
}
#[derive(Clone, Debug)]
enum Start {
	Imm,
	Del(u64),
	Clk { clock: usize, ticks: u64, fr: f64 },
}
#[derive(Clone, Debug)]
enum Op {
	Set { target: Tgt, start: Start, dur_ns: u64, easing: Easing },
	Upd { dt: f64, clocks: Vec<(bool, bool, u64, f64)>, mods: Vec<(bool, f64)>, amount: f64 },
}

fn easing_code(e: Easing) -> (i128, i128) {
	match e {
		Easing::Linear => (0, 0),
		Easing::InPowi(p) => (1, p as i128),
		Easing::OutPowi(p) => (2, p as i128),
		Easing::InOutPowi(p) => (3, p as i128),
		Easing::InPowf(p) => (4, obs64(p)),
		Easing::OutPowf(p) => (5, obs64(p)),
		Easing::InOutPowf(p) => (6, obs64(p)),
	}
}
fn positive_power(e: Easing) -> bool {
	match e {
		Easing::Linear => true,
		Easing::InPowi(p) | Easing::OutPowi(p) | Easing::InOutPowi(p) => p > 0,
		Easing::InPowf(p) | Easing::OutPowf(p) | Easing::InOutPowf(p) => p > 0.0,
	}
}
/// libm calls made by ease(e, x)
fn oracle(e: Easing, x: f64, tab: &mut Vec<(f64, f64, f64)>) {
	let mut push = |a: f64, p: f64| {
		if !tab.iter().any(|(x0, p0, _)| x0.to_bits() == a.to_bits() && p0.to_bits() == p.to_bits()) {
			tab.push((a, p, a.powf(p)));
		}
	};
	match e {
		Easing::InPowf(p) => push(x, p),
		Easing::OutPowf(p) => push(1.0 - x, p),
		Easing::InOutPowf(p) => {
			let x2 = x * 2.0;
			if x2 < 1.0 {
				push(x2, p)
			} else {
				push(2.0 - x2, p)
			}
		}
		_ => {}
	}
}
fn tab_term(t: &[(f64, f64, f64)]) -> String {
	format!("[{}]", t.iter().map(|(a, b, c)| format!("({}, {}, {})", f64_bits_z(*a), f64_bits_z(*b), f64_bits_z(*c))).collect::<Vec<_>>().join("; "))
}

struct Ids {
	clocks: Vec<ClockId>,
	mods: Vec<ModulatorId>,
}
fn ids() -> Ids {
	let mut b = MockInfoBuilder::new();
	let clocks = vec![b.add_clock(false, 0, 0.0), b.add_clock(false, 0, 0.0)];
	let mods = vec![b.add_modulator(0.0), b.add_modulator(0.0)];
	Ids { clocks, mods }
}
/// an Info in which the first clocks / modulators marked present exist (ids are positional:
/// a fresh builder hands out the same keys in the same order, which is asserted)
fn build_info(ids: &Ids, clocks: &[(bool, bool, u64, f64)], mods: &[(bool, f64)]) -> kira::info::Info<'static> {
	let mut b = MockInfoBuilder::new();
	for (k, (present, ticking, tk, fr)) in clocks.iter().enumerate() {
		if !*present {
			break;
		}
		let id = b.add_clock(*ticking, *tk, *fr);
		assert!(id == ids.clocks[k]);
	}
	for (k, (present, v)) in mods.iter().enumerate() {
		if !*present {
			break;
		}
		let id = b.add_modulator(*v);
		assert!(id == ids.mods[k]);
	}
	b.build()
}

trait PV: Tweenable + Send + 'static {
	fn of(x: f64) -> Self;
	fn bits(self) -> i128;
	fn bits_str(x: f64) -> String;
	const CTOR: &'static str;
}
impl PV for f64 {
	fn of(x: f64) -> Self {
		x
	}
	fn bits(self) -> i128 {
		obs64(self)
	}
	fn bits_str(x: f64) -> String {
		f64_bits_z(x)
	}
	const CTOR: &'static str = "CP64";
}
impl PV for Decibels {
	fn of(x: f64) -> Self {
		Decibels(x as f32)
	}
	fn bits(self) -> i128 {
		obs32(self.0)
	}
	fn bits_str(x: f64) -> String {
		f32_bits_z(x as f32)
	}
	const CTOR: &'static str = "CP32";
}

fn tgt_value<V: PV>(ids: &Ids, t: &Tgt) -> Value<V> {
	match t {
		Tgt::Fixed(x) => Value::Fixed(V::of(*x)),
		Tgt::Mod { id, lo, hi, olo, ohi, easing } => Value::FromModulator {
			id: ids.mods[*id],
			mapping: Mapping { input_range: (*lo, *hi), output_range: (V::of(*olo), V::of(*ohi)), easing: *easing },
		},
	}
}
fn tgt_term<V: PV>(t: &Tgt) -> String {
	match t {
		Tgt::Fixed(x) => format!("(TFixed {})", V::bits_str(*x)),
		Tgt::Mod { id, lo, hi, olo, ohi, easing } => {
			let (ek, ep) = easing_code(*easing);
			format!("(TMod {} {} {} {} {} {} {})", id, f64_bits_z(*lo), f64_bits_z(*hi), V::bits_str(*olo), V::bits_str(*ohi), ek, z(ep))
		}
	}
}
fn op_term<V: PV>(o: &Op) -> String {
	match o {
		Op::Set { target, start, dur_ns, easing } => {
			let (ek, ep) = easing_code(*easing);
			let st = match start {
				Start::Imm => "SImm".to_string(),
				Start::Del(ns) => format!("(SDel {})", ns),
				Start::Clk { clock, ticks, fr } => format!("(SClk {} {} {})", clock, ticks, f64_bits_z(*fr)),
			};
			format!("RSet {} {} {} {} {}", tgt_term::<V>(target), st, dur_ns, ek, z(ep))
		}
		Op::Upd { dt, clocks, mods, amount } => format!(
			"RUpd {} [{}] [{}] {}",
			f64_bits_z(*dt),
			clocks.iter().map(|(p, t, k, f)| format!("({}, {}, {}, {})", *p as u8, *t as u8, k, f64_bits_z(*f))).collect::<Vec<_>>().join("; "),
			mods.iter().map(|(p, v)| format!("({}, {})", *p as u8, f64_bits_z(*v))).collect::<Vec<_>>().join("; "),
			f64_bits_z(*amount)
		),
	}
}

/// Runs a history on the real Parameter; returns the observable and the libm table.
fn run_history<V: PV>(ids: &Ids, init: &Tgt, default: f64, ops: &[Op]) -> (Vec<i128>, Vec<(f64, f64, f64)>, Vec<(f64, f64)>) {
	let mut obs = vec![];
	let mut tab = vec![];
	let mut values = vec![]; // (value as f64 for monitors, prev)
	let r = catch(|| {
		let mut p = Parameter::<V>::new(tgt_value::<V>(ids, init), V::of(default));
		let mut cur: Option<(Tgt, Start, u64, Easing, f64)> = None; // tween in force and its time
		let mut out = vec![];
		let mut tb: Vec<(f64, f64, f64)> = vec![];
		let mut vals = vec![];
		let mut idle: Tgt = init.clone();
		for o in ops {
			match o {
				Op::Set { target, start, dur_ns, easing } => {
					let st = match start {
						Start::Imm => StartTime::Immediate,
						Start::Del(ns) => StartTime::Delayed(Duration::from_nanos(*ns)),
						Start::Clk { clock, ticks, fr } => StartTime::ClockTime(ClockTime { clock: ids.clocks[*clock], ticks: *ticks, fraction: *fr }),
					};
					p.set(tgt_value::<V>(ids, target), Tween { start_time: st, duration: Duration::from_nanos(*dur_ns), easing: *easing });
					cur = Some((target.clone(), start.clone(), *dur_ns, *easing, 0.0));
				}
				Op::Upd { dt, clocks, mods, amount } => {
					let info = build_info(ids, clocks, mods);
					// record the libm calls the model will need (mirror of the time bookkeeping; only used to fill the oracle table)
					let mut cands: Vec<(Easing, f64)> = vec![];
					if let Some((tg, _st, dur, e, time)) = &mut cur {
						// whichever way the start test goes, offer both candidate times to the table
						let d = Duration::from_nanos(*dur).as_secs_f64();
						for t in [*time, *time + *dt] {
							cands.push((*e, t / d));
						}
						if let Tgt::Mod { id, lo, hi, easing, .. } = tg {
							if let Some((true, v)) = mods.get(*id) {
								cands.push((*easing, ((*v - *lo) / (*hi - *lo)).clamp(0.0, 1.0)));
							}
						}
					}
					if let Tgt::Mod { id, lo, hi, easing, .. } = &idle {
						if let Some((true, v)) = mods.get(*id) {
							cands.push((*easing, ((v - lo) / (hi - lo)).clamp(0.0, 1.0)));
						}
					}
					for (e, x) in cands {
						if !x.is_nan() {
							oracle(e, x, &mut tb);
						}
					}
					let before = p.value().bits();
					let fin = p.update(*dt, &info);
					if let Some((tg, st, _dur, _e, time)) = &mut cur {
						// mirror of "does this update count" just to keep `time` for the oracle table
						let counted = match st {
							Start::Imm => true,
							Start::Del(rem) => {
								if *rem == 0 {
									true
								} else {
									*rem = rem.saturating_sub(Duration::from_secs_f64(*dt).as_nanos() as u64);
									false
								}
							}
							Start::Clk { clock, ticks, fr } => match clocks.get(*clock) {
								Some((true, ticking, tk, f)) => *ticking && (*tk > *ticks || (*tk == *ticks && *f >= *fr)),
								_ => false,
							},
						};
						if counted {
							*time += *dt;
						}
						if fin {
							idle = tg.clone();
							cur = None;
						}
					}
					out.push(fin as i128);
					out.push(p.value().bits());
					out.push(p.previous_value().bits());
					out.push(p.interpolated_value(*amount).bits());
					vals.push((p.value().bits(), p.previous_value().bits(), before, fin));
				}
			}
		}
		(out, tb, vals)
	});
	match r {
		Outcome::Ok((o, t, v)) => {
			obs = o;
			tab = t;
			values = v.iter().map(|(a, b, _, _)| (*a as f64, *b as f64)).collect();
			// continuity monitor: previous_value() after an update == value() before it
			for (k, (_, prev, before, _)) in v.iter().enumerate() {
				if prev != before {
					values.push((f64::NAN, k as f64));
				}
			}
		}
		Outcome::Panic(c) => {
			obs.push(1000 + c);
		}
		Outcome::Hang => obs.push(2000),
	}
	(obs, tab, values)
}

fn gen_easing(r: &mut Rng, boundary: bool) -> Easing {
	let pi = if boundary { r.range(-2, 6) as i32 } else { r.range(1, 6) as i32 };
	let pf = if boundary { *r.pick(&[0.0, -1.0, 0.5, 2.0]) } else { *r.pick(&[0.25, 0.5, 1.0, 1.5, 2.0, 3.0]) };
	match r.below(9) {
		0 | 1 | 2 => Easing::Linear,
		3 => Easing::InPowi(pi),
		4 => Easing::OutPowi(pi),
		5 => Easing::InOutPowi(pi),
		6 => Easing::InPowf(pf),
		7 => Easing::OutPowf(pf),
		_ => Easing::InOutPowf(pf),
	}
}
/// dyadic dt: k * 2^-9 s (an integral number of nanoseconds, exactly representable)
fn gen_dt(r: &mut Rng, dyadic: bool) -> f64 {
	if dyadic {
		(r.below(64) + if r.chance(1, 10) { 0 } else { 1 }) as f64 / 512.0
	} else {
		match r.below(6) {
			0 => 1.0 / 44100.0 * (r.below(512) + 1) as f64,
			1 => 1.0 / 48000.0 * (r.below(512) + 1) as f64,
			2 => 0.0,
			_ => r.unit_f64() * 0.2,
		}
	}
}
fn gen_dur(r: &mut Rng, dyadic: bool) -> u64 {
	match r.below(8) {
		0 => 0,
		1 => r.below(1_000_000),           // shorter than most updates
		2 => 1_000_000_000 >> r.below(6),   // dyadic seconds
		3 => 10_000_000,
		_ => {
			if dyadic {
				(r.below(200) + 1) * 1_953_125 // k * 2^-9 s
			} else {
				r.below(800_000_000) + 1
			}
		}
	}
}
fn gen_value(r: &mut Rng, dyadic: bool) -> f64 {
	if dyadic {
		(r.range(-2048, 2048) as f64) / 16.0
	} else {
		match r.below(5) {
			0 => 0.0,
			1 => -60.0,
			2 => 1.0,
			_ => (r.unit_f64() - 0.5) * 200.0,
		}
	}
}
fn gen_info(r: &mut Rng) -> (Vec<(bool, bool, u64, f64)>, Vec<(bool, f64)>) {
	let nc = r.below(3) as usize;
	let nm = r.below(3) as usize;
	let clocks = (0..2).map(|k| (k < nc, r.chance(3, 4), r.below(6), if r.chance(1, 2) { 0.0 } else { r.dyadic_unit(3) })).collect();
	let mods = (0..2).map(|k| (k < nm, (r.unit_f64() - 0.25) * 2.0)).collect();
	(clocks, mods)
}

fn gen_history(r: &mut Rng, dyadic: bool, boundary: bool) -> (Tgt, f64, Vec<Op>) {
	let init = if r.chance(1, 6) {
		Tgt::Mod { id: r.below(2) as usize, lo: 0.0, hi: 1.0, olo: gen_value(r, dyadic), ohi: gen_value(r, dyadic), easing: Easing::Linear }
	} else {
		Tgt::Fixed(gen_value(r, dyadic))
	};
	let default = gen_value(r, dyadic);
	let mut ops = vec![];
	let n = r.range(3, 14);
	for k in 0..n {
		if k == 0 || r.chance(1, 5) {
			let target = if r.chance(1, 6) {
				let (lo, hi) = if r.chance(1, 4) { (1.0, 0.0) } else { (0.0, 1.0) };
				Tgt::Mod { id: r.below(2) as usize, lo, hi, olo: gen_value(r, dyadic), ohi: gen_value(r, dyadic), easing: gen_easing(r, boundary) }
			} else {
				Tgt::Fixed(gen_value(r, dyadic))
			};
			let start = match r.below(6) {
				0 => Start::Del(if dyadic { r.below(40) * 1_953_125 } else { r.below(300_000_000) }),
				1 => Start::Clk { clock: r.below(2) as usize, ticks: r.below(5), fr: if r.chance(1, 2) { 0.0 } else { r.dyadic_unit(3) } },
				_ => Start::Imm,
			};
			ops.push(Op::Set { target, start, dur_ns: gen_dur(r, dyadic), easing: gen_easing(r, boundary) });
		}
		let (clocks, mods) = gen_info(r);
		let amount = *r.pick(&[0.0, 1.0, 0.5, 0.25]);
		ops.push(Op::Upd { dt: gen_dt(r, dyadic), clocks, mods, amount });
	}
	(init, default, ops)
}

pub fn run(args: &Args) {
	let mut rng = Rng::new(args.seed ^ 0xC06);
	let n: u64 = (if args.thorough { 12_000 } else { 1_500 }) * args.budget_mul;
	let mut s = Session::new(
		"C06",
		&args.out,
		"From Coq Require Import ZArith List. Import ListNotations. Open Scope Z_scope.\nFrom KV Require Import Base.Corr C06.Run C06.RunOwners.\nFrom KV Require C17.Run.",
		"arun",
		150,
		"one case = one history of set()/update() calls on a real kira::Parameter (f64 or Decibels) with generated targets (fixed / modulator-mapped), durations (0, sub-update, dyadic, arbitrary), easings, start times (immediate / delayed / clock present, paused, absent) and update partitions; distinct = distinct history text; non-trivial = contains at least one set and two updates",
	);
	let ids = ids();

	// ---- Duration conversions (Duration::from_secs_f64 rounding is part of the delayed-start model)
	for _ in 0..n {
		let x = match rng.below(6) {
			0 => rng.below(1 << 20) as f64 * 1e-9 + 0.5e-9,
			1 => rng.unit_f64(),
			2 => 1.0 / (rng.below(192_000) + 1) as f64,
			3 => crate::c19::gen_f64(&mut rng),
			4 => rng.below(1000) as f64 / 512.0,
			_ => rng.unit_f64() * 1e-6,
		};
		let o = catch(|| {
			let d = Duration::from_secs_f64(x);
			vec![d.as_nanos() as i128, obs64(d.as_secs_f64())]
		});
		s.case("duration", format!("ABase (CDur {})", f64_bits_z(x)), &encode_outcome(&o), Some(format!("dur:{}", x.to_bits())));
	}

	// ---- histories
	for i in 0..n {
		let dyadic = i % 3 == 0;
		let boundary = i % 7 == 6;
		let (init, default, ops) = gen_history(&mut rng, dyadic, boundary);
		let use32 = i % 4 == 3;
		let (obs, tab, vals) = if use32 { run_history::<Decibels>(&ids, &init, default, &ops) } else { run_history::<f64>(&ids, &init, default, &ops) };
		let term = if use32 {
			format!("ABase (CP32 {} {} [{}] {})", tgt_term::<Decibels>(&init), Decibels::bits_str(default), ops.iter().map(|o| op_term::<Decibels>(o)).collect::<Vec<_>>().join("; "), tab_term(&tab))
		} else {
			format!("ABase (CP64 {} {} [{}] {})", tgt_term::<f64>(&init), f64::bits_str(default), ops.iter().map(|o| op_term::<f64>(o)).collect::<Vec<_>>().join("; "), tab_term(&tab))
		};
		let key = format!("{:x}", {
			let mut h = 1469598103934665603u64;
			for b in term.bytes() {
				h = (h ^ b as u64).wrapping_mul(1099511628211);
			}
			h
		});
		s.case(if use32 { "history_f32" } else { "history_f64" }, term.clone(), &obs, Some(key));
		for (a, b) in &vals {
			if a.is_nan() {
				s.fail(term.clone(), format!("update {}: previous_value() differs from the value before the update (discontinuity)", b), None);
			}
		}
	}

	// ---- property monitors on the implementation: law scenarios with a known answer
	for i in 0..n {
		let boundary = false;
		let e = gen_easing(&mut rng, boundary);
		let v0 = gen_value(&mut rng, true);
		let tg = gen_value(&mut rng, true);
		let dur_units = rng.below(60) + 1; // duration = dur_units * 2^-9 s
		let dur = Duration::from_nanos(dur_units * 1_953_125);
		// two partitions of the same dyadic total below the duration, then run past the end
		let total_units = rng.below(dur_units + 1);
		let mut run = |parts: &[u64], extra: &[u64]| -> (Vec<f64>, Vec<f64>) {
			let mut p = Parameter::<f64>::new(Value::Fixed(v0), v0);
			p.set(Value::Fixed(tg), Tween { start_time: StartTime::Immediate, duration: dur, easing: e });
			let info = MockInfoBuilder::new().build();
			let mut a = vec![];
			for u in parts {
				p.update(*u as f64 / 512.0, &info);
				a.push(p.value());
			}
			let mut b = vec![];
			for u in extra {
				p.update(*u as f64 / 512.0, &info);
				b.push(p.value());
			}
			(a, b)
		};
		let split = |r: &mut Rng, mut total: u64| -> Vec<u64> {
			let mut v = vec![];
			while total > 0 {
				let k = r.below(total) + 1;
				v.push(k);
				total -= k;
			}
			if v.is_empty() {
				v.push(0);
			}
			v
		};
		let p1 = split(&mut rng, total_units);
		let p2 = split(&mut rng, total_units);
		let rest = dur_units - total_units;
		let extra = vec![rest, 0, 3, 1];
		let (a1, b1) = run(&p1, &extra);
		let (a2, _b2) = run(&p2, &extra);
		s.eval_only("law_scenario");
		let desc = format!("Parameter {v0:?} -> {tg:?}, {e:?}, duration {dur_units}/512 s, partitions {p1:?} vs {p2:?}");
		if total_units < dur_units {
			let (x1, x2) = (*a1.last().unwrap(), *a2.last().unwrap());
			if x1.to_bits() != x2.to_bits() {
				s.fail(desc.clone(), format!("value depends on the partition of time: {x1:?} vs {x2:?}"), None);
			}
			// the law itself, evaluated independently in f64 through the public Mapping (easing) — same formula
			let x = total_units as f64 / dur_units as f64;
			let ez = Mapping { input_range: (0.0, 1.0), output_range: (0.0f64, 1.0f64), easing: e }.map(x);
			let want = v0 + (tg - v0) * ez;
			if total_units > 0 && (x1 - want).abs() > 1e-9 * (1.0 + want.abs()) {
				s.fail(desc.clone(), format!("value {x1:?} but start + (target-start)*ease(elapsed/duration) = {want:?}"), None);
			}
			for v in a1.iter().chain(a2.iter()) {
				let (lo, hi) = if v0 <= tg { (v0, tg) } else { (tg, v0) };
				if positive_power(e) && !(*v >= lo - 1e-9 && *v <= hi + 1e-9) {
					s.fail(desc.clone(), format!("value {v:?} leaves the interval between start and target"), None);
				}
			}
		}
		// from the end of the tween onward the value equals the target exactly
		for v in &b1 {
			if v.to_bits() != tg.to_bits() {
				s.fail(desc.clone(), format!("after the end of the tween the value is {v:?}, not the target {tg:?}"), None);
			}
		}
		// delayed start: holds the old value until the delay has elapsed; has started one update later
		if i % 2 == 0 {
			let delay_units = rng.below(20) + 1;
			let step = rng.below(4) + 1;
			let mut p = Parameter::<f64>::new(Value::Fixed(v0), v0);
			p.set(Value::Fixed(tg), Tween { start_time: StartTime::Delayed(Duration::from_nanos(delay_units * 1_953_125)), duration: dur, easing: Easing::Linear });
			let info = MockInfoBuilder::new().build();
			let mut t = 0u64;
			for _ in 0..(delay_units / step + 4) {
				p.update(step as f64 / 512.0, &info);
				t += step;
				let v = p.value();
				if t <= delay_units && v.to_bits() != v0.to_bits() {
					s.fail(format!("delayed tween {v0:?}->{tg:?} delay {delay_units}/512 s, step {step}/512"), format!("moved to {v:?} at t={t}/512 before the delay elapsed"), None);
				}
				if t >= delay_units + 2 * step && v0 != tg && v.to_bits() == v0.to_bits() {
					s.fail(format!("delayed tween {v0:?}->{tg:?} delay {delay_units}/512 s, step {step}/512"), format!("still at the old value at t={t}/512, more than one update after the delay elapsed"), None);
				}
			}
			s.eval_only("delayed_scenario");
		}
		// zero duration: takes effect at the next update
		if i % 5 == 0 {
			let mut p = Parameter::<f64>::new(Value::Fixed(v0), v0);
			p.set(Value::Fixed(tg), Tween { start_time: StartTime::Immediate, duration: Duration::ZERO, easing: e });
			let info = MockInfoBuilder::new().build();
			p.update(gen_dt(&mut rng, false), &info);
			if p.value().to_bits() != tg.to_bits() {
				s.fail(format!("zero-duration tween {v0:?}->{tg:?} {e:?}"), format!("value {:?} after the next update", p.value()), None);
			}
			s.eval_only("zero_duration_scenario");
		}
	}
	owners(&mut s, &mut rng, args);
	s.finish();
}

// =====================================================================================================
// Parameters THROUGH THEIR OWNERS on a real AudioManager (custom backend): sounds, tracks, modulators,
// clocks, listeners.  Model side: coq/theories/C06/{ModelOwners,OwnersSound,RunOwners}.v
// =====================================================================================================
use crate::backend::{manager, Mgr};
use kira::clock::{ClockHandle, ClockSpeed};
use kira::effect::{Effect, EffectBuilder};
use kira::info::Info;
use kira::modulator::lfo::{LfoBuilder, LfoHandle, Waveform};
use kira::modulator::tweener::{TweenerBuilder, TweenerHandle};
use kira::sound::static_sound::{StaticSoundData, StaticSoundHandle, StaticSoundSettings};
use kira::sound::streaming::{Decoder, StreamingSoundData, StreamingSoundHandle, StreamingSoundSettings};
use kira::sound::PlaybackState;
use kira::track::{MainTrackBuilder, SendTrackBuilder, SpatialTrackBuilder, TrackBuilder, TrackPlaybackState};
use kira::{Capacities, Frame, Panning, PlaybackRate};
use std::sync::atomic::{AtomicU64, Ordering};
use std::sync::{Arc, Mutex};

const OSR: u32 = 1024; // dt = 2^-10 s, exactly representable
const ODT: f64 = 1.0 / OSR as f64;
const FRAME_NS: f64 = 976_562.5;

#[derive(Clone, Debug)]
struct OTw {
	start: Start,
	dur_ns: u64,
	easing: Easing,
}
fn tw0() -> OTw {
	OTw { start: Start::Imm, dur_ns: 0, easing: Easing::Linear }
}
fn ostart_term(s: &Start) -> String {
	match s {
		Start::Imm => "OImm".into(),
		Start::Del(ns) => format!("(ODel {})", ns),
		Start::Clk { clock, ticks, fr } => format!("(OClk {} {} {})", clock, ticks, f64_bits_z(*fr)),
	}
}
fn otw_term(t: &OTw) -> String {
	let (ek, ep) = easing_code(t.easing);
	format!("({}, {}, {}, {})", ostart_term(&t.start), t.dur_ns, ek, z(ep))
}
fn mk_ostart(clocks: &[kira::clock::ClockId], s: &Start) -> StartTime {
	match s {
		Start::Imm => StartTime::Immediate,
		Start::Del(ns) => StartTime::Delayed(Duration::from_nanos(*ns)),
		Start::Clk { clock, ticks, fr } => StartTime::ClockTime(ClockTime { clock: clocks[*clock], ticks: *ticks, fraction: *fr }),
	}
}
fn mk_otween(clocks: &[kira::clock::ClockId], t: &OTw) -> Tween {
	Tween { start_time: mk_ostart(clocks, &t.start), duration: Duration::from_nanos(t.dur_ns), easing: t.easing }
}
type ClockSnap = Vec<(bool, bool, u64, f64)>;
fn clocks_term(c: &ClockSnap) -> String {
	format!("[{}]", c.iter().map(|(p, t, k, f)| format!("({}, {}, {}, {})", *p as u8, *t as u8, k, f64_bits_z(*f))).collect::<Vec<_>>().join("; "))
}
fn chunks_term(ch: &[(usize, ClockSnap)]) -> String {
	format!("[{}]", ch.iter().map(|(l, c)| format!("({}, {})", l, clocks_term(c))).collect::<Vec<_>>().join("; "))
}
fn tab32_term(tab: &[(u32, u32, u32)]) -> String {
	let mut t = tab.to_vec();
	t.sort();
	t.dedup();
	format!("[{}]", t.iter().map(|(a, b, c)| format!("({}, {}, {})", a, b, c)).collect::<Vec<_>>().join("; "))
}
fn hash_key(term: &str) -> String {
	let mut h = 1469598103934665603u64;
	for b in term.bytes() {
		h = (h ^ b as u64).wrapping_mul(1099511628211);
	}
	format!("{:x}", h)
}

/// ease(x) through the public `Mapping` (input and output range 0..1)
fn ease_pub(e: Easing, x: f64) -> f64 {
	Mapping { input_range: (0.0, 1.0), output_range: (0.0f64, 1.0f64), easing: e }.map(x)
}

/// The property, evaluated independently of who owns the parameter: the value is the tween law of the time
/// PROCESSED since the command (one step of `dt * len` per processed chunk, whatever the owner's state is).
#[derive(Clone, Debug)]
struct Law {
	cur: f64,
	tw: Option<LawTw>,
	/// processed time since the command in force was taken (for messages)
	since_cmd: f64,
	target_exact: Option<f64>,
}
#[derive(Clone, Debug)]
struct LawTw {
	v0: f64,
	target: f64,
	start: Start,
	dur: f64,
	dur_ns: u64,
	easing: Easing,
	elapsed: f64,
}
impl Law {
	fn new(v: f64) -> Law {
		Law { cur: v, tw: None, since_cmd: 0.0, target_exact: None }
	}
	fn value(&self) -> f64 {
		match &self.tw {
			None => self.cur,
			Some(t) => {
				if t.dur_ns == 0 || t.elapsed == 0.0 {
					t.v0
				} else {
					t.v0 + (t.target - t.v0) * ease_pub(t.easing, t.elapsed / t.dur)
				}
			}
		}
	}
	fn set(&mut self, target: f64, tw: &OTw) {
		let v0 = self.value();
		self.cur = v0;
		self.since_cmd = 0.0;
		self.target_exact = None;
		self.tw = Some(LawTw { v0, target, start: tw.start.clone(), dur: Duration::from_nanos(tw.dur_ns).as_secs_f64(), dur_ns: tw.dur_ns, easing: tw.easing, elapsed: 0.0 });
	}
	/// one processed chunk of `dtc` seconds, with the clocks as they were during it
	fn advance(&mut self, dtc: f64, clocks: &ClockSnap) {
		self.since_cmd += dtc;
		let mut done = false;
		if let Some(t) = &mut self.tw {
			let counts = match &mut t.start {
				Start::Imm => true,
				Start::Del(rem) => {
					if *rem == 0 {
						true
					} else {
						*rem = rem.saturating_sub(Duration::from_secs_f64(dtc).as_nanos() as u64);
						false
					}
				}
				Start::Clk { clock, ticks, fr } => match clocks.get(*clock) {
					Some((true, ticking, tk, f)) => *ticking && (*tk > *ticks || (*tk == *ticks && *f >= *fr)),
					_ => false,
				},
			};
			if counts {
				t.elapsed += dtc;
				if t.elapsed >= t.dur {
					done = true;
				}
			}
		}
		if done {
			let t = self.tw.take().unwrap();
			self.cur = t.target;
			self.target_exact = Some(t.target);
		}
	}
	fn describe(&self) -> String {
		match &self.tw {
			None => format!("at rest on {:?} ({} s processed since the command)", self.cur, self.since_cmd),
			Some(t) => format!("{:?} -> {:?} over {} s ({:?}, start {:?}), {} s of it elapsed, {} s processed since the command", t.v0, t.target, t.dur, t.easing, t.start, t.elapsed, self.since_cmd),
		}
	}
}

fn db_amp(db: f64) -> f64 {
	if db == 0.0 {
		1.0
	} else if db <= -60.0 {
		0.0
	} else {
		10f64.powf(db / 20.0)
	}
}

// ---- a probe effect that logs every processed chunk: its length and the clocks as the mixer saw them
type ChunkLog = Arc<Mutex<Vec<(usize, ClockSnap)>>>;
type ClockIds = Arc<Mutex<Vec<kira::clock::ClockId>>>;
struct ChunkProbe {
	clocks: ClockIds,
	log: ChunkLog,
}
impl Effect for ChunkProbe {
	fn process(&mut self, input: &mut [Frame], _dt: f64, info: &Info) {
		let snap = self
			.clocks
			.lock()
			.unwrap()
			.iter()
			.map(|id| match info.clock_info(*id) {
				Some(c) => (true, c.ticking, c.time.ticks, c.time.fraction),
				None => (false, false, 0, 0.0),
			})
			.collect();
		self.log.lock().unwrap().push((input.len(), snap));
	}
}
struct ChunkProbeBuilder(ClockIds, ChunkLog);
impl EffectBuilder for ChunkProbeBuilder {
	type Handle = ();
	fn build(self) -> (Box<dyn Effect>, ()) {
		(Box::new(ChunkProbe { clocks: self.0, log: self.1 }), ())
	}
}

// ---- an endless constant-amplitude stream
struct DcDecoder {
	amp: f32,
	calls: Arc<AtomicU64>,
}
const DC_PACKET: usize = 4096;
impl Decoder for DcDecoder {
	type Error = i128;
	fn sample_rate(&self) -> u32 {
		OSR
	}
	fn num_frames(&self) -> usize {
		1 << 24
	}
	fn decode(&mut self) -> Result<Vec<Frame>, i128> {
		self.calls.fetch_add(1, Ordering::SeqCst);
		Ok(vec![Frame::from_mono(self.amp); DC_PACKET])
	}
	fn seek(&mut self, _index: usize) -> Result<usize, i128> {
		Ok(0)
	}
}

fn state_code(s: PlaybackState) -> i128 {
	match s {
		PlaybackState::Playing => 0,
		PlaybackState::Pausing => 1,
		PlaybackState::Paused => 2,
		PlaybackState::WaitingToResume => 3,
		PlaybackState::Resuming => 4,
		PlaybackState::Stopping => 5,
		PlaybackState::Stopped => 6,
	}
}

#[derive(Clone, Debug)]
enum SCmd {
	Vol(f32, OTw),
	Rate(f64, OTw),
	Pan(f32, OTw),
	Pause(OTw),
	Resume(Start, OTw),
}
#[derive(Clone, Debug)]
struct SCb {
	cmds: Vec<SCmd>,
	frames: usize,
	/// repeat this callback (without its commands) until something is heard (the sound came back by itself)
	until_audible: bool,
}
#[derive(Clone, Debug)]
struct SndScen {
	streaming: bool,
	ibs: usize,
	src: f32,
	vol0: f32,
	rate0: f64,
	pan0: f32,
	st: Start,
	mode: &'static str,
	cbs: Vec<SCb>,
}
enum SndH {
	St(StaticSoundHandle),
	Sm(StreamingSoundHandle<i128>),
}
impl SndH {
	fn apply(&mut self, clocks: &[kira::clock::ClockId], c: &SCmd) {
		match (self, c) {
			(SndH::St(h), SCmd::Vol(v, t)) => h.set_volume(Decibels(*v), mk_otween(clocks, t)),
			(SndH::Sm(h), SCmd::Vol(v, t)) => h.set_volume(Decibels(*v), mk_otween(clocks, t)),
			(SndH::St(h), SCmd::Rate(v, t)) => h.set_playback_rate(PlaybackRate(*v), mk_otween(clocks, t)),
			(SndH::Sm(h), SCmd::Rate(v, t)) => h.set_playback_rate(PlaybackRate(*v), mk_otween(clocks, t)),
			(SndH::St(h), SCmd::Pan(v, t)) => h.set_panning(Panning(*v), mk_otween(clocks, t)),
			(SndH::Sm(h), SCmd::Pan(v, t)) => h.set_panning(Panning(*v), mk_otween(clocks, t)),
			(SndH::St(h), SCmd::Pause(t)) => h.pause(mk_otween(clocks, t)),
			(SndH::Sm(h), SCmd::Pause(t)) => h.pause(mk_otween(clocks, t)),
			(SndH::St(h), SCmd::Resume(st, t)) => h.resume_at(mk_ostart(clocks, st), mk_otween(clocks, t)),
			(SndH::Sm(h), SCmd::Resume(st, t)) => h.resume_at(mk_ostart(clocks, st), mk_otween(clocks, t)),
		}
	}
	fn state(&self) -> PlaybackState {
		match self {
			SndH::St(h) => h.state(),
			SndH::Sm(h) => h.state(),
		}
	}
	fn position(&self) -> f64 {
		match self {
			SndH::St(h) => h.position(),
			SndH::Sm(h) => h.position(),
		}
	}
}
fn scmd_term(c: &SCmd) -> String {
	match c {
		SCmd::Vol(v, t) => format!("CVol {} {}", f32_bits_z(*v), otw_term(t)),
		SCmd::Rate(v, t) => format!("CRate {} {}", f64_bits_z(*v), otw_term(t)),
		SCmd::Pan(v, t) => format!("CPan {} {}", f32_bits_z(*v), otw_term(t)),
		SCmd::Pause(t) => format!("CPause {}", otw_term(t)),
		SCmd::Resume(st, t) => format!("CResume {} {}", ostart_term(st), otw_term(t)),
	}
}

struct SndCbTrace {
	state: PlaybackState,
	pos: f64,
	chunks: Vec<(usize, ClockSnap)>,
	out: Vec<f32>, // interleaved stereo
}
struct SndTrace {
	/// the callbacks as executed (`until_audible` expanded)
	exec: Vec<SCb>,
	cbs: Vec<SndCbTrace>,
	tab: Vec<(u32, u32, u32)>,
	panicked: Option<i128>,
}
const CLOCK_TPS: f64 = 64.0; // one tick every 16 frames at 1024 Hz

fn dc_frames() -> Arc<[Frame]> {
	static FRAMES: std::sync::OnceLock<Arc<[Frame]>> = std::sync::OnceLock::new();
	FRAMES.get_or_init(|| Arc::from(vec![Frame::from_mono(0.5); 1 << 16])).clone()
}

fn run_snd(sc: &SndScen) -> SndTrace {
	let _ = kira::verif::take_powf32_log();
	let r = catch(|| {
		let log: ChunkLog = Arc::new(Mutex::new(vec![]));
		let ids: ClockIds = Arc::new(Mutex::new(vec![]));
		let mut mgr: Mgr = manager(OSR, sc.ibs, Capacities::default(), MainTrackBuilder::new().with_effect(ChunkProbeBuilder(ids.clone(), log.clone())));
		let mut clock: ClockHandle = mgr.add_clock(ClockSpeed::TicksPerSecond(CLOCK_TPS)).unwrap();
		clock.start();
		ids.lock().unwrap().push(clock.id());
		let cids = vec![clock.id()];
		let mut h = if sc.streaming {
			let calls = Arc::new(AtomicU64::new(0));
			let settings = StreamingSoundSettings::new().volume(Decibels(sc.vol0)).playback_rate(PlaybackRate(sc.rate0)).panning(Panning(sc.pan0)).start_time(mk_ostart(&cids, &sc.st));
			let data = StreamingSoundData::from_decoder(DcDecoder { amp: sc.src, calls: calls.clone() }).with_settings(settings);
			let h = mgr.play(data).unwrap();
			// the decoder thread keeps ahead: a second `decode` call means the first packet (4096 frames) is in the ring
			let t0 = std::time::Instant::now();
			while calls.load(Ordering::SeqCst) < 2 && t0.elapsed() < Duration::from_secs(20) {
				std::thread::sleep(Duration::from_micros(200));
			}
			assert!(calls.load(Ordering::SeqCst) >= 2, "decoder thread did not start");
			SndH::Sm(h)
		} else {
			let settings = StaticSoundSettings::new().volume(Decibels(sc.vol0)).playback_rate(PlaybackRate(sc.rate0)).panning(Panning(sc.pan0)).start_time(mk_ostart(&cids, &sc.st));
			let mut frames = dc_frames();
			if sc.src != 0.5 {
				frames = Arc::from(vec![Frame::from_mono(sc.src); 1 << 14]);
			}
			SndH::St(mgr.play(StaticSoundData { sample_rate: OSR, frames, settings, slice: None }).unwrap())
		};
		let mut cbs = vec![];
		let mut exec = vec![];
		for cb in &sc.cbs {
			let mut rep = 0;
			loop {
				let cmds = if rep == 0 { cb.cmds.clone() } else { vec![] };
				for c in &cmds {
					h.apply(&cids, c);
				}
				let out = mgr.backend_mut().callback(cb.frames, 2);
				let chunks = std::mem::take(&mut *log.lock().unwrap());
				let heard = out.iter().any(|x| *x != 0.0);
				cbs.push(SndCbTrace { state: h.state(), pos: h.position(), chunks, out });
				exec.push(SCb { cmds, frames: cb.frames, until_audible: false });
				rep += 1;
				if !cb.until_audible || heard || rep >= 60 {
					break;
				}
			}
		}
		(exec, cbs)
	});
	let tab = kira::verif::take_powf32_log();
	match r {
		Outcome::Ok((exec, cbs)) => SndTrace { exec, cbs, tab, panicked: None },
		Outcome::Panic(c) => SndTrace { exec: vec![], cbs: vec![], tab, panicked: Some(1000 + c) },
		Outcome::Hang => SndTrace { exec: vec![], cbs: vec![], tab, panicked: Some(2000) },
	}
}

fn snd_term(sc: &SndScen, tr: &SndTrace) -> String {
	let cbs = tr
		.exec
		.iter()
		.zip(tr.cbs.iter())
		.map(|(cb, t)| format!("SCb [{}] {}", cb.cmds.iter().map(scmd_term).collect::<Vec<_>>().join("; "), chunks_term(&t.chunks)))
		.collect::<Vec<_>>()
		.join("; ");
	format!(
		"AOwn (CSnd {} {} {} {} {} {} {} [{}] {})",
		sc.streaming as u8,
		OSR,
		f32_bits_z(sc.src),
		f32_bits_z(sc.vol0),
		f64_bits_z(sc.rate0),
		f32_bits_z(sc.pan0),
		ostart_term(&sc.st),
		cbs,
		tab32_term(&tr.tab)
	)
}
fn snd_obs(tr: &SndTrace) -> Vec<i128> {
	if let Some(c) = tr.panicked {
		return vec![c];
	}
	let mut o = vec![];
	for cb in &tr.cbs {
		o.push(state_code(cb.state));
		o.push(obs64(cb.pos));
		o.extend(cb.out.iter().map(|x| obs32(*x)));
	}
	o
}

/// what a chunk-end frame must be when the fade is at unity
fn expected_lr(src: f64, vol_db: f64, pan: f64) -> (f64, f64) {
	let a = src * db_amp(vol_db as f32 as f64);
	let (l, r) = if pan == 0.0 {
		(a, a)
	} else {
		let p = pan.clamp(-1.0, 1.0);
		let m = (p + 1.0) * 0.5;
		(a * (1.0 - m).sqrt() * std::f64::consts::SQRT_2, a * m.sqrt() * std::f64::consts::SQRT_2)
	};
	(l.clamp(-1.0, 1.0), r.clamp(-1.0, 1.0))
}

/// the monitors of one sound scenario; returns the failures (what)
fn snd_monitor(sc: &SndScen, tr: &SndTrace, checks: &mut (u64, u64, u64)) -> Vec<String> {
	let mut fails = vec![];
	let mut was_silent = false;
	let mut vol = Law::new(sc.vol0 as f64);
	let mut rate = Law::new(sc.rate0);
	let mut pan = Law::new(sc.pan0 as f64);
	let mut state_before = PlaybackState::Playing;
	let mut prev_pos: Option<(f64, Option<f64>)> = None; // position published at the start of the previous callback, advance expected during it
	for (k, (cb, t)) in tr.exec.iter().zip(tr.cbs.iter()).enumerate() {
		let mut state_cmd = false;
		let mut zero_resume = false;
		for c in &cb.cmds {
			match c {
				SCmd::Vol(v, tw) => vol.set(*v as f64, tw),
				SCmd::Rate(v, tw) => rate.set(*v, tw),
				SCmd::Pan(v, tw) => pan.set(*v as f64, tw),
				SCmd::Pause(_) => state_cmd = true,
				SCmd::Resume(st, tw) => {
					state_cmd = true;
					zero_resume = matches!(st, Start::Imm) && matches!(tw.start, Start::Imm) && tw.dur_ns == 0 && state_before == PlaybackState::Paused && !cb.cmds.iter().any(|c| matches!(c, SCmd::Pause(_)));
				}
			}
		}
		// position published at the start of this callback: the advance made during the previous one
		if let Some((p0, Some(want))) = prev_pos {
			checks.2 += 1;
			let got = (t.pos - p0) * OSR as f64;
			let tol = if sc.streaming { 1e-6 * (1.0 + want.abs()) } else { 1.0 + 1e-6 * want.abs() };
			if (got - want).abs() > tol {
				fails.push(format!(
					"callback {}: the position advanced by {got} source frames, but the playback rate following its tween law ({}) gives {want}",
					k - 1,
					rate.describe()
				));
			}
		}
		let eligible_cb = (state_before == PlaybackState::Playing && !state_cmd) || zero_resume;
		let mut off = 0usize;
		let mut advance = 0.0f64;
		// Before the first source frame has been consumed the interpolation window still holds the silent frame that
		// precedes the sound (resampler.rs / decode_scheduler.rs pre-seed), so at a fractional position the output is
		// not the source amplitude: nothing to do with tweens, not judged here.
		let mut consumed = t.pos * OSR as f64; // published at the start of this callback
		let mut all_audible = eligible_cb;
		for (len, clocks) in &t.chunks {
			let rate_prev = rate.value();
			let dtc = ODT * *len as f64;
			vol.advance(dtc, clocks);
			rate.advance(dtc, clocks);
			pan.advance(dtc, clocks);
			let frames = &t.out[off * 2..(off + len) * 2];
			off += len;
			let silent = frames.iter().all(|x| *x == 0.0);
			if silent {
				all_audible = false;
				was_silent = true;
			}
			// per-frame rate: interpolated from the previous chunk's final value
			let rc = rate.value();
			let mut consumed_before_last = consumed;
			for i in 0..*len {
				let a = (i + 1) as f64 / *len as f64;
				let step = (rate_prev + (rc - rate_prev) * a).abs();
				advance += step;
				if !silent {
					if i + 1 == *len {
						consumed_before_last = consumed;
					}
					consumed += step;
				}
			}
			if eligible_cb && !silent && consumed_before_last >= 1.5 {
				checks.0 += 1;
				if was_silent {
					checks.1 += 1;
				}
				let (l, r) = (frames[(len - 1) * 2] as f64, frames[(len - 1) * 2 + 1] as f64);
				let (wl, wr) = expected_lr(sc.src as f64, vol.value(), pan.value());
				let tol = |w: f64| 2e-3 + 1e-3 * w.abs();
				if (l - wl).abs() > tol(wl) || (r - wr).abs() > tol(wr) {
					let e2 = l * l + r * r;
					let a_obs = (e2 / 2.0).sqrt() / sc.src as f64;
					let pan_obs = if e2 > 0.0 { (r * r - l * l) / e2 } else { 0.0 };
					fails.push(format!(
						"callback {k}, chunk ending at frame {off}: last frame is ({l:?}, {r:?}) = gain {:.3} dB, balance {:.4}; the tween laws of the processed time give ({wl:?}, {wr:?}) = volume {:.3} dB [{}], panning {:.4} [{}]",
						20.0 * a_obs.log10(),
						pan_obs,
						vol.value(),
						vol.describe(),
						pan.value(),
						pan.describe()
					));
				}
			}
		}
		prev_pos = Some((t.pos, if all_audible && eligible_cb && !zero_resume { Some(advance) } else { None }));
		state_before = t.state;
	}
	fails
}

fn gen_otw(r: &mut Rng, allow_clock: bool) -> OTw {
	let start = match r.below(10) {
		0 | 1 => Start::Del((r.below(70) + 4) * 976_562 + r.below(2) * 500),
		2 if allow_clock => Start::Clk { clock: 0, ticks: r.below(7) + 1, fr: if r.chance(1, 2) { 0.0 } else { 0.5 } },
		_ => Start::Imm,
	};
	let dur_ns = match r.below(10) {
		0 => 0,
		1 => r.below(900_000) + 1,
		2 => (r.below(12) + 2) * 7_812_500, // k * 8 frames exactly
		_ => (r.below(150) + 16) * 976_562 + r.below(1000),
	};
	let easing = match r.below(6) {
		0 => Easing::InPowi(r.range(2, 3) as i32),
		1 => Easing::OutPowi(r.range(2, 3) as i32),
		2 => Easing::InOutPowi(2),
		_ => Easing::Linear,
	};
	OTw { start, dur_ns, easing }
}
fn gen_param_cmds(r: &mut Rng, force: bool) -> Vec<SCmd> {
	let mut v = vec![];
	let pick = if force { r.below(3) } else { 99 };
	if pick == 0 || r.chance(1, 3) {
		v.push(SCmd::Vol(*r.pick(&[0.0, -3.0, -6.0, -10.0, -20.0, -12.34, -40.0, 2.5]), gen_otw(r, true)));
	}
	if pick == 1 || r.chance(1, 4) {
		v.push(SCmd::Rate(*r.pick(&[0.5, 1.0, 1.5, 2.0, 3.0, 0.75, 1.1]), gen_otw(r, true)));
	}
	if pick == 2 || r.chance(1, 4) {
		v.push(SCmd::Pan(*r.pick(&[-1.0, -0.5, 0.0, 0.3, 0.75, 1.0]), gen_otw(r, true)));
	}
	v
}
fn gen_frames(r: &mut Rng, ibs: usize, max_mul: usize) -> usize {
	match r.below(8) {
		0 => 1,
		1 => ibs,
		2 => ibs + 1,
		3 => r.below(ibs as u64) as usize + 1,
		_ => r.below((ibs * max_mul) as u64) as usize + 1,
	}
}
fn gen_snd(r: &mut Rng, streaming: bool) -> SndScen {
	let ibs = *r.pick(&[8usize, 16, 32]);
	let mode = *r.pick(&["paused", "paused", "pausing", "waiting_delay", "waiting_clock", "start_delay", "start_clock", "playing"]);
	let st = match mode {
		"start_delay" => Start::Del((r.below(90) + 30) * 976_562 + 250),
		"start_clock" => Start::Clk { clock: 0, ticks: r.below(6) + 2, fr: if r.chance(1, 2) { 0.0 } else { 0.5 } },
		_ => Start::Imm,
	};
	let mut cbs = vec![];
	// lead-in (audible unless the start is pending)
	let lead = if matches!(st, Start::Imm) { r.below(3) as usize } else { 0 };
	for _ in 0..lead {
		cbs.push(SCb { until_audible: false, cmds: if r.chance(1, 3) { gen_param_cmds(r, false) } else { vec![] }, frames: r.below(4) as usize + 1 });
	}
	// into the silent state
	match mode {
		"paused" => cbs.push(SCb { until_audible: false, cmds: vec![SCmd::Pause(tw0())], frames: gen_frames(r, ibs, 2) }),
		"pausing" => cbs.push(SCb { until_audible: false, cmds: vec![SCmd::Pause(OTw { start: Start::Imm, dur_ns: (r.below(8) + 8) * 976_562, easing: Easing::Linear })], frames: r.below(3) as usize + 2 }),
		"waiting_delay" => {
			cbs.push(SCb { until_audible: false, cmds: vec![SCmd::Pause(tw0())], frames: gen_frames(r, ibs, 1) });
			cbs.push(SCb { until_audible: false, cmds: vec![SCmd::Resume(Start::Del((r.below(100) + 60) * 976_562), tw0())], frames: gen_frames(r, ibs, 2) });
		}
		"waiting_clock" => {
			cbs.push(SCb { until_audible: false, cmds: vec![SCmd::Pause(tw0())], frames: gen_frames(r, ibs, 1) });
			cbs.push(SCb { until_audible: false, cmds: vec![SCmd::Resume(Start::Clk { clock: 0, ticks: r.below(5) + 5, fr: 0.0 }, tw0())], frames: gen_frames(r, ibs, 2) });
		}
		_ => {}
	}
	// the silent stretch: commands to the parameters, time passing in random partitions
	let n = r.range(3, 6) as usize;
	let mut issued = false;
	for k in 0..n {
		let cmds = if k < 3 && (r.chance(2, 3) || (!issued && k == 2)) {
			issued = true;
			gen_param_cmds(r, true)
		} else {
			vec![]
		};
		let frames = if mode == "playing" { r.below(5) as usize + 1 } else if mode == "pausing" { r.below(6) as usize + 1 } else { gen_frames(r, ibs, 3) };
		cbs.push(SCb { until_audible: false, cmds, frames });
	}
	// out of it
	match mode {
		"paused" | "pausing" => cbs.push(SCb { until_audible: false, cmds: vec![SCmd::Resume(Start::Imm, tw0())], frames: r.below(6) as usize + 1 }),
		// the sound comes back by itself: short callbacks until it is heard
		"waiting_delay" | "waiting_clock" | "start_delay" | "start_clock" => cbs.push(SCb { until_audible: true, cmds: vec![], frames: r.below(7) as usize + 2 }),
		_ => {}
	}
	for _ in 0..r.range(2, 3) {
		cbs.push(SCb { until_audible: false, cmds: if r.chance(1, 5) { gen_param_cmds(r, false) } else { vec![] }, frames: r.below(6) as usize + 1 });
	}
	SndScen {
		streaming,
		ibs,
		src: 0.5,
		vol0: *r.pick(&[0.0f32, 0.0, -6.0, -12.5]),
		rate0: *r.pick(&[1.0f64, 1.0, 0.5, 2.0]),
		pan0: *r.pick(&[0.0f32, 0.0, -0.5, 0.25]),
		st,
		mode,
		cbs,
	}
}

fn owners_sounds(s: &mut Session, rng: &mut Rng, n: u64) {
	s.flush();
	s.shard_size = 5; // an owner case costs the model ~0.2 s: many small shards, evaluated in parallel
	for i in 0..n {
		let sc = gen_snd(rng, i % 2 == 1);
		let tr = run_snd(&sc);
		let term = snd_term(&sc, &tr);
		s.case(if sc.streaming { "owner_streaming_sound" } else { "owner_static_sound" }, term.clone(), &snd_obs(&tr), Some(hash_key(&term)));
		s.count(&format!("sound_mode_{}", sc.mode));
		if tr.panicked.is_some() {
			s.fail(format!("{sc:?}"), "panic while driving a sound through the manager".into(), None);
			continue;
		}
		let mut checks = (0, 0, 0);
		let fails = snd_monitor(&sc, &tr, &mut checks);
		*s.hist.entry("sound_chunk_end_frames_judged".into()).or_insert(0) += checks.0;
		*s.hist.entry("sound_chunk_end_frames_judged_after_silence".into()).or_insert(0) += checks.1;
		*s.hist.entry("sound_position_advances_judged".into()).or_insert(0) += checks.2;
		for f in fails {
			s.fail(format!("{} sound on the main track, 1024 Hz, internal buffer {}: {:?}", if sc.streaming { "streaming" } else { "static" }, sc.ibs, sc), f, None);
		}
	}
}

fn owners(s: &mut Session, rng: &mut Rng, args: &Args) {
	let mul = args.budget_mul * if args.thorough { 8 } else { 1 };
	owners_sounds(s, rng, 120 * mul);
}
